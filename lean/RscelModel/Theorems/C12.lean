import RscelModel.Model.Conv
import RscelModel.Model.Json
import RscelModel.Lemmas.StrOrder
/-
C12 — names resolve in a fixed order; program references compose and are depth-bounded.

Part 1: identifier position (`InterpStack::pop`): type, then parameter, then program (run now, under
        the same environment, one level deeper), else a Binding error value.
Part 2: call position (`Call`): bound function over macro over type constructor; on a receiver
        (`Access`): map field over method; user function over built-in of the same name.
Part 3: rebinding / re-adding replaces.
Part 4: the depth budget: exhausted ⇒ error; nested runs happen one level deeper (by construction);
        linear chains up to the limit evaluate to their length, beyond it fail; rings fail at every
        budget; loop iterations do not consume the budget.
Part 5: JSON-bound values equal directly bound values.
-/
namespace Rscel
namespace C12

variable {B : Builtins} {rec recTop : Rec}

/-! ### Part 1 — identifier position -/

/-- A type name wins over everything: parameters and programs of the same name are not consulted. -/
theorem ident_type_first (env : Env) (name : Str) (t : Val) (rest : List SVal) (log : Log)
    (ht : env.getType name = some t) :
    popS rec env { stack := .val (.ident name) :: rest, log := log } =
      .ok (.val t) { stack := rest, log := log } := by
  simp [popS, ht]

/-- Not a type name: a bound parameter wins over a program of the same name. -/
theorem ident_param_second (env : Env) (name : Str) (v : Val) (rest : List SVal) (log : Log)
    (ht : env.getType name = none) (hp : env.getParam name = some v) :
    popS rec env { stack := .val (.ident name) :: rest, log := log } =
      .ok (.val v) { stack := rest, log := log } := by
  simp [popS, ht, hp]

/-- What a program reference contributes to the referencing program: its value, or — when it fails —
    an error *value* (a failed operand, not the end of the referencing program). -/
def refValue (o : Out) : Val :=
  match o.res with
  | .ok v => v
  | .error a => .err a.kind

/-- Neither a type nor a parameter: a program of that name stored in the same context is run *now*,
    under the same environment (same bindings, same programs), through the nested-run callback. -/
theorem ident_program_third (env : Env) (name : Str) (code : List Instr) (rest : List SVal) (log : Log)
    (ht : env.getType name = none) (hp : env.getParam name = none) (hg : env.getProg name = some code) :
    popS rec env { stack := .val (.ident name) :: rest, log := log } =
      .ok (.val (refValue (rec env code true log))) { stack := rest, log := (rec env code true log).log } := by
  simp only [popS, ht, hp, hg, refValue]
  cases (rec env code true log).res <;> rfl

/-- Nothing of that name: a Binding error value — and the interpreter notes that it met a name it could not
    resolve (`markUnres`: recorded for the compiler's `check_for_const` only; in every run-time environment the
    log stays as it is, `ident_unbound_runtime`). -/
theorem ident_unbound (env : Env) (name : Str) (rest : List SVal) (log : Log)
    (ht : env.getType name = none) (hp : env.getParam name = none) (hg : env.getProg name = none) :
    popS rec env { stack := .val (.ident name) :: rest, log := log } =
      .ok (.val (.err .binding)) { stack := rest, log := markUnres env log } := by
  simp [popS, ht, hp, hg]

theorem ident_unbound_runtime (env : Env) (name : Str) (rest : List SVal) (log : Log)
    (htr : env.trackUnres = false)
    (ht : env.getType name = none) (hp : env.getParam name = none) (hg : env.getProg name = none) :
    popS rec env { stack := .val (.ident name) :: rest, log := log } =
      .ok (.val (.err .binding)) { stack := rest, log := log } := by
  rw [ident_unbound env name rest log ht hp hg, markUnres_untracked htr]

/-- The type table does not depend on what the caller bound: with bindings present, `int`, `string`, …
    resolve to their type whatever parameters, programs and functions exist. -/
theorem type_names_fixed (params : List (Str × Val)) (progs : List (Str × List Instr))
    (fns : List (Str × UserFn)) (name : Str) :
    ({ params := params, progs := progs, userFns := fns } : Env).getType name = typeByName name := rfl

/-- Anything on the stack that is not an identifier is popped as it is. -/
theorem nonident_popped_as_is (env : Env) (x : SVal) (rest : List SVal) (log : Log)
    (h : ∀ n, x ≠ .val (.ident n)) :
    popS rec env { stack := x :: rest, log := log } = .ok x { stack := rest, log := log } := by
  unfold popS
  split
  · rename_i hs; cases hs
  · rename_i name rest' hs
    simp only [List.cons.injEq] at hs
    exact absurd hs.1 (h name)
  · rename_i y rest' _ hs
    simp only [List.cons.injEq] at hs
    obtain ⟨h1, h2⟩ := hs
    subst h1; subst h2; rfl

/-! ### Part 2 — call position and receivers -/

/-- A function bound by the caller wins over a built-in function of the same name. -/
theorem user_function_over_builtin (env : Env) (name : Str) (f : UserFn) (hb : env.hasBinds = true)
    (hu : lookup env.userFns name = some f) : env.getFunc B name = some (.user name f) := by
  simp [Env.getFunc, hb, hu]

/-- The decision of `Call` on a plain identifier, given its already popped arguments:
    (1) a bound function — whatever macros or types carry the same name — is invoked;
    (2) otherwise a macro of that name is invoked on the unevaluated argument blocks;
    (3) otherwise a type of that name constructs from the evaluated arguments;
    (4) otherwise the call fails with a Runtime error value ("not callable"), and the interpreter notes that
        it met a name it could not resolve (`markUnres`; no change of a run-time log). -/
theorem call_func_over_macro_over_type (env : Env) (len n pc : Nat) (fname : Str) (s s1 s2 : St)
    (args : List Val)
    (h1 : popRaw s = .ok (.val (.ident fname)) s1) (h2 : popN rec env n s1 = .ok args s2) :
    (∀ c, env.getFunc B fname = some c →
        step B rec recTop env len (.call n) pc s = liftNext pc (invoke B rec recTop env c .null args s2)) ∧
    (env.getFunc B fname = none → env.isMacro fname = true →
        step B rec recTop env len (.call n) pc s =
          liftNext pc (invoke B rec recTop env (.macro_ fname) .null args s2)) ∧
    (∀ tn, env.getFunc B fname = none → env.isMacro fname = false → env.getType fname = some (.type tn) →
        step B rec recTop env len (.call n) pc s =
          match resolveArgs rec env args s2.log with
          | .error (a, l) => .ok pc (pushV (.err a.kind) { s2 with log := l })
          | .ok (vs, l) => .ok pc (pushV (B.ctor tn vs) { s2 with log := l })) ∧
    (env.getFunc B fname = none → env.isMacro fname = false → env.getType fname = none →
        step B rec recTop env len (.call n) pc s =
          .ok pc (pushV (.err .runtime) { s2 with log := markUnres env s2.log })) := by
  refine ⟨?_, ?_, ?_, ?_⟩
  · intro c hc; simp [step, h1, h2, hc]
  · intro hf hm; simp [step, h1, h2, hf, hm]
  · intro tn hf hm ht; simp [step, h1, h2, hf, hm, ht]; rfl
  · intro hf hm ht; simp [step, h1, h2, hf, hm, ht]

/-- On a map receiver a field of that name wins over any function or macro of that name … -/
theorem field_over_method (env : Env) (len pc : Nat) (name : Str) (m : VMap) (v : Val)
    (rest : List SVal) (log : Log) (hv : Map.get m name = some v) :
    step B rec recTop env len .access pc { stack := .val (.ident name) :: .val (.map m) :: rest, log := log } =
      .ok pc { stack := .val v :: rest, log := log } := by
  simp [step, popRaw, popV, popS, hv, pushV]

/-- … and only a map *without* such a field binds the method (function first, then macro). -/
theorem method_when_no_field (env : Env) (len pc : Nat) (name : Str) (m : VMap) (c : Callee)
    (rest : List SVal) (log : Log) (hv : Map.get m name = none) (hc : env.callable B name = some c) :
    step B rec recTop env len .access pc { stack := .val (.ident name) :: .val (.map m) :: rest, log := log } =
      .ok pc { stack := .bound c (.map m) :: rest, log := log } := by
  simp [step, popRaw, popV, popS, hv, hc]

/-- A method name resolves to a bound function before a macro. -/
theorem method_func_over_macro (env : Env) (name : Str) (c : Callee) (h : env.getFunc B name = some c) :
    env.callable B name = some c := by
  simp [Env.callable, h]

/-! ### Part 3 — rebinding replaces -/

theorem lookup_bind_self {α} (l : List (Str × α)) (k : Str) (v : α) : lookup ((k, v) :: l) k = some v := by
  simp [lookup]

theorem lookup_bind_other {α} (l : List (Str × α)) (k k' : Str) (v : α) (h : k' ≠ k) :
    lookup ((k, v) :: l) k' = lookup l k' := by
  simp [lookup, Ne.symm h]

/-- `bind_param` on an already bound name: later executions see the new value only. -/
theorem rebind_replaces (env : Env) (k : Str) (v₁ v₂ : Val) (hb : env.hasBinds = true) :
    ((env.bind k v₁).bind k v₂).getParam k = some v₂ := by
  simp [Env.bind, Env.getParam, hb, lookup]

theorem rebind_keeps_others (env : Env) (k k' : Str) (v : Val) (h : k' ≠ k) :
    (env.bind k v).getParam k' = env.getParam k' := by
  simp [Env.bind, Env.getParam, lookup, Ne.symm h]

/-- `add_program` on an existing name (the newest entry is found first). -/
def addProg (env : Env) (k : Str) (code : List Instr) : Env := { env with progs := (k, code) :: env.progs }

theorem readd_replaces (env : Env) (k : Str) (c₁ c₂ : List Instr) (hc : env.hasCtx = true) :
    (addProg (addProg env k c₁) k c₂).getProg k = some c₂ := by
  simp [addProg, Env.getProg, hc, lookup]

theorem readd_keeps_others (env : Env) (k k' : Str) (c : List Instr) (h : k' ≠ k) :
    (addProg env k c).getProg k' = env.getProg k' := by
  simp [addProg, Env.getProg, lookup, Ne.symm h]

/-! ### Part 4 — depth -/

/-- With no budget left nothing is executed: the run fails ("Max call depth exceeded"). -/
theorem depth_exhausted_is_error (env : Env) (code : List Instr) (resolve : Bool) (log : Log) :
    runAt B 0 env code resolve log = { res := .error .depth, log := log } := rfl

/-- The depth error reaches the referencing program as a Runtime error. -/
theorem depth_error_kind : Abort.depth.kind = .runtime := rfl

/-- By construction: a run at budget `b + 1` hands `runAt B b` — and nothing else — to `popS` (program
    references), `invoke` / `resolveArgs` (call arguments, f-string segments, which are `string(..)`
    calls), and `callMacro` (macro bodies, `has` / `coalesce` arguments, `reduce` seeds) as the
    nested-run callback.  Every nested block therefore runs with a strictly smaller budget, whatever
    construct it is reached through; only `eval_ident` (the loop variable's name) starts afresh, and
    in its empty interpreter nothing can be referenced or called. -/
theorem nested_runs_at_smaller_budget (b : Nat) (env : Env) (code : List Instr) (resolve : Bool) (log : Log) :
    runAt B (b + 1) env code resolve log =
      match loop B (runAt B b) (runFresh B) env code (blockFuel code) 0 { stack := [], log := log } with
      | .fail a l => { res := .error a, log := l }
      | .ok _ s => finish (runAt B b) env resolve s := rfl

/-! #### linear chains `p₀ := p₁ + 1, …, p_k := 0` -/

/-- The bytecode of `nxt + 1`. -/
def link (nxt : Str) : List Instr := [.push (.ident nxt), .push (.int 1), .add]
/-- The bytecode of `0`. -/
def leaf : List Instr := [.push (.int 0)]

theorem arith_ii (op a b) : arith op (.int a) (.int b) = intArm op a b := rfl

theorem add_one (d : Nat) (h : (d : Int) + 1 ≤ 9223372036854775807) :
    arith .add (.int d) (.int 1) = .int ((d : Int) + 1) := by
  have h2 : inI64 ((d : Int) + 1) = true := by
    rw [inI64_iff]; omega
  rw [arith_ii]
  simp only [intArm, ArithOp.onInt, narrowI, h2, if_true]

/-- One link, referenced program succeeded with an int. -/
theorem run_link_ok (b : Nat) (env : Env) (nxt : Str) (code : List Instr) (log log' : Log) (d : Nat)
    (ht : env.getType nxt = none) (hp : env.getParam nxt = none) (hg : env.getProg nxt = some code)
    (hd : (d : Int) + 1 ≤ 9223372036854775807)
    (hr : runAt B b env code true log = { res := .ok (.int d), log := log' }) :
    runAt B (b + 1) env (link nxt) true log = { res := .ok (.int ((d + 1 : Nat) : Int)), log := log' } := by
  have hadd := add_one d hd
  rw [show ((d + 1 : Nat) : Int) = (d : Int) + 1 by omega]
  simp [runAt, link, blockFuel, loop, step, liftNext, binop, popV, popS, pushV, finish, ht, hp, hg, hr, hadd]

/-- One link, referenced program failed: the referencing program fails too. -/
theorem run_link_err (b : Nat) (env : Env) (nxt : Str) (code : List Instr) (log log' : Log) (a : Abort)
    (ht : env.getType nxt = none) (hp : env.getParam nxt = none) (hg : env.getProg nxt = some code)
    (hr : runAt B b env code true log = { res := .error a, log := log' }) :
    runAt B (b + 1) env (link nxt) true log = { res := .error (.err a.kind), log := log' } := by
  simp [runAt, link, blockFuel, loop, step, liftNext, binop, popV, popS, pushV, finish, ht, hp, hg, hr,
    arith, errProp]

theorem run_leaf (b : Nat) (env : Env) (log : Log) :
    runAt B (b + 1) env leaf true log = { res := .ok (.int 0), log := log } := by
  simp [runAt, leaf, blockFuel, loop, step, popS, pushV, finish]

/-- `env` holds the chain `names 0 := names 1 + 1, …, names (k-1) := names k + 1, names k := 0`, and none
    of these names is a type name or a bound parameter. -/
structure IsChain (env : Env) (names : Nat → Str) (k : Nat) : Prop where
  notType : ∀ i, env.getType (names i) = none
  notParam : ∀ i, env.getParam (names i) = none
  links : ∀ i, i < k → env.getProg (names i) = some (link (names (i + 1)))
  last : env.getProg (names k) = some leaf

/-- The program stored under `names j` in a chain of length `k`. -/
def chainCode (names : Nat → Str) (k j : Nat) : List Instr := if j < k then link (names (j + 1)) else leaf

/-- Running the `j`-th program of the chain with more budget than the `d = k - j` references still to
    follow yields `d`; the call log is untouched. -/
theorem chain_value (env : Env) (names : Nat → Str) (k : Nat) (hc : IsChain env names k)
    (hk : (k : Int) ≤ 9223372036854775807) :
    ∀ (d j b : Nat) (log : Log), j + d = k → d < b →
      runAt B b env (chainCode names k j) true log = { res := .ok (.int d), log := log } := by
  intro d
  induction d with
  | zero =>
    intro j b log hj hb
    obtain ⟨b', rfl⟩ : ∃ b', b = b' + 1 := ⟨b - 1, by omega⟩
    have : ¬ j < k := by omega
    simp only [chainCode, this, if_false]
    exact run_leaf b' env log
  | succ d ih =>
    intro j b log hj hb
    obtain ⟨b', rfl⟩ : ∃ b', b = b' + 1 := ⟨b - 1, by omega⟩
    have hlt : j < k := by omega
    simp only [chainCode, hlt, if_true]
    have hnext := ih (j + 1) b' log (by omega) (by omega)
    have hg : env.getProg (names (j + 1)) = some (chainCode names k (j + 1)) := by
      unfold chainCode
      split
      · exact hc.links (j + 1) (by assumption)
      · have : j + 1 = k := by omega
        rw [this]; exact hc.last
    exact run_link_ok b' env (names (j + 1)) _ log log d (hc.notType _) (hc.notParam _) hg
      (by omega) hnext

/-- **Chains up to the limit evaluate correctly**: a chain of `k < 32` references (so `k + 1 ≤ 32`
    programs, in particular every chain 16 deep) executed the way `CelContext::exec` does yields `k`. -/
theorem chain_ok (env : Env) (names : Nat → Str) (k : Nat) (hc : IsChain env names k) (hk : k < 32) :
    execProg B env (chainCode names k 0) = { res := .ok (.int k), log := [] } := by
  have := chain_value (B := B) env names k hc (by omega) k 0 maxDepth [] (by omega)
    (by simp only [maxDepth]; omega)
  exact this

/-- With no more budget than references to follow the chain fails — at the bottom with the depth error,
    which every referencing program above passes on as a Runtime failure. -/
theorem chain_fails (env : Env) (names : Nat → Str) (k : Nat) (hc : IsChain env names k) :
    ∀ (b d j : Nat) (log : Log), j + d = k → b ≤ d →
      ∃ a, runAt B b env (chainCode names k j) true log = { res := .error a, log := log } ∧ a.kind = .runtime := by
  intro b
  induction b with
  | zero => intro d j log _ _; exact ⟨.depth, rfl, rfl⟩
  | succ b ih =>
    intro d j log hj hb
    have hlt : j < k := by omega
    obtain ⟨a, ha, hk⟩ := ih (d - 1) (j + 1) log (by omega) (by omega)
    have hg : env.getProg (names (j + 1)) = some (chainCode names k (j + 1)) := by
      unfold chainCode
      split
      · exact hc.links (j + 1) (by assumption)
      · have : j + 1 = k := by omega
        rw [this]; exact hc.last
    refine ⟨.err a.kind, ?_, hk⟩
    simp only [chainCode, hlt, if_true]
    exact run_link_err b env (names (j + 1)) _ log log a (hc.notType _) (hc.notParam _) hg ha

/-- **Too deep chains end in an error**: 32 or more references from the executed program. -/
theorem chain_too_deep (env : Env) (names : Nat → Str) (k : Nat) (hc : IsChain env names k) (hk : 32 ≤ k) :
    ∃ a, (execProg B env (chainCode names k 0)).res = .error a := by
  obtain ⟨a, ha, _⟩ := chain_fails (B := B) env names k hc maxDepth k 0 [] (by omega) (by simp only [maxDepth]; omega)
  exact ⟨a, by rw [execProg, ha]⟩

/-! #### cycles -/

/-- **A program that is just a reference to itself fails at every budget** (`a := a`). -/
theorem self_cycle_err (env : Env) (a : Str) (ht : env.getType a = none) (hp : env.getParam a = none)
    (hg : env.getProg a = some [.push (.ident a)]) :
    ∀ (b : Nat) (log : Log), ∃ e, runAt B b env [.push (.ident a)] true log = { res := .error e, log := log } := by
  intro b
  induction b with
  | zero => intro log; exact ⟨.depth, rfl⟩
  | succ b ih =>
    intro log
    obtain ⟨e, he⟩ := ih log
    refine ⟨.err e.kind, ?_⟩
    simp [runAt, blockFuel, loop, step, popS, pushV, finish, ht, hp, hg, he]

/-- `env` holds a ring of `n ≥ 1` programs `names i := names ((i+1) mod n) + 1` (a self-reference
    `a := a + 1` for `n = 1`, mutual recursion for `n = 2`, …). -/
structure IsRing (env : Env) (names : Nat → Str) (n : Nat) : Prop where
  notType : ∀ i, env.getType (names i) = none
  notParam : ∀ i, env.getParam (names i) = none
  links : ∀ i, i < n → env.getProg (names i) = some (link (names ((i + 1) % n)))

/-- **Every program of a reference ring fails at every budget**: the evaluation neither loops nor
    needs unbounded depth. -/
theorem ring_cycle_err (env : Env) (names : Nat → Str) (n : Nat) (hn : 0 < n) (hc : IsRing env names n) :
    ∀ (b i : Nat) (log : Log), i < n →
      ∃ e, runAt B b env (link (names ((i + 1) % n))) true log = { res := .error e, log := log } := by
  intro b
  induction b with
  | zero => intro i log _; exact ⟨.depth, rfl⟩
  | succ b ih =>
    intro i log hi
    have hlt : (i + 1) % n < n := Nat.mod_lt _ hn
    obtain ⟨e, he⟩ := ih ((i + 1) % n) log hlt
    exact ⟨.err e.kind, run_link_err b env _ _ log log e (hc.notType _) (hc.notParam _) (hc.links _ hlt) he⟩

/-! #### loops do not consume the budget -/

/-- Read off `loopList`: the body of the first element and the loop over the remaining elements use the
    *same* nested-run callback — iterating costs no depth. -/
theorem loops_free_of_budget {σ : Type} (env : Env) (x : Str) (body : List Instr)
    (k : σ → Val → Val → Sum Val σ) (fin : σ → Val) (v : Val) (vs : List Val) (acc : σ) (log : Log) :
    loopList rec env x body k fin (v :: vs) acc log =
      match (rec (env.bind x v) body true log).res with
      | .error a => (.err a.kind, (rec (env.bind x v) body true log).log)
      | .ok r =>
        match k acc v r with
        | .inl result => (result, (rec (env.bind x v) body true log).log)
        | .inr acc' => loopList rec env x body k fin vs acc' (rec (env.bind x v) body true log).log := by
  simp only [loopList, runBody]
  cases (rec (env.bind x v) body true log).res <;> rfl

/-- A non-failing, non-identifier value. -/
def Plain : Val → Prop
  | .err _ => False
  | .ident _ => False
  | _ => True

theorem run_var (b : Nat) (env : Env) (x : Str) (v : Val) (log : Log) (hb : env.hasBinds = true)
    (hx : typeByName x = none) (hv : Plain v) :
    runAt B (b + 1) (env.bind x v) [.push (.ident x)] true log = { res := .ok v, log := log } := by
  have ht : (env.bind x v).getType x = none := by simp [Env.getType, Env.bind, hx]
  have hp : (env.bind x v).getParam x = some v := by simp [Env.getParam, Env.bind, hb, lookup]
  cases v <;> simp_all [Plain, runAt, blockFuel, loop, step, popS, pushV, finish]

theorem mapLoop_any_length (b : Nat) (env : Env) (x : Str) (hb : env.hasBinds = true) (hx : typeByName x = none) :
    ∀ (l acc : List Val) (log : Log), (∀ v ∈ l, Plain v) →
      loopList (runAt B (b + 1)) env x [.push (.ident x)] (fun (acc : List Val) _ r => Sum.inr (r :: acc))
        (fun acc => Val.list acc.reverse) l acc log = (.list (acc.reverse ++ l), log) := by
  intro l
  induction l with
  | nil => intro acc log _; simp [loopList]
  | cons v vs ih =>
    intro acc log hl
    rw [loops_free_of_budget, run_var b env x v log hb hx (hl v (by simp))]
    simp only
    rw [ih (v :: acc) log (fun w hw => hl w (by simp [hw]))]
    simp

/-- **The length of a loop does not matter**: `l.map(x, x)` called from a program that has budget for
    just one more level returns `l` for a list of *any* length. -/
theorem loop_any_length (b : Nat) (env : Env) (x : Str) (l : List Val) (log : Log) (hb : env.hasBinds = true)
    (hx : typeByName x = none) (hl : ∀ v ∈ l, Plain v) :
    callMacro (runAt B (b + 1)) (runFresh B) env "map".toList (.list l) [[.push (.ident x)], [.push (.ident x)]] log =
      (.list l, log) := by
  have hid : evalIdent (runFresh B) [.push (.ident x)] = .ok x := by
    simp [evalIdent, runFresh, blockFuel, loop, step, pushV, finish, Env.getParam]
  have hne1 : ("map".toList = "has".toList) = False := by decide
  have hne2 : ("map".toList = "coalesce".toList) = False := by decide
  have hne3 : ("map".toList = "reduce".toList) = False := by decide
  simp only [callMacro, hne1, hne2, hne3, if_false, if_true, hid, rangeOf]
  rw [mapLoop_any_length b env x hb hx l [] log hl]
  simp

/-! #### a concrete chain for every length (non-vacuity of `IsChain` / `IsRing` for all `k`) -/

/-- `q`, `qq`, `qqq`, … — pairwise different, none of them a type name. -/
def qname (i : Nat) : Str := 'q' :: List.replicate i 'q'

theorem qname_inj (i j : Nat) (h : qname i = qname j) : i = j := by
  have := congrArg List.length h
  simpa [qname] using this

theorem qname_notType (i : Nat) : typeByName (qname i) = none := by
  simp [typeByName, typeTable, qname, List.find?]

theorem lookup_map_inj {α} (names : Nat → Str) (hinj : ∀ i j, names i = names j → i = j) (f : Nat → α) :
    ∀ (l : List Nat) (j : Nat), j ∈ l → lookup (l.map fun i => (names i, f i)) (names j) = some (f j) := by
  intro l
  induction l with
  | nil => intro j hj; cases hj
  | cons a l ih =>
    intro j hj
    simp only [List.map_cons, lookup]
    by_cases h : names a = names j
    · simp [hinj a j h]
    · simp only [h, if_false]
      rcases List.mem_cons.mp hj with rfl | h'
      · exact absurd rfl h
      · exact ih j h'

/-- A context holding exactly the chain `q := qq + 1, qq := qqq + 1, …` of `k` references; no bindings. -/
def chainEnv (k : Nat) : Env :=
  { progs := (List.range (k + 1)).map fun i => (qname i, chainCode qname k i) }

theorem chainEnv_isChain (k : Nat) : IsChain (chainEnv k) qname k where
  notType i := by simp [chainEnv, Env.getType, qname_notType]
  notParam i := by simp [chainEnv, Env.getParam, lookup]
  links i hi := by
    have := lookup_map_inj qname qname_inj (chainCode qname k) (List.range (k + 1)) i (by simp; omega)
    have h : (chainEnv k).getProg (qname i) =
      lookup ((List.range (k + 1)).map fun i => (qname i, chainCode qname k i)) (qname i) := rfl
    rw [h, this]; simp [chainCode, hi]
  last := by
    have := lookup_map_inj qname qname_inj (chainCode qname k) (List.range (k + 1)) k (by simp)
    have h : (chainEnv k).getProg (qname k) =
      lookup ((List.range (k + 1)).map fun i => (qname i, chainCode qname k i)) (qname k) := rfl
    rw [h, this]; simp [chainCode]

/-- The concrete statement: in the context `chainEnv k`, `exec("q")` yields `k` for every `k < 32` and
    fails for every `k ≥ 32`. -/
theorem chain_concrete (k : Nat) :
    (k < 32 → execProg B (chainEnv k) (chainCode qname k 0) = { res := .ok (.int k), log := [] }) ∧
    (32 ≤ k → ∃ a, (execProg B (chainEnv k) (chainCode qname k 0)).res = .error a) :=
  ⟨chain_ok _ _ k (chainEnv_isChain k), chain_too_deep _ _ k (chainEnv_isChain k)⟩

/-- A context holding a ring of `n` programs. -/
def ringEnv (n : Nat) : Env :=
  { progs := (List.range n).map fun i => (qname i, link (qname ((i + 1) % n))) }

theorem ringEnv_isRing (n : Nat) : IsRing (ringEnv n) qname n where
  notType i := by simp [ringEnv, Env.getType, qname_notType]
  notParam i := by simp [ringEnv, Env.getParam, lookup]
  links i hi := by
    have := lookup_map_inj qname qname_inj (fun i => link (qname ((i + 1) % n))) (List.range n) i (by simp; omega)
    have h : (ringEnv n).getProg (qname i) =
      lookup ((List.range n).map fun i => (qname i, link (qname ((i + 1) % n)))) (qname i) := rfl
    rw [h, this]

/-- Executing any member of a ring of any size fails. -/
theorem ring_concrete (n i : Nat) (hi : i < n) :
    ∃ e, (execProg B (ringEnv n) (link (qname ((i + 1) % n)))).res = .error e := by
  obtain ⟨e, he⟩ := ring_cycle_err (B := B) (ringEnv n) qname n (by omega) (ringEnv_isRing n) maxDepth i [] hi
  exact ⟨e, by rw [execProg, he]⟩

/-! ### Part 5 — JSON -/

/-- The number rule of `From<serde_json::Value>`: `as_i64` first, then `as_u64`, then `as_f64`. -/
theorem json_number_rule :
    (∀ n : Nat, (n : Int) ≤ i64Max → (Json.num (.pos n)).toVal = .int n) ∧
    (∀ n : Nat, ¬ (n : Int) ≤ i64Max → (Json.num (.pos n)).toVal = .uint n) ∧
    (∀ i : Int, (Json.num (.neg i)).toVal = .int i) ∧
    (∀ b : UInt64, (Json.num (.float b)).toVal = .float b) := by
  refine ⟨?_, ?_, fun _ => rfl, fun _ => rfl⟩
  · intro n h; simp [Json.toVal, JNum.toVal, h]
  · intro n h; simp [Json.toVal, JNum.toVal, h]

/-- Keys strictly ascending (the representation invariant of the model's maps). -/
def SortedKeys {α} : List (Str × α) → Prop
  | [] => True
  | (k, _) :: rest => (∀ e ∈ rest, strLt k e.1 = true) ∧ SortedKeys rest

mutual
/-- Every map inside the value is in canonical form. -/
def Canon : Val → Prop
  | .list l => CanonList l
  | .map m => SortedKeys m ∧ CanonEntries m
  | _ => True
def CanonList : List Val → Prop
  | [] => True
  | v :: vs => Canon v ∧ CanonList vs
def CanonEntries : List (Str × Val) → Prop
  | [] => True
  | (_, v) :: rest => Canon v ∧ CanonEntries rest
end

theorem insert_above (acc : VMap) (k : Str) (v : Val) (h : ∀ e ∈ acc, strLt e.1 k = true) :
    Map.insert acc k v = acc ++ [(k, v)] := by
  induction acc with
  | nil => rfl
  | cons e rest ih =>
    obtain ⟨k', v'⟩ := e
    have h1 : strLt k' k = true := h (k', v') (by simp)
    have h2 : strLt k k' = false := strLt_asymm k' k h1
    simp only [Map.insert, h2, h1, if_true, List.cons_append]
    rw [ih (fun e he => h e (by simp [he]))]
    simp

theorem foldl_insert_sorted (m : VMap) : ∀ (acc : VMap), SortedKeys m →
    (∀ a ∈ acc, ∀ e ∈ m, strLt a.1 e.1 = true) →
    m.foldl (fun a e => Map.insert a e.1 e.2) acc = acc ++ m := by
  induction m with
  | nil => intro acc _ _; simp
  | cons e rest ih =>
    intro acc hs hacc
    obtain ⟨k, v⟩ := e
    simp only [List.foldl_cons]
    rw [insert_above acc k v (fun a ha => hacc a ha (k, v) (by simp))]
    rw [ih (acc ++ [(k, v)]) hs.2]
    · simp
    · intro a ha e he
      rcases List.mem_append.mp ha with ha | ha
      · exact hacc a ha e (by simp [he])
      · simp only [List.mem_singleton] at ha
        subst ha
        exact hs.1 e he

/-- Building a map from its own (sorted) entry list gives the same map. -/
theorem ofList_sorted (m : VMap) (h : SortedKeys m) : Map.ofList m = m := by
  have := foldl_insert_sorted m [] h (by intro a ha; cases ha)
  simpa [Map.ofList] using this

mutual
/-- **JSON-bound equals directly bound**: a value that JSON can spell (null, booleans, ints, uints above
    `i64::MAX`, finite doubles, strings, lists and maps of those) converted from its JSON document is
    the value itself. -/
theorem json_same : ∀ (v : Val) (j : Json), Json.ofVal v = some j → Canon v → j.toVal = v
  | .null, j, h, _ => by simp [Json.ofVal] at h; subst h; rfl
  | .bool b, j, h, _ => by simp [Json.ofVal] at h; subst h; rfl
  | .int i, j, h, _ => by
    simp only [Json.ofVal] at h
    split at h
    · rename_i hr
      simp only [Option.some.injEq] at h
      subst h
      by_cases hneg : i < 0
      · simp [hneg, Json.toVal, JNum.toVal]
      · have hi : ((i.toNat : Nat) : Int) = i := Int.toNat_of_nonneg (by omega)
        have hle : i ≤ i64Max := by
          rw [inI64_iff] at hr; simp only [i64Max]; omega
        simp [hneg, Json.toVal, JNum.toVal, hle, hi]
    · cases h
  | .uint n, j, h, _ => by
    simp only [Json.ofVal] at h
    split at h
    · rename_i hr
      simp only [Option.some.injEq] at h
      subst h
      have : ¬ (n : Int) ≤ i64Max := by omega
      simp [Json.toVal, JNum.toVal, this]
    · cases h
  | .float b, j, h, _ => by
    simp only [Json.ofVal] at h
    split at h
    · simp only [Option.some.injEq] at h; subst h; rfl
    · cases h
  | .str s, j, h, _ => by simp [Json.ofVal] at h; subst h; rfl
  | .list l, j, h, hc => by
    simp only [Json.ofVal, Option.map_eq_some_iff] at h
    obtain ⟨js, hjs, rfl⟩ := h
    simp only [Json.toVal]
    rw [json_same_list l js hjs hc]
  | .map m, j, h, hc => by
    simp only [Json.ofVal, Option.map_eq_some_iff] at h
    obtain ⟨jm, hjm, rfl⟩ := h
    simp only [Json.toVal]
    rw [json_same_entries m jm hjm hc.2 []]
    have := ofList_sorted m hc.1
    simp only [Map.ofList] at this
    rw [this]
  | .bytes _, _, h, _ | .ident _, _, h, _ | .type _, _, h, _ | .ts _, _, h, _ | .dur _, _, h, _
  | .code _, _, h, _ | .err _, _, h, _ => by simp [Json.ofVal] at h
theorem json_same_list : ∀ (l : List Val) (js : List Json), Json.ofVals l = some js → CanonList l →
    Json.toVals js = l
  | [], js, h, _ => by simp [Json.ofVals] at h; subst h; rfl
  | v :: vs, js, h, hc => by
    simp only [Json.ofVals] at h
    split at h
    · rename_i j js' hj hjs
      simp only [Option.some.injEq] at h
      subst h
      simp only [Json.toVals]
      rw [json_same v j hj hc.1, json_same_list vs js' hjs hc.2]
    · cases h
theorem json_same_entries : ∀ (m : List (Str × Val)) (jm : List (Str × Json)), Json.ofEntries m = some jm →
    CanonEntries m → ∀ acc, Json.toEntries jm acc = m.foldl (fun a e => Map.insert a e.1 e.2) acc
  | [], jm, h, _, acc => by simp [Json.ofEntries] at h; subst h; rfl
  | (k, v) :: rest, jm, h, hc, acc => by
    simp only [Json.ofEntries] at h
    split at h
    · rename_i j jm' hj hjm
      simp only [Option.some.injEq] at h
      subst h
      simp only [Json.toEntries, List.foldl_cons]
      rw [json_same v j hj hc.1]
      exact json_same_entries rest jm' hjm hc.2 _
    · cases h
end

/-- `bind_params_from_json_obj({k: j})` leaves the same bindings as `bind_param(k, v)`. -/
theorem bind_json_eq_bind_direct (env : Env) (k : Str) (v : Val) (j : Json)
    (hj : Json.ofVal v = some j) (hc : Canon v) :
    bindJson env.params (.obj [(k, j)]) = .ok (env.bind k v).params := by
  simp [bindJson, Env.bind, json_same v j hj hc]

/-- Anything but an object binds nothing and is refused. -/
theorem bind_json_needs_object (ps : List (Str × Val)) (j : Json) (h : ∀ m, j ≠ .obj m) :
    bindJson ps j = .error .misc := by
  cases j <;> simp_all [bindJson]

/-! ### Non-vacuity -/

section Examples
open Json

private def tenv : Env :=
  { params := [("v".toList, .int 5), ("int".toList, .int 6)],
    progs := [("v".toList, [.push (.int 7)]), ("p".toList, [.push (.int 8)]), ("int".toList, [.push (.int 9)])],
    userFns := [("has".toList, .const (.int 99)), ("int".toList, .const (.int 98))] }

-- `int` is a type although a parameter and a program carry that name
example : tenv.getType "int".toList = some (.type "int".toList) := by repeat' constructor
-- `v` is a parameter and a program: the parameter wins
example : tenv.getType "v".toList = none ∧ tenv.getParam "v".toList = some (.int 5) := by repeat' constructor
-- `p` is only a program
example : tenv.getType "p".toList = none ∧ tenv.getParam "p".toList = none ∧
    tenv.getProg "p".toList = some [.push (.int 8)] := by repeat' constructor
-- `zz` is nothing
example : tenv.getType "zz".toList = none ∧ tenv.getParam "zz".toList = none ∧ tenv.getProg "zz".toList = none := by
  repeat' constructor
-- a user function named like a macro / like a type is found as a function first
example : (tenv.getFunc (stdBuiltins 0) "has".toList).isSome = true ∧ tenv.isMacro "has".toList = true := by
  repeat' constructor
example : (tenv.getFunc (stdBuiltins 0) "int".toList).isSome = true := by repeat' constructor
-- a macro that is not a function, a type that is neither, a name that is nothing
example : (tenv.getFunc (stdBuiltins 0) "map".toList).isNone = true ∧ tenv.isMacro "map".toList = true := by
  repeat' constructor
example : (tenv.getFunc (stdBuiltins 0) "uint".toList).isNone = true ∧ tenv.isMacro "uint".toList = false ∧
    tenv.getType "uint".toList = some (.type "uint".toList) := by repeat' constructor
-- a map with a key named like a function
example : Map.get [("size".toList, .int 7)] "size".toList = some (.int 7) := by repeat' constructor
example : Map.get [("a".toList, .int 7)] "size".toList = none := by repeat' constructor
-- JSON
example : ofVal (.list [.int (-5), .uint 9223372036854775808, .map [("a".toList, .null)]]) =
    some (.arr [.num (.neg (-5)), .num (.pos 9223372036854775808), .obj [("a".toList, .null)]]) := by repeat' constructor
example : ofVal (.uint 5) = none := by repeat' constructor
example : Canon (.map [("a".toList, .int 1), ("b".toList, .list [.map []])]) := by
  simp [Canon, CanonList, CanonEntries, SortedKeys, strLt]
example : Plain (.int 3) := trivial
example : typeByName "x".toList = none := by rfl
example : IsChain (chainEnv 31) qname 31 := chainEnv_isChain 31
example : IsRing (ringEnv 2) qname 2 := ringEnv_isRing 2

end Examples

end C12
end Rscel
