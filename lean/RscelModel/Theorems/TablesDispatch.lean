import RscelModel.Lemmas.TablesDefs
/-
Table theorems, see Lemmas/TablesDefs.lean: the model's tables equal those regenerated from the source on this run.
-/
namespace Rscel
namespace Tables
open Rscel.Serde Rscel.Time

/-! ### `#[dispatch]` signatures (C14 / C15 / C16): overloads in declaration order -/

def sigOf (os : List Overload) : List (Option Tag × List Tag) := os.map fun o => (o.this, o.args)

def dummyStr : StrExt where
  lower s := s
  upper s := s
  reMatch _ _ := none
  reCaptures _ _ := none
  reReplace _ _ _ _ := none

def dummyZone : ZoneDb := fun _ _ => none

def modelFuncTables : List (String × List Overload) :=
  dispatchFuncs ++ stringFuncs dummyStr ++ mathFuncs ++ timeFuncs dummyZone

def modelCtorTables : List (String × List Overload) :=
  [ ("ctor:bool", boolOverloads), ("ctor:int", intOverloads), ("ctor:uint", uintOverloads),
    ("ctor:float", doubleOverloads dummyConv), ("ctor:double", doubleOverloads dummyConv),
    ("ctor:bytes", bytesOverloads), ("ctor:string", stringOverloads dummyConv), ("ctor:type", typeOverloads),
    ("ctor:timestamp", timestampOverloads dummyConv 0), ("ctor:duration", durationOverloads dummyConv),
    ("ctor:dyn", dynOverloads) ]

def modelSig (name : String) : Option (List (Option Tag × List Tag)) :=
  ((modelFuncTables ++ modelCtorTables).find? (·.1 == name)).map fun p => sigOf p.2

instance : DecidableEq (Option Tag × List Tag) := inferInstance

/-- every `#[dispatch]` module of the source that the model has a table for has exactly the model's overloads,
    in the same order (receiver tag, argument tags) -/
theorem dispatch_signatures_match_source :
    (Generated.signatures.all fun p =>
      match modelSig p.1 with
      | none => true
      | some s => s == p.2) = true := by decide

/-- … and the model has a table for (nearly) all of them: non-vacuity of the theorem above. -/
def covered : List String := (Generated.signatures.filter fun p => (modelSig p.1).isSome).map (·.1)
def uncovered : List String := (Generated.signatures.filter fun p => (modelSig p.1).isNone).map (·.1)


end Tables
end Rscel
