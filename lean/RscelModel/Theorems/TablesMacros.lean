import RscelModel.Lemmas.TablesDefs
/-
Table theorems, see Lemmas/TablesDefs.lean: the model's tables equal those regenerated from the source on this run.
-/
namespace Rscel
namespace Tables
open Rscel.Serde Rscel.Time

/-- C08 / C09: the macros known at run time and at compile time (`has` and `coalesce` only at run time). -/
theorem macro_tables_match_source :
    agrees Generated.defaultMacros defaultMacros sameSet = true ∧
    agrees Generated.compileMacros compileMacros sameSet = true := by decide

/-- C09: the functions the compiler never pre-evaluates because they read the clock. -/
theorem clock_functions_match_source :
    agrees Generated.clockFunctions clockFunctions sameSet = true := by decide


end Tables
end Rscel
