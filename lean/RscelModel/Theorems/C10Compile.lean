import RscelModel.Lemmas.Infer
import RscelModel.Theorems.C10
/-
C10, compiler side — every program the *model compiler* emits is well-formed on every path.

`Theorems/C10.lean` proves the checker sound against the VM and the check runs it per program on the real
bytecode.  Here the universal statement is proved for the Lean compiler model (`Model/Compile.lean`):

* `compile_certified` / `compile_wfFlat` — for every syntax tree and every set of built-ins, the emitted
  block has a stack-height certificate `0 ↦ 1` and the executable checker `wfFlat` accepts it.  Mutual
  induction over the AST following `compileX`, `compileCases`, `compilePat`, `compileList`, `compileInits`,
  `compileSegs`, `compilePrim`, `compileArgs`, `compileOps`, with the fragment calculus of `Lemmas/Cert.lean`
  (`Seg`); `||` / `&&` chains carry their pieces (`GoodX`) because an enclosing node re-assembles them.
* `flat_sound_cert`, `run_block_clean_cert`, `compiled_program_runs_clean` — the VM never reports underflow /
  bad jump / fuel on compiled code (given clean nested runs).
* `compile_nested_certified`, `compile_wf` — nested blocks at every depth, and `wfBlock` as a whole; the only
  hypothesis is `ConstEvalCert` (values computed by *evaluating* a call at compile time hold no uncertified
  code).  Constant folding proper is proved not to create code (`Lemmas/CertNested.lean`).
* `Lemmas/Infer.lean`: `wfFlat` accepts exactly the blocks that have a certificate (`infer_complete`).

Nothing is missing from the compiler model's constructs; what is *not* covered is the real compiler (tied by
the bytecode correspondence) and `ConstEvalCert`.
-/
namespace Rscel
namespace C10
open Cert

variable (B : Builtins)

/-- What the induction carries for a node: its code is an expression segment and, when the node is an
    `||` / `&&` chain, so are the pieces of the chain an enclosing node of the same operator re-assembles. -/
def GoodX (x : CPX) : Prop :=
  Seg x.cp.toCode 0 1 ∧
    ∀ op f rs, x.chain = some (op, f, rs) → Seg f 0 1 ∧ ∀ c ∈ rs, Seg c 0 1

theorem goodX_plain {cp : CP} (h : Seg cp.toCode 0 1) : GoodX { cp := cp } :=
  ⟨h, by intro op f rs h; cases h⟩

theorem seg_const (v : Val) : Seg (CP.const v).toCode 0 1 := seg_push v 0

theorem seg_checkForConst (ids : List Str) (code : List Instr) (h : Seg code 0 1) :
    Seg (checkForConst B ids code).toCode 0 1 := by
  unfold checkForConst
  dsimp only
  split
  · exact h
  · split
    · split
      · exact h
      · exact seg_const _
    · exact h

theorem goodX_chain (op : BinOp) {first r : List Instr} {rest : List (List Instr)}
    (hf : Seg first 0 1) (hrest : ∀ c ∈ rest, Seg c 0 1) (hr : Seg r 0 1) :
    GoodX { cp := .code (first ++ chainTail (op == .or) op.instr (rest ++ [r])),
            chain := some (op, first, rest ++ [r]) } := by
  have hall : ∀ c ∈ rest ++ [r], Seg c 0 1 := by
    intro c hc
    rcases List.mem_append.mp hc with h | h
    · exact hrest c h
    · simp at h; subst h; exact hr
  refine ⟨seg_chain _ _ (binOp_simple op) (binOp_effect op) hf hall, ?_⟩
  intro op' f rs h
  simp only [Option.some.injEq, Prod.mk.injEq] at h
  obtain ⟨_, rfl, rfl⟩ := h
  exact ⟨hf, hall⟩

mutual
theorem compileX_good : (a : Ast) → GoodX (compileX B a)
  | .tern _ c t f => by
    have hc := (compileX_good c).1
    have ht := (compileX_good t).1
    have hf := (compileX_good f).1
    simp only [compileX]
    split
    · exact goodX_plain (seg_const _)
    · apply goodX_plain; split <;> assumption
    · rename_i code heq
      rw [heq] at hc
      exact goodX_plain (seg_tern hc ht hf)
  | .match_ _ s cases => by
    have hs := (compileX_good s).1
    have hcs := compileCases_good cases
    simp only [compileX]
    exact goodX_plain (seg_match hs hcs)
  | .bin _ op l r => by
    have hl := compileX_good l
    have hr := (compileX_good r).1
    simp only [compileX]
    split
    · cases hch : (compileX B l).chain with
      | none =>
        dsimp only
        exact goodX_chain op hl.1 (by simp) hr
      | some pr =>
        obtain ⟨op', f, rs⟩ := pr
        obtain ⟨hf, hrs⟩ := hl.2 op' f rs hch
        dsimp only
        split
        · exact goodX_chain op hf hrs hr
        · exact goodX_chain op hl.1 (by simp) hr
    · split
      · exact goodX_plain (seg_const _)
      · exact goodX_plain (seg_binary (binOp_simple op) (binOp_effect op) hl.1 hr)
  | .notRun _ ops m => by
    have hm := (compileX_good m).1
    simp only [compileX]
    exact goodX_plain (seg_unary .not (fun _ _ => rfl) rfl _ hm)
  | .negRun _ ops m => by
    have hm := (compileX_good m).1
    simp only [compileX]
    exact goodX_plain (seg_unary .neg (fun _ _ => rfl) rfl _ hm)
  | .member _ p chain => by
    simp only [compileX]
    exact goodX_plain (compileOps_good chain _ _ (compilePrim_good p))

theorem compileCases_good : (cs : List MCase) → ∀ pe ∈ compileCases B cs, Seg pe.1 1 1 ∧ Seg pe.2 0 1
  | [] => by simp [compileCases]
  | .mk _ p b :: rest => by
    have hp := compilePat_good p
    have hb := (compileX_good b).1
    have hr := compileCases_good rest
    simp only [compileCases, List.mem_cons]
    rintro pe (rfl | h)
    · exact ⟨hp, hb⟩
    · exact hr pe h

theorem compilePat_good : (p : Pat) → Seg (compilePat B p) 1 1
  | .any _ => by
    simp only [compilePat]
    exact seg_cons (by simpa using seg_pop 0) (seg_push _ 0)
  | .type _ _ name => by
    simp only [compilePat]
    exact seg_cons (seg_push _ 1) (seg_cons (by simpa using seg_call 1 0)
      (seg_cons (seg_push _ 1) (by simpa using seg_bin .eq (fun _ _ => rfl) rfl 0)))
  | .cmp _ _ op e => by
    have he := (compileX_good e).1
    simp only [compilePat]
    exact seg_append (by simpa using seg_frame he 1) (by simpa using seg_bin _ (cmpOp_simple op) (cmpOp_effect op) 0)

theorem compileList_good : (es : List Ast) →
    (compileList B es).length = es.length ∧ ∀ c ∈ compileList B es, Seg c.toCode 0 1
  | [] => by simp [compileList]
  | e :: es => by
    have he := (compileX_good e).1
    have hr := compileList_good es
    simp only [compileList, List.length_cons, List.mem_cons, hr.1, true_and]
    rintro c (rfl | h)
    · exact he
    · exact hr.2 c h

theorem compileInits_good : (is : List MInit) →
    (compileInits B is).length = 2 * is.length ∧ ∀ c ∈ compileInits B is, Seg c.toCode 0 1
  | [] => by simp [compileInits]
  | .mk _ k v :: rest => by
    have hk := (compileX_good k).1
    have hv := (compileX_good v).1
    have hr := compileInits_good rest
    simp only [compileInits, List.length_cons, List.mem_cons, hr.1]
    refine ⟨by omega, ?_⟩
    rintro c (rfl | rfl | h)
    · exact hv
    · exact hk
    · exact hr.2 c h

theorem compileSegs_good : (segs : List FSegAst) → Seg (compileSegs B segs) 0 segs.length
  | [] => by simpa [compileSegs] using seg_nil 0
  | .lit s :: rest => by
    have hr := compileSegs_good rest
    simp only [compileSegs, List.length_cons]
    exact seg_append (seg_fseg _ 0) (by simpa [Nat.add_comm] using seg_frame hr 1)
  | .expr _ e :: rest => by
    have hr := compileSegs_good rest
    simp only [compileSegs, List.length_cons]
    exact seg_append (seg_fseg _ 0) (by simpa [Nat.add_comm] using seg_frame hr 1)

theorem compilePrim_good : (p : Prim) → Seg (compilePrim B p).toCode 0 1
  | .ident _ n => by simpa [compilePrim, CP.toCode] using seg_push _ 0
  | .parens _ e => by
    have he := (compileX_good e).1
    simpa [compilePrim] using he
  | .list _ es => by
    have h := compileList_good es
    simp only [compilePrim]
    split
    · exact seg_const _
    · exact seg_list (by simpa using h.1) (by simpa using h.2)
  | .map _ inits => by
    have h := compileInits_good inits
    simp only [compilePrim]
    split
    · exact seg_const _
    · exact seg_dict (by simpa using h.1) (by simpa using h.2)
  | .null _ => by simp only [compilePrim]; exact seg_const _
  | .int _ i => by simp only [compilePrim]; exact seg_const _
  | .uint _ n => by simp only [compilePrim]; exact seg_const _
  | .float _ b => by simp only [compilePrim]; exact seg_const _
  | .str _ s => by simp only [compilePrim]; exact seg_const _
  | .bytes _ b => by simp only [compilePrim]; exact seg_const _
  | .bool _ b => by simp only [compilePrim]; exact seg_const _
  | .fstr _ segs => by
    have h := compileSegs_good segs
    simp only [compilePrim]
    exact seg_append h (by simpa using seg_fmt segs.length 0)

theorem compileArgs_good : (as : List Ast) → Seg (compileArgs B as) 0 as.length
  | [] => by simpa [compileArgs] using seg_nil 0
  | a :: as => by
    have hr := compileArgs_good as
    simp only [compileArgs, List.length_cons]
    exact seg_cons (seg_push _ 0) (by simpa [Nat.add_comm] using seg_frame hr 1)

theorem compileOps_good : (ops : List MOp) → ∀ (ids : List Str) (cur : CP), Seg cur.toCode 0 1 →
    Seg (compileOps B ids cur ops).toCode 0 1
  | [], _, _, h => by simpa [compileOps] using h
  | .access _ _ name :: rest, ids, cur, h => by
    simp only [compileOps]
    apply compileOps_good rest
    split
    · split
      · exact seg_const _
      · exact seg_cons (seg_push _ 0) (seg_cons (seg_push _ 1) (by simpa using seg_bin .access (fun _ _ => rfl) rfl 0))
    · exact seg_access name h
  | .call _ args :: rest, ids, cur, h => by
    have ha := compileArgs_good args
    simp only [compileOps]
    apply compileOps_good rest
    exact seg_checkForConst B _ _ (seg_callSeq ha h)
  | .index _ e :: rest, ids, cur, h => by
    have he := (compileX_good e).1
    simp only [compileOps]
    apply compileOps_good rest
    split
    · exact seg_const _
    · exact seg_binary (fun _ _ => rfl) rfl h he
end

/-- **Every program the model compiler emits has a stack-height certificate**: a table, known at every
    position, that `checkHeights` accepts for `0 ↦ 1` — forward in-range jumps only, no pop below the block's
    own values on any path, meeting paths agree, exactly one value at the end.  For every syntax tree
    (ternaries, `match`, `||` / `&&` chains of any length, operators, operator runs, lists, maps, f-strings,
    member/call/index chains, folded constants) and every set of built-ins. -/
theorem compile_certified (a : Ast) : ∃ H, checkHeights (compileProgram B a) H 0 1 = true :=
  seg_check (compileX_good B a).1

/-- The same for the executable checker (the inference is complete: `Cert.infer_complete`): **`wfFlat` accepts
    every compiled program**. -/
theorem compile_wfFlat (a : Ast) : wfFlat (compileProgram B a) 0 1 = true :=
  (wfFlat_iff_cert _ 0 1).mpr (compile_certified B a)

/-- The relative form: compiled code is an expression segment wherever it is placed — on top of any
    stack, inside any larger block. -/
theorem compile_seg (a : Ast) : Seg (compileProgram B a) 0 1 := (compileX_good B a).1

variable {B} {rec recTop : Rec}

/-- `flat_sound` from a certificate (any accepted table, not only the inferred one). -/
theorem flat_sound_cert (hrec : RecClean rec) (env : Env) (code : List Instr) (h0 hf : Nat)
    (hwf : ∃ H, checkHeights code H h0 hf = true) (s : St) (hs : s.stack.length = h0) (fuel : Nat)
    (hfuel : code.length + 1 ≤ fuel) :
    match loop B rec recTop env code fuel 0 s with
    | .ok _ s' => s'.stack.length = hf
    | .fail a _ => a.structural = false := by
  obtain ⟨H, hwf⟩ := hwf
  simp only [checkHeights, Bool.and_eq_true, beq_iff_eq] at hwf
  obtain ⟨⟨⟨_, h0'⟩, hfin⟩, hgo⟩ := hwf
  exact loop_sound hrec env code H hf hfin hgo fuel 0 s h0 (Nat.zero_le _) h0' hs (by omega)

/-- `run_block_clean` from a certificate. -/
theorem run_block_clean_cert (b : Nat) (hrec : RecClean (runAt B b)) (env : Env) (code : List Instr)
    (hwf : ∃ H, checkHeights code H 0 1 = true) (resolve : Bool) (log : Log) (a : Abort)
    (h : (runAt B (b + 1) env code resolve log).res = .error a) : a.structural = false := by
  simp only [runAt] at h
  have fs := flat_sound_cert (B := B) (recTop := runFresh B) hrec env code 0 1 hwf
    { stack := [], log := log } rfl (blockFuel code) (blockFuel_enough code)
  revert fs h
  cases loop B (runAt B b) (runFresh B) env code (blockFuel code) 0 { stack := [], log := log } with
  | fail a' l => intro h fs; simp at h; subst h; exact fs
  | ok u s' =>
    intro h fs
    simp only at fs h
    have hne : s'.stack ≠ [] := ne_nil_of_length (n := 0) fs
    unfold finish at h
    split at h
    · split at h
      · rename_i hp; simp at h; subst h; exact popS_fail hrec hne hp
      · simp at h; subst h; rfl
      · simp at h; subst h; rfl
      · simp at h
    · split at h
      · rename_i hst; exact absurd hst hne
      · simp at h; subst h; rfl
      · split at h
        · simp at h; subst h; rfl
        · simp at h
        · simp at h
      · simp at h; subst h; rfl
      · simp at h

/-- **Compiled programs run clean**: executing the code of any syntax tree, in any environment, at any
    depth budget, never ends in a stack underflow, an out-of-range jump or fuel exhaustion — provided the
    nested executions it triggers do not (which the same theorem gives for nested blocks that are compiled
    subtrees, one nesting level down). -/
theorem compiled_program_runs_clean (B : Builtins) (a : Ast) (b : Nat) (hrec : RecClean (runAt B b))
    (env : Env) (resolve : Bool) (log : Log) (ab : Abort)
    (h : (runAt B (b + 1) env (compileProgram B a) resolve log).res = .error ab) : ab.structural = false :=
  run_block_clean_cert b hrec env _ (compile_certified B a) resolve log ab h

/-- At depth budget 0 nothing is executed, so the hypothesis of `compiled_program_runs_clean` holds there. -/
theorem recClean_zero (B : Builtins) : RecClean (runAt B 0) := by
  intro env code r log a h
  simp [runAt] at h
  subst h; rfl

/-! ### Nested blocks -/

/-- The one thing about compile-time evaluation the nested-block theorem needs: running a block whose nested
    blocks are certified, with the compile-time bindings, yields a value whose nested blocks (if a built-in
    or macro hands any back) are certified.  Not proved here — it is a statement about the VM and every
    built-in (none of which constructs bytecode) — and checked per program by `nestedOk` on the real output. -/
def ConstEvalCert (B : Builtins) : Prop :=
  ∀ code v, NestedCert code → (runAt B maxDepth compileEnv code true []).res = .ok v → NestedCertV v

def NCX (x : CPX) : Prop :=
  NestedCert x.cp.toCode ∧
    ∀ op f rs, x.chain = some (op, f, rs) → NestedCert f ∧ ∀ c ∈ rs, NestedCert c

theorem ncX_plain {cp : CP} (h : NestedCert cp.toCode) : NCX { cp := cp } :=
  ⟨h, by intro op f rs h; cases h⟩

theorem nc_const {v : Val} (h : NestedCertV v) : NestedCert (CP.const v).toCode := by
  simp [CP.toCode, h]

theorem ncV_of_const {v : Val} (h : NestedCert (CP.const v).toCode) : NestedCertV v := by
  simpa [CP.toCode] using h

theorem ncX_chain (op : BinOp) {first r : List Instr} {rest : List (List Instr)}
    (hf : NestedCert first) (hrest : ∀ c ∈ rest, NestedCert c) (hr : NestedCert r) :
    NCX { cp := .code (first ++ chainTail (op == .or) op.instr (rest ++ [r])),
          chain := some (op, first, rest ++ [r]) } := by
  have hall : ∀ c ∈ rest ++ [r], NestedCert c := by
    intro c hc
    rcases List.mem_append.mp hc with h | h
    · exact hrest c h
    · simp at h; subst h; exact hr
  refine ⟨by simpa [CP.toCode] using ⟨hf, nc_chainTail _ op _ hall⟩, ?_⟩
  intro op' f rs h
  simp only [Option.some.injEq, Prod.mk.injEq] at h
  obtain ⟨_, rfl, rfl⟩ := h
  exact ⟨hf, hall⟩

variable (B) in
theorem nc_checkForConst (hev : ConstEvalCert B) (ids : List Str) (code : List Instr) (h : NestedCert code) :
    NestedCert (checkForConst B ids code).toCode := by
  unfold checkForConst
  dsimp only
  split
  · exact h
  · split
    · rename_i v hv
      split
      · exact h
      · exact nc_const (hev code v h hv)
    · exact h

/-- A pushed code operand that is the compilation of a subtree. -/
theorem ncI_pushCode (B : Builtins) (e : Ast) (h : NestedCert (compileX B e).cp.toCode) :
    NestedCertI (.push (.code (compileX B e).cp.toCode)) := by
  simp only [ncI_push, NestedCertV]
  exact ⟨compile_certified B e, h⟩

section
variable (B : Builtins)

mutual
theorem compileX_nc (hev : ConstEvalCert B) : (a : Ast) → NCX (compileX B a)
  | .tern _ c t f => by
    have hc := (compileX_nc hev c).1
    have ht := (compileX_nc hev t).1
    have hf := (compileX_nc hev f).1
    simp only [compileX]
    split
    · exact ncX_plain (nc_const (by simp [NestedCertV]))
    · apply ncX_plain; split <;> assumption
    · rename_i code heq
      rw [heq] at hc
      exact ncX_plain (nc_ternCode hc ht hf)
  | .match_ _ s cases => by
    have hs := (compileX_nc hev s).1
    have hcs := compileCases_nc hev cases
    simp only [compileX]
    exact ncX_plain (by simpa [CP.toCode] using ⟨hs, nc_matchTail _ hcs⟩)
  | .bin _ op l r => by
    have hl := compileX_nc hev l
    have hr := (compileX_nc hev r).1
    simp only [compileX]
    split
    · cases hch : (compileX B l).chain with
      | none =>
        dsimp only
        exact ncX_chain op hl.1 (by simp) hr
      | some pr =>
        obtain ⟨op', f, rs⟩ := pr
        obtain ⟨hf, hrs⟩ := hl.2 op' f rs hch
        dsimp only
        split
        · exact ncX_chain op hf hrs hr
        · exact ncX_chain op hl.1 (by simp) hr
    · split
      · rename_i a b ha hb
        have hl1 := hl.1
        rw [ha] at hl1; rw [hb] at hr
        exact ncX_plain (nc_const (binOp_apply_nc op (ncV_of_const hl1) (ncV_of_const hr)))
      · have h3 : NestedCertI op.instr := by cases op <;> simp [BinOp.instr, NestedCertI]
        exact ncX_plain (by simpa [CP.toCode, h3] using ⟨hl.1, hr⟩)
  | .notRun _ ops m => by
    have hm := (compileX_nc hev m).1
    simp only [compileX]
    exact ncX_plain (by simpa [CP.toCode] using ⟨hm, nc_replicate .not (by simp [NestedCertI]) _⟩)
  | .negRun _ ops m => by
    have hm := (compileX_nc hev m).1
    simp only [compileX]
    exact ncX_plain (by simpa [CP.toCode] using ⟨hm, nc_replicate .neg (by simp [NestedCertI]) _⟩)
  | .member _ p chain => by
    simp only [compileX]
    exact ncX_plain (compileOps_nc hev chain _ _ (compilePrim_nc hev p))

theorem compileCases_nc (hev : ConstEvalCert B) : (cs : List MCase) → ∀ pe ∈ compileCases B cs, NestedCert pe.1 ∧ NestedCert pe.2
  | [] => by simp [compileCases]
  | .mk _ p b :: rest => by
    have hp := compilePat_nc hev p
    have hb := (compileX_nc hev b).1
    have hr := compileCases_nc hev rest
    simp only [compileCases, List.mem_cons]
    rintro pe (rfl | h)
    · exact ⟨hp, hb⟩
    · exact hr pe h

theorem compilePat_nc (hev : ConstEvalCert B) : (p : Pat) → NestedCert (compilePat B p)
  | .any _ => by simp [compilePat, NestedCertI, NestedCertV]
  | .type _ _ name => by simp [compilePat, NestedCertI, NestedCertV]
  | .cmp _ _ op e => by
    have he := (compileX_nc hev e).1
    have h3 : NestedCertI op.instr := by cases op <;> simp [CmpOp.instr, NestedCertI]
    simp only [compilePat]
    simpa [h3] using he

theorem compileList_nc (hev : ConstEvalCert B) : (es : List Ast) → ∀ c ∈ compileList B es, NestedCert c.toCode
  | [] => by simp [compileList]
  | e :: es => by
    have he := (compileX_nc hev e).1
    have hr := compileList_nc hev es
    simp only [compileList, List.mem_cons]
    rintro c (rfl | h)
    · exact he
    · exact hr c h

theorem compileInits_nc (hev : ConstEvalCert B) : (is : List MInit) → ∀ c ∈ compileInits B is, NestedCert c.toCode
  | [] => by simp [compileInits]
  | .mk _ k v :: rest => by
    have hk := (compileX_nc hev k).1
    have hv := (compileX_nc hev v).1
    have hr := compileInits_nc hev rest
    simp only [compileInits, List.mem_cons]
    rintro c (rfl | rfl | h)
    · exact hv
    · exact hk
    · exact hr c h

theorem compileSegs_nc (hev : ConstEvalCert B) : (segs : List FSegAst) → NestedCert (compileSegs B segs)
  | [] => by simp [compileSegs]
  | .lit s :: rest => by
    have hr := compileSegs_nc hev rest
    simp only [compileSegs]
    simpa [NestedCertI, NestedCertV] using hr
  | .expr _ e :: rest => by
    have he := (compileX_nc hev e).1
    have hr := compileSegs_nc hev rest
    simp only [compileSegs, List.cons_append, List.nil_append, nc_cons]
    exact ⟨ncI_pushCode B e he, by simp [NestedCertV], by simp [NestedCertI], hr⟩

theorem compilePrim_nc (hev : ConstEvalCert B) : (p : Prim) → NestedCert (compilePrim B p).toCode
  | .ident _ n => by simp [compilePrim, CP.toCode, NestedCertV]
  | .parens _ e => by
    have he := (compileX_nc hev e).1
    simpa [compilePrim] using he
  | .list _ es => by
    have h := compileList_nc hev es
    simp only [compilePrim]
    split
    · rename_i vs hvs
      exact nc_const (by simpa [NestedCertV] using allConst_nc hvs h)
    · simp only [CP.toCode, nc_append]
      exact ⟨nc_flatten (by simpa using h), by simp [NestedCertI]⟩
  | .map _ inits => by
    have h := compileInits_nc hev inits
    simp only [compilePrim]
    split
    · rename_i vs hvs
      exact nc_const (foldMap_nc vs [] (allConst_nc hvs h) (by simp [NestedCertM]))
    · simp only [CP.toCode, nc_append]
      exact ⟨nc_flatten (by simpa using h), by simp [NestedCertI]⟩
  | .null _ => by simp [compilePrim, CP.toCode, NestedCertV]
  | .int _ i => by simp [compilePrim, CP.toCode, NestedCertV]
  | .uint _ n => by simp [compilePrim, CP.toCode, NestedCertV]
  | .float _ b => by simp [compilePrim, CP.toCode, NestedCertV]
  | .str _ s => by simp [compilePrim, CP.toCode, NestedCertV]
  | .bytes _ b => by simp [compilePrim, CP.toCode, NestedCertV]
  | .bool _ b => by simp [compilePrim, CP.toCode, NestedCertV]
  | .fstr _ segs => by
    have h := compileSegs_nc hev segs
    simp only [compilePrim, CP.toCode, nc_append]
    exact ⟨h, by simp [NestedCertI]⟩

theorem compileArgs_nc (hev : ConstEvalCert B) : (as : List Ast) → NestedCert (compileArgs B as)
  | [] => by simp [compileArgs]
  | a :: as => by
    have ha := (compileX_nc hev a).1
    have hr := compileArgs_nc hev as
    simp only [compileArgs, nc_cons]
    exact ⟨ncI_pushCode B a ha, hr⟩

theorem compileOps_nc (hev : ConstEvalCert B) : (ops : List MOp) → ∀ (ids : List Str) (cur : CP), NestedCert cur.toCode →
    NestedCert (compileOps B ids cur ops).toCode
  | [], _, _, h => by simpa [compileOps] using h
  | .access _ _ name :: rest, ids, cur, h => by
    simp only [compileOps]
    apply compileOps_nc hev rest
    split
    · rename_i o
      have ho := ncV_of_const h
      split
      · rename_i v hv
        exact nc_const (foldAccess_nc ho hv)
      · simp [CP.toCode, NestedCertV, NestedCertI, ho]
    · rename_i c
      simpa [CP.toCode, NestedCertV, NestedCertI] using h
  | .call _ args :: rest, ids, cur, h => by
    have ha := compileArgs_nc hev args
    simp only [compileOps]
    apply compileOps_nc hev rest
    apply nc_checkForConst B hev
    simp only [nc_append]
    exact ⟨⟨ha, h⟩, by simp [NestedCertI]⟩
  | .index _ e :: rest, ids, cur, h => by
    have he := (compileX_nc hev e).1
    simp only [compileOps]
    apply compileOps_nc hev rest
    split
    · rename_i o i hi
      rw [hi] at he
      exact nc_const (index_nc (ncV_of_const h))
    · simp only [CP.toCode, nc_append]
      exact ⟨⟨h, he⟩, by simp [NestedCertI]⟩
end

/-- **Nested blocks of compiled programs are certified**, at every depth: each code block the compiler
    pushes as an operand (call arguments, f-string segments) is the compilation of a subtree, hence
    certified by `compile_certified`; folded constants are built from certified constants by operations that
    create no code; for constants produced by compile-time *evaluation* this is the hypothesis. -/
theorem compile_nested_certified (hev : ConstEvalCert B) (a : Ast) : NestedCert (compileProgram B a) :=
  (compileX_nc B hev a).1

/-- Both halves of the checker's verdict, in certificate form, for every compiled program. -/
theorem compile_wf_cert (hev : ConstEvalCert B) (a : Ast) :
    (∃ H, checkHeights (compileProgram B a) H 0 1 = true) ∧ NestedCert (compileProgram B a) :=
  ⟨compile_certified B a, compile_nested_certified B hev a⟩

/-- **`compile_wf`**: the executable checker `wfBlock` — the function every C10 check runs on the real
    compiler's output — accepts every program of the model compiler, nested blocks included (given
    `ConstEvalCert` for the constants that come from compile-time evaluation). -/
theorem compile_wf (hev : ConstEvalCert B) (a : Ast) : wfBlock (compileProgram B a) = true :=
  (wfBlock_iff_cert _).mpr (compile_wf_cert B hev a)
end

/-! ### Non-vacuity -/

/-- `Seg` is not trivially true: a lone `POP` is no segment from nothing, a jump past the end is none. -/
example : ¬ Seg [.pop] 0 0 := by
  intro h
  obtain ⟨f, h0, _, hc⟩ := h 0
  have := (hc 0 .pop rfl).1
  simp [Instr.effect] at this
  omega
example : ¬ Seg [.jmp 1] 0 0 := by
  intro h
  obtain ⟨f, _, _, hc⟩ := h 0
  obtain ⟨_, ts, hs, _⟩ := hc 0 (.jmp 1) rfl
  simp [Instr.succs] at hs
/-- … and the compiler's shapes are segments: `x ? 2 : 3`, `a || b || c`. -/
example : Seg (ternCode [.push (.ident ['x'])] [.push (.int 2)] [.push (.int 3)]) 0 1 :=
  seg_tern (seg_push _ 0) (seg_push _ 0) (seg_push _ 0)
example : Seg ([.push (.ident ['a'])] ++ chainTail true .or [[.push (.ident ['b'])], [.push (.ident ['c'])]]) 0 1 :=
  seg_chain true .or (fun _ _ => rfl) rfl (seg_push _ 0) (by simp; exact ⟨seg_push _ 0, seg_push _ 0⟩)

/-- A concrete program (`a || b ? [a, 1] : f'{b}'` with no built-ins): the theorem gives a certificate and
    the executable checker accepts the same code (flat and nested). -/
def exB : Builtins := ⟨fun _ => none, fun _ _ => .null⟩
def exAst : Ast :=
  .tern default
    (.bin default .or (.member default (.ident default ['a']) []) (.member default (.ident default ['b']) []))
    (.member default (.list default [.member default (.ident default ['a']) [], .member default (.int default 1) []]) [])
    (.member default (.fstr default [.expr ['b'] (.member default (.ident default ['b']) [])]) [])
example : ∃ H, checkHeights (compileProgram exB exAst) H 0 1 = true := compile_certified exB exAst
example : wfBlock (compileProgram exB exAst) = true := by decide
example : (compileProgram exB exAst).length = 22 := by decide
/-- The hypothesis of `compiled_program_runs_clean` is satisfiable: at depth budget 1 it is a theorem. -/
example (B : Builtins) (a : Ast) (env : Env) (ab : Abort)
    (h : (runAt B 1 env (compileProgram B a) true []).res = .error ab) : ab.structural = false :=
  compiled_program_runs_clean B a 0 (recClean_zero B) env true [] ab h

end C10
end Rscel
