import RscelModel.Lemmas.Cert
import RscelModel.Theorems.C10
namespace Rscel
namespace C10
open Cert

variable (B : Builtins)

/-- What the induction carries for a node: its code is an expression segment and, when the node is an
    `||` / `&&` chain, so are the pieces of the chain an enclosing node of the same operator re-assembles. -/
def GoodX (x : CPX) : Prop :=
  Seg x.cp.toCode 0 1 ∧
    ∀ op f rs, x.chain = some (op, f, rs) → Seg f 0 1 ∧ ∀ c ∈ rs, Seg c 0 1

theorem goodX_plain {cp : CP} (h : Seg cp.toCode 0 1) : GoodX { cp := cp } :=
  ⟨h, by intro op f rs h; cases h⟩

theorem seg_const (v : Val) : Seg (CP.const v).toCode 0 1 := seg_push v 0

theorem seg_checkForConst (ids : List Str) (code : List Instr) (h : Seg code 0 1) :
    Seg (checkForConst B ids code).toCode 0 1 := by
  unfold checkForConst
  dsimp only
  split
  · exact h
  · split
    · exact seg_const _
    · exact h

theorem goodX_chain (op : BinOp) {first r : List Instr} {rest : List (List Instr)}
    (hf : Seg first 0 1) (hrest : ∀ c ∈ rest, Seg c 0 1) (hr : Seg r 0 1) :
    GoodX { cp := .code (first ++ chainTail (op == .or) op.instr (rest ++ [r])),
            chain := some (op, first, rest ++ [r]) } := by
  have hall : ∀ c ∈ rest ++ [r], Seg c 0 1 := by
    intro c hc
    rcases List.mem_append.mp hc with h | h
    · exact hrest c h
    · simp at h; subst h; exact hr
  refine ⟨seg_chain _ _ (binOp_simple op) (binOp_effect op) hf hall, ?_⟩
  intro op' f rs h
  simp only [Option.some.injEq, Prod.mk.injEq] at h
  obtain ⟨_, rfl, rfl⟩ := h
  exact ⟨hf, hall⟩

mutual
theorem compileX_good : (a : Ast) → GoodX (compileX B a)
  | .tern _ c t f => by
    have hc := (compileX_good c).1
    have ht := (compileX_good t).1
    have hf := (compileX_good f).1
    simp only [compileX]
    split
    · exact goodX_plain (seg_const _)
    · apply goodX_plain; split <;> assumption
    · rename_i code heq
      rw [heq] at hc
      exact goodX_plain (seg_tern hc ht hf)
  | .match_ _ s cases => by
    have hs := (compileX_good s).1
    have hcs := compileCases_good cases
    simp only [compileX]
    exact goodX_plain (seg_match hs hcs)
  | .bin _ op l r => by
    have hl := compileX_good l
    have hr := (compileX_good r).1
    simp only [compileX]
    split
    · cases hch : (compileX B l).chain with
      | none =>
        dsimp only
        exact goodX_chain op hl.1 (by simp) hr
      | some pr =>
        obtain ⟨op', f, rs⟩ := pr
        obtain ⟨hf, hrs⟩ := hl.2 op' f rs hch
        dsimp only
        split
        · exact goodX_chain op hf hrs hr
        · exact goodX_chain op hl.1 (by simp) hr
    · split
      · exact goodX_plain (seg_const _)
      · exact goodX_plain (seg_binary (binOp_simple op) (binOp_effect op) hl.1 hr)
  | .notRun _ ops m => by
    have hm := (compileX_good m).1
    simp only [compileX]
    exact goodX_plain (seg_unary .not (fun _ _ => rfl) rfl _ hm)
  | .negRun _ ops m => by
    have hm := (compileX_good m).1
    simp only [compileX]
    exact goodX_plain (seg_unary .neg (fun _ _ => rfl) rfl _ hm)
  | .member _ p chain => by
    simp only [compileX]
    exact goodX_plain (compileOps_good chain _ _ (compilePrim_good p))

theorem compileCases_good : (cs : List MCase) → ∀ pe ∈ compileCases B cs, Seg pe.1 1 1 ∧ Seg pe.2 0 1
  | [] => by simp [compileCases]
  | .mk _ p b :: rest => by
    have hp := compilePat_good p
    have hb := (compileX_good b).1
    have hr := compileCases_good rest
    simp only [compileCases, List.mem_cons]
    rintro pe (rfl | h)
    · exact ⟨hp, hb⟩
    · exact hr pe h

theorem compilePat_good : (p : Pat) → Seg (compilePat B p) 1 1
  | .any _ => by
    simp only [compilePat]
    exact seg_cons (by simpa using seg_pop 0) (seg_push _ 0)
  | .type _ _ name => by
    simp only [compilePat]
    exact seg_cons (seg_push _ 1) (seg_cons (by simpa using seg_call 1 0)
      (seg_cons (seg_push _ 1) (by simpa using seg_bin .eq (fun _ _ => rfl) rfl 0)))
  | .cmp _ _ op e => by
    have he := (compileX_good e).1
    simp only [compilePat]
    exact seg_append (by simpa using seg_frame he 1) (by simpa using seg_bin _ (cmpOp_simple op) (cmpOp_effect op) 0)

theorem compileList_good : (es : List Ast) →
    (compileList B es).length = es.length ∧ ∀ c ∈ compileList B es, Seg c.toCode 0 1
  | [] => by simp [compileList]
  | e :: es => by
    have he := (compileX_good e).1
    have hr := compileList_good es
    simp only [compileList, List.length_cons, List.mem_cons, hr.1, true_and]
    rintro c (rfl | h)
    · exact he
    · exact hr.2 c h

theorem compileInits_good : (is : List MInit) →
    (compileInits B is).length = 2 * is.length ∧ ∀ c ∈ compileInits B is, Seg c.toCode 0 1
  | [] => by simp [compileInits]
  | .mk _ k v :: rest => by
    have hk := (compileX_good k).1
    have hv := (compileX_good v).1
    have hr := compileInits_good rest
    simp only [compileInits, List.length_cons, List.mem_cons, hr.1]
    refine ⟨by omega, ?_⟩
    rintro c (rfl | rfl | h)
    · exact hv
    · exact hk
    · exact hr.2 c h

theorem compileSegs_good : (segs : List FSegAst) → Seg (compileSegs B segs) 0 segs.length
  | [] => by simpa [compileSegs] using seg_nil 0
  | .lit s :: rest => by
    have hr := compileSegs_good rest
    simp only [compileSegs, List.length_cons]
    exact seg_append (seg_fseg _ 0) (by simpa [Nat.add_comm] using seg_frame hr 1)
  | .expr _ e :: rest => by
    have hr := compileSegs_good rest
    simp only [compileSegs, List.length_cons]
    exact seg_append (seg_fseg _ 0) (by simpa [Nat.add_comm] using seg_frame hr 1)

theorem compilePrim_good : (p : Prim) → Seg (compilePrim B p).toCode 0 1
  | .ident _ n => by simpa [compilePrim, CP.toCode] using seg_push _ 0
  | .parens _ e => by
    have he := (compileX_good e).1
    simpa [compilePrim] using he
  | .list _ es => by
    have h := compileList_good es
    simp only [compilePrim]
    split
    · exact seg_const _
    · exact seg_list (by simpa using h.1) (by simpa using h.2)
  | .map _ inits => by
    have h := compileInits_good inits
    simp only [compilePrim]
    split
    · exact seg_const _
    · exact seg_dict (by simpa using h.1) (by simpa using h.2)
  | .null _ => by simp only [compilePrim]; exact seg_const _
  | .int _ i => by simp only [compilePrim]; exact seg_const _
  | .uint _ n => by simp only [compilePrim]; exact seg_const _
  | .float _ b => by simp only [compilePrim]; exact seg_const _
  | .str _ s => by simp only [compilePrim]; exact seg_const _
  | .bytes _ b => by simp only [compilePrim]; exact seg_const _
  | .bool _ b => by simp only [compilePrim]; exact seg_const _
  | .fstr _ segs => by
    have h := compileSegs_good segs
    simp only [compilePrim]
    exact seg_append h (by simpa using seg_fmt segs.length 0)

theorem compileArgs_good : (as : List Ast) → Seg (compileArgs B as) 0 as.length
  | [] => by simpa [compileArgs] using seg_nil 0
  | a :: as => by
    have hr := compileArgs_good as
    simp only [compileArgs, List.length_cons]
    exact seg_cons (seg_push _ 0) (by simpa [Nat.add_comm] using seg_frame hr 1)

theorem compileOps_good : (ops : List MOp) → ∀ (ids : List Str) (cur : CP), Seg cur.toCode 0 1 →
    Seg (compileOps B ids cur ops).toCode 0 1
  | [], _, _, h => by simpa [compileOps] using h
  | .access _ _ name :: rest, ids, cur, h => by
    simp only [compileOps]
    apply compileOps_good rest
    split
    · split
      · exact seg_const _
      · exact seg_cons (seg_push _ 0) (seg_cons (seg_push _ 1) (by simpa using seg_bin .access (fun _ _ => rfl) rfl 0))
    · exact seg_access name h
  | .call _ args :: rest, ids, cur, h => by
    have ha := compileArgs_good args
    simp only [compileOps]
    apply compileOps_good rest
    exact seg_checkForConst B _ _ (seg_callSeq ha h)
  | .index _ e :: rest, ids, cur, h => by
    have he := (compileX_good e).1
    simp only [compileOps]
    apply compileOps_good rest
    split
    · exact seg_const _
    · exact seg_binary (fun _ _ => rfl) rfl h he
end

/-- **Every program the model compiler emits has a stack-height certificate**: a table, known at every
    position, that `checkHeights` accepts for `0 ↦ 1` — forward in-range jumps only, no pop below the block's
    own values on any path, meeting paths agree, exactly one value at the end.  For every syntax tree
    (ternaries, `match`, `||` / `&&` chains of any length, operators, operator runs, lists, maps, f-strings,
    member/call/index chains, folded constants) and every set of built-ins. -/
theorem compile_certified (a : Ast) : ∃ H, checkHeights (compileProgram B a) H 0 1 = true :=
  seg_check (compileX_good B a).1

/-- The relative form: compiled code is an expression segment wherever it is placed — on top of any
    stack, inside any larger block. -/
theorem compile_seg (a : Ast) : Seg (compileProgram B a) 0 1 := (compileX_good B a).1

variable {B} {rec recTop : Rec}

/-- `flat_sound` from a certificate (any accepted table, not only the inferred one). -/
theorem flat_sound_cert (hrec : RecClean rec) (env : Env) (code : List Instr) (h0 hf : Nat)
    (hwf : ∃ H, checkHeights code H h0 hf = true) (s : St) (hs : s.stack.length = h0) (fuel : Nat)
    (hfuel : code.length + 1 ≤ fuel) :
    match loop B rec recTop env code fuel 0 s with
    | .ok _ s' => s'.stack.length = hf
    | .fail a _ => a.structural = false := by
  obtain ⟨H, hwf⟩ := hwf
  simp only [checkHeights, Bool.and_eq_true, beq_iff_eq] at hwf
  obtain ⟨⟨⟨_, h0'⟩, hfin⟩, hgo⟩ := hwf
  exact loop_sound hrec env code H hf hfin hgo fuel 0 s h0 (Nat.zero_le _) h0' hs (by omega)

/-- The inferred table is a certificate. -/
theorem cert_of_wfFlat {code : List Instr} {h0 hf : Nat} (h : wfFlat code h0 hf = true) :
    ∃ H, checkHeights code H h0 hf = true := by
  unfold wfFlat at h
  split at h
  · cases h
  · exact ⟨_, h⟩

/-- `run_block_clean` from a certificate. -/
theorem run_block_clean_cert (b : Nat) (hrec : RecClean (runAt B b)) (env : Env) (code : List Instr)
    (hwf : ∃ H, checkHeights code H 0 1 = true) (resolve : Bool) (log : Log) (a : Abort)
    (h : (runAt B (b + 1) env code resolve log).res = .error a) : a.structural = false := by
  simp only [runAt] at h
  have fs := flat_sound_cert (B := B) (recTop := runAt B b) hrec env code 0 1 hwf
    { stack := [], log := log } rfl (blockFuel code) (blockFuel_enough code)
  revert fs h
  cases loop B (runAt B b) (runAt B b) env code (blockFuel code) 0 { stack := [], log := log } with
  | fail a' l => intro h fs; simp at h; subst h; exact fs
  | ok u s' =>
    intro h fs
    simp only at fs h
    have hne : s'.stack ≠ [] := ne_nil_of_length (n := 0) fs
    unfold finish at h
    split at h
    · split at h
      · rename_i hp; simp at h; subst h; exact popS_fail hrec hne hp
      · simp at h; subst h; rfl
      · simp at h; subst h; rfl
      · simp at h
    · split at h
      · rename_i hst; exact absurd hst hne
      · simp at h; subst h; rfl
      · split at h
        · simp at h; subst h; rfl
        · simp at h
        · simp at h
      · simp at h; subst h; rfl
      · simp at h

/-- **Compiled programs run clean**: executing the code of any syntax tree, in any environment, at any
    depth budget, never ends in a stack underflow, an out-of-range jump or fuel exhaustion — provided the
    nested executions it triggers do not (which the same theorem gives for nested blocks that are compiled
    subtrees, one nesting level down). -/
theorem compiled_program_runs_clean (B : Builtins) (a : Ast) (b : Nat) (hrec : RecClean (runAt B b))
    (env : Env) (resolve : Bool) (log : Log) (ab : Abort)
    (h : (runAt B (b + 1) env (compileProgram B a) resolve log).res = .error ab) : ab.structural = false :=
  run_block_clean_cert b hrec env _ (compile_certified B a) resolve log ab h

/-- At depth budget 0 nothing is executed, so the hypothesis of `compiled_program_runs_clean` holds there. -/
theorem recClean_zero (B : Builtins) : RecClean (runAt B 0) := by
  intro env code r log a h
  simp [runAt] at h
  subst h; rfl

end C10
end Rscel
