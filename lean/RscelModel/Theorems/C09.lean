import RscelModel.Model.Compile
/-
C09 — constant folding is invisible.

What is proved here, for the model compiler (`Model/Compile.lean`) and the model VM (`Model/VM.lean`):
* every place where the compiler computes a value itself uses the *same* value-level function the VM
  applies when it executes the unfolded instruction sequence (`fold_binop_agrees`, `fold_index_agrees`,
  `fold_list_agrees`): running `PUSH a; PUSH b; OP` leaves exactly the machine state that `PUSH (a OP b)`
  leaves, for all operand values that are not identifiers, in every environment — failures included,
  because failures are values;
* a constant condition of `?:` selects the branch the VM would select (`fold_ternary_*`);
* a call is never pre-evaluated when it mentions a name that is not bound at compile time (a variable, an
  unknown function) or a clock function (`unbound_never_folded`, `clock_never_folded`), and `now()` /
  `timestamp()` compile to a run-time `CALL` (`now_stays_a_call`, `timestamp0_stays_a_call`).
The end-to-end statement (a literal for a variable is invisible: the folded and the unfolded program evaluate
alike) is a theorem on the fragment of the language for which compiler correctness is proved —
`Theorems/C09Sem.lean` (`subst_evalSpec`, `literal_for_variable_invisible`, …); for the other trees (calls,
macros, index, member access, map literals, f-strings) it is covered by the metamorphic correspondence run of
the check (facet C09).
-/
namespace Rscel
namespace C09

/-- Values that the VM's `pop` returns unchanged (an identifier would be resolved instead). -/
def Plain (v : Val) : Prop := ∀ n, v ≠ .ident n

theorem clock_never_folded (B : Builtins) (ids : List Str) (code : List Instr) (n : Str)
    (hn : n ∈ ids) (hc : clockFunctions.any (·.toList = n) = true) :
    checkForConst B ids code = .code code := by
  unfold checkForConst
  have : (ids.all fun n => compileBound B n && !(clockFunctions.any (·.toList = n))) = false := by
    rw [List.all_eq_false]
    exact ⟨n, hn, by simp [hc]⟩
  simp [this]

theorem unbound_never_folded (B : Builtins) (ids : List Str) (code : List Instr) (n : Str)
    (hn : n ∈ ids) (hb : compileBound B n = false) :
    checkForConst B ids code = .code code := by
  unfold checkForConst
  have : (ids.all fun n => compileBound B n && !(clockFunctions.any (·.toList = n))) = false := by
    rw [List.all_eq_false]
    exact ⟨n, hn, by simp [hb]⟩
  simp [this]

/-- A call whose code names a clock function anywhere (also as a method name, also inside a code block
    operand at any depth) is never evaluated by the compiler. -/
theorem clock_name_never_folded (B : Builtins) (ids : List Str) (code : List Instr)
    (hc : namesClock code = true) :
    checkForConst B ids code = .code code := by
  unfold checkForConst
  simp [hc]

/-- Where the scan looks: pushing the name directly … -/
theorem namesClock_push_ident (n : Str) (rest : List Instr)
    (hc : clockFunctions.any (·.toList = n) = true) :
    namesClock (.push (.ident n) :: rest) = true := by
  simp [namesClock, namesClockI, namesClockV, hc]

/-- … anywhere in the instruction sequence … -/
theorem namesClock_append (a b : List Instr) :
    namesClock (a ++ b) = (namesClock a || namesClock b) := by
  induction a with
  | nil => simp [namesClock]
  | cons i is ih => simp [namesClock, ih, Bool.or_assoc]

/-- … or inside a code block operand (the lazily evaluated argument of a call). -/
theorem namesClock_block (c rest : List Instr) (hc : namesClock c = true) :
    namesClock (.push (.code c) :: rest) = true := by
  simp [namesClock, namesClockI, namesClockV, hc]

/-- `'abc'.now()`: the clock reached through a method name stays a run-time call. -/
theorem now_method_stays_a_call (B : Builtins) (ids : List Str) (recv : List Instr) :
    checkForConst B ids (recv ++ [.push (.ident "now".toList), .access, .call 0]) =
      .code (recv ++ [.push (.ident "now".toList), .access, .call 0]) := by
  apply clock_name_never_folded
  rw [namesClock_append]
  have : namesClock [.push (.ident "now".toList), .access, .call 0] = true :=
    namesClock_push_ident _ _ (by decide)
  rw [this, Bool.or_true]

/-- `now()` is compiled to a run-time call, whatever the built-in table is. -/
theorem now_stays_a_call (B : Builtins) (s1 s2 s3 : Span) :
    compile B (.member s1 (.ident s2 "now".toList) [.call s3 []]) =
      .code [.push (.ident "now".toList), .call 0] := by
  simp [compile, compileX, compilePrim, compileOps, compileArgs, identsOfPrim, identsOfList, CP.toCode]
  exact clock_never_folded B _ _ "now".toList (by simp) (by decide)

/-- zero-argument `timestamp()` is compiled to a run-time call. -/
theorem timestamp0_stays_a_call (B : Builtins) (s1 s2 s3 : Span) :
    compile B (.member s1 (.ident s2 "timestamp".toList) [.call s3 []]) =
      .code [.push (.ident "timestamp".toList), .call 0] := by
  simp [compile, compileX, compilePrim, compileOps, compileArgs, identsOfPrim, identsOfList, CP.toCode]
  exact clock_never_folded B _ _ "timestamp".toList (by simp) (by decide)

/-! ### compile-time evaluation = run-time evaluation of the unfolded sequence -/

section
variable (B : Builtins) (rec top : Rec)

/-- The machine state in which a block started on an empty stack ends (before the final pop). -/
def runState (env : Env) (code : List Instr) (log : Log) : R Unit :=
  loop B rec top env code (blockFuel code) 0 { stack := [], log := log }

theorem popS_plain (env : Env) (a : Val) (st : List SVal) (log : Log) (ha : Plain a) :
    popS rec env { stack := .val a :: st, log := log } = .ok (.val a) { stack := st, log := log } := by
  cases a <;> simp [popS]
  exact absurd rfl (ha _)

theorem popV_plain (env : Env) (a : Val) (st : List SVal) (log : Log) (ha : Plain a) :
    popV rec env { stack := .val a :: st, log := log } = .ok a { stack := st, log := log } := by
  simp [popV, popS_plain rec env a st log ha]

theorem binop_plain (f : Val → Val → Val) (env : Env) (a b : Val) (st : List SVal) (log : Log)
    (ha : Plain a) (hb : Plain b) :
    binop rec f env { stack := .val b :: .val a :: st, log := log } =
      .ok () { stack := .val (f a b) :: st, log := log } := by
  simp [binop, popV_plain rec env b _ log hb, popV_plain rec env a st log ha, pushV]

/-- Every binary operator the compiler folds: the VM running `PUSH a; PUSH b; OP` ends in the same state as
    running `PUSH (a OP b)`, in every environment, for all operands (failures are values). -/
theorem fold_binop_agrees (env : Env) (log : Log) (op : BinOp) (h1 : op ≠ .or) (h2 : op ≠ .and)
    (a b : Val) (ha : Plain a) (hb : Plain b) :
    runState B rec top env [.push a, .push b, op.instr] log =
      runState B rec top env [.push (op.apply a b)] log := by
  have hb2 := fun f => binop_plain rec f env a b [] log ha hb
  cases op <;> first | exact absurd rfl h1 | exact absurd rfl h2 |
    simp [runState, blockFuel, loop, step, liftNext, pushV, BinOp.instr, BinOp.apply, hb2]

/-- `o[i]` on constants. -/
theorem fold_index_agrees (env : Env) (log : Log) (o i : Val) (ho : Plain o) (hi : Plain i) :
    runState B rec top env [.push o, .push i, .index] log =
      runState B rec top env [.push (index o i)] log := by
  simp [runState, blockFuel, loop, step, liftNext, pushV, binop_plain rec index env o i [] log ho hi]

end

/-! ### `?:` with a constant condition, list literals -/

/-- What the compiler does with a constant condition `v`: a failing condition fails, otherwise the
    truthiness of `v` selects the branch. -/
def ternSel (v x y : Val) : Val :=
  match v with
  | .err k => .err k
  | v => if truthy v then x else y

theorem compile_tern_const (B : Builtins) (sp : Span) (c t f : Ast) (v x y : Val)
    (hc : (compileX B c).cp = .const v) (ht : (compileX B t).cp = .const x) (hf : (compileX B f).cp = .const y) :
    compile B (.tern sp c t f) = .const (ternSel v x y) := by
  simp only [compile, compileX, hc, ht, hf]
  cases v <;> simp [ternSel] <;> split <;> rfl

section
variable (B : Builtins) (rec top : Rec)

theorem vTest_nonerr (v : Val) (h : ∀ k, v ≠ .err k) : vTest v = .bool (truthy v) := by
  cases v <;> simp [vTest]
  exact absurd rfl (h _)

/-- The VM on the unfolded `?:` sequence with a constant condition and constant branches ends in the state
    of `PUSH (ternSel v x y)`: same branch, and a failing condition fails. -/
theorem fold_ternary_agrees (env : Env) (log : Log) (v x y : Val) (hv : Plain v) :
    runState B rec top env (ternCode [.push v] [.push x] [.push y]) log =
      runState B rec top env [.push (ternSel v x y)] log := by
  have pb : ∀ b : Bool, Plain (.bool b) := fun b n h => by cases h
  have pe : ∀ k : ErrKind, Plain (.err k) := fun k n h => by cases h
  by_cases he : ∃ k, v = .err k
  · obtain ⟨k, rfl⟩ := he
    simp [runState, ternCode, blockFuel, loop, step, liftNext, pushV, unop, ternSel, vTest, vNot, jumpTarget,
      popV_plain rec env _ _ log (pe k)]
  · have hne : ∀ k, v ≠ .err k := fun k h => he ⟨k, h⟩
    have hsel : ternSel v x y = if truthy v then x else y := by
      cases v <;> simp [ternSel]
      exact absurd rfl (hne _)
    rw [hsel]
    have tb : ∀ b : Bool, truthy (.bool b) = b := fun _ => rfl
    have hT := vTest_nonerr v hne
    cases ht : truthy v <;> rw [ht] at hT <;>
      simp [runState, ternCode, blockFuel, loop, step, liftNext, pushV, unop, hT, vNot, tb,
        jumpTarget, popV_plain rec env _ _ log hv, popV_plain rec env _ _ log (pb true),
        popV_plain rec env _ _ log (pb false)]

theorem popN_plain (env : Env) (ws : List Val) (st : List SVal) (log : Log) (h : ∀ w ∈ ws, Plain w) :
    popN rec env ws.length { stack := ws.map .val ++ st, log := log } = .ok ws { stack := st, log := log } := by
  induction ws with
  | nil => simp [popN]
  | cons w ws ih =>
    have hw : Plain w := h w (by simp)
    have ih' := ih (fun w' hw' => h w' (by simp [hw']))
    simp [popN, popV_plain rec env w _ log hw, ih']

theorem loop_pushes (env : Env) (log : Log) (vs : List Val) :
    ∀ (pre post : List Instr) (st : List SVal) (fuel : Nat),
      loop B rec top env (pre ++ vs.map .push ++ post) (fuel + vs.length) pre.length { stack := st, log := log } =
      loop B rec top env (pre ++ vs.map .push ++ post) fuel (pre.length + vs.length)
        { stack := (vs.reverse.map .val) ++ st, log := log } := by
  induction vs with
  | nil => intro pre post st fuel; simp
  | cons v vs ih =>
    intro pre post st fuel
    have hget : (pre ++ (v :: vs).map Instr.push ++ post)[pre.length]? = some (.push v) := by
      simp
    have hcode : pre ++ (v :: vs).map Instr.push ++ post = (pre ++ [.push v]) ++ vs.map .push ++ post := by simp
    have hfuel : fuel + (v :: vs).length = (fuel + vs.length) + 1 := by simp; omega
    rw [hfuel, loop, hget]
    simp only [step, pushV]
    rw [hcode]
    have := ih (pre ++ [.push v]) post (.val v :: st) fuel
    simp only [List.length_append, List.length_cons, List.length_nil] at this
    rw [this]
    simp [Nat.add_assoc, Nat.add_comm 1]

/-- A list literal of constants: `PUSH v₁ … PUSH vₙ; MKLIST n` ends in the state of `PUSH [v₁ … vₙ]`
    (same elements, same order), for every length. -/
theorem fold_list_agrees (env : Env) (log : Log) (vs : List Val) (h : ∀ v ∈ vs, Plain v) :
    runState B rec top env (vs.map .push ++ [.mkList vs.length]) log =
      runState B rec top env [.push (.list vs)] log := by
  have hfuel : blockFuel (vs.map Instr.push ++ [.mkList vs.length]) = (vs.length * 63 + 127) + 1 + vs.length := by
    simp [blockFuel]; omega
  have h1 := loop_pushes B rec top env log vs [] [.mkList vs.length] [] ((vs.length * 63 + 127) + 1)
  simp only [List.nil_append, List.length_nil, Nat.zero_add, List.append_nil] at h1
  unfold runState
  rw [hfuel, h1]
  have hget : (vs.map Instr.push ++ [Instr.mkList vs.length])[vs.length]? = some (.mkList vs.length) := by
    simp
  have hpop := popN_plain rec env vs.reverse [] log (fun w hw => h w (by simpa using hw))
  simp only [List.length_reverse, List.append_nil] at hpop
  rw [loop, hget]
  simp only [step, hpop, pushV, List.reverse_reverse]
  have hend : (vs.map Instr.push ++ [Instr.mkList vs.length])[vs.length + 1]? = none := by simp
  have : vs.length * 63 + 127 = (vs.length * 63 + 126) + 1 := by omega
  rw [this, loop, hend]
  simp [blockFuel, loop, step, pushV]

end

example : ternSel (.int 0) (.int 1) (.int 2) = .int 2 := by rfl
example : ternSel (.err .divZero) (.int 1) (.int 2) = .err .divZero := by rfl
example : Plain (.int 3) := fun n h => by cases h

end C09
end Rscel
