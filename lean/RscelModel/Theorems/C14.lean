import RscelModel.Model.Conv
import RscelModel.Model.Compile
import RscelModel.Lemmas.VMStack
/-
C14 — type conversions are exact on their domain and reject the rest; f-strings too.

The constructors are `constructType X now name args` (`construct_type`, one `#[dispatch]` module each).
`X : ConvExt` (double formatting / parsing, time text formats) is universally quantified everywhere.
-/
namespace Rscel
namespace C14

variable (X : ConvExt) (now : Int)

/-- `T(args)` as the VM calls it. -/
abbrev ctor (T : String) (args : List Val) : Val := constructType X now T.toList args

/-! ### decimal text of integers -/

theorem digitVal_of_isDigit {c : Char} (h : c.isDigit = true) : digitVal c = some (c.toNat - '0'.toNat) := by
  unfold digitVal
  have : '0' ≤ c ∧ c ≤ '9' := by
    simp [Char.isDigit] at h
    exact ⟨by simpa [Char.le_def] using h.1, by simpa [Char.le_def] using h.2⟩
  simp [this]

theorem foldlM_digits (cs : List Char) (h : ∀ c ∈ cs, c.isDigit = true) (acc : Nat) :
    cs.foldlM (fun acc c => (digitVal c).map (fun d => acc * 10 + d)) acc = some (Nat.ofDigitChars 10 cs acc) := by
  induction cs generalizing acc with
  | nil => simp
  | cons c cs ih =>
    have hc := digitVal_of_isDigit (h c (by simp))
    simp only [List.foldlM_cons, hc, Option.map_some, Option.bind_eq_bind, Option.bind_some]
    rw [ih (fun c hc => h c (by simp [hc]))]
    simp [Nat.ofDigitChars_cons, Nat.mul_comm]

/-- Parsing the decimal digits of `n` gives `n` back. -/
theorem parseNatDigits_toDigits (n : Nat) : parseNatDigits (Nat.toDigits 10 n) = some n := by
  have hne : Nat.toDigits 10 n ≠ [] := Nat.toDigits_ne_nil
  have hd : ∀ c ∈ Nat.toDigits 10 n, c.isDigit = true :=
    fun c hc => Nat.isDigit_of_mem_toDigits (by decide) (by decide) hc
  unfold parseNatDigits
  split
  · contradiction
  · rw [foldlM_digits _ hd 0]; simp

theorem natToStr_eq (n : Nat) : natToStr n = Nat.toDigits 10 n := by
  simp [natToStr, Nat.toString_eq_repr, Nat.toList_repr]

theorem toDigits_cons (n : Nat) : ∃ c cs, Nat.toDigits 10 n = c :: cs ∧ c.isDigit = true := by
  cases h : Nat.toDigits 10 n with
  | nil => exact absurd h Nat.toDigits_ne_nil
  | cons c cs =>
    have hm : c ∈ Nat.toDigits 10 n := by rw [h]; simp
    exact ⟨c, cs, rfl, Nat.isDigit_of_mem_toDigits (b := 10) (by decide) (by decide) hm⟩

theorem intToStr_ofNat (n : Nat) : intToStr (n : Int) = Nat.toDigits 10 n := by
  simp [intToStr, Int.toString_eq_repr, Int.repr, Nat.toList_repr]

theorem intToStr_negSucc (n : Nat) : intToStr (Int.negSucc n) = '-' :: Nat.toDigits 10 (n + 1) := by
  simp [intToStr, Int.toString_eq_repr, Int.repr, Nat.toList_repr]

theorem parseSigned_digits (n : Nat) : parseSigned (Nat.toDigits 10 n) = some (n : Int) := by
  obtain ⟨c, cs, hcs, hd⟩ := toDigits_cons n
  have h1 : c ≠ '-' := by intro h; subst h; simp [Char.isDigit] at hd
  have h2 : c ≠ '+' := by intro h; subst h; simp [Char.isDigit] at hd
  have := parseNatDigits_toDigits n
  rw [hcs] at this ⊢
  unfold parseSigned
  split
  · simp_all
  · simp_all
  · simp_all

theorem parseUnsigned_digits (n : Nat) : parseUnsigned (Nat.toDigits 10 n) = some n := by
  obtain ⟨c, cs, hcs, hd⟩ := toDigits_cons n
  have h2 : c ≠ '+' := by intro h; subst h; simp [Char.isDigit] at hd
  have := parseNatDigits_toDigits n
  rw [hcs] at this ⊢
  unfold parseUnsigned
  split
  · simp_all
  · simp_all

theorem parseSigned_intToStr (i : Int) : parseSigned (intToStr i) = some i := by
  cases i with
  | ofNat n => rw [Int.ofNat_eq_natCast, intToStr_ofNat]; exact parseSigned_digits n
  | negSucc n =>
    rw [intToStr_negSucc]
    simp [parseSigned, parseNatDigits_toDigits, Int.negSucc_eq]

theorem parseI64_intToStr (i : Int) (h : inI64 i = true) : parseI64 (intToStr i) = some i := by
  simp [parseI64, parseSigned_intToStr, h]

theorem parseU64_natToStr (n : Nat) (h : n ≤ u64Max) : parseU64 (natToStr n) = some n := by
  simp [parseU64, natToStr_eq, parseUnsigned_digits, h]


/-! ### round trips and range behaviour of the constructors -/

macro "ctor_simp" " [" ls:Lean.Parser.Tactic.simpLemma,* "]" : tactic =>
  `(tactic| simp [ctor, constructType, dispatch, stringOverloads, stringOverloadsBasic, stringOverloadsRest,
      intOverloads, uintOverloads, bytesOverloads, boolOverloads, doubleOverloads, typeOverloads, dynOverloads,
      timestampOverloads, durationOverloads,
      Overload.accepts, argsMatch, Tag.matches, isNull, $ls,*])

/-- `int(string(i)) == i` on the whole `int` range. -/
theorem int_string (i : Int) (h : inI64 i = true) :
    ctor X now "int" [ctor X now "string" [.int i]] = .int i := by
  ctor_simp [parseI64_intToStr i h]

/-- `uint(string(u)) == u` on the whole `uint` range. -/
theorem uint_string (n : Nat) (h : n ≤ u64Max) :
    ctor X now "uint" [ctor X now "string" [.uint n]] = .uint n := by
  ctor_simp [parseU64_natToStr n h]

theorem utf8_decode_encode (s : Str) : utf8Decode (utf8Enc s) = some s := by
  unfold utf8Decode utf8Enc
  simp
  exact ⟨s.toArray, List.utf8Decode?_utf8Encode, by simp⟩

/-- `string(bytes(s)) == s` for every string. -/
theorem string_bytes (s : Str) :
    ctor X now "string" [ctor X now "bytes" [.str s]] = .str s := by
  ctor_simp [utf8_decode_encode]

/-- A byte string decodes iff it is the encoding of some string, and then to that string. -/
theorem utf8Decode_eq_some (b : List UInt8) (s : Str) : utf8Decode b = some s ↔ b = utf8Enc s := by
  constructor
  · intro h
    unfold utf8Decode at h
    simp at h
    obtain ⟨a, ha, rfl⟩ := h
    have hs : (ByteArray.mk b.toArray).utf8Decode?.isSome := by simp [ha]
    have := ByteArray.utf8Encode_get_utf8Decode? (b := ByteArray.mk b.toArray) (h := hs)
    simp [ha] at this
    unfold utf8Enc
    simp [this]
  · rintro rfl; exact utf8_decode_encode s

/-- Bytes that are not UTF-8 have no `string`: an error, never a repaired text. -/
theorem bytes_string_err (b : List UInt8) (h : ∀ s, b ≠ utf8Enc s) :
    ctor X now "string" [.bytes b] = .err .value := by
  have : utf8Decode b = none := by
    cases hd : utf8Decode b with
    | none => rfl
    | some s => exact absurd ((utf8Decode_eq_some b s).1 hd) (h s)
  ctor_simp [this]

/-- … and valid UTF-8 comes back unchanged: `bytes(string(b)) == b`. -/
theorem bytes_string (s : Str) :
    ctor X now "bytes" [ctor X now "string" [.bytes (utf8Enc s)]] = .bytes (utf8Enc s) := by
  ctor_simp [utf8_decode_encode]

/-- `int(u)`: the same number, or an error above the `int` range. -/
theorem int_of_uint (n : Nat) :
    ctor X now "int" [.uint n] = if (n : Int) ≤ i64Max then .int n else .err .value := by
  ctor_simp []

/-- `uint(i)`: the same number, or an error below zero. -/
theorem uint_of_int (i : Int) :
    ctor X now "uint" [.int i] = if i < 0 then .err .value else .uint i.toNat := by
  ctor_simp []

theorem uint_of_int_val (i : Int) (h : 0 ≤ i) : ∃ n : Nat, ctor X now "uint" [.int i] = .uint n ∧ (n : Int) = i := by
  refine ⟨i.toNat, ?_, by omega⟩
  rw [uint_of_int]; simp; omega

theorem int_id (i : Int) : ctor X now "int" [.int i] = .int i := by ctor_simp []
theorem uint_id (n : Nat) : ctor X now "uint" [.uint n] = .uint n := by ctor_simp []
theorem double_id (d : UInt64) : ctor X now "double" [.float d] = .float d := by ctor_simp []
theorem string_id (s : Str) : ctor X now "string" [.str s] = .str s := by ctor_simp []
theorem bytes_id (b : List UInt8) : ctor X now "bytes" [.bytes b] = .bytes b := by ctor_simp []
theorem timestamp_id (n : Int) : ctor X now "timestamp" [.ts n] = .ts n := by ctor_simp []
theorem duration_id (n : Int) : ctor X now "duration" [.dur n] = .dur n := by ctor_simp []

/-- `dyn` is the identity. -/
theorem dyn_id (v : Val) : ctor X now "dyn" [v] = v := by ctor_simp []

/-- `int(d)` is Rust's saturating `as i64`; `uint(d)` the saturating `as u64`. -/
theorem int_of_float (d : UInt64) : ctor X now "int" [.float d] = .int (F.toIntSat d) := by ctor_simp []
theorem uint_of_float (d : UInt64) : ctor X now "uint" [.float d] = .uint (F.toNatSat d) := by ctor_simp []

theorem double_of_int (i : Int) : ctor X now "double" [.int i] = .float (F.ofInt i) := by ctor_simp []
theorem double_of_uint (n : Nat) : ctor X now "double" [.uint n] = .float (F.ofNat n) := by ctor_simp []
theorem float_is_double (args : List Val) : ctor X now "float" args = ctor X now "double" args := by
  simp [ctor, constructType]


/-! ### double → integer: truncation toward zero, saturating -/

/-- Inside the range `as i64` is the truncation. -/
theorem toIntSat_trunc (d : UInt64) (hn : F.isNaN d = false) (hi : F.isInf d = false)
    (hr : inI64 (F.truncInt d) = true) : F.toIntSat d = F.truncInt d := by
  rw [inI64_iff] at hr
  have h1 : ¬ F.truncInt d < i64Min := by unfold i64Min; omega
  have h2 : ¬ F.truncInt d > i64Max := by unfold i64Max; omega
  simp [F.toIntSat, hn, hi, h1, h2]

/-- Outside it saturates; NaN goes to 0; the result is always an `int`. -/
theorem toIntSat_sat (d : UInt64) :
    (F.isNaN d = true → F.toIntSat d = 0) ∧
    (F.isNaN d = false → F.isInf d = false → F.truncInt d < i64Min → F.toIntSat d = i64Min) ∧
    (F.isNaN d = false → F.isInf d = false → F.truncInt d > i64Max → F.toIntSat d = i64Max) ∧
    (F.isNaN d = false → F.isInf d = true → F.toIntSat d = if F.signBit d then i64Min else i64Max) ∧
    inI64 (F.toIntSat d) = true := by
  refine ⟨?_, ?_, ?_, ?_, ?_⟩
  · intro h; simp [F.toIntSat, h]
  · intro hn hi ht; simp [F.toIntSat, hn, hi, ht]
  · intro hn hi ht
    have : ¬ F.truncInt d < i64Min := by unfold i64Min; unfold i64Max at ht; omega
    simp [F.toIntSat, hn, hi, ht, this]
  · intro hn hi; simp [F.toIntSat, hn, hi]
  · rw [inI64_iff]
    unfold F.toIntSat
    simp only [i64Min, i64Max]
    by_cases hn : F.isNaN d = true
    · simp [hn]
    · by_cases hi : F.isInf d = true
      · simp [hn, hi]; split <;> omega
      · simp only [hn, hi, Bool.false_eq_true, ↓reduceIte]
        by_cases h1 : F.truncInt d < -9223372036854775808
        · simp [h1]
        · by_cases h2 : F.truncInt d > 9223372036854775807
          · simp [h1, h2]
          · simp only [h1, h2, ↓reduceIte]; omega

/-- The magnitude `truncInt` computes. -/
def truncMag (d : UInt64) : Nat :=
  let sig := F.manBits d + 2 ^ 52
  if F.expBits d < 1023 then 0
  else if 1075 ≤ F.expBits d then sig * 2 ^ (F.expBits d - 1075) else sig / 2 ^ (1075 - F.expBits d)

theorem truncInt_eq (d : UInt64) :
    F.truncInt d = if F.signBit d then -(truncMag d : Int) else (truncMag d : Int) := by
  unfold F.truncInt truncMag
  by_cases h1 : F.expBits d < 1023
  · simp [h1]
  · by_cases h2 : 1075 ≤ F.expBits d
    · simp [h1, h2, Nat.shiftLeft_eq]
    · simp [h1, h2, Nat.shiftLeft_eq, Nat.shiftRight_eq_div_pow]

/-- `truncInt` is the value with the fraction dropped: a finite double with significand
    `sig = 2^52 + mantissa` and exponent field `e` has `|x| = sig · 2^(e-1075)`; below 1 the result is 0,
    from `2^52` on the value is an integer and is kept exactly, in between it is `⌊|x|⌋`; the sign is the
    sign of `x` (toward zero). -/
theorem truncInt_spec (d : UInt64) :
    let e := F.expBits d
    let sig := F.manBits d + 2 ^ 52
    let t := (F.truncInt d).natAbs
    (e < 1023 → t = 0) ∧
    (1075 ≤ e → t = sig * 2 ^ (e - 1075)) ∧
    (1023 ≤ e → e < 1075 → t * 2 ^ (1075 - e) ≤ sig ∧ sig < (t + 1) * 2 ^ (1075 - e)) ∧
    (F.truncInt d < 0 → F.signBit d = true) ∧ (0 < F.truncInt d → F.signBit d = false) := by
  intro e sig t
  have ht : t = truncMag d := by
    simp only [t, truncInt_eq]; split <;> simp
  refine ⟨?_, ?_, ?_, ?_, ?_⟩
  · intro h; rw [ht]; simp only [e] at h; simp [truncMag, h]
  · intro h
    have h1 : ¬ F.expBits d < 1023 := by simp only [e] at h; omega
    rw [ht]; simp only [e] at h; simp [truncMag, h1, h, sig, e]
  · intro h1 h2
    have h1' : ¬ F.expBits d < 1023 := by simp only [e] at h1; omega
    have h2' : ¬ 1075 ≤ F.expBits d := by simp only [e] at h2; omega
    have hp : 0 < 2 ^ (1075 - e) := Nat.pow_pos (by decide)
    have : t = sig / 2 ^ (1075 - e) := by rw [ht]; simp [truncMag, h1', h2', sig, e]
    rw [this]
    constructor
    · exact Nat.div_mul_le_self _ _
    · exact Nat.lt_mul_of_div_lt (Nat.lt_succ_self _) hp
  · intro h; rw [truncInt_eq] at h; split at h
    · assumption
    · omega
  · intro h; rw [truncInt_eq] at h; split at h
    · omega
    · simp_all

example : F.toIntSat 0xC00C000000000000 = -3 ∧ F.truncInt 0xC00C000000000000 = -3 := by decide  -- -3.5
example : F.toIntSat 0x43E0000000000000 = i64Max := by decide  -- 2^63


/-! ### bool -/

/-- `bool`: identity on booleans, the ten spellings on strings (any other string by emptiness), truthiness
    of every other value. -/
theorem bool_spec :
    (∀ b, ctor X now "bool" [.bool b] = .bool b) ∧
    (∀ s, s ∈ ["1", "t", "true", "TRUE", "True"] → ctor X now "bool" [.str s.toList] = .bool true) ∧
    (∀ s, s ∈ ["0", "f", "false", "FALSE", "False"] → ctor X now "bool" [.str s.toList] = .bool false) ∧
    (∀ v, (∀ s, v ≠ .str s) → (∀ b, v ≠ .bool b) → ctor X now "bool" [v] = .bool (truthy v)) := by
  refine ⟨?_, ?_, ?_, ?_⟩
  · intro b; ctor_simp []
  · intro s hs
    simp at hs
    rcases hs with rfl | rfl | rfl | rfl | rfl <;> ctor_simp [boolOfString]
  · intro s hs
    simp at hs
    rcases hs with rfl | rfl | rfl | rfl | rfl <;> ctor_simp [boolOfString]
  · intro v hs hb
    cases v <;> simp_all [ctor, constructType, dispatch, boolOverloads, Overload.accepts, argsMatch, Tag.matches, isNull]

/-! ### `type(T(x)) == T` -/

/-- Every answer of an overload table is a failure or a value of type `T`. -/
def Produces (os : List Overload) (T : Str) : Prop :=
  ∀ o ∈ os, ∀ this args, o.accepts this args = true →
    (o.run this args).isErr = true ∨ (o.run this args).typeName = T

theorem dispatch_produces {os : List Overload} {T : Str} (h : Produces os T) (this : Val) (args : List Val) :
    (dispatch os this args).isErr = true ∨ (dispatch os this args).typeName = T := by
  unfold dispatch
  cases hf : os.find? (fun o => o.accepts this args) with
  | none => left; rfl
  | some o => exact h o (List.mem_of_find?_eq_some hf) this args (by simpa using List.find?_some hf)

theorem narrowTs_produces (n : Int) : (narrowTs n).isErr = true ∨ (narrowTs n).typeName = "timestamp".toList := by
  unfold narrowTs; split
  · exact Or.inr rfl
  · exact Or.inl rfl

theorem narrowDur_produces (n : Int) : (narrowDur n).isErr = true ∨ (narrowDur n).typeName = "duration".toList := by
  unfold narrowDur; split
  · exact Or.inr rfl
  · exact Or.inl rfl


/-- A tactic for one overload body: split the argument list and the head value; every accepted shape
    gives a failure or the expected variant. -/
macro "produces_run" : tactic =>
  `(tactic| (intro this args hacc
             rcases args with _ | ⟨v, _ | ⟨w, rest⟩⟩ <;>
             simp [Overload.accepts, argsMatch, Tag.matches] at hacc <;>
             (try cases v) <;> (try simp [Tag.matches] at hacc) <;>
             first | exact Or.inl rfl | exact Or.inr rfl | skip))

macro "produces_split" : tactic =>
  `(tactic| all_goals (dsimp only; split <;> first | exact Or.inl rfl | exact Or.inr rfl))

theorem int_produces : Produces intOverloads "int".toList := by
  intro o ho
  simp only [intOverloads, List.mem_cons, List.not_mem_nil, or_false] at ho
  rcases ho with rfl | rfl | rfl | rfl | rfl | rfl <;> produces_run
  produces_split

theorem uint_produces : Produces uintOverloads "uint".toList := by
  intro o ho
  simp only [uintOverloads, List.mem_cons, List.not_mem_nil, or_false] at ho
  rcases ho with rfl | rfl | rfl | rfl | rfl <;> produces_run
  produces_split

theorem double_produces : Produces (doubleOverloads X) "float".toList := by
  intro o ho
  simp only [doubleOverloads, List.mem_cons, List.not_mem_nil, or_false] at ho
  rcases ho with rfl | rfl | rfl | rfl | rfl <;> produces_run
  produces_split

theorem bool_produces : Produces boolOverloads "bool".toList := by
  intro o ho
  simp only [boolOverloads, List.mem_cons, List.not_mem_nil, or_false] at ho
  rcases ho with rfl | rfl | rfl <;> produces_run
  all_goals (dsimp only [boolOfString]; split <;> (try split) <;> first | exact Or.inl rfl | exact Or.inr rfl)

theorem bytes_produces : Produces bytesOverloads "bytes".toList := by
  intro o ho
  simp only [bytesOverloads, List.mem_cons, List.not_mem_nil, or_false] at ho
  rcases ho with rfl | rfl <;> produces_run

theorem string_produces : Produces (stringOverloads X) "string".toList := by
  intro o ho
  simp only [stringOverloads, stringOverloadsBasic, stringOverloadsRest, List.mem_cons, List.mem_append, List.not_mem_nil, or_false, or_assoc] at ho
  rcases ho with rfl | rfl | rfl | rfl | rfl | rfl | rfl | rfl <;> produces_run
  produces_split

theorem type_produces : Produces typeOverloads "type".toList := by
  intro o ho
  simp only [typeOverloads, List.mem_cons, List.not_mem_nil, or_false] at ho
  rcases ho with rfl <;> produces_run

theorem timestamp_produces : Produces (timestampOverloads X now) "timestamp".toList := by
  intro o ho
  simp only [timestampOverloads, List.mem_cons, List.not_mem_nil, or_false] at ho
  rcases ho with rfl | rfl | rfl | rfl | rfl <;> produces_run
  · dsimp only; split <;> first | exact Or.inl rfl | exact Or.inr rfl
  · exact narrowTs_produces _
  · dsimp only; split
    · exact narrowTs_produces _
    · exact Or.inl rfl

theorem durNew_produces (s n : Int) : (durNew s n).isErr = true ∨ (durNew s n).typeName = "duration".toList := by
  unfold durNew; split
  · exact Or.inl rfl
  · exact narrowDur_produces _

theorem duration_produces : Produces (durationOverloads X) "duration".toList := by
  intro o ho
  simp only [durationOverloads, List.mem_cons, List.not_mem_nil, or_false] at ho
  rcases ho with rfl | rfl | rfl | rfl
  · produces_run
    dsimp only; split <;> first | exact Or.inl rfl | exact Or.inr rfl
  · produces_run
    dsimp only; exact durNew_produces _ _
  · produces_run
  · intro this args hacc
    rcases args with _ | ⟨v, _ | ⟨w, _ | ⟨u, rest⟩⟩⟩ <;> simp [Overload.accepts, argsMatch, Tag.matches] at hacc
    cases v <;> simp [Tag.matches] at hacc
    cases w <;> simp [Tag.matches] at hacc
    dsimp only; split
    · exact Or.inl rfl
    · exact durNew_produces _ _

/-- `type(T(x)) == T` whenever `T(x)` succeeds, for the eight value constructors (`float` is an alias of
    `double`; the type of a double is named `float`). -/
theorem type_of_ctor (T : String) (hT : T ∈ ["bool", "int", "uint", "double", "float", "bytes", "string", "timestamp", "duration"])
    (args : List Val) (v : Val) (h : ctor X now T args = v) (hv : v.isErr = false) :
    ctor X now "type" [v] = .type v.typeName ∧ typeByName T.toList = some (.type v.typeName) := by
  constructor
  · ctor_simp [Val.asType]
  · subst h
    have key : ∀ (os : List Overload) (T' : Str), Produces os T' → ctor X now T args = dispatch os .null args →
        (ctor X now T args).typeName = T' := by
      intro os T' hp he
      rcases dispatch_produces hp .null args with h | h
      · rw [he] at hv; rw [h] at hv; cases hv
      · rw [he]; exact h
    simp at hT
    rcases hT with rfl | rfl | rfl | rfl | rfl | rfl | rfl | rfl | rfl
    · rw [key _ _ bool_produces (by simp [ctor, constructType])]; rfl
    · rw [key _ _ int_produces (by simp [ctor, constructType])]; rfl
    · rw [key _ _ uint_produces (by simp [ctor, constructType])]; rfl
    · rw [key _ _ (double_produces X) (by simp [ctor, constructType])]; rfl
    · rw [key _ _ (double_produces X) (by simp [ctor, constructType])]; rfl
    · rw [key _ _ bytes_produces (by simp [ctor, constructType])]; rfl
    · rw [key _ _ (string_produces X) (by simp [ctor, constructType])]; rfl
    · rw [key _ _ (timestamp_produces X now) (by simp [ctor, constructType])]; rfl
    · rw [key _ _ (duration_produces X) (by simp [ctor, constructType])]; rfl

/-- `type(type(x))` is `type`, and `type(dyn(x))` is the type of `x` (`dyn` converts nothing). -/
theorem type_of_type_dyn (v : Val) :
    ctor X now "type" [ctor X now "type" [v]] = .type "type".toList ∧
    ctor X now "type" [ctor X now "dyn" [v]] = ctor X now "type" [v] := by
  constructor
  · ctor_simp [Val.asType]; rfl
  · ctor_simp []

example : ctor (tableConv []) 0 "type" [ctor (tableConv []) 0 "int" [.str "42".toList]] = .type "int".toList := rfl


/-! ### text with no integer reading is rejected -/

theorem foldlM_none_of_bad (cs : List Char) (c : Char) (hc : c ∈ cs) (hd : digitVal c = none) (acc : Nat) :
    cs.foldlM (fun acc c => (digitVal c).map (fun d => acc * 10 + d)) acc = none := by
  induction cs generalizing acc with
  | nil => cases hc
  | cons x xs ih =>
    simp only [List.foldlM_cons]
    cases hx : digitVal x with
    | none => simp
    | some d =>
      simp only [Option.map_some, Option.bind_eq_bind, Option.bind_some]
      rcases List.mem_cons.1 hc with rfl | hm
      · rw [hx] at hd; cases hd
      · exact ih hm _

/-- Digits only: any other character (whitespace, a second sign, `.`, `e`, `_`, a non-ASCII digit …)
    anywhere makes the text unparsable, and so does the empty text. -/
theorem parseNatDigits_rejects (cs : List Char) :
    (cs = [] → parseNatDigits cs = none) ∧
    (∀ c ∈ cs, digitVal c = none → parseNatDigits cs = none) := by
  constructor
  · rintro rfl; rfl
  · intro c hc hd
    cases cs with
    | nil => cases hc
    | cons x xs => exact foldlM_none_of_bad (x :: xs) c hc hd 0

theorem digitVal_none_iff (c : Char) : digitVal c = none ↔ ¬ ('0' ≤ c ∧ c ≤ '9') := by
  unfold digitVal; split <;> simp_all

/-- `int(s)` fails — it never guesses — when `s` is empty, a lone sign, or has a non-digit after the
    optional sign; `uint(s)` also for every text starting with `-`. -/
theorem parse_rejects (s : Str) :
    (s = [] ∨ s = ['-'] ∨ s = ['+'] → parseI64 s = none ∧ parseU64 s = none) ∧
    (∀ c ∈ s.tail, digitVal c = none → parseI64 s = none ∧ parseU64 s = none) ∧
    (∀ c, s.head? = some c → digitVal c = none → c ≠ '-' → c ≠ '+' → parseI64 s = none ∧ parseU64 s = none) ∧
    (s.head? = some '-' → parseU64 s = none) := by
  refine ⟨?_, ?_, ?_, ?_⟩
  · rintro (rfl | rfl | rfl) <;> exact ⟨rfl, rfl⟩
  · intro c hc hd
    cases s with
    | nil => cases hc
    | cons x xs =>
      have hxs : parseNatDigits xs = none := (parseNatDigits_rejects xs).2 c hc hd
      have hall : parseNatDigits (x :: xs) = none :=
        (parseNatDigits_rejects (x :: xs)).2 c (List.mem_cons_of_mem _ hc) hd
      constructor
      · unfold parseI64 parseSigned; split <;> simp_all
      · unfold parseU64 parseUnsigned; split <;> simp_all
  · intro c hh hd h1 h2
    cases s with
    | nil => cases hh
    | cons x xs =>
      simp at hh; subst hh
      have hall : parseNatDigits (x :: xs) = none := (parseNatDigits_rejects (x :: xs)).2 x (by simp) hd
      constructor
      · unfold parseI64 parseSigned; split <;> simp_all
      · unfold parseU64 parseUnsigned; split <;> simp_all
  · intro hh
    cases s with
    | nil => cases hh
    | cons x xs =>
      simp at hh; subst hh
      have hd : digitVal '-' = none := by decide
      have hall : parseNatDigits ('-' :: xs) = none := (parseNatDigits_rejects ('-' :: xs)).2 '-' (by simp) hd
      unfold parseU64 parseUnsigned; split <;> simp_all

/-- What parses is inside the target range: no wrapped value. -/
theorem parse_in_range (s : Str) :
    (∀ i, parseI64 s = some i → inI64 i = true) ∧ (∀ n, parseU64 s = some n → n ≤ u64Max) := by
  constructor
  · intro i h
    unfold parseI64 at h
    cases hp : parseSigned s with
    | none => simp [hp] at h
    | some j =>
      simp [hp] at h
      obtain ⟨h1, rfl⟩ := h; exact h1
  · intro n h
    unfold parseU64 at h
    cases hp : parseUnsigned s with
    | none => simp [hp] at h
    | some j =>
      simp [hp] at h
      obtain ⟨h1, rfl⟩ := h; exact h1

/-- The constructors turn "does not parse" into an error, "parses" into that number. -/
theorem int_uint_of_string (s : Str) :
    ctor X now "int" [.str s] = (match parseI64 s with | some i => .int i | none => .err .value) ∧
    ctor X now "uint" [.str s] = (match parseU64 s with | some n => .uint n | none => .err .value) ∧
    ctor X now "double" [.str s] = (match X.doubleOfStr s with | some d => .float d | none => .err .value) := by
  refine ⟨?_, ?_, ?_⟩
  · cases h : parseI64 s <;> ctor_simp [h]
  · cases h : parseU64 s <;> ctor_simp [h]
  · cases h : X.doubleOfStr s <;> ctor_simp [h]

example : parseI64 " 1".toList = none ∧ parseI64 "1 ".toList = none ∧ parseI64 "1e3".toList = none ∧
    parseI64 "--1".toList = none ∧ parseI64 "9223372036854775808".toList = none ∧
    parseI64 "-9223372036854775808".toList = some i64Min ∧ parseI64 "+7".toList = some 7 ∧
    parseU64 "-0".toList = none ∧ parseU64 "18446744073709551616".toList = none ∧
    parseI64 "١".toList = none := by decide


/-- `double(string(d)) == d` for finite `d` is exactly the round-trip contract of Rust's shortest
    float printing and correctly rounded parsing (`ConvExt`): given that contract, the constructors add nothing. -/
theorem double_string (d : UInt64) (hX : X.doubleOfStr (X.stringDouble d) = some d) :
    ctor X now "double" [ctor X now "string" [.float d]] = .float d := by
  ctor_simp [hX]

/-! ### f-strings -/

/-- All segments are strings: the result is their concatenation. -/
theorem concatStrs_strs (ss : List Str) : concatStrs (ss.map .str) = .ok ss.flatten := by
  induction ss with
  | nil => rfl
  | cons s rest ih => simp [concatStrs, ih]

/-- Otherwise the first segment (in source order) that is not a string decides: its own error if it is
    a failed conversion, a Runtime error for any other value. -/
theorem concatStrs_first_bad (ss : List Str) (v : Val) (rest : List Val) (hv : ∀ s, v ≠ .str s) :
    concatStrs (ss.map .str ++ v :: rest) = .error (match v with | .err k => k | _ => .runtime) := by
  induction ss with
  | nil =>
    cases v <;> first | exact absurd rfl (hv _) | simp [concatStrs]
  | cons s ss ih => simp [concatStrs, ih]

/-- The three instructions a segment is lowered to: push the literal / the expression block, call `string`. -/
def segCode (a : Val) : List Instr := [.push a, .push (.ident "string".toList), .call 1]

/-- What the lowering pushes for a segment. -/
def segArg (B : Builtins) : FSegAst → Val
  | .lit s => .str s
  | .expr _ e => .code (compileX B e).cp.toCode

theorem compileSegs_eq (B : Builtins) (segs : List FSegAst) :
    compileSegs B segs = (segs.map (segArg B)).flatMap segCode := by
  induction segs with
  | nil => simp [compileSegs]
  | cons s rest ih => cases s <;> simp [compileSegs, ih, segArg, segCode]

/-- The lowering of an f-string: per segment `PUSH, PUSH string, CALL 1`, then `FMT n`. -/
theorem fstring_lowering (B : Builtins) (sp : Span) (segs : List FSegAst) :
    compilePrim B (.fstr sp segs) = .code ((segs.map (segArg B)).flatMap segCode ++ [.fmt segs.length]) := by
  simp [compilePrim, compileSegs_eq]


section exec
variable (B : Builtins) (rec recTop : Rec) (env : Env)

def NotIdent (v : Val) : Prop := ∀ n, v ≠ .ident n

/-- In `env` the name `string` means the constructor (no function or macro of that name is bound). -/
def StringIsCtor : Prop :=
  env.getFunc B "string".toList = none ∧ env.isMacro "string".toList = false ∧
  env.getType "string".toList = some (.type "string".toList)

/-- The value of one segment: `string(·)` of the resolved argument; a failure while evaluating the
    embedded expression is the segment's value. -/
def segVal (a : Val) (log : Log) : Val × Log :=
  match resolveArgs rec env [a] log with
  | .error (ab, l) => (.err ab.kind, l)
  | .ok (vs, l) => (B.ctor "string".toList vs, l)

/-- All segments left to right, threading the call log. -/
def segVals : List Val → Log → List Val × Log
  | [], log => ([], log)
  | a :: rest, log =>
    let r := segVal B rec env a log
    let rs := segVals rest r.2
    (r.1 :: rs.1, rs.2)

def fmtVal (vs : List Val) : Val :=
  match concatStrs vs with
  | .ok s => .str s
  | .error k => .err k

theorem popS_val {v : Val} (h : NotIdent v) (st : List SVal) (log : Log) :
    popS rec env ⟨.val v :: st, log⟩ = .ok (.val v) ⟨st, log⟩ := by
  cases v <;> first | rfl | exact absurd rfl (h _)

theorem popV_val {v : Val} (h : NotIdent v) (st : List SVal) (log : Log) :
    popV rec env ⟨.val v :: st, log⟩ = .ok v ⟨st, log⟩ := by
  simp [popV, popS_val rec env h]

theorem popN_vals (vs : List Val) (h : ∀ v ∈ vs, NotIdent v) (st : List SVal) (log : Log) :
    popN rec env vs.length ⟨vs.map .val ++ st, log⟩ = .ok vs ⟨st, log⟩ := by
  induction vs with
  | nil => rfl
  | cons v rest ih =>
    simp only [List.length_cons, List.map_cons, List.cons_append, popN]
    rw [popV_val rec env (h v (by simp))]
    simp only []
    rw [ih (fun v hv => h v (by simp [hv]))]

/-- One segment on the VM: three instructions leave `string(·)` of the segment on the stack. -/
theorem seg_steps (hs : StringIsCtor B env) (a : Val) (ha : NotIdent a) (len pc : Nat) (st : List SVal) (log : Log) :
    step B rec recTop env len (.push a) (pc + 1) ⟨st, log⟩ = .ok (pc + 1) ⟨.val a :: st, log⟩ ∧
    step B rec recTop env len (.push (.ident "string".toList)) (pc + 2) ⟨.val a :: st, log⟩
      = .ok (pc + 2) ⟨.val (.ident "string".toList) :: .val a :: st, log⟩ ∧
    step B rec recTop env len (.call 1) (pc + 3) ⟨.val (.ident "string".toList) :: .val a :: st, log⟩
      = .ok (pc + 3) ⟨.val (segVal B rec env a log).1 :: st, (segVal B rec env a log).2⟩ := by
  obtain ⟨h1, h2, h3⟩ := hs
  refine ⟨rfl, rfl, ?_⟩
  have hp : popN rec env 1 ⟨.val a :: st, log⟩ = .ok [a] ⟨st, log⟩ := popN_vals rec env [a] (by simpa using ha) st log
  simp only [step, popRaw, hp, h1, h2, h3, segVal]
  cases resolveArgs rec env [a] log with
  | error e => obtain ⟨ab, l⟩ := e; rfl
  | ok r => obtain ⟨vs, l⟩ := r; rfl

theorem loop_step_at (code : List Instr) (fuel pc : Nat) (s : St) (i : Instr) (h : code[pc]? = some i) :
    loop B rec recTop env code (fuel + 1) pc s =
      match step B rec recTop env code.length i (pc + 1) s with
      | .fail a l => .fail a l
      | .ok pc' s' => loop B rec recTop env code fuel pc' s' := by
  rw [loop]; simp only [h]; rfl

theorem loop_end (code : List Instr) (fuel : Nat) (s : St) :
    loop B rec recTop env code fuel code.length s = .ok () s := by
  cases fuel with
  | zero => simp [loop]
  | succ f => rw [loop]; simp

/-- The string constructor never answers with an identifier (it answers a string or fails). -/
theorem string_ctor_notIdent (vs : List Val) : NotIdent (constructType X now "string".toList vs) := by
  intro n h
  have hp := dispatch_produces (string_produces X) .null vs
  have he : constructType X now "string".toList vs = dispatch (stringOverloads X) .null vs := by
    simp [constructType]
  rw [he] at h
  rw [h] at hp
  rcases hp with hp | hp
  · cases hp
  · have h2 : "ident".toList = "string".toList := hp
    revert h2; decide

theorem segVal_notIdent (hB : B.ctor = constructType X now) (a : Val) (log : Log) :
    NotIdent (segVal B rec env a log).1 := by
  unfold segVal
  cases resolveArgs rec env [a] log with
  | error e => obtain ⟨ab, l⟩ := e; intro n h; cases h
  | ok r => obtain ⟨vs, l⟩ := r; simp only [hB]; exact string_ctor_notIdent X now vs

/-- The segments' code, run from the position after `pre` with the values of the earlier segments
    (`done`, latest on top) on the stack, ends with the formatted string on the stack. -/
theorem run_segs (hB : B.ctor = constructType X now) (hs : StringIsCtor B env)
    (args : List Val) (hargs : ∀ a ∈ args, NotIdent a) :
    ∀ (pre : List Instr) (done : List Val) (_ : ∀ v ∈ done, NotIdent v) (st : List SVal) (log : Log) (fuel : Nat),
      3 * args.length + 1 ≤ fuel →
      loop B rec recTop env (pre ++ (args.flatMap segCode ++ [.fmt (done.length + args.length)])) fuel pre.length
          ⟨done.map .val ++ st, log⟩
        = .ok () ⟨.val (fmtVal (done.reverse ++ (segVals B rec env args log).1)) :: st, (segVals B rec env args log).2⟩ := by
  induction args with
  | nil =>
    intro pre done hdone st log fuel hf
    obtain ⟨f, rfl⟩ : ∃ f, fuel = f + 1 := ⟨fuel - 1, by omega⟩
    simp only [List.length_nil, Nat.add_zero, List.flatMap_nil, List.nil_append]
    have hc : (pre ++ [Instr.fmt done.length])[pre.length]? = some (.fmt done.length) := by simp
    rw [loop_step_at B rec recTop env _ f pre.length _ _ hc]
    simp only [step, popN_vals rec env done hdone st log, segVals, List.append_nil, fmtVal]
    have hl : pre.length + 1 = (pre ++ [Instr.fmt done.length]).length := by simp
    cases concatStrs done.reverse with
    | ok str => simp only []; rw [hl]; exact loop_end B rec recTop env _ f _
    | error k => simp only []; rw [hl]; exact loop_end B rec recTop env _ f _
  | cons a rest ih =>
    intro pre done hdone st log fuel hf
    obtain ⟨f, rfl⟩ : ∃ f, fuel = f + 3 := ⟨fuel - 3, by simp at hf; omega⟩
    have ha : NotIdent a := hargs a (by simp)
    obtain ⟨s1, s2, s3⟩ := seg_steps B rec recTop env hs a ha
      (pre ++ ((a :: rest).flatMap segCode ++ [Instr.fmt (done.length + (a :: rest).length)])).length pre.length (done.map .val ++ st) log
    have c1 : (pre ++ ((a :: rest).flatMap segCode ++ [Instr.fmt (done.length + (a :: rest).length)]))[pre.length]? = some (.push a) := by
      simp [segCode]
    have c2 : (pre ++ ((a :: rest).flatMap segCode ++ [Instr.fmt (done.length + (a :: rest).length)]))[pre.length + 1]? = some (.push (.ident "string".toList)) := by
      simp [segCode]
    have c3 : (pre ++ ((a :: rest).flatMap segCode ++ [Instr.fmt (done.length + (a :: rest).length)]))[pre.length + 2]? = some (.call 1) := by
      simp [segCode]
    rw [loop_step_at B rec recTop env _ (f + 2) pre.length _ _ c1, s1]
    simp only []
    rw [loop_step_at B rec recTop env _ (f + 1) (pre.length + 1) _ _ c2, s2]
    simp only []
    rw [loop_step_at B rec recTop env _ f (pre.length + 2) _ _ c3, s3]
    simp only []
    have hdone' : ∀ v ∈ (segVal B rec env a log).1 :: done, NotIdent v := by
      intro v hv
      rcases List.mem_cons.1 hv with rfl | hv
      · exact segVal_notIdent X now B rec env hB a log
      · exact hdone v hv
    have := ih (fun x hx => hargs x (by simp [hx])) (pre ++ segCode a) ((segVal B rec env a log).1 :: done) hdone' st
      (segVal B rec env a log).2 f (by simp at hf; omega)
    have e1 : pre ++ segCode a ++ (rest.flatMap segCode ++ [Instr.fmt (((segVal B rec env a log).1 :: done).length + rest.length)])
        = pre ++ ((a :: rest).flatMap segCode ++ [Instr.fmt (done.length + (a :: rest).length)]) := by
      simp [List.flatMap_cons, List.append_assoc, Nat.add_comm, Nat.add_left_comm]
    have e2 : (pre ++ segCode a).length = pre.length + 3 := by simp [segCode]
    rw [e1, e2] at this
    simp only [List.map_cons, List.cons_append] at this
    rw [this]
    simp [segVals, List.reverse_cons, List.append_assoc]

end exec


theorem length_segs (args : List Val) : (args.flatMap segCode).length = 3 * args.length := by
  induction args with
  | nil => rfl
  | cons a rest ih => simp [List.flatMap_cons, segCode, ih]; omega

/-- **f-string specification.**  Running the code of an f-string (its segments lowered as in
    `fstring_lowering`) as a block at depth `b + 1`, in an environment where `string` is the constructor,
    yields the concatenation of `string(·)` of every segment in source order — literal parts are
    themselves (`string_id`), embedded expressions are evaluated one level down — and fails exactly when
    a segment fails, with the first failing segment's error.  Any number of segments. -/
theorem fstring_spec (B : Builtins) (hB : B.ctor = constructType X now) (env : Env) (hs : StringIsCtor B env)
    (args : List Val) (hargs : ∀ a ∈ args, NotIdent a) (b : Nat) (log : Log) :
    let vals := segVals B (runAt B b) env args log
    runAt B (b + 1) env (args.flatMap segCode ++ [.fmt args.length]) true log =
      { res := (match concatStrs vals.1 with
                | .ok s => .ok (.str s)
                | .error k => .error (.err k)),
        log := vals.2 } := by
  intro vals
  have h := run_segs X now B (runAt B b) (runFresh B) env hB hs args hargs [] [] (by simp) [] log
    (blockFuel (args.flatMap segCode ++ [.fmt args.length]))
    (by have := length_segs args
        simp only [blockFuel, List.length_append, this, List.length_cons, List.length_nil]; omega)
  simp only [List.nil_append, List.length_nil, Nat.zero_add, List.map_nil, List.reverse_nil] at h
  simp only [runAt]
  rw [h]
  simp only [finish, fmtVal, vals]
  cases concatStrs (segVals B (runAt B b) env args log).1 with
  | ok s => rfl
  | error k => rfl

/-- A literal segment is itself and logs nothing. -/
theorem segVal_lit (B : Builtins) (hB : B.ctor = constructType X now) (rec : Rec) (env : Env) (s : Str) (log : Log) :
    segVal B rec env (.str s) log = (.str s, log) := by
  simp only [segVal, resolveArgs, hB]
  have := string_id X now s
  simp only [ctor] at this
  rw [this]

/-- An embedded expression contributes `string(v)` of its value `v` (evaluated as a block one level down),
    or its failure. -/
theorem segVal_expr (B : Builtins) (rec : Rec) (env : Env) (c : List Instr) (log : Log) :
    segVal B rec env (.code c) log =
      (match (rec env c true log).res with
       | .ok v => (B.ctor "string".toList [v], (rec env c true log).log)
       | .error a => (.err a.kind, (rec env c true log).log)) := by
  simp only [segVal, resolveArgs]
  cases (rec env c true log).res <;> rfl

/-! ### non-vacuity: the hypotheses of the theorems above are satisfiable, the statements bite -/

example : inI64 (-9223372036854775808) = true ∧ (18446744073709551615 : Nat) ≤ u64Max := by decide
example : ctor (tableConv []) 0 "int" [ctor (tableConv []) 0 "string" [.int (-42)]] = .int (-42) := rfl
example : ∀ s, ([0xff] : List UInt8) ≠ utf8Enc s := by
  intro s h
  have : utf8Decode [0xff] = some s := (utf8Decode_eq_some _ _).2 h
  have h2 : utf8Decode [0xff] = none := by decide
  rw [h2] at this; cases this
example : ctor (tableConv []) 0 "int" [.uint 18446744073709551615] = .err .value ∧
    ctor (tableConv []) 0 "uint" [.int (-1)] = .err .value ∧
    ctor (tableConv []) 0 "int" [.uint 7] = .int 7 := ⟨rfl, rfl, rfl⟩
example : ∃ X : ConvExt, X.doubleOfStr (X.stringDouble 0) = some 0 :=
  ⟨{ stringDouble := fun _ => ['0'], stringTs := fun _ => [], stringDur := fun _ => [],
     doubleOfStr := fun _ => some 0, tsOfStr := fun _ => none, durOfStr := fun _ => none }, rfl⟩
example : F.isNaN 0x4008000000000000 = false ∧ F.isInf 0x4008000000000000 = false ∧
    inI64 (F.truncInt 0x4008000000000000) = true := by decide
example : (stdBuiltins 0).ctor = constructType (tableConv []) 0 := rfl
example : StringIsCtor (stdBuiltins 0) {} := ⟨rfl, rfl, rfl⟩
example : NotIdent (.str []) ∧ NotIdent (.code []) := by
  constructor <;> (intro n h; cases h)
/-- `f'a{1}'` on the model VM. -/
example : (runAt (stdBuiltins 0) 2 {} ([Val.str ['a'], .code [.push (.int 1)]].flatMap segCode ++ [.fmt 2]) true []).res
    = .ok (.str ['a', '1']) := rfl
example : concatStrs [.str ['a'], .err .value, .err .divZero] = .error .value := rfl

end C14
end Rscel
