import RscelModel.Theorems.C12
import RscelModel.Model.Context
/-
C12, continued — the depth cost of a program reference that sits inside a *block*.

`Theorems/C12.lean` proves the plain chain (`p := q + 1`: one level per reference, 31 references work).
A reference inside a call argument or a macro body is followed from a block that is itself run one level
deeper (`Interpreter::child` / `run_raw`'s depth check): it costs TWO of the 32 levels, so such a chain
works up to 15 references (16 programs) and ends in the depth error from 16 references on.  Through an
f-string inside a conversion (`int(f'{p}')`: argument block of `int`, argument block of the segment's
`string(..)` call, the program) it costs THREE: 10 references work, 11 fail.

The accounting is stated once, for a link shape `L` with a cost `L.cost` (`Sound`: what one link does with
`L.cost` more levels than the referenced program got), and then instantiated:
  * `ctorArg`  — `dyn(NEXT) + 1`            (call argument of a type constructor), cost 2
  * `mapBody x`— `[0].map(x, NEXT)[0] + 1`   (macro body, run under one more binding), cost 2
  * `coalesceArg` — `coalesce(NEXT) + 1`     (argument of a lazy macro), cost 2
  * `hasArg`   — `has(NEXT) ? 1 : 0`         (the value is 1 from the first reference on), cost 2
  * `fstrArg`  — `int(f'{NEXT}')`            cost 3 (the chain value stays 0)
-/
namespace Rscel
namespace C12Blocks
open C12

variable {B : Builtins}

/-! ### the instruction loop, one instruction at a time -/

theorem loop_at (rec recTop : Rec) (env : Env) (code : List Instr) (fuel pc : Nat) (s : St) (i : Instr)
    (hf : 0 < fuel) (h : code[pc]? = some i) :
    loop B rec recTop env code fuel pc s =
      match step B rec recTop env code.length i (pc + 1) s with
      | .fail a l => .fail a l
      | .ok pc' s' => loop B rec recTop env code (fuel - 1) pc' s' := by
  obtain ⟨f, rfl⟩ : ∃ f, fuel = f + 1 := ⟨fuel - 1, by omega⟩
  simp only [loop, h, Nat.add_sub_cancel]
  cases step B rec recTop env code.length i (pc + 1) s <;> rfl

theorem loop_end (rec recTop : Rec) (env : Env) (code : List Instr) (fuel pc : Nat) (s : St)
    (h : code.length ≤ pc) : loop B rec recTop env code fuel pc s = .ok () s := by
  cases fuel with
  | zero => simp [loop]; omega
  | succ f => simp [loop, List.getElem?_eq_none h]

/-! ### the block that holds the reference -/

/-- The bytecode of an argument / body block that is just a reference to the program `nxt`. -/
def refBlock (nxt : Str) : List Instr := [.push (.ident nxt)]

/-- A block run with no budget left fails with the depth error (log untouched). -/
theorem run_zero (env : Env) (code : List Instr) (log : Log) :
    runAt B 0 env code true log = { res := .error .depth, log := log } := rfl

/-- The block at budget `b + 1` follows the reference at budget `b`: value … -/
theorem ref_ok (b : Nat) (env : Env) (nxt : Str) (code : List Instr) (log log' : Log) (i : Int)
    (ht : env.getType nxt = none) (hp : env.getParam nxt = none) (hg : env.getProg nxt = some code)
    (hr : runAt B b env code true log = { res := .ok (.int i), log := log' }) :
    runAt B (b + 1) env (refBlock nxt) true log = { res := .ok (.int i), log := log' } := by
  simp [runAt, refBlock, blockFuel, loop, step, popS, pushV, finish, ht, hp, hg, hr]

/-- … or failure (which reaches the block as a failed operand and ends it). -/
theorem ref_err (b : Nat) (env : Env) (nxt : Str) (code : List Instr) (log log' : Log) (a : Abort)
    (ht : env.getType nxt = none) (hp : env.getParam nxt = none) (hg : env.getProg nxt = some code)
    (hr : runAt B b env code true log = { res := .error a, log := log' }) :
    runAt B (b + 1) env (refBlock nxt) true log = { res := .error (.err a.kind), log := log' } := by
  simp [runAt, refBlock, blockFuel, loop, step, popS, pushV, finish, ht, hp, hg, hr]

/-! ### generic chains of links of one shape -/

/-- A way of referring to the next program from inside a block. -/
structure Shape where
  /-- the bytecode of a program that refers to `nxt` through the construct -/
  code : Str → List Instr
  /-- levels of the depth budget one reference takes -/
  cost : Nat
  /-- the environment under which the referenced program is run (macro bodies add a binding) -/
  inner : Env → Env
  /-- what the construct needs of the environment (bindings present, its name not taken by a function) -/
  good : Env → Prop
  /-- program names the construct can refer to (not its own loop variable) -/
  okName : Str → Prop
  /-- the value of a program with `d` references below it -/
  val : Nat → Int

/-- `env` holds the chain `names 0 := L(names 1), …, names (k-1) := L(names k), names k := 0`. -/
structure IsBlockChain (L : Shape) (env : Env) (names : Nat → Str) (k : Nat) : Prop where
  good : L.good env
  okName : ∀ i, L.okName (names i)
  notType : ∀ i, env.getType (names i) = none
  notParam : ∀ i, env.getParam (names i) = none
  links : ∀ i, i < k → env.getProg (names i) = some (L.code (names (i + 1)))
  last : env.getProg (names k) = some leaf

/-- The program stored under `names j` in a chain of `k` references. -/
def blockChainCode (L : Shape) (names : Nat → Str) (k j : Nat) : List Instr :=
  if j < k then L.code (names (j + 1)) else leaf

/-- **The accounting of one link**: given `L.cost` more levels than the referenced program, the link
    passes its value on (`run_ok`) or fails with it (`run_err`); with fewer than `L.cost` levels it fails
    without reaching the referenced program at all (`run_shallow`).  The environment conditions survive
    into the environment of the referenced program. -/
structure Shape.Sound (B : Builtins) (L : Shape) : Prop where
  cost_pos : 0 < L.cost
  val_zero : L.val 0 = 0
  good_inner : ∀ env, L.good env → L.good (L.inner env)
  inner_type : ∀ env n, (L.inner env).getType n = env.getType n
  inner_param : ∀ env n, L.okName n → (L.inner env).getParam n = env.getParam n
  inner_prog : ∀ env n, (L.inner env).getProg n = env.getProg n
  run_ok : ∀ (b : Nat) (env : Env) (nxt : Str) (code : List Instr) (log log' : Log) (d : Nat),
    L.good env → L.okName nxt → env.getType nxt = none → env.getParam nxt = none →
    env.getProg nxt = some code → (d : Int) + 1 ≤ 9223372036854775807 →
    runAt B b (L.inner env) code true log = { res := .ok (.int (L.val d)), log := log' } →
    runAt B (b + L.cost) env (L.code nxt) true log = { res := .ok (.int (L.val (d + 1))), log := log' }
  run_err : ∀ (b : Nat) (env : Env) (nxt : Str) (code : List Instr) (log log' : Log) (a : Abort),
    L.good env → L.okName nxt → env.getType nxt = none → env.getParam nxt = none →
    env.getProg nxt = some code → a.kind = .runtime →
    runAt B b (L.inner env) code true log = { res := .error a, log := log' } →
    ∃ a', runAt B (b + L.cost) env (L.code nxt) true log = { res := .error a', log := log' } ∧ a'.kind = .runtime
  run_shallow : ∀ (b : Nat) (env : Env) (nxt : Str) (code : List Instr) (log : Log),
    b < L.cost → L.good env → L.okName nxt → env.getType nxt = none → env.getParam nxt = none →
    env.getProg nxt = some code →
    ∃ a', runAt B b env (L.code nxt) true log = { res := .error a', log := log } ∧ a'.kind = .runtime

/-- The referenced program sees the same chain. -/
theorem IsBlockChain.inner {L : Shape} (hs : L.Sound B) {env : Env} {names : Nat → Str} {k : Nat}
    (hc : IsBlockChain L env names k) : IsBlockChain L (L.inner env) names k where
  good := hs.good_inner env hc.good
  okName := hc.okName
  notType i := by rw [hs.inner_type]; exact hc.notType i
  notParam i := by rw [hs.inner_param _ _ (hc.okName i)]; exact hc.notParam i
  links i hi := by rw [hs.inner_prog]; exact hc.links i hi
  last := by rw [hs.inner_prog]; exact hc.last

theorem IsBlockChain.prog_next {L : Shape} {env : Env} {names : Nat → Str} {k : Nat}
    (hc : IsBlockChain L env names k) (j : Nat) (hj : j < k) :
    env.getProg (names (j + 1)) = some (blockChainCode L names k (j + 1)) := by
  unfold blockChainCode
  split
  · exact hc.links (j + 1) (by assumption)
  · have : j + 1 = k := by omega
    rw [this]; exact hc.last

/-- **Value**: running the `j`-th program of the chain with more than `d * L.cost` levels
    (`d = k - j` references still to follow) yields `L.val d`; the call log is untouched. -/
theorem block_chain_value (L : Shape) (hs : L.Sound B) (names : Nat → Str) (k : Nat)
    (hk : (k : Int) ≤ 9223372036854775807) :
    ∀ (d : Nat) (env : Env) (j b : Nat) (log : Log), IsBlockChain L env names k → j + d = k → d * L.cost < b →
      runAt B b env (blockChainCode L names k j) true log = { res := .ok (.int (L.val d)), log := log } := by
  intro d
  induction d with
  | zero =>
    intro env j b log _ hj hb
    obtain ⟨b', rfl⟩ : ∃ b', b = b' + 1 := ⟨b - 1, by omega⟩
    have : ¬ j < k := by omega
    simp only [blockChainCode, this, if_false, hs.val_zero]
    exact run_leaf b' env log
  | succ d ih =>
    intro env j b log hc hj hb
    obtain ⟨b', rfl⟩ : ∃ b', b = b' + L.cost := ⟨b - L.cost, by rw [Nat.succ_mul] at hb; omega⟩
    have hlt : j < k := by omega
    have hnext := ih (L.inner env) (j + 1) b' log (hc.inner hs) (by omega) (by rw [Nat.succ_mul] at hb; omega)
    simp only [blockChainCode, hlt, if_true]
    exact hs.run_ok b' env (names (j + 1)) _ log log d hc.good (hc.okName _) (hc.notType _) (hc.notParam _)
      (hc.prog_next j hlt) (by omega) hnext

/-- **Failure**: with no more than `d * L.cost` levels the `j`-th program fails — at the bottom with the
    depth error, which every link above passes on as a Runtime failure; the run never ends in any other
    way, and the log is untouched. -/
theorem block_chain_fails (L : Shape) (hs : L.Sound B) (names : Nat → Str) (k : Nat) :
    ∀ (d : Nat) (env : Env) (j b : Nat) (log : Log), IsBlockChain L env names k → j + d = k → b ≤ d * L.cost →
      ∃ a, runAt B b env (blockChainCode L names k j) true log = { res := .error a, log := log } ∧
        a.kind = .runtime := by
  intro d
  induction d with
  | zero =>
    intro env j b log _ _ hb
    have : b = 0 := by omega
    subst this
    exact ⟨.depth, rfl, rfl⟩
  | succ d ih =>
    intro env j b log hc hj hb
    have hlt : j < k := by omega
    simp only [blockChainCode, hlt, if_true]
    by_cases hsh : b < L.cost
    · exact hs.run_shallow b env (names (j + 1)) _ log hsh hc.good (hc.okName _) (hc.notType _) (hc.notParam _)
        (hc.prog_next j hlt)
    · obtain ⟨b', rfl⟩ : ∃ b', b = b' + L.cost := ⟨b - L.cost, by omega⟩
      obtain ⟨a, ha, hka⟩ := ih (L.inner env) (j + 1) b' log (hc.inner hs) (by omega)
        (by rw [Nat.succ_mul] at hb; omega)
      exact hs.run_err b' env (names (j + 1)) _ log log a hc.good (hc.okName _) (hc.notType _) (hc.notParam _)
        (hc.prog_next j hlt) hka ha

/-- Executed the way `CelContext::exec` does (32 levels): `k` references with `k * cost < 32` evaluate. -/
theorem block_chain_ok (L : Shape) (hs : L.Sound B) (env : Env) (names : Nat → Str) (k : Nat)
    (hc : IsBlockChain L env names k) (hk : k * L.cost < maxDepth) :
    execProg B env (blockChainCode L names k 0) = { res := .ok (.int (L.val k)), log := [] } := by
  have hk' : k < 32 := by
    have := Nat.le_mul_of_pos_right k hs.cost_pos
    simp only [maxDepth] at hk; omega
  exact block_chain_value L hs names k (by omega) k env 0 maxDepth [] hc (by omega) hk

/-- … and `k` references with `32 ≤ k * cost` end in a Runtime failure of the executed program. -/
theorem block_chain_too_deep (L : Shape) (hs : L.Sound B) (env : Env) (names : Nat → Str) (k : Nat)
    (hc : IsBlockChain L env names k) (hk : maxDepth ≤ k * L.cost) :
    ∃ a, execProg B env (blockChainCode L names k 0) = { res := .error a, log := [] } ∧ a.kind = .runtime :=
  block_chain_fails L hs names k k env 0 maxDepth [] hc (by omega) hk

/-- A shape whose link runs the block `refBlock nxt` exactly one level down costs two levels. -/
theorem Shape.sound_of_block (L : Shape) (hcost : L.cost = 2) (hv0 : L.val 0 = 0)
    (good_inner : ∀ env, L.good env → L.good (L.inner env))
    (inner_type : ∀ env n, (L.inner env).getType n = env.getType n)
    (inner_param : ∀ env n, L.okName n → (L.inner env).getParam n = env.getParam n)
    (inner_prog : ∀ env n, (L.inner env).getProg n = env.getProg n)
    (lvl_ok : ∀ (b : Nat) (env : Env) (nxt : Str) (log log' : Log) (d : Nat), L.good env → L.okName nxt →
      (d : Int) + 1 ≤ 9223372036854775807 →
      runAt B b (L.inner env) (refBlock nxt) true log = { res := .ok (.int (L.val d)), log := log' } →
      runAt B (b + 1) env (L.code nxt) true log = { res := .ok (.int (L.val (d + 1))), log := log' })
    (lvl_err : ∀ (b : Nat) (env : Env) (nxt : Str) (log log' : Log) (a : Abort), L.good env → L.okName nxt →
      a.kind = .runtime →
      runAt B b (L.inner env) (refBlock nxt) true log = { res := .error a, log := log' } →
      ∃ a', runAt B (b + 1) env (L.code nxt) true log = { res := .error a', log := log' } ∧ a'.kind = .runtime) :
    L.Sound B where
  cost_pos := by omega
  val_zero := hv0
  good_inner := good_inner
  inner_type := inner_type
  inner_param := inner_param
  inner_prog := inner_prog
  run_ok b env nxt code log log' d hg hn ht hp hpr hd hr := by
    rw [hcost]
    have h1 := ref_ok b (L.inner env) nxt code log log' (L.val d) (by rw [inner_type]; exact ht)
      (by rw [inner_param _ _ hn]; exact hp) (by rw [inner_prog]; exact hpr) hr
    exact lvl_ok (b + 1) env nxt log log' d hg hn hd h1
  run_err b env nxt code log log' a hg hn ht hp hpr hka hr := by
    rw [hcost]
    have h1 := ref_err b (L.inner env) nxt code log log' a (by rw [inner_type]; exact ht)
      (by rw [inner_param _ _ hn]; exact hp) (by rw [inner_prog]; exact hpr) hr
    exact lvl_err (b + 1) env nxt log log' (.err a.kind) hg hn hka h1
  run_shallow b env nxt code log hb hg hn _ _ _ := by
    rw [hcost] at hb
    obtain rfl | rfl : b = 0 ∨ b = 1 := by omega
    · exact ⟨.depth, rfl, rfl⟩
    · exact lvl_err 0 env nxt log log .depth hg hn rfl (run_zero _ _ _)

/-! ### popping code-block arguments, running them -/

theorem popN_code1 (rec : Rec) (env : Env) (c : List Instr) (rest : List SVal) (log : Log) :
    popN rec env 1 { stack := .val (.code c) :: rest, log := log } = .ok [.code c] { stack := rest, log := log } := by
  simp [popN, popV, popS]

theorem popN_code2 (rec : Rec) (env : Env) (c₁ c₂ : List Instr) (rest : List SVal) (log : Log) :
    popN rec env 2 { stack := .val (.code c₁) :: .val (.code c₂) :: rest, log := log } =
      .ok [.code c₁, .code c₂] { stack := rest, log := log } := by
  simp [popN, popV, popS]

theorem resolveArgs_code1 (rec : Rec) (env : Env) (c : List Instr) (log : Log) :
    resolveArgs rec env [.code c] log =
      match (rec env c true log).res with
      | .error a => .error (a, (rec env c true log).log)
      | .ok v => .ok ([v], (rec env c true log).log) := by
  simp only [resolveArgs]
  cases (rec env c true log).res <;> rfl

/-- `T(BLOCK)` for a type name `T` that names neither a function nor a macro: the block is run by the
    nested-run callback (one level down) and the type is constructed from its value; a failed block is a
    failed operand. -/
theorem step_call_ctor1 (rec recTop : Rec) (env : Env) (len pc : Nat) (f tn : Str) (c : List Instr)
    (rest : List SVal) (log : Log)
    (hf : env.getFunc B f = none) (hm : env.isMacro f = false) (ht : env.getType f = some (.type tn)) :
    step B rec recTop env len (.call 1) pc { stack := .val (.ident f) :: .val (.code c) :: rest, log := log } =
      match (rec env c true log).res with
      | .error a => .ok pc { stack := .val (.err a.kind) :: rest, log := (rec env c true log).log }
      | .ok v => .ok pc { stack := .val (B.ctor tn [v]) :: rest, log := (rec env c true log).log } := by
  have h := (call_func_over_macro_over_type (B := B) (rec := rec) (recTop := recTop) env len 1 pc f
    { stack := .val (.ident f) :: .val (.code c) :: rest, log := log } _ _ [.code c] rfl
    (popN_code1 rec env c rest log)).2.2.1 tn hf hm ht
  rw [h, resolveArgs_code1]
  cases (rec env c true log).res <;> rfl

/-! ### (1) call argument of a type constructor: `dyn(NEXT) + 1` -/

/-- What the compiler emits for `dyn(NEXT) + 1`. -/
def ctorLink (nxt : Str) : List Instr :=
  [.push (.code (refBlock nxt)), .push (.ident "dyn".toList), .call 1, .push (.int 1), .add]

/-- The constructor `dyn` is the identity on ints (true of the default constructors, `stdBuiltins_dyn`). -/
def DynId (B : Builtins) : Prop := ∀ i : Int, B.ctor "dyn".toList [.int i] = .int i

def ctorArg (B : Builtins) : Shape where
  code := ctorLink
  cost := 2
  inner := fun env => env
  good := fun env => env.hasBinds = true ∧ env.getFunc B "dyn".toList = none
  okName := fun _ => True
  val := fun d => d

theorem dyn_not_macro (env : Env) : env.isMacro "dyn".toList = false := by
  simp only [Env.isMacro, defaultMacros, compileMacros]; cases env.compileMode <;> simp <;> decide

theorem dyn_type (env : Env) (hb : env.hasBinds = true) :
    env.getType "dyn".toList = some (.type "dyn".toList) := by
  simp only [Env.getType, hb, if_true]; rfl

theorem ctor_lvl_ok (hdyn : DynId B) (b : Nat) (env : Env) (nxt : Str) (log log' : Log) (d : Nat)
    (hb : env.hasBinds = true) (hf : env.getFunc B "dyn".toList = none)
    (hd : (d : Int) + 1 ≤ 9223372036854775807)
    (hr : runAt B b env (refBlock nxt) true log = { res := .ok (.int d), log := log' }) :
    runAt B (b + 1) env (ctorLink nxt) true log = { res := .ok (.int ((d + 1 : Nat) : Int)), log := log' } := by
  have hadd := add_one d hd
  rw [show ((d + 1 : Nat) : Int) = (d : Int) + 1 by omega, nested_runs_at_smaller_budget]
  simp only [ctorLink, blockFuel, List.length_cons, List.length_nil, Nat.reduceAdd, Nat.reduceMul]
  rw [loop_at (i := .push (.code (refBlock nxt))) (hf := by omega) (h := rfl)]
  simp only [step, pushV, Nat.reduceAdd, Nat.reduceSub]
  rw [loop_at (i := .push (.ident "dyn".toList)) (hf := by omega) (h := rfl)]
  simp only [step, pushV, Nat.reduceAdd, Nat.reduceSub]
  rw [loop_at (i := .call 1) (hf := by omega) (h := rfl)]
  rw [step_call_ctor1 (hf := hf) (hm := dyn_not_macro env) (ht := dyn_type env hb), hr]
  simp only [hdyn d, Nat.reduceAdd, Nat.reduceSub]
  rw [loop_at (i := .push (.int 1)) (hf := by omega) (h := rfl)]
  simp only [step, pushV, Nat.reduceAdd, Nat.reduceSub]
  rw [loop_at (i := .add) (hf := by omega) (h := rfl)]
  simp only [step, liftNext, binop, popV, popS, pushV, hadd, Nat.reduceAdd, Nat.reduceSub]
  rw [loop_end (h := by simp)]
  simp [finish, popS]

theorem ctor_lvl_err (b : Nat) (env : Env) (nxt : Str) (log log' : Log) (a : Abort)
    (hb : env.hasBinds = true) (hf : env.getFunc B "dyn".toList = none)
    (hr : runAt B b env (refBlock nxt) true log = { res := .error a, log := log' }) :
    runAt B (b + 1) env (ctorLink nxt) true log = { res := .error (.err a.kind), log := log' } := by
  rw [nested_runs_at_smaller_budget]
  simp only [ctorLink, blockFuel, List.length_cons, List.length_nil, Nat.reduceAdd, Nat.reduceMul]
  rw [loop_at (i := .push (.code (refBlock nxt))) (hf := by omega) (h := rfl)]
  simp only [step, pushV, Nat.reduceAdd, Nat.reduceSub]
  rw [loop_at (i := .push (.ident "dyn".toList)) (hf := by omega) (h := rfl)]
  simp only [step, pushV, Nat.reduceAdd, Nat.reduceSub]
  rw [loop_at (i := .call 1) (hf := by omega) (h := rfl)]
  rw [step_call_ctor1 (hf := hf) (hm := dyn_not_macro env) (ht := dyn_type env hb), hr]
  simp only [Nat.reduceAdd, Nat.reduceSub]
  rw [loop_at (i := .push (.int 1)) (hf := by omega) (h := rfl)]
  simp only [step, pushV, Nat.reduceAdd, Nat.reduceSub]
  rw [loop_at (i := .add) (hf := by omega) (h := rfl)]
  simp only [step, liftNext, binop, popV, popS, pushV, arith, errProp, Nat.reduceAdd, Nat.reduceSub]
  rw [loop_end (h := by simp)]
  simp [finish, popS]

/-- **The accounting of a constructor argument**: two levels per reference. -/
theorem ctorArg_sound (hdyn : DynId B) : (ctorArg B).Sound B :=
  Shape.sound_of_block (ctorArg B) rfl rfl (fun _ h => h) (fun _ _ => rfl) (fun _ _ _ => rfl) (fun _ _ => rfl)
    (fun b env nxt log log' d hg _ hd hr => ctor_lvl_ok hdyn b env nxt log log' d hg.1 hg.2 hd hr)
    (fun b env nxt log log' a hg _ hka hr => ⟨.err a.kind, ctor_lvl_err b env nxt log log' a hg.1 hg.2 hr, hka⟩)

/-- **Constructor-argument chains up to 15 references evaluate**: executed the way `CelContext::exec`
    does, `q₀ := dyn(q₁) + 1, …, q_k := 0` yields `k` for every `k ≤ 15`. -/
theorem ctor_chain_ok (hdyn : DynId B) (env : Env) (names : Nat → Str) (k : Nat)
    (hc : IsBlockChain (ctorArg B) env names k) (hk : k ≤ 15) :
    execProg B env (blockChainCode (ctorArg B) names k 0) = { res := .ok (.int k), log := [] } :=
  block_chain_ok (ctorArg B) (ctorArg_sound hdyn) env names k hc
    (by show k * 2 < 32; omega)

/-- In particular the chain that is 16 programs deep (15 references) evaluates to 15. -/
theorem ctor_chain_16_programs (hdyn : DynId B) (env : Env) (names : Nat → Str)
    (hc : IsBlockChain (ctorArg B) env names 15) :
    execProg B env (blockChainCode (ctorArg B) names 15 0) = { res := .ok (.int 15), log := [] } :=
  ctor_chain_ok hdyn env names 15 hc (by omega)

/-- **From 16 references on the chain ends in an error**: a Runtime failure of the executed program
    (never an abort of another kind), log untouched. -/
theorem ctor_chain_too_deep (hdyn : DynId B) (env : Env) (names : Nat → Str) (k : Nat)
    (hc : IsBlockChain (ctorArg B) env names k) (hk : 16 ≤ k) :
    ∃ a, execProg B env (blockChainCode (ctorArg B) names k 0) = { res := .error a, log := [] } ∧
      a.kind = .runtime :=
  block_chain_too_deep (ctorArg B) (ctorArg_sound hdyn) env names k hc
    (by show 32 ≤ k * 2; omega)

/-! ### concrete chains of every length -/

/-- A context holding exactly the chain `q := L(qq), qq := L(qqq), …` of `k` references; no bindings. -/
def blockChainEnv (L : Shape) (k : Nat) : Env :=
  { progs := (List.range (k + 1)).map fun i => (qname i, blockChainCode L qname k i) }

theorem blockChainEnv_isChain (L : Shape) (k : Nat) (hg : L.good (blockChainEnv L k))
    (hn : ∀ i, L.okName (qname i)) : IsBlockChain L (blockChainEnv L k) qname k where
  good := hg
  okName := hn
  notType i := by simp [blockChainEnv, Env.getType, qname_notType]
  notParam i := by simp [blockChainEnv, Env.getParam, lookup]
  links i hi := by
    have := lookup_map_inj qname qname_inj (blockChainCode L qname k) (List.range (k + 1)) i (by simp; omega)
    have h : (blockChainEnv L k).getProg (qname i) =
      lookup ((List.range (k + 1)).map fun i => (qname i, blockChainCode L qname k i)) (qname i) := rfl
    rw [h, this]; simp [blockChainCode, hi]
  last := by
    have := lookup_map_inj qname qname_inj (blockChainCode L qname k) (List.range (k + 1)) k (by simp)
    have h : (blockChainEnv L k).getProg (qname k) =
      lookup ((List.range (k + 1)).map fun i => (qname i, blockChainCode L qname k i)) (qname k) := rfl
    rw [h, this]; simp [blockChainCode]

/-- The default functions have none called `dyn`, and the default constructor `dyn` returns its argument. -/
theorem std_dyn_func (now : Int) : (stdBuiltins now).func "dyn".toList = none := rfl
theorem stdBuiltins_dyn (now : Int) : DynId (stdBuiltins now) := fun _ => rfl

theorem ctorEnv_isChain (hB : B.func "dyn".toList = none) (k : Nat) :
    IsBlockChain (ctorArg B) (blockChainEnv (ctorArg B) k) qname k :=
  blockChainEnv_isChain _ k ⟨rfl, by simp [Env.getFunc, blockChainEnv, lookup]; exact hB⟩ (fun _ => trivial)

/-- The concrete statement for every `k`: in the context `q := dyn(qq) + 1, …` with `k` references,
    `exec("q")` yields `k` when `k ≤ 15` and is a Runtime failure when `k ≥ 16`. -/
theorem ctor_concrete (hdyn : DynId B) (hB : B.func "dyn".toList = none) (k : Nat) :
    (k ≤ 15 → execProg B (blockChainEnv (ctorArg B) k) (blockChainCode (ctorArg B) qname k 0) =
      { res := .ok (.int k), log := [] }) ∧
    (16 ≤ k → ∃ a, execProg B (blockChainEnv (ctorArg B) k) (blockChainCode (ctorArg B) qname k 0) =
      { res := .error a, log := [] } ∧ a.kind = .runtime) :=
  ⟨ctor_chain_ok hdyn _ _ k (ctorEnv_isChain hB k), ctor_chain_too_deep hdyn _ _ k (ctorEnv_isChain hB k)⟩

/-- … with the default functions and constructors. -/
theorem ctor_concrete_std (now : Int) (k : Nat) :
    (k ≤ 15 → execProg (stdBuiltins now) (blockChainEnv (ctorArg (stdBuiltins now)) k)
        (blockChainCode (ctorArg (stdBuiltins now)) qname k 0) = { res := .ok (.int k), log := [] }) ∧
    (16 ≤ k → ∃ a, execProg (stdBuiltins now) (blockChainEnv (ctorArg (stdBuiltins now)) k)
        (blockChainCode (ctorArg (stdBuiltins now)) qname k 0) = { res := .error a, log := [] } ∧
      a.kind = .runtime) :=
  ctor_concrete (stdBuiltins_dyn now) (std_dyn_func now) k

/-! ### (2) macro body: `[0].map(x, NEXT)[0] + 1` -/

theorem step_access_method (rec recTop : Rec) (env : Env) (len pc : Nat) (m : Str) (l : List Val) (c : Callee)
    (rest : List SVal) (log : Log) (hb : env.hasBinds = true) (hc : env.callable B m = some c) :
    step B rec recTop env len .access pc { stack := .val (.ident m) :: .val (.list l) :: rest, log := log } =
      .ok pc { stack := .bound c (.list l) :: rest, log := log } := by
  simp [step, popRaw, popV, popS, hb, hc]

theorem step_call_macro2 (rec recTop : Rec) (env : Env) (len pc : Nat) (name : Str) (this : Val)
    (c₁ c₂ : List Instr) (rest : List SVal) (log : Log) :
    step B rec recTop env len (.call 2) pc
        { stack := .bound (.macro_ name) this :: .val (.code c₁) :: .val (.code c₂) :: rest, log := log } =
      .ok pc { stack := .val (callMacro rec recTop env name this [c₁, c₂] log).1 :: rest,
               log := (callMacro rec recTop env name this [c₁, c₂] log).2 } := by
  simp [step, popRaw, popN_code2, invoke, codeArgs, liftNext, pushV]

theorem evalIdent_var (x : Str) : evalIdent (runFresh B) [.push (.ident x)] = .ok x := by
  simp [evalIdent, runFresh, blockFuel, loop, step, pushV, finish, Env.getParam]

theorem callMacro_map1 (rec : Rec) (env : Env) (x : Str) (v : Val) (body : List Instr) (log : Log) :
    callMacro rec (runFresh B) env "map".toList (.list [v]) [[.push (.ident x)], body] log =
      match (rec (env.bind x v) body true log).res with
      | .error a => (.err a.kind, (rec (env.bind x v) body true log).log)
      | .ok r => (.list [r], (rec (env.bind x v) body true log).log) := by
  have hne1 : ("map".toList = "has".toList) = False := by decide
  have hne2 : ("map".toList = "coalesce".toList) = False := by decide
  have hne3 : ("map".toList = "reduce".toList) = False := by decide
  simp only [callMacro, hne1, hne2, hne3, if_false, if_true, evalIdent_var, rangeOf, loopList, runBody]
  cases (rec (env.bind x v) body true log).res <;> simp

/-- What the compiler emits for `[0].map(x, NEXT)[0] + 1` (arguments are pushed last first; `[0]` is folded). -/
def mapLink (x nxt : Str) : List Instr :=
  [.push (.code (refBlock nxt)), .push (.code [.push (.ident x)]), .push (.list [.int 0]),
   .push (.ident "map".toList), .access, .call 2, .push (.int 0), .index, .push (.int 1), .add]

theorem map_callable (env : Env) (hb : env.hasBinds = true) (hf : env.getFunc B "map".toList = none) :
    env.callable B "map".toList = some (.macro_ "map".toList) := by
  have hm : env.isMacro "map".toList = true := by
    simp only [Env.isMacro, defaultMacros, compileMacros, hb]; cases env.compileMode <;> simp <;> decide
  simp only [Env.callable, hf, hm, if_true]

theorem map_lvl_ok (b : Nat) (env : Env) (x nxt : Str) (log log' : Log) (d : Nat)
    (hb : env.hasBinds = true) (hf : env.getFunc B "map".toList = none)
    (hd : (d : Int) + 1 ≤ 9223372036854775807)
    (hr : runAt B b (env.bind x (.int 0)) (refBlock nxt) true log = { res := .ok (.int d), log := log' }) :
    runAt B (b + 1) env (mapLink x nxt) true log = { res := .ok (.int ((d + 1 : Nat) : Int)), log := log' } := by
  have hadd := add_one d hd
  have hidx : index (.list [.int d]) (.int 0) = .int d := by simp [index, errProp]
  rw [show ((d + 1 : Nat) : Int) = (d : Int) + 1 by omega, nested_runs_at_smaller_budget]
  simp only [mapLink, blockFuel, List.length_cons, List.length_nil, Nat.reduceAdd, Nat.reduceMul]
  rw [loop_at (i := .push (.code (refBlock nxt))) (hf := by omega) (h := rfl)]
  simp only [step, pushV, Nat.reduceAdd, Nat.reduceSub]
  rw [loop_at (i := .push (.code [.push (.ident x)])) (hf := by omega) (h := rfl)]
  simp only [step, pushV, Nat.reduceAdd, Nat.reduceSub]
  rw [loop_at (i := .push (.list [.int 0])) (hf := by omega) (h := rfl)]
  simp only [step, pushV, Nat.reduceAdd, Nat.reduceSub]
  rw [loop_at (i := .push (.ident "map".toList)) (hf := by omega) (h := rfl)]
  simp only [step, pushV, Nat.reduceAdd, Nat.reduceSub]
  rw [loop_at (i := .access) (hf := by omega) (h := rfl)]
  rw [step_access_method (hb := hb) (hc := map_callable env hb hf)]
  simp only [Nat.reduceAdd, Nat.reduceSub]
  rw [loop_at (i := .call 2) (hf := by omega) (h := rfl)]
  rw [step_call_macro2, callMacro_map1, hr]
  simp only [Nat.reduceAdd, Nat.reduceSub]
  rw [loop_at (i := .push (.int 0)) (hf := by omega) (h := rfl)]
  simp only [step, pushV, Nat.reduceAdd, Nat.reduceSub]
  rw [loop_at (i := .index) (hf := by omega) (h := rfl)]
  simp only [step, liftNext, binop, popV, popS, pushV, hidx, Nat.reduceAdd, Nat.reduceSub]
  rw [loop_at (i := .push (.int 1)) (hf := by omega) (h := rfl)]
  simp only [step, pushV, Nat.reduceAdd, Nat.reduceSub]
  rw [loop_at (i := .add) (hf := by omega) (h := rfl)]
  simp only [step, liftNext, binop, popV, popS, pushV, hadd, Nat.reduceAdd, Nat.reduceSub]
  rw [loop_end (h := by simp)]
  simp [finish, popS]

theorem map_lvl_err (b : Nat) (env : Env) (x nxt : Str) (log log' : Log) (a : Abort)
    (hb : env.hasBinds = true) (hf : env.getFunc B "map".toList = none)
    (hr : runAt B b (env.bind x (.int 0)) (refBlock nxt) true log = { res := .error a, log := log' }) :
    runAt B (b + 1) env (mapLink x nxt) true log = { res := .error (.err a.kind), log := log' } := by
  have hidx : index (.err a.kind) (.int 0) = .err a.kind := by simp [index, errProp]
  rw [nested_runs_at_smaller_budget]
  simp only [mapLink, blockFuel, List.length_cons, List.length_nil, Nat.reduceAdd, Nat.reduceMul]
  rw [loop_at (i := .push (.code (refBlock nxt))) (hf := by omega) (h := rfl)]
  simp only [step, pushV, Nat.reduceAdd, Nat.reduceSub]
  rw [loop_at (i := .push (.code [.push (.ident x)])) (hf := by omega) (h := rfl)]
  simp only [step, pushV, Nat.reduceAdd, Nat.reduceSub]
  rw [loop_at (i := .push (.list [.int 0])) (hf := by omega) (h := rfl)]
  simp only [step, pushV, Nat.reduceAdd, Nat.reduceSub]
  rw [loop_at (i := .push (.ident "map".toList)) (hf := by omega) (h := rfl)]
  simp only [step, pushV, Nat.reduceAdd, Nat.reduceSub]
  rw [loop_at (i := .access) (hf := by omega) (h := rfl)]
  rw [step_access_method (hb := hb) (hc := map_callable env hb hf)]
  simp only [Nat.reduceAdd, Nat.reduceSub]
  rw [loop_at (i := .call 2) (hf := by omega) (h := rfl)]
  rw [step_call_macro2, callMacro_map1, hr]
  simp only [Nat.reduceAdd, Nat.reduceSub]
  rw [loop_at (i := .push (.int 0)) (hf := by omega) (h := rfl)]
  simp only [step, pushV, Nat.reduceAdd, Nat.reduceSub]
  rw [loop_at (i := .index) (hf := by omega) (h := rfl)]
  simp only [step, liftNext, binop, popV, popS, pushV, hidx, Nat.reduceAdd, Nat.reduceSub]
  rw [loop_at (i := .push (.int 1)) (hf := by omega) (h := rfl)]
  simp only [step, pushV, Nat.reduceAdd, Nat.reduceSub]
  rw [loop_at (i := .add) (hf := by omega) (h := rfl)]
  simp only [step, liftNext, binop, popV, popS, pushV, arith, errProp, Nat.reduceAdd, Nat.reduceSub]
  rw [loop_end (h := by simp)]
  simp [finish, popS]

/-- The map-body shape: the referenced program is run under the loop variable's binding. -/
def mapBody (B : Builtins) (x : Str) : Shape where
  code := mapLink x
  cost := 2
  inner := fun env => env.bind x (.int 0)
  good := fun env => env.hasBinds = true ∧ env.getFunc B "map".toList = none
  okName := fun n => n ≠ x
  val := fun d => d

/-- **The accounting of a macro body**: two levels per reference (the body block, the program). -/
theorem mapBody_sound (x : Str) : (mapBody B x).Sound B :=
  Shape.sound_of_block (mapBody B x) rfl rfl (fun _ h => ⟨h.1, h.2⟩) (fun _ _ => rfl)
    (fun env n hn => rebind_keeps_others env x n (.int 0) hn) (fun _ _ => rfl)
    (fun b env nxt log log' d hg _ hd hr => map_lvl_ok b env x nxt log log' d hg.1 hg.2 hd hr)
    (fun b env nxt log log' a hg _ hka hr => ⟨.err a.kind, map_lvl_err b env x nxt log log' a hg.1 hg.2 hr, hka⟩)

/-- **Map-body chains up to 15 references evaluate**: `q₀ := [0].map(x, q₁)[0] + 1, …, q_k := 0`
    executed the way `CelContext::exec` does yields `k` for every `k ≤ 15`. -/
theorem map_chain_ok (x : Str) (env : Env) (names : Nat → Str) (k : Nat)
    (hc : IsBlockChain (mapBody B x) env names k) (hk : k ≤ 15) :
    execProg B env (blockChainCode (mapBody B x) names k 0) = { res := .ok (.int k), log := [] } :=
  block_chain_ok (mapBody B x) (mapBody_sound x) env names k hc (by show k * 2 < 32; omega)

/-- In particular the chain that is 16 programs deep (15 references) evaluates to 15. -/
theorem map_chain_16_programs (x : Str) (env : Env) (names : Nat → Str)
    (hc : IsBlockChain (mapBody B x) env names 15) :
    execProg B env (blockChainCode (mapBody B x) names 15 0) = { res := .ok (.int 15), log := [] } :=
  map_chain_ok x env names 15 hc (by omega)

/-- **From 16 references on the chain ends in a Runtime failure** of the executed program. -/
theorem map_chain_too_deep (x : Str) (env : Env) (names : Nat → Str) (k : Nat)
    (hc : IsBlockChain (mapBody B x) env names k) (hk : 16 ≤ k) :
    ∃ a, execProg B env (blockChainCode (mapBody B x) names k 0) = { res := .error a, log := [] } ∧
      a.kind = .runtime :=
  block_chain_too_deep (mapBody B x) (mapBody_sound x) env names k hc (by show 32 ≤ k * 2; omega)

theorem std_map_func (now : Int) : (stdBuiltins now).func "map".toList = none := rfl

theorem qname_ne_x (i : Nat) : qname i ≠ "x".toList := by
  simp [qname]

theorem mapEnv_isChain (hB : B.func "map".toList = none) (k : Nat) :
    IsBlockChain (mapBody B "x".toList) (blockChainEnv (mapBody B "x".toList) k) qname k :=
  blockChainEnv_isChain _ k ⟨rfl, by simp [Env.getFunc, blockChainEnv, lookup]; exact hB⟩ qname_ne_x

/-- The concrete statement for every `k`: in the context `q := [0].map(x, qq)[0] + 1, …` with `k`
    references, `exec("q")` yields `k` when `k ≤ 15` and is a Runtime failure when `k ≥ 16`. -/
theorem map_concrete (hB : B.func "map".toList = none) (k : Nat) :
    (k ≤ 15 → execProg B (blockChainEnv (mapBody B "x".toList) k) (blockChainCode (mapBody B "x".toList) qname k 0) =
      { res := .ok (.int k), log := [] }) ∧
    (16 ≤ k → ∃ a, execProg B (blockChainEnv (mapBody B "x".toList) k)
        (blockChainCode (mapBody B "x".toList) qname k 0) = { res := .error a, log := [] } ∧ a.kind = .runtime) :=
  ⟨map_chain_ok _ _ _ k (mapEnv_isChain hB k), map_chain_too_deep _ _ _ k (mapEnv_isChain hB k)⟩

/-! ### non-vacuity: the hypotheses of the theorems above hold in concrete cases -/

example : DynId (stdBuiltins 0) := stdBuiltins_dyn 0
example : IsBlockChain (ctorArg (stdBuiltins 0)) (blockChainEnv (ctorArg (stdBuiltins 0)) 15) qname 15 :=
  ctorEnv_isChain (std_dyn_func 0) 15
example : IsBlockChain (mapBody (stdBuiltins 0) "x".toList) (blockChainEnv (mapBody (stdBuiltins 0) "x".toList) 16)
    qname 16 := mapEnv_isChain (std_map_func 0) 16
example : (ctorArg (stdBuiltins 0)).Sound (stdBuiltins 0) := ctorArg_sound (stdBuiltins_dyn 0)
-- `block_chain_value` / `block_chain_fails`: budgets on both sides of the edge, 3 references through map bodies
example : runAt (stdBuiltins 0) 7 (blockChainEnv (mapBody (stdBuiltins 0) "x".toList) 3)
    (blockChainCode (mapBody (stdBuiltins 0) "x".toList) qname 3 0) true [] = { res := .ok (.int 3), log := [] } :=
  block_chain_value _ (mapBody_sound _) qname 3 (by omega) 3 _ 0 7 [] (mapEnv_isChain (std_map_func 0) 3) rfl (by decide)
example : ∃ a, runAt (stdBuiltins 0) 6 (blockChainEnv (mapBody (stdBuiltins 0) "x".toList) 3)
    (blockChainCode (mapBody (stdBuiltins 0) "x".toList) qname 3 0) true [] = { res := .error a, log := [] } ∧
    a.kind = .runtime :=
  block_chain_fails _ (mapBody_sound _) qname 3 3 _ 0 6 [] (mapEnv_isChain (std_map_func 0) 3) rfl (by decide)

end C12Blocks
end Rscel
