import RscelModel.Theorems.C15
/-
C15, second part: the math built-ins on integers (exact or an error), and the accepted shapes of every
string / math built-in (any other receiver, arity or argument type is an Argument error).
-/
namespace Rscel
namespace C15
variable (X : ConvExt) (E : StrExt)

/-! ### math on integers: exact or an error -/

macro "math_simp" " [" ls:Lean.Parser.Tactic.simpLemma,* "]" : tactic =>
  `(tactic| simp [call, mkBuiltins, plainFuncs, plainStringFuncs, dispatchFuncs, stringFuncs, mathFuncs, dispatch, ov1, ov2,
      roundingOverloads, Overload.accepts, argsMatch, Tag.matches, isNull, $ls,*])

/-- `abs`: the absolute value, an error for the one `int` that has none, identity on `uint`. -/
theorem abs_spec (i : Int) (n : Nat) :
    call X E "abs" .null [.int i] = (if i = i64Min then .err .value else .int i.natAbs) ∧
    call X E "abs" .null [.uint n] = .uint n ∧
    (inI64 i = true → i ≠ i64Min → inI64 (i.natAbs : Int) = true) := by
  refine ⟨?_, ?_, ?_⟩
  · math_simp [absInt]
  · math_simp []
  · intro h hne
    rw [inI64_iff] at h ⊢
    unfold i64Min at hne
    omega

theorem ilog10_spec (n : Nat) (h : 0 < n) : 10 ^ ilog10 n ≤ n ∧ n < 10 ^ (ilog10 n + 1) := by
  induction n using Nat.strongRecOn with
  | _ n ih =>
    rw [ilog10]
    split
    · rename_i hlt; simp; omega
    · rename_i hge
      have hpos : 0 < n / 10 := by omega
      obtain ⟨h1, h2⟩ := ih (n / 10) (by omega) hpos
      constructor
      · calc 10 ^ (ilog10 (n / 10) + 1) = 10 ^ ilog10 (n / 10) * 10 := by rw [Nat.pow_succ]
          _ ≤ (n / 10) * 10 := Nat.mul_le_mul_right _ h1
          _ ≤ n := Nat.div_mul_le_self n 10
      · have : n / 10 + 1 ≤ 10 ^ (ilog10 (n / 10) + 1) := h2
        calc n < (n / 10 + 1) * 10 := by omega
          _ ≤ 10 ^ (ilog10 (n / 10) + 1) * 10 := Nat.mul_le_mul_right _ this
          _ = 10 ^ (ilog10 (n / 10) + 1 + 1) := by rw [← Nat.pow_succ]

theorem ilog2_spec (n : Nat) (h : 0 < n) : 2 ^ Nat.log2 n ≤ n ∧ n < 2 ^ (Nat.log2 n + 1) :=
  ⟨Nat.log2_self_le (by omega), Nat.lt_log2_self⟩

/-- `log` / `lg` on integers: `k` with `10^k ≤ n < 10^(k+1)` resp. `2^k ≤ n < 2^(k+1)` for positive `n`,
    an error for zero and negative numbers. -/
theorem log_lg_spec (i : Int) (n : Nat) :
    (i ≤ 0 → call X E "log" .null [.int i] = .err .value ∧ call X E "lg" .null [.int i] = .err .value) ∧
    (call X E "log" .null [.uint 0] = .err .value ∧ call X E "lg" .null [.uint 0] = .err .value) ∧
    (0 < i → ∃ k : Nat, call X E "log" .null [.int i] = .int k ∧ (10 : Int) ^ k ≤ i ∧ i < (10 : Int) ^ (k + 1)) ∧
    (0 < i → ∃ k : Nat, call X E "lg" .null [.int i] = .int k ∧ (2 : Int) ^ k ≤ i ∧ i < (2 : Int) ^ (k + 1)) ∧
    (0 < n → ∃ k : Nat, call X E "log" .null [.uint n] = .uint k ∧ 10 ^ k ≤ n ∧ n < 10 ^ (k + 1)) ∧
    (0 < n → ∃ k : Nat, call X E "lg" .null [.uint n] = .uint k ∧ 2 ^ k ≤ n ∧ n < 2 ^ (k + 1)) := by
  refine ⟨?_, ?_, ?_, ?_, ?_, ?_⟩
  · intro h; constructor <;> math_simp [intLog, h]
  · constructor <;> math_simp [intLog]
  · intro h
    have hn : ¬ i ≤ 0 := by omega
    obtain ⟨h1, h2⟩ := ilog10_spec i.toNat (by omega)
    refine ⟨ilog10 i.toNat, by math_simp [intLog, hn], ?_, ?_⟩
    · have : ((10 ^ ilog10 i.toNat : Nat) : Int) ≤ (i.toNat : Int) := by exact_mod_cast h1
      rw [Int.toNat_of_nonneg (by omega)] at this
      simpa using this
    · have : ((i.toNat : Nat) : Int) < ((10 ^ (ilog10 i.toNat + 1) : Nat) : Int) := by exact_mod_cast h2
      rw [Int.toNat_of_nonneg (by omega)] at this
      simpa using this
  · intro h
    have hn : ¬ i ≤ 0 := by omega
    obtain ⟨h1, h2⟩ := ilog2_spec i.toNat (by omega)
    refine ⟨Nat.log2 i.toNat, by math_simp [intLog, hn], ?_, ?_⟩
    · have : ((2 ^ Nat.log2 i.toNat : Nat) : Int) ≤ (i.toNat : Int) := by exact_mod_cast h1
      rw [Int.toNat_of_nonneg (by omega)] at this
      simpa using this
    · have : ((i.toNat : Nat) : Int) < ((2 ^ (Nat.log2 i.toNat + 1) : Nat) : Int) := by exact_mod_cast h2
      rw [Int.toNat_of_nonneg (by omega)] at this
      simpa using this
  · intro h
    have hn : ¬ n = 0 := by omega
    obtain ⟨h1, h2⟩ := ilog10_spec n h
    exact ⟨ilog10 n, by math_simp [intLog, hn], h1, h2⟩
  · intro h
    have hn : ¬ n = 0 := by omega
    obtain ⟨h1, h2⟩ := ilog2_spec n h
    exact ⟨Nat.log2 n, by math_simp [intLog, hn], h1, h2⟩

/-- `ceil`, `floor`, `round` leave integers alone. -/
theorem rounding_int_identity (i : Int) (n : Nat) :
    call X E "ceil" .null [.int i] = .int i ∧ call X E "floor" .null [.int i] = .int i ∧
    call X E "round" .null [.int i] = .int i ∧ call X E "ceil" .null [.uint n] = .uint n ∧
    call X E "floor" .null [.uint n] = .uint n ∧ call X E "round" .null [.uint n] = .uint n := by
  refine ⟨?_, ?_, ?_, ?_, ?_, ?_⟩ <;> math_simp []


theorem neg_one_pow (e : Nat) : (-1 : Int) ^ e = if e % 2 = 0 then 1 else -1 := by
  induction e with
  | zero => rfl
  | succ k ih =>
    rw [Int.pow_succ, ih]
    by_cases h : k % 2 = 0
    · have : (k + 1) % 2 ≠ 0 := by omega
      simp [h, this]
    · have : (k + 1) % 2 = 0 := by omega
      simp [h, this]

theorem natAbs_pow_big (n : Int) (e : Nat) (hn : 2 ≤ n.natAbs) (he : 64 ≤ e) : 2 ^ 64 ≤ (n ^ e).natAbs := by
  rw [Int.natAbs_pow]
  calc 2 ^ 64 ≤ 2 ^ e := Nat.pow_le_pow_right (by decide) he
    _ ≤ n.natAbs ^ e := Nat.pow_le_pow_left hn e

/-- `checked_pow` on the model: the exact power when it is in range, otherwise nothing — for any range
    predicate that contains 0 and ±1 (where the base can be) and nothing of 65 bits. -/
theorem powChecked_spec (R : Int → Bool) (hsmall : ∀ x, R x = true → x.natAbs < 2 ^ 64)
    (n : Int) (e : Nat) (h0 : R 0 = true) (h1 : R 1 = true) (hm1 : n = -1 → R (-1) = true) :
    powChecked R n e = if R (n ^ e) then some (n ^ e) else none := by
  unfold powChecked
  by_cases c0 : n = 0
  · subst c0
    cases e with
    | zero => simp [h1]
    | succ k => simp [Int.pow_succ, h0]
  · by_cases c1 : n = 1
    · subst c1; simp [h1, Int.one_pow]
    · by_cases cm : n = -1
      · subst cm
        have hm := hm1 rfl
        simp only [neg_one_pow]
        by_cases hpar : e % 2 = 0
        · simp [hpar, h1]
        · simp [hpar, hm]
      · have hbig : 2 ≤ n.natAbs := by omega
        simp only [c0, c1, cm, beq_iff_eq, ↓reduceIte]
        by_cases he : e ≥ 64
        · have := natAbs_pow_big n e hbig he
          have hR : R (n ^ e) = false := by
            cases hr : R (n ^ e) with
            | false => rfl
            | true => have := hsmall _ hr; omega
          simp [he, hR]
        · simp [he]

theorem inI64_small (x : Int) (h : inI64 x = true) : x.natAbs < 2 ^ 64 := by
  rw [inI64_iff] at h; omega

theorem inU64_small (x : Int) (h : inU64 x = true) : x.natAbs < 2 ^ 64 := by
  rw [inU64_iff] at h; omega

theorem exponentOfInt_some (e : Int) (h : 0 ≤ e ∧ e ≤ 4294967295) : exponentOfInt e = some e.toNat := by
  unfold exponentOfInt u32Max
  have h1 := h.1; have h2 := h.2
  simp [h1, h2]

theorem exponentOfInt_none (e : Int) (h : ¬ (0 ≤ e ∧ e ≤ 4294967295)) : exponentOfInt e = none := by
  unfold exponentOfInt u32Max
  by_cases h1 : 0 ≤ e
  · have h2 : ¬ e ≤ 4294967295 := fun h2 => h ⟨h1, h2⟩
    simp [h1, h2]
  · simp [h1]

/-- `pow` on integers: the exact power when the exponent is a `u32` and the result fits the base's
    type, an error otherwise (negative exponent, overflow) — never a wrapped value. -/
theorem pow_int_exact_or_err (n e : Int) :
    call X E "pow" .null [.int n, .int e] =
      (if 0 ≤ e ∧ e ≤ 4294967295 ∧ inI64 (n ^ e.toNat) = true then .int (n ^ e.toNat) else .err .value) := by
  have hs := powChecked_spec inI64 inI64_small n
  have hcall : call X E "pow" .null [.int n, .int e] = powIntVal n (exponentOfInt e) := by math_simp []
  rw [hcall]
  by_cases h1 : 0 ≤ e ∧ e ≤ 4294967295
  · rw [exponentOfInt_some e h1]
    simp only [powIntVal]
    rw [hs e.toNat (by decide) (by decide) (fun _ => by decide)]
    by_cases h2 : inI64 (n ^ e.toNat) = true
    · simp [h1, h2]
    · simp [h1, h2]
  · rw [exponentOfInt_none e h1]
    have : ¬ (0 ≤ e ∧ e ≤ 4294967295 ∧ inI64 (n ^ e.toNat) = true) := fun h => h1 ⟨h.1, h.2.1⟩
    simp [this, powIntVal]

theorem pow_uint_exact_or_err (n e : Nat) :
    call X E "pow" .null [.uint n, .uint e] =
      (if e ≤ 4294967295 ∧ n ^ e ≤ u64Max then .uint (n ^ e) else .err .value) := by
  have hs := powChecked_spec inU64 inU64_small (n : Int)
  have hcall : call X E "pow" .null [.uint n, .uint e] = powUintVal n (exponentOfInt e) := by math_simp []
  rw [hcall]
  by_cases h1 : e ≤ 4294967295
  · rw [exponentOfInt_some e ⟨by omega, by omega⟩]
    simp only [powUintVal, Int.toNat_natCast]
    have hc : ((n : Int) ^ e) = ((n ^ e : Nat) : Int) := by simp
    rw [hs e (by decide) (by decide) (fun h => by omega)]
    have hiff : inU64 ((n : Int) ^ e) = true ↔ n ^ e ≤ u64Max := by
      rw [hc, inU64_iff]; unfold u64Max; omega
    by_cases h2 : n ^ e ≤ u64Max
    · have h3 := hiff.2 h2
      simp only [h3, ↓reduceIte, h1, h2, and_self]
      rw [hc, Int.toNat_natCast]
    · have : ¬ inU64 ((n : Int) ^ e) = true := fun h => h2 (hiff.1 h)
      simp [h1, h2, this]
  · rw [exponentOfInt_none e (by omega)]
    simp [h1, powUintVal]

example : call (tableConv []) (tableStr []) "pow" .null [.int 2, .int 62] = .int 4611686018427387904 ∧
    call (tableConv []) (tableStr []) "pow" .null [.int 2, .int 63] = .err .value ∧
    call (tableConv []) (tableStr []) "pow" .null [.int (-2), .int 63] = .int i64Min ∧
    call (tableConv []) (tableStr []) "pow" .null [.int 2, .int (-1)] = .err .value ∧
    call (tableConv []) (tableStr []) "pow" .null [.int (-1), .int 4294967295] = .int (-1) := ⟨rfl, rfl, rfl, rfl, rfl⟩

/-! ### accepted shapes: any other arity or type is an Argument error -/

/-- No overload accepts: Argument error. -/
theorem dispatch_rejects (os : List Overload) (this : Val) (args : List Val)
    (h : ∀ o ∈ os, o.accepts this args = false) : dispatch os this args = .err .argument := by
  unfold dispatch
  cases hf : os.find? (fun o => o.accepts this args) with
  | none => rfl
  | some o =>
    have := h o (List.mem_of_find?_eq_some hf)
    have h2 := List.find?_some hf
    simp [this] at h2

theorem argsMatch_length {ts : List Tag} {vs : List Val} (h : argsMatch ts vs = true) : ts.length = vs.length := by
  induction ts generalizing vs with
  | nil => cases vs <;> simp_all [argsMatch]
  | cons t ts ih =>
    cases vs with
    | nil => simp [argsMatch] at h
    | cons v vs => simp [argsMatch] at h; simp [ih h.2]

/-- A call with a number of arguments no overload has is an Argument error — for any arity. -/
theorem dispatch_arity (os : List Overload) (this : Val) (args : List Val)
    (h : ∀ o ∈ os, o.args.length ≠ args.length) : dispatch os this args = .err .argument := by
  apply dispatch_rejects
  intro o ho
  cases hacc : o.accepts this args with
  | false => rfl
  | true =>
    simp [Overload.accepts] at hacc
    exact absurd (argsMatch_length hacc.2) (h o ho)

theorem matches_str (v : Val) : Tag.matches .str v = true ↔ ∃ s, v = .str s := by
  cases v <;> simp [Tag.matches]
theorem matches_int (v : Val) : Tag.matches .int v = true ↔ ∃ i, v = .int i := by
  cases v <;> simp [Tag.matches]
theorem matches_uint (v : Val) : Tag.matches .uint v = true ↔ ∃ n, v = .uint n := by
  cases v <;> simp [Tag.matches]
theorem matches_double (v : Val) : Tag.matches .double v = true ↔ ∃ d, v = .float d := by
  cases v <;> simp [Tag.matches]
theorem isNull_iff (v : Val) : isNull v = true ↔ v = .null := by
  cases v <;> simp [isNull]

theorem argsMatch_one (t : Tag) (args : List Val) : argsMatch [t] args = true ↔ ∃ v, args = [v] ∧ t.matches v = true := by
  rcases args with _ | ⟨v, _ | ⟨w, rest⟩⟩ <;> simp [argsMatch]

theorem argsMatch_two (t u : Tag) (args : List Val) :
    argsMatch [t, u] args = true ↔ ∃ v w, args = [v, w] ∧ t.matches v = true ∧ u.matches w = true := by
  rcases args with _ | ⟨v, _ | ⟨w, _ | ⟨x, rest⟩⟩⟩ <;> simp [argsMatch]
  constructor
  · intro h; exact ⟨v, w, ⟨rfl, rfl⟩, h⟩
  · rintro ⟨v', w', ⟨rfl, rfl⟩, h⟩; exact h

theorem dispatch_single (o : Overload) (this : Val) (args : List Val) :
    dispatch [o] this args = if o.accepts this args then o.run this args else .err .argument := by
  unfold dispatch
  by_cases h : o.accepts this args = true <;> simp [List.find?, h]

theorem single_shape (o : Overload) (this : Val) (args : List Val) :
    (o.accepts this args = true ∧ dispatch [o] this args = o.run this args) ∨
    (o.accepts this args = false ∧ dispatch [o] this args = .err .argument) := by
  rw [dispatch_single]; cases o.accepts this args <;> simp

/-- `fn f(this: String, a: String)`: exactly a string receiver and one string argument. -/
theorem ovSS_shape (f : Str → Str → Val) (this : Val) (args : List Val) :
    (∃ s n, this = .str s ∧ args = [.str n] ∧ dispatch (ovSS f) this args = f s n) ∨
    ((¬ ∃ s n, this = .str s ∧ args = [.str n]) ∧ dispatch (ovSS f) this args = .err .argument) := by
  obtain ⟨o, ho, h1, h2, h3⟩ : ∃ o, ovSS f = [o] ∧ o.this = some .str ∧ o.args = [.str] ∧
      ∀ s n, o.run (.str s) [.str n] = f s n := ⟨_, rfl, rfl, rfl, fun _ _ => rfl⟩
  rw [ho]
  have hacc : o.accepts this args = true ↔ ∃ s n, this = .str s ∧ args = [.str n] := by
    simp only [Overload.accepts, h1, h2, Bool.and_eq_true, matches_str, argsMatch_one]
    constructor
    · rintro ⟨⟨s, rfl⟩, v, rfl, n, rfl⟩; exact ⟨s, n, rfl, rfl⟩
    · rintro ⟨s, n, rfl, rfl⟩; exact ⟨⟨s, rfl⟩, _, rfl, n, rfl⟩
  rcases single_shape o this args with ⟨ha, hd⟩ | ⟨ha, hd⟩
  · left
    obtain ⟨s, n, rfl, rfl⟩ := hacc.1 ha
    exact ⟨s, n, rfl, rfl, by rw [hd, h3]⟩
  · right
    refine ⟨fun h => ?_, hd⟩
    rw [hacc.2 h] at ha; cases ha

/-- `fn f(this: String, a: String, b: String)`. -/
theorem ovSSS_shape (f : Str → Str → Str → Val) (this : Val) (args : List Val) :
    (∃ s n r, this = .str s ∧ args = [.str n, .str r] ∧ dispatch (ovSSS f) this args = f s n r) ∨
    ((¬ ∃ s n r, this = .str s ∧ args = [.str n, .str r]) ∧ dispatch (ovSSS f) this args = .err .argument) := by
  obtain ⟨o, ho, h1, h2, h3⟩ : ∃ o, ovSSS f = [o] ∧ o.this = some .str ∧ o.args = [.str, .str] ∧
      ∀ s n r, o.run (.str s) [.str n, .str r] = f s n r := ⟨_, rfl, rfl, rfl, fun _ _ _ => rfl⟩
  rw [ho]
  have hacc : o.accepts this args = true ↔ ∃ s n r, this = .str s ∧ args = [.str n, .str r] := by
    simp only [Overload.accepts, h1, h2, Bool.and_eq_true, matches_str, argsMatch_two]
    constructor
    · rintro ⟨⟨s, rfl⟩, v, w, rfl, ⟨n, rfl⟩, r, rfl⟩; exact ⟨s, n, r, rfl, rfl⟩
    · rintro ⟨s, n, r, rfl, rfl⟩; exact ⟨⟨s, rfl⟩, _, _, rfl, ⟨n, rfl⟩, r, rfl⟩
  rcases single_shape o this args with ⟨ha, hd⟩ | ⟨ha, hd⟩
  · left
    obtain ⟨s, n, r, rfl, rfl⟩ := hacc.1 ha
    exact ⟨s, n, r, rfl, rfl, by rw [hd, h3]⟩
  · right
    refine ⟨fun h => ?_, hd⟩
    rw [hacc.2 h] at ha; cases ha

/-- The `string_func!` methods (`toLower toUpper trim trimStart trimEnd`): no arguments, string receiver. -/
theorem stringMethod_shape (f : Str → Str) (this : Val) (args : List Val) :
    (args ≠ [] → stringMethod f this args = .err .argument) ∧
    (args = [] → (∀ s, this ≠ .str s) → stringMethod f this args = .err .value) ∧
    (∀ s, stringMethod f (.str s) [] = .str (f s)) := by
  refine ⟨?_, ?_, ?_⟩
  · intro h; cases args <;> simp_all [stringMethod]
  · rintro rfl h; cases this <;> simp_all [stringMethod]
  · intro s; rfl

/-- A one-argument numeric function (`abs sqrt log lg ceil floor round`): no receiver, exactly one
    `int`, `uint` or `double`. -/
theorem numeric1_shape (fi fu fd : Val → Val) (this : Val) (args : List Val)
    (h : ¬ ∃ v, this = .null ∧ args = [v] ∧ ((∃ i, v = .int i) ∨ (∃ n, v = .uint n) ∨ (∃ d, v = .float d))) :
    dispatch [ov1 .int fi, ov1 .uint fu, ov1 .double fd] this args = .err .argument := by
  apply dispatch_rejects
  intro o ho
  simp only [List.mem_cons, List.not_mem_nil, or_false] at ho
  cases hacc : o.accepts this args with
  | false => rfl
  | true =>
    exfalso; apply h
    rcases ho with rfl | rfl | rfl <;>
      (simp only [ov1, Overload.accepts, Bool.and_eq_true, isNull_iff, argsMatch_one, matches_int, matches_uint, matches_double] at hacc
       obtain ⟨rfl, v, rfl, hv⟩ := hacc
       exact ⟨v, rfl, rfl, by simp [hv]⟩)

/-- `pow`: no receiver, exactly two numbers. -/
theorem pow_shape (this : Val) (args : List Val)
    (h : ¬ ∃ v w, this = .null ∧ args = [v, w] ∧ ((∃ i, v = .int i) ∨ (∃ n, v = .uint n) ∨ (∃ d, v = .float d)) ∧
      ((∃ i, w = .int i) ∨ (∃ n, w = .uint n) ∨ (∃ d, w = .float d))) :
    call X E "pow" this args = .err .argument := by
  have hc : call X E "pow" this args = dispatch ((mathFuncs.find? (·.1 == "pow")).get!.2) this args := by
    simp [call, mkBuiltins, plainFuncs, plainStringFuncs, dispatchFuncs, stringFuncs, mathFuncs]
  rw [hc]
  apply dispatch_rejects
  intro o ho
  simp only [mathFuncs, List.find?, beq_iff_eq] at ho
  simp at ho
  cases hacc : o.accepts this args with
  | false => rfl
  | true =>
    exfalso; apply h
    rcases ho with rfl | rfl | rfl | rfl | rfl | rfl | rfl | rfl | rfl <;>
      (simp only [ov2, Overload.accepts, Bool.and_eq_true, isNull_iff, argsMatch_two, matches_int, matches_uint, matches_double] at hacc
       obtain ⟨rfl, v, w, rfl, hv, hw⟩ := hacc
       exact ⟨v, w, rfl, rfl, by simp [hv], by simp [hw]⟩)

theorem call_eq_dispatch (name : String) (os : List Overload) (this : Val) (args : List Val)
    (h1 : (plainFuncs 0 ++ plainStringFuncs E).find? (·.1 == name) = none)
    (h2 : (dispatchFuncs ++ (stringFuncs E ++ mathFuncs)).find? (·.1 == name) = some (name, os)) :
    call X E name this args = dispatch os this args := by
  simp only [call, mkBuiltins, String.ofList_toList, h1, h2]

/-- Every two-string method of the table answers any other receiver / arity / argument type with an
    Argument error. -/
theorem string_method_shapes (name : String)
    (hn : name ∈ ["contains", "containsI", "startsWith", "endsWith", "startsWithI", "endsWithI", "matches",
      "matchCaptures", "remove", "rsplit", "split", "trimStartMatches", "trimEndMatches"])
    (this : Val) (args : List Val) (h : ¬ ∃ s n, this = .str s ∧ args = [.str n]) :
    call X E name this args = .err .argument := by
  simp only [List.mem_cons, List.not_mem_nil, or_false] at hn
  rcases hn with rfl | rfl | rfl | rfl | rfl | rfl | rfl | rfl | rfl | rfl | rfl | rfl | rfl <;>
    (rw [call_eq_dispatch X E _ (ovSS _) this args rfl rfl]
     exact ((ovSS_shape _ this args).resolve_left (fun ⟨s, n, a, b, _⟩ => h ⟨s, n, a, b⟩)).2)

/-- … and the three-string methods. -/
theorem string_method3_shapes (name : String) (hn : name ∈ ["matchReplaceOnce", "matchReplace", "replace"])
    (this : Val) (args : List Val) (h : ¬ ∃ s n r, this = .str s ∧ args = [.str n, .str r]) :
    call X E name this args = .err .argument := by
  simp only [List.mem_cons, List.not_mem_nil, or_false] at hn
  rcases hn with rfl | rfl | rfl <;>
    (rw [call_eq_dispatch X E _ (ovSSS _) this args rfl rfl]
     exact ((ovSSS_shape _ this args).resolve_left (fun ⟨s, n, r, a, b, _⟩ => h ⟨s, n, r, a, b⟩)).2)

/-- The one-number functions. -/
theorem numeric1_shapes (name : String) (hn : name ∈ ["abs", "sqrt", "log", "lg", "ceil", "floor", "round"])
    (this : Val) (args : List Val)
    (h : ¬ ∃ v, this = .null ∧ args = [v] ∧ ((∃ i, v = .int i) ∨ (∃ n, v = .uint n) ∨ (∃ d, v = .float d))) :
    call X E name this args = .err .argument := by
  simp only [List.mem_cons, List.not_mem_nil, or_false] at hn
  rcases hn with rfl | rfl | rfl | rfl | rfl | rfl | rfl <;>
    (rw [call_eq_dispatch X E _ [ov1 .int _, ov1 .uint _, ov1 .double _] this args rfl rfl]
     exact numeric1_shape _ _ _ this args h)

theorem call_plain (name : String) (f : Val → List Val → Val) (this : Val) (args : List Val)
    (h : (plainFuncs 0 ++ plainStringFuncs E).find? (·.1 == name) = some (name, f)) :
    call X E name this args = f this args := by
  simp only [call, mkBuiltins, String.ofList_toList, h]

/-- The `string_func!` methods. -/
theorem plain_method_shapes (name : String) (hn : name ∈ ["toLower", "toUpper", "trim", "trimStart", "trimEnd"])
    (this : Val) (args : List Val) :
    (args ≠ [] → call X E name this args = .err .argument) ∧
    (args = [] → (∀ s, this ≠ .str s) → call X E name this args = .err .value) := by
  simp only [List.mem_cons, List.not_mem_nil, or_false] at hn
  rcases hn with rfl | rfl | rfl | rfl | rfl <;>
    (rw [call_plain X E _ (stringMethod _) this args rfl]
     exact ⟨(stringMethod_shape _ this args).1, (stringMethod_shape _ this args).2.1⟩)

/-- non-vacuity -/
example : call (tableConv []) (tableStr []) "contains" .null [.str [], .str []] = .err .argument ∧
    call (tableConv []) (tableStr []) "contains" (.str []) [.str [], .null] = .err .argument ∧
    call (tableConv []) (tableStr []) "abs" (.int 1) [] = .err .argument ∧
    call (tableConv []) (tableStr []) "trim" (.int 1) [] = .err .value ∧
    call (tableConv []) (tableStr []) "trim" (.str []) [.null] = .err .argument := ⟨rfl, rfl, rfl, rfl, rfl⟩

/-! ### ceil / floor / round on doubles: exact integer function, then the saturating `as i64` -/

theorem rounding_double_wiring (d : UInt64) :
    call X E "floor" .null [.float d] = .int (F.satOf F.floorInt d) ∧
    call X E "ceil" .null [.float d] = .int (F.satOf F.ceilInt d) ∧
    call X E "round" .null [.float d] = .int (F.satOf F.roundInt d) := by
  refine ⟨?_, ?_, ?_⟩ <;> math_simp []

/-- ⌊x⌋ ≤ ⌈x⌉ ≤ ⌊x⌋ + 1, both equal to the truncation exactly when `x` is an integer; between them the
    truncation is the one toward zero. -/
theorem floor_ceil_trunc (d : UInt64) :
    F.floorInt d ≤ F.ceilInt d ∧ F.ceilInt d ≤ F.floorInt d + 1 ∧
    (F.isIntegral d = true → F.floorInt d = F.truncInt d ∧ F.ceilInt d = F.truncInt d) ∧
    (F.isIntegral d = false → F.ceilInt d = F.floorInt d + 1 ∧
      F.truncInt d = if F.signBit d then F.ceilInt d else F.floorInt d) := by
  unfold F.floorInt F.ceilInt
  cases hs : F.signBit d <;> cases hi : F.isIntegral d <;> simp <;> omega

/-- The result of the three is always an `int`; NaN goes to 0 and the infinities saturate. -/
theorem satOf_range (f : UInt64 → Int) (d : UInt64) :
    inI64 (F.satOf f d) = true ∧ (F.isNaN d = true → F.satOf f d = 0) := by
  constructor
  · rw [inI64_iff]
    unfold F.satOf
    simp only [i64Min, i64Max]
    by_cases hn : F.isNaN d = true
    · simp [hn]
    · by_cases hi : F.isInf d = true
      · simp [hn, hi]; split <;> omega
      · simp only [hn, hi, Bool.false_eq_true, ↓reduceIte]
        by_cases h1 : f d < -9223372036854775808
        · simp [h1]
        · by_cases h2 : f d > 9223372036854775807
          · simp [h1, h2]
          · simp only [h1, h2, ↓reduceIte]; omega
  · intro h; simp [F.satOf, h]

example : F.floorInt 0xBFE0000000000000 = -1 ∧ F.ceilInt 0xBFE0000000000000 = 0 ∧ F.roundInt 0xBFE0000000000000 = -1 ∧
    F.roundInt 0x4004000000000000 = 3 ∧ F.roundInt 0x3FDFFFFFFFFFFFFF = 0 ∧ F.floorInt 0x8000000000000000 = 0 := by decide

end C15
end Rscel
