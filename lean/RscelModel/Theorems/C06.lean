import RscelModel.Model.Compile
import RscelModel.Lemmas.StrOrder
/-
C06 — collections: literals, indexing (incl. negative), membership, concatenation, size.
-/
namespace Rscel
namespace C06

/-! ### indexing -/

/-- `l[i]` for an int index: element `i` for `0 ≤ i < size`, element `size + i` for `-size ≤ i < 0`,
    an error outside that range. -/
theorem index_list_int (l : List Val) (i : Int) :
    index (.list l) (.int i) =
      if 0 ≤ i ∧ i < l.length then l.getD i.toNat .null
      else if i < 0 ∧ -(l.length : Int) ≤ i then l.getD ((l.length : Int) + i).toNat .null
      else .err .value := by
  simp only [index, errProp]
  by_cases h0 : i < 0
  · simp only [h0, ite_true]
    by_cases h1 : (l.length : Int) + i < 0
    · have : ¬ (0 ≤ i ∧ i < l.length) := by omega
      have h2 : ¬ (-(l.length : Int) ≤ i) := by omega
      simp [h1, this, h2]
    · have : ¬ (0 ≤ i ∧ i < l.length) := by omega
      have h2 : -(l.length : Int) ≤ i := by omega
      simp [h1, this, h2]
  · simp only [h0, ite_false]
    by_cases h1 : i.toNat ≥ l.length
    · have : ¬ (0 ≤ i ∧ i < l.length) := by omega
      simp [h1, this, h0]
    · have : (0 ≤ i ∧ i < l.length) := by omega
      simp [h1, this]

theorem index_list_uint (l : List Val) (n : Nat) :
    index (.list l) (.uint n) = if n < l.length then l.getD n .null else .err .value := by
  simp only [index, errProp]
  by_cases h : n ≥ l.length
  · have : ¬ n < l.length := by omega
    simp [h, this]
  · have : n < l.length := by omega
    simp [h, this]

/-- The element really is the `i`-th one. -/
theorem getD_eq_getElem (l : List Val) (n : Nat) (h : n < l.length) : l.getD n .null = l[n] := by
  simp [List.getD, h]

/-- A non-integer index on a list is an error. -/
theorem index_list_nonint (l : List Val) (i : Val) (hi : i.isErr = false)
    (h1 : ∀ k, i ≠ .int k) (h2 : ∀ k, i ≠ .uint k) : index (.list l) i = .err .value := by
  cases i <;> simp_all [index, errProp, Val.isErr]

/-- `m[k]` and `m.k` return the value stored under `k` or an absent-field (Attribute) error. -/
theorem index_map (m : VMap) (k : Str) :
    index (.map m) (.str k) = (match Map.get m k with | some v => v | none => .err .attribute) ∧
    accessVal (.map m) k = (match Map.get m k with | some v => v | none => .err .attribute) := ⟨rfl, rfl⟩

theorem index_map_nonstring (m : VMap) (i : Val) (hi : i.isErr = false) (h : ∀ s, i ≠ .str s) :
    index (.map m) i = .err .value := by
  cases i <;> simp_all [index, errProp, Val.isErr]

/-- Indexing anything else is an error. -/
theorem index_other (o i : Val) (ho : o.isErr = false) (hi : i.isErr = false)
    (h1 : ∀ l, o ≠ .list l) (h2 : ∀ m, o ≠ .map m) : index o i = .err .value := by
  cases o <;> cases i <;> simp_all [index, errProp, Val.isErr]

/-! ### membership -/

theorem in_list (x : Val) (l : List Val) (hx : x.isErr = false) :
    inOp x (.list l) = .bool (l.any (structEq x)) := by
  cases x <;> simp_all [inOp, errProp, Val.isErr]

theorem in_map (k : Str) (m : VMap) : inOp (.str k) (.map m) = .bool (Map.get m k).isSome := rfl

theorem in_string (n s : Str) : inOp (.str n) (.str s) = .bool (isInfix n s) := rfl

theorem isPrefix_iff (n h : Str) : isPrefix n h = true ↔ ∃ post, h = n ++ post := by
  induction n generalizing h with
  | nil => simp [isPrefix]
  | cons a as ih =>
    cases h with
    | nil => simp [isPrefix]
    | cons b bs =>
      simp only [isPrefix, Bool.and_eq_true, beq_iff_eq, ih, List.cons_append, List.cons.injEq]
      constructor
      · rintro ⟨rfl, post, rfl⟩; exact ⟨post, rfl, rfl⟩
      · rintro ⟨post, rfl, rfl⟩; exact ⟨rfl, post, rfl⟩

/-- `isInfix` is substring containment. -/
theorem isInfix_iff (n h : Str) : isInfix n h = true ↔ ∃ pre post, h = pre ++ n ++ post := by
  induction h with
  | nil =>
    simp only [isInfix, List.isEmpty_iff]
    constructor
    · rintro rfl; exact ⟨[], [], rfl⟩
    · rintro ⟨pre, post, h⟩
      have := congrArg List.length h
      simp at this
      cases n <;> simp_all
  | cons c cs ih =>
    simp only [isInfix, Bool.or_eq_true, isPrefix_iff, ih]
    constructor
    · rintro (⟨post, h⟩ | ⟨pre, post, h⟩)
      · exact ⟨[], post, by simpa using h⟩
      · exact ⟨c :: pre, post, by simp [h]⟩
    · rintro ⟨pre, post, h⟩
      cases pre with
      | nil => left; exact ⟨post, by simpa using h⟩
      | cons p ps =>
        right
        simp only [List.cons_append, List.cons.injEq] at h
        exact ⟨ps, post, h.2⟩

/-- `in` with any other right operand, or a non-string needle for a map/string, is an error. -/
theorem in_other (x r : Val) (hx : x.isErr = false) (hr : r.isErr = false)
    (h1 : ∀ l, r ≠ .list l) (h2 : (∃ m, r = .map m) ∨ (∃ s, r = .str s) → ∀ s, x ≠ .str s) :
    inOp x r = .err .invalidOp := by
  cases r <;> cases x <;> simp_all [inOp, errProp, Val.isErr]

/-! ### concatenation and size -/

theorem utf8Len_append (a b : Str) : utf8Len (a ++ b) = utf8Len a + utf8Len b := by
  simp [utf8Len, List.map_append, List.sum_append]

/-- `+` concatenates preserving order and `size` is additive over it. -/
theorem concat_size (a b : Str) (x y : List UInt8) (l m : List Val) :
    arith .add (.str a) (.str b) = .str (a ++ b) ∧ utf8Len (a ++ b) = utf8Len a + utf8Len b ∧
    arith .add (.bytes x) (.bytes y) = .bytes (x ++ y) ∧ (x ++ y).length = x.length + y.length ∧
    arith .add (.list l) (.list m) = .list (l ++ m) ∧ (l ++ m).length = l.length + m.length :=
  ⟨rfl, utf8Len_append a b, rfl, List.length_append, rfl, List.length_append⟩

/-- `size` of a string is its UTF-8 length, of bytes / list the element count; both call forms. -/
theorem size_spec (s : Str) (b : List UInt8) (l : List Val) :
    dispatch sizeOverloads (.str s) [] = .uint (utf8Len s) ∧ dispatch sizeOverloads .null [.str s] = .uint (utf8Len s) ∧
    dispatch sizeOverloads (.bytes b) [] = .uint b.length ∧ dispatch sizeOverloads .null [.bytes b] = .uint b.length ∧
    dispatch sizeOverloads (.list l) [] = .uint l.length ∧ dispatch sizeOverloads .null [.list l] = .uint l.length := by
  refine ⟨?_, ?_, ?_, ?_, ?_, ?_⟩ <;> rfl

/-! ### map literals: the last entry for a repeated key wins, at compile time and at run time alike -/

theorem get_insert_self (m : VMap) (k : Str) (v : Val) : Map.get (Map.insert m k v) k = some v := by
  induction m with
  | nil => simp [Map.insert, Map.get]
  | cons e rest ih =>
    obtain ⟨k', v'⟩ := e
    simp only [Map.insert]
    split
    · simp [Map.get]
    · split
      · rename_i h1 h2
        have hne : k' ≠ k := by
          intro e; subst e; simp [strLt_irrefl] at h2
        simp [Map.get, hne, ih]
      · simp [Map.get]

theorem get_insert_other (m : VMap) (k k2 : Str) (v : Val) (hne : k2 ≠ k) :
    Map.get (Map.insert m k v) k2 = Map.get m k2 := by
  induction m with
  | nil => simp [Map.insert, Map.get, hne.symm]
  | cons e rest ih =>
    obtain ⟨k', v'⟩ := e
    simp only [Map.insert]
    split
    · simp [Map.get, hne.symm]
    · split
      · simp only [Map.get]
        split
        · rfl
        · exact ih
      · rename_i h1 h2
        have hk : k = k' := by
          rcases strLt_total k k' with h | h | h
          · simp [h] at h1
          · exact h
          · simp [h] at h2
        subst hk
        simp [Map.get, hne.symm]

/-- Looking a key up in a map literal finds the *last* entry with that key. -/
theorem ofList_last_wins (es : List (Str × Val)) (k : Str) :
    Map.get (Map.ofList es) k = (es.reverse.find? (fun e => e.1 = k)).map (·.2) := by
  unfold Map.ofList
  suffices h : ∀ (m : VMap), Map.get (es.foldl (fun m e => Map.insert m e.1 e.2) m) k =
      match (es.reverse.find? (fun e => e.1 = k)) with
      | some e => some e.2
      | none => Map.get m k by
    have := h []
    rw [this]
    cases es.reverse.find? (fun e => e.1 = k) <;> simp [Map.get]
  induction es with
  | nil => intro m; simp
  | cons e rest ih =>
    intro m
    simp only [List.foldl_cons, List.reverse_cons, List.find?_append]
    rw [ih]
    cases hf : rest.reverse.find? (fun e => e.1 = k) with
    | some x => simp
    | none =>
      simp only [Option.none_or, List.find?_cons, List.find?_nil]
      by_cases hk : e.1 = k
      · rw [← hk]
        simp only [decide_true, get_insert_self]
      · simp only [hk, decide_false]
        exact get_insert_other m e.1 k e.2 (Ne.symm hk)

/-- The compile-time construction (`foldMap` over value, key, value, key, …) builds the same map the
    run-time `MKDICT` builds from the same entries in source order. -/
def interleave : List (Str × Val) → List Val
  | [] => []
  | (k, v) :: rest => v :: .str k :: interleave rest

theorem foldMap_eq_ofList (es : List (Str × Val)) (m : VMap) :
    foldMap (interleave es) m = .map (es.foldl (fun m e => Map.insert m e.1 e.2) m) := by
  induction es generalizing m with
  | nil => simp [interleave, foldMap]
  | cons e rest ih =>
    obtain ⟨k, v⟩ := e
    simp [interleave, foldMap, ih]

theorem compile_time_map_eq_run_time_map (es : List (Str × Val)) :
    foldMap (interleave es) [] = .map (Map.ofList es) := foldMap_eq_ofList es []

/-- Non-vacuity. -/
example : index (.list [.int 10, .int 20, .int 30]) (.int (-1)) = .int 30 := by rfl
example : index (.list [.int 10]) (.int (-2)) = .err .value := by rfl
example : Map.get (Map.ofList [("a".toList, .int 1), ("a".toList, .int 2)]) "a".toList = some (.int 2) := by rfl

end C06
end Rscel
