import RscelModel.Lemmas.MacroLoop
import RscelModel.Lemmas.StrOrder
/-
C07 — comprehension macros equal their defining folds; loop variables are lexical.

The macros are the model's `callMacro` (`Model/VM.lean`, mirroring `default_macros/{all,exists,
exists_one,filter,map,reduce}.rs`).  Everything is stated for an *arbitrary* nested-run callback `rec`
(how a block evaluates at the next depth level and what it appends to the call log), an arbitrary
environment, loop variable, body block and list of **any length** (induction over the list).

Vocabulary (`Lemmas/MacroLoop.lean`):
* `bodyRun rec env x body v log = rec (env.bind x v) body true log` — the body's run for element `v`:
  the loop variable is bound on top of the macro's environment (`Env.bind`, so it shadows an outer
  binding of the same name and nothing else changes — Part 3), and the callback `rec` is the same for
  every element: iterations do not consume depth budget (Part 4).
* `scan rec env x body l log = some (rs, log')` — the bodies over `l`, left to right, all evaluate; `rs`
  are their results, `log'` the call log afterwards.

Part 1, per macro `M`:
* `M_spec`  — when no body fails, the result is the defining fold over the body results
  (`List.all`, `List.any`, count = 1, `List.filter`, `List.map`, `foldl`);
* `M_true / M_false / M_stops / M_done / M_fails` — the complete behaviour including the call log:
  after a prefix `pre` that does not decide, the element `v` that decides (or whose body fails) ends the
  loop with the log left by `pre` and `v` — whatever follows (`post`) is not evaluated;
* `M_cases` — these situations are exhaustive.
Part 2: the same for pure bodies (`body` evaluates to `g v`): the textbook equations.
Part 3: scoping.  Part 4: depth budget.  Part 5: map ranges (keys in ascending order, one order per key set).
-/
namespace Rscel
namespace C07

variable {rec recTop : Rec}

/-! ### Part 0 — the macros are the loops -/

def allK : Unit → Val → Val → Sum Val Unit := fun _ _ r => if truthy r then .inr () else .inl (.bool false)
def existsK : Unit → Val → Val → Sum Val Unit := fun _ _ r => if truthy r then .inl (.bool true) else .inr ()
def oneK : Nat → Val → Val → Sum Val Nat :=
  fun n _ r => if truthy r then (if n ≥ 1 then .inl (.bool false) else .inr (n + 1)) else .inr n
def filterK : List Val → Val → Val → Sum Val (List Val) := fun acc v r => .inr (if truthy r then v :: acc else acc)
def mapK : List Val → Val → Val → Sum Val (List Val) := fun acc _ r => .inr (r :: acc)

section wiring
variable {env : Env} {xb body : List Instr} {x : Str} {l : List Val} {log : Log}

theorem all_is_loop (hx : evalIdent recTop xb = .ok x) :
    callMacro rec recTop env "all".toList (.list l) [xb, body] log =
      loopList rec env x body allK (fun _ => .bool true) l () log := by
  unfold callMacro
  rw [if_neg (by decide), if_neg (by decide), if_neg (by decide), if_neg (by decide)]
  simp only [hx, rangeOf]
  rw [if_neg (by decide), if_pos True.intro]
  rfl

theorem exists_is_loop (hx : evalIdent recTop xb = .ok x) :
    callMacro rec recTop env "exists".toList (.list l) [xb, body] log =
      loopList rec env x body existsK (fun _ => .bool false) l () log := by
  unfold callMacro
  rw [if_neg (by decide), if_neg (by decide), if_neg (by decide), if_neg (by decide)]
  simp only [hx, rangeOf]
  rw [if_neg (by decide), if_neg (by decide), if_pos True.intro]
  rfl

theorem exists_one_is_loop (hx : evalIdent recTop xb = .ok x) :
    callMacro rec recTop env "exists_one".toList (.list l) [xb, body] log =
      loopList rec env x body oneK (fun n => .bool (n == 1)) l 0 log := by
  unfold callMacro
  rw [if_neg (by decide), if_neg (by decide), if_neg (by decide), if_neg (by decide)]
  simp only [hx, rangeOf]
  rw [if_neg (by decide), if_neg (by decide), if_neg (by decide)]
  rfl

end wiring

/-- No body fails: the bodies' results over the whole list exist, or the first failing element is found
    after a prefix that evaluates. -/
theorem scan_cases (env : Env) (x : Str) (body : List Instr) : ∀ (l : List Val) (log : Log),
    (∃ rs log', scan rec env x body l log = some (rs, log')) ∨
    (∃ pre v post rs log' e, l = pre ++ v :: post ∧ scan rec env x body pre log = some (rs, log') ∧
        (bodyRun rec env x body v log').res = .error e)
  | [], log => .inl ⟨[], log, rfl⟩
  | v :: vs, log => by
    cases hr : (bodyRun rec env x body v log).res with
    | error e => exact .inr ⟨[], v, vs, [], log, e, rfl, rfl, hr⟩
    | ok r =>
      rcases scan_cases env x body vs (bodyRun rec env x body v log).log with
        ⟨rs, log', hs⟩ | ⟨pre, w, post, rs, log', e, hl, hs, hw⟩
      · exact .inl ⟨r :: rs, log', scan_cons_ok hr hs⟩
      · exact .inr ⟨v :: pre, w, post, r :: rs, log', e, by rw [hl]; rfl, scan_cons_ok hr hs, hw⟩

/-! ### Part 1a — `all` -/

theorem foldCont_all : ∀ (vs rs : List Val), vs.length = rs.length → rs.all truthy = true →
    foldCont allK () vs rs = some ()
  | [], [], _, _ => rfl
  | [], _ :: _, h, _ => by simp at h
  | _ :: _, [], h, _ => by simp at h
  | v :: vs, r :: rs, h, ht => by
    simp only [List.all_cons, Bool.and_eq_true] at ht
    rw [foldCont]
    simp only [allK, ht.1, if_true]
    exact foldCont_all vs rs (by simpa using h) ht.2

theorem foldCont_all_inv : ∀ (vs rs : List Val) (a : Unit), foldCont allK () vs rs = some a → rs.all truthy = true
  | [], [], _, _ => rfl
  | [], _ :: _, _, h => by simp [foldCont] at h
  | _ :: _, [], _, h => by simp [foldCont] at h
  | v :: vs, r :: rs, a, h => by
    rw [foldCont] at h
    by_cases ht : truthy r = true
    · simp only [allK, ht, if_true] at h
      simp [ht, foldCont_all_inv vs rs a h]
    · simp [allK, ht] at h

section all
variable {env : Env} {xb body : List Instr} {x : Str} {l : List Val} {log log' : Log} {rs : List Val}

/-- Every body evaluates and is truthy: `true`; every element was visited once, in order. -/
theorem all_true (hx : evalIdent recTop xb = .ok x)
    (hs : scan rec env x body l log = some (rs, log')) (ht : rs.all truthy = true) :
    callMacro rec recTop env "all".toList (.list l) [xb, body] log = (.bool true, log') := by
  rw [all_is_loop hx]
  have := loopList_prefix allK (fun _ => .bool true) env x body l [] () () log log' rs hs
    (foldCont_all l rs (scan_length hs).symm ht)
  rw [List.append_nil] at this
  rw [this, loopList_nil]

/-- The first element whose body is not truthy decides: `false`, and nothing after it is evaluated
    (the call log is the one left by `pre` and `v`, whatever `post` is). -/
theorem all_false (hx : evalIdent recTop xb = .ok x) {pre post : List Val} {v r : Val}
    (hs : scan rec env x body pre log = some (rs, log')) (ht : rs.all truthy = true)
    (hv : (bodyRun rec env x body v log').res = .ok r) (hr : truthy r = false) :
    callMacro rec recTop env "all".toList (.list (pre ++ v :: post)) [xb, body] log =
      (.bool false, (bodyRun rec env x body v log').log) := by
  rw [all_is_loop hx, loopList_prefix allK _ env x body pre _ () () log log' rs hs
    (foldCont_all pre rs (scan_length hs).symm ht)]
  exact loopList_stop allK _ env x body v post () log' r _ hv (by simp [allK, hr])

/-- The first body that fails, after truthy ones, fails the macro; nothing after it is evaluated. -/
theorem all_fails (hx : evalIdent recTop xb = .ok x) {pre post : List Val} {v : Val} {e : Abort}
    (hs : scan rec env x body pre log = some (rs, log')) (ht : rs.all truthy = true)
    (hv : (bodyRun rec env x body v log').res = .error e) :
    callMacro rec recTop env "all".toList (.list (pre ++ v :: post)) [xb, body] log =
      (.err e.kind, (bodyRun rec env x body v log').log) := by
  rw [all_is_loop hx, loopList_prefix allK _ env x body pre _ () () log log' rs hs
    (foldCont_all pre rs (scan_length hs).symm ht)]
  exact loopList_fail allK _ env x body v post () log' e hv

/-- The three situations are exhaustive. -/
theorem all_cases (env : Env) (x : Str) (body : List Instr) (l : List Val) (log : Log) :
    (∃ rs log', scan rec env x body l log = some (rs, log') ∧ rs.all truthy = true) ∨
    (∃ pre v post rs log' r, l = pre ++ v :: post ∧ scan rec env x body pre log = some (rs, log') ∧
        rs.all truthy = true ∧ (bodyRun rec env x body v log').res = .ok r ∧ truthy r = false) ∨
    (∃ pre v post rs log' e, l = pre ++ v :: post ∧ scan rec env x body pre log = some (rs, log') ∧
        rs.all truthy = true ∧ (bodyRun rec env x body v log').res = .error e) := by
  rcases loopList_cases (rec := rec) allK env x body l () log with
    ⟨rs, log', a, hs, hf⟩ | ⟨pre, v, post, rs, log', a, hl, hs, hf, he | ⟨r, res, hr, hk⟩⟩
  · exact .inl ⟨rs, log', hs, foldCont_all_inv l rs a hf⟩
  · obtain ⟨e, he⟩ := he
    exact .inr (.inr ⟨pre, v, post, rs, log', e, hl, hs, foldCont_all_inv pre rs a hf, he⟩)
  · refine .inr (.inl ⟨pre, v, post, rs, log', r, hl, hs, foldCont_all_inv pre rs a hf, hr, ?_⟩)
    by_cases ht : truthy r = true
    · simp [allK, ht] at hk
    · simpa using ht

/-- **`all` is `List.all`.** When no body fails, the result is `true` iff every body result is truthy. -/
theorem all_spec (hx : evalIdent recTop xb = .ok x) :
    ∀ {l : List Val} {log log' : Log} {rs : List Val}, scan rec env x body l log = some (rs, log') →
      (callMacro rec recTop env "all".toList (.list l) [xb, body] log).1 = .bool (rs.all truthy) := by
  intro l
  induction l with
  | nil =>
    intro log log' rs hs
    rw [scan] at hs; cases hs
    rw [all_is_loop hx, loopList_nil]; rfl
  | cons v vs ih =>
    intro log log' rs hs
    obtain ⟨r, rs', hr, hs', rfl⟩ := scan_cons hs
    have ih' := ih hs'
    rw [all_is_loop hx] at ih' ⊢
    by_cases ht : truthy r = true
    · rw [loopList_cont allK _ env x body v vs () () log r hr (by simp [allK, ht]), ih']
      simp [ht]
    · rw [loopList_stop allK _ env x body v vs () log r (.bool false) hr (by simp [allK, ht])]
      simp [ht]

end all

/-! ### Part 1b — `exists` -/

theorem foldCont_exists : ∀ (vs rs : List Val), vs.length = rs.length → rs.any truthy = false →
    foldCont existsK () vs rs = some ()
  | [], [], _, _ => rfl
  | [], _ :: _, h, _ => by simp at h
  | _ :: _, [], h, _ => by simp at h
  | v :: vs, r :: rs, h, ht => by
    simp only [List.any_cons, Bool.or_eq_false_iff] at ht
    rw [foldCont]
    simp only [existsK, ht.1]
    exact foldCont_exists vs rs (by simpa using h) ht.2

theorem foldCont_exists_inv : ∀ (vs rs : List Val) (a : Unit), foldCont existsK () vs rs = some a → rs.any truthy = false
  | [], [], _, _ => rfl
  | [], _ :: _, _, h => by simp [foldCont] at h
  | _ :: _, [], _, h => by simp [foldCont] at h
  | v :: vs, r :: rs, a, h => by
    rw [foldCont] at h
    by_cases ht : truthy r = true
    · simp [existsK, ht] at h
    · simp only [existsK, ht] at h
      simp [ht, foldCont_exists_inv vs rs a h]

section exists_
variable {env : Env} {xb body : List Instr} {x : Str} {l : List Val} {log log' : Log} {rs : List Val}

/-- No body is truthy (and none fails): `false`; every element was visited once, in order. -/
theorem exists_false (hx : evalIdent recTop xb = .ok x)
    (hs : scan rec env x body l log = some (rs, log')) (ht : rs.any truthy = false) :
    callMacro rec recTop env "exists".toList (.list l) [xb, body] log = (.bool false, log') := by
  rw [exists_is_loop hx]
  have := loopList_prefix existsK (fun _ => .bool false) env x body l [] () () log log' rs hs
    (foldCont_exists l rs (scan_length hs).symm ht)
  rw [List.append_nil] at this
  rw [this, loopList_nil]

/-- The first truthy body decides: `true`, and nothing after it is evaluated. -/
theorem exists_true (hx : evalIdent recTop xb = .ok x) {pre post : List Val} {v r : Val}
    (hs : scan rec env x body pre log = some (rs, log')) (ht : rs.any truthy = false)
    (hv : (bodyRun rec env x body v log').res = .ok r) (hr : truthy r = true) :
    callMacro rec recTop env "exists".toList (.list (pre ++ v :: post)) [xb, body] log =
      (.bool true, (bodyRun rec env x body v log').log) := by
  rw [exists_is_loop hx, loopList_prefix existsK _ env x body pre _ () () log log' rs hs
    (foldCont_exists pre rs (scan_length hs).symm ht)]
  exact loopList_stop existsK _ env x body v post () log' r _ hv (by simp [existsK, hr])

/-- The first body that fails, after non-truthy ones, fails the macro; nothing after it is evaluated. -/
theorem exists_fails (hx : evalIdent recTop xb = .ok x) {pre post : List Val} {v : Val} {e : Abort}
    (hs : scan rec env x body pre log = some (rs, log')) (ht : rs.any truthy = false)
    (hv : (bodyRun rec env x body v log').res = .error e) :
    callMacro rec recTop env "exists".toList (.list (pre ++ v :: post)) [xb, body] log =
      (.err e.kind, (bodyRun rec env x body v log').log) := by
  rw [exists_is_loop hx, loopList_prefix existsK _ env x body pre _ () () log log' rs hs
    (foldCont_exists pre rs (scan_length hs).symm ht)]
  exact loopList_fail existsK _ env x body v post () log' e hv

theorem exists_cases (env : Env) (x : Str) (body : List Instr) (l : List Val) (log : Log) :
    (∃ rs log', scan rec env x body l log = some (rs, log') ∧ rs.any truthy = false) ∨
    (∃ pre v post rs log' r, l = pre ++ v :: post ∧ scan rec env x body pre log = some (rs, log') ∧
        rs.any truthy = false ∧ (bodyRun rec env x body v log').res = .ok r ∧ truthy r = true) ∨
    (∃ pre v post rs log' e, l = pre ++ v :: post ∧ scan rec env x body pre log = some (rs, log') ∧
        rs.any truthy = false ∧ (bodyRun rec env x body v log').res = .error e) := by
  rcases loopList_cases (rec := rec) existsK env x body l () log with
    ⟨rs, log', a, hs, hf⟩ | ⟨pre, v, post, rs, log', a, hl, hs, hf, he | ⟨r, res, hr, hk⟩⟩
  · exact .inl ⟨rs, log', hs, foldCont_exists_inv l rs a hf⟩
  · obtain ⟨e, he⟩ := he
    exact .inr (.inr ⟨pre, v, post, rs, log', e, hl, hs, foldCont_exists_inv pre rs a hf, he⟩)
  · refine .inr (.inl ⟨pre, v, post, rs, log', r, hl, hs, foldCont_exists_inv pre rs a hf, hr, ?_⟩)
    by_cases ht : truthy r = true
    · exact ht
    · simp [existsK, ht] at hk

/-- **`exists` is `List.any`.** When no body fails, the result is `true` iff some body result is truthy. -/
theorem exists_spec (hx : evalIdent recTop xb = .ok x) :
    ∀ {l : List Val} {log log' : Log} {rs : List Val}, scan rec env x body l log = some (rs, log') →
      (callMacro rec recTop env "exists".toList (.list l) [xb, body] log).1 = .bool (rs.any truthy) := by
  intro l
  induction l with
  | nil =>
    intro log log' rs hs
    rw [scan] at hs; cases hs
    rw [exists_is_loop hx, loopList_nil]; rfl
  | cons v vs ih =>
    intro log log' rs hs
    obtain ⟨r, rs', hr, hs', rfl⟩ := scan_cons hs
    have ih' := ih hs'
    rw [exists_is_loop hx] at ih' ⊢
    by_cases ht : truthy r = true
    · rw [loopList_stop existsK _ env x body v vs () log r (.bool true) hr (by simp [existsK, ht])]
      simp [ht]
    · rw [loopList_cont existsK _ env x body v vs () () log r hr (by simp [existsK, ht]), ih']
      simp [ht]

end exists_

/-! ### Part 1c — `exists_one` -/

theorem foldCont_one : ∀ (vs rs : List Val) (n : Nat), vs.length = rs.length → n + rs.countP truthy ≤ 1 →
    foldCont oneK n vs rs = some (n + rs.countP truthy)
  | [], [], _, _, _ => rfl
  | [], _ :: _, _, h, _ => by simp at h
  | _ :: _, [], _, h, _ => by simp at h
  | v :: vs, r :: rs, n, h, hc => by
    rw [foldCont]
    by_cases ht : truthy r = true
    · simp only [List.countP_cons, ht, if_true] at hc ⊢
      have hn : ¬ n ≥ 1 := by omega
      simp only [oneK, ht, if_true, hn, if_false]
      rw [foldCont_one vs rs (n + 1) (by simpa using h) (by omega)]
      congr 1; omega
    · simp only [List.countP_cons, ht] at hc ⊢
      simp only [oneK, ht]
      simpa using foldCont_one vs rs n (by simpa using h) (by simpa using hc)

theorem foldCont_one_inv : ∀ (vs rs : List Val) (n a : Nat), foldCont oneK n vs rs = some a →
    a = n + rs.countP truthy ∧ (n ≤ 1 → a ≤ 1)
  | [], [], n, a, h => by rw [foldCont] at h; cases h; simp
  | [], _ :: _, _, _, h => by simp [foldCont] at h
  | _ :: _, [], _, _, h => by simp [foldCont] at h
  | v :: vs, r :: rs, n, a, h => by
    rw [foldCont] at h
    by_cases ht : truthy r = true
    · by_cases hn : n ≥ 1
      · simp [oneK, ht, hn] at h
      · simp only [oneK, ht, if_true, hn, if_false] at h
        have := foldCont_one_inv vs rs (n + 1) a h
        simp only [List.countP_cons, ht, if_true]
        constructor
        · omega
        · intro _; exact this.2 (by omega)
    · simp only [oneK, ht] at h
      have := foldCont_one_inv vs rs n a h
      simpa [List.countP_cons, ht] using this

section one
variable {env : Env} {xb body : List Instr} {x : Str} {l : List Val} {log log' : Log} {rs : List Val}

/-- At most one truthy body over the whole list: the result says whether there was exactly one. -/
theorem exists_one_done (hx : evalIdent recTop xb = .ok x)
    (hs : scan rec env x body l log = some (rs, log')) (hc : rs.countP truthy ≤ 1) :
    callMacro rec recTop env "exists_one".toList (.list l) [xb, body] log =
      (.bool (rs.countP truthy == 1), log') := by
  rw [exists_one_is_loop hx]
  have := loopList_prefix oneK (fun n => .bool (n == 1)) env x body l [] 0 _ log log' rs hs
    (foldCont_one l rs 0 (scan_length hs).symm (by omega))
  rw [List.append_nil] at this
  rw [this, loopList_nil]
  simp

/-- The second truthy body decides: `false`, and nothing after it is evaluated (early exit). -/
theorem exists_one_stops (hx : evalIdent recTop xb = .ok x) {pre post : List Val} {v r : Val}
    (hs : scan rec env x body pre log = some (rs, log')) (hc : rs.countP truthy = 1)
    (hv : (bodyRun rec env x body v log').res = .ok r) (hr : truthy r = true) :
    callMacro rec recTop env "exists_one".toList (.list (pre ++ v :: post)) [xb, body] log =
      (.bool false, (bodyRun rec env x body v log').log) := by
  rw [exists_one_is_loop hx, loopList_prefix oneK _ env x body pre _ 0 _ log log' rs hs
    (foldCont_one pre rs 0 (scan_length hs).symm (by omega))]
  exact loopList_stop oneK _ env x body v post _ log' r _ hv (by simp [oneK, hr, hc])

/-- A failing body, before a second truthy one was seen, fails the macro. -/
theorem exists_one_fails (hx : evalIdent recTop xb = .ok x) {pre post : List Val} {v : Val} {e : Abort}
    (hs : scan rec env x body pre log = some (rs, log')) (hc : rs.countP truthy ≤ 1)
    (hv : (bodyRun rec env x body v log').res = .error e) :
    callMacro rec recTop env "exists_one".toList (.list (pre ++ v :: post)) [xb, body] log =
      (.err e.kind, (bodyRun rec env x body v log').log) := by
  rw [exists_one_is_loop hx, loopList_prefix oneK _ env x body pre _ 0 _ log log' rs hs
    (foldCont_one pre rs 0 (scan_length hs).symm (by omega))]
  exact loopList_fail oneK _ env x body v post _ log' e hv

theorem exists_one_cases (env : Env) (x : Str) (body : List Instr) (l : List Val) (log : Log) :
    (∃ rs log', scan rec env x body l log = some (rs, log') ∧ rs.countP truthy ≤ 1) ∨
    (∃ pre v post rs log' r, l = pre ++ v :: post ∧ scan rec env x body pre log = some (rs, log') ∧
        rs.countP truthy = 1 ∧ (bodyRun rec env x body v log').res = .ok r ∧ truthy r = true) ∨
    (∃ pre v post rs log' e, l = pre ++ v :: post ∧ scan rec env x body pre log = some (rs, log') ∧
        rs.countP truthy ≤ 1 ∧ (bodyRun rec env x body v log').res = .error e) := by
  rcases loopList_cases (rec := rec) oneK env x body l 0 log with
    ⟨rs, log', a, hs, hf⟩ | ⟨pre, v, post, rs, log', a, hl, hs, hf, he | ⟨r, res, hr, hk⟩⟩
  · have := foldCont_one_inv l rs 0 a hf
    exact .inl ⟨rs, log', hs, by have := this.2 (by omega); omega⟩
  · obtain ⟨e, he⟩ := he
    have := foldCont_one_inv pre rs 0 a hf
    exact .inr (.inr ⟨pre, v, post, rs, log', e, hl, hs, by have := this.2 (by omega); omega, he⟩)
  · have h0 := foldCont_one_inv pre rs 0 a hf
    have ha := h0.2 (by omega)
    by_cases ht : truthy r = true
    · by_cases hn : a ≥ 1
      · exact .inr (.inl ⟨pre, v, post, rs, log', r, hl, hs, by omega, hr, ht⟩)
      · simp [oneK, ht, hn] at hk
    · simp [oneK, ht] at hk

/-- Generalised over the hits seen so far. -/
theorem loop_one_spec (env : Env) (x : Str) (body : List Instr) :
    ∀ (l : List Val) (n : Nat) (log log' : Log) (rs : List Val), n ≤ 1 →
      scan rec env x body l log = some (rs, log') →
      (loopList rec env x body oneK (fun n => .bool (n == 1)) l n log).1 = .bool (n + rs.countP truthy == 1)
  | [], n, log, log', rs, _, hs => by
    rw [scan] at hs; cases hs
    rw [loopList_nil]; simp
  | v :: vs, n, log, log', rs, hn, hs => by
    obtain ⟨r, rs', hr, hs', rfl⟩ := scan_cons hs
    by_cases ht : truthy r = true
    · by_cases h1 : n ≥ 1
      · rw [loopList_stop oneK _ env x body v vs n log r (.bool false) hr (by simp [oneK, ht, h1])]
        simp only [List.countP_cons, ht, if_true]
        have : (n + (List.countP truthy rs' + 1) == 1) = false := by
          rw [beq_eq_false_iff_ne]; omega
        rw [this]
      · rw [loopList_cont oneK _ env x body v vs n (n + 1) log r hr (by simp [oneK, ht, h1]),
          loop_one_spec env x body vs (n + 1) _ log' rs' (by omega) hs']
        simp only [List.countP_cons, ht, if_true]
        congr 2; omega
    · rw [loopList_cont oneK _ env x body v vs n n log r hr (by simp [oneK, ht]),
        loop_one_spec env x body vs n _ log' rs' hn hs']
      simp [List.countP_cons, ht]

/-- **`exists_one` counts.** When no body fails, the result is `true` iff exactly one body result is truthy. -/
theorem exists_one_spec (hx : evalIdent recTop xb = .ok x)
    (hs : scan rec env x body l log = some (rs, log')) :
    (callMacro rec recTop env "exists_one".toList (.list l) [xb, body] log).1 =
      .bool (rs.countP truthy == 1) := by
  rw [exists_one_is_loop hx, loop_one_spec env x body l 0 log log' rs (by omega) hs]
  simp

end one

/-! ### Part 1d — `filter` and `map` (lists, and maps through their keys: `rangeOf`) -/

/-- The elements whose body result is truthy, in their original order and multiplicity. -/
def keep : List Val → List Val → List Val
  | v :: vs, r :: rs => if truthy r then v :: keep vs rs else keep vs rs
  | _, _ => []

theorem foldCont_filter : ∀ (vs rs acc : List Val), vs.length = rs.length →
    foldCont filterK acc vs rs = some ((keep vs rs).reverse ++ acc)
  | [], [], _, _ => rfl
  | [], _ :: _, _, h => by simp at h
  | _ :: _, [], _, h => by simp at h
  | v :: vs, r :: rs, acc, h => by
    rw [foldCont]
    simp only [filterK]
    rw [foldCont_filter vs rs _ (by simpa using h)]
    by_cases ht : truthy r = true <;> simp [keep, ht]

theorem foldCont_map : ∀ (vs rs acc : List Val), vs.length = rs.length →
    foldCont mapK acc vs rs = some (rs.reverse ++ acc)
  | [], [], _, _ => rfl
  | [], _ :: _, _, h => by simp at h
  | _ :: _, [], _, h => by simp at h
  | v :: vs, r :: rs, acc, h => by
    rw [foldCont]
    simp only [mapK]
    rw [foldCont_map vs rs _ (by simpa using h)]
    simp

section filter_map
variable {env : Env} {xb body : List Instr} {x : Str} {this : Val} {l : List Val} {log log' : Log} {rs : List Val}

theorem filter_is_loop (hx : evalIdent recTop xb = .ok x) (hl : rangeOf true this = some l) :
    callMacro rec recTop env "filter".toList this [xb, body] log =
      loopList rec env x body filterK (fun acc => .list acc.reverse) l [] log := by
  unfold callMacro
  rw [if_neg (by decide), if_neg (by decide), if_neg (by decide), if_neg (by decide)]
  simp only [hx, hl]
  rw [if_pos True.intro]
  rfl

theorem map_is_loop (hx : evalIdent recTop xb = .ok x) (hl : rangeOf true this = some l) :
    callMacro rec recTop env "map".toList this [xb, body] log =
      loopList rec env x body mapK (fun acc => .list acc.reverse) l [] log := by
  unfold callMacro
  rw [if_neg (by decide), if_neg (by decide), if_neg (by decide), if_pos rfl]
  simp only [hx, hl]
  rfl

/-- **`filter` is `List.filter`.** No body fails: the elements with a truthy body result, in their
    original order and multiplicity; every element visited once, in order. -/
theorem filter_spec (hx : evalIdent recTop xb = .ok x) (hl : rangeOf true this = some l)
    (hs : scan rec env x body l log = some (rs, log')) :
    callMacro rec recTop env "filter".toList this [xb, body] log = (.list (keep l rs), log') := by
  rw [filter_is_loop hx hl]
  have := loopList_prefix filterK (fun acc => .list acc.reverse) env x body l [] [] _ log log' rs hs
    (foldCont_filter l rs [] (scan_length hs).symm)
  rw [List.append_nil] at this
  rw [this, loopList_nil]
  simp

/-- The first failing body fails `filter`; nothing after it is evaluated. -/
theorem filter_fails (hx : evalIdent recTop xb = .ok x) {pre post : List Val} {v : Val} {e : Abort}
    (hl : rangeOf true this = some (pre ++ v :: post))
    (hs : scan rec env x body pre log = some (rs, log'))
    (hv : (bodyRun rec env x body v log').res = .error e) :
    callMacro rec recTop env "filter".toList this [xb, body] log =
      (.err e.kind, (bodyRun rec env x body v log').log) := by
  rw [filter_is_loop hx hl, loopList_prefix filterK _ env x body pre _ [] _ log log' rs hs
    (foldCont_filter pre rs [] (scan_length hs).symm)]
  exact loopList_fail filterK _ env x body v post _ log' e hv

/-- **`map` is `List.map`.** No body fails: the body results, one per element, in order. -/
theorem map_spec (hx : evalIdent recTop xb = .ok x) (hl : rangeOf true this = some l)
    (hs : scan rec env x body l log = some (rs, log')) :
    callMacro rec recTop env "map".toList this [xb, body] log = (.list rs, log') := by
  rw [map_is_loop hx hl]
  have := loopList_prefix mapK (fun acc => .list acc.reverse) env x body l [] [] _ log log' rs hs
    (foldCont_map l rs [] (scan_length hs).symm)
  rw [List.append_nil] at this
  rw [this, loopList_nil]
  simp

/-- The first failing body fails `map`; nothing after it is evaluated. -/
theorem map_fails (hx : evalIdent recTop xb = .ok x) {pre post : List Val} {v : Val} {e : Abort}
    (hl : rangeOf true this = some (pre ++ v :: post))
    (hs : scan rec env x body pre log = some (rs, log'))
    (hv : (bodyRun rec env x body v log').res = .error e) :
    callMacro rec recTop env "map".toList this [xb, body] log =
      (.err e.kind, (bodyRun rec env x body v log').log) := by
  rw [map_is_loop hx hl, loopList_prefix mapK _ env x body pre _ [] _ log log' rs hs
    (foldCont_map pre rs [] (scan_length hs).symm)]
  exact loopList_fail mapK _ env x body v post _ log' e hv

end filter_map

/-! ### Part 1e — `map(x, p, e)` -/

/-- Predicate, then (only when it is truthy) the transform, per element, left to right; the collected
    transform results and the call log afterwards; `none` as soon as a predicate or a transform fails. -/
def scan3 (rec : Rec) (env : Env) (x : Str) (p e : List Instr) : List Val → Log → Option (List Val × Log)
  | [], log => some ([], log)
  | v :: vs, log =>
    match (bodyRun rec env x p v log).res with
    | .error _ => none
    | .ok r =>
      if truthy r then
        match (bodyRun rec env x e v (bodyRun rec env x p v log).log).res with
        | .error _ => none
        | .ok r2 =>
          match scan3 rec env x p e vs (bodyRun rec env x e v (bodyRun rec env x p v log).log).log with
          | none => none
          | some (out, log') => some (r2 :: out, log')
      else scan3 rec env x p e vs (bodyRun rec env x p v log).log

section map3
variable {env : Env} {xb p e : List Instr} {x : Str} {this : Val} {l : List Val} {log log' : Log}

theorem map3_is_loop (hx : evalIdent recTop xb = .ok x) (hl : rangeOf true this = some l) :
    callMacro rec recTop env "map".toList this [xb, p, e] log = loopMap3 rec env x p e l [] log := by
  unfold callMacro
  rw [if_neg (by decide), if_neg (by decide), if_neg (by decide), if_pos rfl]
  simp only [hx, hl]

theorem loopMap3_ok : ∀ (l acc : List Val) (log log' : Log) (out : List Val),
    scan3 rec env x p e l log = some (out, log') →
    loopMap3 rec env x p e l acc log = (.list (acc.reverse ++ out), log')
  | [], acc, log, log', out, h => by
    rw [scan3] at h; cases h
    rw [loopMap3]; simp
  | v :: vs, acc, log, log', out, h => by
    rw [scan3] at h
    rw [loopMap3]
    simp only [runBody_eq]
    split at h
    · cases h
    · rename_i r hr
      simp only [hr]
      by_cases ht : truthy r = true
      · simp only [ht, if_true] at h ⊢
        split at h
        · cases h
        · rename_i r2 hr2
          simp only [hr2]
          split at h
          · cases h
          · rename_i out' l' hs
            cases h
            rw [loopMap3_ok vs (r2 :: acc) _ log' out' hs]
            simp
      · simp only [ht] at h ⊢
        exact loopMap3_ok vs acc _ log' out h

/-- **`map(x, p, e)`**: no predicate and no transform fails: the transform results of exactly the
    elements with a truthy predicate, in order (the transform is not run for the others). -/
theorem map3_spec (hx : evalIdent recTop xb = .ok x) (hl : rangeOf true this = some l) {out : List Val}
    (hs : scan3 rec env x p e l log = some (out, log')) :
    callMacro rec recTop env "map".toList this [xb, p, e] log = (.list out, log') := by
  rw [map3_is_loop hx hl, loopMap3_ok l [] log log' out hs]; simp

theorem loopMap3_prefix : ∀ (pre rest acc : List Val) (log log' : Log) (out : List Val),
    scan3 rec env x p e pre log = some (out, log') →
    loopMap3 rec env x p e (pre ++ rest) acc log = loopMap3 rec env x p e rest (out.reverse ++ acc) log'
  | [], rest, acc, log, log', out, h => by
    rw [scan3] at h; cases h; rfl
  | v :: vs, rest, acc, log, log', out, h => by
    rw [scan3] at h
    rw [List.cons_append, loopMap3]
    simp only [runBody_eq]
    split at h
    · cases h
    · rename_i r hr
      simp only [hr]
      by_cases ht : truthy r = true
      · simp only [ht, if_true] at h ⊢
        split at h
        · cases h
        · rename_i r2 hr2
          simp only [hr2]
          split at h
          · cases h
          · rename_i out' l' hs
            cases h
            rw [loopMap3_prefix vs rest (r2 :: acc) _ log' out' hs]
            simp
      · simp only [ht] at h ⊢
        exact loopMap3_prefix vs rest acc _ log' out h

/-- A failing predicate fails the macro; nothing after it (not even this element's transform) is run. -/
theorem map3_pred_fails (hx : evalIdent recTop xb = .ok x) {pre post out : List Val} {v : Val} {a : Abort}
    (hl : rangeOf true this = some (pre ++ v :: post))
    (hs : scan3 rec env x p e pre log = some (out, log'))
    (hv : (bodyRun rec env x p v log').res = .error a) :
    callMacro rec recTop env "map".toList this [xb, p, e] log =
      (.err a.kind, (bodyRun rec env x p v log').log) := by
  rw [map3_is_loop hx hl, loopMap3_prefix pre _ [] log log' out hs, loopMap3]
  simp only [runBody_eq, hv]

/-- A failing transform (after a truthy predicate) fails the macro; nothing after it is run. -/
theorem map3_transform_fails (hx : evalIdent recTop xb = .ok x) {pre post out : List Val} {v r : Val} {a : Abort}
    (hl : rangeOf true this = some (pre ++ v :: post))
    (hs : scan3 rec env x p e pre log = some (out, log'))
    (hp : (bodyRun rec env x p v log').res = .ok r) (ht : truthy r = true)
    (hv : (bodyRun rec env x e v (bodyRun rec env x p v log').log).res = .error a) :
    callMacro rec recTop env "map".toList this [xb, p, e] log =
      (.err a.kind, (bodyRun rec env x e v (bodyRun rec env x p v log').log).log) := by
  rw [map3_is_loop hx hl, loopMap3_prefix pre _ [] log log' out hs, loopMap3]
  simp only [runBody_eq, hp, ht, if_true, hv]

end map3

/-! ### Part 1f — `reduce(acc, x, step, seed)` -/

/-- The step's run for one element: the element is bound to the second variable and the accumulator to
    the first, on top of the macro's environment. -/
abbrev stepRun (rec : Rec) (env : Env) (cur nxt : Str) (step : List Instr) (acc v : Val) (log : Log) : Out :=
  rec ((env.bind nxt v).bind cur acc) step true log

/-- Thread the accumulator through the steps, left to right; `none` as soon as a step fails. -/
def scanReduce (rec : Rec) (env : Env) (cur nxt : Str) (step : List Instr) : List Val → Val → Log → Option (Val × Log)
  | [], acc, log => some (acc, log)
  | v :: vs, acc, log =>
    match (stepRun rec env cur nxt step acc v log).res with
    | .error _ => none
    | .ok r => scanReduce rec env cur nxt step vs r (stepRun rec env cur nxt step acc v log).log

section reduce
variable {env : Env} {cb nb step seed : List Instr} {cur nxt : Str} {l : List Val} {log log' : Log}

theorem reduce_is_loop (hc : evalIdent recTop cb = .ok cur) (hn : evalIdent recTop nb = .ok nxt)
    {s0 : Val} (hseed : (rec env seed true log).res = .ok s0) :
    callMacro rec recTop env "reduce".toList (.list l) [cb, nb, step, seed] log =
      loopReduce rec env cur nxt step l s0 (rec env seed true log).log := by
  unfold callMacro
  rw [if_neg (by decide), if_neg (by decide), if_pos rfl]
  simp only [hc, hn, hseed]

theorem loopReduce_prefix : ∀ (pre rest : List Val) (acc acc' : Val) (log log' : Log),
    scanReduce rec env cur nxt step pre acc log = some (acc', log') →
    loopReduce rec env cur nxt step (pre ++ rest) acc log = loopReduce rec env cur nxt step rest acc' log'
  | [], rest, acc, acc', log, log', h => by rw [scanReduce] at h; cases h; rfl
  | v :: vs, rest, acc, acc', log, log', h => by
    rw [scanReduce] at h
    rw [List.cons_append, loopReduce]
    split at h
    · cases h
    · rename_i r hr
      simp only [stepRun] at hr
      simp only [hr]
      exact loopReduce_prefix vs rest r acc' _ log' h

/-- **`reduce` is `foldl`.** The seed is evaluated first (in the macro's own environment); then the
    accumulator is threaded from the seed through the step, left to right. -/
theorem reduce_spec (hc : evalIdent recTop cb = .ok cur) (hn : evalIdent recTop nb = .ok nxt)
    {s0 a : Val} (hseed : (rec env seed true log).res = .ok s0)
    (hs : scanReduce rec env cur nxt step l s0 (rec env seed true log).log = some (a, log')) :
    callMacro rec recTop env "reduce".toList (.list l) [cb, nb, step, seed] log = (a, log') := by
  rw [reduce_is_loop hc hn hseed]
  have := loopReduce_prefix l [] s0 a _ log' hs
  rw [List.append_nil] at this
  rw [this, loopReduce]

/-- The first failing step fails the macro; nothing after it is evaluated. -/
theorem reduce_fails (hc : evalIdent recTop cb = .ok cur) (hn : evalIdent recTop nb = .ok nxt)
    {s0 a v : Val} {pre post : List Val} {e : Abort} (hseed : (rec env seed true log).res = .ok s0)
    (hs : scanReduce rec env cur nxt step pre s0 (rec env seed true log).log = some (a, log'))
    (hv : (stepRun rec env cur nxt step a v log').res = .error e) :
    callMacro rec recTop env "reduce".toList (.list (pre ++ v :: post)) [cb, nb, step, seed] log =
      (.err e.kind, (stepRun rec env cur nxt step a v log').log) := by
  rw [reduce_is_loop hc hn hseed, loopReduce_prefix pre _ s0 a _ log' hs, loopReduce]
  simp only [stepRun] at hv
  simp only [hv]

/-- A failing seed fails the macro before any element is visited. -/
theorem reduce_seed_fails (hc : evalIdent recTop cb = .ok cur) (hn : evalIdent recTop nb = .ok nxt)
    {this : Val} {e : Abort} (hseed : (rec env seed true log).res = .error e) :
    callMacro rec recTop env "reduce".toList this [cb, nb, step, seed] log =
      (.err e.kind, (rec env seed true log).log) := by
  unfold callMacro
  rw [if_neg (by decide), if_neg (by decide), if_pos rfl]
  simp only [hc, hn, hseed]

theorem scanReduce_cases : ∀ (l : List Val) (acc : Val) (log : Log),
    (∃ a log', scanReduce rec env cur nxt step l acc log = some (a, log')) ∨
    (∃ pre v post a log' e, l = pre ++ v :: post ∧ scanReduce rec env cur nxt step pre acc log = some (a, log') ∧
        (stepRun rec env cur nxt step a v log').res = .error e)
  | [], acc, log => .inl ⟨acc, log, rfl⟩
  | v :: vs, acc, log => by
    cases hr : (stepRun rec env cur nxt step acc v log).res with
    | error e => exact .inr ⟨[], v, vs, acc, log, e, rfl, rfl, hr⟩
    | ok r =>
      rcases scanReduce_cases vs r (stepRun rec env cur nxt step acc v log).log with
        ⟨a, log', hs⟩ | ⟨pre, w, post, a, log', e, hl, hs, hw⟩
      · exact .inl ⟨a, log', by rw [scanReduce]; simp only [hr]; exact hs⟩
      · exact .inr ⟨v :: pre, w, post, a, log', e, by rw [hl]; rfl, by rw [scanReduce]; simp only [hr]; exact hs, hw⟩

end reduce

/-! ### Part 2 — bodies that evaluate to a function of the element: the textbook equations -/

section pure
variable {env : Env} {xb body : List Instr} {x : Str} {l : List Val} {log : Log} {g : Val → Val}

/-- If the body evaluates to `g v` for every element `v` (whatever it logs), the scan succeeds with `l.map g`. -/
theorem scan_pure (hg : ∀ v log, (bodyRun rec env x body v log).res = .ok (g v)) :
    ∀ (l : List Val) (log : Log), ∃ log', scan rec env x body l log = some (l.map g, log')
  | [], log => ⟨log, rfl⟩
  | v :: vs, log => by
    obtain ⟨log', h⟩ := scan_pure hg vs (bodyRun rec env x body v log).log
    exact ⟨log', scan_cons_ok (hg v log) h⟩

theorem keep_map (g : Val → Val) : ∀ l : List Val, keep l (l.map g) = l.filter (fun v => truthy (g v))
  | [] => rfl
  | v :: vs => by
    simp only [List.map_cons, keep, List.filter_cons, keep_map g vs]

theorem all_pure (hx : evalIdent recTop xb = .ok x) (hg : ∀ v log, (bodyRun rec env x body v log).res = .ok (g v)) :
    (callMacro rec recTop env "all".toList (.list l) [xb, body] log).1 = .bool (l.all fun v => truthy (g v)) := by
  obtain ⟨log', hs⟩ := scan_pure hg l log
  rw [all_spec hx hs, List.all_map]; rfl

theorem exists_pure (hx : evalIdent recTop xb = .ok x) (hg : ∀ v log, (bodyRun rec env x body v log).res = .ok (g v)) :
    (callMacro rec recTop env "exists".toList (.list l) [xb, body] log).1 = .bool (l.any fun v => truthy (g v)) := by
  obtain ⟨log', hs⟩ := scan_pure hg l log
  rw [exists_spec hx hs, List.any_map]; rfl

theorem exists_one_pure (hx : evalIdent recTop xb = .ok x)
    (hg : ∀ v log, (bodyRun rec env x body v log).res = .ok (g v)) :
    (callMacro rec recTop env "exists_one".toList (.list l) [xb, body] log).1 =
      .bool (l.countP (fun v => truthy (g v)) == 1) := by
  obtain ⟨log', hs⟩ := scan_pure hg l log
  rw [exists_one_spec hx hs, List.countP_map]; rfl

theorem filter_pure {this : Val} (hx : evalIdent recTop xb = .ok x) (hl : rangeOf true this = some l)
    (hg : ∀ v log, (bodyRun rec env x body v log).res = .ok (g v)) :
    (callMacro rec recTop env "filter".toList this [xb, body] log).1 = .list (l.filter fun v => truthy (g v)) := by
  obtain ⟨log', hs⟩ := scan_pure hg l log
  rw [filter_spec hx hl hs, keep_map]

theorem map_pure {this : Val} (hx : evalIdent recTop xb = .ok x) (hl : rangeOf true this = some l)
    (hg : ∀ v log, (bodyRun rec env x body v log).res = .ok (g v)) :
    (callMacro rec recTop env "map".toList this [xb, body] log).1 = .list (l.map g) := by
  obtain ⟨log', hs⟩ := scan_pure hg l log
  rw [map_spec hx hl hs]

theorem scan3_pure {p e : List Instr} {gp ge : Val → Val}
    (hp : ∀ v log, (bodyRun rec env x p v log).res = .ok (gp v))
    (he : ∀ v log, (bodyRun rec env x e v log).res = .ok (ge v)) :
    ∀ (l : List Val) (log : Log), ∃ log',
      scan3 rec env x p e l log = some ((l.filter fun v => truthy (gp v)).map ge, log')
  | [], log => ⟨log, rfl⟩
  | v :: vs, log => by
    rw [scan3]
    simp only [hp v log]
    by_cases ht : truthy (gp v) = true
    · simp only [ht, if_true, he v _]
      obtain ⟨log', h⟩ := scan3_pure hp he vs (bodyRun rec env x e v (bodyRun rec env x p v log).log).log
      exact ⟨log', by rw [h]; simp [List.filter_cons, ht]⟩
    · simp only [ht]
      obtain ⟨log', h⟩ := scan3_pure hp he vs (bodyRun rec env x p v log).log
      exact ⟨log', by rw [h]; simp [List.filter_cons, ht]⟩

theorem map3_pure {this : Val} {p e : List Instr} {gp ge : Val → Val}
    (hx : evalIdent recTop xb = .ok x) (hl : rangeOf true this = some l)
    (hp : ∀ v log, (bodyRun rec env x p v log).res = .ok (gp v))
    (he : ∀ v log, (bodyRun rec env x e v log).res = .ok (ge v)) :
    (callMacro rec recTop env "map".toList this [xb, p, e] log).1 =
      .list ((l.filter fun v => truthy (gp v)).map ge) := by
  obtain ⟨log', hs⟩ := scan3_pure hp he l log
  rw [map3_spec hx hl hs]

theorem scanReduce_pure {cur nxt : Str} {step : List Instr} {h : Val → Val → Val}
    (hstep : ∀ a v log, (stepRun rec env cur nxt step a v log).res = .ok (h a v)) :
    ∀ (l : List Val) (a : Val) (log : Log), ∃ log',
      scanReduce rec env cur nxt step l a log = some (l.foldl h a, log')
  | [], a, log => ⟨log, rfl⟩
  | v :: vs, a, log => by
    rw [scanReduce]
    simp only [hstep a v log]
    exact scanReduce_pure hstep vs (h a v) _

theorem reduce_pure {cb nb step seed : List Instr} {cur nxt : Str} {h : Val → Val → Val} {s0 : Val}
    (hc : evalIdent recTop cb = .ok cur) (hn : evalIdent recTop nb = .ok nxt)
    (hseed : (rec env seed true log).res = .ok s0)
    (hstep : ∀ a v log, (stepRun rec env cur nxt step a v log).res = .ok (h a v)) :
    (callMacro rec recTop env "reduce".toList (.list l) [cb, nb, step, seed] log).1 = l.foldl h s0 := by
  obtain ⟨log', hs⟩ := scanReduce_pure hstep l s0 (rec env seed true log).log
  rw [reduce_spec hc hn hseed hs]

end pure

/-! ### Part 3 — the loop variable is lexical

The body of element `v` runs in `env.bind x v` (`bodyRun`, by definition; for `reduce` in
`(env.bind nxt v).bind cur acc`).  `Env.bind` is a function on environments: the macro's own environment
`env` is not changed by the loop — after the macro the enclosing block continues with `env`, so an outer
binding of the same name is what it was (in the code: the loop works on a clone).  What the body sees: -/

/-- The loop variable is bound to the element, shadowing any outer binding of the same name. -/
theorem loop_var_bound (env : Env) (x : Str) (v : Val) (h : env.hasBinds = true) :
    (env.bind x v).getParam x = some v := by
  simp [Env.getParam, Env.bind, h, lookup]

/-- Every other variable is what it was outside. -/
theorem other_vars_visible (env : Env) (x y : Str) (v : Val) (h : y ≠ x) :
    (env.bind x v).getParam y = env.getParam y := by
  show (if env.hasBinds then lookup ((x, v) :: env.params) y else none) =
    (if env.hasBinds then lookup env.params y else none)
  rw [lookup, if_neg (fun hh : x = y => h hh.symm)]

/-- Stored programs, bound functions, macros and types are what they were outside. -/
theorem rest_visible (B : Builtins) (env : Env) (x : Str) (v : Val) (name : Str) :
    (env.bind x v).getProg name = env.getProg name ∧ (env.bind x v).getType name = env.getType name ∧
    (env.bind x v).getFunc B name = env.getFunc B name ∧ (env.bind x v).isMacro name = env.isMacro name ∧
    (env.bind x v).callable B name = env.callable B name := by
  exact ⟨rfl, rfl, rfl, rfl, rfl⟩

/-- A nested macro re-using the name: inside the inner body the inner element is seen, … -/
theorem nested_same_name (env : Env) (x : Str) (v w : Val) (h : env.hasBinds = true) :
    ((env.bind x v).bind x w).getParam x = some w := by
  simp [Env.getParam, Env.bind, h, lookup]

/-- … for every other variable the inner body sees what the outer body sees, … -/
theorem nested_other (env : Env) (x y z : Str) (v w : Val) (hy : y ≠ z) :
    ((env.bind x v).bind z w).getParam y = (env.bind x v).getParam y :=
  other_vars_visible _ z y w hy

/-- … and the identifier resolves, in the VM, to the loop variable's value (unless it names a type) —
    at any point of the body, whatever has been logged or is on the stack. -/
theorem loop_var_resolves (env : Env) (x : Str) (v : Val) (st : List SVal) (log : Log)
    (h : env.hasBinds = true) (ht : typeByName x = none) :
    popS rec (env.bind x v) { stack := .val (.ident x) :: st, log := log } =
      .ok (.val v) { stack := st, log := log } := by
  have h1 : (env.bind x v).getType x = none := by simp [Env.getType, Env.bind, h, ht]
  have h2 : (env.bind x v).getParam x = some v := loop_var_bound env x v h
  simp only [popS, h1, h2]

/-- In `reduce` the accumulator variable wins when both names coincide (it is bound last). -/
theorem reduce_vars (env : Env) (cur nxt : Str) (acc v : Val) (h : env.hasBinds = true) :
    ((env.bind nxt v).bind cur acc).getParam cur = some acc ∧
    (cur ≠ nxt → ((env.bind nxt v).bind cur acc).getParam nxt = some v) := by
  constructor
  · simp [Env.getParam, Env.bind, h, lookup]
  · intro hne
    simp only [Env.getParam, Env.bind, h, lookup, if_true]
    rw [if_neg hne]

/-! ### Part 4 — iterations do not consume depth budget

A block running at budget `b + 1` hands `runAt B b` to its macros as the callback `rec`; every theorem
above holds for any `rec`, so the body of *every* element — the first and the 10 000th — is
`runAt B b (env.bind x v) body …`: one level below the macro call, independent of the position. -/

theorem macro_callback_budget (B : Builtins) (b : Nat) (env : Env) (code : List Instr) (resolve : Bool) (log : Log) :
    runAt B (b + 1) env code resolve log =
      match loop B (runAt B b) (runFresh B) env code (blockFuel code) 0 { stack := [], log := log } with
      | .fail a l => { res := .error a, log := l }
      | .ok _ s => finish (runAt B b) env resolve s := rfl

/-- Instance: if the body evaluates to `g v` at budget `b`, `map` over a list of any length at budget `b`
    is `l.map g` — no depth failure, however long the list. -/
theorem map_any_length (B : Builtins) (b : Nat) {env : Env} {xb body : List Instr} {x : Str} {l : List Val}
    {log : Log} {g : Val → Val} (hx : evalIdent recTop xb = .ok x)
    (hg : ∀ v log, (runAt B b (env.bind x v) body true log).res = .ok (g v)) :
    (callMacro (runAt B b) recTop env "map".toList (.list l) [xb, body] log).1 = .list (l.map g) :=
  map_pure hx rfl hg

/-- The depth failure is reported by a body only when the budget is used up — for the first element
    already, never later because of the elements before. -/
theorem depth_failure_is_immediate (B : Builtins) {env : Env} {xb body : List Instr} {x : Str} {v : Val}
    {vs : List Val} {log : Log} (hx : evalIdent recTop xb = .ok x) :
    callMacro (runAt B 0) recTop env "map".toList (.list (v :: vs)) [xb, body] log = (.err .runtime, log) := by
  rw [map_is_loop hx rfl, loopList_fail mapK _ env x body v vs [] log .depth rfl]
  rfl

/-! ### Part 5 — ranging over a map: its keys, ascending, one order per key set -/

/-- `filter` and `map` range over the keys of a map, as strings, in the order of the association list. -/
theorem rangeOf_map (m : VMap) : rangeOf true (.map m) = some ((Map.keys m).map Val.str) := by
  simp [rangeOf, Map.keys, List.map_map]

/-- `all`, `exists`, `exists_one` (and `reduce`) accept lists only. -/
theorem rangeOf_list_only (m : VMap) (l : List Val) :
    rangeOf false (.map m) = none ∧ rangeOf false (.list l) = some l ∧ rangeOf true (.list l) = some l := by
  simp [rangeOf]

/-- The keys are strictly ascending (so there is no repeated key). -/
def KeysSorted (m : VMap) : Prop := (Map.keys m).Pairwise (fun a b => strLt a b = true)

theorem keys_insert_mem : ∀ (m : VMap) (k k' : Str) (v : Val),
    k' ∈ Map.keys (Map.insert m k v) → k' = k ∨ k' ∈ Map.keys m
  | [], k, k', v, h => by simp [Map.insert, Map.keys] at h; exact .inl h
  | (a, b) :: rest, k, k', v, h => by
    rw [Map.insert] at h
    by_cases h1 : strLt k a = true
    · simp only [h1, if_true, Map.keys, List.map_cons, List.mem_cons] at h ⊢
      rcases h with h | h | h
      · exact .inl h
      · exact .inr (.inl h)
      · exact .inr (.inr h)
    · by_cases h2 : strLt a k = true
      · simp only [h1, h2, if_true, Bool.false_eq_true, if_false, Map.keys, List.map_cons, List.mem_cons] at h ⊢
        rcases h with h | h
        · exact .inr (.inl h)
        · rcases keys_insert_mem rest k k' v h with h | h
          · exact .inl h
          · exact .inr (.inr h)
      · simp only [h1, h2, Bool.false_eq_true, if_false, Map.keys, List.map_cons, List.mem_cons] at h ⊢
        rcases h with h | h
        · exact .inl h
        · exact .inr (.inr h)

/-- Inserting keeps the keys ascending (`HashMap::insert` followed by sorting the keys). -/
theorem insert_keys_sorted : ∀ (m : VMap) (k : Str) (v : Val), KeysSorted m → KeysSorted (Map.insert m k v)
  | [], k, v, _ => by simp [KeysSorted, Map.insert, Map.keys]
  | (a, b) :: rest, k, v, hm => by
    have hm' : (a :: Map.keys rest).Pairwise (fun a b => strLt a b = true) := hm
    rw [List.pairwise_cons] at hm'
    unfold KeysSorted
    rw [Map.insert]
    by_cases h1 : strLt k a = true
    · simp only [h1, if_true]
      show (k :: a :: Map.keys rest).Pairwise _
      rw [List.pairwise_cons]
      refine ⟨?_, hm⟩
      intro c hc
      rcases List.mem_cons.mp hc with rfl | hc
      · exact h1
      · exact strLt_trans _ _ _ h1 (hm'.1 c hc)
    · by_cases h2 : strLt a k = true
      · simp only [h1, h2, if_true]
        show (a :: Map.keys (Map.insert rest k v)).Pairwise _
        rw [List.pairwise_cons]
        refine ⟨?_, insert_keys_sorted rest k v hm'.2⟩
        intro c hc
        rcases keys_insert_mem rest k c v hc with rfl | hc
        · exact h2
        · exact hm'.1 c hc
      · simp only [h1, h2]
        have hak : a = k := by
          rcases strLt_total a k with h | h | h
          · exact absurd h h2
          · exact h
          · exact absurd h h1
        subst hak
        exact hm

/-- Every map the VM builds (`MKDICT`, `Map.ofList`) has ascending keys. -/
theorem ofList_keys_sorted (es : List (Str × Val)) : KeysSorted (Map.ofList es) := by
  unfold Map.ofList
  suffices h : ∀ (m : VMap), KeysSorted m → KeysSorted (es.foldl (fun m e => Map.insert m e.1 e.2) m) from
    h [] (by simp [KeysSorted, Map.keys])
  induction es with
  | nil => intro m hm; exact hm
  | cons e es ih => intro m hm; exact ih _ (insert_keys_sorted m e.1 e.2 hm)

/-- Strictly ascending lists with the same members are equal: the iteration order is a function of the
    key *set* — two maps with the same keys are ranged over in the same order. -/
theorem sorted_unique : ∀ (l1 l2 : List Str), l1.Pairwise (fun a b => strLt a b = true) →
    l2.Pairwise (fun a b => strLt a b = true) → (∀ k, k ∈ l1 ↔ k ∈ l2) → l1 = l2
  | [], [], _, _, _ => rfl
  | [], b :: bs, _, _, h => by have := (h b).2 (by simp); simp at this
  | a :: as, [], _, _, h => by have := (h a).1 (by simp); simp at this
  | a :: as, b :: bs, h1, h2, h => by
    rw [List.pairwise_cons] at h1 h2
    have hab : a = b := by
      rcases List.mem_cons.mp ((h a).1 (by simp)) with hab | ha
      · exact hab
      · rcases List.mem_cons.mp ((h b).2 (by simp)) with hba | hb
        · exact hba.symm
        · have := strLt_asymm _ _ (h2.1 a ha)
          rw [h1.1 b hb] at this; cases this
    subst hab
    congr 1
    apply sorted_unique as bs h1.2 h2.2
    intro k
    constructor
    · intro hk
      rcases List.mem_cons.mp ((h k).1 (List.mem_cons_of_mem _ hk)) with rfl | hk'
      · have := h1.1 _ hk; rw [strLt_irrefl] at this; cases this
      · exact hk'
    · intro hk
      rcases List.mem_cons.mp ((h k).2 (List.mem_cons_of_mem _ hk)) with rfl | hk'
      · have := h2.1 _ hk; rw [strLt_irrefl] at this; cases this
      · exact hk'

theorem map_keys_one_order (m1 m2 : VMap) (h1 : KeysSorted m1) (h2 : KeysSorted m2)
    (h : ∀ k, k ∈ Map.keys m1 ↔ k ∈ Map.keys m2) :
    rangeOf true (.map m1) = rangeOf true (.map m2) := by
  rw [rangeOf_map, rangeOf_map, sorted_unique _ _ h1 h2 h]

/-! ### Non-vacuity: concrete callbacks and a run on the VM model -/

/-- A body callback: `[push (ident n)]` evaluates to the variable `n` (Binding failure when unbound),
    `[div]` fails with a division by zero, anything else is `null`; every run logs one entry. -/
private def demoRec : Rec := fun env code _ log =>
  let log' := log ++ [{ name := [], this := .null, args := [] }]
  match code with
  | [.push (.ident n)] =>
    (match env.getParam n with
     | some v => { res := .ok v, log := log' }
     | none => { res := .error (.err .binding), log := log' })
  | [.div] => { res := .error (.err .divZero), log := log' }
  | _ => { res := .ok .null, log := log' }

/-- The fresh-interpreter callback of `eval_ident`: an identifier block yields the identifier. -/
private def demoTop : Rec := fun _ code _ log =>
  match code with
  | [.push (.ident n)] => { res := .ok (.ident n), log := log }
  | _ => { res := .error (.err .misc), log := log }

private def vx : Str := "x".toList
private def xb : List Instr := [.push (.ident vx)]

example : evalIdent demoTop xb = .ok vx := rfl
example : ∃ log', scan demoRec {} vx xb [.int 1, .int 0] [] = some ([.int 1, .int 0], log') := ⟨_, rfl⟩
-- [1, 0, 2].all(x, x): false, decided by the second element; the third body is not run (2 log entries)
example : callMacro demoRec demoTop {} "all".toList (.list [.int 1, .int 0, .int 2]) [xb, xb] [] =
    (.bool false, (bodyRun demoRec {} vx xb (.int 0) (bodyRun demoRec {} vx xb (.int 1) []).log).log) :=
  all_false (pre := [.int 1]) (post := [.int 2]) rfl (rs := [.int 1]) rfl rfl rfl rfl
example : (callMacro demoRec demoTop {} "all".toList (.list [.int 1, .int 0, .int 2]) [xb, xb] []).2.length = 2 := rfl
example : (callMacro demoRec demoTop {} "all".toList (.list [.int 1, .int 3, .int 2]) [xb, xb] []).1 = .bool true := rfl
example : (callMacro demoRec demoTop {} "all".toList (.list [.int 1, .int 0]) [xb, [.div]] []).1 = .err .divZero := rfl
-- [0, 5, 0].exists(x, x): true at the second element
example : callMacro demoRec demoTop {} "exists".toList (.list [.int 0, .int 5, .int 0]) [xb, xb] [] =
    (.bool true, (bodyRun demoRec {} vx xb (.int 5) (bodyRun demoRec {} vx xb (.int 0) []).log).log) :=
  exists_true (pre := [.int 0]) (post := [.int 0]) rfl (rs := [.int 0]) rfl rfl rfl rfl
example : ∃ log', (callMacro demoRec demoTop {} "exists".toList (.list [.int 0, .int 0]) [xb, xb] []) =
    (.bool false, log') := ⟨_, exists_false rfl (rs := [.int 0, .int 0]) rfl rfl⟩
-- [1, 0, 1, 1, 1].exists_one(x, x): false at the second hit (third element), two bodies left out
example : ∃ log', (callMacro demoRec demoTop {} "exists_one".toList
    (.list [.int 1, .int 0, .int 1, .int 1, .int 1]) [xb, xb] []) = (.bool false, log') :=
  ⟨_, exists_one_stops (pre := [.int 1, .int 0]) (post := [.int 1, .int 1]) rfl (rs := [.int 1, .int 0]) rfl rfl rfl rfl⟩
example : (callMacro demoRec demoTop {} "exists_one".toList
    (.list [.int 1, .int 0, .int 1, .int 1, .int 1]) [xb, xb] []).2.length = 3 := rfl
example : (callMacro demoRec demoTop {} "exists_one".toList (.list [.int 0, .int 7, .int 0]) [xb, xb] []).1 =
    .bool true := rfl
-- filter keeps order and multiplicity; map over a map ranges over the sorted keys
example : (callMacro demoRec demoTop {} "filter".toList (.list [.int 2, .int 0, .int 2, .int 1]) [xb, xb] []).1 =
    .list [.int 2, .int 2, .int 1] := rfl
example : (callMacro demoRec demoTop {} "map".toList
    (.map (Map.ofList [("b".toList, .int 1), ("a".toList, .int 2), ("b".toList, .int 3)])) [xb, xb] []).1 =
    .list [.str "a".toList, .str "b".toList] := rfl
example : (callMacro demoRec demoTop {} "map".toList (.list [.int 1, .int 0, .int 2]) [xb, xb, [.pop]] []).1 =
    .list [.null, .null] := rfl
example : ∃ log', (callMacro demoRec demoTop {} "map".toList (.list [.int 1, .int 0]) [xb, xb, [.div]] []) =
    (.err .divZero, log') :=
  ⟨_, map3_transform_fails (pre := []) (post := [.int 0]) (out := []) (v := .int 1) (r := .int 1)
    (a := .err .divZero) rfl rfl rfl rfl rfl rfl⟩
-- reduce(acc, x, acc, 7) over three elements: the seed threaded through
example : (callMacro demoRec demoTop { params := [("s".toList, .int 7)] } "reduce".toList
    (.list [.int 1, .int 2, .int 3]) [[.push (.ident "a".toList)], xb, [.push (.ident "a".toList)], [.push (.ident "s".toList)]] []).1 =
    .int 7 := rfl
-- scoping: the body sees the element under the loop variable's name, the outer binding is shadowed
example : (callMacro demoRec demoTop { params := [(vx, .str [])] } "map".toList (.list [.int 1, .int 2]) [xb, xb] []).1 =
    .list [.int 1, .int 2] := rfl
example : ({ params := [(vx, .str [])] } : Env).getParam vx = some (.str []) := rfl

-- one instance of the hypotheses of each remaining theorem
example : ∃ log', callMacro demoRec demoTop {} "all".toList (.list [.int 1, .int 2]) [xb, xb] [] = (.bool true, log') :=
  ⟨_, all_true rfl (rs := [.int 1, .int 2]) rfl rfl⟩
example : ∃ log', callMacro demoRec demoTop {} "all".toList (.list [.int 1, .int 2]) [xb, [.div]] [] = (.err .divZero, log') :=
  ⟨_, all_fails (pre := []) (post := [.int 2]) (rs := []) (v := .int 1) (e := .err .divZero) rfl rfl rfl rfl⟩
example : ∃ log', callMacro demoRec demoTop {} "exists".toList (.list [.int 1]) [xb, [.div]] [] = (.err .divZero, log') :=
  ⟨_, exists_fails (pre := []) (post := []) (rs := []) (v := .int 1) (e := .err .divZero) rfl rfl rfl rfl⟩
example : ∃ log', callMacro demoRec demoTop {} "exists_one".toList (.list [.int 0, .int 4]) [xb, xb] [] = (.bool true, log') :=
  ⟨_, exists_one_done rfl (rs := [.int 0, .int 4]) rfl (by decide)⟩
example : ∃ log', callMacro demoRec demoTop {} "exists_one".toList (.list [.int 0]) [xb, [.div]] [] = (.err .divZero, log') :=
  ⟨_, exists_one_fails (pre := []) (post := []) (rs := []) (v := .int 0) (e := .err .divZero) rfl rfl (by decide) rfl⟩
example : (callMacro demoRec demoTop {} "all".toList (.list [.int 1, .int 0]) [xb, xb] []).1 = .bool ([Val.int 1, .int 0].all truthy) :=
  all_spec rfl (rs := [.int 1, .int 0]) (log' := (bodyRun demoRec {} vx xb (.int 0) (bodyRun demoRec {} vx xb (.int 1) []).log).log) rfl
example : ∃ log', callMacro demoRec demoTop {} "filter".toList (.list [.int 1, .int 0]) [xb, xb] [] =
    (.list (keep [.int 1, .int 0] [.int 1, .int 0]), log') :=
  ⟨_, filter_spec rfl rfl (rs := [.int 1, .int 0]) rfl⟩
example : keep [.int 1, .int 0] [.int 1, .int 0] = [.int 1] := rfl
example : ∃ log', callMacro demoRec demoTop {} "filter".toList (.list [.int 1, .int 0]) [xb, [.div]] [] = (.err .divZero, log') :=
  ⟨_, filter_fails (pre := []) (post := [.int 0]) (rs := []) (v := .int 1) (e := .err .divZero) rfl rfl rfl rfl⟩
example : ∃ log', callMacro demoRec demoTop {} "map".toList (.list [.int 1, .int 0]) [xb, xb] [] = (.list [.int 1, .int 0], log') :=
  ⟨_, map_spec rfl rfl (rs := [.int 1, .int 0]) rfl⟩
example : ∃ log', callMacro demoRec demoTop {} "map".toList (.list [.int 1, .int 0]) [xb, [.div]] [] = (.err .divZero, log') :=
  ⟨_, map_fails (pre := []) (post := [.int 0]) (rs := []) (v := .int 1) (e := .err .divZero) rfl rfl rfl rfl⟩
example : ∃ log', callMacro demoRec demoTop {} "map".toList (.list [.int 1, .int 0]) [xb, xb, xb] [] = (.list [.int 1], log') :=
  ⟨_, map3_spec rfl rfl (out := [.int 1]) rfl⟩
example : ∃ log', callMacro demoRec demoTop {} "map".toList (.list [.int 1]) [xb, [.div], xb] [] = (.err .divZero, log') :=
  ⟨_, map3_pred_fails (pre := []) (post := []) (out := []) (v := .int 1) (a := .err .divZero) rfl rfl rfl rfl⟩
example : ∃ log', callMacro demoRec demoTop {} "reduce".toList (.list [.int 1, .int 2])
    [[.push (.ident "a".toList)], xb, xb, [.pop]] [] = (.int 2, log') :=
  ⟨_, reduce_spec (cur := "a".toList) (nxt := vx) rfl rfl (s0 := .null) rfl rfl⟩
example : ∃ log', callMacro demoRec demoTop {} "reduce".toList (.list [.int 1, .int 2])
    [[.push (.ident "a".toList)], xb, [.div], [.pop]] [] = (.err .divZero, log') :=
  ⟨_, reduce_fails (cur := "a".toList) (nxt := vx) (pre := []) (post := [.int 2]) (v := .int 1) (a := .null)
    (e := .err .divZero) rfl rfl (s0 := .null) rfl rfl rfl⟩
example : ∃ log', callMacro demoRec demoTop {} "reduce".toList (.int 5)
    [[.push (.ident "a".toList)], xb, xb, [.div]] [] = (.err .divZero, log') :=
  ⟨_, reduce_seed_fails (cur := "a".toList) (nxt := vx) rfl rfl (e := .err .divZero) rfl⟩
-- the body `x` evaluates to the element itself: the pure-body equations with `g = id`
example (l : List Val) (log : Log) :
    (callMacro demoRec demoTop {} "filter".toList (.list l) [xb, xb] log).1 = .list (l.filter fun v => truthy v) :=
  filter_pure (g := id) rfl rfl (fun _ _ => rfl)
example (l : List Val) (log : Log) :
    (callMacro demoRec demoTop {} "all".toList (.list l) [xb, xb] log).1 = .bool (l.all fun v => truthy v) :=
  all_pure (g := id) rfl (fun _ _ => rfl)
example (l : List Val) (log : Log) :
    (callMacro demoRec demoTop {} "exists_one".toList (.list l) [xb, xb] log).1 = .bool (l.countP (fun v => truthy v) == 1) :=
  exists_one_pure (g := id) rfl (fun _ _ => rfl)
example (l : List Val) (log : Log) :
    (callMacro demoRec demoTop {} "map".toList (.list l) [xb, xb, xb] log).1 = .list ((l.filter fun v => truthy v).map id) :=
  map3_pure (gp := id) (ge := id) rfl rfl (fun _ _ => rfl) (fun _ _ => rfl)
example : KeysSorted (Map.ofList [("b".toList, .int 1), ("a".toList, .int 2)]) := ofList_keys_sorted _

/-- On the VM model itself: a list longer than the remaining depth budget (5 elements at budget 2). -/
private def noBuiltins : Builtins := { func := fun _ => none, ctor := fun _ _ => .null }
example : (runAt noBuiltins 2 {} [.push (.code xb), .push (.code xb),
      .push (.list [.int 1, .int 2, .int 3, .int 4, .int 5]), .push (.ident "map".toList), .access, .call 2] true []).res =
    .ok (.list [.int 1, .int 2, .int 3, .int 4, .int 5]) := by rfl

end C07
end Rscel
