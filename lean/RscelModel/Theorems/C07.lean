import RscelModel.Lemmas.MacroLoop
import RscelModel.Lemmas.StrOrder
/-
C07 — comprehension macros equal their defining folds; loop variables are lexical.

The macros are the model's `callMacro` (`Model/VM.lean`, mirroring `default_macros/{all,exists,
exists_one,filter,map,reduce}.rs`).  Everything is stated for an *arbitrary* nested-run callback `rec`
(how a block evaluates at the next depth level and what it appends to the call log), an arbitrary
environment, loop variable, body block and list of **any length** (induction over the list).

Vocabulary (`Lemmas/MacroLoop.lean`):
* `bodyRun rec env x body v log = rec (env.bind x v) body true log` — the body's run for element `v`:
  the loop variable is bound on top of the macro's environment (`Env.bind`, so it shadows an outer
  binding of the same name and nothing else changes — Part 3), and the callback `rec` is the same for
  every element: iterations do not consume depth budget (Part 4).
* `scan rec env x body l log = some (rs, log')` — the bodies over `l`, left to right, all evaluate; `rs`
  are their results, `log'` the call log afterwards.

Part 1, per macro `M`:
* `M_spec`  — when no body fails, the result is the defining fold over the body results
  (`List.all`, `List.any`, count = 1, `List.filter`, `List.map`, `foldl`);
* `M_true / M_false / M_stops / M_done / M_fails` — the complete behaviour including the call log:
  after a prefix `pre` that does not decide, the element `v` that decides (or whose body fails) ends the
  loop with the log left by `pre` and `v` — whatever follows (`post`) is not evaluated;
* `M_cases` — these situations are exhaustive.
Part 2: the same for pure bodies (`body` evaluates to `g v`): the textbook equations.
Part 3: scoping.  Part 4: depth budget.  Part 5: map ranges (keys in ascending order, one order per key set).
-/
namespace Rscel
namespace C07

variable {rec recTop : Rec}

/-! ### Part 0 — the macros are the loops -/

def allK : Unit → Val → Val → Sum Val Unit := fun _ _ r => if truthy r then .inr () else .inl (.bool false)
def existsK : Unit → Val → Val → Sum Val Unit := fun _ _ r => if truthy r then .inl (.bool true) else .inr ()
def oneK : Nat → Val → Val → Sum Val Nat :=
  fun n _ r => if truthy r then (if n ≥ 1 then .inl (.bool false) else .inr (n + 1)) else .inr n
def filterK : List Val → Val → Val → Sum Val (List Val) := fun acc v r => .inr (if truthy r then v :: acc else acc)
def mapK : List Val → Val → Val → Sum Val (List Val) := fun acc _ r => .inr (r :: acc)

section wiring
variable {env : Env} {xb body : List Instr} {x : Str} {l : List Val} {log : Log}

theorem all_is_loop (hx : evalIdent recTop xb = .ok x) :
    callMacro rec recTop env "all".toList (.list l) [xb, body] log =
      loopList rec env x body allK (fun _ => .bool true) l () log := by
  unfold callMacro
  rw [if_neg (by decide), if_neg (by decide), if_neg (by decide), if_neg (by decide)]
  simp only [hx, rangeOf]
  rw [if_neg (by decide), if_pos True.intro]
  rfl

theorem exists_is_loop (hx : evalIdent recTop xb = .ok x) :
    callMacro rec recTop env "exists".toList (.list l) [xb, body] log =
      loopList rec env x body existsK (fun _ => .bool false) l () log := by
  unfold callMacro
  rw [if_neg (by decide), if_neg (by decide), if_neg (by decide), if_neg (by decide)]
  simp only [hx, rangeOf]
  rw [if_neg (by decide), if_neg (by decide), if_pos True.intro]
  rfl

theorem exists_one_is_loop (hx : evalIdent recTop xb = .ok x) :
    callMacro rec recTop env "exists_one".toList (.list l) [xb, body] log =
      loopList rec env x body oneK (fun n => .bool (n == 1)) l 0 log := by
  unfold callMacro
  rw [if_neg (by decide), if_neg (by decide), if_neg (by decide), if_neg (by decide)]
  simp only [hx, rangeOf]
  rw [if_neg (by decide), if_neg (by decide), if_neg (by decide)]
  rfl

end wiring

end C07
end Rscel
