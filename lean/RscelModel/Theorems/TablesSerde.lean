import RscelModel.Lemmas.TablesDefs
/-
Table theorems, see Lemmas/TablesDefs.lean: the model's tables equal those regenerated from the source on this run.
-/
namespace Rscel
namespace Tables
open Rscel.Serde Rscel.Time

/-! ### serde enum layouts (C19): variant names, order and skip flags -/

def layoutOf {τ} (L : List (Variant τ)) : List (String × Bool) := L.map fun v => (v.name, v.skipSer || v.skipDe)

theorem serde_layouts_match_source :
    agrees Generated.celValueLayout (layoutOf valueLayout) (· == ·) = true ∧
    agrees Generated.byteCodeLayout (layoutOf instrLayout) (· == ·) = true ∧
    agrees Generated.celErrorLayout (layoutOf errLayout) (· == ·) = true ∧
    agrees Generated.jmpWhenLayout (layoutOf whenLayout) (· == ·) = true := by decide


end Tables
end Rscel
