import RscelModel.Model.Arith
import RscelModel.Model.Order
import RscelModel.Model.Time
import RscelModel.Model.Uom
import RscelModel.Lemmas.Civil
import RscelModel.Theorems.C04
/-
C16 — time arithmetic, calendar accessors, zones and unit conversion are consistent.

Everything is stated for all inputs (all `Int` nanosecond counts, all zone databases, all rationals).

* arithmetic: `(t + d) - d = t`, `(t1 - t2) + t2 = t1`, `d1 + d2 - d2 = d1` whenever the intermediate result is
  representable; a result outside chrono's range is an error (and the error is passed on); order is the
  order of the nanosecond counts.
* calendar: `daysOfCivil` numbers the valid Gregorian dates consecutively from 1970-01-01 (`daysOfCivil_next`,
  `daysOfCivil_epoch`), `civilOfDays` produces a valid date (`civil_valid`) whose number is the day (`civil_roundtrip`), the day of the year counts from January 1 (`doy_eq`), the day of the week advances by
  one per day from Thursday 1970-01-01; the accessor fields have the documented bases and determine the
  local second count (`fields_determine_instant`).
* zones: the zone-less call equals the call with a zone of offset 0 for nine of the ten accessors
  (`zoneless_eq_utc`); for `getDayOfWeek` the model follows the code, which returns the documented value + 1
  when a zone is given (`Pinned.dow_zone_off_by_one`, a recorded finding of the pinned tree: the existing test
  suite pins the value 4 for a Wednesday); an unknown zone is an Argument error.
* durations: whole seconds / minutes / hours truncated toward zero and the sub-second millisecond part.
* units (over exact rationals): identity, inverse, transitivity, agreement with the exact definitions,
  error exactly for unknown names or different categories.
-/
namespace Rscel
namespace C16
open Time Uom

/-! ## 1. timestamp / duration arithmetic -/

theorem inTs_iff (n : Int) : inTs n = true ↔ (tsMin ≤ n ∧ n ≤ tsMax) := by
  unfold inTs; rw [Bool.and_eq_true, decide_eq_true_eq, decide_eq_true_eq]
theorem inDur_iff (n : Int) : inDur n = true ↔ (-durMax ≤ n ∧ n ≤ durMax) := by
  unfold inDur; rw [Bool.and_eq_true, decide_eq_true_eq, decide_eq_true_eq]

theorem ts_add_dur (t d : Int) : arith .add (.ts t) (.dur d) = narrowTs (t + d) := by
  simp [arith, errProp, arithCore, widen, otherArm]
theorem dur_add_ts (t d : Int) : arith .add (.dur d) (.ts t) = narrowTs (t + d) := by
  simp [arith, errProp, arithCore, widen, otherArm]
theorem ts_sub_dur (t d : Int) : arith .sub (.ts t) (.dur d) = narrowTs (t - d) := by
  simp [arith, errProp, arithCore, widen, otherArm]
theorem ts_sub_ts (a b : Int) : arith .sub (.ts a) (.ts b) = .dur (a - b) := by
  simp [arith, errProp, arithCore, widen, otherArm]
theorem dur_add_dur (a b : Int) : arith .add (.dur a) (.dur b) = narrowDur (a + b) := by
  simp [arith, errProp, arithCore, widen, otherArm]
theorem dur_sub_dur (a b : Int) : arith .sub (.dur a) (.dur b) = narrowDur (a - b) := by
  simp [arith, errProp, arithCore, widen, otherArm]
theorem arith_err_left (op : ArithOp) (k : ErrKind) (v : Val) : arith op (.err k) v = .err k := by
  simp [arith, errProp]

/-- **(t + d) − d = t** whenever `t + d` is representable. -/
theorem add_sub_cancel (t d : Int) (ht : inTs t = true) (h : inTs (t + d) = true) :
    arith .sub (arith .add (.ts t) (.dur d)) (.dur d) = .ts t := by
  rw [ts_add_dur, narrowTs, if_pos h, ts_sub_dur, Int.add_sub_cancel, narrowTs, if_pos ht]

/-- The same with the operands of `+` commuted (`d + t`). -/
theorem add_sub_cancel_comm (t d : Int) (ht : inTs t = true) (h : inTs (t + d) = true) :
    arith .sub (arith .add (.dur d) (.ts t)) (.dur d) = .ts t := by
  rw [dur_add_ts, narrowTs, if_pos h, ts_sub_dur, Int.add_sub_cancel, narrowTs, if_pos ht]

/-- **(t − d) + d = t** whenever `t − d` is representable. -/
theorem sub_add_cancel_dur (t d : Int) (ht : inTs t = true) (h : inTs (t - d) = true) :
    arith .add (arith .sub (.ts t) (.dur d)) (.dur d) = .ts t := by
  rw [ts_sub_dur, narrowTs, if_pos h, ts_add_dur, Int.sub_add_cancel, narrowTs, if_pos ht]

/-- The difference of two representable instants is always a representable duration (which is why the
    code needs no check there). -/
theorem ts_diff_in_range (a b : Int) (ha : inTs a = true) (hb : inTs b = true) : inDur (a - b) = true := by
  rw [inTs_iff] at ha hb; rw [inDur_iff]
  unfold tsMin tsMax at *; unfold durMax
  omega

/-- **(t1 − t2) + t2 = t1** for all representable instants. -/
theorem sub_add_cancel (t1 t2 : Int) (h1 : inTs t1 = true) :
    arith .add (arith .sub (.ts t1) (.ts t2)) (.ts t2) = .ts t1 := by
  have e : t2 + (t1 - t2) = t1 := by omega
  rw [ts_sub_ts, dur_add_ts, e, narrowTs, if_pos h1]

/-- **d1 + d2 − d2 = d1** whenever `d1 + d2` is representable. -/
theorem dur_add_sub_cancel (d1 d2 : Int) (h1 : inDur d1 = true) (h : inDur (d1 + d2) = true) :
    arith .sub (arith .add (.dur d1) (.dur d2)) (.dur d2) = .dur d1 := by
  rw [dur_add_dur, narrowDur, if_pos h, dur_sub_dur, Int.add_sub_cancel, narrowDur, if_pos h1]

/-- **Results outside the representable range are errors**, for every time operator. -/
theorem out_of_range_err (t d a b : Int) :
    (inTs (t + d) = false → arith .add (.ts t) (.dur d) = .err .value ∧ arith .add (.dur d) (.ts t) = .err .value) ∧
    (inTs (t - d) = false → arith .sub (.ts t) (.dur d) = .err .value) ∧
    (inDur (a + b) = false → arith .add (.dur a) (.dur b) = .err .value) ∧
    (inDur (a - b) = false → arith .sub (.dur a) (.dur b) = .err .value) := by
  refine ⟨fun h => ⟨?_, ?_⟩, fun h => ?_, fun h => ?_, fun h => ?_⟩
  · rw [ts_add_dur, narrowTs, h]; rfl
  · rw [dur_add_ts, narrowTs, h]; rfl
  · rw [ts_sub_dur, narrowTs, h]; rfl
  · rw [dur_add_dur, narrowDur, h]; rfl
  · rw [dur_sub_dur, narrowDur, h]; rfl

/-- … and the error is what the enclosing expression evaluates to: `(t + d) − d` fails when `t + d` does. -/
theorem out_of_range_propagates (t d : Int) (h : inTs (t + d) = false) :
    arith .sub (arith .add (.ts t) (.dur d)) (.dur d) = .err .value := by
  rw [ts_add_dur, narrowTs, h]; exact arith_err_left _ _ _

/-- In range the operators are exact: the sum / difference of the nanosecond counts. -/
theorem in_range_exact (t d a b : Int) :
    (inTs (t + d) = true → arith .add (.ts t) (.dur d) = .ts (t + d)) ∧
    (inTs (t - d) = true → arith .sub (.ts t) (.dur d) = .ts (t - d)) ∧
    (inDur (a + b) = true → arith .add (.dur a) (.dur b) = .dur (a + b)) ∧
    (inDur (a - b) = true → arith .sub (.dur a) (.dur b) = .dur (a - b)) := by
  refine ⟨fun h => ?_, fun h => ?_, fun h => ?_, fun h => ?_⟩
  · rw [ts_add_dur, narrowTs, if_pos h]
  · rw [ts_sub_dur, narrowTs, if_pos h]
  · rw [dur_add_dur, narrowDur, if_pos h]
  · rw [dur_sub_dur, narrowDur, if_pos h]

/-- **Ordering is chronological**: the order of the nanosecond counts (strict part; the other operators
    are in `C04.time_order`). -/
theorem ts_order_chrono (a b : Int) :
    rel .lt (.ts a) (.ts b) = .bool (decide (a < b)) ∧ rel .gt (.ts a) (.ts b) = .bool (decide (b < a)) ∧
    valEq (.ts a) (.ts b) = .bool (decide (a = b)) ∧
    rel .lt (.dur a) (.dur b) = .bool (decide (a < b)) ∧ rel .gt (.dur a) (.dur b) = .bool (decide (b < a)) ∧
    valEq (.dur a) (.dur b) = .bool (decide (a = b)) := by
  have h := C04.time_order a b
  exact ⟨h.1, h.2.2.1, h.2.2.2.2.1, h.2.2.2.2.2.1, h.2.2.2.2.2.2.2.1, h.2.2.2.2.2.2.2.2.2⟩

/-! ## 2. the calendar -/

/-- **`daysOfCivil (civilOfDays z) = z`** for every day number. -/
theorem civil_roundtrip (z : Int) :
    daysOfCivil (civilOfDays z).year (civilOfDays z).month (civilOfDays z).day = z :=
  parts_roundtrip _ _ _ _ _ (parts_ok z)

/-- **`daysOfCivil` counts days** (the specification side is the Gregorian calendar): the date after a valid
    date — next day of the month, first of the next month, or January 1 of the next year — has the next
    number, and 1970-01-01 has number 0. -/
theorem daysOfCivil_next (y m d : Int) (hm : 1 ≤ m ∧ m ≤ 12) (hd : 1 ≤ d ∧ d ≤ monthLen y m) :
    (d < monthLen y m → daysOfCivil y m (d + 1) = daysOfCivil y m d + 1) ∧
    (d = monthLen y m → m < 12 → daysOfCivil y (m + 1) 1 = daysOfCivil y m d + 1) ∧
    (d = monthLen y m → m = 12 → daysOfCivil (y + 1) 1 1 = daysOfCivil y m d + 1) := by
  refine ⟨fun _ => ?_, fun hd' hm' => ?_, fun hd' hm' => ?_⟩
  · simp only [daysOfCivil]; omega
  · subst hd'
    have hs := year_step (y - 1)
    simp only [Int.sub_add_cancel] at hs
    have hm12 : m = 1 ∨ m = 2 ∨ m = 3 ∨ m = 4 ∨ m = 5 ∨ m = 6 ∨ m = 7 ∨ m = 8 ∨ m = 9 ∨ m = 10 ∨ m = 11 := by omega
    rcases hm12 with h | h | h | h | h | h | h | h | h | h | h <;> subst h <;>
      simp only [daysOfCivil, monthLen] <;> (try split at hs) <;> simp_all <;> omega
  · subst hd'; subst hm'
    simp only [daysOfCivil, monthLen]
    simp; omega
theorem daysOfCivil_epoch : daysOfCivil 1970 1 1 = 0 := by decide

/-- `civilOfDays` is injective: different days have different dates. -/
theorem civil_injective (z z' : Int) (h : civilOfDays z = civilOfDays z') : z = z' := by
  rw [← civil_roundtrip z, ← civil_roundtrip z', h]

/-- **The date is a valid Gregorian date**: month 1..12, day 1..length of that month (`monthLen`: 28/29 for
    February by the leap rule `isLeap`, 30 for April, June, September, November, else 31). -/
theorem civil_valid (z : Int) :
    1 ≤ (civilOfDays z).month ∧ (civilOfDays z).month ≤ 12 ∧
    1 ≤ (civilOfDays z).day ∧ (civilOfDays z).day ≤ monthLen (civilOfDays z).year (civilOfDays z).month :=
  parts_valid _ _ _ _ _ (parts_ok z)

/-- **Day of the year**: the zero-based count of days since January 1 of the same civil year. -/
theorem doy_eq (z : Int) : (civilOfDays z).doy = z - daysOfCivil (civilOfDays z).year 1 1 :=
  parts_doy _ _ _ _ _ (parts_ok z)

/-- The leap rule: every fourth year except centuries not divisible by 400. -/
theorem leap_rule (y : Int) : isLeap y = true ↔ (y % 4 = 0 ∧ (y % 100 ≠ 0 ∨ y % 400 = 0)) := isLeap_iff y

/-- Day of the year is inside the year: `0 .. 364`, or `0 .. 365` in a leap year. -/
theorem doy_range (z : Int) :
    0 ≤ (civilOfDays z).doy ∧ (civilOfDays z).doy ≤ (if isLeap (civilOfDays z).year then 365 else 364) := by
  obtain ⟨_, _, d0, d1, hl, _, _⟩ := parts_ok z
  have hm := month_parts _ d0 d1
  simp only [civilOfDays, civilOfParts]
  by_cases hlt : mpOf (doyMarOf (doeOf z)) < 10
  · have h3 : ¬ (mpOf (doyMarOf (doeOf z)) + 3 ≤ 2) := by omega
    simp only [hlt, if_true, h3, if_false]
    generalize isLeap _ = L
    cases L <;> simp <;> omega
  · have h3 : mpOf (doyMarOf (doeOf z)) - 9 ≤ 2 := by omega
    simp only [hlt, if_false, h3, if_true]
    by_cases hleap : isLeap (yoeOf (doeOf z) + eraOf z * 400 + 1) = true
    · simp only [hleap, if_true]; omega
    · have hne : doyMarOf (doeOf z) ≠ 365 := by
        intro h365
        have := hl h365
        rw [isLeap_iff] at hleap
        omega
      simp only [hleap]; simp; omega

/-- Day of the week: `0 .. 6`, Thursday (4) on 1970-01-01, advancing by one each day. -/
theorem dow_range (z : Int) : 0 ≤ dowOfDays z ∧ dowOfDays z ≤ 6 := by unfold dowOfDays; omega
theorem dow_succ (z : Int) : dowOfDays (z + 1) = (dowOfDays z + 1) % 7 := by unfold dowOfDays; omega
theorem dow_epoch : dowOfDays 0 = 4 := by decide
theorem dow_week (z : Int) : dowOfDays (z + 7) = dowOfDays z := by unfold dowOfDays; omega

/-! ## 3. the accessors -/

/-- The local second count an accessor looks at. -/
def localSecs (t off : Int) : Int := secsOf t + off

/-- **Documented bases and ranges** of the ten fields (for any offset; `off = 0` is UTC). -/
theorem field_ranges (ls sn : Int) (hsn : 0 ≤ sn ∧ sn < 1000000000) :
    0 ≤ civilField .month ls sn ∧ civilField .month ls sn ≤ 11 ∧
    0 ≤ civilField .dayOfMonth ls sn ∧ civilField .dayOfMonth ls sn ≤ 30 ∧
    civilField .date ls sn = civilField .dayOfMonth ls sn + 1 ∧
    0 ≤ civilField .dayOfYear ls sn ∧ civilField .dayOfYear ls sn ≤ 365 ∧
    0 ≤ civilField .dayOfWeek ls sn ∧ civilField .dayOfWeek ls sn ≤ 6 ∧
    0 ≤ civilField .hours ls sn ∧ civilField .hours ls sn ≤ 23 ∧
    0 ≤ civilField .minutes ls sn ∧ civilField .minutes ls sn ≤ 59 ∧
    0 ≤ civilField .seconds ls sn ∧ civilField .seconds ls sn ≤ 59 ∧
    0 ≤ civilField .millis ls sn ∧ civilField .millis ls sn ≤ 999 := by
  have hv := civil_valid (ls / 86400)
  have hdy := doy_range (ls / 86400)
  have hw := dow_range (ls / 86400)
  have hml : monthLen (civilOfDays (ls / 86400)).year (civilOfDays (ls / 86400)).month ≤ 31 := by
    unfold monthLen; repeat' split
    all_goals omega
  have hdy' : (civilOfDays (ls / 86400)).doy ≤ 365 := by
    have := hdy.2; split at this <;> omega
  simp only [civilField]
  omega

/-- The sub-second part of an instant is in `0 .. 999 999 999` (so `field_ranges` applies to `accUtc`/`accAt`). -/
theorem subNanos_range (t : Int) : 0 ≤ subNanosOf t ∧ subNanosOf t < 1000000000 := by
  unfold subNanosOf nsPerSec; omega

/-- **The fields are the civil time of the instant**: year, month, date, hours, minutes, seconds put back
    together by `daysOfCivil` give the local second count, and the day of the week / day of the year are
    those of that day. -/
theorem fields_determine_instant (ls sn : Int) :
    daysOfCivil (civilField .fullYear ls sn) (civilField .month ls sn + 1) (civilField .date ls sn) * 86400
      + civilField .hours ls sn * 3600 + civilField .minutes ls sn * 60 + civilField .seconds ls sn = ls ∧
    civilField .dayOfWeek ls sn = dowOfDays (ls / 86400) ∧
    civilField .dayOfYear ls sn = ls / 86400 - daysOfCivil (civilField .fullYear ls sn) 1 1 := by
  have hr := civil_roundtrip (ls / 86400)
  have hdoy := doy_eq (ls / 86400)
  refine ⟨?_, rfl, ?_⟩
  · simp only [civilField, Int.sub_add_cancel]; rw [hr]; omega
  · simp only [civilField]; exact hdoy

/-- The zoned accessor is the UTC accessor of the instant shifted by the zone's offset (plus the bias the
    code has for `getDayOfWeek`). -/
theorem zoned_is_shifted_utc (f : Field) (off t : Int) :
    accAt f off t = accUtc f (t + off * nsPerSec) + zonedBias f := by
  have h1 : secsOf (t + off * nsPerSec) = secsOf t + off := by unfold secsOf nsPerSec; omega
  have h2 : subNanosOf (t + off * nsPerSec) = subNanosOf t := by unfold subNanosOf nsPerSec; omega
  unfold accAt accUtc; rw [h1, h2]

/-! ### the registered functions (`#[dispatch]`) -/

theorem call_zoneless (db : ZoneDb) (f : Field) (t : Int) :
    callAcc db f (.ts t) [] = .int (accUtc f t) := by
  cases f <;> simp [callAcc, accOverloads, durField, dispatch, Overload.accepts, argsMatch, Tag.matches]

theorem call_zoned (db : ZoneDb) (f : Field) (t : Int) (z : Str) :
    callAcc db f (.ts t) [.str z] = accZone db f z t := by
  cases f <;> simp [callAcc, accOverloads, durField, dispatch, Overload.accepts, argsMatch, Tag.matches]

theorem call_duration (db : ZoneDb) (f : Field) (n : Int) :
    callAcc db f (.dur n) [] = match durField f with | some g => .int (g n) | none => .err .argument := by
  cases f <;> simp [callAcc, accOverloads, durField, dispatch, Overload.accepts, argsMatch, Tag.matches]

/-- **Zone-less = zone "UTC"** (any zone whose offset at `t` is 0) for every accessor except
    `getDayOfWeek`. -/
theorem zoneless_eq_utc (db : ZoneDb) (f : Field) (hf : f ≠ .dayOfWeek) (z : Str) (t : Int)
    (hutc : db z t = some 0) :
    callAcc db f (.ts t) [.str z] = callAcc db f (.ts t) [] := by
  rw [call_zoned, call_zoneless, accZone, hutc]
  cases f <;> first | exact absurd rfl hf | simp [accAt, accUtc, zonedBias]

/-- **Unknown zones fail** (Argument error), for every accessor. -/
theorem unknown_zone_err (db : ZoneDb) (f : Field) (z : Str) (t : Int) (h : db z t = none) :
    callAcc db f (.ts t) [.str z] = .err .argument := by
  rw [call_zoned, accZone, h]

/-- With a known zone every accessor except `getDayOfWeek` returns the documented civil field of the
    instant in that zone. -/
theorem zoned_documented (db : ZoneDb) (f : Field) (hf : f ≠ .dayOfWeek) (z : Str) (t off : Int)
    (h : db z t = some off) :
    callAcc db f (.ts t) [.str z] = .int (civilField f (localSecs t off) (subNanosOf t)) := by
  rw [call_zoned, accZone, h]
  cases f <;> first | exact absurd rfl hf | simp [accAt, zonedBias, localSecs]

/-- … and the zone-less call returns the documented civil field in UTC, for all ten. -/
theorem zoneless_documented (db : ZoneDb) (f : Field) (t : Int) :
    callAcc db f (.ts t) [] = .int (civilField f (localSecs t 0) (subNanosOf t)) := by
  rw [call_zoneless]; simp [accUtc, localSecs]

namespace Pinned
/-- **Recorded finding (DESIGN.md §8 item 21), faithful to the code**: with a zone argument `getDayOfWeek`
    returns the documented value **+ 1** (`number_from_sunday`), so it ranges over `1 .. 7` and differs from
    the zone-less form even for UTC.  The existing test suite pins this value, so it is not repaired. -/
theorem dow_zone_off_by_one (db : ZoneDb) (z : Str) (t off : Int) (h : db z t = some off) :
    callAcc db .dayOfWeek (.ts t) [.str z] = .int (civilField .dayOfWeek (localSecs t off) (subNanosOf t) + 1) := by
  rw [call_zoned, accZone, h]; simp [accAt, zonedBias, localSecs]

/-- The negation witness of `zoneless_eq_utc` for `getDayOfWeek`: never equal. -/
theorem dow_zoneless_ne_utc (db : ZoneDb) (z : Str) (t : Int) (hutc : db z t = some 0) :
    callAcc db .dayOfWeek (.ts t) [.str z] ≠ callAcc db .dayOfWeek (.ts t) [] := by
  rw [dow_zone_off_by_one db z t 0 hutc, call_zoneless]
  simp [accUtc, localSecs]; omega
end Pinned

/-! ## 4. duration accessors -/

theorem tdiv_of_nonneg {n : Int} (k : Int) (h : 0 ≤ n) : Int.tdiv n k = n / k :=
  Int.tdiv_eq_ediv_of_nonneg h

theorem nonneg_parts (n : Int) :
    n / 1000000000 / 60 = n / 60000000000 ∧
      n / 1000000000 / 3600 = n / 3600000000000 ∧
        n / 1000000000 * 1000 + n % 1000000000 / 1000000 = n / 1000000 ∧
          0 ≤ n % 1000000000 / 1000000 ∧ n % 1000000000 / 1000000 ≤ 999 := by
  refine ⟨?_, ?_, by omega, by omega, by omega⟩
  · rw [Int.ediv_ediv_of_nonneg (by decide : (0:Int) ≤ 1000000000)]; rfl
  · rw [Int.ediv_ediv_of_nonneg (by decide : (0:Int) ≤ 1000000000)]; rfl

/-- **Whole seconds, minutes, hours of the total, truncated toward zero; sub-second milliseconds.**
    `seconds·1000 + millis` is the whole-millisecond total. -/
theorem dur_accessors (n : Int) :
    durSeconds n = Int.tdiv n 1000000000 ∧
    durMinutes n = Int.tdiv n 60000000000 ∧
    durHours n = Int.tdiv n 3600000000000 ∧
    durSeconds n * 1000 + durMillis n = Int.tdiv n 1000000 ∧
    -999 ≤ durMillis n ∧ durMillis n ≤ 999 := by
  unfold durMinutes durHours durMillis durSubNanos durSeconds nsPerSec
  by_cases h : 0 ≤ n
  · have h1 : 0 ≤ n / 1000000000 := by omega
    have h2 : 0 ≤ n % 1000000000 := by omega
    have hp := nonneg_parts n
    simp only [tdiv_of_nonneg _ h, Int.tmod_eq_emod_of_nonneg h, tdiv_of_nonneg _ h1, tdiv_of_nonneg _ h2]
    exact ⟨trivial, hp.1, hp.2.1, hp.2.2.1, by omega, by omega⟩
  · have hn : n = -(-n) := by omega
    generalize -n = m at *
    subst hn
    have hm : 0 ≤ m := by omega
    have h1 : 0 ≤ m / 1000000000 := by omega
    have h2 : 0 ≤ m % 1000000000 := by omega
    have hp := nonneg_parts m
    simp only [Int.neg_tdiv, Int.neg_tmod, tdiv_of_nonneg _ hm, Int.tmod_eq_emod_of_nonneg hm, tdiv_of_nonneg _ h1,
      tdiv_of_nonneg _ h2]
    obtain ⟨p1, p2, p3, p4, p5⟩ := hp
    rw [p1, p2]
    refine ⟨trivial, rfl, rfl, ?_, ?_, ?_⟩ <;> omega

/-- Negating a duration negates every accessor (truncation toward zero is symmetric). -/
theorem dur_accessors_neg (n : Int) :
    durSeconds (-n) = -durSeconds n ∧ durMinutes (-n) = -durMinutes n ∧ durHours (-n) = -durHours n ∧
    durMillis (-n) = -durMillis n := by
  simp [durSeconds, durMinutes, durHours, durMillis, durSubNanos, Int.neg_tdiv, Int.neg_tmod]

/-- Calendar accessors do not apply to durations; the four time accessors do. -/
theorem dur_call (db : ZoneDb) (n : Int) :
    callAcc db .hours (.dur n) [] = .int (durHours n) ∧ callAcc db .minutes (.dur n) [] = .int (durMinutes n) ∧
    callAcc db .seconds (.dur n) [] = .int (durSeconds n) ∧ callAcc db .millis (.dur n) [] = .int (durMillis n) ∧
    callAcc db .fullYear (.dur n) [] = .err .argument ∧ callAcc db .dayOfWeek (.dur n) [] = .err .argument := by
  simp [call_duration, durField]

/-! ## 5. unit conversion over exact rationals -/

theorem scale_ne_zero (u : U) : u.scale ≠ 0 := by
  cases u <;> simp [U.scale, poundKg, gallonM3, bushelM3, cubicInch] <;> grind

/-- **Identity for equal units.** -/
theorem conv_id (x : Rat) (a : U) : conv x a a = x := by
  have h := scale_ne_zero a
  unfold conv U.ofBase U.toBase
  grind

/-- **Invertible**: converting back returns the value. -/
theorem conv_inverse (x : Rat) (a b : U) : conv (conv x a b) b a = x := by
  have h := scale_ne_zero a
  have h' := scale_ne_zero b
  unfold conv U.ofBase U.toBase
  grind

/-- **Transitive**: going through an intermediate unit is the direct conversion. -/
theorem conv_trans (x : Rat) (a b c : U) : conv (conv x a b) b c = conv x a c := by
  have h' := scale_ne_zero b
  unfold conv U.ofBase U.toBase
  grind

/-- Within the linear categories conversion is multiplication by the ratio of the factors. -/
theorem conv_linear (x : Rat) (a b : U) (ha : a.shift = 0) (hb : b.shift = 0) :
    conv x a b = x * (a.scale / b.scale) := by
  have h' := scale_ne_zero b
  unfold conv U.ofBase U.toBase
  rw [ha, hb]; grind

/-- **Agreement with the exact unit definitions** (the legal definitions, as exact rationals). -/
theorem conv_def :
    conv 1 .pound .kilogram = 45359237 / 100000000 ∧          -- 1 lb = 0.45359237 kg
    conv 1 .pound .ounce = 16 ∧ conv 1 .stone .pound = 14 ∧
    conv 1 .ton .kilogram = 1000 ∧ conv 1 .kilogram .gram = 1000 ∧ conv 1 .gram .milligram = 1000 ∧
    conv 1 .slug .kilogram = 45359237 * 980665 / (3048 * 10 ^ 9) ∧  -- lbf·s²/ft
    conv 1 .gallon .liter = 3785411784 / 1000000000 ∧        -- 231 in³
    conv 1 .gallon .quartLiquid = 4 ∧ conv 1 .quartLiquid .pintLiquid = 2 ∧ conv 1 .pintLiquid .cup = 2 ∧
    conv 1 .cup .fluidOunce = 8 ∧ conv 1 .fluidOunce .tablespoon = 2 ∧ conv 1 .tablespoon .teaspoon = 3 ∧
    conv 1 .quartDry .pintDry = 2 ∧ conv 32 .quartDry .liter = 3523907016688 / 100000000000 ∧  -- bushel
    conv 1 .cubicMeter .liter = 1000 ∧ conv 1 .liter .milliliter = 1000 ∧
    conv 1 .cubicYard .cubicFoot = 27 ∧ conv 1 .cubicFoot .liter = 28316846592 / 1000000000 ∧
    conv 36 .kilometerPerHour .meterPerSecond = 10 ∧ conv 1 .milePerHour .meterPerSecond = 44704 / 100000 ∧
    conv 1 .footPerSecond .meterPerSecond = 3048 / 10000 ∧ conv 1 .knot .kilometerPerHour = 1852 / 1000 ∧
    conv 15 .milePerHour .footPerSecond = 22 ∧
    conv 0 .celsius .kelvin = 27315 / 100 ∧ conv 0 .celsius .fahrenheit = 32 ∧
    conv 100 .celsius .fahrenheit = 212 ∧ conv (-40) .fahrenheit .celsius = -40 ∧
    conv 0 .kelvin .fahrenheit = -45967 / 100 := by
  simp only [conv, U.ofBase, U.toBase, U.scale, U.shift, poundKg, gallonM3, bushelM3, cubicInch]
  refine ⟨?_, ?_, ?_, ?_, ?_, ?_, ?_, ?_, ?_, ?_, ?_, ?_, ?_, ?_, ?_, ?_, ?_, ?_, ?_, ?_, ?_, ?_, ?_, ?_, ?_, ?_, ?_, ?_, ?_, ?_⟩ <;>
    grind

/-- **Errors exactly for unknown names or different categories.** -/
theorem conv_err_iff (x : Rat) (f t : Str) :
    (∃ k, convertNamed x f t = .error k) ↔
      (unitOfName f = none ∨ unitOfName t = none ∨
        ∃ a b, unitOfName f = some a ∧ unitOfName t = some b ∧ a.cat ≠ b.cat) := by
  unfold convertNamed
  cases hf : unitOfName f with
  | none => simp
  | some a =>
    cases ht : unitOfName t with
    | none => simp
    | some b =>
      by_cases hc : a.cat = b.cat <;> simp [hc]

/-- The error is an Argument error, and a successful conversion is the exact one. -/
theorem convertNamed_spec (x : Rat) (f t : Str) :
    (∀ k, convertNamed x f t = .error k → k = .argument) ∧
    (∀ r, convertNamed x f t = .ok r →
      ∃ a b, unitOfName f = some a ∧ unitOfName t = some b ∧ a.cat = b.cat ∧ r = conv x a b) := by
  unfold convertNamed
  cases hf : unitOfName f with
  | none => simp
  | some a =>
    cases ht : unitOfName t with
    | none => simp
    | some b =>
      by_cases hc : a.cat = b.cat <;> simp [hc]

/-- The value argument: a finite double is taken exactly, a non-number is an Argument error. -/
theorem uom_value_types (f t : Str) (s : Str) (b : Bool) :
    (match uomConvert (.str s) (.str f) (.str t) with | .err .argument => True | _ => False) ∧
    (match uomConvert (.bool b) (.str f) (.str t) with | .err .argument => True | _ => False) ∧
    (match uomConvert .null (.str f) (.str t) with | .err .argument => True | _ => False) := by
  simp [uomConvert]

/-! ## non-vacuity (tests on literals) -/

example : inTs 0 = true ∧ inTs (0 + 1000000000) = true := by decide
example : inTs tsMax = true ∧ inTs (tsMax + 1) = false := by decide
example : arith .add (.ts tsMax) (.dur 1) = .err .value := by rfl
example : inDur 5 = true ∧ inDur (5 + 7) = true := by decide
example : inTs (0 - 5) = true ∧ inTs (tsMin - 1) = false ∧ inDur (durMax + 1) = false ∧ inDur (-durMax - 1) = false := by decide
example : monthLen 2024 2 = 29 ∧ monthLen 1900 2 = 28 ∧ monthLen 2000 2 = 29 ∧ monthLen 2023 4 = 30 := by decide
example : (1 : Int) ≤ 2 ∧ (2 : Int) ≤ 12 ∧ (1 : Int) ≤ 29 ∧ (29 : Int) ≤ monthLen 2024 2 := by decide
example : daysOfCivil 2024 3 1 = daysOfCivil 2024 2 29 + 1 ∧ daysOfCivil 2025 1 1 = daysOfCivil 2024 12 31 + 1 := by decide
example : civilOfDays 0 = { year := 1970, month := 1, day := 1, doy := 0 } := by decide
example : civilOfDays 11016 = { year := 2000, month := 2, day := 29, doy := 59 } := by decide
example : civilOfDays (-1) = { year := 1969, month := 12, day := 31, doy := 364 } := by decide
example : civilOfDays (-719528) = { year := 0, month := 1, day := 1, doy := 0 } := by decide
example : daysOfCivil 2024 1 10 = 19732 ∧ dowOfDays 19732 = 3 := by decide
-- the instant of the existing test (2024-01-10T08:57:45.123Z, a Wednesday): zone-less 3, zoned 4
example : callAcc (fun _ _ => some (-28800)) .dayOfWeek (.ts 1704877065123000000) [] = .int 3 := by rfl
example : callAcc (fun _ _ => some (-28800)) .dayOfWeek (.ts 1704877065123000000) [.str "US/Pacific".toList] = .int 4 := by
  rfl
example : callAcc (fun _ _ => some (-28800)) .hours (.ts 1704877065123000000) [.str "US/Pacific".toList] = .int 0 := by
  rfl
example : callAcc (fun _ _ => none) .hours (.ts 0) [.str "Nowhere".toList] = .err .argument := by rfl
example : (fun (_ : Str) (_ : Int) => some (0 : Int)) "UTC".toList 5 = some 0 ∧ Field.month ≠ Field.dayOfWeek := by decide
example : durSeconds (-1500000000) = -1 ∧ durMillis (-1500000000) = -500 ∧ durHours (-3599000000000) = 0 := by decide
example : unitOfName " °C ".toList = some .celsius ∧ unitOfName "LBS".toList = some .pound ∧ unitOfName "xx".toList = none := by
  decide
example : U.kelvin.shift = 0 ∧ U.pound.shift = 0 := by decide

end C16
end Rscel
