import RscelModel.Lemmas.LexLoc
import RscelModel.Lemmas.ParseLoc
import RscelModel.Lemmas.ParseSpans
import RscelModel.Model.Spans
/-
C18 — Syntax-tree spans are exact and nested; syntax errors point inside the source.

What is proved here, and about what:

* **Scanner / tokenizer model, all inputs** (`Model/Lex.lean`, tied to `string_scanner.rs` /
  `string_tokenizer.rs` by the token-stream correspondence run): `loc_valid` (the scanner's (line, column)
  is always a position of the text), `tokens_increasing_disjoint`, `tokens_pairwise_disjoint`,
  `token_spans_in_source`, `lex_error_in_source`.
* **Parser model, all inputs** (`Model/Parse.lean`, run on the lazy tokenizer exactly as `CelCompiler` runs on
  `StringTokenizer`): `syntax_error_in_source` — whatever text is given, a syntax error of `parseProgram`
  carries a line and column within the source or at the end of one of its lines (induction over the common
  fuel of the 22 mutually recursive `parse*` functions, `Lemmas/ParseLoc.lean`: every error location is one
  the token source handed out — its current location, a token's start, or a lexical error);
  `span_in_source` — every span anywhere in the tree `parseProgram` returns (all node kinds, operator runs,
  member names, match cases and patterns included) starts and ends at a position of the source
  (`Lemmas/ParseSpans.lean`, same induction).
* **The span checker** (`Model/Spans.lean`): `SpanTree.check` is proved to imply the nested / disjoint /
  in-source statements of the property for *every* node of the tree (`check_child_within_parent`,
  `check_descendant_within`, `check_siblings_disjoint`, `check_unrelated_disjoint`, `check_span_in_source`,
  `checkRoot_trimmed`).  The checker is then *run* by the driver (`spancheck`) on the span tree of every
  real `Program::ast()` of the run — a verified checker on the real artefact; it is not a theorem that the
  parser always produces trees that pass.
* Not proved: `token_relex`, `reparse_subtree` (slice-and-recompile) — these are checked on the real code's
  output by the model-free oracle of the facet and by model/implementation comparison.
-/
namespace Rscel.C18
open Rscel

/-! ## scanner and tokenizer -/

/-- **Scanner location invariant.**  Start the scanner on `src` and let it read any number of characters
    (`Reach src s`: `s` is a state reached from the start): the location it reports is a position of
    `src` — an existing line, and a column at most the length of that line. -/
theorem loc_valid (src : List Char) (s : Scan) (h : Reach src s) : s.loc.validIn src = true :=
  Reach.valid h

example : Reach "a\nbc".toList ⟨"c".toList, ⟨1, 1⟩⟩ := ⟨"a\nb".toList, by decide, by decide⟩

/-- every `PosFrom` location of the initial state is a valid position -/
theorem posFrom_valid {src : List Char} {l : Loc} (h : PosFrom ⟨src, ⟨0, 0⟩⟩ l) : l.validIn src = true := by
  obtain ⟨s', hs, rfl⟩ := h
  exact Reach.valid hs

/-- **Token spans increase and do not overlap** (all inputs): in the token stream of any text every
    token's span is non-empty (`start < end`) and ends no later than the next token's span starts. -/
theorem tokens_increasing_disjoint (src : List Char) (L : Lexed) (h : tokenize src = .ok L) :
    SpansFrom ⟨0, 0⟩ (L.toks.map (·.2)) := by
  have := tokenizeGo_spec (src.length + 2) ⟨src, ⟨0, 0⟩⟩ []
  unfold tokenize at h
  rw [h] at this
  obtain ⟨new, hl, hsp, _, _⟩ := this
  simp only [List.reverse_nil, List.nil_append] at hl
  rw [hl]; exact hsp

/-- The same as a pairwise statement: any earlier token ends no later than any later token starts. -/
theorem tokens_pairwise_disjoint (src : List Char) (L : Lexed) (h : tokenize src = .ok L) :
    (L.toks.map (·.2)).Pairwise (fun a b => a.e.leP b.s) :=
  (SpansFrom.pairwise (tokens_increasing_disjoint src L h)).1

/-- **Token spans lie in the source** (all inputs), and so does the end-of-input location. -/
theorem token_spans_in_source (src : List Char) (L : Lexed) (h : tokenize src = .ok L) :
    (∀ t ∈ L.toks, t.2.s.validIn src = true ∧ t.2.e.validIn src = true) ∧ L.eofLoc.validIn src = true := by
  have := tokenizeGo_spec (src.length + 2) ⟨src, ⟨0, 0⟩⟩ []
  unfold tokenize at h
  rw [h] at this
  obtain ⟨new, hl, _, hpos, heof⟩ := this
  simp only [List.reverse_nil, List.nil_append] at hl
  refine ⟨?_, posFrom_valid heof⟩
  intro t ht
  rw [hl] at ht
  exact ⟨posFrom_valid (hpos t ht).1, posFrom_valid (hpos t ht).2⟩

/-- **A lexical error points into the source** (all inputs): line and column of the reported location lie
    within the source or immediately at the end of one of its lines. -/
theorem lex_error_in_source (src : List Char) (e : LexErr) (h : tokenize src = .error e) :
    e.loc.validIn src = true := by
  have := tokenizeGo_spec (src.length + 2) ⟨src, ⟨0, 0⟩⟩ []
  unfold tokenize at h
  rw [h] at this
  exact posFrom_valid this

example : (match tokenize "a\n 'x".toList with | .error e => e.loc | .ok _ => ⟨0, 0⟩) = ⟨1, 3⟩ := by decide

/-! ## parser -/

/-- **A syntax error points into the source** (all inputs): if compiling `src` fails in the parser or in
    the tokenizer underneath it, the reported line exists in `src` and the column is at most the length of
    that line. -/
theorem syntax_error_in_source (src : List Char) (e : PErr) (h : parseProgram lazySrc src = .error e) :
    e.loc.validIn src = true :=
  posFrom_valid (parseProgram_err (lazySrc_ok src) src (lazySrc_init src) h)

example : (match parseProgram lazySrc "+".toList with | .error e => e.loc | .ok _ => ⟨9, 9⟩) = ⟨0, 1⟩ := by
  decide

/-- **Every span of the syntax tree lies inside the source** (all inputs): whatever text compiles, each
    span recorded anywhere in its tree starts and ends at a position of the text (an existing line, a column
    at most the length of that line). -/
theorem span_in_source (src : List Char) (a : Ast) (h : parseProgram lazySrc src = .ok a) :
    ∀ sp ∈ spansOf a, sp.s.validIn src = true ∧ sp.e.validIn src = true := by
  intro sp hsp
  have := parseProgram_spans (lazySrc_ok src) src (lazySrc_init src) h sp hsp
  exact ⟨posFrom_valid this.s, posFrom_valid this.e⟩

example : (match parseProgram lazySrc "x".toList with | .ok a => spansOf a | .error _ => []) =
    [⟨⟨0, 0⟩, ⟨0, 1⟩⟩, ⟨⟨0, 0⟩, ⟨0, 1⟩⟩] := by decide

/-! ## the span checker -/

/-- `d` is `t` itself or a node below it. -/
inductive Desc : SpanTree → SpanTree → Prop
  | refl (t : SpanTree) : Desc t t
  | kid {d k : SpanTree} {sp : Span} {kids : List SpanTree} : k ∈ kids → Desc d k → Desc d (.node sp kids)

theorem checkAll_mem {src : List Char} : ∀ {kids : List SpanTree}, SpanTree.checkAll src kids = true →
    ∀ k ∈ kids, k.check src = true
  | [], _, _, hk => by cases hk
  | k :: rest, h, x, hx => by
    simp only [SpanTree.checkAll, Bool.and_eq_true] at h
    rcases List.mem_cons.mp hx with rfl | hx
    · exact h.1
    · exact checkAll_mem h.2 x hx

theorem pairwiseBefore_spec : ∀ {kids : List SpanTree}, pairwiseBefore kids = true →
    kids.Pairwise (fun a b => a.span.before b.span = true)
  | [], _ => List.Pairwise.nil
  | k :: rest, h => by
    simp only [pairwiseBefore, Bool.and_eq_true, List.all_eq_true] at h
    exact List.Pairwise.cons h.1 (pairwiseBefore_spec h.2)

/-- What the checker establishes at one node. -/
theorem check_node {src : List Char} {sp : Span} {kids : List SpanTree}
    (h : (SpanTree.node sp kids).check src = true) :
    sp.wf = true ∧ sp.s.validIn src = true ∧ sp.e.validIn src = true ∧
    (∀ k ∈ kids, k.span.within sp = true) ∧
    kids.Pairwise (fun a b => a.span.before b.span = true) ∧
    (∀ k ∈ kids, k.check src = true) := by
  simp only [SpanTree.check, Bool.and_eq_true, List.all_eq_true] at h
  obtain ⟨⟨⟨⟨⟨h1, h2⟩, h3⟩, h4⟩, h5⟩, h6⟩ := h
  exact ⟨h1, h2, h3, h4, pairwiseBefore_spec h5, checkAll_mem h6⟩

/-- The checker accepts every node below an accepted node. -/
theorem check_desc {src : List Char} {t d : SpanTree} (hd : Desc d t) (h : t.check src = true) :
    d.check src = true := by
  induction hd with
  | refl => exact h
  | kid hk _ ih => exact ih ((check_node h).2.2.2.2.2 _ hk)

theorem within_trans {a b c : Span} (h1 : a.within b = true) (h2 : b.within c = true) : a.within c = true := by
  simp only [Span.within, Bool.and_eq_true, ← Loc.leP_iff_le] at *
  exact ⟨Loc.leP_trans h2.1 h1.1, Loc.leP_trans h1.2 h2.2⟩

theorem within_refl (a : Span) : a.within a = true := by
  simp [Span.within, ← Loc.leP_iff_le, Loc.leP_refl]

/-- **A child's span is contained in its parent's** — at every node of an accepted tree. -/
theorem check_child_within_parent {src : List Char} {t : SpanTree} (h : t.check src = true)
    {sp : Span} {kids : List SpanTree} (hd : Desc (.node sp kids) t) :
    ∀ k ∈ kids, k.span.within sp = true :=
  (check_node (check_desc hd h)).2.2.2.1

/-- **Every node's span is contained in the span of every node above it**, in particular in the root's. -/
theorem check_descendant_within {src : List Char} {t d : SpanTree} (hd : Desc d t) (h : t.check src = true) :
    d.span.within t.span = true := by
  induction hd with
  | refl => exact within_refl _
  | @kid k sp kids hk _ ih =>
    have hn := check_node h
    exact within_trans (ih (hn.2.2.2.2.2 _ hk)) (hn.2.2.2.1 _ hk)

/-- **Sibling spans are disjoint and in order** — at every node of an accepted tree: of two children of
    one node, the earlier one ends no later than the later one starts. -/
theorem check_siblings_disjoint {src : List Char} {t : SpanTree} (h : t.check src = true)
    {sp : Span} {kids : List SpanTree} (hd : Desc (.node sp kids) t) :
    kids.Pairwise (fun a b => a.span.before b.span = true) :=
  (check_node (check_desc hd h)).2.2.2.2.1

theorem before_of_within {a b a' b' : Span} (h : a.before b = true) (ha : a'.within a = true)
    (hb : b'.within b = true) : a'.before b' = true := by
  simp only [Span.within, Span.before, Bool.and_eq_true, ← Loc.leP_iff_le] at *
  exact Loc.leP_trans ha.2 (Loc.leP_trans h hb.1)

/-- **Nodes in different subtrees do not overlap**: if `a` and `b` are different children of an accepted
    node (`a` listed first), every node under `a` ends no later than every node under `b` starts. -/
theorem check_unrelated_disjoint {src : List Char} {sp : Span} {l1 l2 l3 : List SpanTree} {a b x y : SpanTree}
    (h : (SpanTree.node sp (l1 ++ a :: l2 ++ b :: l3)).check src = true)
    (hx : Desc x a) (hy : Desc y b) : x.span.before y.span = true := by
  have hn := check_node h
  have hab : a.span.before b.span = true := by
    have pw := hn.2.2.2.2.1
    rw [List.append_assoc, List.pairwise_append] at pw
    have pw2 := pw.2.1
    simp only [List.cons_append, List.pairwise_cons] at pw2
    exact pw2.1 b (by simp)
  have ca := hn.2.2.2.2.2 a (by simp)
  have cb := hn.2.2.2.2.2 b (by simp)
  exact before_of_within hab (check_descendant_within hx ca) (check_descendant_within hy cb)

/-- **Every span lies inside the source** and is a well-formed range (start ≤ end). -/
theorem check_span_in_source {src : List Char} {t d : SpanTree} (hd : Desc d t) (h : t.check src = true) :
    d.span.wf = true ∧ d.span.s.validIn src = true ∧ d.span.e.validIn src = true := by
  have := check_desc hd h
  cases d with
  | node sp kids =>
    have hn := check_node this
    exact ⟨hn.1, hn.2.1, hn.2.2.1⟩

/-- **The root spans the whole expression without surrounding white space.** -/
theorem checkRoot_trimmed {src : List Char} {t : SpanTree} (h : t.checkRoot src = true) :
    t.check src = true ∧ t.span = trimmedSpan src := by
  simp only [SpanTree.checkRoot, Bool.and_eq_true, beq_iff_eq] at h
  exact h

/-- non-vacuity: the tree of ` a +\n b` is accepted, a tree with overlapping children is not -/
example : (SpanTree.node ⟨⟨0, 1⟩, ⟨1, 2⟩⟩ [.node ⟨⟨0, 1⟩, ⟨0, 2⟩⟩ [], .node ⟨⟨1, 1⟩, ⟨1, 2⟩⟩ []]).checkRoot
    " a +\n b".toList = true := by decide
example : (SpanTree.node ⟨⟨0, 0⟩, ⟨0, 2⟩⟩ [.node ⟨⟨0, 0⟩, ⟨0, 2⟩⟩ [], .node ⟨⟨0, 1⟩, ⟨0, 2⟩⟩ []]).check
    "!x".toList = false := by decide

end Rscel.C18
