import RscelModel.Model.Params
import RscelModel.Model.Conv
/-
C17 — The reported parameter list covers every variable a program can read.

About the model's `params` (the union `identsOf` the compiler model propagates, `Model/Compile.lean` /
`Model/Params.lean`, tied to `Program::params()` by the correspondence run), for **every** syntax tree:

* `params_exact`   — a name is reported iff it occurs as an identifier primary somewhere in the tree
                      (`Mentions`, the declarative "occurs in" relation over all node kinds);
  `params_sound`   — the ⇒ half: nothing is reported that does not occur;
* `params_complete` — every name of the independent free-identifier computation `freeIdents`
                      (operands, call arguments and receivers, macro ranges and bodies, f-string segments,
                      index expressions, map keys and values, match scrutinee / patterns / arms, both
                      conditional branches) is reported;
* `params_nodup`;
* `filter_exact`, `filter_sublist` — `filter_from_bindings` removes exactly the names bound as parameter,
                      function or macro and keeps the rest in order.

Not proved here: the evaluation-relevance statement (two bindings that agree on all reported names give
the same result; binding every reported name avoids unbound-variable failures).  On the fragment of the
language for which compiler correctness is proved it is a theorem — `Theorems/C17Sem.lean`
(`params_sufficient_partial`, `exec_agree_on_params`, `unreported_irrelevant`,
`params_no_binding_error_partial`); for the other trees it is checked on the real code by the model-free
oracle of the facet (perturbation of every unreported identifier of the source,
bind-exactly-the-reported-names) and is the reason `freeIdents` is what it is.
-/
namespace Rscel.C17
open Rscel

/-! ## "occurs as an identifier primary" -/

mutual
inductive AstM (n : Str) : Ast → Prop
  | ternC {sp c t f} : AstM n c → AstM n (.tern sp c t f)
  | ternT {sp c t f} : AstM n t → AstM n (.tern sp c t f)
  | ternF {sp c t f} : AstM n f → AstM n (.tern sp c t f)
  | matchS {sp s cases} : AstM n s → AstM n (.match_ sp s cases)
  | matchC {sp s cases} : CasesM n cases → AstM n (.match_ sp s cases)
  | binL {sp op l r} : AstM n l → AstM n (.bin sp op l r)
  | binR {sp op l r} : AstM n r → AstM n (.bin sp op l r)
  | notRun {sp ops m} : AstM n m → AstM n (.notRun sp ops m)
  | negRun {sp ops m} : AstM n m → AstM n (.negRun sp ops m)
  | memberP {sp p chain} : PrimM n p → AstM n (.member sp p chain)
  | memberO {sp p chain} : OpsM n chain → AstM n (.member sp p chain)
inductive PrimM (n : Str) : Prim → Prop
  | ident {sp} : PrimM n (.ident sp n)
  | parens {sp e} : AstM n e → PrimM n (.parens sp e)
  | list {sp es} : ListM n es → PrimM n (.list sp es)
  | map {sp inits} : InitsM n inits → PrimM n (.map sp inits)
  | fstr {sp segs} : SegsM n segs → PrimM n (.fstr sp segs)
inductive OpsM (n : Str) : List MOp → Prop
  | callHere {sp args rest} : ListM n args → OpsM n (.call sp args :: rest)
  | indexHere {sp e rest} : AstM n e → OpsM n (.index sp e :: rest)
  | later {op rest} : OpsM n rest → OpsM n (op :: rest)
inductive ListM (n : Str) : List Ast → Prop
  | here {e es} : AstM n e → ListM n (e :: es)
  | later {e es} : ListM n es → ListM n (e :: es)
inductive InitsM (n : Str) : List MInit → Prop
  | key {sp k v rest} : AstM n k → InitsM n (.mk sp k v :: rest)
  | value {sp k v rest} : AstM n v → InitsM n (.mk sp k v :: rest)
  | later {i rest} : InitsM n rest → InitsM n (i :: rest)
inductive CasesM (n : Str) : List MCase → Prop
  | pattern {sp psp osp op e b rest} : AstM n e → CasesM n (.mk sp (.cmp psp osp op e) b :: rest)
  | arm {sp p b rest} : AstM n b → CasesM n (.mk sp p b :: rest)
  | later {c rest} : CasesM n rest → CasesM n (c :: rest)
inductive SegsM (n : Str) : List FSegAst → Prop
  | here {src e rest} : AstM n e → SegsM n (.expr src e :: rest)
  | later {s rest} : SegsM n rest → SegsM n (s :: rest)
end

/-- `n` occurs as an identifier primary somewhere in the tree `a` (at any depth, in any position,
    including the segments of format strings). -/
abbrev Mentions (a : Ast) (n : Str) : Prop := AstM n a

theorem mem_dedup {n : Str} : ∀ {l : List Str}, n ∈ dedup l ↔ n ∈ l
  | [] => by simp [dedup]
  | x :: xs => by
    have ih := @mem_dedup n xs
    simp only [dedup]
    split
    · rename_i hx
      rw [ih, List.mem_cons]
      constructor
      · exact Or.inr
      · rintro (rfl | h)
        · exact (@mem_dedup n xs).mp hx
        · exact h
    · rw [List.mem_cons, List.mem_cons, ih]

theorem nodup_dedup : ∀ (l : List Str), (dedup l).Nodup
  | [] => by simp [dedup]
  | x :: xs => by
    simp only [dedup]
    split
    · exact nodup_dedup xs
    · rename_i hx
      exact List.nodup_cons.mpr ⟨hx, nodup_dedup xs⟩

/-! ### identsOf ⇒ Mentions -/

mutual
theorem ast_sound {n : Str} : ∀ (a : Ast), n ∈ identsOf a → AstM n a
  | .tern _ c t f, h => by
    simp only [identsOf, List.mem_append] at h
    rcases h with (h | h) | h
    · exact .ternC (ast_sound c h)
    · exact .ternT (ast_sound t h)
    · exact .ternF (ast_sound f h)
  | .match_ _ s cases, h => by
    simp only [identsOf, List.mem_append] at h
    rcases h with h | h
    · exact .matchS (ast_sound s h)
    · exact .matchC (cases_sound cases h)
  | .bin _ _ l r, h => by
    simp only [identsOf, List.mem_append] at h
    rcases h with h | h
    · exact .binL (ast_sound l h)
    · exact .binR (ast_sound r h)
  | .notRun _ _ m, h => by simp only [identsOf] at h; exact .notRun (ast_sound m h)
  | .negRun _ _ m, h => by simp only [identsOf] at h; exact .negRun (ast_sound m h)
  | .member _ p chain, h => by
    simp only [identsOf, List.mem_append] at h
    rcases h with h | h
    · exact .memberP (prim_sound p h)
    · exact .memberO (ops_sound chain h)
theorem prim_sound {n : Str} : ∀ (p : Prim), n ∈ identsOfPrim p → PrimM n p
  | .ident _ m, h => by
    simp only [identsOfPrim, List.mem_singleton] at h
    subst h; exact .ident
  | .parens _ e, h => by simp only [identsOfPrim] at h; exact .parens (ast_sound e h)
  | .list _ es, h => by simp only [identsOfPrim] at h; exact .list (list_sound es h)
  | .map _ inits, h => by simp only [identsOfPrim] at h; exact .map (inits_sound inits h)
  | .fstr _ segs, h => by simp only [identsOfPrim] at h; exact .fstr (segs_sound segs h)
  | .null _, h | .int _ _, h | .uint _ _, h | .float _ _, h | .str _ _, h | .bytes _ _, h | .bool _ _, h => by
    simp [identsOfPrim] at h
theorem ops_sound {n : Str} : ∀ (l : List MOp), n ∈ identsOfOps l → OpsM n l
  | [], h => by simp [identsOfOps] at h
  | .access .. :: rest, h => by simp only [identsOfOps] at h; exact .later (ops_sound rest h)
  | .call _ args :: rest, h => by
    simp only [identsOfOps, List.mem_append] at h
    rcases h with h | h
    · exact .callHere (list_sound args h)
    · exact .later (ops_sound rest h)
  | .index _ e :: rest, h => by
    simp only [identsOfOps, List.mem_append] at h
    rcases h with h | h
    · exact .indexHere (ast_sound e h)
    · exact .later (ops_sound rest h)
theorem list_sound {n : Str} : ∀ (l : List Ast), n ∈ identsOfList l → ListM n l
  | [], h => by simp [identsOfList] at h
  | e :: es, h => by
    simp only [identsOfList, List.mem_append] at h
    rcases h with h | h
    · exact .here (ast_sound e h)
    · exact .later (list_sound es h)
theorem inits_sound {n : Str} : ∀ (l : List MInit), n ∈ identsOfInits l → InitsM n l
  | [], h => by simp [identsOfInits] at h
  | .mk _ k v :: rest, h => by
    simp only [identsOfInits, List.mem_append] at h
    rcases h with (h | h) | h
    · exact .key (ast_sound k h)
    · exact .value (ast_sound v h)
    · exact .later (inits_sound rest h)
theorem cases_sound {n : Str} : ∀ (l : List MCase), n ∈ identsOfCases l → CasesM n l
  | [], h => by simp [identsOfCases] at h
  | .mk _ (.cmp _ _ _ e) b :: rest, h => by
    simp only [identsOfCases, identsOfPat, List.mem_append] at h
    rcases h with (h | h) | h
    · exact .pattern (ast_sound e h)
    · exact .arm (ast_sound b h)
    · exact .later (cases_sound rest h)
  | .mk _ (.type ..) b :: rest, h => by
    simp only [identsOfCases, identsOfPat, List.mem_append, List.not_mem_nil, false_or] at h
    rcases h with h | h
    · exact .arm (ast_sound b h)
    · exact .later (cases_sound rest h)
  | .mk _ (.any _) b :: rest, h => by
    simp only [identsOfCases, identsOfPat, List.mem_append, List.not_mem_nil, false_or] at h
    rcases h with h | h
    · exact .arm (ast_sound b h)
    · exact .later (cases_sound rest h)
theorem segs_sound {n : Str} : ∀ (l : List FSegAst), n ∈ identsOfSegs l → SegsM n l
  | [], h => by simp [identsOfSegs] at h
  | .lit _ :: rest, h => by simp only [identsOfSegs] at h; exact .later (segs_sound rest h)
  | .expr _ e :: rest, h => by
    simp only [identsOfSegs, List.mem_append] at h
    rcases h with h | h
    · exact .here (ast_sound e h)
    · exact .later (segs_sound rest h)
end

/-! ### Mentions ⇒ identsOf -/

mutual
theorem ast_exact {n : Str} : ∀ {a : Ast}, AstM n a → n ∈ identsOf a
  | _, .ternC h => by simp only [identsOf, List.mem_append]; exact .inl (.inl (ast_exact h))
  | _, .ternT h => by simp only [identsOf, List.mem_append]; exact .inl (.inr (ast_exact h))
  | _, .ternF h => by simp only [identsOf, List.mem_append]; exact .inr (ast_exact h)
  | _, .matchS h => by simp only [identsOf, List.mem_append]; exact .inl (ast_exact h)
  | _, .matchC h => by simp only [identsOf, List.mem_append]; exact .inr (cases_exact h)
  | _, .binL h => by simp only [identsOf, List.mem_append]; exact .inl (ast_exact h)
  | _, .binR h => by simp only [identsOf, List.mem_append]; exact .inr (ast_exact h)
  | _, .notRun h => by simp only [identsOf]; exact ast_exact h
  | _, .negRun h => by simp only [identsOf]; exact ast_exact h
  | _, .memberP h => by simp only [identsOf, List.mem_append]; exact .inl (prim_exact h)
  | _, .memberO h => by simp only [identsOf, List.mem_append]; exact .inr (ops_exact h)
theorem prim_exact {n : Str} : ∀ {p : Prim}, PrimM n p → n ∈ identsOfPrim p
  | _, .ident => by simp [identsOfPrim]
  | _, .parens h => by simp only [identsOfPrim]; exact ast_exact h
  | _, .list h => by simp only [identsOfPrim]; exact list_exact h
  | _, .map h => by simp only [identsOfPrim]; exact inits_exact h
  | _, .fstr h => by simp only [identsOfPrim]; exact segs_exact h
theorem ops_exact {n : Str} : ∀ {l : List MOp}, OpsM n l → n ∈ identsOfOps l
  | _, .callHere h => by simp only [identsOfOps, List.mem_append]; exact .inl (list_exact h)
  | _, .indexHere h => by simp only [identsOfOps, List.mem_append]; exact .inl (ast_exact h)
  | .access .. :: _, .later h => by simp only [identsOfOps]; exact ops_exact h
  | .call .. :: _, .later h => by simp only [identsOfOps, List.mem_append]; exact .inr (ops_exact h)
  | .index .. :: _, .later h => by simp only [identsOfOps, List.mem_append]; exact .inr (ops_exact h)
theorem list_exact {n : Str} : ∀ {l : List Ast}, ListM n l → n ∈ identsOfList l
  | _, .here h => by simp only [identsOfList, List.mem_append]; exact .inl (ast_exact h)
  | _, .later h => by simp only [identsOfList, List.mem_append]; exact .inr (list_exact h)
theorem inits_exact {n : Str} : ∀ {l : List MInit}, InitsM n l → n ∈ identsOfInits l
  | _, .key h => by simp only [identsOfInits, List.mem_append]; exact .inl (.inl (ast_exact h))
  | _, .value h => by simp only [identsOfInits, List.mem_append]; exact .inl (.inr (ast_exact h))
  | .mk .. :: _, .later h => by simp only [identsOfInits, List.mem_append]; exact .inr (inits_exact h)
theorem cases_exact {n : Str} : ∀ {l : List MCase}, CasesM n l → n ∈ identsOfCases l
  | _, .pattern h => by
    simp only [identsOfCases, identsOfPat, List.mem_append]; exact .inl (.inl (ast_exact h))
  | _, .arm h => by simp only [identsOfCases, List.mem_append]; exact .inl (.inr (ast_exact h))
  | .mk .. :: _, .later h => by simp only [identsOfCases, List.mem_append]; exact .inr (cases_exact h)
theorem segs_exact {n : Str} : ∀ {l : List FSegAst}, SegsM n l → n ∈ identsOfSegs l
  | _, .here h => by simp only [identsOfSegs, List.mem_append]; exact .inl (ast_exact h)
  | .lit _ :: _, .later h => by simp only [identsOfSegs]; exact segs_exact h
  | .expr .. :: _, .later h => by simp only [identsOfSegs, List.mem_append]; exact .inr (segs_exact h)
end

/-! ### freeIdents ⊆ identsOf -/

mutual
theorem free_ast {n : Str} : ∀ (a : Ast), n ∈ freeIdents a → n ∈ identsOf a
  | .tern _ c t f, h => by
    simp only [freeIdents, identsOf, List.mem_append] at h ⊢
    rcases h with (h | h) | h
    · exact .inl (.inl (free_ast c h))
    · exact .inl (.inr (free_ast t h))
    · exact .inr (free_ast f h)
  | .match_ _ s cases, h => by
    simp only [freeIdents, identsOf, List.mem_append] at h ⊢
    rcases h with h | h
    · exact .inl (free_ast s h)
    · exact .inr (free_cases cases h)
  | .bin _ _ l r, h => by
    simp only [freeIdents, identsOf, List.mem_append] at h ⊢
    rcases h with h | h
    · exact .inl (free_ast l h)
    · exact .inr (free_ast r h)
  | .notRun _ _ m, h => by simp only [freeIdents, identsOf] at h ⊢; exact free_ast m h
  | .negRun _ _ m, h => by simp only [freeIdents, identsOf] at h ⊢; exact free_ast m h
  | .member _ (.ident _ _) (.call _ args :: rest), h => by
    simp only [freeIdents, identsOf, identsOfOps, List.mem_append] at h ⊢
    rcases h with h | h
    · exact .inr (.inl (free_list args h))
    · exact .inr (.inr (free_ops rest h))
  | .member _ (.ident _ m) [], h => by
    simp only [freeIdents, freePrim, freeOps, identsOf, identsOfPrim, identsOfOps] at h ⊢; exact h
  | .member _ (.ident _ m) (.access a b c :: rest), h => by
    simp only [freeIdents, freePrim, freeOps, identsOf, identsOfPrim, identsOfOps, List.mem_append] at h ⊢
    rcases h with h | h
    · exact .inl h
    · exact .inr (free_ops rest h)
  | .member _ (.ident _ m) (.index a e :: rest), h => by
    simp only [freeIdents, freePrim, freeOps, identsOf, identsOfPrim, identsOfOps, List.mem_append] at h ⊢
    rcases h with h | h | h
    · exact .inl h
    · exact .inr (.inl (free_ast e h))
    · exact .inr (.inr (free_ops rest h))
  | .member _ (.parens a e) chain, h => by
    simp only [freeIdents, identsOf, List.mem_append] at h ⊢
    rcases h with h | h
    · exact .inl (free_prim _ h)
    · exact .inr (free_ops chain h)
  | .member _ (.list a es) chain, h => by
    simp only [freeIdents, identsOf, List.mem_append] at h ⊢
    rcases h with h | h
    · exact .inl (free_prim _ h)
    · exact .inr (free_ops chain h)
  | .member _ (.map a es) chain, h => by
    simp only [freeIdents, identsOf, List.mem_append] at h ⊢
    rcases h with h | h
    · exact .inl (free_prim _ h)
    · exact .inr (free_ops chain h)
  | .member _ (.fstr a es) chain, h => by
    simp only [freeIdents, identsOf, List.mem_append] at h ⊢
    rcases h with h | h
    · exact .inl (free_prim _ h)
    · exact .inr (free_ops chain h)
  | .member _ (.null _) chain, h | .member _ (.int _ _) chain, h | .member _ (.uint _ _) chain, h
  | .member _ (.float _ _) chain, h | .member _ (.str _ _) chain, h | .member _ (.bytes _ _) chain, h
  | .member _ (.bool _ _) chain, h => by
    simp only [freeIdents, freePrim, identsOf, identsOfPrim, List.mem_append, List.not_mem_nil, false_or] at h ⊢
    exact free_ops chain h
theorem free_prim {n : Str} : ∀ (p : Prim), n ∈ freePrim p → n ∈ identsOfPrim p
  | .ident _ m, h => by simpa [freePrim, identsOfPrim] using h
  | .parens _ e, h => by simp only [freePrim, identsOfPrim] at h ⊢; exact free_ast e h
  | .list _ es, h => by simp only [freePrim, identsOfPrim] at h ⊢; exact free_list es h
  | .map _ inits, h => by simp only [freePrim, identsOfPrim] at h ⊢; exact free_inits inits h
  | .fstr _ segs, h => by simp only [freePrim, identsOfPrim] at h ⊢; exact free_segs segs h
  | .null _, h | .int _ _, h | .uint _ _, h | .float _ _, h | .str _ _, h | .bytes _ _, h | .bool _ _, h => by
    simp [freePrim] at h
theorem free_ops {n : Str} : ∀ (l : List MOp), n ∈ freeOps l → n ∈ identsOfOps l
  | [], h => by simp [freeOps] at h
  | .access .. :: rest, h => by simp only [freeOps, identsOfOps] at h ⊢; exact free_ops rest h
  | .call _ args :: rest, h => by
    simp only [freeOps, identsOfOps, List.mem_append] at h ⊢
    rcases h with h | h
    · exact .inl (free_list args h)
    · exact .inr (free_ops rest h)
  | .index _ e :: rest, h => by
    simp only [freeOps, identsOfOps, List.mem_append] at h ⊢
    rcases h with h | h
    · exact .inl (free_ast e h)
    · exact .inr (free_ops rest h)
theorem free_list {n : Str} : ∀ (l : List Ast), n ∈ freeList l → n ∈ identsOfList l
  | [], h => by simp [freeList] at h
  | e :: es, h => by
    simp only [freeList, identsOfList, List.mem_append] at h ⊢
    rcases h with h | h
    · exact .inl (free_ast e h)
    · exact .inr (free_list es h)
theorem free_inits {n : Str} : ∀ (l : List MInit), n ∈ freeInits l → n ∈ identsOfInits l
  | [], h => by simp [freeInits] at h
  | .mk _ k v :: rest, h => by
    simp only [freeInits, identsOfInits, List.mem_append] at h ⊢
    rcases h with (h | h) | h
    · exact .inl (.inl (free_ast k h))
    · exact .inl (.inr (free_ast v h))
    · exact .inr (free_inits rest h)
theorem free_cases {n : Str} : ∀ (l : List MCase), n ∈ freeCases l → n ∈ identsOfCases l
  | [], h => by simp [freeCases] at h
  | .mk _ (.cmp _ _ _ e) b :: rest, h => by
    simp only [freeCases, freePat, identsOfCases, identsOfPat, List.mem_append] at h ⊢
    rcases h with (h | h) | h
    · exact .inl (.inl (free_ast e h))
    · exact .inl (.inr (free_ast b h))
    · exact .inr (free_cases rest h)
  | .mk _ (.type ..) b :: rest, h => by
    simp only [freeCases, freePat, identsOfCases, identsOfPat, List.mem_append, List.not_mem_nil, false_or] at h ⊢
    rcases h with h | h
    · exact .inl (free_ast b h)
    · exact .inr (free_cases rest h)
  | .mk _ (.any _) b :: rest, h => by
    simp only [freeCases, freePat, identsOfCases, identsOfPat, List.mem_append, List.not_mem_nil, false_or] at h ⊢
    rcases h with h | h
    · exact .inl (free_ast b h)
    · exact .inr (free_cases rest h)
theorem free_segs {n : Str} : ∀ (l : List FSegAst), n ∈ freeSegs l → n ∈ identsOfSegs l
  | [], h => by simp [freeSegs] at h
  | .lit _ :: rest, h => by simp only [freeSegs, identsOfSegs] at h ⊢; exact free_segs rest h
  | .expr _ e :: rest, h => by
    simp only [freeSegs, identsOfSegs, List.mem_append] at h ⊢
    rcases h with h | h
    · exact .inl (free_ast e h)
    · exact .inr (free_segs rest h)
end

/-! ## the property theorems -/

/-- **Exactness**: a name is reported iff it occurs as an identifier primary somewhere in the tree. -/
theorem params_exact (a : Ast) (n : Str) : n ∈ params a ↔ Mentions a n := by
  unfold params
  rw [mem_dedup]
  exact ⟨ast_sound a, ast_exact⟩

/-- **Soundness**: the list contains no name that does not occur in the tree. -/
theorem params_sound (a : Ast) (n : Str) (h : n ∈ params a) : Mentions a n := (params_exact a n).mp h

/-- **Completeness**: every identifier the independent computation finds in a variable position — in
    operands, call arguments and receivers, macro ranges and bodies, f-string segments, index expressions,
    map keys and values, match scrutinee / patterns / arms, both branches of a conditional — is reported. -/
theorem params_complete (a : Ast) : ∀ n ∈ freeIdents a, n ∈ params a := by
  intro n h
  unfold params
  rw [mem_dedup]
  exact free_ast a h

/-- The reported list has no duplicates (it is a set). -/
theorem params_nodup (a : Ast) : (params a).Nodup := nodup_dedup _

/-- **Filtering removes exactly the bound names**: a name survives `filter_from_bindings` iff it was
    reported and the binding set binds it neither as a parameter nor as a function nor as a macro. -/
theorem filter_exact (B : Builtins) (e : Env) (ps : List Str) (n : Str) :
    n ∈ filterFromBindings B e ps ↔
      n ∈ ps ∧ (e.getParam n).isSome = false ∧ (e.getFunc B n).isSome = false ∧ e.isMacro n = false := by
  simp only [filterFromBindings, List.mem_filter, Env.isBound, Bool.not_eq_true', Bool.or_eq_false_iff]
  constructor
  · rintro ⟨h, ⟨h1, h2⟩, h3⟩; exact ⟨h, h1, h2, h3⟩
  · rintro ⟨h, h1, h2, h3⟩; exact ⟨h, ⟨h1, h2⟩, h3⟩

/-- … and keeps the others in their order, adding nothing. -/
theorem filter_sublist (B : Builtins) (e : Env) (ps : List Str) : (filterFromBindings B e ps).Sublist ps :=
  List.filter_sublist

/-! non-vacuity: `[1].map(v, v + q) + size(y)` written as a tree -/
private def sp0 : Span := default
private def v (n : String) : Ast := .member sp0 (.ident sp0 n.toList) []
private def ex : Ast :=
  .bin sp0 .add
    (.member sp0 (.list sp0 [.member sp0 (.int sp0 1) []])
      [.access sp0 sp0 "map".toList, .call sp0 [.bin sp0 .add (v "v") (v "q"), v "v"]])
    (.member sp0 (.ident sp0 "size".toList) [.call sp0 [v "y"]])
example : freeIdents ex = ["v", "q", "v", "y"].map String.toList := by decide
example : params ex = ["q", "v", "size", "y"].map String.toList := by decide
example : filterFromBindings (stdBuiltins 0) { params := [("q".toList, .int 1)] } (params ex)
    = ["v", "y"].map String.toList := by decide

end Rscel.C17
