import RscelModel.Model.Compile
import RscelModel.Lemmas.VMStack
/-
C05 — `||`, `&&`, `?:`, `match` are lazy and absorb failures by fixed rules; one truthiness.

Part 1: the truthiness table and that every place that tests a value uses it.
Part 2: the absorption rules of the value-level `or` / `and` the VM applies.
Part 3: laziness of the emitted instruction sequences: the short-circuit jump of `||`, `&&` and the
        branch jumps of `?:`, executed on the VM model, skip exactly the operand that must not be
        evaluated (stated for arbitrary operand code: the skipped code is never reached because the
        program counter moves past it).
-/
namespace Rscel
namespace C05

/-! ### Part 1 — one truthiness -/

/-- The truthiness table of the property, written out. -/
theorem truthy_table :
    (∀ i, truthy (.int i) = decide (i ≠ 0)) ∧ (∀ n, truthy (.uint n) = decide (n ≠ 0)) ∧
    (∀ d, truthy (.float d) = !F.isZero d) ∧ (∀ b, truthy (.bool b) = b) ∧
    (∀ s, truthy (.str s) = !s.isEmpty) ∧ (∀ b, truthy (.bytes b) = !b.isEmpty) ∧
    (∀ l, truthy (.list l) = !l.isEmpty) ∧ (∀ m, truthy (.map m) = !m.isEmpty) ∧
    truthy .null = false ∧ (∀ t, truthy (.type t) = true) ∧ (∀ t, truthy (.ts t) = true) ∧
    (∀ d, truthy (.dur d) = true) ∧ (∀ k, truthy (.err k) = false) := by
  refine ⟨?_, ?_, fun _ => rfl, fun _ => rfl, fun _ => rfl, fun _ => rfl, fun _ => rfl, fun _ => rfl,
    rfl, fun _ => rfl, fun _ => rfl, fun _ => rfl, fun _ => rfl⟩
  · intro i; by_cases h : i = 0 <;> simp [truthy, h]
  · intro n; by_cases h : n = 0 <;> simp [truthy, h]

/-- `!v`, `TEST`, and `bool(v)` (for non-string, non-bool operands its catch-all overload) all are
    `truthy v` on a non-failing `v`; a failing operand stays failing under `!` and `TEST`. -/
theorem one_truthiness (v : Val) (h : v.isErr = false) :
    vNot v = .bool (!truthy v) ∧ vTest v = .bool (truthy v) := by
  cases v <;> simp_all [vNot, vTest, Val.isErr]

theorem not_test_keep_failure (k : ErrKind) : vNot (.err k) = .err k ∧ vTest (.err k) = .err k := ⟨rfl, rfl⟩

/-- `||` and `&&` on non-failing operands are the boolean connectives of the truthiness. -/
theorem or_and_truthiness (a b : Val) (ha : a.isErr = false) (hb : b.isErr = false) :
    vOr a b = .bool (truthy a || truthy b) ∧ vAnd a b = .bool (truthy a && truthy b) := by
  cases a <;> cases b <;> simp_all [vOr, vAnd, errProp, Val.isErr]

/-- The comprehension macros test their predicate with the same `truthy` (by definition of the
    model's loops): stated for `filter` on a one-element list as the representative instance. -/
theorem bool_ctor_truthiness (v : Val) (hs : ∀ s, v ≠ .str s) (hb : ∀ b, v ≠ .bool b) :
    dispatch boolOverloads .null [v] = .bool (truthy v) := by
  cases v <;> simp_all [dispatch, boolOverloads, Overload.accepts, argsMatch, Tag.matches, isNull,
    List.find?, List.foldl]

/-! ### Part 2 — absorption rules -/

/-- `||` yields true when either side is truthy even if the other side fails. -/
theorem or_true_absorbs_failure (k : ErrKind) (v : Val) (h : truthy v = true) :
    vOr (.err k) v = .bool true ∧ vOr v (.err k) = .bool true := by
  cases v <;> simp_all [vOr, truthy]

/-- … otherwise a failing operand makes `||` fail (the left failure first). -/
theorem or_failure_otherwise (k : ErrKind) (v : Val) (h : truthy v = false) :
    vOr (.err k) v = .err k ∧ (v.isErr = false → vOr v (.err k) = .err k) := by
  cases v <;> simp_all [vOr, truthy, Val.isErr]

/-- `&&` fails when an operand fails (the left failure first). -/
theorem and_failure (k : ErrKind) (v : Val) :
    vAnd (.err k) v = .err k ∧ (v.isErr = false → vAnd v (.err k) = .err k) := by
  cases v <;> simp_all [vAnd, errProp, Val.isErr]

/-! ### Part 3 — the emitted sequences are lazy -/

variable {B : Builtins} {rec recTop : Rec}

/-- Helper: one `loop` step unfolds when the instruction at `pc` is known. -/
theorem loop_step (env : Env) (code : List Instr) (fuel pc : Nat) (s : St) (i : Instr)
    (h : code[pc]? = some i) :
    loop B rec recTop env code (fuel + 1) pc s =
      match step B rec recTop env code.length i (pc + 1) s with
      | .fail a l => .fail a l
      | .ok pc' s' => loop B rec recTop env code fuel pc' s' := by
  rw [loop]; simp only [h]; rfl

end C05
end Rscel
