import RscelModel.Lemmas.TablesDefs
/-
Table theorems, see Lemmas/TablesDefs.lean: the model's tables equal those regenerated from the source on this run.
-/
namespace Rscel
namespace Tables
open Rscel.Serde Rscel.Time

/-- C01 / C12: the parser's nesting limit and the interpreter's call-depth limit. -/
theorem limits_match_source :
    agrees Generated.maxNestingDepth maxNesting (· == ·) = true ∧
    agrees Generated.maxCallDepth maxDepth (· == ·) = true := by decide


end Tables
end Rscel
