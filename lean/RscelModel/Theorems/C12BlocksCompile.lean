import RscelModel.Theorems.C12Blocks
/-
C12, continued — the map-body chain of `Theorems/C12Blocks.lean` built by the model's *compiler* from source
text: the programs `q := [0].map(x, qq)[0] + 1`, `qq := [0].map(x, qqq)[0] + 1`, …, `q…q := 0` are tokenized,
parsed and compiled (`compileSrc`), the resulting context is the one of `map_concrete`, and so the chain with
15 references evaluates to 15 while the chain with 16 references is a Runtime failure.
(Bytecode has no decidable equality; the compiler's output is compared through a Boolean recogniser of the
link's shape, evaluated by the kernel.)
-/
namespace Rscel
namespace C12Blocks
open C12

/-- The code the model's compiler (`parseProgram` + `compileProgram`) produces for a source text. -/
def codeOf (src : String) : List Instr :=
  match compileSrc src.toList with
  | some p => p.code
  | none => []

def mapSrc (nxt : Str) : String := "[0].map(x, " ++ String.ofList nxt ++ ")[0] + 1"

def isMapLink (x nxt : Str) : List Instr → Bool
  | [.push (.code [.push (.ident n)]), .push (.code [.push (.ident y)]), .push (.list [.int 0]),
     .push (.ident m), .access, .call 2, .push (.int 0), .index, .push (.int 1), .add] =>
    n == nxt && y == x && m == "map".toList
  | _ => false

theorem isMapLink_sound (x nxt : Str) (c : List Instr) (h : isMapLink x nxt c = true) : c = mapLink x nxt := by
  unfold isMapLink at h
  split at h
  · simp only [Bool.and_eq_true, beq_iff_eq] at h
    obtain ⟨⟨h1, h2⟩, h3⟩ := h
    subst h1; subst h2; subst h3; rfl
  · cases h

theorem compiled_links :
    ((List.range 16).all fun i => isMapLink "x".toList (qname (i + 1)) (codeOf (mapSrc (qname (i + 1))))) = true := by
  decide +kernel

def isLeaf : List Instr → Bool
  | [.push (.int 0)] => true
  | _ => false

theorem isLeaf_sound (c : List Instr) (h : isLeaf c = true) : c = leaf := by
  unfold isLeaf at h
  split at h
  · rfl
  · cases h

/-- The compiler's output for `[0].map(x, NEXT)[0] + 1` is `mapLink x NEXT`, for the 16 names in use. -/
theorem codeOf_link (i : Nat) (hi : i < 16) :
    codeOf (mapSrc (qname (i + 1))) = mapLink "x".toList (qname (i + 1)) :=
  isMapLink_sound _ _ _ (List.all_eq_true.mp compiled_links i (List.mem_range.mpr hi))

theorem codeOf_leaf : codeOf "0" = leaf := isLeaf_sound _ (by decide +kernel)

/-- The context whose programs are compiled from source text: `k` references through map bodies. -/
def srcMapEnv (k : Nat) : Env :=
  { progs := (List.range (k + 1)).map fun i => (qname i, codeOf (if i < k then mapSrc (qname (i + 1)) else "0")) }

theorem srcMapEnv_eq (B : Builtins) (k : Nat) (hk : k ≤ 16) :
    srcMapEnv k = blockChainEnv (mapBody B "x".toList) k := by
  unfold srcMapEnv blockChainEnv
  congr 1
  apply List.map_congr_left
  intro i hi
  simp only [List.mem_range] at hi
  by_cases h : i < k
  · simp only [h, if_true, blockChainCode]
    rw [codeOf_link i (by omega)]; rfl
  · simp only [h, if_false, blockChainCode]
    rw [codeOf_leaf]

/-- **Compiled from source, 15 references**: executing `q` in the compiled context yields 15. -/
theorem compiled_map_chain_15 (now : Int) :
    execProg (stdBuiltins now) (srcMapEnv 15) (codeOf (mapSrc (qname 1))) = { res := .ok (.int 15), log := [] } := by
  rw [srcMapEnv_eq (stdBuiltins now) 15 (by omega), codeOf_link 0 (by omega)]
  exact (map_concrete (std_map_func now) 15).1 (by omega)

/-- **Compiled from source, 16 references**: executing `q` is a Runtime failure. -/
theorem compiled_map_chain_16 (now : Int) :
    ∃ a, execProg (stdBuiltins now) (srcMapEnv 16) (codeOf (mapSrc (qname 1))) = { res := .error a, log := [] } ∧
      a.kind = .runtime := by
  rw [srcMapEnv_eq (stdBuiltins now) 16 (by omega), codeOf_link 0 (by omega)]
  exact (map_concrete (std_map_func now) 16).2 (by omega)

-- the source texts, for the reader
example : mapSrc (qname 1) = "[0].map(x, qq)[0] + 1" := by decide
example : mapSrc (qname 2) = "[0].map(x, qqq)[0] + 1" := by decide

end C12Blocks
end Rscel
