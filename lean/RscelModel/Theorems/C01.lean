import RscelModel.Theorems.C10
/-
C01 — compile and evaluate are total: a value or an error, never a panic, an abort or a hang.

In Lean every function of the model is total, so "the model returns" is true by construction; what carries
content is that the model is *faithful* where the Rust code could unwind or abort, i.e. that every such
place is guarded.  The theorems here state the guards as invariants of the model:

* `Rep`: every value the operators produce is representable in its machine type (ints in i64, uints in
  u64, timestamps / durations inside chrono's range) whenever the operands are — the model computes in ℤ
  and narrows, so this is exactly "no arithmetic overflow can be *reached*" (`arith_rep`, `neg_rep`,
  `index_rep`, `logic_rep`);
* the call-depth budget: a block run at budget 0 is refused with an error and `exec` starts at 32, and every
  nested run happens at a strictly smaller budget, so the recursion depth of the interpreter is bounded by a
  constant whatever the programs reference (`depth_guard`, `exec_budget`);
* a block the (proved) checker accepts never pops an empty stack, never jumps out of range and never runs
  out of instruction budget (`exec_wf_no_structural_abort`, from C10), and a jump target is only ever
  produced inside the block (`C10.jump_checked`).
The rest of the property — panics inside libraries, the machine stack, hangs — is decided by running the
real code in isolated child processes (facet C01): exploration, not proof.
-/
namespace Rscel
namespace C01

mutual
/-- Machine representability of a value: what the Rust types can hold. -/
def Rep : Val → Bool
  | .int i => inI64 i
  | .uint n => inU64 n
  | .ts n => inTs n
  | .dur n => inDur n
  | .list l => RepL l
  | .map m => RepM m
  | _ => true
def RepL : List Val → Bool
  | [] => true
  | v :: vs => Rep v && RepL vs
def RepM : List (Str × Val) → Bool
  | [] => true
  | (_, v) :: rest => Rep v && RepM rest
end

theorem repL_append (a b : List Val) : RepL (a ++ b) = (RepL a && RepL b) := by
  induction a with
  | nil => simp [RepL]
  | cons x xs ih => simp [RepL, ih, Bool.and_assoc]

theorem narrowI_rep (r : Int) : Rep (narrowI r) = true := by
  unfold narrowI; split <;> simp_all [Rep]

theorem narrowU_rep (r : Int) : Rep (narrowU r) = true := by
  unfold narrowU; split
  · rename_i h
    have := (inU64_iff r).1 h
    simp only [Rep]
    rw [inU64_iff]; omega
  · simp [Rep]

theorem narrowTs_rep (r : Int) : Rep (narrowTs r) = true := by
  unfold narrowTs; split <;> simp_all [Rep]

theorem narrowDur_rep (r : Int) : Rep (narrowDur r) = true := by
  unfold narrowDur; split <;> simp_all [Rep]

theorem intArm_rep (op : ArithOp) (a b : Int) : Rep (intArm op a b) = true := by
  unfold intArm; split
  · simp [Rep]
  · exact narrowI_rep _

theorem uintArm_rep (op : ArithOp) (a b : Nat) : Rep (uintArm op a b) = true := by
  unfold uintArm; split
  · simp [Rep]
  · exact narrowU_rep _

theorem ts_diff_in_dur (a b : Int) (ha : inTs a = true) (hb : inTs b = true) : inDur (a - b) = true := by
  unfold inTs tsMin tsMax at ha hb
  unfold inDur durMax
  simp only [Bool.and_eq_true, decide_eq_true_eq] at ha hb ⊢
  omega

theorem otherArm_rep (op : ArithOp) (l r : Val) (hl : Rep l = true) (hr : Rep r = true) :
    Rep (otherArm op l r) = true := by
  unfold otherArm
  split <;> first
    | exact narrowTs_rep _
    | exact narrowDur_rep _
    | simp [Rep]
  · simp only [Rep] at hl hr ⊢; simp [repL_append, hl, hr]
  · simp only [Rep] at hl hr ⊢; exact ts_diff_in_dur _ _ hl hr

theorem b01_rep (b : Bool) : inI64 (b01 b) = true := by cases b <;> decide
theorem b01n_rep (b : Bool) : inU64 (b01n b) = true := by cases b <;> decide

theorem widen_rep (l r : Val) (hl : Rep l = true) (hr : Rep r = true) :
    Rep (widen l r).1 = true ∧ Rep (widen l r).2 = true := by
  unfold widen
  split <;> simp_all [Rep, b01_rep, b01n_rep]
  all_goals
    split <;> simp_all [Rep]
  all_goals
    rename_i h
    rw [inI64_iff]; unfold i64Max at h; omega

theorem arithCore_rep (op : ArithOp) (l r : Val) (hl : Rep l = true) (hr : Rep r = true) :
    Rep (arithCore op l r) = true := by
  have hw := widen_rep l r hl hr
  unfold arithCore
  split
  · exact intArm_rep _ _ _
  · exact intArm_rep _ _ _
  · exact intArm_rep _ _ _
  · exact uintArm_rep _ _ _
  · split <;> simp [Rep]
  · rename_i l' r' _ _ _ _ _ heq
    rw [heq] at hw
    exact otherArm_rep op l' r' hw.1 hw.2

/-- `+ - * / %` never produce a value outside its machine type: exact-or-error, for all operands. -/
theorem arith_rep (op : ArithOp) (l r : Val) (hl : Rep l = true) (hr : Rep r = true) :
    Rep (arith op l r) = true := by
  unfold arith errProp
  split
  · simp [Rep]
  · split
    · simp [Rep]
    · exact arithCore_rep op l r hl hr

/-- Unary minus: `-MIN` is an error, never a wrapped value. -/
theorem neg_rep (v : Val) : Rep (neg v) = true := by
  unfold neg; split <;> first | exact narrowI_rep _ | simp [Rep]

theorem repL_getD (l : List Val) (n : Nat) (h : RepL l = true) : Rep (l.getD n .null) = true := by
  induction l generalizing n with
  | nil => simp [Rep]
  | cons x xs ih =>
    simp only [RepL, Bool.and_eq_true] at h
    cases n with
    | zero => simpa using h.1
    | succ n => simpa using ih n h.2

theorem repM_get (m : VMap) (k : Str) (v : Val) (h : RepM m = true) (hg : Map.get m k = some v) :
    Rep v = true := by
  induction m with
  | nil => simp [Map.get] at hg
  | cons e rest ih =>
    obtain ⟨k', v'⟩ := e
    simp only [RepM, Bool.and_eq_true] at h
    simp only [Map.get] at hg
    split at hg
    · simp at hg; subst hg; exact h.1
    · exact ih h.2 hg

/-- Indexing reads inside the collection or fails: the element returned is one of the collection's. -/
theorem index_rep (o i : Val) (ho : Rep o = true) : Rep (index o i) = true := by
  unfold index errProp
  split
  · simp [Rep]
  · split
    · simp [Rep]
    · dsimp only
      split
      · split
        · simp [Rep]
        · exact repL_getD _ _ (by simpa [Rep] using ho)
      · split
        · split
          · simp [Rep]
          · exact repL_getD _ _ (by simpa [Rep] using ho)
        · split
          · simp [Rep]
          · exact repL_getD _ _ (by simpa [Rep] using ho)
      · simp [Rep]
      · split
        · rename_i hg; exact repM_get _ _ _ (by simpa [Rep] using ho) hg
        · simp [Rep]
      · simp [Rep]
      · simp [Rep]

/-- The logical operators only produce booleans or pass a failure on. -/
theorem logic_rep (a b : Val) :
    Rep (vOr a b) = true ∧ Rep (vAnd a b) = true ∧ Rep (vNot a) = true ∧ Rep (vTest a) = true := by
  refine ⟨?_, ?_, ?_, ?_⟩
  · unfold vOr; split <;> (try split) <;> simp [Rep]
  · unfold vAnd errProp; split <;> (try split) <;> simp [Rep]
  · unfold vNot; split <;> simp [Rep]
  · unfold vTest; split <;> simp [Rep]

/-! ### the call-depth budget -/

/-- A run at budget 0 is refused with an error, whatever the block. -/
theorem depth_guard (B : Builtins) (env : Env) (code : List Instr) (r : Bool) (log : Log) :
    runAt B 0 env code r log = { res := .error .depth, log := log } := rfl

/-- `exec` starts with a budget of 32; every nested run (`rec`) of a run at budget `b + 1` is a run at
    budget `b` — so no chain of references, however long or cyclic, nests deeper than 32 interpreter frames. -/
theorem exec_budget (B : Builtins) (env : Env) (code : List Instr) :
    execProg B env code = runAt B 32 env code true [] := rfl

theorem nested_runs_one_lower (B : Builtins) (b : Nat) (env : Env) (code : List Instr) (r : Bool) (log : Log) :
    runAt B (b + 1) env code r log =
      (match loop B (runAt B b) (runFresh B) env code (blockFuel code) 0 { stack := [], log := log } with
       | .fail a l => { res := .error a, log := l }
       | .ok _ s => finish (runAt B b) env r s) := rfl

/-- Running out of budget is an ordinary (Runtime) error for the caller. -/
theorem depth_is_runtime_error : Abort.depth.kind = .runtime := rfl

/-! ### accepted blocks never pop an empty stack, jump out of range or exhaust the instruction budget -/

theorem exec_wf_no_structural_abort (B : Builtins) (hrec : RecClean (runAt B 31)) (env : Env)
    (code : List Instr) (hwf : wfFlat code 0 1 = true) (a : Abort)
    (h : (execProg B env code).res = .error a) : a.structural = false :=
  C10.run_block_clean 31 hrec env code hwf true [] a h

example : Rep (arith .add (.int 9223372036854775807) (.int 1)) = true := by decide
example : arith .add (.int 9223372036854775807) (.int 1) = .err .value := by rfl
example : Rep (.int 9223372036854775808) = false := by decide

end C01
end Rscel
