import RscelModel.Lemmas.LexLit
import RscelModel.Lemmas.ParseLit
import RscelModel.Lemmas.LexFloat
/-
C13 — literals denote exactly the value they spell; out-of-range ones are rejected.

Part 1 (numbers): every decimal / hexadecimal digit string, with or without the `u` suffix, lexes to the
  token carrying the number it spells (Horner value `spelled`), or to a lexical error when that number
  does not fit 64 bits; the canonical encoders `decOf`, `hexOf` (any letter case per digit) are inverted.
Part 2 (strings, bytes): for every list of characters / bytes and every legal choice of spelling per
  element (the character itself, named escape, `\xHH`, three-digit octal, `\uHHHH`, `\UHHHHHHHH`, doubled
  brace in a format string), in both quote styles, plain / raw / format / bytes literals lex to exactly
  that list; invalid code points, truncated or malformed escapes and unterminated literals are errors.
-/
namespace Rscel
namespace C13
open LexLit

/-! ### encoders -/

def digitChar (d : Nat) : Char := Char.ofNat (48 + d)

/-- Hex digit `d` in lower or upper case. -/
def hexDigitChar (upper : Bool) (d : Nat) : Char :=
  if d < 10 then Char.ofNat (48 + d) else if upper then Char.ofNat (55 + d) else Char.ofNat (87 + d)

def decAux : Nat → Nat → List Char
  | 0, _ => ['0']
  | f + 1, n => if n < 10 then [digitChar n] else decAux f (n / 10) ++ [digitChar (n % 10)]

/-- Canonical decimal spelling (no leading zeros). -/
def decOf (n : Nat) : List Char := decAux n n

def hexAux (up : Nat → Bool) : Nat → Nat → List Char
  | 0, _ => ['0']
  | f + 1, n =>
    if n < 16 then [hexDigitChar (up n) n] else hexAux up f (n / 16) ++ [hexDigitChar (up n) (n % 16)]

/-- Canonical hexadecimal digits; `up` chooses the letter case of every digit separately (it is asked
    with the value of the prefix ending at that digit, which is different for every position). -/
def hexOf (up : Nat → Bool) (n : Nat) : List Char := hexAux up n n

example : decOf 9223372036854775807 = "9223372036854775807".toList := by decide
example : hexOf (fun n => n % 2 == 0) 0xabcdef = "AbCdEf".toList := by decide

theorem digitChar_spec : ∀ d, d < 10 → isDigit (digitChar d) = true ∧ hexDigitVal (digitChar d) = some d := by
  decide

theorem hexDigitChar_spec : ∀ u d, d < 16 → hexDigitVal (hexDigitChar u d) = some d := by
  decide

theorem spelled_snoc (b : Nat) (xs : List Char) (c : Char) :
    spelled b (xs ++ [c]) = spelled b xs * b + (hexDigitVal c).getD 0 := by
  simp [spelled, List.foldl_append]

theorem decAux_spec (f : Nat) : ∀ n, n ≤ f →
    spelled 10 (decAux f n) = n ∧ decAux f n ≠ [] ∧ ∀ c ∈ decAux f n, isDigit c = true := by
  induction f with
  | zero =>
    intro n h
    have : n = 0 := by omega
    subst this
    exact ⟨by decide, by decide, by decide⟩
  | succ f ih =>
    intro n h
    unfold decAux
    by_cases hn : n < 10
    · simp only [hn, if_true]
      refine ⟨?_, by simp, ?_⟩
      · simp [spelled, (digitChar_spec n hn).2]
      · intro c hc; simp at hc; subst hc; exact (digitChar_spec n hn).1
    · simp only [hn, if_false]
      obtain ⟨h1, _, h3⟩ := ih (n / 10) (by omega)
      have hm : n % 10 < 10 := Nat.mod_lt _ (by decide)
      refine ⟨?_, by simp, ?_⟩
      · rw [spelled_snoc, h1, (digitChar_spec _ hm).2]; simp; omega
      · intro c hc
        rcases List.mem_append.mp hc with hc | hc
        · exact h3 c hc
        · simp at hc; subst hc; exact (digitChar_spec _ hm).1

theorem hexAux_spec (up : Nat → Bool) (f : Nat) : ∀ n, n ≤ f →
    spelled 16 (hexAux up f n) = n ∧ hexAux up f n ≠ [] ∧
      ∀ c ∈ hexAux up f n, (hexDigitVal c).isSome = true := by
  induction f with
  | zero =>
    intro n h
    have : n = 0 := by omega
    subst this
    have e : hexAux up 0 0 = ['0'] := rfl
    rw [e]
    exact ⟨by decide, by decide, by decide⟩
  | succ f ih =>
    intro n h
    unfold hexAux
    by_cases hn : n < 16
    · simp only [hn, if_true]
      refine ⟨?_, by simp, ?_⟩
      · simp [spelled, hexDigitChar_spec (up n) n hn]
      · intro c hc; simp at hc; subst hc; simp [hexDigitChar_spec (up n) n hn]
    · simp only [hn, if_false]
      obtain ⟨h1, _, h3⟩ := ih (n / 16) (by omega)
      have hm : n % 16 < 16 := Nat.mod_lt _ (by decide)
      refine ⟨?_, by simp, ?_⟩
      · rw [spelled_snoc, h1, hexDigitChar_spec _ _ hm]; simp; omega
      · intro c hc
        rcases List.mem_append.mp hc with hc | hc
        · exact h3 c hc
        · simp at hc; subst hc; simp [hexDigitChar_spec _ _ hm]

/-- `decOf` is inverted by reading the digits. -/
theorem spelled_decOf (n : Nat) : spelled 10 (decOf n) = n := (decAux_spec n n (Nat.le_refl n)).1
theorem spelled_hexOf (up : Nat → Bool) (n : Nat) : spelled 16 (hexOf up n) = n :=
  (hexAux_spec up n n (Nat.le_refl n)).1

/-! ### Part 1 — number tokens -/

def u64Limit : Nat := 18446744073709551615

/-- Any decimal digit string (leading zeros allowed) is the int token of the number it spells; beyond
    64 bits it is a lexical error — never another number. -/
theorem dec_spelling_token (ds rest : List Char) (loc : Loc) (hne : ds ≠ [])
    (hd : ∀ c ∈ ds, isDigit c = true) (hstop : numStop 10 rest) :
    lexToken ⟨ds ++ rest, loc⟩ =
      if spelled 10 ds ≤ u64Limit
      then .ok (some (.intLit (spelled 10 ds), ⟨loc, advAll loc ds⟩), ⟨rest, advAll loc ds⟩)
      else .error ⟨advAll loc ds⟩ := by
  cases ds with
  | nil => exact absurd rfl hne
  | cons c ds =>
    have hc := hd c (by simp)
    have hds : ∀ x ∈ ds, isDigit x = true := fun x hx => hd x (by simp [hx])
    rw [List.cons_append, lexToken_digit c _ loc hc, lexNumber_dec c ds rest _ hc hds hstop]
    unfold u64Limit
    by_cases hle : spelled 10 (c :: ds) ≤ 18446744073709551615 <;> simp [hle, LexLit.finish]

/-- … with the `u` / `U` suffix: the uint token; whatever follows the suffix is not looked at. -/
theorem dec_u_spelling_token (ds rest : List Char) (u : Char) (loc : Loc) (hne : ds ≠ [])
    (hd : ∀ c ∈ ds, isDigit c = true) (hu : u = 'u' ∨ u = 'U') :
    lexToken ⟨ds ++ u :: rest, loc⟩ =
      if spelled 10 ds ≤ u64Limit
      then .ok (some (.uintLit (spelled 10 ds), ⟨loc, advAll loc (ds ++ [u])⟩), ⟨rest, advAll loc (ds ++ [u])⟩)
      else .error ⟨advAll loc (ds ++ [u])⟩ := by
  cases ds with
  | nil => exact absurd rfl hne
  | cons c ds =>
    have hc := hd c (by simp)
    have hds : ∀ x ∈ ds, isDigit x = true := fun x hx => hd x (by simp [hx])
    rw [List.cons_append, lexToken_digit c _ loc hc, lexNumber_dec_u c u ds rest _ hc hds hu]
    unfold u64Limit
    by_cases hle : spelled 10 (c :: ds) ≤ 18446744073709551615 <;> simp [hle, LexLit.finish]

/-- `0x` / `0X` followed by any hex digit string (either letter case per digit, leading zeros allowed). -/
theorem hex_spelling_token (x : Char) (hs rest : List Char) (loc : Loc) (hx : x = 'x' ∨ x = 'X')
    (hne : hs ≠ []) (hh : ∀ c ∈ hs, (hexDigitVal c).isSome = true) (hstop : numStop 16 rest) :
    lexToken ⟨'0' :: x :: hs ++ rest, loc⟩ =
      if spelled 16 hs ≤ u64Limit
      then .ok (some (.intLit (spelled 16 hs), ⟨loc, advAll loc ('0' :: x :: hs)⟩), ⟨rest, advAll loc ('0' :: x :: hs)⟩)
      else .error ⟨advAll loc ('0' :: x :: hs)⟩ := by
  rw [List.cons_append, lexToken_digit '0' _ loc rfl, lexNumber_hex x hs rest _ hx hne hh hstop]
  unfold u64Limit
  by_cases hle : spelled 16 hs ≤ 18446744073709551615 <;> simp [hle, LexLit.finish]

theorem hex_u_spelling_token (x u : Char) (hs rest : List Char) (loc : Loc) (hx : x = 'x' ∨ x = 'X')
    (hne : hs ≠ []) (hh : ∀ c ∈ hs, (hexDigitVal c).isSome = true) (hu : u = 'u' ∨ u = 'U') :
    lexToken ⟨'0' :: x :: hs ++ u :: rest, loc⟩ =
      if spelled 16 hs ≤ u64Limit
      then .ok (some (.uintLit (spelled 16 hs), ⟨loc, advAll loc ('0' :: x :: hs ++ [u])⟩),
                ⟨rest, advAll loc ('0' :: x :: hs ++ [u])⟩)
      else .error ⟨advAll loc ('0' :: x :: hs ++ [u])⟩ := by
  rw [List.cons_append, lexToken_digit '0' _ loc rfl, lexNumber_hex_u x u hs rest _ hx hne hh hu]
  unfold u64Limit
  by_cases hle : spelled 16 hs ≤ 18446744073709551615 <;> simp [hle, LexLit.finish]

/-! ### Part 2 — string literals -/

/-- `w` hex digits of `v`, most significant first; `up i` is the letter case of the digit of weight `16^i`. -/
def hexFixed (up : Nat → Bool) : Nat → Nat → List Char
  | 0, _ => []
  | w + 1, v => hexDigitChar (up w) (v / 16 ^ w % 16) :: hexFixed up w v

theorem hexFixed_spec (up : Nat → Bool) (v : Nat) (w : Nat) :
    (hexFixed up w v).length = w ∧ (∀ c ∈ hexFixed up w v, (hexDigitVal c).isSome = true) ∧
    ∀ acc, (hexFixed up w v).foldl (fun a c => a * 16 + (hexDigitVal c).getD 0) acc = acc * 16 ^ w + v % 16 ^ w := by
  induction w with
  | zero => exact ⟨rfl, by simp [hexFixed], by intro acc; simp [hexFixed, Nat.mod_one]⟩
  | succ w ih =>
    obtain ⟨h1, h2, h3⟩ := ih
    have hd : v / 16 ^ w % 16 < 16 := Nat.mod_lt _ (by decide)
    have hv := hexDigitChar_spec (up w) _ hd
    refine ⟨by simp [hexFixed, h1], ?_, ?_⟩
    · intro c hc
      simp only [hexFixed, List.mem_cons] at hc
      rcases hc with rfl | hc
      · simp [hv]
      · exact h2 c hc
    · intro acc
      simp only [hexFixed, List.foldl_cons, hv, Option.getD_some, h3]
      rw [Nat.mod_pow_succ, Nat.pow_succ]
      generalize v / 16 ^ w % 16 = d
      generalize v % 16 ^ w = m
      generalize 16 ^ w = P
      grind

theorem spelled_hexFixed (up : Nat → Bool) (w v : Nat) (h : v < 16 ^ w) : spelled 16 (hexFixed up w v) = v := by
  have := (hexFixed_spec up v w).2.2 0
  simpa [spelled, Nat.mod_eq_of_lt h] using this

/-- How one character is written. -/
inductive Esc
  | plain                                  -- the character itself
  | named                                  -- `\a \b \f \n \r \t \v \\ \' \"`
  | hex2 (bigX : Bool) (up : Nat → Bool)   -- `\xHH` / `\XHH`
  | octal                                  -- `\ooo`
  | u4 (up : Nat → Bool)                   -- `\uHHHH`
  | u8 (up : Nat → Bool)                   -- `\UHHHHHHHH`
  | brace                                  -- `{{` / `}}` (format strings)

/-- The letter of the named escape for a character, if it has one. -/
def nameOf (c : Char) : Option Char :=
  if c = Char.ofNat 7 then some 'a' else if c = Char.ofNat 8 then some 'b'
  else if c = Char.ofNat 12 then some 'f' else if c = Char.ofNat 10 then some 'n'
  else if c = Char.ofNat 13 then some 'r' else if c = Char.ofNat 9 then some 't'
  else if c = Char.ofNat 11 then some 'v' else if c = '\\' then some '\\'
  else if c = '\'' then some '\'' else if c = '"' then some '"' else none

def octDigits (v : Nat) : List Char := [digitChar (v / 64), digitChar (v / 8 % 8), digitChar (v % 8)]

/-- The source text of one character under a spelling. -/
def spell (e : Esc) (c : Char) : List Char :=
  match e with
  | .plain => [c]
  | .named => (match nameOf c with | some n => ['\\', n] | none => [c])
  | .hex2 bigX up => '\\' :: (if bigX then 'X' else 'x') :: hexFixed up 2 c.toNat
  | .octal => '\\' :: octDigits c.toNat
  | .u4 up => '\\' :: 'u' :: hexFixed up 4 c.toNat
  | .u8 up => '\\' :: 'U' :: hexFixed up 8 c.toNat
  | .brace => [c, c]

/-- When a spelling may be used for a character (`fmt`: inside a format string; `q`: the quote). -/
def Legal (fmt : Bool) (q : Char) (e : Esc) (c : Char) : Prop :=
  match e with
  | .plain => c ≠ q ∧ c ≠ '\\' ∧ (fmt = true → c ≠ '{' ∧ c ≠ '}')
  | .named => (nameOf c).isSome = true
  | .hex2 _ _ => c.toNat < 256
  | .octal => c.toNat < 512
  | .u4 _ => c.toNat < 65536
  | .u8 _ => True
  | .brace => fmt = true ∧ (c = '{' ∨ c = '}')

/-- The body of a literal: every element written with its chosen spelling. -/
def encode (items : List (Esc × Char)) : List Char := items.flatMap fun p => spell p.1 p.2

@[simp] theorem encode_nil : encode [] = [] := rfl
@[simp] theorem encode_cons (p : Esc × Char) (r : List (Esc × Char)) : encode (p :: r) = spell p.1 p.2 ++ encode r := by
  simp [encode]

theorem spell_ne_nil (e : Esc) (c : Char) : 0 < (spell e c).length := by
  cases e <;> simp [spell]
  split <;> simp

theorem length_le_encode (items : List (Esc × Char)) : items.length ≤ (encode items).length := by
  induction items with
  | nil => simp
  | cons p r ih =>
    have := spell_ne_nil p.1 p.2
    simp only [encode_cons, List.length_cons, List.length_append]; omega

theorem nameOf_named (c n : Char) (h : nameOf c = some n) : namedEscape n c := by
  unfold nameOf at h
  unfold namedEscape
  repeat' split at h
  all_goals first | (injection h with h; subst h; simp_all) | cases h

theorem octDigits_spec (v : Nat) (h : v < 512) :
    isOct (digitChar (v / 64)) = true ∧ isOct (digitChar (v / 8 % 8)) = true ∧ isOct (digitChar (v % 8)) = true ∧
    ((digitChar (v / 64)).toNat - 48) * 64 + ((digitChar (v / 8 % 8)).toNat - 48) * 8 +
      ((digitChar (v % 8)).toNat - 48) = v := by
  have key : ∀ d, d < 8 → isOct (digitChar d) = true ∧ (digitChar d).toNat - 48 = d := by decide
  have a := key (v / 64) (by omega)
  have b := key (v / 8 % 8) (by omega)
  have c := key (v % 8) (by omega)
  refine ⟨a.1, b.1, c.1, ?_⟩
  rw [a.2, b.2, c.2]; omega

/-- One iteration of the string loop reads one element, whatever its spelling. -/
theorem lexString_item (q : Char) (hq : isQuote q) (fmt : Bool) (f : Nat) (e : Esc) (c : Char)
    (tail : List Char) (loc : Loc) (work : List Char) (segs : List FSeg) (hl : Legal fmt q e c) :
    lexString q false fmt (f + 1) ⟨spell e c ++ tail, loc⟩ work segs =
      lexString q false fmt f ⟨tail, advAll loc (spell e c)⟩ (c :: work) segs := by
  cases e with
  | plain => exact lexString_plain q fmt f c tail loc work segs hl.1 hl.2.1 hl.2.2
  | named =>
    simp only [Legal] at hl
    cases hn : nameOf c with
    | none => simp [hn] at hl
    | some n =>
      simp only [spell, hn]
      exact lexString_named q hq fmt f n c tail loc work segs (nameOf_named c n hn)
  | hex2 bigX up =>
    simp only [Legal] at hl
    obtain ⟨h1, h2, _⟩ := hexFixed_spec up c.toNat 2
    have hv := spelled_hexFixed up 2 c.toNat (by simpa using hl)
    simp only [spell, List.cons_append]
    exact lexString_hex q hq fmt f _ 2 _ tail loc work segs c
      (by cases bigX <;> simp [hexEscape]) h1 h2 hv
  | octal =>
    simp only [Legal] at hl
    obtain ⟨h0, h1, h2, hv⟩ := octDigits_spec c.toNat hl
    simp only [spell, octDigits, List.cons_append, List.nil_append]
    exact lexString_oct q hq fmt f _ _ _ tail loc work segs c h0 h1 h2 hv
  | u4 up =>
    simp only [Legal] at hl
    obtain ⟨h1, h2, _⟩ := hexFixed_spec up c.toNat 4
    have hv := spelled_hexFixed up 4 c.toNat (by simpa using hl)
    simp only [spell, List.cons_append]
    exact lexString_hex q hq fmt f 'u' 4 _ tail loc work segs c (by simp [hexEscape]) h1 h2 hv
  | u8 up =>
    obtain ⟨h1, h2, _⟩ := hexFixed_spec up c.toNat 8
    have hlt : c.toNat < 16 ^ 8 := by
      have := c.valid
      simp only [Char.toNat]
      rcases this with h | ⟨_, h⟩ <;> omega
    have hv := spelled_hexFixed up 8 c.toNat hlt
    simp only [spell, List.cons_append]
    exact lexString_hex q hq fmt f 'U' 8 _ tail loc work segs c (by simp [hexEscape]) h1 h2 hv
  | brace =>
    obtain ⟨hf, hc⟩ := hl
    subst hf
    simp only [spell, List.cons_append, List.nil_append]
    exact lexString_brace q hq f c tail loc work segs hc

/-- The string loop over a whole run of elements. -/
theorem lexString_items (q : Char) (hq : isQuote q) (fmt : Bool) (items : List (Esc × Char)) :
    ∀ (fuel : Nat) (tail : List Char) (loc : Loc) (work : List Char),
    items.length ≤ fuel → (∀ p ∈ items, Legal fmt q p.1 p.2) →
    lexString q false fmt fuel ⟨encode items ++ tail, loc⟩ work [] =
      lexString q false fmt (fuel - items.length) ⟨tail, advAll loc (encode items)⟩
        ((items.map (·.2)).reverse ++ work) [] := by
  induction items with
  | nil => intro fuel tail loc work _ _; simp
  | cons p r ih =>
    intro fuel tail loc work hlen hl
    cases fuel with
    | zero => simp at hlen
    | succ f =>
      rw [encode_cons, List.append_assoc, lexString_item q hq fmt f p.1 p.2 _ loc work [] (hl p (by simp))]
      rw [ih f tail _ _ (by simpa using hlen) (fun x hx => hl x (by simp [hx]))]
      simp [advAll_append]

/-- The values of the elements. -/
def valueOf (items : List (Esc × Char)) : List Char := items.map (·.2)

/-- Quoted string literal: any characters, any legal spelling per character, either quote — the token
    is exactly the string spelled, and nothing beyond the closing quote is consumed. -/
theorem string_roundtrip (q : Char) (hq : isQuote q) (items : List (Esc × Char))
    (hl : ∀ p ∈ items, Legal false q p.1 p.2) (rest : List Char) (loc : Loc) :
    lexToken ⟨q :: encode items ++ q :: rest, loc⟩ =
      .ok (some (.strLit (valueOf items), ⟨loc, advAll loc (q :: encode items ++ [q])⟩),
        ⟨rest, advAll loc (q :: encode items ++ [q])⟩) := by
  rw [List.cons_append, lexToken_quote q hq _ loc]
  have hlen : items.length ≤ (encode items ++ q :: rest).length + 1 := by
    have := length_le_encode items; simp; omega
  rw [lexString_items q hq false items _ (q :: rest) _ [] hlen hl]
  obtain ⟨k, hk⟩ : ∃ k, (encode items ++ q :: rest).length + 1 - items.length = k + 1 := by
    have := length_le_encode items
    exact ⟨(encode items ++ q :: rest).length - items.length, by simp; omega⟩
  rw [hk, lexString_close]
  simp [LexLit.finish, valueOf, advAll_append]

/-- Format string literal without placeholders (`{{` / `}}` for braces): a plain string token. -/
theorem fstring_roundtrip (q : Char) (hq : isQuote q) (items : List (Esc × Char))
    (hl : ∀ p ∈ items, Legal true q p.1 p.2) (rest : List Char) (loc : Loc) :
    lexToken ⟨'f' :: q :: encode items ++ q :: rest, loc⟩ =
      .ok (some (.strLit (valueOf items), ⟨loc, advAll loc ('f' :: q :: encode items ++ [q])⟩),
        ⟨rest, advAll loc ('f' :: q :: encode items ++ [q])⟩) := by
  rw [List.cons_append, List.cons_append, lexToken_fmt q hq _ loc]
  have hlen : items.length ≤ (encode items ++ q :: rest).length + 1 := by
    have := length_le_encode items; simp; omega
  rw [lexString_items q hq true items _ (q :: rest) _ [] hlen hl]
  obtain ⟨k, hk⟩ : ∃ k, (encode items ++ q :: rest).length + 1 - items.length = k + 1 := by
    have := length_le_encode items
    exact ⟨(encode items ++ q :: rest).length - items.length, by simp; omega⟩
  rw [hk, lexString_close]
  simp [LexLit.finish, valueOf, advAll_append]

theorem lexString_rawrun (q : Char) (s : List Char) : ∀ (fuel : Nat) (tail : List Char) (loc : Loc) (work : List Char),
    s.length ≤ fuel → q ∉ s →
    lexString q true false fuel ⟨s ++ tail, loc⟩ work [] =
      lexString q true false (fuel - s.length) ⟨tail, advAll loc s⟩ (s.reverse ++ work) [] := by
  induction s with
  | nil => intro fuel tail loc work _ _; simp
  | cons c r ih =>
    intro fuel tail loc work hlen hq
    cases fuel with
    | zero => simp at hlen
    | succ f =>
      have hc : c ≠ q := fun h => hq (by simp [h])
      rw [List.cons_append, lexString_rawchar q f c _ loc work [] hc,
        ih f tail _ _ (by simpa using hlen) (fun h => hq (by simp [h]))]
      simp

/-- Raw string literal: every character up to the closing quote is taken as it is (backslash included). -/
theorem raw_roundtrip (q : Char) (hq : isQuote q) (s : List Char) (hs : q ∉ s) (rest : List Char) (loc : Loc) :
    lexToken ⟨'r' :: q :: s ++ q :: rest, loc⟩ =
      .ok (some (.strLit s, ⟨loc, advAll loc ('r' :: q :: s ++ [q])⟩), ⟨rest, advAll loc ('r' :: q :: s ++ [q])⟩) := by
  rw [List.cons_append, List.cons_append, lexToken_raw q hq _ loc,
    lexString_rawrun q s _ (q :: rest) _ [] (by simp; omega) hs]
  obtain ⟨k, hk⟩ : ∃ k, (s ++ q :: rest).length + 1 - s.length = k + 1 :=
    ⟨(s ++ q :: rest).length - s.length, by simp; omega⟩
  rw [hk, lexString_close]
  simp [LexLit.finish, advAll_append]

/-- The same statement with a choice function: position `i` of `s` is written with spelling `choice i`. -/
def withChoice (choice : Nat → Esc) : Nat → List Char → List (Esc × Char)
  | _, [] => []
  | i, c :: r => (choice i, c) :: withChoice choice (i + 1) r

theorem valueOf_withChoice (choice : Nat → Esc) (s : List Char) : ∀ i, valueOf (withChoice choice i s) = s := by
  induction s with
  | nil => intro i; rfl
  | cons c r ih => intro i; simp [withChoice, valueOf] at *; exact ih (i + 1)

theorem string_roundtrip_choice (q : Char) (hq : isQuote q) (s : List Char) (choice : Nat → Esc)
    (hl : ∀ p ∈ withChoice choice 0 s, Legal false q p.1 p.2) (rest : List Char) (loc : Loc) :
    lexToken ⟨q :: encode (withChoice choice 0 s) ++ q :: rest, loc⟩ =
      .ok (some (.strLit s, ⟨loc, advAll loc (q :: encode (withChoice choice 0 s) ++ [q])⟩),
        ⟨rest, advAll loc (q :: encode (withChoice choice 0 s) ++ [q])⟩) := by
  rw [string_roundtrip q hq _ hl rest loc, valueOf_withChoice]

/-! ### rejected string literals -/

/-- Well-formed elements followed by something the loop fails on: the whole literal is an error. -/
theorem string_prefix_error (q : Char) (hq : isQuote q) (items : List (Esc × Char))
    (hl : ∀ p ∈ items, Legal false q p.1 p.2) (bad : List Char) (loc : Loc)
    (hbad : ∀ f l work, ∃ e, lexString q false false (f + 1) ⟨bad, l⟩ work [] = .error e) :
    ∃ e, lexToken ⟨q :: encode items ++ bad, loc⟩ = .error e := by
  rw [List.cons_append, lexToken_quote q hq _ loc]
  have hlen : items.length ≤ (encode items ++ bad).length + 1 := by
    have := length_le_encode items; simp; omega
  rw [lexString_items q hq false items _ bad _ [] hlen hl]
  obtain ⟨k, hk⟩ : ∃ k, (encode items ++ bad).length + 1 - items.length = k + 1 := by
    have := length_le_encode items
    exact ⟨(encode items ++ bad).length - items.length, by simp; omega⟩
  obtain ⟨e, he⟩ := hbad k (advAll (loc.adv q) (encode items)) ((items.map (·.2)).reverse ++ [])
  exact ⟨e, by rw [hk, he]; rfl⟩

/-- `\x`, `\u`, `\U` with all their digits but spelling no scalar value (a surrogate, or above 0x10FFFF). -/
theorem bad_codepoint_rejected (q : Char) (hq : isQuote q) (items : List (Esc × Char))
    (hl : ∀ p ∈ items, Legal false q p.1 p.2) (intro : Char) (n : Nat) (hs tail : List Char) (loc : Loc)
    (h : hexEscape intro n) (hn : hs.length = n) (hh : ∀ c ∈ hs, (hexDigitVal c).isSome = true)
    (hv : ¬ (spelled 16 hs).isValidChar) :
    ∃ e, lexToken ⟨q :: encode items ++ '\\' :: intro :: (hs ++ tail), loc⟩ = .error e :=
  string_prefix_error q hq items hl _ loc fun f l work =>
    lexString_hex_invalid q hq false f intro n hs tail l work [] h hn hh hv

/-- A hexadecimal escape cut short: by the end of the text or by a character that is no hex digit
    (the closing quote, for one). -/
theorem truncated_escape_rejected (q : Char) (hq : isQuote q) (items : List (Esc × Char))
    (hl : ∀ p ∈ items, Legal false q p.1 p.2) (intro : Char) (n : Nat) (hs tail : List Char) (loc : Loc)
    (h : hexEscape intro n) (hn : hs.length < n) (hh : ∀ c ∈ hs, (hexDigitVal c).isSome = true)
    (ht : ∀ c, tail.head? = some c → hexDigitVal c = none) :
    ∃ e, lexToken ⟨q :: encode items ++ '\\' :: intro :: (hs ++ tail), loc⟩ = .error e :=
  string_prefix_error q hq items hl _ loc fun f l work =>
    lexString_hex_short q hq false f intro n hs tail l work [] h hn hh ht

/-- An octal escape with fewer than three characters left, or with a digit outside `0..7` in any position. -/
theorem bad_octal_rejected (q : Char) (hq : isQuote q) (items : List (Esc × Char))
    (hl : ∀ p ∈ items, Legal false q p.1 p.2) (d0 : Char) (body : List Char) (loc : Loc) (hd : isDigit d0 = true)
    (h : body.length < 2 ∨ ∃ d1 d2 t, body = d1 :: d2 :: t ∧ (isOct d0 && isOct d1 && isOct d2) = false) :
    ∃ e, lexToken ⟨q :: encode items ++ '\\' :: d0 :: body, loc⟩ = .error e :=
  string_prefix_error q hq items hl _ loc fun f l work =>
    lexString_oct_bad q hq false f d0 body l work [] hd h

/-- No closing quote (also: a backslash as the last character). -/
theorem unterminated_rejected (q : Char) (hq : isQuote q) (items : List (Esc × Char))
    (hl : ∀ p ∈ items, Legal false q p.1 p.2) (loc : Loc) :
    (∃ e, lexToken ⟨q :: encode items ++ [], loc⟩ = .error e) ∧
    (∃ e, lexToken ⟨q :: encode items ++ ['\\'], loc⟩ = .error e) :=
  ⟨string_prefix_error q hq items hl [] loc fun f l work => ⟨_, lexString_eof q false false (f + 1) l work []⟩,
   string_prefix_error q hq items hl _ loc fun f l work => lexString_backslash_eof q hq false f l work []⟩

/-! ### Part 3 — bytes literals -/

inductive BEsc
  | named                                  -- `\a \b \f \n \r \t \v \\ \' \"`
  | hex2 (bigX : Bool) (up : Nat → Bool)   -- `\xHH` / `\XHH`
  | octal                                  -- `\ooo` (up to `\377`)

/-- One element of a bytes literal: a byte written as an escape, or a character written as itself
    (which stands for its UTF-8 bytes; a single byte for ASCII). -/
inductive BItem
  | byte (e : BEsc) (b : UInt8)
  | char (c : Char)

def byteNameOf (b : UInt8) : Option Char :=
  if b = 7 then some 'a' else if b = 8 then some 'b' else if b = 12 then some 'f'
  else if b = 10 then some 'n' else if b = 13 then some 'r' else if b = 9 then some 't'
  else if b = 11 then some 'v' else if b = 92 then some '\\' else if b = 39 then some '\''
  else if b = 34 then some '"' else none

def BItem.value : BItem → List UInt8
  | .byte _ b => [b]
  | .char c => utf8Bytes c

def BItem.spell : BItem → List Char
  | .byte .named b => (match byteNameOf b with | some n => ['\\', n] | none => ['\\', 'x', '0', '0'])
  | .byte (.hex2 bigX up) b => '\\' :: (if bigX then 'X' else 'x') :: hexFixed up 2 b.toNat
  | .byte .octal b => '\\' :: octDigits b.toNat
  | .char c => [c]

def BItem.Legal (q : Char) : BItem → Prop
  | .byte .named b => (byteNameOf b).isSome = true
  | .byte _ _ => True
  | .char c => c ≠ q ∧ c ≠ '\\'

/-- An ASCII character written as itself is the single byte with its code. -/
theorem ascii_char_value (c : Char) (h : c.toNat < 128) : (BItem.char c).value = [UInt8.ofNat c.toNat] :=
  utf8Bytes_ascii c h

def bencode (items : List BItem) : List Char := items.flatMap BItem.spell
def bvalue (items : List BItem) : List UInt8 := items.flatMap BItem.value

theorem bspell_ne_nil (i : BItem) : 0 < i.spell.length := by
  cases i with
  | char c => simp [BItem.spell]
  | byte e b =>
    cases e <;> simp [BItem.spell]
    split <;> simp

theorem length_le_bencode (items : List BItem) : items.length ≤ (bencode items).length := by
  induction items with
  | nil => simp [bencode]
  | cons p r ih =>
    have := bspell_ne_nil p
    simp only [bencode, List.flatMap_cons, List.length_append, List.length_cons] at *; omega

theorem byteNameOf_named (b : UInt8) (n : Char) (h : byteNameOf b = some n) : namedByte n b := by
  unfold byteNameOf at h
  unfold namedByte
  repeat' split at h
  all_goals first | (injection h with h; subst h; simp_all) | cases h

theorem lexBytes_item (q : Char) (hq : isQuote q) (f : Nat) (i : BItem) (tail : List Char) (loc : Loc)
    (acc : List UInt8) (hl : i.Legal q) :
    lexBytes q (f + 1) ⟨i.spell ++ tail, loc⟩ acc =
      lexBytes q f ⟨tail, advAll loc i.spell⟩ (i.value.reverse ++ acc) := by
  cases i with
  | char c => exact lexBytes_plain q f c tail loc acc hl.1 hl.2
  | byte e b =>
    cases e with
    | named =>
      simp only [BItem.Legal] at hl
      cases hn : byteNameOf b with
      | none => simp [hn] at hl
      | some n =>
        simp only [BItem.spell, hn, BItem.value]
        exact lexBytes_named q hq f n b tail loc acc (byteNameOf_named b n hn)
    | hex2 bigX up =>
      obtain ⟨h1, h2, _⟩ := hexFixed_spec up b.toNat 2
      have hv := spelled_hexFixed up 2 b.toNat (by have := b.toNat_lt; omega)
      simp only [BItem.spell, BItem.value, List.cons_append]
      exact lexBytes_hex q hq f _ _ tail loc acc b (by cases bigX <;> simp) h1 h2 hv
    | octal =>
      obtain ⟨h0, h1, h2, hv⟩ := octDigits_spec b.toNat (by have := b.toNat_lt; omega)
      simp only [BItem.spell, BItem.value, octDigits, List.cons_append, List.nil_append]
      exact lexBytes_oct q hq f _ _ _ tail loc acc b h0 h1 h2 hv

theorem lexBytes_items (q : Char) (hq : isQuote q) (items : List BItem) :
    ∀ (fuel : Nat) (tail : List Char) (loc : Loc) (acc : List UInt8),
    items.length ≤ fuel → (∀ i ∈ items, i.Legal q) →
    lexBytes q fuel ⟨bencode items ++ tail, loc⟩ acc =
      lexBytes q (fuel - items.length) ⟨tail, advAll loc (bencode items)⟩ ((bvalue items).reverse ++ acc) := by
  induction items with
  | nil => intro fuel tail loc acc _ _; simp [bencode, bvalue]
  | cons p r ih =>
    intro fuel tail loc acc hlen hl
    cases fuel with
    | zero => simp at hlen
    | succ f =>
      have e1 : bencode (p :: r) = p.spell ++ bencode r := by simp [bencode]
      have e2 : bvalue (p :: r) = p.value ++ bvalue r := by simp [bvalue]
      rw [e1, e2, List.append_assoc, lexBytes_item q hq f p _ loc acc (hl p (by simp))]
      rw [ih f tail _ _ (by simpa using hlen) (fun x hx => hl x (by simp [hx]))]
      simp [advAll_append]

/-- Bytes literal: any bytes, each written with any legal escape (or characters written as themselves,
    standing for their UTF-8 bytes), either quote — the token is exactly the byte string spelled. -/
theorem bytes_roundtrip (q : Char) (hq : isQuote q) (items : List BItem) (hl : ∀ i ∈ items, i.Legal q)
    (rest : List Char) (loc : Loc) :
    lexToken ⟨'b' :: q :: bencode items ++ q :: rest, loc⟩ =
      .ok (some (.bytesLit (bvalue items), ⟨loc, advAll loc ('b' :: q :: bencode items ++ [q])⟩),
        ⟨rest, advAll loc ('b' :: q :: bencode items ++ [q])⟩) := by
  rw [List.cons_append, List.cons_append, lexToken_bytes q hq _ loc]
  have hlen : items.length ≤ (bencode items ++ q :: rest).length + 1 := by
    have := length_le_bencode items; simp; omega
  rw [lexBytes_items q hq items _ (q :: rest) _ [] hlen hl]
  obtain ⟨k, hk⟩ : ∃ k, (bencode items ++ q :: rest).length + 1 - items.length = k + 1 := by
    have := length_le_bencode items
    exact ⟨(bencode items ++ q :: rest).length - items.length, by simp; omega⟩
  rw [hk, lexBytes_close]
  simp [LexLit.finish, advAll_append]

/-- Every byte string is the value of a literal: all bytes as `\xHH`, say. -/
theorem bytes_roundtrip_all (q : Char) (hq : isQuote q) (bs : List UInt8) (e : UInt8 → BEsc)
    (he : ∀ b ∈ bs, (BItem.byte (e b) b).Legal q) (rest : List Char) (loc : Loc) :
    ∃ sp sc, lexToken ⟨'b' :: q :: bencode (bs.map fun b => .byte (e b) b) ++ q :: rest, loc⟩ =
      .ok (some (.bytesLit bs, sp), sc) := by
  have hv : ∀ l : List UInt8, bvalue (l.map fun b => BItem.byte (e b) b) = l := by
    intro l
    induction l with
    | nil => rfl
    | cons b r ih => simp [bvalue, BItem.value] at *; exact ih
  have hl : ∀ i ∈ bs.map (fun b => BItem.byte (e b) b), i.Legal q := by
    intro i hi; simp at hi; obtain ⟨b, hb, rfl⟩ := hi; exact he b hb
  have := bytes_roundtrip q hq _ hl rest loc
  rw [hv bs] at this
  exact ⟨_, _, this⟩

theorem bytes_prefix_error (q : Char) (hq : isQuote q) (items : List BItem) (hl : ∀ i ∈ items, i.Legal q)
    (bad : List Char) (loc : Loc)
    (hbad : ∀ f l acc, ∃ e, lexBytes q (f + 1) ⟨bad, l⟩ acc = .error e) :
    ∃ e, lexToken ⟨'b' :: q :: bencode items ++ bad, loc⟩ = .error e := by
  rw [List.cons_append, List.cons_append, lexToken_bytes q hq _ loc]
  have hlen : items.length ≤ (bencode items ++ bad).length + 1 := by
    have := length_le_bencode items; simp; omega
  rw [lexBytes_items q hq items _ bad _ [] hlen hl]
  obtain ⟨k, hk⟩ : ∃ k, (bencode items ++ bad).length + 1 - items.length = k + 1 := by
    have := length_le_bencode items
    exact ⟨(bencode items ++ bad).length - items.length, by simp; omega⟩
  obtain ⟨e, he⟩ := hbad k (advAll ((loc.adv 'b').adv q) (bencode items)) ((bvalue items).reverse ++ [])
  exact ⟨e, by rw [hk, he]; rfl⟩

/-- In a bytes literal: an octal escape above `\377`, a malformed octal escape, a truncated `\x`,
    a missing closing quote. -/
theorem bytes_malformed_rejected (q : Char) (hq : isQuote q) (items : List BItem) (hl : ∀ i ∈ items, i.Legal q)
    (loc : Loc) :
    (∀ d0 d1 d2 tail, isOct d0 = true → isOct d1 = true → isOct d2 = true →
        255 < (d0.toNat - 48) * 64 + (d1.toNat - 48) * 8 + (d2.toNat - 48) →
        ∃ e, lexToken ⟨'b' :: q :: bencode items ++ '\\' :: d0 :: d1 :: d2 :: tail, loc⟩ = .error e) ∧
    (∀ d0 body, isDigit d0 = true →
        (body.length < 2 ∨ ∃ d1 d2 t, body = d1 :: d2 :: t ∧ (isOct d0 && isOct d1 && isOct d2) = false) →
        ∃ e, lexToken ⟨'b' :: q :: bencode items ++ '\\' :: d0 :: body, loc⟩ = .error e) ∧
    (∀ x hs tail, (x = 'x' ∨ x = 'X') → hs.length < 2 → (∀ c ∈ hs, (hexDigitVal c).isSome = true) →
        (∀ c, tail.head? = some c → hexDigitVal c = none) →
        ∃ e, lexToken ⟨'b' :: q :: bencode items ++ '\\' :: x :: (hs ++ tail), loc⟩ = .error e) ∧
    (∃ e, lexToken ⟨'b' :: q :: bencode items ++ [], loc⟩ = .error e) := by
  refine ⟨?_, ?_, ?_, ?_⟩
  · intro d0 d1 d2 tail h0 h1 h2 hv
    exact bytes_prefix_error q hq items hl _ loc fun f l acc => lexBytes_oct_big q hq f d0 d1 d2 tail l acc h0 h1 h2 hv
  · intro d0 body hd h
    exact bytes_prefix_error q hq items hl _ loc fun f l acc => lexBytes_oct_bad q hq f d0 body l acc hd h
  · intro x hs tail hx hn hh ht
    exact bytes_prefix_error q hq items hl _ loc fun f l acc => lexBytes_hex_short q hq f x hs tail l acc hx hn hh ht
  · exact bytes_prefix_error q hq items hl [] loc fun f l acc => ⟨_, lexBytes_eof q (f + 1) l acc⟩

/-! ### Part 4 — evaluation: the whole pipeline on a literal

`evalSrc` is what the driver's `exec` command computes and the harness compares with
`CelContext::exec`: the lazy tokenizer, the parser (with the int range check), the folding compiler and
the VM, for any built-ins and any environment. -/

open ParseLit

inductive Outcome
  | syntaxError
  | value (v : Val)
  | failed (a : Abort)

def evalSrc (B : Builtins) (env : Env) (src : Str) : Outcome :=
  match parseProgram lazySrc src with
  | .error _ => .syntaxError
  | .ok a =>
    match (execProg B env (compileProgram B a)).res with
    | .ok v => .value v
    | .error a => .failed a

section
variable (B : Builtins) (env : Env)

/-- A program that is one literal token evaluates to that token's value. -/
theorem eval_single (src : Str) (t : Tok) (sp : Span) (l : Loc) (p : Prim) (v : Val)
    (hlex : lexToken ⟨src, ⟨0, 0⟩⟩ = .ok (some (t, sp), ⟨[], l⟩))
    (hp : litPrim false sp t = some p) (hv : primVal p = some v) :
    evalSrc B env src = .value v := by
  unfold evalSrc
  rw [parse_single l src t sp p hlex hp]
  simp only [exec_literal B env sp p v hv]

/-- A lexical error anywhere in the first token makes the program a syntax error. -/
theorem lex_error_is_syntax_error (src : Str) (h : ∃ e, lexToken ⟨src, ⟨0, 0⟩⟩ = .error e) :
    evalSrc B env src = .syntaxError := by
  obtain ⟨e, he⟩ := h
  obtain ⟨e', h'⟩ := parse_lex_error src e he
  simp [evalSrc, h']

theorem i64Max_eq : i64Max = 9223372036854775807 := rfl

theorem litPrim_int (m : Bool) (sp : Span) (n : Nat) (h : n < 2 ^ 63) :
    litPrim m sp (.intLit n) = some (.int sp n) := by
  have hn : ((n : Nat) : Int) ≤ i64Max := by rw [i64Max_eq]; omega
  simp [litPrim, hn]

/-- Every int in `0 .. 2^63-1`, written in decimal, evaluates to itself. -/
theorem int_dec_roundtrip (n : Nat) (h : n < 2 ^ 63) : evalSrc B env (decOf n) = .value (.int n) := by
  obtain ⟨h1, h2, h3⟩ := decAux_spec n n (Nat.le_refl n)
  have ht := dec_spelling_token (decOf n) [] ⟨0, 0⟩ h2 h3 trivial
  rw [show spelled 10 (decOf n) = n from h1, List.append_nil] at ht
  have hle : n ≤ u64Limit := by unfold u64Limit; omega
  rw [if_pos hle] at ht
  exact eval_single B env _ _ _ _ _ _ ht (litPrim_int false _ n h) rfl

/-- … and in hexadecimal, `0x` or `0X`, any letter case per digit. -/
theorem int_hex_roundtrip (n : Nat) (h : n < 2 ^ 63) (x : Char) (hx : x = 'x' ∨ x = 'X') (up : Nat → Bool) :
    evalSrc B env ('0' :: x :: hexOf up n) = .value (.int n) := by
  obtain ⟨h1, h2, h3⟩ := hexAux_spec up n n (Nat.le_refl n)
  have ht := hex_spelling_token x (hexOf up n) [] ⟨0, 0⟩ hx h2 h3 trivial
  rw [show spelled 16 (hexOf up n) = n from h1, List.append_nil] at ht
  have hle : n ≤ u64Limit := by unfold u64Limit; omega
  rw [if_pos hle] at ht
  exact eval_single B env _ _ _ _ _ _ ht (litPrim_int false _ n h) rfl

/-- Every uint `0 .. 2^64-1` with the `u` / `U` suffix, decimal and hexadecimal. -/
theorem uint_roundtrip (n : Nat) (h : n < 2 ^ 64) (u : Char) (hu : u = 'u' ∨ u = 'U') :
    evalSrc B env (decOf n ++ [u]) = .value (.uint n) ∧
    ∀ (x : Char) (_ : x = 'x' ∨ x = 'X') (up : Nat → Bool),
      evalSrc B env ('0' :: x :: hexOf up n ++ [u]) = .value (.uint n) := by
  have hle : n ≤ u64Limit := by unfold u64Limit; omega
  constructor
  · obtain ⟨h1, h2, h3⟩ := decAux_spec n n (Nat.le_refl n)
    have ht := dec_u_spelling_token (decOf n) [] u ⟨0, 0⟩ h2 h3 hu
    rw [show spelled 10 (decOf n) = n from h1, if_pos hle] at ht
    exact eval_single B env _ _ _ _ (.uint _ n) _ ht rfl rfl
  · intro x hx up
    obtain ⟨h1, h2, h3⟩ := hexAux_spec up n n (Nat.le_refl n)
    have ht := hex_u_spelling_token x u (hexOf up n) [] ⟨0, 0⟩ hx h2 h3 hu
    rw [show spelled 16 (hexOf up n) = n from h1, if_pos hle] at ht
    exact eval_single B env _ _ _ _ (.uint _ n) _ ht rfl rfl

/-- Negative ints through unary minus, down to `-9223372036854775808` (= -2^63). -/
theorem int_neg_roundtrip (n : Nat) (h : n ≤ 2 ^ 63) : evalSrc B env ('-' :: decOf n) = .value (.int (-(n : Int))) := by
  obtain ⟨h1, h2, h3⟩ := decAux_spec n n (Nat.le_refl n)
  have ht := dec_spelling_token (decOf n) [] ⟨0, 1⟩ h2 h3 trivial
  rw [show spelled 10 (decOf n) = n from h1, List.append_nil] at ht
  have hle : n ≤ u64Limit := by unfold u64Limit; omega
  rw [if_pos hle] at ht
  unfold evalSrc
  by_cases hmin : n = 2 ^ 63
  · have hp : litPrim (isMinTok (.intLit n)) ⟨⟨0, 1⟩, advAll ⟨0, 1⟩ (decOf n)⟩ (.intLit n) =
        some (.int ⟨⟨0, 1⟩, advAll ⟨0, 1⟩ (decOf n)⟩ i64Min) := by
      subst hmin; simp [litPrim, isMinTok, minIntMagnitude, i64Max_eq]
    rw [parse_neg_single _ (decOf n) _ _ _ ht hp]
    simp only [compile_neg_min, exec_push_int]
    subst hmin; rfl
  · have hlt : n < 2 ^ 63 := by omega
    have hp := litPrim_int (isMinTok (.intLit n)) ⟨⟨0, 1⟩, advAll ⟨0, 1⟩ (decOf n)⟩ n hlt
    have hne : (n : Int) ≠ i64Min := by unfold i64Min; omega
    rw [parse_neg_single _ (decOf n) _ _ _ ht hp]
    simp only [compile_neg_int B _ _ _ _ hne, exec_neg_int B env n (by rw [inI64_iff]; omega)]

/-- An int literal spelling a number above the int range is rejected — whether it still fits 64 bits
    (the parser's check) or not (the tokenizer's). -/
theorem int_out_of_range_rejected (n : Nat) (h : 2 ^ 63 ≤ n) : evalSrc B env (decOf n) = .syntaxError := by
  obtain ⟨h1, h2, h3⟩ := decAux_spec n n (Nat.le_refl n)
  have ht := dec_spelling_token (decOf n) [] ⟨0, 0⟩ h2 h3 trivial
  rw [show spelled 10 (decOf n) = n from h1, List.append_nil] at ht
  by_cases hle : n ≤ u64Limit
  · rw [if_pos hle] at ht
    obtain ⟨e, he⟩ := parse_single_out_of_range (decOf n) n _ _ ht (by rw [i64Max_eq]; omega)
    simp [evalSrc, he]
  · rw [if_neg hle] at ht
    exact lex_error_is_syntax_error B env _ ⟨_, ht⟩

/-- A uint literal above 2^64-1 is rejected. -/
theorem uint_out_of_range_rejected (n : Nat) (h : 2 ^ 64 ≤ n) (u : Char) (hu : u = 'u' ∨ u = 'U') :
    evalSrc B env (decOf n ++ [u]) = .syntaxError := by
  obtain ⟨h1, h2, h3⟩ := decAux_spec n n (Nat.le_refl n)
  have ht := dec_u_spelling_token (decOf n) [] u ⟨0, 0⟩ h2 h3 hu
  have hle : ¬ n ≤ u64Limit := by unfold u64Limit; omega
  rw [show spelled 10 (decOf n) = n from h1, if_neg hle] at ht
  exact lex_error_is_syntax_error B env _ ⟨_, ht⟩

/-- A negated literal below -2^63 is rejected. -/
theorem neg_out_of_range_rejected (n : Nat) (h : 2 ^ 63 < n) : evalSrc B env ('-' :: decOf n) = .syntaxError := by
  obtain ⟨h1, h2, h3⟩ := decAux_spec n n (Nat.le_refl n)
  have ht := dec_spelling_token (decOf n) [] ⟨0, 1⟩ h2 h3 trivial
  rw [show spelled 10 (decOf n) = n from h1, List.append_nil] at ht
  by_cases hle : n ≤ u64Limit
  · rw [if_pos hle] at ht
    obtain ⟨e, he⟩ := parse_neg_out_of_range (decOf n) n _ _ ht (by unfold minIntMagnitude; omega)
    simp [evalSrc, he]
  · rw [if_neg hle] at ht
    obtain ⟨e, he⟩ := parse_neg_lex_error (decOf n) _ ht
    simp [evalSrc, he]

/-- String, format-string, raw-string and bytes literals evaluate to what they spell. -/
theorem string_eval (q : Char) (hq : isQuote q) (items : List (Esc × Char))
    (hl : ∀ p ∈ items, Legal false q p.1 p.2) :
    evalSrc B env (q :: encode items ++ [q]) = .value (.str (valueOf items)) :=
  eval_single B env _ _ _ _ (.str _ _) _ (string_roundtrip q hq items hl [] ⟨0, 0⟩) rfl rfl

theorem fstring_eval (q : Char) (hq : isQuote q) (items : List (Esc × Char))
    (hl : ∀ p ∈ items, Legal true q p.1 p.2) :
    evalSrc B env ('f' :: q :: encode items ++ [q]) = .value (.str (valueOf items)) :=
  eval_single B env _ _ _ _ (.str _ _) _ (fstring_roundtrip q hq items hl [] ⟨0, 0⟩) rfl rfl

theorem raw_eval (q : Char) (hq : isQuote q) (s : List Char) (hs : q ∉ s) :
    evalSrc B env ('r' :: q :: s ++ [q]) = .value (.str s) :=
  eval_single B env _ _ _ _ (.str _ _) _ (raw_roundtrip q hq s hs [] ⟨0, 0⟩) rfl rfl

theorem bytes_eval (q : Char) (hq : isQuote q) (items : List BItem) (hl : ∀ i ∈ items, i.Legal q) :
    evalSrc B env ('b' :: q :: bencode items ++ [q]) = .value (.bytes (bvalue items)) :=
  eval_single B env _ _ _ _ (.bytes _ _) _ (bytes_roundtrip q hq items hl [] ⟨0, 0⟩) rfl rfl

/-! ### doubles

The lexeme of a double is exactly `digits [. digits] [(e|E) [+|-] digits]` (or `. digits [exponent]`), and
its value is `F.ofDecimal m e`: the model's exact, big-integer conversion of the decimal number
`m * 10^e` the text spells (`m`: all mantissa digits, `e`: the exponent minus the number of fraction
digits).  That `F.ofDecimal` rounds correctly (nearest, ties to even — Rust's `str::parse::<f64>`) is
checked by the harness with exact arithmetic on every generated double and on midpoint cases. -/

open LexFloat in
/-- Integer digits first. -/
theorem double_eval (c : Char) (ds : List Char) (fp : Option (List Char)) (ex : Option ExpPart)
    (hc : isDigit c = true) (hds : ∀ x ∈ ds, isDigit x = true)
    (hfp : ∀ f, fp = some f → ∀ x ∈ f, isDigit x = true) (hex : expOk ex)
    (hfloat : fp.isSome = true ∨ ex.isSome = true) :
    evalSrc B env (c :: afterFirst ds fp ex) =
      .value (.float (F.ofDecimal (digitsVal (c :: ds ++ fp.getD [])) (expVal ex - ((fp.getD []).length : Int)))) := by
  have ht := float_token_digit c ds fp ex [] ⟨0, 0⟩ hc hds hfp hex ⟨trivial, by intro _ _ c h; simp at h⟩ hfloat
  rw [List.append_nil] at ht
  exact eval_single B env _ _ _ _ _ _ ht rfl rfl

open LexFloat in
/-- Leading dot. -/
theorem double_dot_eval (d : Char) (fp : List Char) (ex : Option ExpPart)
    (hd : isDigit d = true) (hfp : ∀ x ∈ fp, isDigit x = true) (hex : expOk ex) :
    evalSrc B env ('.' :: d :: fp ++ expText ex) =
      .value (.float (F.ofDecimal (digitsVal (d :: fp)) (expVal ex - (((d :: fp).length : Nat) : Int)))) := by
  have ht := float_token_dot d fp ex [] ⟨0, 0⟩ hd hfp hex trivial
  rw [List.append_nil] at ht
  exact eval_single B env _ _ _ _ _ _ ht rfl rfl

open LexFloat in
/-- A minus in front flips the sign bit (`-0.0` included). -/
theorem double_neg_eval (c : Char) (ds : List Char) (fp : Option (List Char)) (ex : Option ExpPart)
    (hc : isDigit c = true) (hds : ∀ x ∈ ds, isDigit x = true)
    (hfp : ∀ f, fp = some f → ∀ x ∈ f, isDigit x = true) (hex : expOk ex)
    (hfloat : fp.isSome = true ∨ ex.isSome = true) :
    evalSrc B env ('-' :: c :: afterFirst ds fp ex) =
      .value (.float (F.neg (F.ofDecimal (digitsVal (c :: ds ++ fp.getD [])) (expVal ex - ((fp.getD []).length : Int))))) := by
  have ht := float_token_digit c ds fp ex [] ⟨0, 1⟩ hc hds hfp hex ⟨trivial, by intro _ _ c h; simp at h⟩ hfloat
  rw [List.append_nil] at ht
  unfold evalSrc
  rw [parse_neg_single _ _ _ _ _ ht rfl]
  simp only [compile_neg_float, exec_neg_float]

/-- `true`, `false`, `null`. -/
theorem bool_null :
    evalSrc B env "true".toList = .value (.bool true) ∧ evalSrc B env "false".toList = .value (.bool false) ∧
    evalSrc B env "null".toList = .value .null :=
  ⟨eval_single B env _ (.boolLit true) ⟨⟨0, 0⟩, ⟨0, 4⟩⟩ ⟨0, 4⟩ (.bool _ true) _ rfl rfl rfl,
   eval_single B env _ (.boolLit false) ⟨⟨0, 0⟩, ⟨0, 5⟩⟩ ⟨0, 5⟩ (.bool _ false) _ rfl rfl rfl,
   eval_single B env _ .null ⟨⟨0, 0⟩, ⟨0, 4⟩⟩ ⟨0, 4⟩ (.null _) _ rfl rfl rfl⟩

end

/-! ### Non-vacuity: the hypotheses are satisfiable, and instances agree with direct computation -/

section examples
open LexFloat
variable (B : Builtins) (env : Env)

-- what may follow a number
example : numStop 10 " + 1".toList ∧ numStop 16 ")".toList ∧ numStop 10 [] := by
  refine ⟨?_, ?_, trivial⟩ <;> simp [numStop, numChar, isDigit, hexDigitVal] <;> decide

-- dec_spelling_token / dec_u_spelling_token / hex_spelling_token / hex_u_spelling_token
example : lexToken ⟨"007 + 1".toList, ⟨0, 0⟩⟩ =
    .ok (some (.intLit 7, ⟨⟨0, 0⟩, ⟨0, 3⟩⟩), ⟨" + 1".toList, ⟨0, 3⟩⟩) := rfl
example : lexToken ⟨"18446744073709551615Ux".toList, ⟨0, 0⟩⟩ =
    .ok (some (.uintLit 18446744073709551615, ⟨⟨0, 0⟩, ⟨0, 21⟩⟩), ⟨"x".toList, ⟨0, 21⟩⟩) := rfl
example : lexToken ⟨"18446744073709551616".toList, ⟨0, 0⟩⟩ = .error ⟨⟨0, 20⟩⟩ := rfl
example : ∀ c ∈ "0fFaA9".toList, (hexDigitVal c).isSome = true := by decide

-- int_dec_roundtrip, int_hex_roundtrip, uint_roundtrip, int_neg_roundtrip and the rejections, at the limits
example : evalSrc B env "9223372036854775807".toList = .value (.int 9223372036854775807) :=
  int_dec_roundtrip B env 9223372036854775807 (by decide)
example : evalSrc B env "0X7fffFFFFffffffff".toList = .value (.int 9223372036854775807) := by
  have h := int_hex_roundtrip B env 9223372036854775807 (by decide) 'X' (Or.inr rfl)
    (fun n => decide (0x7ffff ≤ n ∧ n ≤ 0x7fffffff))
  have e : ('0' :: 'X' :: hexOf (fun n => decide (0x7ffff ≤ n ∧ n ≤ 0x7fffffff)) 9223372036854775807) =
      "0X7fffFFFFffffffff".toList := by decide
  rw [e] at h; exact h
example : evalSrc B env "18446744073709551615u".toList = .value (.uint 18446744073709551615) :=
  (uint_roundtrip B env 18446744073709551615 (by decide) 'u' (Or.inl rfl)).1
example : evalSrc B env "-9223372036854775808".toList = .value (.int (-9223372036854775808)) :=
  int_neg_roundtrip B env 9223372036854775808 (by decide)
example : evalSrc B env "9223372036854775808".toList = .syntaxError :=
  int_out_of_range_rejected B env 9223372036854775808 (by decide)
example : evalSrc B env "18446744073709551616u".toList = .syntaxError :=
  uint_out_of_range_rejected B env 18446744073709551616 (by decide) 'u' (Or.inl rfl)
example : evalSrc B env "-9223372036854775809".toList = .syntaxError :=
  neg_out_of_range_rejected B env 9223372036854775809 (by decide)

-- strings: one element per spelling
def sampleItems : List (Esc × Char) :=
  [(.plain, 'a'), (.named, '\n'), (.hex2 false (fun _ => true), 'é'), (.octal, 'A'),
   (.u4 (fun i => i % 2 == 0), '€'), (.u8 (fun _ => false), '😀'), (.named, '"'), (.plain, '\'')]

theorem sampleItems_legal : ∀ p ∈ sampleItems, Legal false '"' p.1 p.2 := by
  intro p hp
  simp [sampleItems] at hp
  rcases hp with rfl|rfl|rfl|rfl|rfl|rfl|rfl|rfl <;> simp [Legal, nameOf] <;> decide

example : encode sampleItems = "a\\n\\xE9\\101\\u20aC\\U0001f600\\\"'".toList := by decide
example : valueOf sampleItems = "a\néA€😀\"'".toList := by decide
example : evalSrc B env ('"' :: encode sampleItems ++ ['"']) = .value (.str (valueOf sampleItems)) :=
  string_eval B env '"' (Or.inr rfl) sampleItems sampleItems_legal
example : Legal true '\'' .brace '{' ∧ Legal true '\'' .plain 'x' := by simp [Legal]
example : ('"' : Char) ∉ "a\\b'c".toList := by decide

-- rejected: a surrogate, a value above 0x10FFFF, a truncated and a malformed escape
example : ¬ (spelled 16 "d800".toList).isValidChar ∧ ¬ (spelled 16 "00110000".toList).isValidChar := by decide
example : lexToken ⟨"'\\ud800'".toList, ⟨0, 0⟩⟩ = .error ⟨⟨0, 7⟩⟩ := rfl
example : lexToken ⟨"'\\x4'".toList, ⟨0, 0⟩⟩ = .error ⟨⟨0, 5⟩⟩ := rfl
example : (isOct '1' && isOct '8' && isOct '0') = false := by decide
example : lexToken ⟨"'\\180'".toList, ⟨0, 0⟩⟩ = .error ⟨⟨0, 5⟩⟩ := rfl

-- bytes
def sampleBytes : List BItem :=
  [.byte .named 10, .byte (.hex2 true (fun _ => false)) 255, .byte .octal 200, .char 'z', .char 'é']

theorem sampleBytes_legal : ∀ i ∈ sampleBytes, i.Legal '\'' := by
  intro i hi
  simp [sampleBytes] at hi
  rcases hi with rfl|rfl|rfl|rfl|rfl <;> simp [BItem.Legal, byteNameOf] <;> decide

example : bencode sampleBytes = "\\n\\Xff\\310zé".toList := by decide
example : evalSrc B env ('b' :: '\'' :: bencode sampleBytes ++ ['\'']) = .value (.bytes (bvalue sampleBytes)) :=
  bytes_eval B env '\'' (Or.inl rfl) sampleBytes sampleBytes_legal
example : lexToken ⟨"b'\\400'".toList, ⟨0, 0⟩⟩ = .error ⟨⟨0, 6⟩⟩ := rfl

-- doubles: 12.50e-3, .5, 7e2
def sampleExp : ExpPart := ⟨'e', some '-', ['3']⟩
example : expOk (some sampleExp) := ⟨Or.inl rfl, by intro s h; injection h with h; subst h; exact Or.inr rfl, by decide, by decide⟩
example : '1' :: afterFirst ['2'] (some ['5', '0']) (some sampleExp) = "12.50e-3".toList := by decide
example : evalSrc B env "12.50e-3".toList = .value (.float (F.ofDecimal 1250 (-5))) :=
  double_eval B env '1' ['2'] (some ['5', '0']) (some sampleExp) rfl (by decide) (by intro f h; injection h with h; subst h; decide)
    ⟨Or.inl rfl, by intro s h; injection h with h; subst h; exact Or.inr rfl, by decide, by decide⟩ (Or.inl rfl)

end examples

end C13
end Rscel
