import RscelModel.Theorems.C05Compile2
import RscelModel.Theorems.C17Sem
/-
C17, the evaluation half, on the larger fragment `Frag2` (`Model/Spec.lean`; `Theorems/C05Compile2.lean`):
map literals, f-strings, field access, index, calls of built-in functions / type constructors / macros (in
function and method position), type patterns of `match` — the call arguments and receivers, macro ranges and
bodies, f-string segments, index expressions, map keys and values of the property text.

`Theorems/C17Sem.lean` has the same statements on the smaller fragment `Frag`; the coincidence lemma used
here is the second half of `C05Compile2.good_all` (`Irr`: the value of a tree of `Frag2` does not distinguish
environments that agree on the identifiers of the tree), which the compiler-correctness induction carries
along for `check_for_const`.

* `params_sufficient2_partial` — two environments (with bindings, of the same mode) that agree — type-name
  table and parameter binding — on every name of `params e` give `evalSpec B e` the same value;
* `exec_agree_on_params2_partial` — the same about executions of the compiled program
  (`exec_correct2_partial`: standard environments, nesting depth within the budget);
* `unreported_irrelevant2`, `exec_unreported_irrelevant2` — a name that is not reported is irrelevant;
* `params_no_binding_error2_partial`, `exec_params_no_binding_error2`, `binding_failure_needs_unbound_name2` —
  if every reported name is the name of a built-in function or macro (`filter_from_bindings` removes those), a
  type name or bound, the result is the result under every extension of the environment.

What "reported" means here: `params e` lists *every* identifier primary — variables, but also the name of a
called function (`size` in `size(x)`) and the loop variables of macros (`v` in `l.all(v, v > 0)`).  The
hypotheses quantify over all of `params e`, so the two environments are assumed to agree on those names as
well (for a loop variable this is more than needed: the macro rebinds it).

NOT covered (`…_partial`): trees outside `Frag2` (see the header of `Model/Spec.lean`: callees that are not
names, uncalled bound methods, `has`/`coalesce` in method position, loop variables named like a built-in),
functions bound by the caller, stored programs.
-/
namespace Rscel
namespace C17Sem2
open Rscel.Seq Rscel.C05Compile Rscel.C05Compile2 Rscel.C17Sem

variable {B : Builtins}

/-- With bindings present and the same mode (`compileMode`: whether `has`/`coalesce` exist), what a name
    denotes in call position depends on the built-in table only. -/
theorem fnKind_same_mode {env₁ env₂ : Env} (h1 : env₁.hasBinds = true) (h2 : env₂.hasBinds = true)
    (hm : env₁.compileMode = env₂.compileMode) (n : Str) : fnKind B env₁ n = fnKind B env₂ n := by
  simp only [fnKind, Env.isMacro, Env.getType, h1, h2, hm]

theorem methodKind_same_mode {env₁ env₂ : Env} (h1 : env₁.hasBinds = true) (h2 : env₂.hasBinds = true)
    (hm : env₁.compileMode = env₂.compileMode) (o : Val) (n : Str) :
    methodKind B env₁ o n = methodKind B env₂ o n := by
  simp only [methodKind, Env.isMacro, h1, h2, hm]

/-- Agreement in the sense of `C05Compile2` from agreement of what the identifiers resolve to. -/
theorem agree2_of_resolve {env₁ env₂ : Env} (h1 : env₁.hasBinds = true) (h2 : env₂.hasBinds = true)
    (hm : env₁.compileMode = env₂.compileMode) {ids : List Str}
    (hres : ∀ n ∈ ids, resolveIdent env₁ n = resolveIdent env₂ n) : C05Compile2.AgreeOn B ids env₁ env₂ :=
  ⟨h1, h2, hres, fun n _ => fnKind_same_mode h1 h2 hm n, fun o n _ => methodKind_same_mode h1 h2 hm o n⟩

/-! ## agreeing bindings give the same result -/

/-- **Coincidence lemma** (`Frag2`).  Two environments that agree on every reported name give the tree the
    same value — a failure included. -/
theorem params_sufficient2_partial (hB : BuiltinsOK B) {e : Ast} (h : Frag2 B e) {env₁ env₂ : Env}
    (h1 : env₁.hasBinds = true) (h2 : env₂.hasBinds = true) (hm : env₁.compileMode = env₂.compileMode)
    (hag : C17Sem.AgreeOn (params e) env₁ env₂) : evalSpec B e env₁ = evalSpec B e env₂ :=
  (good_all hB h).2 env₁ env₂
    (agree2_of_resolve h1 h2 hm (fun n hn => resolve_of_agree (hag n (C17.mem_dedup.mpr hn))))

/-- **Executions of the compiled program** under two bindings that agree on all reported names give the
    same result (value or failure, and log): expressions with calls, macros, map literals, f-strings, index
    and field access, type patterns. -/
theorem exec_agree_on_params2_partial (hB : BuiltinsOK B) {env₁ env₂ : Env} (h1 : StdEnv B env₁) (h2 : StdEnv B env₂)
    (hm : env₁.compileMode = env₂.compileMode) {e : Ast} (h : Frag2 B e) (hd : depth e < maxDepth)
    (hag : C17Sem.AgreeOn (params e) env₁ env₂) :
    execProg B env₁ (compileProgram B e) = execProg B env₂ (compileProgram B e) := by
  show run B env₁ e = run B env₂ e
  rw [exec_correct2_partial hB h1 h hd, exec_correct2_partial hB h2 h hd,
    params_sufficient2_partial hB h h1.binds h2.binds hm hag]

/-! ## a name that is not reported is irrelevant -/

/-- Changing (adding, replacing, removing) the binding of a name that is **not reported** does not change
    the value. -/
theorem unreported_irrelevant2 (hB : BuiltinsOK B) {e : Ast} (h : Frag2 B e) {x : Str} (hx : x ∉ params e)
    {env₁ env₂ : Env} (h1 : env₁.hasBinds = true) (h2 : env₂.hasBinds = true)
    (hm : env₁.compileMode = env₂.compileMode) (hd : DifferOnlyAt x env₁ env₂) :
    evalSpec B e env₁ = evalSpec B e env₂ :=
  params_sufficient2_partial hB h h1 h2 hm (fun n hn => hd n (fun hnx => hx (hnx ▸ hn)))

/-- The compiled program, executed with and without a binding (to a data value, under a name that is not
    the name of a built-in function or macro) for an unreported name. -/
theorem exec_unreported_irrelevant2 (hB : BuiltinsOK B) {env : Env} (henv : StdEnv B env) {e : Ast}
    (h : Frag2 B e) (hd : depth e < maxDepth) {x : Str} (hx : x ∉ params e) (hcx : callableName B x = false)
    {v : Val} (hv : Data v) :
    execProg B (env.bind x v) (compileProgram B e) = execProg B env (compileProgram B e) :=
  exec_agree_on_params2_partial hB (henv.bind hcx hv) henv rfl h hd
    (fun n hn => differ_bind env x v n (fun hnx => hx (hnx ▸ hn)))

/-! ## binding every reported name is sufficient -/

/-- Every name of `ns` is the name of a built-in function or macro (what `filter_from_bindings` removes from
    the reported names: a function name needs no binding), a type name, or a bound parameter. -/
def AllBound2 (B : Builtins) (env : Env) (ns : List Str) : Prop :=
  ∀ n ∈ ns, callableName B n = true ∨ (env.getType n).isSome ∨ (env.getParam n).isSome

/-- No parameter has the name of a built-in function or macro (part of `StdEnv`). -/
def NoShadow (B : Builtins) (env : Env) : Prop := ∀ n, callableName B n = true → env.getParam n = none

theorem resolve_of_extends2 {env env' : Env} (hs : NoShadow B env) (hs' : NoShadow B env')
    (hext : Extends env env') {n : Str}
    (hb : callableName B n = true ∨ (env.getType n).isSome ∨ (env.getParam n).isSome) :
    resolveIdent env' n = resolveIdent env n := by
  rcases hb with hc | hb
  · unfold resolveIdent
    rw [hext.1 n, hs n hc, hs' n hc]
  · exact resolve_of_extends hext hb

/-- **Binding the reported names suffices** (`Frag2`).  If every reported name is a function / macro name, a
    type name or bound, the value of `e` is its value under every extension of the environment (neither
    environment binds a parameter under the name of a built-in function). -/
theorem params_no_binding_error2_partial (hB : BuiltinsOK B) {e : Ast} (h : Frag2 B e) {env env' : Env}
    (h1 : env.hasBinds = true) (h2 : env'.hasBinds = true) (hm : env'.compileMode = env.compileMode)
    (hs : NoShadow B env) (hs' : NoShadow B env')
    (hb : AllBound2 B env (params e)) (hext : Extends env env') : evalSpec B e env' = evalSpec B e env :=
  (good_all hB h).2 env' env
    (agree2_of_resolve h2 h1 hm (fun n hn => resolve_of_extends2 hs hs' hext (hb n (C17.mem_dedup.mpr hn))))

/-- The compiled program: executed under any (standard) extension of a binding set that covers the reported
    names, it gives the result it gives under that set. -/
theorem exec_params_no_binding_error2 (hB : BuiltinsOK B) {env env' : Env} (henv : StdEnv B env)
    (henv' : StdEnv B env') (hm : env'.compileMode = env.compileMode) {e : Ast} (h : Frag2 B e)
    (hd : depth e < maxDepth) (hb : AllBound2 B env (params e)) (hext : Extends env env') :
    execProg B env' (compileProgram B e) = execProg B env (compileProgram B e) := by
  show run B env' e = run B env e
  rw [exec_correct2_partial hB henv' h hd, exec_correct2_partial hB henv h hd,
    params_no_binding_error2_partial hB h henv.binds henv'.binds hm henv.noShadow henv'.noShadow hb hext]

/-- Contrapositive reading: if some extension of the environment changes the value, a *reported* name is
    neither a function / macro name, nor a type name, nor bound. -/
theorem binding_failure_needs_unbound_name2 (hB : BuiltinsOK B) {e : Ast} (h : Frag2 B e) {env env' : Env}
    (h1 : env.hasBinds = true) (h2 : env'.hasBinds = true) (hm : env'.compileMode = env.compileMode)
    (hs : NoShadow B env) (hs' : NoShadow B env')
    (hext : Extends env env') (hne : evalSpec B e env' ≠ evalSpec B e env) :
    ∃ n ∈ params e, callableName B n = false ∧ env.getType n = none ∧ env.getParam n = none := by
  apply Classical.byContradiction
  intro hno
  apply hne
  apply params_no_binding_error2_partial hB h h1 h2 hm hs hs' _ hext
  intro n hn
  cases hc : callableName B n with
  | true => exact Or.inl rfl
  | false =>
    cases ht : env.getType n with
    | some t => exact Or.inr (Or.inl rfl)
    | none =>
      cases hp : env.getParam n with
      | some v => exact Or.inr (Or.inr rfl)
      | none => exact absurd ⟨n, hn, hc, ht, hp⟩ hno

/-! ## non-vacuity

`size([x, 1]) + {"a": y}.a` over the demonstration table `demoB` of `C05Compile2` (`size` as a function):
a call with a partly constant argument, a map literal and a field access. -/

/-- `size([x, 1])` -/
def exCall : Ast := callE "size" [listLit [var "x", lit 1]]
/-- `{"a": y}.a` -/
def exField : Ast :=
  .member sp0 (.map sp0 [.mk sp0 (strLit "a") (var "y")]) [.access sp0 sp0 "a".toList]
/-- `size([x, 1]) + {"a": y}.a` -/
def ex2 : Ast := .bin sp0 .add exCall exField

theorem exCall_frag : Frag2 demoB exCall :=
  frag_call (by
    intro a ha
    simp only [List.mem_singleton] at ha; subst ha
    exact frag_list (by
      intro e he
      simp only [List.mem_cons, List.mem_nil_iff, or_false] at he
      rcases he with rfl | rfl
      · exact frag_var _
      · exact frag_lit _)) (by decide)

theorem exField_frag : Frag2 demoB exField := by
  refine .member _ _ _ (fun _ _ h => by cases h) (fun _ _ h => by cases h) ?_ ?_
    (fun _ _ h => by cases h) ?_ ?_ (by decide)
  · intro sp' inits h sp'' k v hm
    cases h
    simp only [List.mem_singleton, MInit.mk.injEq] at hm
    obtain ⟨_, rfl, _⟩ := hm
    exact frag_str _
  · intro sp' inits h sp'' k v hm
    cases h
    simp only [List.mem_singleton, MInit.mk.injEq] at hm
    obtain ⟨_, _, rfl⟩ := hm
    exact frag_var _
  · intro sp' args hm; simp at hm
  · intro sp' e hm; simp at hm

theorem ex2_frag : Frag2 demoB ex2 := .bin _ _ _ _ exCall_frag exField_frag

theorem ex2_params : params ex2 = ["size".toList, "x".toList, "y".toList] := by decide

def envP : Env := { params := [("x".toList, .int 5), ("y".toList, .uint 3), ("z".toList, .int 1)] }
def envQ : Env := { params := [("y".toList, .uint 3), ("z".toList, .str "other".toList), ("x".toList, .int 5)] }

theorem data_of_lookup {ps : List (Str × Val)} (hps : ∀ p ∈ ps, Data p.2) :
    ∀ n v, lookup ps n = some v → Data v := by
  induction ps with
  | nil => intro n v h; simp [lookup] at h
  | cons p rest ih =>
    intro n v h
    simp only [lookup] at h
    split at h
    · cases h; exact hps p (List.mem_cons_self ..)
    · exact ih (fun q hq => hps q (List.mem_cons_of_mem _ hq)) n v h

theorem noShadow_of_lookup {ps : List (Str × Val)} (hps : ∀ p ∈ ps, callableName demoB p.1 = false) :
    ∀ n, callableName demoB n = true → lookup ps n = none := by
  induction ps with
  | nil => intro n _; rfl
  | cons p rest ih =>
    intro n hn
    simp only [lookup]
    split
    · rename_i heq; subst heq; rw [hps p (List.mem_cons_self ..)] at hn; cases hn
    · exact ih (fun q hq => hps q (List.mem_cons_of_mem _ hq)) n hn

/-- An environment that only binds parameters, to data, under names that are not callable, is standard. -/
theorem std_of_params (ps : List (Str × Val)) (hd : ∀ p ∈ ps, isData p.2 = true)
    (hc : ∀ p ∈ ps, callableName demoB p.1 = false) : StdEnv demoB { params := ps } :=
  { noProgs := noProgs_of_nil rfl, binds := rfl, noUser := rfl,
    params := fun n v h => data_of_lookup hd n v (by simpa [Env.getParam] using h),
    noShadow := fun n hn => by
      simp only [Env.getParam, if_true]
      exact noShadow_of_lookup hc n hn }

theorem stdP : StdEnv demoB envP := std_of_params _ (by decide) (by decide)
theorem stdQ : StdEnv demoB envQ := std_of_params _ (by decide) (by decide)

theorem agreePQ : C17Sem.AgreeOn (params ex2) envP envQ := by
  rw [ex2_params]
  intro n hn
  simp only [List.mem_cons, List.mem_nil_iff, or_false] at hn
  rcases hn with rfl | rfl | rfl <;> exact ⟨rfl, rfl⟩

-- params_sufficient2_partial / exec_agree_on_params2_partial: envP and envQ differ in order and in `z`
example : evalSpec demoB ex2 envP = evalSpec demoB ex2 envQ :=
  params_sufficient2_partial demoB_ok ex2_frag rfl rfl rfl agreePQ
example : execProg demoB envP (compileProgram demoB ex2) = execProg demoB envQ (compileProgram demoB ex2) :=
  exec_agree_on_params2_partial demoB_ok stdP stdQ rfl ex2_frag (by decide) agreePQ
-- … and the common value is `2u + 3u = 5u`, so the statement is not about two failures only
example : evalSpec demoB ex2 envP = .uint 5 := by rfl
-- unreported_irrelevant2 / exec_unreported_irrelevant2: `z` is not reported
example : evalSpec demoB ex2 (envP.bind "z".toList (.str "s".toList)) = evalSpec demoB ex2 envP :=
  unreported_irrelevant2 demoB_ok ex2_frag (by rw [ex2_params]; decide) rfl rfl rfl (differ_bind envP _ _)
example : execProg demoB (envP.bind "z".toList .null) (compileProgram demoB ex2) =
    execProg demoB envP (compileProgram demoB ex2) :=
  exec_unreported_irrelevant2 demoB_ok stdP ex2_frag (by decide) (by rw [ex2_params]; decide) (by decide) rfl
-- … while `y` is reported, and rebinding it does change the value
example : evalSpec demoB ex2 (envP.bind "y".toList (.uint 0)) ≠ evalSpec demoB ex2 envP := by
  rw [show evalSpec demoB ex2 (envP.bind "y".toList (.uint 0)) = .uint 2 from rfl,
    show evalSpec demoB ex2 envP = .uint 5 from rfl]
  intro h; cases h
-- params_no_binding_error2_partial / exec_params_no_binding_error2: envP binds x and y, `size` is a function
theorem allBoundP : AllBound2 demoB envP (params ex2) := by
  rw [ex2_params]
  intro n hn
  simp only [List.mem_cons, List.mem_nil_iff, or_false] at hn
  rcases hn with rfl | rfl | rfl
  · exact Or.inl (by decide)
  · exact Or.inr (Or.inr rfl)
  · exact Or.inr (Or.inr rfl)
theorem extendsP : Extends envP (envP.bind "w".toList (.int 9)) := by
  refine ⟨fun _ => rfl, fun n v h => ?_⟩
  by_cases hw : "w".toList = n
  · subst hw; cases h
  · rw [getParam_bind_ne _ _ hw]; exact h
theorem stdPw : StdEnv demoB (envP.bind "w".toList (.int 9)) := stdP.bind (by decide) rfl
example : evalSpec demoB ex2 (envP.bind "w".toList (.int 9)) = evalSpec demoB ex2 envP :=
  params_no_binding_error2_partial demoB_ok ex2_frag rfl rfl rfl stdP.noShadow stdPw.noShadow allBoundP extendsP
example : execProg demoB (envP.bind "w".toList (.int 9)) (compileProgram demoB ex2) =
    execProg demoB envP (compileProgram demoB ex2) :=
  exec_params_no_binding_error2 demoB_ok stdP stdPw rfl ex2_frag (by decide) allBoundP extendsP
-- binding_failure_needs_unbound_name2: without `y` the field access fails with a Binding failure, and the
-- extension that binds `y` changes the value
def envX2 : Env := { params := [("x".toList, .int 5)] }
theorem stdX2 : StdEnv demoB envX2 := std_of_params _ (by decide) (by decide)
example : evalSpec demoB ex2 envX2 = .err .binding := by rfl
example : ∃ n ∈ params ex2, callableName demoB n = false ∧ envX2.getType n = none ∧ envX2.getParam n = none :=
  binding_failure_needs_unbound_name2 demoB_ok ex2_frag (env' := envX2.bind "y".toList (.uint 3)) rfl rfl rfl
    stdX2.noShadow (stdX2.bind (v := .uint 3) (by decide) rfl).noShadow
    ⟨fun _ => rfl, fun n v h => by
      by_cases hy : "y".toList = n
      · subst hy; cases h
      · rw [getParam_bind_ne _ _ hy]; exact h⟩
    (by
      rw [show evalSpec demoB ex2 (envX2.bind "y".toList (.uint 3)) = .uint 5 from rfl,
        show evalSpec demoB ex2 envX2 = .err .binding from rfl]
      intro h; cases h)

end C17Sem2
end Rscel
