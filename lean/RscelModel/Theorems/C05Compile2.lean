import RscelModel.Lemmas.Seq2
import RscelModel.Lemmas.Unres
import RscelModel.Lemmas.BuiltinsData
import RscelModel.Theorems.C05Compile
/-
C05 / C09 — compiler correctness on the larger fragment `Frag2` (Model/Spec.lean), by level of the
call-depth budget.

`Frag2 B` = the fragment of `C05Compile` (literals, identifiers, parentheses, list literals, `!`/`-` runs, the
14 binary operators with `||`/`&&` chains, `?:`, `match` with `_`/comparison patterns) plus
  * map literals `{k: v, …}` (folded by `foldMap` or built by MKDICT; last duplicate key wins, a key that
    is not a string gives the Value failure of the VM),
  * index `o[i]` and field access `o.name` (folded or not) on any value of the fragment,
  * calls by name `f(a, …)` and by method `o.f(a, …)` of built-in functions and type constructors
    (`T(a)`), folded by `check_for_const` or not,
  * f-strings (segments through `string(·)`, then FMT),
  * the macros `has`, `coalesce`, `all`, `exists`, `exists_one`, `filter`, `map` (two forms), `reduce` with
    bodies from the fragment,
  * `match` type patterns naming a type of the type table (`case int:` is `type(s) == int`).

Main statements (all for every `B` with `BuiltinsOK B`: built-ins map data to data; every environment with
`StdEnv B env`: a run-time environment (not the compiler's own interpreter, the only one whose
unresolved-name flag is read) without stored programs, no functions bound by the caller, parameters bound to
data — no identifier or code block inside — and not named like a built-in function or macro):
  `compile_correct2_partial`  `depth e ≤ b`, `b < maxDepth` ⊢ the emitted code `Runs` (Lemmas/Seq.lean) to
                              `evalSpec B e env` with `rec := runAt B b`: nested blocks (arguments, macro
                              bodies, f-string segments) are run by the callback one level down, and the
                              statement is proved for all levels at once (`good_all`, induction on the tree
                              with the level and the environment universally quantified inside).
  `run_level_partial`         `runAt B (b+1) env code true log = outOf (evalSpec B e env) log`.
  `exec_correct2_partial`     `execProg` of the compiled program, when `depth e < maxDepth`.
  `fold_sound2_partial`       every constant the compiler computed — `check_for_const` included — is
                              `evalSpec B e env`;  `folded_env_irrelevant`.
  `fold_call_sound_partial`   the C09 statement for calls: a closed clock-free call that `check_for_const`
                              folded to `v`: the unfolded CALL sequence yields `v` at run time in every
                              standard environment.
  corollaries                 `call_builtin` (arguments left to right, then the function),
                              `failing_arg_fails_call`, `call_ctor`, `has_spec_compiled`,
                              `has_true_of_value`, `has_false_of_absent`, `coalesce_laziness`,
                              `index_spec`, `field_spec`, `map_literal_spec`, `evalSpec_data`.

How the fold case is proved: `check_for_const` folds only when its run returned a value (and, since fix
4d08d12, met no name it could not resolve — the fold is then simply not taken, which needs no proof).  The
unresolved-name flag is write-only for the VM (`Lemmas/Unres.lean`: `runAt_untracked`), so that run returns
what the run in `compileEnv0` — the compile-time bindings without the flag, a standard environment —
returns, and that is the same theorem at level `maxDepth - 1`; `evalSpec` does not distinguish environments
that agree on the identifiers of a closed tree (`Irr`, `agree_of_closed`, carried through the same induction).

STILL NOT covered (`…_partial`):
  * a call whose callee is not a name: `(e)(..)`, `e[i](..)`, `f(..)(..)`;
  * a member access `o.f` that is not called when `f` names a built-in function or macro (the VM leaves a
    bound method on the stack; it is no value);
  * `has` / `coalesce` in method position (`o.has(..)`), loop variables (and parameters) that have the
    name of a built-in function or macro, type patterns naming no table type (`list`, `object`, `null`):
    for the first two the compile-time run of `check_for_const` meets a name it cannot resolve (two defects
    found by this proof: `dyn([[1].has(1)])`, `[1].map(size, dyn([size]))`; repaired by fix 4d08d12 — such a
    run is no longer folded — and the model follows, `markUnres`), but the proof's invariant `Irr` does not
    hold for these trees and does not see the flag, see `methodOK` / `loopVarOK` in Model/Spec.lean;
  * a macro whose loop-variable argument is not an identifier;
  * functions bound by the caller and hence call logs (the log is shown to stay as it is), identifiers
    naming stored programs, environments without bindings;
`BuiltinsOK` holds for the model's own tables `tableBuiltins t now` / `stdBuiltins now`
(Lemmas/BuiltinsData.lean: `tableBuiltins_ok`, `stdBuiltins_ok`); `exec_correct2_std`,
`compile_correct2_std`, `fold_sound2_std` are the statements for those tables without that hypothesis.
-/
set_option autoImplicit false
namespace Rscel
namespace C05Compile2
open Rscel.Seq Rscel.C05Compile

/-! ### equations of `evalSpec` -/

section
variable {B : Builtins}

theorem es_call (sp sp' sp'' : Span) (f : Str) (args : List Ast) (rest : List MOp) (env : Env) :
    evalSpec B (.member sp (.ident sp' f) (.call sp'' args :: rest)) env =
      evalSpecOps B (callOf B (fnKind B env f) f (evalSpecList B args env).reverse
        (fun this => evalSpecMacro B f this args env)) rest env := by
  rw [evalSpec]

theorem es_member (sp : Span) (p : Prim) (chain : List MOp) (env : Env)
    (h : ∀ sp' f sp'' args rest, p = .ident sp' f → chain = .call sp'' args :: rest → False) :
    evalSpec B (.member sp p chain) env = evalSpecOps B (evalSpecPrim B p env) chain env := by
  rw [evalSpec]; exact h

theorem eso_nil (v : Val) (env : Env) : evalSpecOps B v [] env = v := by rw [evalSpecOps]

theorem eso_method (v : Val) (sp i sp' : Span) (name : Str) (args : List Ast) (rest : List MOp) (env : Env) :
    evalSpecOps B v (.access sp i name :: .call sp' args :: rest) env =
      evalSpecOps B (callOf B (methodKind B env v name) name (evalSpecList B args env).reverse
        (fun this => evalSpecMacro B name this args env)) rest env := by
  rw [evalSpecOps]

theorem eso_field (v : Val) (sp i : Span) (name : Str) (rest : List MOp) (env : Env)
    (h : ∀ sp' args rest', rest = .call sp' args :: rest' → False) :
    evalSpecOps B v (.access sp i name :: rest) env = evalSpecOps B (fieldOf v name) rest env := by
  rw [evalSpecOps]; exact h

theorem eso_index (v : Val) (sp : Span) (e : Ast) (rest : List MOp) (env : Env) :
    evalSpecOps B v (.index sp e :: rest) env = evalSpecOps B (index v (evalSpec B e env)) rest env := by
  rw [evalSpecOps]

def initKey : MInit → Ast
  | .mk _ k _ => k
def initVal : MInit → Ast
  | .mk _ _ v => v

theorem evalSpecInits_eq (inits : List MInit) (env : Env) :
    evalSpecInits B inits env = inits.map (fun i => (evalSpec B (initKey i) env, evalSpec B (initVal i) env)) := by
  induction inits with
  | nil => simp [evalSpecInits]
  | cons i is ih => cases i; simp [evalSpecInits, ih, initKey, initVal]

theorem compileInits_eq (inits : List MInit) :
    compileInits B inits =
      interleaveKV (inits.map (fun i => ((compileX B (initKey i)).cp, (compileX B (initVal i)).cp))) := by
  induction inits with
  | nil => simp [compileInits, interleaveKV]
  | cons i is ih => cases i; simp [compileInits, ih, initKey, initVal, interleaveKV]

end

/-! ### the invariant -/

section
variable (B : Builtins)

/-- The environments of the theorems: `EnvOK` (no stored programs, bindings present, no functions bound by the
    caller, parameters bound to data), and no parameter has the name of a built-in function or macro
    (`check_for_const` takes such a name for closed). -/
structure StdEnv (env : Env) : Prop extends EnvOK env where
  noShadow : ∀ n, callableName B n = true → env.getParam n = none

/-- What the induction proves of a tree `e`: in every good environment, at every level of the depth budget
    that covers the nesting depth of `e`, the compiled node satisfies the invariant `Inv` of `C05Compile`
    (its code runs to `evalSpec B e env`, a folded constant is that value, chain pieces run), and the value
    is data. -/
def GoodRun (e : Ast) : Prop :=
  ∀ b env, StdEnv B env → depth e ≤ b → b < maxDepth →
    Inv B (runAt B b) (runFresh B) env (compileX B e) (evalSpec B e env) ∧ Data (evalSpec B e env)

/-- The same for a bare `CP` and a value given as a function of the environment. -/
def CGood (d : Nat) (cp : CP) (valf : Env → Val) : Prop :=
  ∀ b env, StdEnv B env → d ≤ b → b < maxDepth →
    Runs B (runAt B b) (runFresh B) env cp.toCode (valf env) ∧ (∀ c, cp = .const c → c = valf env) ∧
      Data (valf env)

variable {B}

theorem GoodRun.cgood {e : Ast} (h : GoodRun B e) : CGood B (depth e) (compileX B e).cp (evalSpec B e) := by
  intro b env henv hd hb
  obtain ⟨i, d⟩ := h b env henv hd hb
  exact ⟨i.runs, fun c hc => (i.const c hc).1, d⟩

theorem CGood.mono {d d' : Nat} {cp : CP} {valf : Env → Val} (h : CGood B d cp valf) (hd : d ≤ d') :
    CGood B d' cp valf :=
  fun b env henv hd' hb => h b env henv (Nat.le_trans hd hd') hb

theorem cgood_const {v : Val} (hv : Data v) (d : Nat) : CGood B d (.const v) (fun _ => v) :=
  fun _ _ _ _ _ => ⟨runs_push hv.plain, fun c h => (by cases h; rfl), hv⟩

theorem good_of_cgood {e : Ast} (h : CGood B (depth e) (compileX B e).cp (evalSpec B e))
    (hch : (compileX B e).chain = none) : GoodRun B e := by
  intro b env henv hd hb
  obtain ⟨r, c, d⟩ := h b env henv hd hb
  exact ⟨⟨r, fun v hv => ⟨c v hv, by rw [c v hv]; exact d.plain⟩, fun _ _ _ hh => by rw [hch] at hh; cases hh⟩, d⟩

/-! ### the constructors of the smaller fragment, again -/

theorem good_notRun (sp : Span) (ops : List Span) (m : Ast) (h : GoodRun B m) : GoodRun B (.notRun sp ops m) := by
  intro b env henv hd hb
  rw [depth] at hd
  obtain ⟨ih, dm⟩ := h b env henv hd hb
  have hcx : compileX B (.notRun sp ops m) =
      { cp := .code ((compileX B m).cp.toCode ++ List.replicate ops.length .not) } := by simp [compileX]
  have hes : evalSpec B (.notRun sp ops m) env = applyN vNot ops.length (evalSpec B m env) := by simp [evalSpec]
  rw [hcx, hes]
  exact ⟨inv_code (runs_unrun henv.noProgs step_not plain_vNot ih.runs _), data_applyN data_vNot dm _⟩

theorem good_negRun (sp : Span) (ops : List Span) (m : Ast) (h : GoodRun B m) : GoodRun B (.negRun sp ops m) := by
  intro b env henv hd hb
  rw [depth] at hd
  obtain ⟨ih, dm⟩ := h b env henv hd hb
  have hes : evalSpec B (.negRun sp ops m) env = applyN neg (negCount ops m) (evalSpec B m env) := by simp [evalSpec]
  rw [cx_neg, hes]
  exact ⟨inv_code (runs_unrun henv.noProgs step_neg plain_neg ih.runs _), data_applyN data_neg dm _⟩

theorem good_bin (sp : Span) (op : BinOp) (l r : Ast) (hl : GoodRun B l) (hr : GoodRun B r) :
    GoodRun B (.bin sp op l r) := by
  intro b env henv hd hb
  rw [depth] at hd
  obtain ⟨ihl, dl⟩ := hl b env henv (by omega) hb
  obtain ⟨ihr, dr⟩ := hr b env henv (by omega) hb
  have hnp := henv.noProgs
  by_cases hlazy : op = .or ∨ op = .and
  · rw [cx_lazy B sp op l r hlazy, es_lazy sp op l r env hlazy]
    obtain ⟨v0, cvs, hrest, h0, hcv, hval⟩ := chainParts_inv ihl op
    have hcv' : ∀ p ∈ cvs ++ [((compileX B r).cp.toCode, evalSpec B r env)],
        Runs B (runAt B b) (runFresh B) env p.1 p.2 := by
      intro p hp
      rcases List.mem_append.mp hp with hp | hp
      · exact hcv p hp
      · simp only [List.mem_singleton] at hp; subst hp; exact ihr.runs
    have hrest' : (chainParts (compileX B l) op).2 ++ [(compileX B r).cp.toCode] =
        (cvs ++ [((compileX B r).cp.toCode, evalSpec B r env)]).map (·.1) := by simp [hrest]
    have hvalue : chainVal (op == .or) op.apply (evalSpec B l env) [evalSpec B r env] =
        chainVal (op == .or) op.apply v0 ((cvs ++ [((compileX B r).cp.toCode, evalSpec B r env)]).map (·.2)) := by
      rw [List.map_append, List.map_cons, List.map_nil, chainVal_snoc, ← hval]
    have hdata : Data (chainVal (op == .or) op.apply (evalSpec B l env) [evalSpec B r env]) := by
      apply data_chainVal _ _ _ dl
      intro a b
      rcases hlazy with rfl | rfl
      · exact data_vOr _ _
      · exact data_vAnd _ _
    refine ⟨?_, hdata⟩
    rw [hvalue, hrest']
    have hruns := runs_chain hnp (wf := op == .or) (step_binop op) (plain_apply op) h0 _ hcv'
    refine ⟨hruns, fun _ h => (by cases h), ?_⟩
    intro op' first rest hch
    simp only [Option.some.injEq, Prod.mk.injEq] at hch
    obtain ⟨rfl, rfl, rfl⟩ := hch
    exact ⟨hlazy, v0, _, rfl, h0, hcv', rfl⟩
  · have h1 : op ≠ .or := fun h => hlazy (Or.inl h)
    have h2 : op ≠ .and := fun h => hlazy (Or.inr h)
    have hcx : compileX B (.bin sp op l r) =
        (match (compileX B l).cp, (compileX B r).cp with
         | .const a, .const b => { cp := .const (op.apply a b) }
         | cl, cr => { cp := .code (cl.toCode ++ cr.toCode ++ [op.instr]) }) := by
      simp [compileX, h1, h2]
      rfl
    rw [hcx, es_bin sp op l r env h1 h2]
    refine ⟨?_, data_apply op dl dr⟩
    split
    · rename_i a b ha hb
      rw [← (ihl.const a ha).1, ← (ihr.const b hb).1]
      exact inv_const (plain_apply op a b)
    · exact inv_code (runs_binop hnp (step_binop op) (plain_apply op) ihl.runs ihr.runs)

theorem good_tern (sp : Span) (c t f : Ast) (hc : GoodRun B c) (ht : GoodRun B t) (hf : GoodRun B f) :
    GoodRun B (.tern sp c t f) := by
  intro b env henv hd hb
  rw [depth] at hd
  obtain ⟨ihc, _⟩ := hc b env henv (by omega) hb
  obtain ⟨iht, dt⟩ := ht b env henv (by omega) hb
  obtain ⟨ihf, df⟩ := hf b env henv (by omega) hb
  have hcx : compileX B (.tern sp c t f) =
      (match (compileX B c).cp with
       | .const (.err k) => { cp := .const (.err k) }
       | .const v => { cp := if truthy v then (compileX B t).cp else (compileX B f).cp }
       | .code code => { cp := .code (ternCode code (compileX B t).cp.toCode (compileX B f).cp.toCode) }) := by
    simp [compileX]
    rfl
  rw [hcx, es_tern]
  refine ⟨?_, data_ternVal dt df⟩
  split
  · rename_i k hc
    rw [← (ihc.const _ hc).1]
    exact inv_const (plain_err k)
  · rename_i v hne hc
    rw [← (ihc.const _ hc).1, ternVal_nonerr (fun k hk => hne k hk)]
    cases truthy v
    · exact inv_cp ihf
    · exact inv_cp iht
  · rename_i code hc
    have hr := ihc.runs
    rw [hc] at hr
    exact inv_code (runs_tern henv.noProgs hr iht.runs ihf.runs)

theorem depth_case_le {cases : List MCase} {c : MCase} (h : c ∈ cases) :
    depthPat (casePat c) ≤ depthCases cases ∧ depth (caseBody c) ≤ depthCases cases := by
  induction cases with
  | nil => cases h
  | cons c' cs ih =>
    cases c' with
    | mk sp p b =>
      rw [depthCases]
      rcases List.mem_cons.mp h with rfl | h
      · simp only [casePat, caseBody]; omega
      · have := ih h; omega

theorem evalSpecPat_type (sp : Span) (t : TypePat) (name : Str) (vs : Val) (env : Env) :
    evalSpecPat B (.type sp t name) vs env =
      valEq (callRaw B (fnKind B env "type".toList) [vs]) (resolveIdent env name) := by
  rw [evalSpecPat]

theorem data_matchVal : ∀ (l : List (Val × Val)), (∀ p ∈ l, Data p.2) → Data (matchVal l) := by
  intro l
  induction l with
  | nil => intro _; rfl
  | cons p ps ih =>
    obtain ⟨r, a⟩ := p
    intro h
    simp only [matchVal]
    split
    · exact h _ (List.mem_cons_self ..)
    · exact ih (fun q hq => h q (List.mem_cons_of_mem _ hq))

theorem good_match (hB : BuiltinsOK B) (sp : Span) (s : Ast) (cases : List MCase) (hs : GoodRun B s)
    (harm : ∀ sp' p b, MCase.mk sp' p b ∈ cases → GoodRun B b)
    (hcmp : ∀ sp' sp1 sp2 op e b, MCase.mk sp' (.cmp sp1 sp2 op e) b ∈ cases → GoodRun B e) :
    GoodRun B (.match_ sp s cases) := by
  intro b env henv hd hb
  rw [depth] at hd
  obtain ⟨ihs, ds⟩ := hs b env henv (by omega) hb
  have hnp := henv.noProgs
  have hcx : compileX B (.match_ sp s cases) =
      { cp := .code ((compileX B s).cp.toCode ++ matchTail (compileCases B cases)) } := by simp [compileX]
  have hes : evalSpec B (.match_ sp s cases) env = evalSpecCases B cases (evalSpec B s env) env := by rw [evalSpec]
  rw [hcx, hes, compileCases_eq, evalSpecCases_eq]
  have hv : Plain (evalSpec B s env) := ds.plain
  have harm' : ∀ c ∈ cases, Inv B (runAt B b) (runFresh B) env (compileX B (caseBody c)) (evalSpec B (caseBody c) env) ∧
      Data (evalSpec B (caseBody c) env) := by
    intro c hc
    have hdc := (depth_case_le hc).2
    cases c with
    | mk sp' p bd => exact harm sp' p bd hc b env henv (by simp only [caseBody] at hdc ⊢; omega) hb
  have := runs_match (B := B) (rec := runAt B b) (top := runFresh B) hnp ihs.runs hv
    (cases.map (fun c => ((compilePat B (casePat c), (compileX B (caseBody c)).cp.toCode),
      (evalSpecPat B (casePat c) (evalSpec B s env) env, evalSpec B (caseBody c) env))))
    (fun q hq => by
      obtain ⟨c, hc, rfl⟩ := List.mem_map.mp hq
      have hdc := (depth_case_le hc).1
      have ha := (harm' c hc).1.runs
      cases c with
      | mk sp' p bd =>
        simp only [casePat, caseBody] at hdc ha ⊢
        refine ⟨?_, ?_, ha⟩
        · cases p with
          | any _ => simp [evalSpecPat, BoolOrErr]
          | cmp _ _ op e => simp only [evalSpecPat]; exact boe_cmp _ _ _
          | type sp1 t name => rw [evalSpecPat_type]; exact boe_valEq _ _
        · cases p with
          | any _ => simp only [compilePat, evalSpecPat]; exact go_pat_any hnp _
          | cmp sp1 sp2 op e =>
            simp only [compilePat, evalSpecPat]
            rw [depthPat] at hdc
            exact go_pat_cmp hnp (step_cmp op) hv ((hcmp sp' sp1 sp2 op e bd hc) b env henv (by omega) hb).1.runs
          | type sp1 t name =>
            rw [evalSpecPat_type]
            simp only [compilePat]
            exact go_pat_type henv.toEnvOK hB ds name)
  refine ⟨?_, ?_⟩
  · apply inv_code
    simpa [List.map_map, Function.comp_def] using this
  · apply data_matchVal
    intro p hp
    obtain ⟨c, hc, rfl⟩ := List.mem_map.mp hp
    exact (harm' c hc).2

/-! ### blocks one level down -/

/-- A nested block (call argument, macro body, f-string segment) run by the callback of level `b`. -/
theorem block_runs {e : Ast} (h : GoodRun B e) {b : Nat} {env : Env} (henv : StdEnv B env) (hd : depth e + 1 ≤ b)
    (hb : b < maxDepth) (log : Log) :
    runAt B b env (compileX B e).cp.toCode true log = outOf (evalSpec B e env) log := by
  cases b with
  | zero => omega
  | succ b' => exact runAt_of_runs henv.noProgs b' (h b' env henv (by omega) (by omega)).1.runs log

/-! ### primaries -/

theorem depth_list_le {es : List Ast} {e : Ast} (h : e ∈ es) : depth e ≤ depthList es := by
  induction es with
  | nil => cases h
  | cons x xs ih =>
    rw [depthList]
    rcases List.mem_cons.mp h with rfl | h
    · omega
    · have := ih h; omega

theorem depth_init_le {inits : List MInit} {i : MInit} (h : i ∈ inits) :
    depth (initKey i) ≤ depthInits inits ∧ depth (initVal i) ≤ depthInits inits := by
  induction inits with
  | nil => cases h
  | cons x xs ih =>
    cases x with
    | mk sp k v =>
      rw [depthInits]
      rcases List.mem_cons.mp h with rfl | h
      · simp only [initKey, initVal]; omega
      · have := ih h; omega

theorem mem_interleaveKV {α : Type} {l : List (α × α)} {x : α} (h : x ∈ interleaveKV l) :
    ∃ p ∈ l, x = p.1 ∨ x = p.2 := by
  induction l with
  | nil => simp [interleaveKV] at h
  | cons p ps ih =>
    obtain ⟨k, v⟩ := p
    simp only [interleaveKV, List.mem_cons] at h
    rcases h with rfl | rfl | h
    · exact ⟨_, List.mem_cons_self .., Or.inr rfl⟩
    · exact ⟨_, List.mem_cons_self .., Or.inl rfl⟩
    · obtain ⟨q, hq, hx⟩ := ih h
      exact ⟨q, List.mem_cons_of_mem _ hq, hx⟩

theorem good_list_prim (sp : Span) (es : List Ast) (ih : ∀ e ∈ es, GoodRun B e) :
    CGood B (depthPrim (.list sp es)) (compilePrim B (.list sp es)) (evalSpecPrim B (.list sp es)) := by
  intro b env henv hd hb
  rw [depthPrim] at hd
  have ihe : ∀ e ∈ es, Inv B (runAt B b) (runFresh B) env (compileX B e) (evalSpec B e env) ∧ Data (evalSpec B e env) :=
    fun e he => ih e he b env henv (Nat.le_trans (depth_list_le he) hd) hb
  have hcp : compilePrim B (.list sp es) =
      (match allConst (es.map (fun e => (compileX B e).cp)) with
        | some vs => .const (.list vs)
        | none => .code (((es.map (fun e => (compileX B e).cp)).map CP.toCode).flatten ++ [.mkList es.length])) := by
    simp [compilePrim, compileList_eq]
    rfl
  have hes : evalSpecPrim B (.list sp es) env = .list (es.map (fun e => evalSpec B e env)) := by
    simp [evalSpecPrim, evalSpecList_eq]
  have hdata : Data (Val.list (es.map (fun e => evalSpec B e env))) := by
    rw [data_list]; intro x hx
    obtain ⟨e, he, rfl⟩ := List.mem_map.mp hx
    exact (ihe e he).2
  rw [hcp, hes]
  refine ⟨?_, ?_, hdata⟩
  · split
    · rename_i vs hvs
      have := allConst_map (fun e => (compileX B e).cp) (fun e => evalSpec B e env) es vs hvs
        (fun e he v hv => (((ihe e he).1).const v hv).1)
      rw [this]
      exact runs_push hdata.plain
    · have := runs_mkList (B := B) (rec := runAt B b) (top := runFresh B) henv.noProgs
        (es.map (fun e => ((compileX B e).cp.toCode, evalSpec B e env)))
        (fun p hp => by
          obtain ⟨e, he, rfl⟩ := List.mem_map.mp hp
          exact (ihe e he).1.runs)
      simpa [List.map_map, Function.comp_def, CP.toCode] using this
  · intro c hc
    split at hc
    · rename_i vs hvs
      have := allConst_map (fun e => (compileX B e).cp) (fun e => evalSpec B e env) es vs hvs
        (fun e he v hv => (((ihe e he).1).const v hv).1)
      cases hc
      rw [this]
    · cases hc

theorem good_map_prim (sp : Span) (inits : List MInit) (ihk : ∀ i ∈ inits, GoodRun B (initKey i))
    (ihv : ∀ i ∈ inits, GoodRun B (initVal i)) :
    CGood B (depthPrim (.map sp inits)) (compilePrim B (.map sp inits)) (evalSpecPrim B (.map sp inits)) := by
  intro b env henv hd hb
  rw [depthPrim] at hd
  have ihk' : ∀ i ∈ inits, Inv B (runAt B b) (runFresh B) env (compileX B (initKey i)) (evalSpec B (initKey i) env) ∧
      Data (evalSpec B (initKey i) env) :=
    fun i hi => ihk i hi b env henv (Nat.le_trans (depth_init_le hi).1 hd) hb
  have ihv' : ∀ i ∈ inits, Inv B (runAt B b) (runFresh B) env (compileX B (initVal i)) (evalSpec B (initVal i) env) ∧
      Data (evalSpec B (initVal i) env) :=
    fun i hi => ihv i hi b env henv (Nat.le_trans (depth_init_le hi).2 hd) hb
  -- the children as a list of trees in code order
  let L : List Ast := interleaveKV (inits.map (fun i => (initKey i, initVal i)))
  have hL : compileInits B inits = L.map (fun e => (compileX B e).cp) := by
    rw [compileInits_eq, interleaveKV_map]; simp [List.map_map, Function.comp_def]
  have ihL : ∀ e ∈ L, Inv B (runAt B b) (runFresh B) env (compileX B e) (evalSpec B e env) := by
    intro e he
    obtain ⟨q, hq, hx⟩ := mem_interleaveKV he
    obtain ⟨i, hi, rfl⟩ := List.mem_map.mp hq
    rcases hx with rfl | rfl
    · exact (ihk' i hi).1
    · exact (ihv' i hi).1
  have hcp : compilePrim B (.map sp inits) =
      (match allConst (L.map (fun e => (compileX B e).cp)) with
        | some vs => .const (foldMap vs [])
        | none => .code (((L.map (fun e => (compileX B e).cp)).map CP.toCode).flatten ++ [.mkDict inits.length])) := by
    simp only [compilePrim, hL]
    rfl
  have hes : evalSpecPrim B (.map sp inits) env =
      mkMap (inits.map (fun i => (evalSpec B (initKey i) env, evalSpec B (initVal i) env))) := by
    simp [evalSpecPrim, evalSpecInits_eq]
  have hdata : Data (mkMap (inits.map (fun i => (evalSpec B (initKey i) env, evalSpec B (initVal i) env)))) := by
    apply data_mkMap
    intro q hq
    obtain ⟨i, hi, rfl⟩ := List.mem_map.mp hq
    exact (ihv' i hi).2
  have hLval : L.map (fun e => evalSpec B e env) =
      interleaveKV (inits.map (fun i => (evalSpec B (initKey i) env, evalSpec B (initVal i) env))) := by
    simp only [L]; rw [interleaveKV_map]; simp [List.map_map, Function.comp_def]
  have hconst : ∀ vs, allConst (L.map (fun e => (compileX B e).cp)) = some vs → foldMap vs [] =
      mkMap (inits.map (fun i => (evalSpec B (initKey i) env, evalSpec B (initVal i) env))) := by
    intro vs hvs
    have := allConst_map (fun e => (compileX B e).cp) (fun e => evalSpec B e env) L vs hvs
      (fun e he v hv => ((ihL e he).const v hv).1)
    rw [this, hLval, foldMap_nil_eq_mkMap]
  rw [hcp, hes]
  refine ⟨?_, ?_, hdata⟩
  · split
    · rename_i vs hvs
      rw [hconst vs hvs]
      exact runs_push hdata.plain
    · have := runs_mkDict (B := B) (rec := runAt B b) (top := runFresh B) henv.noProgs
        (inits.map (fun i => (((compileX B (initKey i)).cp.toCode, evalSpec B (initKey i) env),
          ((compileX B (initVal i)).cp.toCode, evalSpec B (initVal i) env))))
        (fun p hp => by
          obtain ⟨i, hi, rfl⟩ := List.mem_map.mp hp
          exact (ihk' i hi).1.runs)
        (fun p hp => by
          obtain ⟨i, hi, rfl⟩ := List.mem_map.mp hp
          exact (ihv' i hi).1.runs)
      have hcode : (L.map (fun e => (compileX B e).cp)).map CP.toCode =
          (interleaveKV (inits.map (fun i => (((compileX B (initKey i)).cp.toCode, evalSpec B (initKey i) env),
            ((compileX B (initVal i)).cp.toCode, evalSpec B (initVal i) env))))).map (·.1) := by
        simp only [L]
        rw [interleaveKV_map, interleaveKV_map, interleaveKV_map]
        simp [List.map_map, Function.comp_def]
      rw [hcode]
      simpa [List.map_map, Function.comp_def, CP.toCode] using this
  · intro c hc
    split at hc
    · rename_i vs hvs
      cases hc
      exact hconst vs hvs
    · cases hc

/-! ### environments that closed code cannot tell apart -/

end
section
variable (B : Builtins)

/-- `check_for_const`'s test: every identifier is bound at compile time (function, macro or type) and none is a
    clock function. -/
def Closed (ids : List Str) : Prop :=
  ids.all (fun n => compileBound B n && !(clockFunctions.any (·.toList = n))) = true

/-- Two environments agree on the names `ids` (as values and in call position) and on every method name of
    the fragment. -/
structure AgreeOn (ids : List Str) (e1 e2 : Env) : Prop where
  b1 : e1.hasBinds = true
  b2 : e2.hasBinds = true
  res : ∀ n ∈ ids, resolveIdent e1 n = resolveIdent e2 n
  kind : ∀ n ∈ ids, fnKind B e1 n = fnKind B e2 n
  meth : ∀ o name, methodOK B name = true → methodKind B e1 o name = methodKind B e2 o name

/-- `valf` does not distinguish environments that agree on `ids`. -/
def Irr (ids : List Str) (valf : Env → Val) : Prop := ∀ e1 e2, AgreeOn B ids e1 e2 → valf e1 = valf e2

variable {B}

theorem AgreeOn.mono {ids ids' : List Str} {e1 e2 : Env} (h : AgreeOn B ids e1 e2) (hs : ∀ n ∈ ids', n ∈ ids) :
    AgreeOn B ids' e1 e2 :=
  ⟨h.b1, h.b2, fun n hn => h.res n (hs n hn), fun n hn => h.kind n (hs n hn), h.meth⟩

theorem AgreeOn.left {a b : List Str} {e1 e2 : Env} (h : AgreeOn B (a ++ b) e1 e2) : AgreeOn B a e1 e2 :=
  h.mono (fun _ hn => List.mem_append_left _ hn)
theorem AgreeOn.right {a b : List Str} {e1 e2 : Env} (h : AgreeOn B (a ++ b) e1 e2) : AgreeOn B b e1 e2 :=
  h.mono (fun _ hn => List.mem_append_right _ hn)

theorem resolveIdent_bind (e : Env) (hb : e.hasBinds = true) (x : Str) (v : Val) (n : Str) :
    resolveIdent (e.bind x v) n =
      match typeByName n with
      | some t => t
      | none => if x = n then v else resolveIdent e n := by
  simp only [resolveIdent, Env.getType, Env.getParam, Env.bind, hb, if_true, lookup]
  cases typeByName n with
  | some t => rfl
  | none =>
    simp only
    by_cases hx : x = n <;> simp [hx]

theorem fnKind_bind (e : Env) (x : Str) (v : Val) (n : Str) : fnKind B (e.bind x v) n = fnKind B e n := rfl
theorem methodKind_bind (e : Env) (x : Str) (v o : Val) (n : Str) :
    methodKind B (e.bind x v) o n = methodKind B e o n := rfl

theorem AgreeOn.bind {ids : List Str} {e1 e2 : Env} (h : AgreeOn B ids e1 e2) (x : Str) (v : Val) :
    AgreeOn B ids (e1.bind x v) (e2.bind x v) := by
  refine ⟨h.b1, h.b2, ?_, ?_, ?_⟩
  · intro n hn
    rw [resolveIdent_bind e1 h.b1, resolveIdent_bind e2 h.b2]
    cases htn : typeByName n with
    | some t => rfl
    | none =>
      simp only
      by_cases hx : x = n
      · simp [hx]
      · simp only [hx, if_false]; exact h.res n hn
  · intro n hn; rw [fnKind_bind, fnKind_bind]; exact h.kind n hn
  · intro o name hm; rw [methodKind_bind, methodKind_bind]; exact h.meth o name hm

/-- The compile-time bindings (without the unresolved-name flag) are a standard environment. -/
theorem compileEnv_std : StdEnv B compileEnv0 :=
  { noProgs := ⟨fun n => rfl, rfl⟩, binds := rfl, noUser := rfl,
    params := fun n v h => by simp [Env.getParam, compileEnv0, Env.untracked, compileEnv, lookup] at h,
    noShadow := fun n _ => rfl }

theorem StdEnv.bind {env : Env} (h : StdEnv B env) {x : Str} (hx : callableName B x = false) {v : Val} (hv : Data v) :
    StdEnv B (env.bind x v) := by
  refine { toEnvOK := h.toEnvOK.bind x hv, noShadow := ?_ }
  intro n hn
  have hne : x ≠ n := by intro hh; subst hh; rw [hx] at hn; cases hn
  have := h.noShadow n hn
  simp only [Env.getParam, Env.bind, h.binds, if_true, lookup, hne, if_false] at this ⊢
  exact this

theorem typeName_not_macro {n : Str} {t : Val} (h : typeByName n = some t) :
    defaultMacros.any (·.toList = n) = false := by
  have key : ∀ m ∈ defaultMacros, typeByName m.toList = none := by decide
  cases hm : defaultMacros.any (·.toList = n)
  · rfl
  · rw [List.any_eq_true] at hm
    obtain ⟨m, hmem, hmn⟩ := hm
    simp only [decide_eq_true_eq] at hmn
    subst hmn
    rw [key m hmem] at h
    cases h

theorem compile_macro_default {n : Str} (h : compileMacros.any (·.toList = n) = true) :
    defaultMacros.any (·.toList = n) = true := by
  simp only [compileMacros, defaultMacros, List.any_cons, List.any_nil, Bool.or_false, Bool.or_eq_true,
    decide_eq_true_eq] at h ⊢
  rcases h with h | h | h | h | h | h <;> simp [h]

theorem default_macro_compile {n : Str} (h : defaultMacros.any (·.toList = n) = true)
    (h1 : n ≠ "has".toList) (h2 : n ≠ "coalesce".toList) : compileMacros.any (·.toList = n) = true := by
  simp only [compileMacros, defaultMacros, List.any_cons, List.any_nil, Bool.or_false, Bool.or_eq_true,
    decide_eq_true_eq] at h ⊢
  rcases h with h | h | h | h | h | h | h | h
  · exact absurd h.symm h1
  · simp [h]
  · simp [h]
  · simp [h]
  · simp [h]
  · simp [h]
  · simp [h]
  · exact absurd h.symm h2

/-- Outside compile mode the macros are the default ones; in compile mode `has` and `coalesce` are missing. -/
theorem isMacro_eq_compile {env : Env} (hb : env.hasBinds = true) {n : Str}
    (h : n ≠ "has".toList ∧ n ≠ "coalesce".toList ∨ defaultMacros.any (·.toList = n) = false ∨
      compileMacros.any (·.toList = n) = true) :
    env.isMacro n = compileMacros.any (·.toList = n) := by
  unfold Env.isMacro
  rw [hb, Bool.true_and]
  split
  · rfl
  · cases hd : defaultMacros.any (·.toList = n) with
    | false =>
      cases hc : compileMacros.any (·.toList = n) with
      | false => rfl
      | true => rw [compile_macro_default hc] at hd; cases hd
    | true =>
      rcases h with ⟨h1, h2⟩ | h | h
      · exact (default_macro_compile hd h1 h2).symm
      · rw [hd] at h; cases h
      · exact h.symm

theorem closed_mem {ids : List Str} (h : Closed B ids) {n : Str} (hn : n ∈ ids) :
    compileBound B n = true ∧ clockFunctions.any (·.toList = n) = false := by
  unfold Closed at h
  rw [List.all_eq_true] at h
  have := h n hn
  simpa using this

theorem closed_append {a b : List Str} : Closed B (a ++ b) ↔ Closed B a ∧ Closed B b := by
  simp [Closed, List.all_append]

/-- What closed code can observe is the same at compile time and in every standard environment. -/
theorem agree_of_closed {ids : List Str} (hc : Closed B ids) {env : Env} (henv : StdEnv B env) :
    AgreeOn B ids compileEnv0 env := by
  refine ⟨rfl, henv.binds, ?_, ?_, ?_⟩
  · intro n hn
    obtain ⟨hb, _⟩ := closed_mem hc hn
    simp only [resolveIdent, Env.getType, henv.binds, compileEnv0, Env.untracked, compileEnv, if_true]
    cases htn : typeByName n with
    | some t => rfl
    | none =>
      have hcall : callableName B n = true := by
        simp only [compileBound, htn, Option.isSome_none, Bool.or_false, Bool.or_eq_true] at hb
        simp only [callableName, Bool.or_eq_true]
        rcases hb with hb | hb
        · exact Or.inl hb
        · right
          have : compileMacros.any (·.toList = n) = true := by simpa [Env.isMacro, compileEnv] using hb
          exact compile_macro_default this
      have hp := henv.noShadow n hcall
      simp only [hp]
      simp [Env.getParam, lookup]
  · intro n hn
    obtain ⟨hb, _⟩ := closed_mem hc hn
    unfold fnKind
    cases hf : B.func n with
    | some f => rfl
    | none =>
      simp only
      have hcase : defaultMacros.any (·.toList = n) = false ∨ compileMacros.any (·.toList = n) = true := by
        simp only [compileBound, hf, Option.isSome_none, Bool.false_or, Bool.or_eq_true] at hb
        rcases hb with hb | hb
        · right; simpa [Env.isMacro, compileEnv] using hb
        · left
          cases htn : typeByName n with
          | none => simp [htn] at hb
          | some t => exact typeName_not_macro htn
      have hm : env.isMacro n = compileEnv0.isMacro n := by
        rw [isMacro_eq_compile henv.binds (Or.inr hcase), isMacro_eq_compile (env := compileEnv0) rfl (Or.inr hcase)]
      rw [hm]
      simp [Env.getType, henv.binds, compileEnv0, Env.untracked, compileEnv]
  · intro o name hm
    unfold methodKind
    cases hfe : fieldEntry o name with
    | some v => cases v <;> rfl
    | none =>
      simp only
      cases hf : B.func name with
      | some f => rfl
      | none =>
        simp only
        have h12 : name ≠ "has".toList ∧ name ≠ "coalesce".toList := by
          simp only [methodOK, hf, Option.isSome_none, Bool.false_or, Bool.not_eq_true', Bool.or_eq_false_iff,
            decide_eq_false_iff_not] at hm
          exact hm
        rw [isMacro_eq_compile henv.binds (Or.inl h12), isMacro_eq_compile (env := compileEnv0) rfl (Or.inl h12)]

end

/-! ### calls -/

section
variable (B : Builtins)

/-- The value of a macro call in the spec (`coalesce` works on the argument values). -/
def macroVal (env : Env) (name : Str) (this : Val) (args : List Ast) : Val :=
  if name = "coalesce".toList then coalesceVal (evalSpecList B args env).reverse
  else evalSpecMacro B name this args env

/-- The value of a call in the spec, given what the callee denotes. -/
def callVal (kindf : Env → CallKind) (name : Str) (args : List Ast) (env : Env) : Val :=
  callOf B (kindf env) name (evalSpecList B args env).reverse (fun this => evalSpecMacro B name this args env)

/-- The argument blocks in source order (first argument first). -/
def blocksOf (args : List Ast) : List (List Instr) := (args.map (fun a => (compileX B a).cp.toCode)).reverse

/-- The macro theorem for one call site: `callMacro` on the compiled argument blocks gives `macroVal`,
    leaves the log alone, and the value is data. -/
def MacroOK (name : Str) (args : List Ast) : Prop :=
  ∀ b env this, StdEnv B env → Data this → env.isMacro name = true → depthArgs args ≤ b → b < maxDepth →
    (∀ log, callMacro (runAt B b) (runFresh B) env name this (blocksOf B args) log =
      (macroVal B env name this args, log)) ∧ Data (macroVal B env name this args)

/-- The callee code `cc` leaves an entry that `CALL` treats as `kindf env` asks. -/
def CalleeGood (d : Nat) (cc : List Instr) (name : Str) (kindf : Env → CallKind) : Prop :=
  ∀ b env, StdEnv B env → d ≤ b → b < maxDepth →
    KindOK B (kindf env) ∧ (∀ this, kindf env = .macro_ this → env.isMacro name = true) ∧
    ∃ callee, RunsE B (runAt B b) (runFresh B) env cc callee ∧
      ∀ argv res r, (∀ a ∈ argv, Plain a) → ArgsEval (runAt B b) env argv res →
        CallResult B (runAt B b) (runFresh B) env (kindf env) name argv res r →
        CallStep B (runAt B b) (runFresh B) env callee argv r

variable {B}

theorem compileArgs_eq (args : List Ast) :
    compileArgs B args = args.map (fun a => .push (.code (compileX B a).cp.toCode)) := by
  induction args with
  | nil => simp [compileArgs]
  | cons a as ih => simp [compileArgs, ih]

theorem depth_arg_lt {args : List Ast} {a : Ast} (h : a ∈ args) : depth a + 1 ≤ depthArgs args := by
  induction args with
  | nil => cases h
  | cons x xs ih =>
    rw [depthArgs]
    rcases List.mem_cons.mp h with rfl | h
    · omega
    · have := ih h; omega

theorem call_runs (hB : BuiltinsOK B) {d : Nat} {cc : List Instr} {name : Str} {kindf : Env → CallKind}
    (hcal : CalleeGood B d cc name kindf) (args : List Ast) (hargs : ∀ a ∈ args, GoodRun B a)
    (hmac : MacroOK B name args) :
    ∀ b env, StdEnv B env → max d (depthArgs args) ≤ b → b < maxDepth →
      Runs B (runAt B b) (runFresh B) env (compileArgs B args ++ cc ++ [.call args.length])
        (callVal B kindf name args env) ∧ Data (callVal B kindf name args env) := by
  intro b env henv hd hb
  obtain ⟨hk, hkm, callee, hrunsE, hstep⟩ := hcal b env henv (by omega) hb
  let bvs : List (List Instr × Val) := (args.map (fun a => ((compileX B a).cp.toCode, evalSpec B a env))).reverse
  have hblk : ∀ p ∈ bvs, ∀ log, runAt B b env p.1 true log = outOf p.2 log := by
    intro p hp log
    simp only [bvs, List.mem_reverse] at hp
    obtain ⟨a, ha, rfl⟩ := List.mem_map.mp hp
    exact block_runs (hargs a ha) henv (by have := depth_arg_lt ha; omega) hb log
  have hev := argsEval_blocks (rec := runAt B b) (env := env) bvs hblk
  have hp : ∀ a ∈ bvs.map (fun p => Val.code p.1), Plain a := by
    intro a ha; obtain ⟨q, _, rfl⟩ := List.mem_map.mp ha; exact plain_code _
  have hvals : bvs.map (·.2) = (evalSpecList B args env).reverse := by
    simp [bvs, evalSpecList_eq, List.map_reverse, List.map_map, Function.comp_def]
  have hdvals : ∀ v ∈ (evalSpecList B args env).reverse, Data v := by
    intro v hv
    rw [List.mem_reverse, evalSpecList_eq] at hv
    obtain ⟨a, ha, rfl⟩ := List.mem_map.mp hv
    exact (hargs a ha b env henv (by have := depth_arg_lt ha; omega) hb).2
  have hres : CallResult B (runAt B b) (runFresh B) env (kindf env) name (bvs.map (fun p => Val.code p.1))
      (argsRes (bvs.map (·.2))) (callVal B kindf name args env) ∧ Data (callVal B kindf name args env) := by
    unfold CallResult callVal
    cases hkk : kindf env with
    | macro_ this =>
      have hm := hmac b env this henv (by rw [hkk] at hk; exact hk) (hkm this hkk) (by omega) hb
      refine ⟨⟨blocksOf B args, ?_, ?_⟩, ?_⟩
      · simp [bvs, blocksOf, List.map_reverse, List.map_map, Function.comp_def]
      · intro log; rw [hm.1 log]; rfl
      · exact hm.2
    | func f this =>
      rw [hkk] at hk
      simp only [callOf, callRes, applyRes_argsRes, hvals]
      exact ⟨trivial, (data_callStrict hB (k := .func f this) hk hdvals)⟩
    | ctor tn =>
      simp only [callOf, callRes, applyRes_argsRes, hvals]
      exact ⟨trivial, (data_callStrict hB (k := .ctor tn) trivial hdvals)⟩
    | none => exact ⟨rfl, rfl⟩
  have hst := hstep _ _ _ hp hev hres.1
  have := runs_call hrunsE (bvs.map (fun p => Val.code p.1)) hres.2.plain hst
  have hcode : (bvs.map (fun p => Val.code p.1)).reverse.map Instr.push = compileArgs B args := by
    simp [bvs, compileArgs_eq, List.map_reverse, List.map_map, Function.comp_def]
  have hlen : (bvs.map (fun p => Val.code p.1)).length = args.length := by simp [bvs]
  rw [hcode, hlen] at this
  exact ⟨this, hres.2⟩

/-- `check_for_const` around code that runs to `valf env`: the folded constant is that value. -/
theorem cgood_checkForConst {d : Nat} {ids : List Str} {code : List Instr} {valf : Env → Val}
    (hU : ∀ b env, StdEnv B env → d ≤ b → b < maxDepth →
      Runs B (runAt B b) (runFresh B) env code (valf env) ∧ Data (valf env))
    (hirr : Irr B ids valf) :
    CGood B d (checkForConst B ids code) valf := by
  intro b env henv hd hb
  obtain ⟨hr, hdat⟩ := hU b env henv hd hb
  rcases checkForConst_cases B ids code with hcf | ⟨v, hcf, hv, _⟩
  · rw [hcf]; exact ⟨hr, fun c hc => (by cases hc), hdat⟩
  · rw [hcf]
    have hclosed : Closed B ids := by
      unfold checkForConst at hcf
      simp only at hcf
      split at hcf
      · cases hcf
      · rename_i hcl; simp [Closed] at hcl ⊢; exact hcl.1
    -- the run that recorded the flag returned what the run in the standard environment `compileEnv0` returns
    rw [compileRun_untracked] at hv
    have h31 := (hU 31 compileEnv0 compileEnv_std (by unfold maxDepth at hb; omega) (by decide)).1
    have hrun : runAt B maxDepth compileEnv0 code true [] = outOf (valf compileEnv0) [] :=
      runAt_of_runs (compileEnv_std (B := B)).noProgs 31 h31 []
    rw [hrun] at hv
    obtain ⟨h1, _⟩ := outOf_res_ok hv
    have hveq : v = valf env := by rw [← h1]; exact hirr _ _ (agree_of_closed hclosed henv)
    subst hveq
    exact ⟨runs_push hdat.plain, fun c hc => (by cases hc; rfl), hdat⟩

theorem fnKind_macro {env : Env} {f : Str} {this : Val} (h : fnKind B env f = .macro_ this) :
    env.isMacro f = true := by
  unfold fnKind at h
  cases hf : B.func f with
  | some g => simp only [hf] at h; cases h
  | none =>
    simp only [hf] at h
    cases hm : env.isMacro f with
    | true => rfl
    | false => simp only [hm, Bool.false_eq_true, if_false] at h; split at h <;> cases h

theorem methodKind_macro {env : Env} {o : Val} {name : Str} {this : Val}
    (h : methodKind B env o name = .macro_ this) : env.isMacro name = true := by
  unfold methodKind at h
  cases hfe : fieldEntry o name with
  | some v => simp only [hfe] at h; cases v <;> cases h
  | none =>
    simp only [hfe] at h
    cases hf : B.func name with
    | some g => simp only [hf] at h; cases h
    | none =>
      simp only [hf] at h
      cases hm : env.isMacro name with
      | true => rfl
      | false => simp only [hm, Bool.false_eq_true, if_false] at h; cases h

/-- `f`: the unresolved name as callee. -/
theorem calleeGood_ident (f : Str) : CalleeGood B 0 [.push (.ident f)] f (fun env => fnKind B env f) := by
  intro b env henv _ _
  refine ⟨kindOK_fnKind f, ?_, .val (.ident f), ⟨1, by simp, go_push _ []⟩, ?_⟩
  · intro this h; exact fnKind_macro h
  · intro argv res r hp hev hr
    exact callStep_ident henv.toEnvOK f hp hev hr

/-- The code of `cur.name` as the compiler emits it before a call (member access on a constant map is folded). -/
def accessCP (cur : CP) (name : Str) : CP :=
  match cur with
  | .const o =>
    (match foldAccess o name with
     | some v => .const v
     | none => .code [.push o, .push (.ident name), .access])
  | .code c => .code (c ++ [.push (.ident name), .access])

theorem foldAccess_some {o : Val} {name : Str} {v : Val} (h : foldAccess o name = some v) :
    fieldEntry o name = some v ∧ fieldOf o name = v := by
  unfold foldAccess at h
  split at h
  · rename_i m
    simp only [accessVal] at h
    cases hg : Map.get m name with
    | none => simp [hg] at h
    | some w =>
      simp only [hg] at h
      have : w = v := by
        split at h
        · cases h
        · cases h; rfl
      subst this
      simp [fieldEntry, fieldOf, hg]
  · cases h

/-- `o.name` as callee. -/
theorem calleeGood_method {d : Nat} {cur : CP} {valf : Env → Val} (hcur : CGood B d cur valf) (name : Str) :
    CalleeGood B d (accessCP cur name).toCode name (fun env => methodKind B env (valf env) name) := by
  intro b env henv hd hb
  obtain ⟨hr, hc, hdat⟩ := hcur b env henv hd hb
  refine ⟨kindOK_methodKind hdat name, ?_, accessEntry B env (valf env) name, ?_, ?_⟩
  · intro this h; exact methodKind_macro h
  · unfold accessCP
    split
    · rename_i o
      have ho := hc o rfl
      split
      · rename_i v hv
        obtain ⟨h1, _⟩ := foldAccess_some hv
        rw [← ho]
        simp only [accessEntry, h1, CP.toCode]
        exact ⟨1, by simp, go_push _ []⟩
      · exact runsE_access henv.noProgs henv.binds hr name
    · exact runsE_access henv.noProgs henv.binds hr name
  · intro argv res r hp hev hres
    exact callStep_access henv.toEnvOK hdat name hp hev hres

/-! ### the postfix chain -/

/-- `cur[e]` as the compiler emits it. -/
def indexCP (c1 c2 : CP) : CP :=
  match c1, c2 with
  | .const o, .const i => .const (index o i)
  | c1, c2 => .code (c1.toCode ++ c2.toCode ++ [.index])

theorem co_nil (ids : List Str) (cur : CP) : compileOps B ids cur [] = cur := by
  simp [compileOps]

theorem co_access (ids : List Str) (cur : CP) (sp i : Span) (name : Str) (rest : List MOp) :
    compileOps B ids cur (.access sp i name :: rest) = compileOps B ids (accessCP cur name) rest := by
  cases cur <;> rw [compileOps] <;> rfl

theorem co_call (ids : List Str) (cur : CP) (sp : Span) (args : List Ast) (rest : List MOp) :
    compileOps B ids cur (.call sp args :: rest) =
      compileOps B (ids ++ identsOfList args)
        (checkForConst B (ids ++ identsOfList args) (compileArgs B args ++ cur.toCode ++ [.call args.length])) rest := by
  rw [compileOps]

theorem co_index (ids : List Str) (cur : CP) (sp : Span) (e : Ast) (rest : List MOp) :
    compileOps B ids cur (.index sp e :: rest) =
      compileOps B (ids ++ identsOf e) (indexCP cur (compileX B e).cp) rest := by
  cases cur with
  | code c =>
    rw [compileOps.eq_6]
    · rfl
    · intro a b h; cases h
  | const a =>
    cases h : (compileX B e).cp with
    | const b => rw [compileOps.eq_5 _ _ _ _ _ _ _ h]; rfl
    | code c =>
      rw [compileOps.eq_6]
      · rw [h]; rfl
      · intro a b _ h'; rw [h] at h'; cases h'

theorem cgood_access_field {d : Nat} {cur : CP} {valf : Env → Val} (hcur : CGood B d cur valf) {name : Str}
    (hn : callableName B name = false) :
    CGood B d (accessCP cur name) (fun env => fieldOf (valf env) name) := by
  intro b env henv hd hb
  obtain ⟨hr, hc, hdat⟩ := hcur b env henv hd hb
  refine ⟨?_, ?_, data_fieldOf hdat name⟩ <;> dsimp only
  · unfold accessCP
    split
    · rename_i o
      have ho := hc o rfl
      split
      · rename_i v hv
        rw [← ho, (foldAccess_some hv).2]
        have : Data v := by rw [← (foldAccess_some hv).2, ho]; exact data_fieldOf hdat name
        exact runs_push this.plain
      · exact runs_access_field henv.toEnvOK hdat hr hn
    · exact runs_access_field henv.toEnvOK hdat hr hn
  · intro c hcc
    unfold accessCP at hcc
    split at hcc
    · rename_i o
      have ho := hc o rfl
      split at hcc
      · rename_i v hv
        cases hcc
        rw [← ho, (foldAccess_some hv).2]
      · cases hcc
    · cases hcc

theorem cgood_index {d1 d2 : Nat} {c1 c2 : CP} {v1 v2 : Env → Val} (h1 : CGood B d1 c1 v1) (h2 : CGood B d2 c2 v2) :
    CGood B (max d1 d2) (indexCP c1 c2) (fun env => index (v1 env) (v2 env)) := by
  intro b env henv hd hb
  obtain ⟨hr1, hc1, hdat1⟩ := h1 b env henv (by omega) hb
  obtain ⟨hr2, hc2, _⟩ := h2 b env henv (by omega) hb
  refine ⟨?_, ?_, data_index hdat1⟩ <;> dsimp only
  · unfold indexCP
    split
    · rename_i o i
      rw [← hc1 o rfl, ← hc2 i rfl]
      have : Data (index o i) := by rw [hc1 o rfl]; exact data_index hdat1
      exact runs_push this.plain
    · exact runs_index henv.noProgs hdat1 hr1 hr2
  · intro c hcc
    unfold indexCP at hcc
    split at hcc
    · rename_i o i
      cases hcc
      rw [← hc1 o rfl, ← hc2 i rfl]
    · cases hcc

theorem identsOfList_mem {es : List Ast} {e : Ast} (h : e ∈ es) : ∀ n ∈ identsOf e, n ∈ identsOfList es := by
  induction es with
  | nil => cases h
  | cons x xs ih =>
    rw [identsOfList]
    rcases List.mem_cons.mp h with rfl | h
    · exact fun n hn => List.mem_append_left _ hn
    · exact fun n hn => List.mem_append_right _ (ih h n hn)

theorem evalSpecList_irr {ids : List Str} {args : List Ast} (hargs : ∀ a ∈ args, Irr B (identsOf a) (evalSpec B a))
    (hsub : ∀ n ∈ identsOfList args, n ∈ ids) {e1 e2 : Env} (h : AgreeOn B ids e1 e2) :
    evalSpecList B args e1 = evalSpecList B args e2 := by
  induction args with
  | nil => simp [evalSpecList]
  | cons a as ih =>
    simp only [evalSpecList]
    rw [identsOfList] at hsub
    rw [hargs a (List.mem_cons_self ..) e1 e2 (h.mono (fun n hn => hsub n (List.mem_append_left _ hn))),
      ih (fun x hx => hargs x (List.mem_cons_of_mem _ hx)) (fun n hn => hsub n (List.mem_append_right _ hn))]

/-- Macro bodies do not distinguish agreeing environments either (the loop variable is bound in both). -/
theorem evalSpecMacro_irr {ids : List Str} {args : List Ast} (hargs : ∀ a ∈ args, Irr B (identsOf a) (evalSpec B a))
    (hsub : ∀ n ∈ identsOfList args, n ∈ ids) {e1 e2 : Env} (h : AgreeOn B ids e1 e2) (name : Str) (this : Val) :
    evalSpecMacro B name this args e1 = evalSpecMacro B name this args e2 := by
  have hA : ∀ a ∈ args, ∀ e1' e2', AgreeOn B ids e1' e2' → evalSpec B a e1' = evalSpec B a e2' :=
    fun a ha e1' e2' h' => hargs a ha e1' e2' (h'.mono (fun n hn => hsub n (identsOfList_mem ha n hn)))
  have H0 : ∀ a ∈ args, evalSpec B a e1 = evalSpec B a e2 := fun a ha => hA a ha e1 e2 h
  have H1 : ∀ a ∈ args, ∀ x v, evalSpec B a (e1.bind x v) = evalSpec B a (e2.bind x v) :=
    fun a ha x v => hA a ha _ _ (h.bind x v)
  have H2 : ∀ a ∈ args, ∀ x v y w, evalSpec B a ((e1.bind x v).bind y w) = evalSpec B a ((e2.bind x v).bind y w) :=
    fun a ha x v y w => hA a ha _ _ ((h.bind x v).bind y w)
  rcases args with _ | ⟨a, _ | ⟨b, _ | ⟨c, _ | ⟨d, _ | ⟨e, rest⟩⟩⟩⟩⟩
  · rw [evalSpecMacro.eq_def, evalSpecMacro.eq_def]
  · have a0 := H0 a (by simp); have a1 := H1 a (by simp)
    rw [evalSpecMacro.eq_def, evalSpecMacro.eq_def]
    simp only [a0, a1]
  · have a0 := H0 a (by simp); have a1 := H1 a (by simp)
    have b0 := H0 b (by simp); have b1 := H1 b (by simp)
    rw [evalSpecMacro.eq_def, evalSpecMacro.eq_def]
    simp only [a0, a1, b0, b1]
  · have a0 := H0 a (by simp); have a1 := H1 a (by simp)
    have b0 := H0 b (by simp); have b1 := H1 b (by simp)
    have c0 := H0 c (by simp); have c1 := H1 c (by simp)
    rw [evalSpecMacro.eq_def, evalSpecMacro.eq_def]
    simp only [a0, a1, b0, b1, c0, c1]
  · have a0 := H0 a (by simp); have a1 := H1 a (by simp); have a2 := H2 a (by simp)
    have b0 := H0 b (by simp); have b1 := H1 b (by simp); have b2 := H2 b (by simp)
    have c0 := H0 c (by simp); have c1 := H1 c (by simp)
    have d0 := H0 d (by simp); have d1 := H1 d (by simp)
    rw [evalSpecMacro.eq_def, evalSpecMacro.eq_def]
    simp only [a0, a1, a2, b0, b1, b2, c0, c1, d0, d1]
  · rw [evalSpecMacro.eq_def, evalSpecMacro.eq_def]

/-! #### the macro theorem -/

theorem list_shape {α : Type} (l : List α) :
    l = [] ∨ (∃ a, l = [a]) ∨ (∃ a b, l = [a, b]) ∨ (∃ a b c, l = [a, b, c]) ∨ (∃ a b c d, l = [a, b, c, d]) ∨
      (∃ a b c d e t, l = a :: b :: c :: d :: e :: t) := by
  rcases l with _ | ⟨a, _ | ⟨b, _ | ⟨c, _ | ⟨d, _ | ⟨e, t⟩⟩⟩⟩⟩
  · exact Or.inl rfl
  · exact Or.inr (Or.inl ⟨a, rfl⟩)
  · exact Or.inr (Or.inr (Or.inl ⟨a, b, rfl⟩))
  · exact Or.inr (Or.inr (Or.inr (Or.inl ⟨a, b, c, rfl⟩)))
  · exact Or.inr (Or.inr (Or.inr (Or.inr (Or.inl ⟨a, b, c, d, rfl⟩))))
  · exact Or.inr (Or.inr (Or.inr (Or.inr (Or.inr ⟨a, b, c, d, e, t, rfl⟩))))

theorem long_shape {α : Type} (l : List α) (h : 5 ≤ l.length) : ∃ a b c d e t, l = a :: b :: c :: d :: e :: t := by
  rcases list_shape l with rfl | ⟨a, rfl⟩ | ⟨a, b, rfl⟩ | ⟨a, b, c, rfl⟩ | ⟨a, b, c, d, rfl⟩ | h' <;>
    first | exact h' | (simp at h)

/-- More than four arguments: every macro but `coalesce` answers with an Argument failure. -/
theorem callMacro_long {rec top : Rec} {env : Env} {name : Str} {this : Val} {blocks : List (List Instr)}
    (h : 5 ≤ blocks.length) (hn : name ≠ "coalesce".toList) (log : Log) :
    callMacro rec top env name this blocks log = (.err .argument, log) := by
  obtain ⟨a, b, c, d, e, t, rfl⟩ := long_shape blocks h
  unfold callMacro
  simp only [hn, if_false]
  repeat (first | rfl | split)

theorem evalSpecMacro_long {env : Env} {name : Str} {this : Val} {args : List Ast} (h : 5 ≤ args.length) :
    evalSpecMacro B name this args env = .err .argument := by
  obtain ⟨a, b, c, d, e, t, rfl⟩ := long_shape args h
  rw [evalSpecMacro.eq_def]
  dsimp only
  repeat (first | rfl | split)

theorem identOf_some {xb : Ast} {x : Str} (h : identOf xb = some x) : ∃ sp sp', xb = .member sp (.ident sp' x) [] := by
  unfold identOf at h
  split at h
  · cases h; exact ⟨_, _, rfl⟩
  · cases h

theorem evalIdent_of_identOf {xb : Ast} {x : Str} (h : identOf xb = some x) :
    evalIdent (runFresh B) (compileX B xb).cp.toCode = .ok x := by
  obtain ⟨sp, sp', rfl⟩ := identOf_some h
  have hc : (compileX B (.member sp (.ident sp' x) [])).cp.toCode = [.push (.ident x)] := by
    simp [compileX, compileOps, compilePrim, CP.toCode]
  rw [hc]
  simp [evalIdent, runFresh, blockFuel, loop, step, pushV, finish, Env.getParam]

theorem loopVarOK_some {xb : Ast} (h : loopVarOK B xb = true) :
    ∃ x, identOf xb = some x ∧ callableName B x = false := by
  unfold loopVarOK at h
  split at h
  · rename_i x hx; exact ⟨x, hx, by simpa using h⟩
  · cases h

/-- `macroVal` for a name other than `coalesce`. -/
theorem macroVal_ne {env : Env} {name : Str} {this : Val} {args : List Ast} (hn : name ≠ "coalesce".toList) :
    macroVal B env name this args = evalSpecMacro B name this args env := by
  unfold macroVal; rw [if_neg hn]

/-- What the macro theorem knows at a call site (level `b`, environment `env`). -/
structure MacroCtx (B : Builtins) (args : List Ast) (b : Nat) (env : Env) (this : Val) : Prop where
  henv : StdEnv B env
  hthis : Data this
  hblock : ∀ a ∈ args, ∀ env', StdEnv B env' → ∀ log,
      runAt B b env' (compileX B a).cp.toCode true log = outOf (evalSpec B a env') log
  hdata : ∀ a ∈ args, ∀ env', StdEnv B env' → Data (evalSpec B a env')

/-- The statement of the macro theorem for a name other than `coalesce`. -/
def MacroGoal (B : Builtins) (name : Str) (args : List Ast) (b : Nat) (env : Env) (this : Val) : Prop :=
  (∀ log, callMacro (runAt B b) (runFresh B) env name this (blocksOf B args) log =
    (evalSpecMacro B name this args env, log)) ∧ Data (evalSpecMacro B name this args env)

theorem macro_names {env : Env} {name : Str} (hm : env.isMacro name = true) :
    name = "has".toList ∨ name = "all".toList ∨ name = "exists".toList ∨ name = "exists_one".toList ∨
    name = "filter".toList ∨ name = "map".toList ∨ name = "reduce".toList ∨ name = "coalesce".toList := by
  have hnames := isMacro_default hm
  simp only [defaultMacros, List.any_cons, List.any_nil, Bool.or_false, Bool.or_eq_true, decide_eq_true_eq] at hnames
  rcases hnames with h | h | h | h | h | h | h | h <;> simp [← h]

/-- Wrong number of arguments. -/
theorem macro_arity {name : Str} {args : List Ast} {b : Nat} {env : Env} {this : Val}
    (hn : name = "has".toList ∨ name = "all".toList ∨ name = "exists".toList ∨ name = "exists_one".toList ∨
      name = "filter".toList ∨ name = "map".toList ∨ name = "reduce".toList)
    (hbad : (args.length = 0) ∨ (args.length = 1 ∧ name ≠ "has".toList) ∨
      (args.length = 2 ∧ (name = "has".toList ∨ name = "reduce".toList)) ∨
      (args.length = 3 ∧ name ≠ "map".toList) ∨ (args.length = 4 ∧ name ≠ "reduce".toList)) :
    MacroGoal B name args b env this := by
  unfold MacroGoal
  rcases list_shape args with rfl | ⟨a, rfl⟩ | ⟨a1, a2, rfl⟩ | ⟨a1, a2, a3, rfl⟩ | ⟨a1, a2, a3, a4, rfl⟩ | ⟨_, _, _, _, _, _, rfl⟩
  all_goals simp only [List.length_cons, List.length_nil] at hbad
  all_goals
    rcases hn with h | h | h | h | h | h | h <;> subst h <;>
      first
      | (exfalso; revert hbad; decide)
      | (exfalso; omega)
      | (rw [evalSpecMacro.eq_def]
         refine ⟨fun log => ?_, ?_⟩ <;>
         simp (config := {decide := true}) only [blocksOf, List.map_cons, List.map_nil, List.reverse_cons,
           List.reverse_nil, List.nil_append, List.cons_append, callMacro, if_true, if_false] <;> rfl)

theorem macro_has {a : Ast} {b : Nat} {env : Env} {this : Val} (c : MacroCtx B [a] b env this) :
    MacroGoal B "has".toList [a] b env this := by
  unfold MacroGoal
  have ha := c.hblock a (by simp) env c.henv
  rw [evalSpecMacro.eq_def]
  simp (config := {decide := true}) only [blocksOf, List.map_cons, List.map_nil, List.reverse_cons,
    List.reverse_nil, List.nil_append, callMacro, if_true, ha]
  refine ⟨fun log => ?_, data_hasVal _⟩
  rcases outOf_cases (evalSpec B a env) log with ⟨k, hk, ho⟩ | ⟨hne, ho⟩
  · rw [ho, hk]; cases k <;> rfl
  · rw [ho]
    cases hv : evalSpec B a env <;> first | rfl | exact absurd hv (hne _)

/-- The body of a two-argument comprehension in the loop variable's environments. -/
theorem body_runs {a1 a2 : Ast} {b : Nat} {env : Env} {this : Val} (c : MacroCtx B [a1, a2] b env this)
    {x : Str} (hcx : callableName B x = false) (l : List Val) (hl : ∀ v ∈ l, Data v) :
    (∀ v ∈ l, ∀ log, runAt B b (env.bind x v) (compileX B a1).cp.toCode true log =
      outOf (evalSpec B a1 (env.bind x v)) log) ∧ (∀ v ∈ l, Data (evalSpec B a1 (env.bind x v))) :=
  ⟨fun v hv log => c.hblock a1 (by simp) _ (c.henv.bind hcx (hl v hv)) log,
   fun v hv => c.hdata a1 (by simp) _ (c.henv.bind hcx (hl v hv))⟩

theorem macro_all {a1 a2 : Ast} {b : Nat} {env : Env} {this : Val} (c : MacroCtx B [a1, a2] b env this)
    (hlv : loopVarOK B a2 = true) : MacroGoal B "all".toList [a1, a2] b env this := by
  unfold MacroGoal
  obtain ⟨x, hx, hcx⟩ := loopVarOK_some hlv
  have hid := evalIdent_of_identOf (B := B) hx
  rw [evalSpecMacro.eq_def]
  simp (config := {decide := true}) only [blocksOf, List.map_cons, List.map_nil, List.reverse_cons,
    List.reverse_nil, List.nil_append, List.cons_append, callMacro, if_true, if_false, hid, hx]
  cases hr : rangeOf false this with
  | none => exact ⟨fun _ => rfl, rfl⟩
  | some l =>
    have hb := body_runs c hcx l (data_rangeOf c.hthis hr)
    exact ⟨fun log => loop_all x _ _ l log hb.1, data_allVal _ _⟩

theorem macro_exists {a1 a2 : Ast} {b : Nat} {env : Env} {this : Val} (c : MacroCtx B [a1, a2] b env this)
    (hlv : loopVarOK B a2 = true) : MacroGoal B "exists".toList [a1, a2] b env this := by
  unfold MacroGoal
  obtain ⟨x, hx, hcx⟩ := loopVarOK_some hlv
  have hid := evalIdent_of_identOf (B := B) hx
  rw [evalSpecMacro.eq_def]
  simp (config := {decide := true}) only [blocksOf, List.map_cons, List.map_nil, List.reverse_cons,
    List.reverse_nil, List.nil_append, List.cons_append, callMacro, if_true, if_false, hid, hx]
  cases hr : rangeOf false this with
  | none => exact ⟨fun _ => rfl, rfl⟩
  | some l =>
    have hb := body_runs c hcx l (data_rangeOf c.hthis hr)
    exact ⟨fun log => loop_exists x _ _ l log hb.1, data_existsVal _ _⟩

theorem macro_one {a1 a2 : Ast} {b : Nat} {env : Env} {this : Val} (c : MacroCtx B [a1, a2] b env this)
    (hlv : loopVarOK B a2 = true) : MacroGoal B "exists_one".toList [a1, a2] b env this := by
  unfold MacroGoal
  obtain ⟨x, hx, hcx⟩ := loopVarOK_some hlv
  have hid := evalIdent_of_identOf (B := B) hx
  rw [evalSpecMacro.eq_def]
  simp (config := {decide := true}) only [blocksOf, List.map_cons, List.map_nil, List.reverse_cons,
    List.reverse_nil, List.nil_append, List.cons_append, callMacro, if_true, if_false, hid, hx]
  cases hr : rangeOf false this with
  | none => exact ⟨fun _ => rfl, rfl⟩
  | some l =>
    have hb := body_runs c hcx l (data_rangeOf c.hthis hr)
    exact ⟨fun log => loop_one x _ _ l 0 log hb.1, data_oneVal _ _ _⟩

theorem macro_filter {a1 a2 : Ast} {b : Nat} {env : Env} {this : Val} (c : MacroCtx B [a1, a2] b env this)
    (hlv : loopVarOK B a2 = true) : MacroGoal B "filter".toList [a1, a2] b env this := by
  unfold MacroGoal
  obtain ⟨x, hx, hcx⟩ := loopVarOK_some hlv
  have hid := evalIdent_of_identOf (B := B) hx
  rw [evalSpecMacro.eq_def]
  simp (config := {decide := true}) only [blocksOf, List.map_cons, List.map_nil, List.reverse_cons,
    List.reverse_nil, List.nil_append, List.cons_append, callMacro, if_true, if_false, hid, hx]
  cases hr : rangeOf true this with
  | none => exact ⟨fun _ => rfl, rfl⟩
  | some l =>
    have hl := data_rangeOf c.hthis hr
    have hb := body_runs c hcx l hl
    exact ⟨fun log => loop_filter' x _ _ l log hb.1, data_filterVal _ _ hl⟩

theorem macro_map2 {a1 a2 : Ast} {b : Nat} {env : Env} {this : Val} (c : MacroCtx B [a1, a2] b env this)
    (hlv : loopVarOK B a2 = true) : MacroGoal B "map".toList [a1, a2] b env this := by
  unfold MacroGoal
  obtain ⟨x, hx, hcx⟩ := loopVarOK_some hlv
  have hid := evalIdent_of_identOf (B := B) hx
  rw [evalSpecMacro.eq_def]
  simp (config := {decide := true}) only [blocksOf, List.map_cons, List.map_nil, List.reverse_cons,
    List.reverse_nil, List.nil_append, List.cons_append, callMacro, if_true, if_false, hid, hx]
  cases hr : rangeOf true this with
  | none => exact ⟨fun _ => rfl, rfl⟩
  | some l =>
    have hb := body_runs c hcx l (data_rangeOf c.hthis hr)
    exact ⟨fun log => loop_map' x _ _ l log hb.1, data_mapVal _ _ hb.2⟩

theorem macro_map3 {a1 a2 a3 : Ast} {b : Nat} {env : Env} {this : Val} (c : MacroCtx B [a1, a2, a3] b env this)
    (hlv : loopVarOK B a3 = true) : MacroGoal B "map".toList [a1, a2, a3] b env this := by
  unfold MacroGoal
  obtain ⟨x, hx, hcx⟩ := loopVarOK_some hlv
  have hid := evalIdent_of_identOf (B := B) hx
  rw [evalSpecMacro.eq_def]
  simp (config := {decide := true}) only [blocksOf, List.map_cons, List.map_nil, List.reverse_cons,
    List.reverse_nil, List.nil_append, List.cons_append, callMacro, if_true, if_false, hid, hx]
  cases hr : rangeOf true this with
  | none => exact ⟨fun _ => rfl, rfl⟩
  | some l =>
    have hl := data_rangeOf c.hthis hr
    exact ⟨fun log => loop_map3' x _ _ _ _ l log
        (fun v hv log => c.hblock a2 (by simp) _ (c.henv.bind hcx (hl v hv)) log)
        (fun v hv log => c.hblock a1 (by simp) _ (c.henv.bind hcx (hl v hv)) log),
      data_map3Val _ _ _ (fun v hv => c.hdata a1 (by simp) _ (c.henv.bind hcx (hl v hv)))⟩

theorem macro_reduce {a1 a2 a3 a4 : Ast} {b : Nat} {env : Env} {this : Val}
    (c : MacroCtx B [a1, a2, a3, a4] b env this) (hlv4 : loopVarOK B a4 = true) (hlv3 : loopVarOK B a3 = true) :
    MacroGoal B "reduce".toList [a1, a2, a3, a4] b env this := by
  unfold MacroGoal
  obtain ⟨cur, hcur, hccur⟩ := loopVarOK_some hlv4
  obtain ⟨nxt, hnxt, hcnxt⟩ := loopVarOK_some hlv3
  have hidc := evalIdent_of_identOf (B := B) hcur
  have hidn := evalIdent_of_identOf (B := B) hnxt
  have hseed := c.hblock a1 (by simp) env c.henv
  have hsd := c.hdata a1 (by simp) env c.henv
  have hstd : ∀ v acc, Data v → Data acc → StdEnv B ((env.bind nxt v).bind cur acc) :=
    fun v acc hv hacc => (c.henv.bind hcnxt hv).bind hccur hacc
  rw [evalSpecMacro.eq_def]
  simp (config := {decide := true}) only [blocksOf, List.map_cons, List.map_nil, List.reverse_cons,
    List.reverse_nil, List.nil_append, List.cons_append, callMacro, if_true, if_false, hidc, hidn, hcur, hnxt,
    hseed]
  generalize evalSpec B a1 env = s at hsd ⊢
  have hgd : ∀ l : List Val, (∀ v ∈ l, Data v) → ∀ v ∈ l, ∀ acc, Data acc →
      Data (evalSpec B a2 ((env.bind nxt v).bind cur acc)) :=
    fun l hl v hv acc hacc => c.hdata a2 (by simp) _ (hstd v acc (hl v hv) hacc)
  have hgr : ∀ l : List Val, (∀ v ∈ l, Data v) → ∀ v ∈ l, ∀ acc, Data acc → ∀ log,
      runAt B b ((env.bind nxt v).bind cur acc) (compileX B a2).cp.toCode true log =
        outOf (evalSpec B a2 ((env.bind nxt v).bind cur acc)) log :=
    fun l hl v hv acc hacc log => c.hblock a2 (by simp) _ (hstd v acc (hl v hv) hacc) log
  refine ⟨fun log => ?_, ?_⟩
  · rcases outOf_cases s log with ⟨k, hk, ho⟩ | ⟨hne, ho⟩
    · rw [ho, hk]; rfl
    · rw [ho, andThen_nonerr hne]
      cases hth : this with
      | list l =>
        have hl : ∀ v ∈ l, Data v := by have := c.hthis; rw [hth] at this; exact data_list.mp this
        exact loop_reduce cur nxt _ _ Data l s log hsd (hgd l hl) (hgr l hl)
      | _ => rfl
  · apply data_andThen
    cases hth : this with
    | list l =>
      have hl : ∀ v ∈ l, Data v := by have := c.hthis; rw [hth] at this; exact data_list.mp this
      exact data_reduceVal _ l (hgd l hl) s hsd
    | _ => rfl

theorem macro_ok (hB : BuiltinsOK B) (name : Str) (args : List Ast) (hargs : ∀ a ∈ args, GoodRun B a)
    (hshape : macroShape B name args = true) : MacroOK B name args := by
  intro b env this henv hthis hm hd hb
  have hblock : ∀ a ∈ args, ∀ env', StdEnv B env' → ∀ log,
      runAt B b env' (compileX B a).cp.toCode true log = outOf (evalSpec B a env') log :=
    fun a ha env' henv' log => block_runs (hargs a ha) henv' (by have := depth_arg_lt ha; omega) hb log
  have hdata : ∀ a ∈ args, ∀ env', StdEnv B env' → Data (evalSpec B a env') :=
    fun a ha env' henv' => (hargs a ha b env' henv' (by have := depth_arg_lt ha; omega) hb).2
  by_cases hco : name = "coalesce".toList
  · -- coalesce: the loop over all argument blocks
    subst hco
    have hcm : ∀ log, callMacro (runAt B b) (runFresh B) env "coalesce".toList this (blocksOf B args) log =
        coalesceLoop (runAt B b) env (blocksOf B args) log := by
      intro log; unfold callMacro; rw [if_neg (by decide), if_pos rfl]
    have hl := fun log => loop_coalesce (rec := runAt B b) (env := env)
      ((args.map (fun a => ((compileX B a).cp.toCode, evalSpec B a env))).reverse) log
      (by
        intro p hp log
        rw [List.mem_reverse] at hp
        obtain ⟨a, ha, rfl⟩ := List.mem_map.mp hp
        exact hblock a ha env henv log)
    have h1 : ((args.map (fun a => ((compileX B a).cp.toCode, evalSpec B a env))).reverse).map (·.1) = blocksOf B args := by
      simp [blocksOf, List.map_reverse, List.map_map, Function.comp_def]
    have h2 : ((args.map (fun a => ((compileX B a).cp.toCode, evalSpec B a env))).reverse).map (·.2) =
        (evalSpecList B args env).reverse := by
      simp [evalSpecList_eq, List.map_reverse, List.map_map, Function.comp_def]
    simp only [h1, h2] at hl
    have hmv : macroVal B env "coalesce".toList this args = coalesceVal (evalSpecList B args env).reverse := by
      unfold macroVal; rw [if_pos rfl]
    rw [hmv]
    refine ⟨fun log => by rw [hcm, hl log], data_coalesceVal _ ?_⟩
    intro v hv
    rw [List.mem_reverse, evalSpecList_eq] at hv
    obtain ⟨a, ha, rfl⟩ := List.mem_map.mp hv
    exact hdata a ha env henv
  · rw [macroVal_ne hco]
    show MacroGoal B name args b env this
    by_cases hlong : 5 ≤ args.length
    · unfold MacroGoal
      rw [evalSpecMacro_long hlong]
      exact ⟨fun log => callMacro_long (by simpa [blocksOf] using hlong) hco log, rfl⟩
    · have hn7 : name = "has".toList ∨ name = "all".toList ∨ name = "exists".toList ∨ name = "exists_one".toList ∨
          name = "filter".toList ∨ name = "map".toList ∨ name = "reduce".toList := by
        rcases macro_names hm with h | h | h | h | h | h | h | h
        · exact Or.inl h
        · exact Or.inr (Or.inl h)
        · exact Or.inr (Or.inr (Or.inl h))
        · exact Or.inr (Or.inr (Or.inr (Or.inl h)))
        · exact Or.inr (Or.inr (Or.inr (Or.inr (Or.inl h))))
        · exact Or.inr (Or.inr (Or.inr (Or.inr (Or.inr (Or.inl h)))))
        · exact Or.inr (Or.inr (Or.inr (Or.inr (Or.inr (Or.inr h)))))
        · exact absurd h hco
      have ctx : MacroCtx B args b env this := ⟨henv, hthis, hblock, hdata⟩
      rcases list_shape args with rfl | ⟨a, rfl⟩ | ⟨a1, a2, rfl⟩ | ⟨a1, a2, a3, rfl⟩ | ⟨a1, a2, a3, a4, rfl⟩ | ⟨_, _, _, _, _, _, rfl⟩
      · exact macro_arity hn7 (Or.inl rfl)
      · by_cases h : name = "has".toList
        · subst h; exact macro_has ctx
        · exact macro_arity hn7 (Or.inr (Or.inl ⟨rfl, h⟩))
      · rcases hn7 with h | h | h | h | h | h | h
        · exact macro_arity (Or.inl h) (Or.inr (Or.inr (Or.inl ⟨rfl, Or.inl h⟩)))
        · subst h; exact macro_all ctx (by simpa (config := {decide := true}) [macroShape] using hshape)
        · subst h; exact macro_exists ctx (by simpa (config := {decide := true}) [macroShape] using hshape)
        · subst h; exact macro_one ctx (by simpa (config := {decide := true}) [macroShape] using hshape)
        · subst h; exact macro_filter ctx (by simpa (config := {decide := true}) [macroShape] using hshape)
        · subst h; exact macro_map2 ctx (by simpa (config := {decide := true}) [macroShape] using hshape)
        · exact macro_arity (Or.inr (Or.inr (Or.inr (Or.inr (Or.inr (Or.inr h))))))
            (Or.inr (Or.inr (Or.inl ⟨rfl, Or.inr h⟩)))
      · by_cases h : name = "map".toList
        · subst h; exact macro_map3 ctx (by simpa (config := {decide := true}) [macroShape] using hshape)
        · exact macro_arity hn7 (Or.inr (Or.inr (Or.inr (Or.inl ⟨rfl, h⟩))))
      · by_cases h : name = "reduce".toList
        · subst h
          have hlv : loopVarOK B a4 = true ∧ loopVarOK B a3 = true := by
            simpa (config := {decide := true}) [macroShape] using hshape
          exact macro_reduce ctx hlv.1 hlv.2
        · exact macro_arity hn7 (Or.inr (Or.inr (Or.inr (Or.inr ⟨rfl, h⟩))))
      · simp at hlong

theorem callVal_irr {ids ids' : List Str} {kindf : Env → CallKind} {name : Str} {args : List Ast}
    (hk : ∀ e1 e2, AgreeOn B ids' e1 e2 → kindf e1 = kindf e2)
    (hargs : ∀ a ∈ args, Irr B (identsOf a) (evalSpec B a)) (hsub : ∀ n ∈ identsOfList args, n ∈ ids')
    (_hids : ∀ n ∈ ids, n ∈ ids') : Irr B ids' (callVal B kindf name args) := by
  intro e1 e2 h
  unfold callVal
  rw [hk e1 e2 h, evalSpecList_irr hargs hsub h]
  congr 1
  funext this
  exact evalSpecMacro_irr hargs hsub h name this

theorem identsOfOps_access (sp i : Span) (name : Str) (rest : List MOp) :
    identsOfOps (.access sp i name :: rest) = identsOfOps rest := by rw [identsOfOps]
theorem identsOfOps_call (sp : Span) (args : List Ast) (rest : List MOp) :
    identsOfOps (.call sp args :: rest) = identsOfList args ++ identsOfOps rest := by rw [identsOfOps]
theorem identsOfOps_index (sp : Span) (e : Ast) (rest : List MOp) :
    identsOfOps (.index sp e :: rest) = identsOf e ++ identsOfOps rest := by rw [identsOfOps]

/-- A good argument: it runs, and it does not distinguish agreeing environments. -/
def Good (B : Builtins) (e : Ast) : Prop := GoodRun B e ∧ Irr B (identsOf e) (evalSpec B e)

/-- The chain behind a current value: every prefix keeps the invariant. -/
theorem ops_good (hB : BuiltinsOK B) (chain : List MOp) :
    opsShape B chain = true →
    (∀ sp' args, MOp.call sp' args ∈ chain → ∀ a ∈ args, Good B a) →
    (∀ sp' e, MOp.index sp' e ∈ chain → Good B e) →
    ∀ (ids : List Str) (cur : CP) (valf : Env → Val) (d : Nat), CGood B d cur valf → Irr B ids valf →
      CGood B (max d (depthOps chain)) (compileOps B ids cur chain) (fun env => evalSpecOps B (valf env) chain env) ∧
      Irr B (ids ++ identsOfOps chain) (fun env => evalSpecOps B (valf env) chain env) := by
  refine opsShape.induct (motive := fun chain => opsShape B chain = true →
    (∀ sp' args, MOp.call sp' args ∈ chain → ∀ a ∈ args, Good B a) →
    (∀ sp' e, MOp.index sp' e ∈ chain → Good B e) →
    ∀ (ids : List Str) (cur : CP) (valf : Env → Val) (d : Nat), CGood B d cur valf → Irr B ids valf →
      CGood B (max d (depthOps chain)) (compileOps B ids cur chain) (fun env => evalSpecOps B (valf env) chain env) ∧
      Irr B (ids ++ identsOfOps chain) (fun env => evalSpecOps B (valf env) chain env)) ?_ ?_ ?_ ?_ ?_ chain
  · -- []
    intro _ _ _ ids cur valf d hcur hirr
    rw [co_nil, depthOps, identsOfOps, List.append_nil]
    simp only [eso_nil]
    exact ⟨hcur.mono (by omega), hirr⟩
  · -- .access name :: .call args :: rest
    intro sp i name sp' args rest ih hshape hargs hidx ids cur valf d hcur hirr
    rw [opsShape] at hshape
    simp only [Bool.and_eq_true] at hshape
    obtain ⟨⟨hms, hmok⟩, hrest⟩ := hshape
    have hargs' : ∀ a ∈ args, Good B a := hargs sp' args (by simp)
    have hcal := calleeGood_method hcur name
    have hU := call_runs hB hcal args (fun a ha => (hargs' a ha).1) (macro_ok hB name args (fun a ha => (hargs' a ha).1) hms)
    have hirr' : Irr B (ids ++ identsOfList args) (callVal B (fun env => methodKind B env (valf env) name) name args) := by
      apply callVal_irr (ids := ids)
      · intro e1 e2 h
        rw [hirr e1 e2 h.left, h.meth _ name hmok]
      · exact fun a ha => (hargs' a ha).2
      · exact fun n hn => List.mem_append_right _ hn
      · exact fun n hn => List.mem_append_left _ hn
    have hcg := cgood_checkForConst hU hirr'
    have := ih hrest (fun sp'' a' h => hargs sp'' a' (by simp [h])) (fun sp'' e h => hidx sp'' e (by simp [h]))
      (ids ++ identsOfList args) _ _ _ hcg hirr'
    simp only [co_access, co_call, eso_method, identsOfOps_access, identsOfOps_call, ← List.append_assoc]
    refine ⟨this.1.mono ?_, this.2⟩
    rw [depthOps, depthOps]; omega
  · -- .access name :: rest (a field)
    intro sp i name rest hnc ih hshape hargs hidx ids cur valf d hcur hirr
    rw [opsShape] at hshape
    · simp only [Bool.and_eq_true, Bool.not_eq_true'] at hshape
      obtain ⟨hn, hrest⟩ := hshape
      have hcg := cgood_access_field hcur hn
      have hirr' : Irr B ids (fun env => fieldOf (valf env) name) := by
        intro e1 e2 h; dsimp only; rw [hirr e1 e2 h]
      have := ih hrest (fun sp'' a' h => hargs sp'' a' (by simp [h])) (fun sp'' e h => hidx sp'' e (by simp [h]))
        ids _ _ _ hcg hirr'
      simp only [co_access, identsOfOps_access]
      have hes : (fun env => evalSpecOps B (valf env) (.access sp i name :: rest) env) =
          (fun env => evalSpecOps B (fieldOf (valf env) name) rest env) := by
        funext env; exact eso_field _ _ _ _ _ _ hnc
      rw [hes]
      refine ⟨this.1.mono ?_, this.2⟩
      rw [depthOps]; omega
    · exact hnc
  · -- .index e :: rest
    intro sp e rest ih hshape hargs hidx ids cur valf d hcur hirr
    rw [opsShape] at hshape
    have he : Good B e := hidx sp e (by simp)
    have hcg := cgood_index hcur he.1.cgood
    have hirr' : Irr B (ids ++ identsOf e) (fun env => index (valf env) (evalSpec B e env)) := by
      intro e1 e2 h; dsimp only; rw [hirr e1 e2 h.left, he.2 e1 e2 h.right]
    have := ih hshape (fun sp'' a' h => hargs sp'' a' (by simp [h])) (fun sp'' e h => hidx sp'' e (by simp [h]))
      (ids ++ identsOf e) _ _ _ hcg hirr'
    simp only [co_index, eso_index, identsOfOps_index, ← List.append_assoc]
    refine ⟨this.1.mono ?_, this.2⟩
    rw [depthOps]; omega
  · -- .call first: not in the fragment
    intro sp args tl hshape
    rw [opsShape] at hshape
    cases hshape

/-! ### f-strings -/

/-- The tree of an expression segment. -/
def segCode (B : Builtins) : FSegAst → List Instr
  | .lit s => [.push (.str s), .push (.ident "string".toList), .call 1]
  | .expr _ e => [.push (.code (compileX B e).cp.toCode), .push (.ident "string".toList), .call 1]

def segVal (B : Builtins) (env : Env) : FSegAst → Val
  | .lit s => callRaw B (fnKind B env "string".toList) [.str s]
  | .expr _ e => callStrict B (fnKind B env "string".toList) [evalSpec B e env]

theorem compileSegs_eq (segs : List FSegAst) : compileSegs B segs = (segs.map (segCode B)).flatten := by
  induction segs with
  | nil => simp [compileSegs]
  | cons s ss ih => cases s <;> simp [compileSegs, ih, segCode]

theorem evalSpecSegs_eq (segs : List FSegAst) (env : Env) : evalSpecSegs B segs env = segs.map (segVal B env) := by
  induction segs with
  | nil => simp [evalSpecSegs]
  | cons s ss ih => cases s <;> simp [evalSpecSegs, ih, segVal]

theorem depth_seg_lt {segs : List FSegAst} {src : Str} {e : Ast} (h : FSegAst.expr src e ∈ segs) :
    depth e + 1 ≤ depthSegs segs := by
  induction segs with
  | nil => cases h
  | cons x xs ih =>
    rcases List.mem_cons.mp h with rfl | h
    · rw [depthSegs]; omega
    · have := ih h
      cases x <;> rw [depthSegs] <;> omega

theorem good_fstr_prim (hB : BuiltinsOK B) (sp : Span) (segs : List FSegAst)
    (ih : ∀ src e, FSegAst.expr src e ∈ segs → GoodRun B e) :
    CGood B (depthPrim (.fstr sp segs)) (compilePrim B (.fstr sp segs)) (evalSpecPrim B (.fstr sp segs)) := by
  intro b env henv hd hb
  rw [depthPrim] at hd
  have hcp : compilePrim B (.fstr sp segs) = .code ((segs.map (segCode B)).flatten ++ [.fmt segs.length]) := by
    simp [compilePrim, compileSegs_eq]
  have hes : evalSpecPrim B (.fstr sp segs) env = fmtVal (segs.map (segVal B env)) := by
    simp [evalSpecPrim, evalSpecSegs_eq]
  rw [hcp, hes]
  refine ⟨?_, fun c hc => (by cases hc), data_fmtVal _⟩
  have hnm := fnKind_not_macro (B := B) (env := env) isMacro_string
  have hcallee : RunsE B (runAt B b) (runFresh B) env [.push (.ident "string".toList)] (.val (.ident "string".toList)) :=
    ⟨1, by simp, go_push _ []⟩
  have hseg : ∀ sg ∈ segs, Runs B (runAt B b) (runFresh B) env (segCode B sg) (segVal B env sg) := by
    intro sg hsg
    cases sg with
    | lit s =>
      have hstep := callStep_ident (B := B) (rec := runAt B b) (top := runFresh B) henv.toEnvOK "string".toList
        (argv := [.str s]) (res := .ok [.str s])
        (by intro a ha; simp only [List.mem_singleton] at ha; subst ha; exact (data_str s).plain)
        (argsEval_single (data_str s)) (callResult_of_not_macro hnm _ _ _)
      rw [callRes_ok] at hstep
      have hd : Data (callRaw B (fnKind B env "string".toList) [.str s]) :=
        data_callRaw hB (kindOK_fnKind _) (by intro a ha; simp only [List.mem_singleton] at ha; subst ha; rfl)
      exact runs_call hcallee [.str s] hd.plain hstep
    | expr src e =>
      have hge := ih src e hsg
      have hlt := depth_seg_lt hsg
      have hblk : ∀ p ∈ [((compileX B e).cp.toCode, evalSpec B e env)], ∀ log,
          runAt B b env p.1 true log = outOf p.2 log := by
        intro p hp log
        simp only [List.mem_singleton] at hp; subst hp
        exact block_runs hge henv (by omega) hb log
      have hev := argsEval_blocks (rec := runAt B b) (env := env) _ hblk
      have hstep := callStep_ident (B := B) (rec := runAt B b) (top := runFresh B) henv.toEnvOK "string".toList
        (by intro a ha; simp only [List.map_cons, List.map_nil, List.mem_singleton] at ha; subst ha; exact plain_code _)
        hev (callResult_of_not_macro hnm _ _ _)
      rw [callRes_argsRes] at hstep
      have hde : Data (evalSpec B e env) := (hge b env henv (by omega) hb).2
      have hd : Data (callStrict B (fnKind B env "string".toList) [evalSpec B e env]) :=
        data_callStrict hB (kindOK_fnKind _) (by intro a ha; simp only [List.mem_singleton] at ha; subst ha; exact hde)
      exact runs_call hcallee [.code (compileX B e).cp.toCode] hd.plain hstep
  have := runs_fmt (B := B) (rec := runAt B b) (top := runFresh B) henv.noProgs
    (segs.map (fun sg => (segCode B sg, segVal B env sg)))
    (fun p hp => by
      obtain ⟨sg, hsg, rfl⟩ := List.mem_map.mp hp
      exact hseg sg hsg)
  simpa [List.map_map, Function.comp_def, CP.toCode] using this

/-! ### agreeing environments: the constructors -/

theorem fnKind_nonmacro_agree {e1 e2 : Env} (h1 : e1.hasBinds = true) (h2 : e2.hasBinds = true) {n : Str}
    (hm1 : e1.isMacro n = false) (hm2 : e2.isMacro n = false) : fnKind B e1 n = fnKind B e2 n := by
  unfold fnKind
  simp [hm1, hm2, Env.getType, h1, h2]

theorem irr_notRun (sp : Span) (ops : List Span) (m : Ast) (h : Irr B (identsOf m) (evalSpec B m)) :
    Irr B (identsOf (.notRun sp ops m)) (evalSpec B (.notRun sp ops m)) := by
  intro e1 e2 ha
  rw [identsOf] at ha
  simp only [evalSpec]
  rw [h e1 e2 ha]

theorem irr_negRun (sp : Span) (ops : List Span) (m : Ast) (h : Irr B (identsOf m) (evalSpec B m)) :
    Irr B (identsOf (.negRun sp ops m)) (evalSpec B (.negRun sp ops m)) := by
  intro e1 e2 ha
  rw [identsOf] at ha
  simp only [evalSpec]
  rw [h e1 e2 ha]

theorem irr_bin (sp : Span) (op : BinOp) (l r : Ast) (hl : Irr B (identsOf l) (evalSpec B l))
    (hr : Irr B (identsOf r) (evalSpec B r)) :
    Irr B (identsOf (.bin sp op l r)) (evalSpec B (.bin sp op l r)) := by
  intro e1 e2 ha
  rw [identsOf] at ha
  by_cases hlazy : op = .or ∨ op = .and
  · rw [es_lazy sp op l r e1 hlazy, es_lazy sp op l r e2 hlazy, hl e1 e2 ha.left, hr e1 e2 ha.right]
  · have h1 : op ≠ .or := fun h => hlazy (Or.inl h)
    have h2 : op ≠ .and := fun h => hlazy (Or.inr h)
    rw [es_bin sp op l r e1 h1 h2, es_bin sp op l r e2 h1 h2, hl e1 e2 ha.left, hr e1 e2 ha.right]

theorem irr_tern (sp : Span) (c t f : Ast) (hc : Irr B (identsOf c) (evalSpec B c))
    (ht : Irr B (identsOf t) (evalSpec B t)) (hf : Irr B (identsOf f) (evalSpec B f)) :
    Irr B (identsOf (.tern sp c t f)) (evalSpec B (.tern sp c t f)) := by
  intro e1 e2 ha
  rw [identsOf] at ha
  rw [es_tern, es_tern, hc e1 e2 ha.left.left, ht e1 e2 ha.left.right, hf e1 e2 ha.right]

theorem identsOfCases_mem {cases : List MCase} {c : MCase} (h : c ∈ cases) :
    (∀ n ∈ identsOfPat (casePat c), n ∈ identsOfCases cases) ∧
    (∀ n ∈ identsOf (caseBody c), n ∈ identsOfCases cases) := by
  induction cases with
  | nil => cases h
  | cons c' cs ih =>
    cases c' with
    | mk sp p b =>
      rw [identsOfCases]
      rcases List.mem_cons.mp h with rfl | h
      · simp only [casePat, caseBody]
        exact ⟨fun n hn => List.mem_append_left _ (List.mem_append_left _ hn),
          fun n hn => List.mem_append_left _ (List.mem_append_right _ hn)⟩
      · exact ⟨fun n hn => List.mem_append_right _ ((ih h).1 n hn), fun n hn => List.mem_append_right _ ((ih h).2 n hn)⟩

theorem irr_match (sp : Span) (s : Ast) (cases : List MCase) (hs : Irr B (identsOf s) (evalSpec B s))
    (harm : ∀ sp' p b, MCase.mk sp' p b ∈ cases → Irr B (identsOf b) (evalSpec B b))
    (hcmp : ∀ sp' sp1 sp2 op e b, MCase.mk sp' (.cmp sp1 sp2 op e) b ∈ cases → Irr B (identsOf e) (evalSpec B e))
    (htyp : ∀ sp' sp1 t name b, MCase.mk sp' (.type sp1 t name) b ∈ cases → (typeByName name).isSome) :
    Irr B (identsOf (.match_ sp s cases)) (evalSpec B (.match_ sp s cases)) := by
  intro e1 e2 ha
  rw [identsOf] at ha
  have hes : ∀ env, evalSpec B (.match_ sp s cases) env = evalSpecCases B cases (evalSpec B s env) env := by
    intro env; rw [evalSpec]
  rw [hes, hes, hs e1 e2 ha.left, evalSpecCases_eq, evalSpecCases_eq]
  congr 1
  apply List.map_congr_left
  intro c hc
  have hmem := identsOfCases_mem hc
  cases c with
  | mk sp' p b =>
    simp only [casePat, caseBody] at hmem ⊢
    have hb := harm sp' p b hc e1 e2 (ha.right.mono hmem.2)
    rw [hb]
    congr 1
    cases p with
    | any _ => simp [evalSpecPat]
    | cmp sp1 sp2 op e =>
      simp only [evalSpecPat]
      rw [hcmp sp' sp1 sp2 op e b hc e1 e2 (ha.right.mono (by rw [identsOfPat] at hmem; exact hmem.1))]
    | type sp1 t name =>
      rw [evalSpecPat_type, evalSpecPat_type,
        fnKind_nonmacro_agree ha.b1 ha.b2 isMacro_type isMacro_type]
      have := htyp sp' sp1 t name b hc
      cases htn : typeByName name with
      | none => rw [htn] at this; cases this
      | some ty => simp [resolveIdent, Env.getType, ha.b1, ha.b2, htn]

theorem identsOfInits_mem {inits : List MInit} {i : MInit} (h : i ∈ inits) :
    (∀ n ∈ identsOf (initKey i), n ∈ identsOfInits inits) ∧ (∀ n ∈ identsOf (initVal i), n ∈ identsOfInits inits) := by
  induction inits with
  | nil => cases h
  | cons x xs ih =>
    cases x with
    | mk sp k v =>
      rw [identsOfInits]
      rcases List.mem_cons.mp h with rfl | h
      · simp only [initKey, initVal]
        exact ⟨fun n hn => List.mem_append_left _ (List.mem_append_left _ hn),
          fun n hn => List.mem_append_left _ (List.mem_append_right _ hn)⟩
      · exact ⟨fun n hn => List.mem_append_right _ ((ih h).1 n hn), fun n hn => List.mem_append_right _ ((ih h).2 n hn)⟩

theorem identsOfSegs_mem {segs : List FSegAst} {src : Str} {e : Ast} (h : FSegAst.expr src e ∈ segs) :
    ∀ n ∈ identsOf e, n ∈ identsOfSegs segs := by
  induction segs with
  | nil => cases h
  | cons x xs ih =>
    rcases List.mem_cons.mp h with rfl | h'
    · rw [identsOfSegs]; exact fun n hn => List.mem_append_left _ hn
    · cases x <;> rw [identsOfSegs]
      · exact ih h'
      · exact fun n hn => List.mem_append_right _ (ih h' n hn)

/-- Primaries do not distinguish agreeing environments. -/
theorem irr_prim (p : Prim)
    (hpar : ∀ sp' e, p = .parens sp' e → Irr B (identsOf e) (evalSpec B e))
    (hlist : ∀ sp' es, p = .list sp' es → ∀ e ∈ es, Irr B (identsOf e) (evalSpec B e))
    (hmk : ∀ sp' inits, p = .map sp' inits → ∀ i ∈ inits, Irr B (identsOf (initKey i)) (evalSpec B (initKey i)))
    (hmv : ∀ sp' inits, p = .map sp' inits → ∀ i ∈ inits, Irr B (identsOf (initVal i)) (evalSpec B (initVal i)))
    (hseg : ∀ sp' segs, p = .fstr sp' segs → ∀ src e, FSegAst.expr src e ∈ segs → Irr B (identsOf e) (evalSpec B e)) :
    Irr B (identsOfPrim p) (evalSpecPrim B p) := by
  intro e1 e2 ha
  cases p with
  | ident sp n =>
    simp only [evalSpecPrim]
    exact ha.res n (by rw [identsOfPrim]; simp)
  | parens sp e =>
    simp only [evalSpecPrim]
    rw [identsOfPrim] at ha
    exact hpar sp e rfl e1 e2 ha
  | list sp es =>
    simp only [evalSpecPrim]
    rw [identsOfPrim] at ha
    rw [evalSpecList_irr (hlist sp es rfl) (fun n hn => hn) ha]
  | map sp inits =>
    simp only [evalSpecPrim]
    rw [identsOfPrim] at ha
    rw [evalSpecInits_eq, evalSpecInits_eq]
    congr 1
    apply List.map_congr_left
    intro i hi
    have hmem := identsOfInits_mem hi
    rw [hmk sp inits rfl i hi e1 e2 (ha.mono hmem.1), hmv sp inits rfl i hi e1 e2 (ha.mono hmem.2)]
  | fstr sp segs =>
    simp only [evalSpecPrim]
    rw [identsOfPrim] at ha
    rw [evalSpecSegs_eq, evalSpecSegs_eq]
    congr 1
    apply List.map_congr_left
    intro sg hsg
    have hk := fnKind_nonmacro_agree (B := B) ha.b1 ha.b2 (n := "string".toList) isMacro_string isMacro_string
    cases sg with
    | lit s => simp only [segVal, hk]
    | expr src e =>
      simp only [segVal, hk]
      rw [hseg sp segs rfl src e hsg e1 e2 (ha.mono (identsOfSegs_mem hsg))]
  | null _ => rfl
  | int _ _ => rfl
  | uint _ _ => rfl
  | float _ _ => rfl
  | str _ _ => rfl
  | bytes _ _ => rfl
  | bool _ _ => rfl

/-! ### member expressions -/

theorem good_prim (hB : BuiltinsOK B) (p : Prim)
    (hpar : ∀ sp' e, p = .parens sp' e → GoodRun B e)
    (hlist : ∀ sp' es, p = .list sp' es → ∀ e ∈ es, GoodRun B e)
    (hmk : ∀ sp' inits, p = .map sp' inits → ∀ i ∈ inits, GoodRun B (initKey i))
    (hmv : ∀ sp' inits, p = .map sp' inits → ∀ i ∈ inits, GoodRun B (initVal i))
    (hseg : ∀ sp' segs, p = .fstr sp' segs → ∀ src e, FSegAst.expr src e ∈ segs → GoodRun B e) :
    CGood B (depthPrim p) (compilePrim B p) (evalSpecPrim B p) := by
  cases p with
  | ident sp n =>
    intro b env henv _ _
    exact ⟨runs_ident n, fun c hc => (by simp [compilePrim] at hc), data_resolveIdent henv.toEnvOK n⟩
  | parens sp e =>
    have := (hpar sp e rfl).cgood
    intro b env henv hd hb
    rw [depthPrim] at hd
    have h := this b env henv hd hb
    simpa [compilePrim, evalSpecPrim] using h
  | list sp es => exact good_list_prim sp es (hlist sp es rfl)
  | map sp inits => exact good_map_prim sp inits (hmk sp inits rfl) (hmv sp inits rfl)
  | fstr sp segs => exact good_fstr_prim hB sp segs (hseg sp segs rfl)
  | null _ => exact cgood_const (v := .null) rfl _
  | int _ i => exact cgood_const (v := .int i) rfl _
  | uint _ n => exact cgood_const (v := .uint n) rfl _
  | float _ x => exact cgood_const (v := .float x) rfl _
  | str _ x => exact cgood_const (v := .str x) rfl _
  | bytes _ x => exact cgood_const (v := .bytes x) rfl _
  | bool _ x => exact cgood_const (v := .bool x) rfl _

theorem cx_member (sp : Span) (p : Prim) (chain : List MOp) :
    compileX B (.member sp p chain) = { cp := compileOps B (identsOfPrim p) (compilePrim B p) chain } := by
  rw [compileX]

theorem good_member (hB : BuiltinsOK B) (sp : Span) (p : Prim) (chain : List MOp)
    (hpar : ∀ sp' e, p = .parens sp' e → Good B e)
    (hlist : ∀ sp' es, p = .list sp' es → ∀ e ∈ es, Good B e)
    (hmk : ∀ sp' inits, p = .map sp' inits → ∀ sp'' k v, MInit.mk sp'' k v ∈ inits → Good B k)
    (hmv : ∀ sp' inits, p = .map sp' inits → ∀ sp'' k v, MInit.mk sp'' k v ∈ inits → Good B v)
    (hseg : ∀ sp' segs, p = .fstr sp' segs → ∀ src e, FSegAst.expr src e ∈ segs → Good B e)
    (hargs : ∀ sp' args, MOp.call sp' args ∈ chain → ∀ a ∈ args, Good B a)
    (hidx : ∀ sp' e, MOp.index sp' e ∈ chain → Good B e)
    (hshape : memberShape B p chain = true) : Good B (.member sp p chain) := by
  have hmk' : ∀ sp' inits, p = .map sp' inits → ∀ i ∈ inits, Good B (initKey i) := by
    intro sp' inits hp i hi; cases i with | mk s k v => exact hmk sp' inits hp s k v hi
  have hmv' : ∀ sp' inits, p = .map sp' inits → ∀ i ∈ inits, Good B (initVal i) := by
    intro sp' inits hp i hi; cases i with | mk s k v => exact hmv sp' inits hp s k v hi
  suffices h : CGood B (max (depthPrim p) (depthOps chain)) (compileOps B (identsOfPrim p) (compilePrim B p) chain)
      (evalSpec B (.member sp p chain)) ∧
      Irr B (identsOfPrim p ++ identsOfOps chain) (evalSpec B (.member sp p chain)) by
    refine ⟨good_of_cgood ?_ (by rw [cx_member]), ?_⟩
    · rw [cx_member, depth]; exact h.1
    · rw [identsOf]; exact h.2
  by_cases hcall : ∃ sp' f sp'' args rest, p = .ident sp' f ∧ chain = .call sp'' args :: rest
  · obtain ⟨sp', f, sp'', args, rest, rfl, rfl⟩ := hcall
    have hsh : macroShape B f args = true ∧ opsShape B rest = true := by
      simpa [memberShape] using hshape
    have hargs' : ∀ a ∈ args, Good B a := hargs sp'' args (by simp)
    have hU := call_runs hB (calleeGood_ident (B := B) f) args (fun a ha => (hargs' a ha).1)
      (macro_ok hB f args (fun a ha => (hargs' a ha).1) hsh.1)
    have hirr' : Irr B ([f] ++ identsOfList args) (callVal B (fun env => fnKind B env f) f args) := by
      apply callVal_irr (ids := [f])
      · intro e1 e2 h; exact h.kind f (by simp)
      · exact fun a ha => (hargs' a ha).2
      · exact fun n hn => List.mem_append_right _ hn
      · exact fun n hn => List.mem_append_left _ hn
    have hcg := cgood_checkForConst hU hirr'
    have := ops_good hB rest hsh.2 (fun sp3 a' h => hargs sp3 a' (by simp [h])) (fun sp3 e h => hidx sp3 e (by simp [h]))
      ([f] ++ identsOfList args) _ _ _ hcg hirr'
    have hes : evalSpec B (.member sp (.ident sp' f) (.call sp'' args :: rest)) =
        fun env => evalSpecOps B (callVal B (fun env => fnKind B env f) f args env) rest env := by
      funext env; exact es_call ..
    have hco : compileOps B (identsOfPrim (.ident sp' f)) (compilePrim B (.ident sp' f)) (.call sp'' args :: rest) =
        compileOps B ([f] ++ identsOfList args) (checkForConst B ([f] ++ identsOfList args)
          (compileArgs B args ++ [.push (.ident f)] ++ [.call args.length])) rest := by
      rw [co_call]; rfl
    rw [hes, hco, identsOfOps_call, ← List.append_assoc]
    refine ⟨this.1.mono ?_, ?_⟩
    · have hd0 : depthPrim (.ident sp' f) = 0 := rfl
      rw [depthOps, hd0]; omega
    · have h2 := this.2
      rw [identsOfPrim]
      exact h2
  · have hne : ∀ sp' f sp'' args rest, p = .ident sp' f → chain = .call sp'' args :: rest → False :=
      fun sp' f sp'' args rest h1 h2 => hcall ⟨sp', f, sp'', args, rest, h1, h2⟩
    have hsh : opsShape B chain = true := by
      unfold memberShape at hshape
      split at hshape
      · exact (hne _ _ _ _ _ rfl rfl).elim
      · exact hshape
    have hp := good_prim hB p (fun s e h => (hpar s e h).1) (fun s es h e he => (hlist s es h e he).1)
      (fun s is h i hi => (hmk' s is h i hi).1) (fun s is h i hi => (hmv' s is h i hi).1)
      (fun s sg h src e he => (hseg s sg h src e he).1)
    have hpi := irr_prim (B := B) p (fun s e h => (hpar s e h).2) (fun s es h e he => (hlist s es h e he).2)
      (fun s is h i hi => (hmk' s is h i hi).2) (fun s is h i hi => (hmv' s is h i hi).2)
      (fun s sg h src e he => (hseg s sg h src e he).2)
    have := ops_good hB chain hsh hargs hidx (identsOfPrim p) _ _ _ hp hpi
    have hes : evalSpec B (.member sp p chain) = fun env => evalSpecOps B (evalSpecPrim B p env) chain env := by
      funext env; exact es_member sp p chain env hne
    rw [hes]
    exact this

/-! ### the induction -/

theorem good_all (hB : BuiltinsOK B) {e : Ast} (h : Frag2 B e) : Good B e := by
  induction h with
  | notRun sp ops x _ ih => exact ⟨good_notRun sp ops x ih.1, irr_notRun sp ops x ih.2⟩
  | negRun sp ops x _ ih => exact ⟨good_negRun sp ops x ih.1, irr_negRun sp ops x ih.2⟩
  | bin sp op l r _ _ ihl ihr => exact ⟨good_bin sp op l r ihl.1 ihr.1, irr_bin sp op l r ihl.2 ihr.2⟩
  | tern sp c t f _ _ _ ihc iht ihf =>
    exact ⟨good_tern sp c t f ihc.1 iht.1 ihf.1, irr_tern sp c t f ihc.2 iht.2 ihf.2⟩
  | match_ sp s cases _ _ _ htyp ihs iharm ihcmp =>
    exact ⟨good_match hB sp s cases ihs.1 (fun a b c d => (iharm a b c d).1) (fun a b c d e f g => (ihcmp a b c d e f g).1),
      irr_match sp s cases ihs.2 (fun a b c d => (iharm a b c d).2) (fun a b c d e f g => (ihcmp a b c d e f g).2) htyp⟩
  | member sp p chain _ _ _ _ _ _ _ hshape ihpar ihlist ihmk ihmv ihseg ihargs ihidx =>
    exact good_member hB sp p chain ihpar ihlist ihmk ihmv ihseg ihargs ihidx hshape

end

/-! ### the theorems -/

section
variable {B : Builtins} {env : Env}

/-- **Compiler correctness on the larger fragment, by level of the depth budget.**  For a tree `e` of `Frag2`,
    at a level `b` of the call-depth budget that covers the nesting depth of `e` (`depth e ≤ b`: call
    arguments, macro bodies and f-string segments are nested blocks, run through the callback of the next
    level `runAt B (b-1)`, …), the code emitted for `e` — constant-folded or not, `check_for_const` included —
    placed anywhere, on any stack, reaches its end in at most `code.length` steps having pushed exactly one
    entry, which denotes `evalSpec B e env`; the rest of the stack and the log are untouched. -/
theorem compile_correct2_partial (hB : BuiltinsOK B) (henv : StdEnv B env) {e : Ast} (h : Frag2 B e) {b : Nat}
    (hd : depth e ≤ b) (hb : b < maxDepth) :
    Runs B (runAt B b) (runFresh B) env (compileX B e).cp.toCode (evalSpec B e env) :=
  ((good_all hB h).1 b env henv hd hb).1.runs

/-- The value of a tree of the fragment is data (no identifier, no code block, at any depth). -/
theorem evalSpec_data (hB : BuiltinsOK B) (henv : StdEnv B env) {e : Ast} (h : Frag2 B e) (hd : depth e < maxDepth) :
    Data (evalSpec B e env) :=
  ((good_all hB h).1 (maxDepth - 1) env henv (by omega) (by unfold maxDepth; omega)).2

/-- **One level up**: the block of `e` run by `run_raw` with `b + 1` levels left (`rec := runAt B b`). -/
theorem run_level_partial (hB : BuiltinsOK B) (henv : StdEnv B env) {e : Ast} (h : Frag2 B e) {b : Nat}
    (hd : depth e ≤ b) (hb : b < maxDepth) (log : Log) :
    runAt B (b + 1) env (compileX B e).cp.toCode true log = outOf (evalSpec B e env) log :=
  runAt_of_runs henv.noProgs b (compile_correct2_partial hB henv h hd hb) log

/-- **End to end.**  Executing the compiled program yields `evalSpec B e env` — a failure value as a failure —
    and an empty call log, when the nesting depth of `e` is within the budget of `run_raw`. -/
theorem exec_correct2_partial (hB : BuiltinsOK B) (henv : StdEnv B env) {e : Ast} (h : Frag2 B e)
    (hd : depth e < maxDepth) : run B env e = outOf (evalSpec B e env) [] := by
  show runAt B (31 + 1) env (compileX B e).cp.toCode true [] = _
  exact run_level_partial hB henv h (by unfold maxDepth at hd; omega) (by decide) []

/-- **Folding is sound on the larger fragment** (the C09 statement): whenever the compiler replaces a tree by a
    constant — by operator folding, list / map / member folding, or by evaluating a closed clock-free call at
    compile time (`check_for_const`) — that constant is the value of the tree in every standard environment. -/
theorem fold_sound2_partial (hB : BuiltinsOK B) (henv : StdEnv B env) {e : Ast} (h : Frag2 B e)
    (hd : depth e < maxDepth) {v : Val} (hc : compile B e = .const v) : v = evalSpec B e env :=
  (((good_all hB h).1 (maxDepth - 1) env henv (by omega) (by unfold maxDepth; omega)).1.const v hc).1

/-- … so the folded program and the value are the same in any two standard environments: nothing an
    environment binds can be observed through a folded tree. -/
theorem folded_env_irrelevant (hB : BuiltinsOK B) {env1 env2 : Env} (h1 : StdEnv B env1) (h2 : StdEnv B env2)
    {e : Ast} (h : Frag2 B e) (hd : depth e < maxDepth) {v : Val} (hc : compile B e = .const v) :
    run B env1 e = run B env2 e := by
  rw [exec_correct2_partial hB h1 h hd, exec_correct2_partial hB h2 h hd,
    ← fold_sound2_partial hB h1 h hd hc, ← fold_sound2_partial hB h2 h hd hc]

/-- A call `f(a₁, …, aₙ)` (`srcArgs` in source order). -/
def callE (f : String) (srcArgs : List Ast) : Ast :=
  .member sp0 (.ident sp0 f.toList) [.call sp0 srcArgs.reverse]

/-- The unfolded code of `f(args)` (`args` as the tree stores them). -/
def callCode (B : Builtins) (f : Str) (args : List Ast) : List Instr :=
  compileArgs B args ++ [.push (.ident f)] ++ [.call args.length]

/-- **A folded call is the run-time call** (C09 for calls).  When `check_for_const` evaluates the call
    `f(args)` at compile time and keeps the constant `v`, then in every standard environment the *unfolded*
    call sequence, run by `run_raw`, yields exactly `v` (and leaves the log alone): pre-evaluating the call
    is invisible. -/
theorem fold_call_sound_partial (hB : BuiltinsOK B) (henv : StdEnv B env) {f : Str} {args : List Ast}
    (hargs : ∀ a ∈ args, Frag2 B a) (hshape : macroShape B f args = true) {b : Nat}
    (hd : depthArgs args ≤ b) (hb : b < maxDepth) {v : Val}
    (hfold : checkForConst B ([f] ++ identsOfList args) (callCode B f args) = .const v) (log : Log) :
    runAt B (b + 1) env (callCode B f args) true log = outOf v log ∧
      v = callVal B (fun env => fnKind B env f) f args env := by
  have hg : ∀ a ∈ args, Good B a := fun a ha => good_all hB (hargs a ha)
  have hU := call_runs hB (calleeGood_ident (B := B) f) args (fun a ha => (hg a ha).1)
    (macro_ok hB f args (fun a ha => (hg a ha).1) hshape)
  have hirr' : Irr B ([f] ++ identsOfList args) (callVal B (fun env => fnKind B env f) f args) := by
    apply callVal_irr (ids := [f])
    · intro e1 e2 h; exact h.kind f (by simp)
    · exact fun a ha => (hg a ha).2
    · exact fun n hn => List.mem_append_right _ hn
    · exact fun n hn => List.mem_append_left _ hn
  have hcg := cgood_checkForConst hU hirr' b env henv (by omega) hb
  have hv : v = callVal B (fun env => fnKind B env f) f args env := hcg.2.1 v hfold
  refine ⟨?_, hv⟩
  rw [hv]
  exact runAt_of_runs henv.noProgs b (hU b env henv (by omega) hb).1 log

/-! #### readable corollaries about calls -/

theorem macroShape_nonmacro {name : Str} {args : List Ast} (h : defaultMacros.any (·.toList = name) = false) :
    macroShape B name args = true := by
  simp only [defaultMacros, List.any_cons, List.any_nil, Bool.or_false, Bool.or_eq_false_iff,
    decide_eq_false_iff_not] at h
  obtain ⟨_, h1, h2, h3, h4, h5, h6, _⟩ := h
  unfold macroShape
  rw [if_neg (fun hc => h6 hc.symm), if_neg (fun hc => h5 hc.symm), if_neg]
  intro hc
  simp only [Bool.or_eq_true, decide_eq_true_eq] at hc
  rcases hc with ((hc | hc) | hc) | hc
  · exact h1 hc.symm
  · exact h2 hc.symm
  · exact h3 hc.symm
  · exact h4 hc.symm

theorem isMacro_default_mode {env : Env} (hb : env.hasBinds = true) (hmode : env.compileMode = false) (name : Str) :
    env.isMacro name = defaultMacros.any (·.toList = name) := by
  unfold Env.isMacro
  rw [hb, hmode]
  rfl

theorem frag_call {f : String} {srcArgs : List Ast} (hargs : ∀ a ∈ srcArgs, Frag2 B a)
    (hshape : macroShape B f.toList srcArgs.reverse = true) : Frag2 B (callE f srcArgs) := by
  refine .member _ _ _ (fun _ _ h => by cases h) (fun _ _ h => by cases h) (fun _ _ h => by cases h)
    (fun _ _ h => by cases h) (fun _ _ h => by cases h) ?_ ?_ ?_
  · intro sp' args hm a ha
    simp only [List.mem_singleton, MOp.call.injEq] at hm
    obtain ⟨_, rfl⟩ := hm
    exact hargs a (List.mem_reverse.mp ha)
  · intro sp' e hm; simp at hm
  · simp [memberShape, hshape, opsShape]

theorem evalSpec_callE (f : String) (srcArgs : List Ast) (env : Env) :
    evalSpec B (callE f srcArgs) env =
      callOf B (fnKind B env f.toList) f.toList (srcArgs.map (fun a => evalSpec B a env))
        (fun this => evalSpecMacro B f.toList this srcArgs.reverse env) := by
  unfold callE
  rw [es_call, eso_nil, evalSpecList_eq, List.map_reverse, List.reverse_reverse]

/-- **A call of a built-in function evaluates its arguments left to right and applies the function**;
    **a failing argument fails the call** with the failure of the first (leftmost) failing argument. -/
theorem call_builtin (hB : BuiltinsOK B) (henv : StdEnv B env) {f : String} {g : Val → List Val → Val}
    (hf : B.func f.toList = some g) {srcArgs : List Ast} (hargs : ∀ a ∈ srcArgs, Frag2 B a)
    (hshape : macroShape B f.toList srcArgs.reverse = true) (hd : depth (callE f srcArgs) < maxDepth) :
    run B env (callE f srcArgs) = outOf (applyArgs (g .null) (srcArgs.map (fun a => evalSpec B a env))) [] := by
  rw [exec_correct2_partial hB henv (frag_call hargs hshape) hd, evalSpec_callE]
  simp only [fnKind, hf, callOf]

theorem failing_arg_fails_call (hB : BuiltinsOK B) (henv : StdEnv B env) {f : String} {g : Val → List Val → Val}
    (hf : B.func f.toList = some g) {srcArgs : List Ast} (hargs : ∀ a ∈ srcArgs, Frag2 B a)
    (hshape : macroShape B f.toList srcArgs.reverse = true) (hd : depth (callE f srcArgs) < maxDepth)
    {k : ErrKind} (hk : firstErr (srcArgs.map (fun a => evalSpec B a env)) = some k) :
    run B env (callE f srcArgs) = { res := .error (.err k), log := [] } := by
  rw [call_builtin hB henv hf hargs hshape hd, applyArgs, hk]; rfl

/-- A type constructor call `T(a₁, …)` (no function of that name): the same rule with `B.ctor`. -/
theorem call_ctor (hB : BuiltinsOK B) (henv : StdEnv B env) {f : String} {tn : Str}
    (hf : B.func f.toList = none) (ht : typeByName f.toList = some (.type tn)) {srcArgs : List Ast}
    (hargs : ∀ a ∈ srcArgs, Frag2 B a) (hd : depth (callE f srcArgs) < maxDepth) :
    run B env (callE f srcArgs) =
      outOf (applyArgs (B.ctor tn) (srcArgs.map (fun a => evalSpec B a env))) [] := by
  have hnm : env.isMacro f.toList = false := by
    cases hm : env.isMacro f.toList
    · rfl
    · have := typeName_not_macro ht; rw [isMacro_default hm] at this; cases this
  have hshape : macroShape B f.toList srcArgs.reverse = true := macroShape_nonmacro (typeName_not_macro ht)
  rw [exec_correct2_partial hB henv (frag_call hargs hshape) hd, evalSpec_callE]
  have hk : fnKind B env f.toList = .ctor tn := by
    unfold fnKind
    rw [hf]
    simp only [hnm, Bool.false_eq_true, if_false, Env.getType, henv.binds, if_true, ht]
  rw [hk]
  rfl

/-- `has(a)` on a compiled program: `true` when `a` yields a value, `false` when it fails with a Binding or
    Attribute failure, and every other failure of `a` is the failure of `has(a)`. -/
theorem has_spec_compiled (hB : BuiltinsOK B) (henv : StdEnv B env) (hf : B.func "has".toList = none)
    (hmode : env.compileMode = false) {a : Ast} (ha : Frag2 B a) (hd : depth a + 1 < maxDepth) :
    run B env (callE "has" [a]) = outOf (hasVal (evalSpec B a env)) [] := by
  have hfr : Frag2 B (callE "has" [a]) := frag_call (by simpa using ha) (by simp [macroShape])
  have hdd : depth (callE "has" [a]) < maxDepth := by
    simp only [callE, depth, depthPrim, depthOps, depthArgs, List.reverse_cons, List.reverse_nil, List.nil_append]
    omega
  have hm : env.isMacro "has".toList = true := by
    rw [isMacro_default_mode henv.binds hmode]; decide
  rw [exec_correct2_partial hB henv hfr hdd, evalSpec_callE]
  simp only [fnKind, hf, hm, if_true, callOf]
  rw [if_neg (by decide), evalSpecMacro.eq_def]
  simp

theorem has_true_of_value (hB : BuiltinsOK B) (henv : StdEnv B env) (hf : B.func "has".toList = none)
    (hmode : env.compileMode = false) {a : Ast} (ha : Frag2 B a) (hd : depth a + 1 < maxDepth) {v : Val}
    (hv : (run B env a).res = .ok v) : run B env (callE "has" [a]) = { res := .ok (.bool true), log := [] } := by
  rw [exec_correct2_partial hB henv ha (by omega)] at hv
  obtain ⟨h1, h2⟩ := outOf_res_ok hv
  rw [has_spec_compiled hB henv hf hmode ha hd]
  cases hs : evalSpec B a env <;> first | rfl | exact absurd hs (h2 _)

theorem has_false_of_absent (hB : BuiltinsOK B) (henv : StdEnv B env) (hf : B.func "has".toList = none)
    (hmode : env.compileMode = false) {a : Ast} (ha : Frag2 B a) (hd : depth a + 1 < maxDepth)
    (hv : (run B env a).res = .error (.err .binding) ∨ (run B env a).res = .error (.err .attribute)) :
    run B env (callE "has" [a]) = { res := .ok (.bool false), log := [] } := by
  rw [exec_correct2_partial hB henv ha (by omega)] at hv
  rw [has_spec_compiled hB henv hf hmode ha hd]
  rcases hv with hv | hv <;> obtain ⟨k, hk, hk'⟩ := outOf_res_err hv <;> cases hk' <;> rw [hk] <;> rfl

theorem coalesceVal_skip (pre : List Val) (rest : List Val)
    (hpre : ∀ v ∈ pre, v = .null ∨ v = .err .binding ∨ v = .err .attribute) :
    coalesceVal (pre ++ rest) = coalesceVal rest := by
  induction pre with
  | nil => rfl
  | cons v vs ih =>
    have := ih (fun w hw => hpre w (List.mem_cons_of_mem _ hw))
    rcases hpre v (List.mem_cons_self ..) with rfl | rfl | rfl <;> simpa [coalesceVal, absentKind] using this

theorem coalesceVal_pick {v : Val} (post : List Val) (hn : v ≠ .null)
    (hb : v ≠ .err .binding) (ha : v ≠ .err .attribute) : coalesceVal (v :: post) = v := by
  cases v <;> simp_all [coalesceVal]
  rename_i k
  cases k <;> simp_all [absentKind]

/-- `coalesce(…, a, …)` on a compiled program: when every argument before `a` is `null` or fails with a
    Binding/Attribute failure and `a` is neither, the result is that of `a` — whatever follows `a`
    (failing arguments included) plays no role. -/
theorem coalesce_laziness (hB : BuiltinsOK B) (henv : StdEnv B env) (hf : B.func "coalesce".toList = none)
    (hmode : env.compileMode = false) {pre post : List Ast} {a : Ast}
    (hargs : ∀ x ∈ pre ++ a :: post, Frag2 B x) (hd : depth (callE "coalesce" (pre ++ a :: post)) < maxDepth)
    (hpre : ∀ x ∈ pre, evalSpec B x env = .null ∨ evalSpec B x env = .err .binding ∨
      evalSpec B x env = .err .attribute)
    (hn : evalSpec B a env ≠ .null) (hbn : evalSpec B a env ≠ .err .binding)
    (han : evalSpec B a env ≠ .err .attribute) :
    run B env (callE "coalesce" (pre ++ a :: post)) = outOf (evalSpec B a env) [] := by
  have hfr : Frag2 B (callE "coalesce" (pre ++ a :: post)) := frag_call hargs (by simp [macroShape])
  have hm : env.isMacro "coalesce".toList = true := by
    rw [isMacro_default_mode henv.binds hmode]; decide
  rw [exec_correct2_partial hB henv hfr hd, evalSpec_callE]
  simp only [fnKind, hf, hm, if_true, callOf, List.map_append, List.map_cons]
  rw [coalesceVal_skip _ _ (by
    intro v hv
    obtain ⟨x, hx, rfl⟩ := List.mem_map.mp hv
    exact hpre x hx), coalesceVal_pick _ hn hbn han]

end

/-! ### readable corollaries about map literals, index and field access -/

section
variable {B : Builtins} {env : Env}

/-- `o[i]` with both in the fragment: `index` of the two values (failing operands propagate, `index`). -/
theorem index_spec (sp sp' : Span) (p : Prim) (i : Ast) (env : Env)
    (h : ∀ s f s' args rest, p = .ident s f → [MOp.index sp' i] = .call s' args :: rest → False := by
      intro _ _ _ _ _ _ h; cases h) :
    evalSpec B (.member sp p [.index sp' i]) env = index (evalSpecPrim B p env) (evalSpec B i env) := by
  rw [es_member _ _ _ _ h, eso_index, eso_nil]

/-- `o.name` for a name that is no function or macro: the field (`fieldOf`). -/
theorem field_spec (sp sp' sp'' : Span) (p : Prim) (name : Str) (env : Env) :
    evalSpec B (.member sp p [.access sp' sp'' name]) env = fieldOf (evalSpecPrim B p env) name := by
  rw [es_member _ _ _ _ (by intro _ _ _ _ _ _ h; cases h), eso_field _ _ _ _ _ _ (by intro _ _ _ h; cases h), eso_nil]

/-- A map literal with string keys is the map of its entries, later entries winning (`Map.ofList`);
    a key that is not a string makes it a Value failure. -/
theorem map_literal_spec (sp sp' : Span) (inits : List MInit) (env : Env) :
    evalSpec B (.member sp (.map sp' inits) []) env =
      mkMap (inits.map (fun i => (evalSpec B (initKey i) env, evalSpec B (initVal i) env))) := by
  rw [es_member _ _ _ _ (by intro _ _ _ _ _ h; cases h), eso_nil, evalSpecPrim, evalSpecInits_eq]

theorem mkMap_strs (es : List (Str × Val)) : mkMap (es.map (fun e => (.str e.1, e.2))) = .map (Map.ofList es) := by
  have : strKeys (es.map (fun e => (Val.str e.1, e.2))) = some es := by
    induction es with
    | nil => rfl
    | cons e es ih => simp [strKeys, ih]
  simp [mkMap, this]

end

/-! ### non-vacuity: the hypotheses of the theorems are satisfiable -/

section

/-- A small table of built-ins: `size` as function and method, the constructors `string` and `type`. -/
def demoB : Builtins where
  func name :=
    if name = "size".toList then
      some fun this args =>
        match this, args with
        | .null, [.list l] => .uint l.length
        | .list l, [] => .uint l.length
        | _, _ => .err .argument
    else none
  ctor tn args :=
    if tn = "string".toList then
      (match args with
       | [.str s] => .str s
       | [.int _] => .str "int".toList
       | _ => .err .argument)
    else if tn = "type".toList then
      (match args with
       | [v] => v.asType
       | _ => .err .argument)
    else .err .runtime

theorem demoB_ok : BuiltinsOK demoB := by
  constructor
  · intro name f this args hf _ _
    simp only [demoB] at hf
    split at hf
    · cases hf
      dsimp only
      split <;> rfl
    · cases hf
  · intro tn args _
    simp only [demoB]
    split
    · split <;> rfl
    · split
      · split <;> rfl
      · rfl

theorem std0 : StdEnv demoB env0 :=
  { noProgs := np0, binds := rfl, noUser := rfl,
    params := fun n v h => by simp [Env.getParam, env0, lookup] at h,
    noShadow := fun _ _ => rfl }

def strLit (s : String) : Ast := .member sp0 (.str sp0 s.toList) []
def listLit (es : List Ast) : Ast := .member sp0 (.list sp0 es) []

theorem frag_lit (i : Int) : Frag2 demoB (lit i) :=
  .member _ _ _ (fun _ _ h => by cases h) (fun _ _ h => by cases h) (fun _ _ h => by cases h)
    (fun _ _ h => by cases h) (fun _ _ h => by cases h) (fun _ _ h => by cases h) (fun _ _ h => by cases h) rfl
theorem frag_var (n : String) : Frag2 demoB (var n) :=
  .member _ _ _ (fun _ _ h => by cases h) (fun _ _ h => by cases h) (fun _ _ h => by cases h)
    (fun _ _ h => by cases h) (fun _ _ h => by cases h) (fun _ _ h => by cases h) (fun _ _ h => by cases h) rfl
theorem frag_str (s : String) : Frag2 demoB (strLit s) :=
  .member _ _ _ (fun _ _ h => by cases h) (fun _ _ h => by cases h) (fun _ _ h => by cases h)
    (fun _ _ h => by cases h) (fun _ _ h => by cases h) (fun _ _ h => by cases h) (fun _ _ h => by cases h) rfl
theorem frag_list {es : List Ast} (h : ∀ e ∈ es, Frag2 demoB e) : Frag2 demoB (listLit es) :=
  .member _ _ _ (fun _ _ h => by cases h) (fun _ es' h' e he => by cases h'; exact h e he) (fun _ _ h => by cases h)
    (fun _ _ h => by cases h) (fun _ _ h => by cases h) (fun _ _ h => by cases h) (fun _ _ h => by cases h) rfl

/-- `{"a": [1, x]}["a"][0]` -/
def mapIdx : Ast :=
  .member sp0 (.map sp0 [.mk sp0 (strLit "a") (listLit [lit 1, var "x"])])
    [.index sp0 (strLit "a"), .index sp0 (lit 0)]

theorem frag_mapIdx : Frag2 demoB mapIdx := by
  refine .member _ _ _ (fun _ _ h => by cases h) (fun _ _ h => by cases h) ?_ ?_ (fun _ _ h => by cases h) ?_ ?_ rfl
  · intro sp' inits h sp'' k v hm
    cases h
    simp only [List.mem_singleton, MInit.mk.injEq] at hm
    obtain ⟨_, rfl, _⟩ := hm
    exact frag_str _
  · intro sp' inits h sp'' k v hm
    cases h
    simp only [List.mem_singleton, MInit.mk.injEq] at hm
    obtain ⟨_, _, rfl⟩ := hm
    exact frag_list (by
      intro e he
      simp only [List.mem_cons, List.mem_nil_iff, or_false] at he
      rcases he with rfl | rfl
      · exact frag_lit _
      · exact frag_var _)
  · intro sp' args hm; simp at hm
  · intro sp' e hm
    simp only [List.mem_cons, MOp.index.injEq, List.mem_nil_iff, or_false] at hm
    rcases hm with ⟨_, rfl⟩ | ⟨_, rfl⟩
    · exact frag_str _
    · exact frag_lit _

-- compile_correct2_partial / exec_correct2_partial / evalSpec_data: `{"a": [1, x]}["a"][0]` is 1
example : run demoB env0 mapIdx = { res := .ok (.int 1), log := [] } := by
  rw [exec_correct2_partial demoB_ok std0 frag_mapIdx (by decide)]; rfl
example : Data (evalSpec demoB mapIdx env0) := evalSpec_data demoB_ok std0 frag_mapIdx (by decide)
-- run_level_partial: the same block with two levels left
example : runAt demoB 2 env0 (compileX demoB mapIdx).cp.toCode true [] = { res := .ok (.int 1), log := [] } := by
  rw [run_level_partial demoB_ok std0 frag_mapIdx (b := 1) (by decide) (by decide)]; rfl

-- fold_sound2_partial / folded_env_irrelevant: `1 + 2` is folded to 3
theorem frag_add : Frag2 demoB (.bin sp0 .add (lit 1) (lit 2)) := .bin _ _ _ _ (frag_lit 1) (frag_lit 2)
theorem add_folded : compile demoB (.bin sp0 .add (lit 1) (lit 2)) = .const (.int 3) := by
  simp [compile, compileX, compilePrim, compileOps, lit]; rfl
example : evalSpec demoB (.bin sp0 .add (lit 1) (lit 2)) env0 = .int 3 :=
  (fold_sound2_partial demoB_ok std0 frag_add (by decide) add_folded).symm
example : run demoB env0 (.bin sp0 .add (lit 1) (lit 2)) = run demoB (env0.bind "y".toList (.int 5)) (.bin sp0 .add (lit 1) (lit 2)) :=
  folded_env_irrelevant demoB_ok std0 (std0.bind (x := "y".toList) (v := .int 5) (by decide) rfl) frag_add (by decide) add_folded

-- call_builtin / failing_arg_fails_call: `size([1, 2])` is 2, `size(x)` with `x` unbound fails with that Binding failure
theorem size_func : demoB.func "size".toList = some (fun this args =>
    match this, args with
    | .null, [.list l] => .uint l.length
    | .list l, [] => .uint l.length
    | _, _ => .err .argument) := by simp [demoB]

example : run demoB env0 (callE "size" [listLit [lit 1, lit 2]]) = { res := .ok (.uint 2), log := [] } := by
  rw [call_builtin demoB_ok std0 size_func
    (by intro a ha; simp only [List.mem_singleton] at ha; subst ha
        exact frag_list (by intro e he; simp only [List.mem_cons, List.mem_nil_iff, or_false] at he
                            rcases he with rfl | rfl <;> exact frag_lit _))
    (by simp [macroShape]) (by decide)]
  rfl
example : run demoB env0 (callE "size" [var "x"]) = { res := .error (.err .binding), log := [] } :=
  failing_arg_fails_call demoB_ok std0 size_func
    (by intro a ha; simp only [List.mem_singleton] at ha; subst ha; exact frag_var _)
    (by simp [macroShape]) (by decide) (k := .binding) rfl

-- call_ctor: `string(5)`
example : run demoB env0 (callE "string" [lit 5]) = { res := .ok (.str "int".toList), log := [] } := by
  rw [call_ctor demoB_ok std0 (f := "string") (tn := "string".toList) (by simp [demoB]) (by rfl)
    (by intro a ha; simp only [List.mem_singleton] at ha; subst ha; exact frag_lit _) (by decide)]
  rfl

-- has_true_of_value / has_false_of_absent / has_spec_compiled: `has(1)`, `has(x)`
theorem has_none : demoB.func "has".toList = none := by simp [demoB]
theorem run_lit2 (i : Int) : (run demoB env0 (lit i)).res = .ok (.int i) := by
  rw [exec_correct2_partial demoB_ok std0 (frag_lit i) (by simp [lit, depth, depthPrim, depthOps, maxDepth])]; rfl
theorem run_unbound2 : (run demoB env0 (var "x")).res = .error (.err .binding) := by
  rw [exec_correct2_partial demoB_ok std0 (frag_var "x") (by decide)]; rfl
example : run demoB env0 (callE "has" [lit 1]) = { res := .ok (.bool true), log := [] } :=
  has_true_of_value demoB_ok std0 has_none rfl (frag_lit 1) (by decide) (run_lit2 1)
example : run demoB env0 (callE "has" [var "x"]) = { res := .ok (.bool false), log := [] } :=
  has_false_of_absent demoB_ok std0 has_none rfl (frag_var "x") (by decide) (Or.inl run_unbound2)

-- coalesce_laziness: `coalesce(x, 7, y)` is 7 — the unbound `y` behind it plays no role
example : run demoB env0 (callE "coalesce" ([var "x"] ++ lit 7 :: [var "y"])) = { res := .ok (.int 7), log := [] } := by
  rw [coalesce_laziness demoB_ok std0 (by simp [demoB]) rfl
    (by intro a ha
        simp only [List.cons_append, List.nil_append, List.mem_cons, List.mem_nil_iff, or_false] at ha
        rcases ha with rfl | rfl | rfl
        · exact frag_var _
        · exact frag_lit _
        · exact frag_var _)
    (by decide)
    (by intro a ha; simp only [List.mem_singleton] at ha; subst ha; exact Or.inr (Or.inl rfl))
    (by intro h; cases h) (by intro h; cases h) (by intro h; cases h)]
  rfl

/-- `[1, 0].all(v, v)`, `[1, 2].size()`, `f'n={1}'`, `match 1 { case int: 10, case _: 20 }` -/
def allE : Ast := .member sp0 (.list sp0 [lit 1, lit 0]) [.access sp0 sp0 "all".toList, .call sp0 [var "v", var "v"]]
def sizeM : Ast := .member sp0 (.list sp0 [lit 1, lit 2]) [.access sp0 sp0 "size".toList, .call sp0 []]
def fstrE : Ast := .member sp0 (.fstr sp0 [.lit "n=".toList, .expr "1".toList (lit 1)]) []
def matchT : Ast := .match_ sp0 (lit 1) [.mk sp0 (.type sp0 .int "int".toList) (lit 10), .mk sp0 (.any sp0) (lit 20)]

theorem frag_allE : Frag2 demoB allE := by
  refine .member _ _ _ (fun _ _ h => by cases h) ?_ (fun _ _ h => by cases h) (fun _ _ h => by cases h)
    (fun _ _ h => by cases h) ?_ ?_ (by decide)
  · intro sp' es h e he
    cases h
    simp only [List.mem_cons, List.mem_nil_iff, or_false] at he
    rcases he with rfl | rfl <;> exact frag_lit _
  · intro sp' args hm a ha
    simp only [List.mem_cons, List.mem_nil_iff, or_false, MOp.call.injEq, reduceCtorEq, false_or] at hm
    obtain ⟨_, rfl⟩ := hm
    simp only [List.mem_cons, List.mem_nil_iff, or_false] at ha
    rcases ha with rfl | rfl <;> exact frag_var _
  · intro sp' e hm; simp at hm

theorem frag_sizeM : Frag2 demoB sizeM := by
  refine .member _ _ _ (fun _ _ h => by cases h) ?_ (fun _ _ h => by cases h) (fun _ _ h => by cases h)
    (fun _ _ h => by cases h) ?_ ?_ (by decide)
  · intro sp' es h e he
    cases h
    simp only [List.mem_cons, List.mem_nil_iff, or_false] at he
    rcases he with rfl | rfl <;> exact frag_lit _
  · intro sp' args hm a ha
    simp only [List.mem_cons, List.mem_nil_iff, or_false, MOp.call.injEq, reduceCtorEq, false_or] at hm
    obtain ⟨_, rfl⟩ := hm
    cases ha
  · intro sp' e hm; simp at hm

theorem frag_fstrE : Frag2 demoB fstrE := by
  refine .member _ _ _ (fun _ _ h => by cases h) (fun _ _ h => by cases h) (fun _ _ h => by cases h)
    (fun _ _ h => by cases h) ?_ (fun _ _ h => by cases h) (fun _ _ h => by cases h) rfl
  intro sp' segs h src e he
  cases h
  simp only [List.mem_cons, List.mem_nil_iff, or_false, reduceCtorEq, false_or, FSegAst.expr.injEq] at he
  obtain ⟨_, rfl⟩ := he
  exact frag_lit _

theorem frag_matchT : Frag2 demoB matchT := by
  refine .match_ _ _ _ (frag_lit 1) ?_ ?_ ?_
  · intro sp' p b hm
    simp only [List.mem_cons, List.mem_nil_iff, or_false, MCase.mk.injEq] at hm
    rcases hm with ⟨_, _, rfl⟩ | ⟨_, _, rfl⟩ <;> exact frag_lit _
  · intro sp' sp1 sp2 op e b hm
    simp at hm
  · intro sp' sp1 t name b hm
    simp only [List.mem_cons, List.mem_nil_iff, or_false, MCase.mk.injEq, Pat.type.injEq, reduceCtorEq, false_and,
      and_false] at hm
    obtain ⟨_, ⟨_, _, rfl⟩, _⟩ := hm
    rfl

-- macros, method calls, f-strings and type patterns under `exec_correct2_partial`
example : run demoB env0 allE = { res := .ok (.bool false), log := [] } := by
  rw [exec_correct2_partial demoB_ok std0 frag_allE (by decide)]; rfl
example : run demoB env0 sizeM = { res := .ok (.uint 2), log := [] } := by
  rw [exec_correct2_partial demoB_ok std0 frag_sizeM (by decide)]; rfl
example : run demoB env0 fstrE = { res := .ok (.str "n=int".toList), log := [] } := by
  rw [exec_correct2_partial demoB_ok std0 frag_fstrE (by decide)]; rfl
example : run demoB env0 matchT = { res := .ok (.int 10), log := [] } := by
  rw [exec_correct2_partial demoB_ok std0 frag_matchT (by decide)]; rfl

-- fold_call_sound_partial: `size([1, 2])` is evaluated by the compiler, to 2
theorem size_folded : checkForConst demoB (["size".toList] ++ identsOfList [listLit [lit 1, lit 2]])
    (callCode demoB "size".toList [listLit [lit 1, lit 2]]) = .const (.uint 2) := by
  rfl
example : runAt demoB 2 env0 (callCode demoB "size".toList [listLit [lit 1, lit 2]]) true [] =
    { res := .ok (.uint 2), log := [] } :=
  (fold_call_sound_partial demoB_ok std0 (b := 1)
    (by intro a ha; simp only [List.mem_singleton] at ha; subst ha
        exact frag_list (by intro e he; simp only [List.mem_cons, List.mem_nil_iff, or_false] at he
                            rcases he with rfl | rfl <;> exact frag_lit _))
    (by simp [macroShape]) (by decide) (by decide) size_folded []).1

end

/-! ### the model's own built-ins -/

section
variable {env : Env}

/-- `compile_correct2_partial` for the table of built-ins the model pipeline runs with (any table of library
    answers `t`, any clock value): no hypothesis on the built-ins is left. -/
theorem compile_correct2_std (t : ExtTable) (now : Int) (henv : StdEnv (tableBuiltins t now) env) {e : Ast}
    (h : Frag2 (tableBuiltins t now) e) {b : Nat} (hd : depth e ≤ b) (hb : b < maxDepth) :
    Runs (tableBuiltins t now) (runAt (tableBuiltins t now) b) (runFresh (tableBuiltins t now)) env
      (compileX (tableBuiltins t now) e).cp.toCode (evalSpec (tableBuiltins t now) e env) :=
  compile_correct2_partial (tableBuiltins_ok t now) henv h hd hb

theorem exec_correct2_std (now : Int) (henv : StdEnv (stdBuiltins now) env) {e : Ast}
    (h : Frag2 (stdBuiltins now) e) (hd : depth e < maxDepth) :
    run (stdBuiltins now) env e = outOf (evalSpec (stdBuiltins now) e env) [] :=
  exec_correct2_partial (stdBuiltins_ok now) henv h hd

theorem fold_sound2_std (now : Int) (henv : StdEnv (stdBuiltins now) env) {e : Ast}
    (h : Frag2 (stdBuiltins now) e) (hd : depth e < maxDepth) {v : Val} (hc : compile (stdBuiltins now) e = .const v) :
    v = evalSpec (stdBuiltins now) e env :=
  fold_sound2_partial (stdBuiltins_ok now) henv h hd hc

-- non-vacuity: the empty environment is standard for the model's built-ins; `1 + 2` is in the fragment
example : StdEnv (stdBuiltins 0) env0 :=
  { noProgs := np0, binds := rfl, noUser := rfl,
    params := fun n v h => by simp [Env.getParam, env0, lookup] at h,
    noShadow := fun _ _ => rfl }
example : Frag2 (stdBuiltins 0) (.bin sp0 .add (lit 1) (lit 2)) :=
  .bin _ _ _ _
    (.member _ _ _ (fun _ _ h => by cases h) (fun _ _ h => by cases h) (fun _ _ h => by cases h)
      (fun _ _ h => by cases h) (fun _ _ h => by cases h) (fun _ _ h => by cases h) (fun _ _ h => by cases h) rfl)
    (.member _ _ _ (fun _ _ h => by cases h) (fun _ _ h => by cases h) (fun _ _ h => by cases h)
      (fun _ _ h => by cases h) (fun _ _ h => by cases h) (fun _ _ h => by cases h) (fun _ _ h => by cases h) rfl)

end

end C05Compile2
end Rscel
