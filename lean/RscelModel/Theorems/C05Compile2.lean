import RscelModel.Lemmas.Seq2
import RscelModel.Theorems.C05Compile
/-
C05 / C09 — compiler correctness on the larger fragment `Frag2` (Model/Spec.lean).

(header completed at the end of the file's development; see the theorems section)
-/
set_option autoImplicit false
namespace Rscel
namespace C05Compile2
open Rscel.Seq Rscel.C05Compile

/-! ### equations of `evalSpec` -/

section
variable {B : Builtins}

theorem es_call (sp sp' sp'' : Span) (f : Str) (args : List Ast) (rest : List MOp) (env : Env) :
    evalSpec B (.member sp (.ident sp' f) (.call sp'' args :: rest)) env =
      evalSpecOps B (callOf B (fnKind B env f) f (evalSpecList B args env).reverse
        (fun this => evalSpecMacro B f this args env)) rest env := by
  rw [evalSpec]

theorem es_member (sp : Span) (p : Prim) (chain : List MOp) (env : Env)
    (h : ∀ sp' f sp'' args rest, p = .ident sp' f → chain = .call sp'' args :: rest → False) :
    evalSpec B (.member sp p chain) env = evalSpecOps B (evalSpecPrim B p env) chain env := by
  rw [evalSpec]; exact h

theorem eso_nil (v : Val) (env : Env) : evalSpecOps B v [] env = v := by rw [evalSpecOps]

theorem eso_method (v : Val) (sp i sp' : Span) (name : Str) (args : List Ast) (rest : List MOp) (env : Env) :
    evalSpecOps B v (.access sp i name :: .call sp' args :: rest) env =
      evalSpecOps B (callOf B (methodKind B env v name) name (evalSpecList B args env).reverse
        (fun this => evalSpecMacro B name this args env)) rest env := by
  rw [evalSpecOps]

theorem eso_field (v : Val) (sp i : Span) (name : Str) (rest : List MOp) (env : Env)
    (h : ∀ sp' args rest', rest = .call sp' args :: rest' → False) :
    evalSpecOps B v (.access sp i name :: rest) env = evalSpecOps B (fieldOf v name) rest env := by
  rw [evalSpecOps]; exact h

theorem eso_index (v : Val) (sp : Span) (e : Ast) (rest : List MOp) (env : Env) :
    evalSpecOps B v (.index sp e :: rest) env = evalSpecOps B (index v (evalSpec B e env)) rest env := by
  rw [evalSpecOps]

def initKey : MInit → Ast
  | .mk _ k _ => k
def initVal : MInit → Ast
  | .mk _ _ v => v

theorem evalSpecInits_eq (inits : List MInit) (env : Env) :
    evalSpecInits B inits env = inits.map (fun i => (evalSpec B (initKey i) env, evalSpec B (initVal i) env)) := by
  induction inits with
  | nil => simp [evalSpecInits]
  | cons i is ih => cases i; simp [evalSpecInits, ih, initKey, initVal]

theorem compileInits_eq (inits : List MInit) :
    compileInits B inits =
      interleaveKV (inits.map (fun i => ((compileX B (initKey i)).cp, (compileX B (initVal i)).cp))) := by
  induction inits with
  | nil => simp [compileInits, interleaveKV]
  | cons i is ih => cases i; simp [compileInits, ih, initKey, initVal, interleaveKV]

end

/-! ### the invariant -/

section
variable (B : Builtins)

/-- What the induction proves of a tree `e`: in every good environment, at every level of the depth budget
    that covers the nesting depth of `e`, the compiled node satisfies the invariant `Inv` of `C05Compile`
    (its code runs to `evalSpec B e env`, a folded constant is that value, chain pieces run), and the value
    is data. -/
def Good (e : Ast) : Prop :=
  ∀ b env, EnvOK env → depth e ≤ b → b < maxDepth →
    Inv B (runAt B b) (runFresh B) env (compileX B e) (evalSpec B e env) ∧ Data (evalSpec B e env)

/-- The same for a bare `CP` and a value given as a function of the environment. -/
def CGood (d : Nat) (cp : CP) (valf : Env → Val) : Prop :=
  ∀ b env, EnvOK env → d ≤ b → b < maxDepth →
    Runs B (runAt B b) (runFresh B) env cp.toCode (valf env) ∧ (∀ c, cp = .const c → c = valf env) ∧
      Data (valf env)

variable {B}

theorem Good.cgood {e : Ast} (h : Good B e) : CGood B (depth e) (compileX B e).cp (evalSpec B e) := by
  intro b env henv hd hb
  obtain ⟨i, d⟩ := h b env henv hd hb
  exact ⟨i.runs, fun c hc => (i.const c hc).1, d⟩

theorem CGood.mono {d d' : Nat} {cp : CP} {valf : Env → Val} (h : CGood B d cp valf) (hd : d ≤ d') :
    CGood B d' cp valf :=
  fun b env henv hd' hb => h b env henv (Nat.le_trans hd hd') hb

theorem cgood_const {v : Val} (hv : Data v) (d : Nat) : CGood B d (.const v) (fun _ => v) :=
  fun _ _ _ _ _ => ⟨runs_push hv.plain, fun c h => (by cases h; rfl), hv⟩

theorem good_of_cgood {e : Ast} (h : CGood B (depth e) (compileX B e).cp (evalSpec B e))
    (hch : (compileX B e).chain = none) : Good B e := by
  intro b env henv hd hb
  obtain ⟨r, c, d⟩ := h b env henv hd hb
  exact ⟨⟨r, fun v hv => ⟨c v hv, by rw [c v hv]; exact d.plain⟩, fun _ _ _ hh => by rw [hch] at hh; cases hh⟩, d⟩

/-! ### the constructors of the smaller fragment, again -/

theorem good_notRun (sp : Span) (ops : List Span) (m : Ast) (h : Good B m) : Good B (.notRun sp ops m) := by
  intro b env henv hd hb
  rw [depth] at hd
  obtain ⟨ih, dm⟩ := h b env henv hd hb
  have hcx : compileX B (.notRun sp ops m) =
      { cp := .code ((compileX B m).cp.toCode ++ List.replicate ops.length .not) } := by simp [compileX]
  have hes : evalSpec B (.notRun sp ops m) env = applyN vNot ops.length (evalSpec B m env) := by simp [evalSpec]
  rw [hcx, hes]
  exact ⟨inv_code (runs_unrun henv.noProgs step_not plain_vNot ih.runs _), data_applyN data_vNot dm _⟩

theorem good_negRun (sp : Span) (ops : List Span) (m : Ast) (h : Good B m) : Good B (.negRun sp ops m) := by
  intro b env henv hd hb
  rw [depth] at hd
  obtain ⟨ih, dm⟩ := h b env henv hd hb
  have hes : evalSpec B (.negRun sp ops m) env = applyN neg (negCount ops m) (evalSpec B m env) := by simp [evalSpec]
  rw [cx_neg, hes]
  exact ⟨inv_code (runs_unrun henv.noProgs step_neg plain_neg ih.runs _), data_applyN data_neg dm _⟩

theorem good_bin (sp : Span) (op : BinOp) (l r : Ast) (hl : Good B l) (hr : Good B r) :
    Good B (.bin sp op l r) := by
  intro b env henv hd hb
  rw [depth] at hd
  obtain ⟨ihl, dl⟩ := hl b env henv (by omega) hb
  obtain ⟨ihr, dr⟩ := hr b env henv (by omega) hb
  have hnp := henv.noProgs
  by_cases hlazy : op = .or ∨ op = .and
  · rw [cx_lazy B sp op l r hlazy, es_lazy sp op l r env hlazy]
    obtain ⟨v0, cvs, hrest, h0, hcv, hval⟩ := chainParts_inv ihl op
    have hcv' : ∀ p ∈ cvs ++ [((compileX B r).cp.toCode, evalSpec B r env)],
        Runs B (runAt B b) (runFresh B) env p.1 p.2 := by
      intro p hp
      rcases List.mem_append.mp hp with hp | hp
      · exact hcv p hp
      · simp only [List.mem_singleton] at hp; subst hp; exact ihr.runs
    have hrest' : (chainParts (compileX B l) op).2 ++ [(compileX B r).cp.toCode] =
        (cvs ++ [((compileX B r).cp.toCode, evalSpec B r env)]).map (·.1) := by simp [hrest]
    have hvalue : chainVal (op == .or) op.apply (evalSpec B l env) [evalSpec B r env] =
        chainVal (op == .or) op.apply v0 ((cvs ++ [((compileX B r).cp.toCode, evalSpec B r env)]).map (·.2)) := by
      rw [List.map_append, List.map_cons, List.map_nil, chainVal_snoc, ← hval]
    have hdata : Data (chainVal (op == .or) op.apply (evalSpec B l env) [evalSpec B r env]) := by
      apply data_chainVal _ _ _ dl
      intro a b
      rcases hlazy with rfl | rfl
      · exact data_vOr _ _
      · exact data_vAnd _ _
    refine ⟨?_, hdata⟩
    rw [hvalue, hrest']
    have hruns := runs_chain hnp (wf := op == .or) (step_binop op) (plain_apply op) h0 _ hcv'
    refine ⟨hruns, fun _ h => (by cases h), ?_⟩
    intro op' first rest hch
    simp only [Option.some.injEq, Prod.mk.injEq] at hch
    obtain ⟨rfl, rfl, rfl⟩ := hch
    exact ⟨hlazy, v0, _, rfl, h0, hcv', rfl⟩
  · have h1 : op ≠ .or := fun h => hlazy (Or.inl h)
    have h2 : op ≠ .and := fun h => hlazy (Or.inr h)
    have hcx : compileX B (.bin sp op l r) =
        (match (compileX B l).cp, (compileX B r).cp with
         | .const a, .const b => { cp := .const (op.apply a b) }
         | cl, cr => { cp := .code (cl.toCode ++ cr.toCode ++ [op.instr]) }) := by
      simp [compileX, h1, h2]
      rfl
    rw [hcx, es_bin sp op l r env h1 h2]
    refine ⟨?_, data_apply op dl dr⟩
    split
    · rename_i a b ha hb
      rw [← (ihl.const a ha).1, ← (ihr.const b hb).1]
      exact inv_const (plain_apply op a b)
    · exact inv_code (runs_binop hnp (step_binop op) (plain_apply op) ihl.runs ihr.runs)

theorem good_tern (sp : Span) (c t f : Ast) (hc : Good B c) (ht : Good B t) (hf : Good B f) :
    Good B (.tern sp c t f) := by
  intro b env henv hd hb
  rw [depth] at hd
  obtain ⟨ihc, _⟩ := hc b env henv (by omega) hb
  obtain ⟨iht, dt⟩ := ht b env henv (by omega) hb
  obtain ⟨ihf, df⟩ := hf b env henv (by omega) hb
  have hcx : compileX B (.tern sp c t f) =
      (match (compileX B c).cp with
       | .const (.err k) => { cp := .const (.err k) }
       | .const v => { cp := if truthy v then (compileX B t).cp else (compileX B f).cp }
       | .code code => { cp := .code (ternCode code (compileX B t).cp.toCode (compileX B f).cp.toCode) }) := by
    simp [compileX]
    rfl
  rw [hcx, es_tern]
  refine ⟨?_, data_ternVal dt df⟩
  split
  · rename_i k hc
    rw [← (ihc.const _ hc).1]
    exact inv_const (plain_err k)
  · rename_i v hne hc
    rw [← (ihc.const _ hc).1, ternVal_nonerr (fun k hk => hne k hk)]
    cases truthy v
    · exact inv_cp ihf
    · exact inv_cp iht
  · rename_i code hc
    have hr := ihc.runs
    rw [hc] at hr
    exact inv_code (runs_tern henv.noProgs hr iht.runs ihf.runs)

theorem depth_case_le {cases : List MCase} {c : MCase} (h : c ∈ cases) :
    depthPat (casePat c) ≤ depthCases cases ∧ depth (caseBody c) ≤ depthCases cases := by
  induction cases with
  | nil => cases h
  | cons c' cs ih =>
    cases c' with
    | mk sp p b =>
      rw [depthCases]
      rcases List.mem_cons.mp h with rfl | h
      · simp only [casePat, caseBody]; omega
      · have := ih h; omega

theorem evalSpecPat_type (sp : Span) (t : TypePat) (name : Str) (vs : Val) (env : Env) :
    evalSpecPat B (.type sp t name) vs env =
      valEq (callRaw B (fnKind B env "type".toList) [vs]) (resolveIdent env name) := by
  rw [evalSpecPat]

theorem data_matchVal : ∀ (l : List (Val × Val)), (∀ p ∈ l, Data p.2) → Data (matchVal l) := by
  intro l
  induction l with
  | nil => intro _; rfl
  | cons p ps ih =>
    obtain ⟨r, a⟩ := p
    intro h
    simp only [matchVal]
    split
    · exact h _ (List.mem_cons_self ..)
    · exact ih (fun q hq => h q (List.mem_cons_of_mem _ hq))

theorem good_match (hB : BuiltinsOK B) (sp : Span) (s : Ast) (cases : List MCase) (hs : Good B s)
    (harm : ∀ sp' p b, MCase.mk sp' p b ∈ cases → Good B b)
    (hcmp : ∀ sp' sp1 sp2 op e b, MCase.mk sp' (.cmp sp1 sp2 op e) b ∈ cases → Good B e) :
    Good B (.match_ sp s cases) := by
  intro b env henv hd hb
  rw [depth] at hd
  obtain ⟨ihs, ds⟩ := hs b env henv (by omega) hb
  have hnp := henv.noProgs
  have hcx : compileX B (.match_ sp s cases) =
      { cp := .code ((compileX B s).cp.toCode ++ matchTail (compileCases B cases)) } := by simp [compileX]
  have hes : evalSpec B (.match_ sp s cases) env = evalSpecCases B cases (evalSpec B s env) env := by rw [evalSpec]
  rw [hcx, hes, compileCases_eq, evalSpecCases_eq]
  have hv : Plain (evalSpec B s env) := ds.plain
  have harm' : ∀ c ∈ cases, Inv B (runAt B b) (runFresh B) env (compileX B (caseBody c)) (evalSpec B (caseBody c) env) ∧
      Data (evalSpec B (caseBody c) env) := by
    intro c hc
    have hdc := (depth_case_le hc).2
    cases c with
    | mk sp' p bd => exact harm sp' p bd hc b env henv (by simp only [caseBody] at hdc ⊢; omega) hb
  have := runs_match (B := B) (rec := runAt B b) (top := runFresh B) hnp ihs.runs hv
    (cases.map (fun c => ((compilePat B (casePat c), (compileX B (caseBody c)).cp.toCode),
      (evalSpecPat B (casePat c) (evalSpec B s env) env, evalSpec B (caseBody c) env))))
    (fun q hq => by
      obtain ⟨c, hc, rfl⟩ := List.mem_map.mp hq
      have hdc := (depth_case_le hc).1
      have ha := (harm' c hc).1.runs
      cases c with
      | mk sp' p bd =>
        simp only [casePat, caseBody] at hdc ha ⊢
        refine ⟨?_, ?_, ha⟩
        · cases p with
          | any _ => simp [evalSpecPat, BoolOrErr]
          | cmp _ _ op e => simp only [evalSpecPat]; exact boe_cmp _ _ _
          | type sp1 t name => rw [evalSpecPat_type]; exact boe_valEq _ _
        · cases p with
          | any _ => simp only [compilePat, evalSpecPat]; exact go_pat_any hnp _
          | cmp sp1 sp2 op e =>
            simp only [compilePat, evalSpecPat]
            rw [depthPat] at hdc
            exact go_pat_cmp hnp (step_cmp op) hv ((hcmp sp' sp1 sp2 op e bd hc) b env henv (by omega) hb).1.runs
          | type sp1 t name =>
            rw [evalSpecPat_type]
            simp only [compilePat]
            exact go_pat_type henv hB ds name)
  refine ⟨?_, ?_⟩
  · apply inv_code
    simpa [List.map_map, Function.comp_def] using this
  · apply data_matchVal
    intro p hp
    obtain ⟨c, hc, rfl⟩ := List.mem_map.mp hp
    exact (harm' c hc).2

end

end C05Compile2
end Rscel
