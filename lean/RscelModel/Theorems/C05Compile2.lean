import RscelModel.Lemmas.Seq2
import RscelModel.Theorems.C05Compile
/-
C05 / C09 — compiler correctness on the larger fragment `Frag2` (Model/Spec.lean).

(header completed at the end of the file's development; see the theorems section)
-/
set_option autoImplicit false
namespace Rscel
namespace C05Compile2
open Rscel.Seq Rscel.C05Compile

/-! ### equations of `evalSpec` -/

section
variable {B : Builtins}

theorem es_call (sp sp' sp'' : Span) (f : Str) (args : List Ast) (rest : List MOp) (env : Env) :
    evalSpec B (.member sp (.ident sp' f) (.call sp'' args :: rest)) env =
      evalSpecOps B (callOf B (fnKind B env f) f (evalSpecList B args env).reverse
        (fun this => evalSpecMacro B f this args env)) rest env := by
  rw [evalSpec]

theorem es_member (sp : Span) (p : Prim) (chain : List MOp) (env : Env)
    (h : ∀ sp' f sp'' args rest, p = .ident sp' f → chain = .call sp'' args :: rest → False) :
    evalSpec B (.member sp p chain) env = evalSpecOps B (evalSpecPrim B p env) chain env := by
  rw [evalSpec]; exact h

theorem eso_nil (v : Val) (env : Env) : evalSpecOps B v [] env = v := by rw [evalSpecOps]

theorem eso_method (v : Val) (sp i sp' : Span) (name : Str) (args : List Ast) (rest : List MOp) (env : Env) :
    evalSpecOps B v (.access sp i name :: .call sp' args :: rest) env =
      evalSpecOps B (callOf B (methodKind B env v name) name (evalSpecList B args env).reverse
        (fun this => evalSpecMacro B name this args env)) rest env := by
  rw [evalSpecOps]

theorem eso_field (v : Val) (sp i : Span) (name : Str) (rest : List MOp) (env : Env)
    (h : ∀ sp' args rest', rest = .call sp' args :: rest' → False) :
    evalSpecOps B v (.access sp i name :: rest) env = evalSpecOps B (fieldOf v name) rest env := by
  rw [evalSpecOps]; exact h

theorem eso_index (v : Val) (sp : Span) (e : Ast) (rest : List MOp) (env : Env) :
    evalSpecOps B v (.index sp e :: rest) env = evalSpecOps B (index v (evalSpec B e env)) rest env := by
  rw [evalSpecOps]

def initKey : MInit → Ast
  | .mk _ k _ => k
def initVal : MInit → Ast
  | .mk _ _ v => v

theorem evalSpecInits_eq (inits : List MInit) (env : Env) :
    evalSpecInits B inits env = inits.map (fun i => (evalSpec B (initKey i) env, evalSpec B (initVal i) env)) := by
  induction inits with
  | nil => simp [evalSpecInits]
  | cons i is ih => cases i; simp [evalSpecInits, ih, initKey, initVal]

theorem compileInits_eq (inits : List MInit) :
    compileInits B inits =
      interleaveKV (inits.map (fun i => ((compileX B (initKey i)).cp, (compileX B (initVal i)).cp))) := by
  induction inits with
  | nil => simp [compileInits, interleaveKV]
  | cons i is ih => cases i; simp [compileInits, ih, initKey, initVal, interleaveKV]

end

/-! ### the invariant -/

section
variable (B : Builtins)

/-- The environments of the theorems: `EnvOK` (no stored programs, bindings present, no functions bound by the
    caller, parameters bound to data), and no parameter has the name of a built-in function or macro
    (`check_for_const` takes such a name for closed). -/
structure StdEnv (env : Env) : Prop extends EnvOK env where
  noShadow : ∀ n, callableName B n = true → env.getParam n = none

/-- What the induction proves of a tree `e`: in every good environment, at every level of the depth budget
    that covers the nesting depth of `e`, the compiled node satisfies the invariant `Inv` of `C05Compile`
    (its code runs to `evalSpec B e env`, a folded constant is that value, chain pieces run), and the value
    is data. -/
def GoodRun (e : Ast) : Prop :=
  ∀ b env, StdEnv B env → depth e ≤ b → b < maxDepth →
    Inv B (runAt B b) (runFresh B) env (compileX B e) (evalSpec B e env) ∧ Data (evalSpec B e env)

/-- The same for a bare `CP` and a value given as a function of the environment. -/
def CGood (d : Nat) (cp : CP) (valf : Env → Val) : Prop :=
  ∀ b env, StdEnv B env → d ≤ b → b < maxDepth →
    Runs B (runAt B b) (runFresh B) env cp.toCode (valf env) ∧ (∀ c, cp = .const c → c = valf env) ∧
      Data (valf env)

variable {B}

theorem GoodRun.cgood {e : Ast} (h : GoodRun B e) : CGood B (depth e) (compileX B e).cp (evalSpec B e) := by
  intro b env henv hd hb
  obtain ⟨i, d⟩ := h b env henv hd hb
  exact ⟨i.runs, fun c hc => (i.const c hc).1, d⟩

theorem CGood.mono {d d' : Nat} {cp : CP} {valf : Env → Val} (h : CGood B d cp valf) (hd : d ≤ d') :
    CGood B d' cp valf :=
  fun b env henv hd' hb => h b env henv (Nat.le_trans hd hd') hb

theorem cgood_const {v : Val} (hv : Data v) (d : Nat) : CGood B d (.const v) (fun _ => v) :=
  fun _ _ _ _ _ => ⟨runs_push hv.plain, fun c h => (by cases h; rfl), hv⟩

theorem good_of_cgood {e : Ast} (h : CGood B (depth e) (compileX B e).cp (evalSpec B e))
    (hch : (compileX B e).chain = none) : GoodRun B e := by
  intro b env henv hd hb
  obtain ⟨r, c, d⟩ := h b env henv hd hb
  exact ⟨⟨r, fun v hv => ⟨c v hv, by rw [c v hv]; exact d.plain⟩, fun _ _ _ hh => by rw [hch] at hh; cases hh⟩, d⟩

/-! ### the constructors of the smaller fragment, again -/

theorem good_notRun (sp : Span) (ops : List Span) (m : Ast) (h : GoodRun B m) : GoodRun B (.notRun sp ops m) := by
  intro b env henv hd hb
  rw [depth] at hd
  obtain ⟨ih, dm⟩ := h b env henv hd hb
  have hcx : compileX B (.notRun sp ops m) =
      { cp := .code ((compileX B m).cp.toCode ++ List.replicate ops.length .not) } := by simp [compileX]
  have hes : evalSpec B (.notRun sp ops m) env = applyN vNot ops.length (evalSpec B m env) := by simp [evalSpec]
  rw [hcx, hes]
  exact ⟨inv_code (runs_unrun henv.noProgs step_not plain_vNot ih.runs _), data_applyN data_vNot dm _⟩

theorem good_negRun (sp : Span) (ops : List Span) (m : Ast) (h : GoodRun B m) : GoodRun B (.negRun sp ops m) := by
  intro b env henv hd hb
  rw [depth] at hd
  obtain ⟨ih, dm⟩ := h b env henv hd hb
  have hes : evalSpec B (.negRun sp ops m) env = applyN neg (negCount ops m) (evalSpec B m env) := by simp [evalSpec]
  rw [cx_neg, hes]
  exact ⟨inv_code (runs_unrun henv.noProgs step_neg plain_neg ih.runs _), data_applyN data_neg dm _⟩

theorem good_bin (sp : Span) (op : BinOp) (l r : Ast) (hl : GoodRun B l) (hr : GoodRun B r) :
    GoodRun B (.bin sp op l r) := by
  intro b env henv hd hb
  rw [depth] at hd
  obtain ⟨ihl, dl⟩ := hl b env henv (by omega) hb
  obtain ⟨ihr, dr⟩ := hr b env henv (by omega) hb
  have hnp := henv.noProgs
  by_cases hlazy : op = .or ∨ op = .and
  · rw [cx_lazy B sp op l r hlazy, es_lazy sp op l r env hlazy]
    obtain ⟨v0, cvs, hrest, h0, hcv, hval⟩ := chainParts_inv ihl op
    have hcv' : ∀ p ∈ cvs ++ [((compileX B r).cp.toCode, evalSpec B r env)],
        Runs B (runAt B b) (runFresh B) env p.1 p.2 := by
      intro p hp
      rcases List.mem_append.mp hp with hp | hp
      · exact hcv p hp
      · simp only [List.mem_singleton] at hp; subst hp; exact ihr.runs
    have hrest' : (chainParts (compileX B l) op).2 ++ [(compileX B r).cp.toCode] =
        (cvs ++ [((compileX B r).cp.toCode, evalSpec B r env)]).map (·.1) := by simp [hrest]
    have hvalue : chainVal (op == .or) op.apply (evalSpec B l env) [evalSpec B r env] =
        chainVal (op == .or) op.apply v0 ((cvs ++ [((compileX B r).cp.toCode, evalSpec B r env)]).map (·.2)) := by
      rw [List.map_append, List.map_cons, List.map_nil, chainVal_snoc, ← hval]
    have hdata : Data (chainVal (op == .or) op.apply (evalSpec B l env) [evalSpec B r env]) := by
      apply data_chainVal _ _ _ dl
      intro a b
      rcases hlazy with rfl | rfl
      · exact data_vOr _ _
      · exact data_vAnd _ _
    refine ⟨?_, hdata⟩
    rw [hvalue, hrest']
    have hruns := runs_chain hnp (wf := op == .or) (step_binop op) (plain_apply op) h0 _ hcv'
    refine ⟨hruns, fun _ h => (by cases h), ?_⟩
    intro op' first rest hch
    simp only [Option.some.injEq, Prod.mk.injEq] at hch
    obtain ⟨rfl, rfl, rfl⟩ := hch
    exact ⟨hlazy, v0, _, rfl, h0, hcv', rfl⟩
  · have h1 : op ≠ .or := fun h => hlazy (Or.inl h)
    have h2 : op ≠ .and := fun h => hlazy (Or.inr h)
    have hcx : compileX B (.bin sp op l r) =
        (match (compileX B l).cp, (compileX B r).cp with
         | .const a, .const b => { cp := .const (op.apply a b) }
         | cl, cr => { cp := .code (cl.toCode ++ cr.toCode ++ [op.instr]) }) := by
      simp [compileX, h1, h2]
      rfl
    rw [hcx, es_bin sp op l r env h1 h2]
    refine ⟨?_, data_apply op dl dr⟩
    split
    · rename_i a b ha hb
      rw [← (ihl.const a ha).1, ← (ihr.const b hb).1]
      exact inv_const (plain_apply op a b)
    · exact inv_code (runs_binop hnp (step_binop op) (plain_apply op) ihl.runs ihr.runs)

theorem good_tern (sp : Span) (c t f : Ast) (hc : GoodRun B c) (ht : GoodRun B t) (hf : GoodRun B f) :
    GoodRun B (.tern sp c t f) := by
  intro b env henv hd hb
  rw [depth] at hd
  obtain ⟨ihc, _⟩ := hc b env henv (by omega) hb
  obtain ⟨iht, dt⟩ := ht b env henv (by omega) hb
  obtain ⟨ihf, df⟩ := hf b env henv (by omega) hb
  have hcx : compileX B (.tern sp c t f) =
      (match (compileX B c).cp with
       | .const (.err k) => { cp := .const (.err k) }
       | .const v => { cp := if truthy v then (compileX B t).cp else (compileX B f).cp }
       | .code code => { cp := .code (ternCode code (compileX B t).cp.toCode (compileX B f).cp.toCode) }) := by
    simp [compileX]
    rfl
  rw [hcx, es_tern]
  refine ⟨?_, data_ternVal dt df⟩
  split
  · rename_i k hc
    rw [← (ihc.const _ hc).1]
    exact inv_const (plain_err k)
  · rename_i v hne hc
    rw [← (ihc.const _ hc).1, ternVal_nonerr (fun k hk => hne k hk)]
    cases truthy v
    · exact inv_cp ihf
    · exact inv_cp iht
  · rename_i code hc
    have hr := ihc.runs
    rw [hc] at hr
    exact inv_code (runs_tern henv.noProgs hr iht.runs ihf.runs)

theorem depth_case_le {cases : List MCase} {c : MCase} (h : c ∈ cases) :
    depthPat (casePat c) ≤ depthCases cases ∧ depth (caseBody c) ≤ depthCases cases := by
  induction cases with
  | nil => cases h
  | cons c' cs ih =>
    cases c' with
    | mk sp p b =>
      rw [depthCases]
      rcases List.mem_cons.mp h with rfl | h
      · simp only [casePat, caseBody]; omega
      · have := ih h; omega

theorem evalSpecPat_type (sp : Span) (t : TypePat) (name : Str) (vs : Val) (env : Env) :
    evalSpecPat B (.type sp t name) vs env =
      valEq (callRaw B (fnKind B env "type".toList) [vs]) (resolveIdent env name) := by
  rw [evalSpecPat]

theorem data_matchVal : ∀ (l : List (Val × Val)), (∀ p ∈ l, Data p.2) → Data (matchVal l) := by
  intro l
  induction l with
  | nil => intro _; rfl
  | cons p ps ih =>
    obtain ⟨r, a⟩ := p
    intro h
    simp only [matchVal]
    split
    · exact h _ (List.mem_cons_self ..)
    · exact ih (fun q hq => h q (List.mem_cons_of_mem _ hq))

theorem good_match (hB : BuiltinsOK B) (sp : Span) (s : Ast) (cases : List MCase) (hs : GoodRun B s)
    (harm : ∀ sp' p b, MCase.mk sp' p b ∈ cases → GoodRun B b)
    (hcmp : ∀ sp' sp1 sp2 op e b, MCase.mk sp' (.cmp sp1 sp2 op e) b ∈ cases → GoodRun B e) :
    GoodRun B (.match_ sp s cases) := by
  intro b env henv hd hb
  rw [depth] at hd
  obtain ⟨ihs, ds⟩ := hs b env henv (by omega) hb
  have hnp := henv.noProgs
  have hcx : compileX B (.match_ sp s cases) =
      { cp := .code ((compileX B s).cp.toCode ++ matchTail (compileCases B cases)) } := by simp [compileX]
  have hes : evalSpec B (.match_ sp s cases) env = evalSpecCases B cases (evalSpec B s env) env := by rw [evalSpec]
  rw [hcx, hes, compileCases_eq, evalSpecCases_eq]
  have hv : Plain (evalSpec B s env) := ds.plain
  have harm' : ∀ c ∈ cases, Inv B (runAt B b) (runFresh B) env (compileX B (caseBody c)) (evalSpec B (caseBody c) env) ∧
      Data (evalSpec B (caseBody c) env) := by
    intro c hc
    have hdc := (depth_case_le hc).2
    cases c with
    | mk sp' p bd => exact harm sp' p bd hc b env henv (by simp only [caseBody] at hdc ⊢; omega) hb
  have := runs_match (B := B) (rec := runAt B b) (top := runFresh B) hnp ihs.runs hv
    (cases.map (fun c => ((compilePat B (casePat c), (compileX B (caseBody c)).cp.toCode),
      (evalSpecPat B (casePat c) (evalSpec B s env) env, evalSpec B (caseBody c) env))))
    (fun q hq => by
      obtain ⟨c, hc, rfl⟩ := List.mem_map.mp hq
      have hdc := (depth_case_le hc).1
      have ha := (harm' c hc).1.runs
      cases c with
      | mk sp' p bd =>
        simp only [casePat, caseBody] at hdc ha ⊢
        refine ⟨?_, ?_, ha⟩
        · cases p with
          | any _ => simp [evalSpecPat, BoolOrErr]
          | cmp _ _ op e => simp only [evalSpecPat]; exact boe_cmp _ _ _
          | type sp1 t name => rw [evalSpecPat_type]; exact boe_valEq _ _
        · cases p with
          | any _ => simp only [compilePat, evalSpecPat]; exact go_pat_any hnp _
          | cmp sp1 sp2 op e =>
            simp only [compilePat, evalSpecPat]
            rw [depthPat] at hdc
            exact go_pat_cmp hnp (step_cmp op) hv ((hcmp sp' sp1 sp2 op e bd hc) b env henv (by omega) hb).1.runs
          | type sp1 t name =>
            rw [evalSpecPat_type]
            simp only [compilePat]
            exact go_pat_type henv.toEnvOK hB ds name)
  refine ⟨?_, ?_⟩
  · apply inv_code
    simpa [List.map_map, Function.comp_def] using this
  · apply data_matchVal
    intro p hp
    obtain ⟨c, hc, rfl⟩ := List.mem_map.mp hp
    exact (harm' c hc).2

/-! ### blocks one level down -/

/-- A nested block (call argument, macro body, f-string segment) run by the callback of level `b`. -/
theorem block_runs {e : Ast} (h : GoodRun B e) {b : Nat} {env : Env} (henv : StdEnv B env) (hd : depth e + 1 ≤ b)
    (hb : b < maxDepth) (log : Log) :
    runAt B b env (compileX B e).cp.toCode true log = outOf (evalSpec B e env) log := by
  cases b with
  | zero => omega
  | succ b' => exact runAt_of_runs henv.noProgs b' (h b' env henv (by omega) (by omega)).1.runs log

/-! ### primaries -/

theorem depth_list_le {es : List Ast} {e : Ast} (h : e ∈ es) : depth e ≤ depthList es := by
  induction es with
  | nil => cases h
  | cons x xs ih =>
    rw [depthList]
    rcases List.mem_cons.mp h with rfl | h
    · omega
    · have := ih h; omega

theorem depth_init_le {inits : List MInit} {i : MInit} (h : i ∈ inits) :
    depth (initKey i) ≤ depthInits inits ∧ depth (initVal i) ≤ depthInits inits := by
  induction inits with
  | nil => cases h
  | cons x xs ih =>
    cases x with
    | mk sp k v =>
      rw [depthInits]
      rcases List.mem_cons.mp h with rfl | h
      · simp only [initKey, initVal]; omega
      · have := ih h; omega

theorem mem_interleaveKV {α : Type} {l : List (α × α)} {x : α} (h : x ∈ interleaveKV l) :
    ∃ p ∈ l, x = p.1 ∨ x = p.2 := by
  induction l with
  | nil => simp [interleaveKV] at h
  | cons p ps ih =>
    obtain ⟨k, v⟩ := p
    simp only [interleaveKV, List.mem_cons] at h
    rcases h with rfl | rfl | h
    · exact ⟨_, List.mem_cons_self .., Or.inr rfl⟩
    · exact ⟨_, List.mem_cons_self .., Or.inl rfl⟩
    · obtain ⟨q, hq, hx⟩ := ih h
      exact ⟨q, List.mem_cons_of_mem _ hq, hx⟩

theorem good_list_prim (sp : Span) (es : List Ast) (ih : ∀ e ∈ es, GoodRun B e) :
    CGood B (depthPrim (.list sp es)) (compilePrim B (.list sp es)) (evalSpecPrim B (.list sp es)) := by
  intro b env henv hd hb
  rw [depthPrim] at hd
  have ihe : ∀ e ∈ es, Inv B (runAt B b) (runFresh B) env (compileX B e) (evalSpec B e env) ∧ Data (evalSpec B e env) :=
    fun e he => ih e he b env henv (Nat.le_trans (depth_list_le he) hd) hb
  have hcp : compilePrim B (.list sp es) =
      (match allConst (es.map (fun e => (compileX B e).cp)) with
        | some vs => .const (.list vs)
        | none => .code (((es.map (fun e => (compileX B e).cp)).map CP.toCode).flatten ++ [.mkList es.length])) := by
    simp [compilePrim, compileList_eq]
    rfl
  have hes : evalSpecPrim B (.list sp es) env = .list (es.map (fun e => evalSpec B e env)) := by
    simp [evalSpecPrim, evalSpecList_eq]
  have hdata : Data (Val.list (es.map (fun e => evalSpec B e env))) := by
    rw [data_list]; intro x hx
    obtain ⟨e, he, rfl⟩ := List.mem_map.mp hx
    exact (ihe e he).2
  rw [hcp, hes]
  refine ⟨?_, ?_, hdata⟩
  · split
    · rename_i vs hvs
      have := allConst_map (fun e => (compileX B e).cp) (fun e => evalSpec B e env) es vs hvs
        (fun e he v hv => (((ihe e he).1).const v hv).1)
      rw [this]
      exact runs_push hdata.plain
    · have := runs_mkList (B := B) (rec := runAt B b) (top := runFresh B) henv.noProgs
        (es.map (fun e => ((compileX B e).cp.toCode, evalSpec B e env)))
        (fun p hp => by
          obtain ⟨e, he, rfl⟩ := List.mem_map.mp hp
          exact (ihe e he).1.runs)
      simpa [List.map_map, Function.comp_def, CP.toCode] using this
  · intro c hc
    split at hc
    · rename_i vs hvs
      have := allConst_map (fun e => (compileX B e).cp) (fun e => evalSpec B e env) es vs hvs
        (fun e he v hv => (((ihe e he).1).const v hv).1)
      cases hc
      rw [this]
    · cases hc

theorem good_map_prim (sp : Span) (inits : List MInit) (ihk : ∀ i ∈ inits, GoodRun B (initKey i))
    (ihv : ∀ i ∈ inits, GoodRun B (initVal i)) :
    CGood B (depthPrim (.map sp inits)) (compilePrim B (.map sp inits)) (evalSpecPrim B (.map sp inits)) := by
  intro b env henv hd hb
  rw [depthPrim] at hd
  have ihk' : ∀ i ∈ inits, Inv B (runAt B b) (runFresh B) env (compileX B (initKey i)) (evalSpec B (initKey i) env) ∧
      Data (evalSpec B (initKey i) env) :=
    fun i hi => ihk i hi b env henv (Nat.le_trans (depth_init_le hi).1 hd) hb
  have ihv' : ∀ i ∈ inits, Inv B (runAt B b) (runFresh B) env (compileX B (initVal i)) (evalSpec B (initVal i) env) ∧
      Data (evalSpec B (initVal i) env) :=
    fun i hi => ihv i hi b env henv (Nat.le_trans (depth_init_le hi).2 hd) hb
  -- the children as a list of trees in code order
  let L : List Ast := interleaveKV (inits.map (fun i => (initKey i, initVal i)))
  have hL : compileInits B inits = L.map (fun e => (compileX B e).cp) := by
    rw [compileInits_eq, interleaveKV_map]; simp [List.map_map, Function.comp_def]
  have ihL : ∀ e ∈ L, Inv B (runAt B b) (runFresh B) env (compileX B e) (evalSpec B e env) := by
    intro e he
    obtain ⟨q, hq, hx⟩ := mem_interleaveKV he
    obtain ⟨i, hi, rfl⟩ := List.mem_map.mp hq
    rcases hx with rfl | rfl
    · exact (ihk' i hi).1
    · exact (ihv' i hi).1
  have hcp : compilePrim B (.map sp inits) =
      (match allConst (L.map (fun e => (compileX B e).cp)) with
        | some vs => .const (foldMap vs [])
        | none => .code (((L.map (fun e => (compileX B e).cp)).map CP.toCode).flatten ++ [.mkDict inits.length])) := by
    simp only [compilePrim, hL]
    rfl
  have hes : evalSpecPrim B (.map sp inits) env =
      mkMap (inits.map (fun i => (evalSpec B (initKey i) env, evalSpec B (initVal i) env))) := by
    simp [evalSpecPrim, evalSpecInits_eq]
  have hdata : Data (mkMap (inits.map (fun i => (evalSpec B (initKey i) env, evalSpec B (initVal i) env)))) := by
    apply data_mkMap
    intro q hq
    obtain ⟨i, hi, rfl⟩ := List.mem_map.mp hq
    exact (ihv' i hi).2
  have hLval : L.map (fun e => evalSpec B e env) =
      interleaveKV (inits.map (fun i => (evalSpec B (initKey i) env, evalSpec B (initVal i) env))) := by
    simp only [L]; rw [interleaveKV_map]; simp [List.map_map, Function.comp_def]
  have hconst : ∀ vs, allConst (L.map (fun e => (compileX B e).cp)) = some vs → foldMap vs [] =
      mkMap (inits.map (fun i => (evalSpec B (initKey i) env, evalSpec B (initVal i) env))) := by
    intro vs hvs
    have := allConst_map (fun e => (compileX B e).cp) (fun e => evalSpec B e env) L vs hvs
      (fun e he v hv => ((ihL e he).const v hv).1)
    rw [this, hLval, foldMap_nil_eq_mkMap]
  rw [hcp, hes]
  refine ⟨?_, ?_, hdata⟩
  · split
    · rename_i vs hvs
      rw [hconst vs hvs]
      exact runs_push hdata.plain
    · have := runs_mkDict (B := B) (rec := runAt B b) (top := runFresh B) henv.noProgs
        (inits.map (fun i => (((compileX B (initKey i)).cp.toCode, evalSpec B (initKey i) env),
          ((compileX B (initVal i)).cp.toCode, evalSpec B (initVal i) env))))
        (fun p hp => by
          obtain ⟨i, hi, rfl⟩ := List.mem_map.mp hp
          exact (ihk' i hi).1.runs)
        (fun p hp => by
          obtain ⟨i, hi, rfl⟩ := List.mem_map.mp hp
          exact (ihv' i hi).1.runs)
      have hcode : (L.map (fun e => (compileX B e).cp)).map CP.toCode =
          (interleaveKV (inits.map (fun i => (((compileX B (initKey i)).cp.toCode, evalSpec B (initKey i) env),
            ((compileX B (initVal i)).cp.toCode, evalSpec B (initVal i) env))))).map (·.1) := by
        simp only [L]
        rw [interleaveKV_map, interleaveKV_map, interleaveKV_map]
        simp [List.map_map, Function.comp_def]
      rw [hcode]
      simpa [List.map_map, Function.comp_def, CP.toCode] using this
  · intro c hc
    split at hc
    · rename_i vs hvs
      cases hc
      exact hconst vs hvs
    · cases hc

/-! ### environments that closed code cannot tell apart -/

end
section
variable (B : Builtins)

/-- `check_for_const`'s test: every identifier is bound at compile time (function, macro or type) and none is a
    clock function. -/
def Closed (ids : List Str) : Prop :=
  ids.all (fun n => compileBound B n && !(clockFunctions.any (·.toList = n))) = true

/-- Two environments agree on the names `ids` (as values and in call position) and on every method name of
    the fragment. -/
structure AgreeOn (ids : List Str) (e1 e2 : Env) : Prop where
  b1 : e1.hasBinds = true
  b2 : e2.hasBinds = true
  res : ∀ n ∈ ids, resolveIdent e1 n = resolveIdent e2 n
  kind : ∀ n ∈ ids, fnKind B e1 n = fnKind B e2 n
  meth : ∀ o name, methodOK B name = true → methodKind B e1 o name = methodKind B e2 o name

/-- `valf` does not distinguish environments that agree on `ids`. -/
def Irr (ids : List Str) (valf : Env → Val) : Prop := ∀ e1 e2, AgreeOn B ids e1 e2 → valf e1 = valf e2

variable {B}

theorem AgreeOn.mono {ids ids' : List Str} {e1 e2 : Env} (h : AgreeOn B ids e1 e2) (hs : ∀ n ∈ ids', n ∈ ids) :
    AgreeOn B ids' e1 e2 :=
  ⟨h.b1, h.b2, fun n hn => h.res n (hs n hn), fun n hn => h.kind n (hs n hn), h.meth⟩

theorem AgreeOn.left {a b : List Str} {e1 e2 : Env} (h : AgreeOn B (a ++ b) e1 e2) : AgreeOn B a e1 e2 :=
  h.mono (fun _ hn => List.mem_append_left _ hn)
theorem AgreeOn.right {a b : List Str} {e1 e2 : Env} (h : AgreeOn B (a ++ b) e1 e2) : AgreeOn B b e1 e2 :=
  h.mono (fun _ hn => List.mem_append_right _ hn)

theorem resolveIdent_bind (e : Env) (hb : e.hasBinds = true) (x : Str) (v : Val) (n : Str) :
    resolveIdent (e.bind x v) n =
      match typeByName n with
      | some t => t
      | none => if x = n then v else resolveIdent e n := by
  simp only [resolveIdent, Env.getType, Env.getParam, Env.bind, hb, if_true, lookup]
  cases typeByName n with
  | some t => rfl
  | none =>
    simp only
    by_cases hx : x = n <;> simp [hx]

theorem fnKind_bind (e : Env) (x : Str) (v : Val) (n : Str) : fnKind B (e.bind x v) n = fnKind B e n := rfl
theorem methodKind_bind (e : Env) (x : Str) (v o : Val) (n : Str) :
    methodKind B (e.bind x v) o n = methodKind B e o n := rfl

theorem AgreeOn.bind {ids : List Str} {e1 e2 : Env} (h : AgreeOn B ids e1 e2) (x : Str) (v : Val) :
    AgreeOn B ids (e1.bind x v) (e2.bind x v) := by
  refine ⟨h.b1, h.b2, ?_, ?_, ?_⟩
  · intro n hn
    rw [resolveIdent_bind e1 h.b1, resolveIdent_bind e2 h.b2]
    cases htn : typeByName n with
    | some t => rfl
    | none =>
      simp only
      by_cases hx : x = n
      · simp [hx]
      · simp only [hx, if_false]; exact h.res n hn
  · intro n hn; rw [fnKind_bind, fnKind_bind]; exact h.kind n hn
  · intro o name hm; rw [methodKind_bind, methodKind_bind]; exact h.meth o name hm

theorem compileEnv_std : StdEnv B compileEnv :=
  { noProgs := fun n => rfl, binds := rfl, noUser := rfl,
    params := fun n v h => by simp [Env.getParam, compileEnv, lookup] at h,
    noShadow := fun n _ => rfl }

theorem StdEnv.bind {env : Env} (h : StdEnv B env) {x : Str} (hx : callableName B x = false) {v : Val} (hv : Data v) :
    StdEnv B (env.bind x v) := by
  refine { toEnvOK := h.toEnvOK.bind x hv, noShadow := ?_ }
  intro n hn
  have hne : x ≠ n := by intro hh; subst hh; rw [hx] at hn; cases hn
  have := h.noShadow n hn
  simp only [Env.getParam, Env.bind, h.binds, if_true, lookup, hne, if_false] at this ⊢
  exact this

theorem typeName_not_macro {n : Str} {t : Val} (h : typeByName n = some t) :
    defaultMacros.any (·.toList = n) = false := by
  have key : ∀ m ∈ defaultMacros, typeByName m.toList = none := by decide
  cases hm : defaultMacros.any (·.toList = n)
  · rfl
  · rw [List.any_eq_true] at hm
    obtain ⟨m, hmem, hmn⟩ := hm
    simp only [decide_eq_true_eq] at hmn
    subst hmn
    rw [key m hmem] at h
    cases h

theorem compile_macro_default {n : Str} (h : compileMacros.any (·.toList = n) = true) :
    defaultMacros.any (·.toList = n) = true := by
  simp only [compileMacros, defaultMacros, List.any_cons, List.any_nil, Bool.or_false, Bool.or_eq_true,
    decide_eq_true_eq] at h ⊢
  rcases h with h | h | h | h | h | h <;> simp [h]

theorem default_macro_compile {n : Str} (h : defaultMacros.any (·.toList = n) = true)
    (h1 : n ≠ "has".toList) (h2 : n ≠ "coalesce".toList) : compileMacros.any (·.toList = n) = true := by
  simp only [compileMacros, defaultMacros, List.any_cons, List.any_nil, Bool.or_false, Bool.or_eq_true,
    decide_eq_true_eq] at h ⊢
  rcases h with h | h | h | h | h | h | h | h
  · exact absurd h.symm h1
  · simp [h]
  · simp [h]
  · simp [h]
  · simp [h]
  · simp [h]
  · simp [h]
  · exact absurd h.symm h2

/-- Outside compile mode the macros are the default ones; in compile mode `has` and `coalesce` are missing. -/
theorem isMacro_eq_compile {env : Env} (hb : env.hasBinds = true) {n : Str}
    (h : n ≠ "has".toList ∧ n ≠ "coalesce".toList ∨ defaultMacros.any (·.toList = n) = false ∨
      compileMacros.any (·.toList = n) = true) :
    env.isMacro n = compileMacros.any (·.toList = n) := by
  unfold Env.isMacro
  rw [hb, Bool.true_and]
  split
  · rfl
  · cases hd : defaultMacros.any (·.toList = n) with
    | false =>
      cases hc : compileMacros.any (·.toList = n) with
      | false => rfl
      | true => rw [compile_macro_default hc] at hd; cases hd
    | true =>
      rcases h with ⟨h1, h2⟩ | h | h
      · exact (default_macro_compile hd h1 h2).symm
      · rw [hd] at h; cases h
      · exact h.symm

theorem closed_mem {ids : List Str} (h : Closed B ids) {n : Str} (hn : n ∈ ids) :
    compileBound B n = true ∧ clockFunctions.any (·.toList = n) = false := by
  unfold Closed at h
  rw [List.all_eq_true] at h
  have := h n hn
  simpa using this

theorem closed_append {a b : List Str} : Closed B (a ++ b) ↔ Closed B a ∧ Closed B b := by
  simp [Closed, List.all_append]

/-- What closed code can observe is the same at compile time and in every standard environment. -/
theorem agree_of_closed {ids : List Str} (hc : Closed B ids) {env : Env} (henv : StdEnv B env) :
    AgreeOn B ids compileEnv env := by
  refine ⟨rfl, henv.binds, ?_, ?_, ?_⟩
  · intro n hn
    obtain ⟨hb, _⟩ := closed_mem hc hn
    simp only [resolveIdent, Env.getType, henv.binds, compileEnv, if_true]
    cases htn : typeByName n with
    | some t => rfl
    | none =>
      have hcall : callableName B n = true := by
        simp only [compileBound, htn, Option.isSome_none, Bool.or_false, Bool.or_eq_true] at hb
        simp only [callableName, Bool.or_eq_true]
        rcases hb with hb | hb
        · exact Or.inl hb
        · right
          have : compileMacros.any (·.toList = n) = true := by simpa [Env.isMacro, compileEnv] using hb
          exact compile_macro_default this
      have hp := henv.noShadow n hcall
      simp only [hp]
      simp [Env.getParam, lookup]
  · intro n hn
    obtain ⟨hb, _⟩ := closed_mem hc hn
    unfold fnKind
    cases hf : B.func n with
    | some f => rfl
    | none =>
      simp only
      have hcase : defaultMacros.any (·.toList = n) = false ∨ compileMacros.any (·.toList = n) = true := by
        simp only [compileBound, hf, Option.isSome_none, Bool.false_or, Bool.or_eq_true] at hb
        rcases hb with hb | hb
        · right; simpa [Env.isMacro, compileEnv] using hb
        · left
          cases htn : typeByName n with
          | none => simp [htn] at hb
          | some t => exact typeName_not_macro htn
      have hm : env.isMacro n = compileEnv.isMacro n := by
        rw [isMacro_eq_compile henv.binds (Or.inr hcase), isMacro_eq_compile (env := compileEnv) rfl (Or.inr hcase)]
      rw [hm]
      simp [Env.getType, henv.binds, compileEnv]
  · intro o name hm
    unfold methodKind
    cases hfe : fieldEntry o name with
    | some v => cases v <;> rfl
    | none =>
      simp only
      cases hf : B.func name with
      | some f => rfl
      | none =>
        simp only
        have h12 : name ≠ "has".toList ∧ name ≠ "coalesce".toList := by
          simp only [methodOK, hf, Option.isSome_none, Bool.false_or, Bool.not_eq_true', Bool.or_eq_false_iff,
            decide_eq_false_iff_not] at hm
          exact hm
        rw [isMacro_eq_compile henv.binds (Or.inl h12), isMacro_eq_compile (env := compileEnv) rfl (Or.inl h12)]

end

end C05Compile2
end Rscel
