import RscelModel.Theorems.C05Compile
import RscelModel.Theorems.C17
import RscelModel.Lemmas.SpecCoincide
/-
C17, the evaluation half — "binding every reported name is sufficient to avoid unbound-variable failures,
and evaluations under two bindings that agree on all reported names give the same result" — proved on
the fragment of the language for which the compiler-correctness theorem exists
(`InFragment` / `InFragmentM`, `Model/Spec.lean`; `Theorems/C05Compile.lean`).

* `params_sufficient_partial` — the coincidence lemma of the declarative semantics: two environments that
  agree (type-name table and parameter binding) on every name of `params e` give `evalSpec e` the same value
  (induction over `Frag`, `Lemmas/SpecCoincide.lean`);
* `exec_agree_on_params` / `exec_agree_on_params_match` — the same about *executions of the compiled
  program*: `execProg B env₁ (compileProgram B e) = execProg B env₂ (compileProgram B e)`, value or
  failure, and call log (through `exec_correct_partial` / `exec_correct_match_partial`);
* `unreported_irrelevant`, `exec_unreported_irrelevant` — binding, rebinding or (`unbind` read right to
  left) unbinding a name that is not reported changes nothing;
* `params_no_binding_error_partial`, `exec_params_no_binding_error` — if every reported name is a type name
  or bound, the result is the result under **every extension** of the environment: no further binding can
  change it, so nothing in it comes from an identifier of `e` that found no binding.  (A Binding failure
  that is *in* a bound value is of course passed on; `binding_failure_needs_unbound_name` gives the
  contrapositive reading: a result that does change under some extension has a reported name that is
  neither a type name nor bound; `no_identifier_creates_binding_failure`: every identifier of `e` then
  resolves to a type value or to the value it is bound to, for all trees.)

NOT covered here (`…_partial`; see `Theorems/C17Sem2.lean` for the larger fragment `Frag2`, which has them): the
trees outside the fragment — type patterns of `match`, map literals,
f-strings, member access / index / calls / macros (so: call arguments and receivers, macro ranges and bodies,
f-string segments, index expressions, map keys and values of the property text) — and stored programs
reached through identifiers (`NoProgs`; `paramsClosure` of DESIGN §7 is `params` there).  For those the
relevance oracle of the facet (perturb every unreported identifier; bind exactly the reported names)
remains the evidence.  The syntactic half (`params_exact/sound/complete`, `filter_exact`) is proved for all
trees in `Theorems/C17.lean`.
-/
namespace Rscel
namespace C17Sem
open Rscel.Seq Rscel.C05Compile

/-- The two environments agree on the names `ns`: same type-name entry, same parameter binding. -/
def AgreeOn (ns : List Str) (env₁ env₂ : Env) : Prop :=
  ∀ n ∈ ns, env₁.getType n = env₂.getType n ∧ env₁.getParam n = env₂.getParam n

theorem resolve_of_agree {env₁ env₂ : Env} {n : Str}
    (h : env₁.getType n = env₂.getType n ∧ env₁.getParam n = env₂.getParam n) :
    resolveIdent env₁ n = resolveIdent env₂ n := by
  unfold resolveIdent; rw [h.1, h.2]

/-- The fragment without `match` is part of the fragment with it. -/
theorem frag_mono {e : Ast} (h : InFragment e) : InFragmentM e := by
  induction h with
  | null sp sp' => exact .null ..
  | int sp sp' i => exact .int ..
  | uint sp sp' n => exact .uint ..
  | float sp sp' b => exact .float ..
  | str sp sp' s => exact .str ..
  | bytes sp sp' b => exact .bytes ..
  | bool sp sp' b => exact .bool ..
  | ident sp sp' n => exact .ident ..
  | parens sp sp' e _ ih => exact .parens _ _ _ ih
  | list sp sp' es _ ih => exact .list _ _ _ ih
  | notRun sp ops x _ ih => exact .notRun _ _ _ ih
  | negRun sp ops x _ ih => exact .negRun _ _ _ ih
  | bin sp op l r _ _ ihl ihr => exact .bin _ _ _ _ ihl ihr
  | tern sp c t f _ _ _ ihc iht ihf => exact .tern _ _ _ _ ihc iht ihf
  | match_ sp s cases hm => cases hm

/-! ## agreeing bindings give the same result -/

/-- **Coincidence lemma** (fragment).  Two environments that agree on every reported name give the tree
    the same value — a failure included, failures being values of `evalSpec`. -/
theorem params_sufficient_partial {B : Builtins} {e : Ast} (h : InFragmentM e) {env₁ env₂ : Env}
    (hag : ∀ n ∈ params e, env₁.getType n = env₂.getType n ∧ env₁.getParam n = env₂.getParam n) :
    evalSpec B e env₁ = evalSpec B e env₂ :=
  SpecCoincide.coincide h (fun n hn => resolve_of_agree (hag n (C17.mem_dedup.mpr hn)))

/-- **Executions of the compiled program** under two bindings that agree on all reported names give the
    same result (value or failure, and log), in environments without stored programs. -/
theorem exec_agree_on_params (B : Builtins) {env₁ env₂ : Env} (hnp₁ : NoProgs env₁) (hnp₂ : NoProgs env₂)
    {e : Ast} (h : InFragment e) (hag : AgreeOn (params e) env₁ env₂) :
    execProg B env₁ (compileProgram B e) = execProg B env₂ (compileProgram B e) := by
  show run B env₁ e = run B env₂ e
  rw [exec_correct_partial hnp₁ h, exec_correct_partial hnp₂ h, params_sufficient_partial (frag_mono h) hag]

/-- The same with `match` (`_` and comparison patterns); as in `exec_correct_match_partial`, no parameter is
    bound to an identifier value. -/
theorem exec_agree_on_params_match (B : Builtins) {env₁ env₂ : Env} (hnp₁ : NoProgs env₁) (hnp₂ : NoProgs env₂)
    (hpp₁ : PlainParams env₁) (hpp₂ : PlainParams env₂)
    {e : Ast} (h : InFragmentM e) (hag : AgreeOn (params e) env₁ env₂) :
    execProg B env₁ (compileProgram B e) = execProg B env₂ (compileProgram B e) := by
  show run B env₁ e = run B env₂ e
  rw [exec_correct_match_partial hnp₁ hpp₁ h, exec_correct_match_partial hnp₂ hpp₂ h,
    params_sufficient_partial h hag]

/-! ## a name that is not reported is irrelevant -/

theorem getType_bind (env : Env) (x : Str) (v : Val) (m : Str) : (env.bind x v).getType m = env.getType m := rfl

theorem getParam_bind_ne (env : Env) {x n : Str} (v : Val) (h : x ≠ n) :
    (env.bind x v).getParam n = env.getParam n := by
  simp [Env.getParam, Env.bind, lookup, h]

theorem noProgs_bind {env : Env} (h : NoProgs env) (x : Str) (v : Val) : NoProgs (env.bind x v) :=
  ⟨h.prog, h.untracked⟩

theorem plainParams_bind {env : Env} (h : PlainParams env) {x : Str} {v : Val} (hv : Plain v) :
    PlainParams (env.bind x v) := by
  intro n w hw
  by_cases hx : x = n
  · subst hx
    simp only [Env.getParam, Env.bind, lookup, if_true] at hw
    split at hw
    · cases hw; exact hv
    · cases hw
  · rw [getParam_bind_ne env v hx] at hw
    exact h n w hw

/-- Two environments that differ at most in what they bind to `x`. -/
def DifferOnlyAt (x : Str) (env₁ env₂ : Env) : Prop :=
  ∀ n, n ≠ x → env₁.getType n = env₂.getType n ∧ env₁.getParam n = env₂.getParam n

theorem differ_bind (env : Env) (x : Str) (v : Val) : DifferOnlyAt x (env.bind x v) env :=
  fun _ hn => ⟨rfl, getParam_bind_ne env v (fun h => hn h.symm)⟩

/-- Changing (adding, replacing, removing) the binding of a name that is **not reported** does not change
    the value. -/
theorem unreported_irrelevant {B : Builtins} {e : Ast} (h : InFragmentM e) {x : Str} (hx : x ∉ params e) {env₁ env₂ : Env}
    (hd : DifferOnlyAt x env₁ env₂) : evalSpec B e env₁ = evalSpec B e env₂ :=
  params_sufficient_partial h (fun n hn => hd n (fun hnx => hx (hnx ▸ hn)))

/-- … in particular `bind_param(x, v)` on top of any environment. -/
theorem unreported_bind_irrelevant {B : Builtins} {e : Ast} (h : InFragmentM e) {x : Str} (hx : x ∉ params e) (env : Env)
    (v : Val) : evalSpec B e (env.bind x v) = evalSpec B e env :=
  unreported_irrelevant h hx (differ_bind env x v)

/-- The compiled program, executed with and without a binding for an unreported name. -/
theorem exec_unreported_irrelevant (B : Builtins) {env : Env} (hnp : NoProgs env) {e : Ast} (h : InFragment e)
    {x : Str} (hx : x ∉ params e) (v : Val) :
    execProg B (env.bind x v) (compileProgram B e) = execProg B env (compileProgram B e) :=
  exec_agree_on_params B (noProgs_bind hnp x v) hnp h
    (fun n hn => differ_bind env x v n (fun hnx => hx (hnx ▸ hn)))

theorem exec_unreported_irrelevant_match (B : Builtins) {env : Env} (hnp : NoProgs env) (hpp : PlainParams env)
    {e : Ast} (h : InFragmentM e) {x : Str} (hx : x ∉ params e) {v : Val} (hv : Plain v) :
    execProg B (env.bind x v) (compileProgram B e) = execProg B env (compileProgram B e) :=
  exec_agree_on_params_match B (noProgs_bind hnp x v) hnp (plainParams_bind hpp hv) hpp h
    (fun n hn => differ_bind env x v n (fun hnx => hx (hnx ▸ hn)))

/-! ## binding every reported name is sufficient -/

/-- `env'` extends `env`: the same type names, and every parameter `env` binds is bound to the same value
    (`env'` may bind any further names to anything). -/
def Extends (env env' : Env) : Prop :=
  (∀ n, env'.getType n = env.getType n) ∧ ∀ n v, env.getParam n = some v → env'.getParam n = some v

/-- Every name of `ns` is a type name or a bound parameter. -/
def AllBound (env : Env) (ns : List Str) : Prop :=
  ∀ n ∈ ns, (env.getType n).isSome ∨ (env.getParam n).isSome

theorem resolve_of_extends {env env' : Env} (hext : Extends env env') {n : Str}
    (hb : (env.getType n).isSome ∨ (env.getParam n).isSome) : resolveIdent env' n = resolveIdent env n := by
  unfold resolveIdent
  rw [hext.1 n]
  cases ht : env.getType n with
  | some t => rfl
  | none =>
    cases hp : env.getParam n with
    | some v => simp only [hext.2 n v hp]
    | none => simp [ht, hp] at hb

/-- **Binding the reported names suffices** (fragment).  If every reported name is a type name or bound, the
    value of `e` is its value under every extension of the environment: no additional binding changes it —
    in particular not the Binding failure that an identifier of `e` without a binding would have produced
    and that a further binding would remove. -/
theorem params_no_binding_error_partial {B : Builtins} {e : Ast} (h : InFragmentM e) {env : Env}
    (hb : AllBound env (params e)) {env' : Env} (hext : Extends env env') :
    evalSpec B e env' = evalSpec B e env :=
  SpecCoincide.coincide h (fun n hn => resolve_of_extends hext (hb n (C17.mem_dedup.mpr hn)))

/-- The compiled program: executed under any extension of a binding set that covers the reported names, it
    gives the result it gives under that set. -/
theorem exec_params_no_binding_error (B : Builtins) {env env' : Env} (hnp : NoProgs env) (hnp' : NoProgs env')
    {e : Ast} (h : InFragment e) (hb : AllBound env (params e)) (hext : Extends env env') :
    execProg B env' (compileProgram B e) = execProg B env (compileProgram B e) := by
  show run B env' e = run B env e
  rw [exec_correct_partial hnp' h, exec_correct_partial hnp h,
    params_no_binding_error_partial (frag_mono h) hb hext]

/-- Contrapositive reading: if some extension of the environment changes the value — as binding the name
    behind an unbound-variable failure does — then a *reported* name is neither a type name nor bound. -/
theorem binding_failure_needs_unbound_name {B : Builtins} {e : Ast} (h : InFragmentM e) {env env' : Env}
    (hext : Extends env env') (hne : evalSpec B e env' ≠ evalSpec B e env) :
    ∃ n ∈ params e, env.getType n = none ∧ env.getParam n = none := by
  apply Classical.byContradiction
  intro hno
  apply hne
  apply params_no_binding_error_partial h _ hext
  intro n hn
  cases ht : env.getType n with
  | some t => exact Or.inl rfl
  | none =>
    cases hp : env.getParam n with
    | some v => exact Or.inr rfl
    | none => exact absurd ⟨n, hn, ht, hp⟩ hno

/-- No identifier of `e` *creates* a Binding failure when the reported names are covered: each of them
    resolves to its type value or to the value it is bound to (so the only Binding failures the evaluation
    can meet are those a caller put into a bound value). -/
theorem no_identifier_creates_binding_failure {e : Ast} {env : Env} (hb : AllBound env (params e)) {n : Str}
    (hn : C17.Mentions e n) :
    (∃ t, env.getType n = some (.type t) ∧ resolveIdent env n = .type t) ∨
    (∃ v, env.getParam n = some v ∧ resolveIdent env n = v) := by
  have hmem := (C17.params_exact e n).mpr hn
  unfold resolveIdent
  cases ht : env.getType n with
  | some t =>
    left
    unfold Env.getType typeByName at ht
    split at ht
    · rw [Option.map_eq_some_iff] at ht
      obtain ⟨p, _, rfl⟩ := ht
      exact ⟨_, rfl, rfl⟩
    · cases ht
  | none =>
    right
    cases hp : env.getParam n with
    | some v => exact ⟨v, rfl, rfl⟩
    | none => have := hb n hmem; simp [ht, hp] at this

/-! ## non-vacuity

`x + 1 * 2 > y || false` — `1 * 2` and `false` are folded by the compiler, `x + …`, `… > y` and the `||`
are emitted as code. -/

section
variable (B : Builtins)

def vx : Ast := var "x"
def vy : Ast := var "y"
/-- `x + 1 * 2 > y || false` -/
def ex : Ast :=
  .bin sp0 .or
    (.bin sp0 .gt (.bin sp0 .add vx (.bin sp0 .mul (lit 1) (lit 2))) vy)
    (.member sp0 (.bool sp0 false) [])

theorem ex_frag : InFragment ex :=
  .bin _ _ _ _ (.bin _ _ _ _ (.bin _ _ _ _ (var_frag _) (.bin _ _ _ _ (lit_frag _) (lit_frag _))) (var_frag _))
    (.bool _ _ _)

theorem ex_params : params ex = ["x".toList, "y".toList] := by decide

def envA : Env := { params := [("x".toList, .int 5), ("y".toList, .int 3), ("z".toList, .int 1)] }
def envB : Env := { params := [("y".toList, .int 3), ("z".toList, .str "other".toList), ("x".toList, .int 5)] }
def envX : Env := { params := [("x".toList, .int 5)] }

theorem npA : NoProgs envA := noProgs_of_nil rfl
theorem npB : NoProgs envB := noProgs_of_nil rfl
theorem npX : NoProgs envX := noProgs_of_nil rfl

theorem agreeAB : AgreeOn (params ex) envA envB := by
  rw [ex_params]
  intro n hn
  simp only [List.mem_cons, List.mem_nil_iff, or_false] at hn
  rcases hn with rfl | rfl <;> exact ⟨rfl, rfl⟩

-- params_sufficient_partial / exec_agree_on_params: envA and envB differ in order and in `z`
example : evalSpec B ex envA = evalSpec B ex envB := params_sufficient_partial (frag_mono ex_frag) agreeAB
example : execProg B envA (compileProgram B ex) = execProg B envB (compileProgram B ex) :=
  exec_agree_on_params B npA npB ex_frag agreeAB
-- … and the common value is `true` (5 + 2 > 3), so the statement is not about two failures only
example : evalSpec B ex envA = .bool true := by rfl
-- unreported_irrelevant / exec_unreported_irrelevant: `z` is not reported
example : evalSpec B ex (envA.bind "z".toList (.str "s".toList)) = evalSpec B ex envA :=
  unreported_bind_irrelevant (frag_mono ex_frag) (by rw [ex_params]; decide) _ _
example : execProg B (envA.bind "z".toList .null) (compileProgram B ex) = execProg B envA (compileProgram B ex) :=
  exec_unreported_irrelevant B npA ex_frag (by rw [ex_params]; decide) _
-- … while `x` is reported, and rebinding it does change the value: the hypothesis `x ∉ params e` matters
example : evalSpec B ex (envA.bind "x".toList (.int 0)) ≠ evalSpec B ex envA := by
  rw [show evalSpec B ex (envA.bind "x".toList (.int 0)) = .bool false from rfl,
    show evalSpec B ex envA = .bool true from rfl]
  intro h; cases h
-- params_no_binding_error_partial / exec_params_no_binding_error: envA binds x and y; envA.bind z extends it
theorem allBoundA : AllBound envA (params ex) := by
  rw [ex_params]
  intro n hn
  simp only [List.mem_cons, List.mem_nil_iff, or_false] at hn
  rcases hn with rfl | rfl <;> exact Or.inr rfl
theorem extendsA : Extends envA (envA.bind "w".toList (.int 9)) := by
  refine ⟨fun _ => rfl, fun n v h => ?_⟩
  by_cases hw : "w".toList = n
  · subst hw; cases h
  · rw [getParam_bind_ne _ _ hw]; exact h
example : evalSpec B ex (envA.bind "w".toList (.int 9)) = evalSpec B ex envA :=
  params_no_binding_error_partial (frag_mono ex_frag) allBoundA extendsA
example : execProg B (envA.bind "w".toList (.int 9)) (compileProgram B ex) = execProg B envA (compileProgram B ex) :=
  exec_params_no_binding_error B npA (noProgs_bind npA _ _) ex_frag allBoundA extendsA
example : ∃ v, envA.getParam "y".toList = some v ∧ resolveIdent envA "y".toList = v :=
  (no_identifier_creates_binding_failure (e := ex) allBoundA
    (.binL (.binR (.memberP .ident)))).resolve_left (fun ⟨_, h, _⟩ => by cases h)
-- binding_failure_needs_unbound_name: envX leaves `y` unbound, the value is a Binding failure, and the
-- extension that binds `y` changes it
example : evalSpec B ex envX = .err .binding := by rfl
example : ∃ n ∈ params ex, envX.getType n = none ∧ envX.getParam n = none :=
  binding_failure_needs_unbound_name (frag_mono ex_frag) (env' := envX.bind "y".toList (.int 3))
    ⟨fun _ => rfl, fun n v h => by
      by_cases hy : "y".toList = n
      · subst hy; cases h
      · rw [getParam_bind_ne _ _ hy]; exact h⟩
    (by
      rw [show evalSpec B ex (envX.bind "y".toList (.int 3)) = .bool true from rfl,
        show evalSpec B ex envX = .err .binding from rfl]
      intro h; cases h)
-- exec_agree_on_params_match / exec_unreported_irrelevant_match: `match x { case > y: 1, case _: z }`
def exM : Ast := .match_ sp0 vx [.mk sp0 (.cmp sp0 sp0 .gt vy) (lit 1), .mk sp0 (.any sp0) (var "z")]
theorem exM_frag : InFragmentM exM := by
  refine .match_ _ _ _ rfl (.ident ..) ?_ ?_ ?_
  · intro sp' p b hm
    simp only [List.mem_cons, List.mem_nil_iff, or_false] at hm
    rcases hm with h | h <;> cases h
    · exact .int ..
    · exact .ident ..
  · intro sp' sp1 sp2 op e b hm
    simp only [List.mem_cons, List.mem_nil_iff, or_false] at hm
    rcases hm with h | h <;> cases h
    exact .ident ..
  · intro sp' sp1 t name b hm
    simp only [List.mem_cons, List.mem_nil_iff, or_false] at hm
    rcases hm with h | h <;> cases h
theorem ppA : PlainParams envA := by
  intro n v h
  simp only [Env.getParam, envA, lookup, if_true] at h
  repeat (split at h; · cases h; intro _ hh; cases hh)
  cases h
example : execProg B (envA.bind "q".toList (.int 7)) (compileProgram B exM) = execProg B envA (compileProgram B exM) :=
  exec_unreported_irrelevant_match B npA ppA exM_frag (by decide) (fun _ h => by cases h)

end

end C17Sem
end Rscel
