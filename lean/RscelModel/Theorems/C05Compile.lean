import RscelModel.Lemmas.Seq
/-
C05 (and the evaluation half of C09) — compiler correctness on a fragment.

`compile_correct_partial`: for every tree `e` of the fragment `InFragment` (literals, identifiers,
parentheses, list literals, `!`/`-` runs, all fourteen binary operators including `||`/`&&` chains, `?:`),
the bytecode the model compiler emits for `e` — folded or not — runs on the model VM to the value the
declarative semantics `evalSpec e env` (Model/Spec.lean) assigns, in every environment without stored
programs, inside any surrounding code, without touching the rest of the stack or the log, in at most
`code.length` steps.  Because `evalSpec` is lazy by definition (`a || b` does not mention `b` when `a` is
truthy, `c ? x : y` mentions exactly one branch, …) this is the statement that the emitted jump
sequences implement the lazy semantics.  The folded cases are part of the same induction
(`fold_sound_partial`: a constant the compiler computed is `evalSpec e env` in every such environment).
`compile_correct_match_partial` is the same statement for `InFragmentM`, which adds `match` with `_` and
comparison patterns, under the extra assumption that no parameter is bound to an identifier value.
`exec_correct_partial` / `exec_correct_match_partial` lift both to `execProg`; the readable corollaries
(`or_skips_rhs`, `and_skips_rhs_on_falsy_or_failing`, `tern_exactly_one`, `tern_fails_on_failing_cond`,
`unevaluated_failure_invisible`, `match_first_case_only`, `match_none_is_null`, …) are stated about
executions of compiled programs.

NOT covered in this file (`…_partial`): type patterns of `match`, map literals, f-strings, postfix chains
(member access, index, calls, macros), stored programs reached through identifiers, call logs.
`Theorems/C05Compile2.lean` extends the theorem to map literals, index, field access, calls of built-in
functions and constructors, f-strings, the eight macros and type patterns (fragment `Frag2`, by level of the
depth budget); what remains outside is listed there and carried by the correspondence run (facet C05).
-/
set_option autoImplicit false
namespace Rscel
namespace C05Compile
open Rscel.Seq

/-! ### value-level facts relating `evalSpec`'s clauses to what the emitted sequence computes -/

theorem vTest_idem (v : Val) : vTest (vTest v) = vTest v := by
  cases v <;> rfl

theorem jumps_vTest_idem (wf : Bool) (v : Val) : jumps wf (vTest (vTest v)) = jumps wf (vTest v) := by
  rw [vTest_idem]

theorem chainVal_snoc (wf : Bool) (f : Val → Val → Val) (vs : List Val) (v : Val) :
    ∀ x, chainVal wf f x (vs ++ [v]) = chainVal wf f (chainVal wf f x vs) [v] := by
  induction vs with
  | nil => intro x; rfl
  | cons u us ih =>
    intro x
    simp only [List.cons_append, chainVal]
    by_cases hj : jumps wf (vTest x) = true
    · simp [hj, vTest_idem]
    · simp only [hj]
      exact ih _

theorem vOr_falsy_left (a b : Val) (hne : ∀ k, a ≠ .err k) (hf : truthy a = false) :
    vOr a b = vOr (.bool false) b := by
  unfold vOr
  split
  · exact absurd rfl (hne _)
  · simp_all [truthy]
  · rename_i h1 h2
    split
    · simp_all
    · simp_all [truthy]
    · simp_all [truthy]

theorem vAnd_truthy_left (a b : Val) (hne : ∀ k, a ≠ .err k) (ht : truthy a = true) :
    vAnd a b = vAnd (.bool true) b := by
  unfold vAnd errProp
  split
  · exact absurd rfl (hne _)
  · split <;> simp_all [truthy]

theorem vOr_err_left (k : ErrKind) (v : Val) :
    vOr (.err k) v = if truthy v then .bool true else .err k := by
  cases v <;> rfl

/-- The clause of `evalSpec` for `||` is what one link of the chain computes. -/
theorem or_link (va vb : Val) :
    (if truthy va then Val.bool true else vOr va vb) = chainVal true vOr va [vb] := by
  simp only [chainVal]
  rcases vTest_cases va with ⟨k, rfl, ht⟩ | ⟨hne, ht⟩
  · simp [ht, jumps, truthy]
  · rw [ht]
    cases h : truthy va
    · simp [jumps, vOr_falsy_left va vb hne h]
    · simp [jumps]

theorem and_clause_nonerr (va vb : Val) :
    (∀ k, va ≠ .err k) →
    (match va with
     | .err k => Val.err k
     | va => if truthy va then vAnd va vb else .bool false) = if truthy va then vAnd va vb else .bool false := by
  intro hne
  cases va <;> first | rfl | exact absurd rfl (hne _)

/-- The clause of `evalSpec` for `&&` is what one link of the chain computes. -/
theorem and_link (va vb : Val) :
    (match va with
     | .err k => Val.err k
     | va => if truthy va then vAnd va vb else .bool false) = chainVal false vAnd va [vb] := by
  simp only [chainVal]
  rcases vTest_cases va with ⟨k, rfl, ht⟩ | ⟨hne, ht⟩
  · simp [ht, jumps]
  · rw [ht, and_clause_nonerr va vb hne]
    cases h : truthy va
    · simp [jumps]
    · simp [jumps, vAnd_truthy_left va vb hne h]

/-! ### equations of `evalSpec` and `compileX` on the fragment -/

theorem es_or {B : Builtins} (sp : Span) (a b : Ast) (env : Env) :
    evalSpec B (.bin sp .or a b) env = chainVal true vOr (evalSpec B a env) [evalSpec B b env] := by
  rw [evalSpec]; exact or_link _ _

theorem es_and {B : Builtins} (sp : Span) (a b : Ast) (env : Env) :
    evalSpec B (.bin sp .and a b) env = chainVal false vAnd (evalSpec B a env) [evalSpec B b env] := by
  rw [evalSpec]; exact and_link _ _

theorem es_bin {B : Builtins} (sp : Span) (op : BinOp) (a b : Ast) (env : Env) (h1 : op ≠ .or) (h2 : op ≠ .and) :
    evalSpec B (.bin sp op a b) env = op.apply (evalSpec B a env) (evalSpec B b env) := by
  rw [evalSpec] <;> assumption

theorem es_lazy {B : Builtins} (sp : Span) (op : BinOp) (a b : Ast) (env : Env) (h : op = .or ∨ op = .and) :
    evalSpec B (.bin sp op a b) env = chainVal (op == .or) op.apply (evalSpec B a env) [evalSpec B b env] := by
  rcases h with rfl | rfl
  · exact es_or ..
  · exact es_and ..

theorem es_tern {B : Builtins} (sp : Span) (c t f : Ast) (env : Env) :
    evalSpec B (.tern sp c t f) env = ternVal (evalSpec B c env) (evalSpec B t env) (evalSpec B f env) := by
  rw [evalSpec]
  cases evalSpec B c env <;> rfl

theorem evalSpecList_eq {B : Builtins} (es : List Ast) (env : Env) : evalSpecList B es env = es.map (fun e => evalSpec B e env) := by
  induction es with
  | nil => simp [evalSpecList]
  | cons e es ih => simp [evalSpecList, ih]

theorem compileList_eq (B : Builtins) (es : List Ast) : compileList B es = es.map (fun e => (compileX B e).cp) := by
  induction es with
  | nil => simp [compileList]
  | cons e es ih => simp [compileList, ih]

theorem cx_neg (B : Builtins) (sp : Span) (ops : List Span) (m : Ast) :
    compileX B (.negRun sp ops m) =
      { cp := .code ((compileX B m).cp.toCode ++ List.replicate (negCount ops m) .neg) } := by
  cases m
  case member sp' p ch =>
    cases p <;> simp [compileX, negCount]
  all_goals simp [compileX, negCount]

/-- First operand and further operands of the chain that `l op r` extends. -/
def chainParts (L : CPX) (op : BinOp) : List Instr × List (List Instr) :=
  match L.chain with
  | some (op', f, rs) => if op' = op then (f, rs) else (L.cp.toCode, [])
  | none => (L.cp.toCode, [])

theorem cx_lazy (B : Builtins) (sp : Span) (op : BinOp) (l r : Ast) (h : op = .or ∨ op = .and) :
    compileX B (.bin sp op l r) =
      { cp := .code ((chainParts (compileX B l) op).1 ++
          chainTail (op == .or) op.instr ((chainParts (compileX B l) op).2 ++ [(compileX B r).cp.toCode])),
        chain := some (op, (chainParts (compileX B l) op).1,
          (chainParts (compileX B l) op).2 ++ [(compileX B r).cp.toCode]) } := by
  rcases h with rfl | rfl <;> simp [compileX, chainParts] <;> exact ⟨rfl, rfl, rfl⟩

theorem step_binop {B : Builtins} {rec top : Rec} {env : Env} (op : BinOp) (len pc : Nat) (s : St) :
    step B rec top env len op.instr pc s = liftNext pc (binop rec op.apply env s) := by
  cases op <;> rfl

theorem step_neg {B : Builtins} {rec top : Rec} {env : Env} (len pc : Nat) (s : St) :
    step B rec top env len .neg pc s = liftNext pc (unop rec neg env s) := rfl

theorem allConst_map {α : Type} (g : α → CP) (val : α → Val) (es : List α) :
    ∀ vs, allConst (es.map g) = some vs → (∀ e ∈ es, ∀ v, g e = .const v → v = val e) → vs = es.map val := by
  induction es with
  | nil => intro vs h _; simpa [allConst] using h.symm
  | cons e es ih =>
    intro vs h hc
    simp only [List.map_cons] at h
    cases hg : g e with
    | code c => simp [hg, allConst] at h
    | const v =>
      simp only [hg, allConst] at h
      cases hr : allConst (es.map g) with
      | none => simp [hr] at h
      | some vs' =>
        simp only [hr, Option.map_some, Option.some.injEq] at h
        subst h
        have h1 := hc e (List.mem_cons_self ..) v hg
        have h2 := ih vs' hr (fun e' he' => hc e' (List.mem_cons_of_mem _ he'))
        simp [h1, h2]


/-! ### the induction -/

section
variable (B : Builtins) (rec top : Rec) (env : Env)

/-- What the induction carries for a compiled node `X` whose tree has the value `val`:
    its code runs to `val`; a folded constant *is* `val` (and is not an identifier); and if the node is an
    `||`/`&&` chain that an enclosing node may extend, its pieces run and `val` is the value of the chain. -/
structure Inv (X : CPX) (val : Val) : Prop where
  runs : Runs B rec top env X.cp.toCode val
  const : ∀ v, X.cp = .const v → v = val ∧ Plain v
  chain : ∀ op first rest, X.chain = some (op, first, rest) →
    (op = .or ∨ op = .and) ∧ ∃ (v0 : Val) (cvs : List (List Instr × Val)), rest = cvs.map (·.1) ∧
      Runs B rec top env first v0 ∧ (∀ p ∈ cvs, Runs B rec top env p.1 p.2) ∧
      val = chainVal (op == .or) op.apply v0 (cvs.map (·.2))

variable {B rec top env}

theorem inv_const {v : Val} (hv : Plain v) : Inv B rec top env { cp := .const v } v :=
  ⟨runs_push hv, fun v' h => (by cases h; exact ⟨rfl, hv⟩), fun _ _ _ h => (by cases h)⟩

theorem inv_code {c : List Instr} {val : Val} (h : Runs B rec top env c val) :
    Inv B rec top env { cp := .code c } val :=
  ⟨h, fun _ h => (by cases h), fun _ _ _ h => (by cases h)⟩

theorem inv_cp {X : CPX} {val : Val} (h : Inv B rec top env X val) : Inv B rec top env { cp := X.cp } val :=
  ⟨h.runs, h.const, fun _ _ _ h => (by cases h)⟩

theorem cx_member_nil (sp : Span) (p : Prim) : compileX B (.member sp p []) = { cp := compilePrim B p } := by
  simp [compileX, compileOps]

theorem es_member_nil (sp : Span) (p : Prim) : evalSpec B (.member sp p []) env = evalSpecPrim B p env := by
  rw [evalSpec, evalSpecOps]
  intros; simp_all

theorem plain_lit_list (l : List Val) : Plain (.list l) := fun _ h => by cases h

/-- The pieces of the chain a lazy node extends run, and the left operand's value is the chain's value. -/
theorem chainParts_inv {L : CPX} {vl : Val} (hL : Inv B rec top env L vl) (op : BinOp) :
    ∃ (v0 : Val) (cvs : List (List Instr × Val)), (chainParts L op).2 = cvs.map (·.1) ∧
      Runs B rec top env (chainParts L op).1 v0 ∧ (∀ p ∈ cvs, Runs B rec top env p.1 p.2) ∧
      vl = chainVal (op == .or) op.apply v0 (cvs.map (·.2)) := by
  unfold chainParts
  split
  · rename_i op' f rs hch
    by_cases h : op' = op
    · subst h
      obtain ⟨_, v0, cvs, hrest, h0, hcv, hval⟩ := hL.chain _ _ _ hch
      simp only [if_true]
      exact ⟨v0, cvs, hrest, h0, hcv, hval⟩
    · simp only [h, if_false]
      exact ⟨vl, [], rfl, hL.runs, fun _ hp => (by cases hp), rfl⟩
  · exact ⟨vl, [], rfl, hL.runs, fun _ hp => (by cases hp), rfl⟩

theorem step_cmp {B : Builtins} {rec top : Rec} {env : Env} (op : CmpOp) (len pc : Nat) (s : St) :
    step B rec top env len op.instr pc s = liftNext pc (binop rec op.apply env s) := by
  cases op <;> rfl

def casePat : MCase → Pat
  | .mk _ p _ => p
def caseBody : MCase → Ast
  | .mk _ _ b => b

theorem compileCases_eq (B : Builtins) (cases : List MCase) :
    compileCases B cases = cases.map (fun c => (compilePat B (casePat c), (compileX B (caseBody c)).cp.toCode)) := by
  induction cases with
  | nil => simp [compileCases]
  | cons c cs ih => cases c; simp [compileCases, ih, casePat, caseBody]

theorem evalSpecCases_eq {B : Builtins} (cases : List MCase) (vs : Val) (env : Env) :
    evalSpecCases B cases vs env =
      matchVal (cases.map (fun c => (evalSpecPat B (casePat c) vs env, evalSpec B (caseBody c) env))) := by
  induction cases with
  | nil => simp [evalSpecCases, matchVal]
  | cons c cs ih =>
    cases c with
    | mk sp p b =>
      rw [evalSpecCases, ih]
      simp only [List.map_cons, matchVal, casePat, caseBody]
      cases h : evalSpecPat B p vs env <;> simp [matched]
      rename_i x; cases x <;> simp

theorem plain_of_runs {c : List Instr} {v : Val} (hpp : PlainParams env) (h : Runs B rec top env c v) :
    Plain v := by
  obtain ⟨w, _, rfl, _, _⟩ := h
  exact plain_resolve hpp w

theorem inv_all (hnp : NoProgs env) {m : Bool} (hpp : m = true → PlainParams env) {e : Ast} (h : Frag m e) :
    Inv B rec top env (compileX B e) (evalSpec B e env) := by
  induction h with
  | null sp sp' =>
    rw [cx_member_nil, es_member_nil]
    exact inv_const (v := .null) (fun _ h => (by cases h))
  | int sp sp' i =>
    rw [cx_member_nil, es_member_nil]
    exact inv_const (v := .int i) (fun _ h => (by cases h))
  | uint sp sp' n =>
    rw [cx_member_nil, es_member_nil]
    exact inv_const (v := .uint n) (fun _ h => (by cases h))
  | float sp sp' b =>
    rw [cx_member_nil, es_member_nil]
    exact inv_const (v := .float b) (fun _ h => (by cases h))
  | str sp sp' s =>
    rw [cx_member_nil, es_member_nil]
    exact inv_const (v := .str s) (fun _ h => (by cases h))
  | bytes sp sp' b =>
    rw [cx_member_nil, es_member_nil]
    exact inv_const (v := .bytes b) (fun _ h => (by cases h))
  | bool sp sp' b =>
    rw [cx_member_nil, es_member_nil]
    exact inv_const (v := .bool b) (fun _ h => (by cases h))
  | ident sp sp' n =>
    rw [cx_member_nil, es_member_nil]
    exact inv_code (runs_ident n)
  | parens sp sp' e _ ih =>
    rw [cx_member_nil, es_member_nil]
    exact inv_cp ih
  | list sp sp' es _ ih =>
    have hcx : compileX B (.member sp (.list sp' es) []) =
        { cp := match allConst (es.map (fun e => (compileX B e).cp)) with
            | some vs => .const (.list vs)
            | none => .code (((es.map (fun e => (compileX B e).cp)).map CP.toCode).flatten ++ [.mkList es.length]) } := by
      simp [compileX, compilePrim, compileOps, compileList_eq]
      rfl
    have hes : evalSpec B (.member sp (.list sp' es) []) env = .list (es.map (fun e => evalSpec B e env)) := by
      simp [es_member_nil, evalSpecPrim, evalSpecList_eq]
    rw [hcx, hes]
    split
    · rename_i vs hvs
      have := allConst_map (fun e => (compileX B e).cp) (fun e => evalSpec B e env) es vs hvs
        (fun e he v hv => ((ih e he).const v hv).1)
      rw [this]
      exact inv_const (plain_lit_list _)
    · apply inv_code
      have := runs_mkList (B := B) (rec := rec) (top := top) hnp
        (es.map (fun e => ((compileX B e).cp.toCode, evalSpec B e env)))
        (fun p hp => by
          obtain ⟨e, he, rfl⟩ := List.mem_map.mp hp
          exact (ih e he).runs)
      simpa [List.map_map, Function.comp_def] using this
  | notRun sp ops m _ ih =>
    have hcx : compileX B (.notRun sp ops m) =
        { cp := .code ((compileX B m).cp.toCode ++ List.replicate ops.length .not) } := by simp [compileX]
    have hes : evalSpec B (.notRun sp ops m) env = applyN vNot ops.length (evalSpec B m env) := by simp [evalSpec]
    rw [hcx, hes]
    exact inv_code (runs_unrun hnp step_not plain_vNot ih.runs _)
  | negRun sp ops m _ ih =>
    have hes : evalSpec B (.negRun sp ops m) env = applyN neg (negCount ops m) (evalSpec B m env) := by simp [evalSpec]
    rw [cx_neg, hes]
    exact inv_code (runs_unrun hnp step_neg plain_neg ih.runs _)
  | bin sp op l r _ _ ihl ihr =>
    by_cases hlazy : op = .or ∨ op = .and
    · rw [cx_lazy B sp op l r hlazy, es_lazy sp op l r env hlazy]
      obtain ⟨v0, cvs, hrest, h0, hcv, hval⟩ := chainParts_inv ihl op
      have hcv' : ∀ p ∈ cvs ++ [((compileX B r).cp.toCode, evalSpec B r env)], Runs B rec top env p.1 p.2 := by
        intro p hp
        rcases List.mem_append.mp hp with hp | hp
        · exact hcv p hp
        · simp only [List.mem_singleton] at hp; subst hp; exact ihr.runs
      have hrest' : (chainParts (compileX B l) op).2 ++ [(compileX B r).cp.toCode] =
          (cvs ++ [((compileX B r).cp.toCode, evalSpec B r env)]).map (·.1) := by simp [hrest]
      have hvalue : chainVal (op == .or) op.apply (evalSpec B l env) [evalSpec B r env] =
          chainVal (op == .or) op.apply v0 ((cvs ++ [((compileX B r).cp.toCode, evalSpec B r env)]).map (·.2)) := by
        rw [List.map_append, List.map_cons, List.map_nil, chainVal_snoc, ← hval]
      rw [hvalue, hrest']
      have hruns := runs_chain hnp (wf := op == .or) (step_binop op) (plain_apply op) h0 _ hcv'
      refine ⟨hruns, fun _ h => (by cases h), ?_⟩
      intro op' first rest hch
      simp only [Option.some.injEq, Prod.mk.injEq] at hch
      obtain ⟨rfl, rfl, rfl⟩ := hch
      exact ⟨hlazy, v0, _, rfl, h0, hcv', rfl⟩
    · have h1 : op ≠ .or := fun h => hlazy (Or.inl h)
      have h2 : op ≠ .and := fun h => hlazy (Or.inr h)
      have hcx : compileX B (.bin sp op l r) =
          (match (compileX B l).cp, (compileX B r).cp with
           | .const a, .const b => { cp := .const (op.apply a b) }
           | cl, cr => { cp := .code (cl.toCode ++ cr.toCode ++ [op.instr]) }) := by
        simp [compileX, h1, h2]
        rfl
      rw [hcx, es_bin sp op l r env h1 h2]
      split
      · rename_i a b ha hb
        rw [← (ihl.const a ha).1, ← (ihr.const b hb).1]
        exact inv_const (plain_apply op a b)
      · exact inv_code (runs_binop hnp (step_binop op) (plain_apply op) ihl.runs ihr.runs)
  | tern sp c t f _ _ _ ihc iht ihf =>
    have hcx : compileX B (.tern sp c t f) =
        (match (compileX B c).cp with
         | .const (.err k) => { cp := .const (.err k) }
         | .const v => { cp := if truthy v then (compileX B t).cp else (compileX B f).cp }
         | .code code => { cp := .code (ternCode code (compileX B t).cp.toCode (compileX B f).cp.toCode) }) := by
      simp [compileX]
      rfl
    rw [hcx, es_tern]
    split
    · rename_i k hc
      rw [← (ihc.const _ hc).1]
      exact inv_const (plain_err k)
    · rename_i v hne hc
      rw [← (ihc.const _ hc).1, ternVal_nonerr (fun k hk => hne k hk)]
      cases truthy v
      · exact inv_cp ihf
      · exact inv_cp iht
    · rename_i code hc
      have hr := ihc.runs
      rw [hc] at hr
      exact inv_code (runs_tern hnp hr iht.runs ihf.runs)
  | match_ sp s cases hm _ _ _ hnt ihs iharm ihcmp =>
    have hcx : compileX B (.match_ sp s cases) =
        { cp := .code ((compileX B s).cp.toCode ++ matchTail (compileCases B cases)) } := by simp [compileX]
    have hes : evalSpec B (.match_ sp s cases) env = evalSpecCases B cases (evalSpec B s env) env := by rw [evalSpec]
    rw [hcx, hes, compileCases_eq, evalSpecCases_eq]
    have hv : Plain (evalSpec B s env) := plain_of_runs (hpp hm) ihs.runs
    have := runs_match (B := B) (rec := rec) (top := top) hnp ihs.runs hv
      (cases.map (fun c => ((compilePat B (casePat c), (compileX B (caseBody c)).cp.toCode),
        (evalSpecPat B (casePat c) (evalSpec B s env) env, evalSpec B (caseBody c) env))))
      (fun q hq => by
        obtain ⟨c, hc, rfl⟩ := List.mem_map.mp hq
        cases c with
        | mk sp' p b =>
          simp only [casePat, caseBody]
          refine ⟨?_, ?_, (iharm sp' p b hc).runs⟩
          · cases p with
            | any _ => simp [evalSpecPat, BoolOrErr]
            | cmp _ _ op e => simp only [evalSpecPat]; exact boe_cmp _ _ _
            | type sp1 t name => exact absurd hc (hnt sp' sp1 t name b)
          · cases p with
            | any _ => simp only [compilePat, evalSpecPat]; exact go_pat_any hnp _
            | cmp sp1 sp2 op e =>
              simp only [compilePat, evalSpecPat]
              exact go_pat_cmp hnp (step_cmp op) hv (ihcmp sp' sp1 sp2 op e b hc).runs
            | type sp1 t name => exact absurd hc (hnt sp' sp1 t name b))
    apply inv_code
    simpa [List.map_map, Function.comp_def] using this

end


/-! ### the theorems -/

section
variable {B : Builtins} {env : Env}

/-- **Compiler correctness on the fragment.**  The code emitted for `e` (constant-folded or not), placed
    anywhere (`pre ++ code ++ post`), started at its first instruction on any stack, reaches its end in
    at most `code.length` steps having pushed exactly one entry, which denotes `evalSpec B e env`; the rest
    of the stack and the log are untouched (that is `Runs`, Lemmas/Seq.lean).
    Not covered: `match`, map literals, f-strings, member access / index / calls / macros, stored programs. -/
theorem compile_correct_partial {rec top : Rec} (hnp : NoProgs env) {e : Ast} (h : InFragment e) :
    Runs B rec top env (compileX B e).cp.toCode (evalSpec B e env) :=
  (inv_all hnp (m := false) (fun h => nomatch h) h).runs

/-- **Folding is sound on the fragment.**  Whenever the compiler replaces a tree by a constant, that constant
    is the value the semantics gives the tree — in every environment (without stored programs), so nothing an
    environment binds can tell the folded program from the unfolded one. -/
theorem fold_sound_partial (hnp : NoProgs env) {e : Ast} (h : InFragment e) {v : Val}
    (hc : compile B e = .const v) : v = evalSpec B e env :=
  ((inv_all (rec := runAt B 0) (top := runAt B 0) hnp (m := false) (fun h => nomatch h) h).const v hc).1

/-- The compiled program, run as `CelContext::exec` runs it. -/
def run (B : Builtins) (env : Env) (e : Ast) : Out := execProg B env (compileProgram B e)

/-- **End to end.**  Executing the compiled program yields `evalSpec B e env` — a failure value as a failure —
    and an empty call log. -/
theorem exec_correct_partial (hnp : NoProgs env) {e : Ast} (h : InFragment e) :
    run B env e = outOf (evalSpec B e env) [] := by
  show runAt B (31 + 1) env (compileX B e).cp.toCode true [] = _
  exact runAt_of_runs hnp 31 (compile_correct_partial hnp h) []

/-- **With `match`.**  The same statement for trees that may contain `match` with `_` and comparison
    patterns, in environments where no parameter is bound to an identifier value (the scrutinee is
    duplicated on the stack before it is compared). Type patterns are not covered. -/
theorem compile_correct_match_partial {rec top : Rec} (hnp : NoProgs env) (hpp : PlainParams env) {e : Ast}
    (h : InFragmentM e) : Runs B rec top env (compileX B e).cp.toCode (evalSpec B e env) :=
  (inv_all hnp (fun _ => hpp) h).runs

theorem exec_correct_match_partial (hnp : NoProgs env) (hpp : PlainParams env) {e : Ast} (h : InFragmentM e) :
    run B env e = outOf (evalSpec B e env) [] := by
  show runAt B (31 + 1) env (compileX B e).cp.toCode true [] = _
  exact runAt_of_runs hnp 31 (compile_correct_match_partial hnp hpp h) []

theorem outOf_nonerr {v : Val} (log : Log) : (∀ k, v ≠ .err k) → outOf v log = { res := .ok v, log := log } := by
  intro h
  cases v <;> first | rfl | exact absurd rfl (h _)

theorem outOf_res_ok {v va : Val} {log : Log} : (outOf v log).res = .ok va → v = va ∧ ∀ k, v ≠ .err k := by
  intro h
  cases v <;> simp [outOf] at h <;> subst h <;> simp

theorem outOf_res_err {v : Val} {a : Abort} {log : Log} :
    (outOf v log).res = .error a → ∃ k, v = .err k ∧ a = .err k := by
  intro h
  cases v <;> simp_all [outOf]

theorem spec_of_ok (hnp : NoProgs env) {e : Ast} (h : InFragment e) {v : Val}
    (hr : (run B env e).res = .ok v) : evalSpec B e env = v ∧ ∀ k, v ≠ .err k := by
  rw [exec_correct_partial hnp h] at hr
  obtain ⟨h1, h2⟩ := outOf_res_ok hr
  exact ⟨h1, fun k hk => h2 k (h1.trans hk)⟩

theorem spec_of_fail (hnp : NoProgs env) {e : Ast} (h : InFragment e) {a : Abort}
    (hr : (run B env e).res = .error a) : ∃ k, evalSpec B e env = .err k ∧ a = .err k := by
  rw [exec_correct_partial hnp h] at hr
  exact outOf_res_err hr

/-- `a || b` with a truthy `a` is `true`, whatever `b` is: `b` is not evaluated. -/
theorem or_skips_rhs (hnp : NoProgs env) (sp : Span) {a b : Ast} (ha : InFragment a) (hb : InFragment b)
    {va : Val} (hva : (run B env a).res = .ok va) (ht : truthy va = true) :
    run B env (.bin sp .or a b) = { res := .ok (.bool true), log := [] } := by
  obtain ⟨hs, _⟩ := spec_of_ok hnp ha hva
  rw [exec_correct_partial hnp (.bin sp .or a b ha hb), evalSpec, hs]
  simp [ht, outOf]

/-- … so replacing `b` by any other expression of the fragment changes nothing. -/
theorem or_rhs_irrelevant (hnp : NoProgs env) (sp : Span) {a b b' : Ast} (ha : InFragment a)
    (hb : InFragment b) (hb' : InFragment b') {va : Val} (hva : (run B env a).res = .ok va)
    (ht : truthy va = true) :
    run B env (.bin sp .or a b) = run B env (.bin sp .or a b') := by
  rw [or_skips_rhs hnp sp ha hb hva ht, or_skips_rhs hnp sp ha hb' hva ht]

/-- `a && b`: a falsy `a` gives `false`, a failing `a` gives that failure — whatever `b` is. -/
theorem and_skips_rhs_on_falsy_or_failing (hnp : NoProgs env) (sp : Span) {a b : Ast}
    (ha : InFragment a) (hb : InFragment b) :
    (∀ va, (run B env a).res = .ok va → truthy va = false →
      run B env (.bin sp .and a b) = { res := .ok (.bool false), log := [] }) ∧
    (∀ x, (run B env a).res = .error x → run B env (.bin sp .and a b) = run B env a) := by
  constructor
  · intro va hva hf
    obtain ⟨hs, hne⟩ := spec_of_ok hnp ha hva
    rw [exec_correct_partial hnp (.bin sp .and a b ha hb), es_and, hs]
    rcases vTest_cases va with ⟨k, hk, _⟩ | ⟨_, hT⟩
    · exact absurd hk (hne k)
    · simp [chainVal, hT, hf, jumps, outOf]
  · intro x hx
    obtain ⟨k, hs, _⟩ := spec_of_fail hnp ha hx
    rw [exec_correct_partial hnp (.bin sp .and a b ha hb), exec_correct_partial hnp ha, es_and, hs]
    simp [chainVal, vTest, jumps]

/-- `c ? x : y` with a non-failing `c` is exactly one of the two branches, chosen by the truthiness of `c`. -/
theorem tern_exactly_one (hnp : NoProgs env) (sp : Span) {c x y : Ast} (hc : InFragment c)
    (hx : InFragment x) (hy : InFragment y) {vc : Val} (hvc : (run B env c).res = .ok vc) :
    run B env (.tern sp c x y) = if truthy vc then run B env x else run B env y := by
  obtain ⟨hs, hne⟩ := spec_of_ok hnp hc hvc
  rw [exec_correct_partial hnp (.tern sp c x y hc hx hy), exec_correct_partial hnp hx,
    exec_correct_partial hnp hy, es_tern, hs, ternVal_nonerr hne]
  cases truthy vc <;> rfl

/-- `c ? x : y` with a failing `c` fails with that failure; neither branch matters. -/
theorem tern_fails_on_failing_cond (hnp : NoProgs env) (sp : Span) {c x y : Ast} (hc : InFragment c)
    (hx : InFragment x) (hy : InFragment y) {a : Abort} (hvc : (run B env c).res = .error a) :
    run B env (.tern sp c x y) = run B env c := by
  obtain ⟨k, hs, _⟩ := spec_of_fail hnp hc hvc
  rw [exec_correct_partial hnp (.tern sp c x y hc hx hy), exec_correct_partial hnp hc, es_tern, hs]
  rfl

/-- A sub-expression `x` that would fail if it were evaluated is invisible in every skipped position. -/
theorem unevaluated_failure_invisible (hnp : NoProgs env) (sp : Span) {a x y : Ast} (ha : InFragment a)
    (hx : InFragment x) (hy : InFragment y) {f : Abort} (_hx : (run B env x).res = .error f)
    {va : Val} (hva : (run B env a).res = .ok va) :
    (truthy va = true → run B env (.bin sp .or a x) = { res := .ok (.bool true), log := [] }) ∧
    (truthy va = false → run B env (.bin sp .and a x) = { res := .ok (.bool false), log := [] }) ∧
    (truthy va = true → run B env (.tern sp a y x) = run B env y) ∧
    (truthy va = false → run B env (.tern sp a x y) = run B env y) := by
  refine ⟨fun ht => or_skips_rhs hnp sp ha hx hva ht,
    fun hf => (and_skips_rhs_on_falsy_or_failing hnp sp ha hx).1 va hva hf, fun ht => ?_, fun hf => ?_⟩
  · rw [tern_exactly_one hnp sp ha hy hx hva, ht]; rfl
  · rw [tern_exactly_one hnp sp ha hx hy hva, hf]; rfl

/-- A truthy right operand absorbs a failing left operand of `||` … -/
theorem or_true_absorbs_failing_lhs (hnp : NoProgs env) (sp : Span) {a b : Ast} (ha : InFragment a)
    (hb : InFragment b) {f : Abort} (hfa : (run B env a).res = .error f) {vb : Val}
    (hvb : (run B env b).res = .ok vb) (ht : truthy vb = true) :
    run B env (.bin sp .or a b) = { res := .ok (.bool true), log := [] } := by
  obtain ⟨k, hs, _⟩ := spec_of_fail hnp ha hfa
  obtain ⟨hsb, _⟩ := spec_of_ok hnp hb hvb
  rw [exec_correct_partial hnp (.bin sp .or a b ha hb), evalSpec, hs, hsb]
  have h0 : truthy (Val.err k) = false := rfl
  simp [h0, vOr_err_left, ht, outOf]

/-- … and otherwise the failure of the left operand is the result. -/
theorem or_fails_otherwise (hnp : NoProgs env) (sp : Span) {a b : Ast} (ha : InFragment a)
    (hb : InFragment b) {f : Abort} (hfa : (run B env a).res = .error f) {vb : Val}
    (hvb : (run B env b).res = .ok vb) (ht : truthy vb = false) :
    run B env (.bin sp .or a b) = run B env a := by
  obtain ⟨k, hs, _⟩ := spec_of_fail hnp ha hfa
  obtain ⟨hsb, _⟩ := spec_of_ok hnp hb hvb
  rw [exec_correct_partial hnp (.bin sp .or a b ha hb), exec_correct_partial hnp ha, evalSpec, hs, hsb]
  have h0 : truthy (Val.err k) = false := rfl
  simp [h0, vOr_err_left, ht]

theorem evalSpecCases_skip {B : Builtins} (pre rest : List MCase) (vs : Val) (env : Env)
    (hpre : ∀ c ∈ pre, evalSpecPat B (casePat c) vs env ≠ .bool true) :
    evalSpecCases B (pre ++ rest) vs env = evalSpecCases B rest vs env := by
  induction pre with
  | nil => rfl
  | cons c cs ih =>
    have h1 := hpre c (List.mem_cons_self ..)
    cases c with
    | mk sp p b =>
      rw [List.cons_append, evalSpecCases]
      split
      · rename_i hb; exact absurd hb h1
      · exact ih (fun c hc => hpre c (List.mem_cons_of_mem _ hc))

/-- `match`: the arm of the first case whose pattern matches is the result — the arms of the cases before
    it (whose patterns do not match) and everything after it play no role. -/
theorem match_first_case_only (hnp : NoProgs env) (hpp : PlainParams env) (sp sp' : Span) {s b : Ast} {p : Pat}
    {pre post : List MCase} (h : InFragmentM (.match_ sp s (pre ++ .mk sp' p b :: post)))
    (hpre : ∀ c ∈ pre, evalSpecPat B (casePat c) (evalSpec B s env) env ≠ .bool true)
    (hp : evalSpecPat B p (evalSpec B s env) env = .bool true) :
    run B env (.match_ sp s (pre ++ .mk sp' p b :: post)) = run B env b := by
  have hb : InFragmentM b := by
    cases h with
    | match_ _ _ _ _ _ harm _ _ => exact harm sp' p b (by simp)
  rw [exec_correct_match_partial hnp hpp h, exec_correct_match_partial hnp hpp hb, evalSpec,
    evalSpecCases_skip pre _ _ env hpre, evalSpecCases, hp]

/-- `match`: when no pattern matches the result is `null`. -/
theorem match_none_is_null (hnp : NoProgs env) (hpp : PlainParams env) (sp : Span) {s : Ast}
    {cases : List MCase} (h : InFragmentM (.match_ sp s cases))
    (hnone : ∀ c ∈ cases, evalSpecPat B (casePat c) (evalSpec B s env) env ≠ .bool true) :
    run B env (.match_ sp s cases) = { res := .ok .null, log := [] } := by
  have := evalSpecCases_skip cases [] (evalSpec B s env) env hnone
  rw [List.append_nil] at this
  rw [exec_correct_match_partial hnp hpp h, evalSpec, this]
  rfl

end

/-! ### non-vacuity: the hypotheses of every theorem above are satisfiable -/

section
variable (B : Builtins)

def sp0 : Span := default
def lit (i : Int) : Ast := .member sp0 (.int sp0 i) []
def var (n : String) : Ast := .member sp0 (.ident sp0 n.toList) []
def env0 : Env := {}

theorem np0 : NoProgs env0 := noProgs_of_nil rfl
theorem lit_frag (i : Int) : InFragment (lit i) := .int _ _ _
theorem var_frag (n : String) : InFragment (var n) := .ident _ _ _

/-- `1` runs to `1`; the unbound `x` fails with a Binding failure. -/
theorem run_lit (i : Int) : (run B env0 (lit i)).res = .ok (.int i) := by
  rw [exec_correct_partial np0 (lit_frag i)]; rfl
theorem run_unbound : (run B env0 (var "x")).res = .error (.err .binding) := by
  rw [exec_correct_partial np0 (var_frag "x")]; rfl

-- compile_correct_partial / exec_correct_partial: `x || 1 ? [x, -2] : !x` is in the fragment
example : InFragment (.tern sp0 (.bin sp0 .or (var "x") (lit 1))
    (.member sp0 (.list sp0 [var "x", .negRun sp0 [sp0] (lit 2)]) []) (.notRun sp0 [sp0] (var "x"))) :=
  .tern _ _ _ _ (.bin _ _ _ _ (var_frag _) (lit_frag _))
    (.list _ _ _ (fun e he => by
      simp only [List.mem_cons, List.mem_nil_iff, or_false] at he
      rcases he with rfl | rfl
      · exact var_frag _
      · exact .negRun _ _ _ (lit_frag _)))
    (.notRun _ _ _ (var_frag _))
-- fold_sound_partial: `1 + 2` is folded, to 3
example : compile B (.bin sp0 .add (lit 1) (lit 2)) = .const (.int 3) := by
  simp [compile, compileX, compilePrim, compileOps, lit]; rfl
example : evalSpec B (.bin sp0 .add (lit 1) (lit 2)) env0 = .int 3 :=
  (fold_sound_partial (B := B) np0 (.bin _ _ _ _ (lit_frag 1) (lit_frag 2)) (by
    simp [compile, compileX, compilePrim, compileOps, lit]; rfl)).symm
-- or_skips_rhs / or_rhs_irrelevant: `1 || x`
example : run B env0 (.bin sp0 .or (lit 1) (var "x")) = { res := .ok (.bool true), log := [] } :=
  or_skips_rhs np0 sp0 (lit_frag 1) (var_frag "x") (run_lit B 1) rfl
example : run B env0 (.bin sp0 .or (lit 1) (var "x")) = run B env0 (.bin sp0 .or (lit 1) (lit 0)) :=
  or_rhs_irrelevant np0 sp0 (lit_frag 1) (var_frag "x") (lit_frag 0) (run_lit B 1) rfl
-- and_skips_rhs_on_falsy_or_failing: `0 && x`, `x && 1`
example : run B env0 (.bin sp0 .and (lit 0) (var "x")) = { res := .ok (.bool false), log := [] } :=
  (and_skips_rhs_on_falsy_or_failing np0 sp0 (lit_frag 0) (var_frag "x")).1 _ (run_lit B 0) rfl
example : run B env0 (.bin sp0 .and (var "x") (lit 1)) = run B env0 (var "x") :=
  (and_skips_rhs_on_falsy_or_failing np0 sp0 (var_frag "x") (lit_frag 1)).2 _ (run_unbound B)
-- tern_exactly_one: `0 ? x : 2`; tern_fails_on_failing_cond: `x ? 1 : 2`
example : run B env0 (.tern sp0 (lit 0) (var "x") (lit 2)) = run B env0 (lit 2) :=
  tern_exactly_one np0 sp0 (lit_frag 0) (var_frag "x") (lit_frag 2) (run_lit B 0)
example : run B env0 (.tern sp0 (var "x") (lit 1) (lit 2)) = run B env0 (var "x") :=
  tern_fails_on_failing_cond np0 sp0 (var_frag "x") (lit_frag 1) (lit_frag 2) (run_unbound B)
-- unevaluated_failure_invisible: the failing `x` behind `1 || ·`, `1 ? 2 : ·`
example : run B env0 (.bin sp0 .or (lit 1) (var "x")) = { res := .ok (.bool true), log := [] } :=
  (unevaluated_failure_invisible np0 sp0 (lit_frag 1) (var_frag "x") (lit_frag 2) (run_unbound B) (run_lit B 1)).1 rfl
-- or_true_absorbs_failing_lhs: `x || 1`; or_fails_otherwise: `x || 0`
example : run B env0 (.bin sp0 .or (var "x") (lit 1)) = { res := .ok (.bool true), log := [] } :=
  or_true_absorbs_failing_lhs np0 sp0 (var_frag "x") (lit_frag 1) (run_unbound B) (run_lit B 1) rfl
example : run B env0 (.bin sp0 .or (var "x") (lit 0)) = run B env0 (var "x") :=
  or_fails_otherwise np0 sp0 (var_frag "x") (lit_frag 0) (run_unbound B) (run_lit B 0) rfl

-- match: `match 2 { case == 1: x, case _: 20 }` is 20 (the failing arm `x` is not evaluated);
--        `match 2 { case == 1: x }` is null
theorem pp0 : PlainParams env0 := by
  intro n v h; simp [Env.getParam, env0, lookup] at h

def mcase1 : MCase := .mk sp0 (.cmp sp0 sp0 .eq (lit 1)) (var "x")
def mcaseAny : MCase := .mk sp0 (.any sp0) (lit 20)

theorem match_frag (cs : List MCase) (hcs : ∀ c ∈ cs, c = mcase1 ∨ c = mcaseAny) :
    InFragmentM (.match_ sp0 (lit 2) cs) := by
  refine .match_ _ _ _ rfl (.int _ _ _) ?_ ?_ ?_
  · intro sp' p b hm
    rcases hcs _ hm with h | h <;> cases h
    · exact .ident _ _ _
    · exact .int _ _ _
  · intro sp' sp1 sp2 op e b hm
    rcases hcs _ hm with h | h <;> cases h
    exact .int _ _ _
  · intro sp' sp1 t name b hm
    rcases hcs _ hm with h | h <;> cases h

example : run B env0 (.match_ sp0 (lit 2) ([mcase1] ++ mcaseAny :: [])) = run B env0 (lit 20) :=
  match_first_case_only np0 pp0 sp0 sp0 (p := .any sp0) (b := lit 20)
    (match_frag _ (by intro c hc; simp at hc; rcases hc with rfl | rfl; exact Or.inl rfl; exact Or.inr rfl))
    (by intro c hc; simp only [List.mem_singleton] at hc; subst hc; intro h; cases h) rfl
example : run B env0 (.match_ sp0 (lit 2) [mcase1]) = { res := .ok .null, log := [] } :=
  match_none_is_null np0 pp0 sp0 (match_frag _ (by simp))
    (by intro c hc; simp only [List.mem_singleton] at hc; subst hc; intro h; cases h)

end

end C05Compile
end Rscel
