import RscelModel.Lemmas.Seq
/-
C05 (and the evaluation half of C09) — compiler correctness on a fragment.

`compile_correct_partial`: for every tree `e` of the fragment `InFragment` (literals, identifiers,
parentheses, list literals, `!`/`-` runs, all fourteen binary operators including `||`/`&&` chains, `?:`),
the bytecode the model compiler emits for `e` — folded or not — runs on the model VM to the value the
declarative semantics `evalSpec e env` (Model/Spec.lean) assigns, in every environment without stored
programs, inside any surrounding code, without touching the rest of the stack or the log, in at most
`code.length` steps.  Because `evalSpec` is lazy by definition (`a || b` does not mention `b` when `a` is
truthy, `c ? x : y` mentions exactly one branch, …) this is the statement that the emitted jump
sequences implement the lazy semantics.  The folded cases are part of the same induction
(`fold_sound_partial`: a constant the compiler computed is `evalSpec e env` in every such environment).

NOT covered (`…_partial`): `match`, map literals, f-strings, postfix chains (member access, index, calls,
macros), stored programs reached through identifiers, call logs.  For those constructors the property is
carried by the correspondence run of the check (facet C05), as before.
-/
namespace Rscel
namespace C05Compile
open Rscel.Seq

/-! ### value-level facts relating `evalSpec`'s clauses to what the emitted sequence computes -/

theorem vTest_idem (v : Val) : vTest (vTest v) = vTest v := by
  cases v <;> rfl

theorem jumps_vTest_idem (wf : Bool) (v : Val) : jumps wf (vTest (vTest v)) = jumps wf (vTest v) := by
  rw [vTest_idem]

theorem chainVal_snoc (wf : Bool) (f : Val → Val → Val) (vs : List Val) (v : Val) :
    ∀ x, chainVal wf f x (vs ++ [v]) = chainVal wf f (chainVal wf f x vs) [v] := by
  induction vs with
  | nil => intro x; rfl
  | cons u us ih =>
    intro x
    simp only [List.cons_append, chainVal]
    by_cases hj : jumps wf (vTest x) = true
    · simp [hj, vTest_idem]
    · simp only [hj]
      exact ih _

theorem vOr_falsy_left (a b : Val) (hne : ∀ k, a ≠ .err k) (hf : truthy a = false) :
    vOr a b = vOr (.bool false) b := by
  unfold vOr
  split
  · exact absurd rfl (hne _)
  · simp_all [truthy]
  · rename_i h1 h2
    split
    · simp_all
    · simp_all [truthy]
    · simp_all [truthy]

theorem vAnd_truthy_left (a b : Val) (hne : ∀ k, a ≠ .err k) (ht : truthy a = true) :
    vAnd a b = vAnd (.bool true) b := by
  unfold vAnd errProp
  split
  · exact absurd rfl (hne _)
  · split <;> simp_all [truthy]

/-- The clause of `evalSpec` for `||` is what one link of the chain computes. -/
theorem or_link (va vb : Val) :
    (if truthy va then Val.bool true else vOr va vb) = chainVal true vOr va [vb] := by
  simp only [chainVal]
  rcases vTest_cases va with ⟨k, rfl, ht⟩ | ⟨hne, ht⟩
  · simp [ht, jumps, truthy]
  · rw [ht]
    cases h : truthy va
    · simp [jumps, vOr_falsy_left va vb hne h]
    · simp [jumps]

theorem and_clause_nonerr (va vb : Val) :
    (∀ k, va ≠ .err k) →
    (match va with
     | .err k => Val.err k
     | va => if truthy va then vAnd va vb else .bool false) = if truthy va then vAnd va vb else .bool false := by
  intro hne
  cases va <;> first | rfl | exact absurd rfl (hne _)

/-- The clause of `evalSpec` for `&&` is what one link of the chain computes. -/
theorem and_link (va vb : Val) :
    (match va with
     | .err k => Val.err k
     | va => if truthy va then vAnd va vb else .bool false) = chainVal false vAnd va [vb] := by
  simp only [chainVal]
  rcases vTest_cases va with ⟨k, rfl, ht⟩ | ⟨hne, ht⟩
  · simp [ht, jumps]
  · rw [ht, and_clause_nonerr va vb hne]
    cases h : truthy va
    · simp [jumps]
    · simp [jumps, vAnd_truthy_left va vb hne h]

/-! ### equations of `evalSpec` and `compileX` on the fragment -/

theorem es_or (sp : Span) (a b : Ast) (env : Env) :
    evalSpec (.bin sp .or a b) env = chainVal true vOr (evalSpec a env) [evalSpec b env] := by
  rw [evalSpec]; exact or_link _ _

theorem es_and (sp : Span) (a b : Ast) (env : Env) :
    evalSpec (.bin sp .and a b) env = chainVal false vAnd (evalSpec a env) [evalSpec b env] := by
  rw [evalSpec]; exact and_link _ _

theorem es_bin (sp : Span) (op : BinOp) (a b : Ast) (env : Env) (h1 : op ≠ .or) (h2 : op ≠ .and) :
    evalSpec (.bin sp op a b) env = op.apply (evalSpec a env) (evalSpec b env) := by
  rw [evalSpec] <;> assumption

theorem es_lazy (sp : Span) (op : BinOp) (a b : Ast) (env : Env) (h : op = .or ∨ op = .and) :
    evalSpec (.bin sp op a b) env = chainVal (op == .or) op.apply (evalSpec a env) [evalSpec b env] := by
  rcases h with rfl | rfl
  · exact es_or ..
  · exact es_and ..

theorem es_tern (sp : Span) (c t f : Ast) (env : Env) :
    evalSpec (.tern sp c t f) env = ternVal (evalSpec c env) (evalSpec t env) (evalSpec f env) := by
  rw [evalSpec]
  cases evalSpec c env <;> rfl

theorem evalSpecList_eq (es : List Ast) (env : Env) : evalSpecList es env = es.map (fun e => evalSpec e env) := by
  induction es with
  | nil => simp [evalSpecList]
  | cons e es ih => simp [evalSpecList, ih]

theorem compileList_eq (B : Builtins) (es : List Ast) : compileList B es = es.map (fun e => (compileX B e).cp) := by
  induction es with
  | nil => simp [compileList]
  | cons e es ih => simp [compileList, ih]

theorem cx_neg (B : Builtins) (sp : Span) (ops : List Span) (m : Ast) :
    compileX B (.negRun sp ops m) =
      { cp := .code ((compileX B m).cp.toCode ++ List.replicate (negCount ops m) .neg) } := by
  cases m
  case member sp' p ch =>
    cases p <;> simp [compileX, negCount]
  all_goals simp [compileX, negCount]

/-- First operand and further operands of the chain that `l op r` extends. -/
def chainParts (L : CPX) (op : BinOp) : List Instr × List (List Instr) :=
  match L.chain with
  | some (op', f, rs) => if op' = op then (f, rs) else (L.cp.toCode, [])
  | none => (L.cp.toCode, [])

theorem cx_lazy (B : Builtins) (sp : Span) (op : BinOp) (l r : Ast) (h : op = .or ∨ op = .and) :
    compileX B (.bin sp op l r) =
      { cp := .code ((chainParts (compileX B l) op).1 ++
          chainTail (op == .or) op.instr ((chainParts (compileX B l) op).2 ++ [(compileX B r).cp.toCode])),
        chain := some (op, (chainParts (compileX B l) op).1,
          (chainParts (compileX B l) op).2 ++ [(compileX B r).cp.toCode]) } := by
  rcases h with rfl | rfl <;> simp [compileX, chainParts] <;> exact ⟨rfl, rfl, rfl⟩

theorem step_binop {B : Builtins} {rec top : Rec} {env : Env} (op : BinOp) (len pc : Nat) (s : St) :
    step B rec top env len op.instr pc s = liftNext pc (binop rec op.apply env s) := by
  cases op <;> rfl

theorem step_neg {B : Builtins} {rec top : Rec} {env : Env} (len pc : Nat) (s : St) :
    step B rec top env len .neg pc s = liftNext pc (unop rec neg env s) := rfl

theorem allConst_map {α : Type} (g : α → CP) (val : α → Val) (es : List α) :
    ∀ vs, allConst (es.map g) = some vs → (∀ e ∈ es, ∀ v, g e = .const v → v = val e) → vs = es.map val := by
  induction es with
  | nil => intro vs h _; simpa [allConst] using h.symm
  | cons e es ih =>
    intro vs h hc
    simp only [List.map_cons] at h
    cases hg : g e with
    | code c => simp [hg, allConst] at h
    | const v =>
      simp only [hg, allConst] at h
      cases hr : allConst (es.map g) with
      | none => simp [hr] at h
      | some vs' =>
        simp only [hr, Option.map_some, Option.some.injEq] at h
        subst h
        have h1 := hc e (List.mem_cons_self ..) v hg
        have h2 := ih vs' hr (fun e' he' => hc e' (List.mem_cons_of_mem _ he'))
        simp [h1, h2]


/-! ### the induction -/

section
variable (B : Builtins) (rec top : Rec) (env : Env)

/-- What the induction carries for a compiled node `X` whose tree has the value `val`:
    its code runs to `val`; a folded constant *is* `val` (and is not an identifier); and if the node is an
    `||`/`&&` chain that an enclosing node may extend, its pieces run and `val` is the value of the chain. -/
structure Inv (X : CPX) (val : Val) : Prop where
  runs : Runs B rec top env X.cp.toCode val
  const : ∀ v, X.cp = .const v → v = val ∧ Plain v
  chain : ∀ op first rest, X.chain = some (op, first, rest) →
    (op = .or ∨ op = .and) ∧ ∃ (v0 : Val) (cvs : List (List Instr × Val)), rest = cvs.map (·.1) ∧
      Runs B rec top env first v0 ∧ (∀ p ∈ cvs, Runs B rec top env p.1 p.2) ∧
      val = chainVal (op == .or) op.apply v0 (cvs.map (·.2))

variable {B rec top env}

theorem inv_const {v : Val} (hv : Plain v) : Inv B rec top env { cp := .const v } v :=
  ⟨runs_push hv, fun v' h => (by cases h; exact ⟨rfl, hv⟩), fun _ _ _ h => (by cases h)⟩

theorem inv_code {c : List Instr} {val : Val} (h : Runs B rec top env c val) :
    Inv B rec top env { cp := .code c } val :=
  ⟨h, fun _ h => (by cases h), fun _ _ _ h => (by cases h)⟩

theorem inv_cp {X : CPX} {val : Val} (h : Inv B rec top env X val) : Inv B rec top env { cp := X.cp } val :=
  ⟨h.runs, h.const, fun _ _ _ h => (by cases h)⟩

theorem cx_member_nil (sp : Span) (p : Prim) : compileX B (.member sp p []) = { cp := compilePrim B p } := by
  simp [compileX, compileOps]

theorem es_member_nil (sp : Span) (p : Prim) : evalSpec (.member sp p []) env = evalSpecPrim p env := by
  rw [evalSpec]

theorem plain_lit_list (l : List Val) : Plain (.list l) := fun _ h => by cases h

/-- The pieces of the chain a lazy node extends run, and the left operand's value is the chain's value. -/
theorem chainParts_inv {L : CPX} {vl : Val} (hL : Inv B rec top env L vl) (op : BinOp) :
    ∃ (v0 : Val) (cvs : List (List Instr × Val)), (chainParts L op).2 = cvs.map (·.1) ∧
      Runs B rec top env (chainParts L op).1 v0 ∧ (∀ p ∈ cvs, Runs B rec top env p.1 p.2) ∧
      vl = chainVal (op == .or) op.apply v0 (cvs.map (·.2)) := by
  unfold chainParts
  split
  · rename_i op' f rs hch
    by_cases h : op' = op
    · subst h
      obtain ⟨_, v0, cvs, hrest, h0, hcv, hval⟩ := hL.chain _ _ _ hch
      simp only [if_true]
      exact ⟨v0, cvs, hrest, h0, hcv, hval⟩
    · simp only [h, if_false]
      exact ⟨vl, [], rfl, hL.runs, fun _ hp => (by cases hp), rfl⟩
  · exact ⟨vl, [], rfl, hL.runs, fun _ hp => (by cases hp), rfl⟩

theorem inv_all (hnp : NoProgs env) {e : Ast} (h : InFragment e) :
    Inv B rec top env (compileX B e) (evalSpec e env) := by
  induction h with
  | null sp sp' =>
    rw [cx_member_nil, es_member_nil]
    exact inv_const (v := .null) (fun _ h => (by cases h))
  | int sp sp' i =>
    rw [cx_member_nil, es_member_nil]
    exact inv_const (v := .int i) (fun _ h => (by cases h))
  | uint sp sp' n =>
    rw [cx_member_nil, es_member_nil]
    exact inv_const (v := .uint n) (fun _ h => (by cases h))
  | float sp sp' b =>
    rw [cx_member_nil, es_member_nil]
    exact inv_const (v := .float b) (fun _ h => (by cases h))
  | str sp sp' s =>
    rw [cx_member_nil, es_member_nil]
    exact inv_const (v := .str s) (fun _ h => (by cases h))
  | bytes sp sp' b =>
    rw [cx_member_nil, es_member_nil]
    exact inv_const (v := .bytes b) (fun _ h => (by cases h))
  | bool sp sp' b =>
    rw [cx_member_nil, es_member_nil]
    exact inv_const (v := .bool b) (fun _ h => (by cases h))
  | ident sp sp' n =>
    rw [cx_member_nil, es_member_nil]
    exact inv_code (runs_ident n)
  | parens sp sp' e _ ih =>
    rw [cx_member_nil, es_member_nil]
    exact inv_cp ih
  | list sp sp' es _ ih =>
    have hcx : compileX B (.member sp (.list sp' es) []) =
        { cp := match allConst (es.map (fun e => (compileX B e).cp)) with
            | some vs => .const (.list vs)
            | none => .code (((es.map (fun e => (compileX B e).cp)).map CP.toCode).flatten ++ [.mkList es.length]) } := by
      simp [compileX, compilePrim, compileOps, compileList_eq]
      rfl
    have hes : evalSpec (.member sp (.list sp' es) []) env = .list (es.map (fun e => evalSpec e env)) := by
      simp [evalSpec, evalSpecPrim, evalSpecList_eq]
    rw [hcx, hes]
    split
    · rename_i vs hvs
      have := allConst_map (fun e => (compileX B e).cp) (fun e => evalSpec e env) es vs hvs
        (fun e he v hv => ((ih e he).const v hv).1)
      rw [this]
      exact inv_const (plain_lit_list _)
    · apply inv_code
      have := runs_mkList (B := B) (rec := rec) (top := top) hnp
        (es.map (fun e => ((compileX B e).cp.toCode, evalSpec e env)))
        (fun p hp => by
          obtain ⟨e, he, rfl⟩ := List.mem_map.mp hp
          exact (ih e he).runs)
      simpa [List.map_map, Function.comp_def] using this
  | notRun sp ops m _ ih =>
    have hcx : compileX B (.notRun sp ops m) =
        { cp := .code ((compileX B m).cp.toCode ++ List.replicate ops.length .not) } := by simp [compileX]
    have hes : evalSpec (.notRun sp ops m) env = applyN vNot ops.length (evalSpec m env) := by simp [evalSpec]
    rw [hcx, hes]
    exact inv_code (runs_unrun hnp step_not plain_vNot ih.runs _)
  | negRun sp ops m _ ih =>
    have hes : evalSpec (.negRun sp ops m) env = applyN neg (negCount ops m) (evalSpec m env) := by simp [evalSpec]
    rw [cx_neg, hes]
    exact inv_code (runs_unrun hnp step_neg plain_neg ih.runs _)
  | bin sp op l r _ _ ihl ihr =>
    by_cases hlazy : op = .or ∨ op = .and
    · rw [cx_lazy B sp op l r hlazy, es_lazy sp op l r env hlazy]
      obtain ⟨v0, cvs, hrest, h0, hcv, hval⟩ := chainParts_inv ihl op
      have hcv' : ∀ p ∈ cvs ++ [((compileX B r).cp.toCode, evalSpec r env)], Runs B rec top env p.1 p.2 := by
        intro p hp
        rcases List.mem_append.mp hp with hp | hp
        · exact hcv p hp
        · simp only [List.mem_singleton] at hp; subst hp; exact ihr.runs
      have hrest' : (chainParts (compileX B l) op).2 ++ [(compileX B r).cp.toCode] =
          (cvs ++ [((compileX B r).cp.toCode, evalSpec r env)]).map (·.1) := by simp [hrest]
      have hvalue : chainVal (op == .or) op.apply (evalSpec l env) [evalSpec r env] =
          chainVal (op == .or) op.apply v0 ((cvs ++ [((compileX B r).cp.toCode, evalSpec r env)]).map (·.2)) := by
        rw [List.map_append, List.map_cons, List.map_nil, chainVal_snoc, ← hval]
      rw [hvalue, hrest']
      have hruns := runs_chain hnp (wf := op == .or) (step_binop op) (plain_apply op) h0 _ hcv'
      refine ⟨hruns, fun _ h => (by cases h), ?_⟩
      intro op' first rest hch
      simp only [Option.some.injEq, Prod.mk.injEq] at hch
      obtain ⟨rfl, rfl, rfl⟩ := hch
      exact ⟨hlazy, v0, _, rfl, h0, hcv', rfl⟩
    · have h1 : op ≠ .or := fun h => hlazy (Or.inl h)
      have h2 : op ≠ .and := fun h => hlazy (Or.inr h)
      have hcx : compileX B (.bin sp op l r) =
          (match (compileX B l).cp, (compileX B r).cp with
           | .const a, .const b => { cp := .const (op.apply a b) }
           | cl, cr => { cp := .code (cl.toCode ++ cr.toCode ++ [op.instr]) }) := by
        simp [compileX, h1, h2]
        rfl
      rw [hcx, es_bin sp op l r env h1 h2]
      split
      · rename_i a b ha hb
        rw [← (ihl.const a ha).1, ← (ihr.const b hb).1]
        exact inv_const (plain_apply op a b)
      · exact inv_code (runs_binop hnp (step_binop op) (plain_apply op) ihl.runs ihr.runs)
  | tern sp c t f _ _ _ ihc iht ihf =>
    have hcx : compileX B (.tern sp c t f) =
        (match (compileX B c).cp with
         | .const (.err k) => { cp := .const (.err k) }
         | .const v => { cp := if truthy v then (compileX B t).cp else (compileX B f).cp }
         | .code code => { cp := .code (ternCode code (compileX B t).cp.toCode (compileX B f).cp.toCode) }) := by
      simp [compileX]
      rfl
    rw [hcx, es_tern]
    split
    · rename_i k hc
      rw [← (ihc.const _ hc).1]
      exact inv_const (plain_err k)
    · rename_i v hne hc
      rw [← (ihc.const _ hc).1, ternVal_nonerr (fun k hk => hne k hk)]
      cases truthy v
      · exact inv_cp ihf
      · exact inv_cp iht
    · rename_i code hc
      have hr := ihc.runs
      rw [hc] at hr
      exact inv_code (runs_tern hnp hr iht.runs ihf.runs)

end

end C05Compile
end Rscel
