import RscelModel.Theorems.C09Sem
import RscelModel.Theorems.C17Sem2
import RscelModel.Lemmas.SpecSubst2
/-
C09, the end-to-end half, on the larger fragment `Frag2` (`Model/Spec.lean`; `Theorems/C05Compile2.lean`):
"replacing a variable by a literal of its bound value does not change the result" for expressions with calls
of built-in functions / type constructors / macros (function and method position), map literals, f-strings,
index and field access, type patterns of `match` — the trees in which the compiler, once an argument has
become constant, evaluates a *call* at compile time (`check_for_const`), folds a map literal, a member access
on a constant map, an index into a constant list.

* `subst_evalSpec2` — the substitution theorem of the declarative semantics, for **all** trees (no fragment):
  if `x` is bound to the value of the literal `l`, is not a type name, and occurs in `e` as a variable only
  (`varOnly x e`, see below), then `evalSpec B (substLit x l e) env = evalSpec B e env`
  (`Lemmas/SpecSubst2.lean`, mutual induction over the tree; macro bodies are evaluated in the environments
  that bind the loop variable, in which `x` still has its value);
* `substLit_frag2`, `substLit_depth`, `substLit_removes2` — the substitution stays in `Frag2`, keeps the
  nesting depth, and removes `x` from the reported names (all trees);
* `literal_for_variable_invisible2_partial` — the property's statement about **compiled programs**:
  `execProg B env (compileProgram B (substLit x l e)) = execProg B env (compileProgram B e)` — value or
  failure, and call log — in every standard environment (`StdEnv`: no stored programs, no functions bound by
  the caller, parameters bound to data, none under the name of a built-in function or macro), for trees of
  `Frag2` whose nesting depth is within the budget of `run_raw`;
* `unbound_at_compile_time2` — the same with the order of events spelled out (both programs fixed first, the
  environment quantified afterwards);
* `variable_for_literal_invisible2`, `fresh_variable_for_literal2` — the converse reading;
* `literals_for_variables_invisible2` — any number of variables, one after the other.

`varOnly x e` (`Lemmas/SpecSubst2.lean`).  `substLit x l` replaces *every* identifier primary `x`.  Two kinds of
occurrence are not variables: the name of a called function (`x(..)`), and the loop variable of a macro
(`l.map(x, x + 1)`: a binder; the occurrences of `x` in the body are bound, and a literal in the binder position
is no loop variable at all).  `varOnly x e` excludes trees that use `x` in one of these two ways — the
statement is about the remaining trees only (`loop_variable_is_not_a_variable` below shows that the restriction
is needed).

NOT covered: trees outside `Frag2` (header of `Model/Spec.lean`), functions bound by the caller, stored
programs, list- and map-valued bindings (no literal primary denotes them).
-/
namespace Rscel
namespace C09Sem2
open Rscel.Seq Rscel.C05Compile Rscel.C05Compile2 Rscel.C17Sem Rscel.C17Sem2 Rscel.C09Sem Rscel.SpecSubst2

variable {B : Builtins}

/-! ## literals as replacement -/

theorem lit_prim_not_ident (l : Lit) (sp sp' : Span) (n : Str) : l.prim sp ≠ .ident sp' n := by
  cases l with
  | int i => simp only [Lit.prim]; split <;> (intro h; cases h)
  | float b => simp only [Lit.prim]; split <;> (intro h; cases h)
  | _ => intro h; cases h

theorem constPrim_lit (l : Lit) (hl : l.InRange) (sp : Span) : ConstPrim B (l.prim sp) l.val :=
  ⟨fun sp' n => lit_prim_not_ident l sp sp' n, fun sp' => SpecSubst.lit_prim_ne_min l sp sp',
   fun env => SpecSubst.lit_prim_val l hl sp env⟩

theorem lit_prim_depth (l : Lit) (sp : Span) : depthPrim (l.prim sp) = 0 := by
  cases l with
  | int i => simp only [Lit.prim]; split <;> simp [depthPrim, depth, depthOps]
  | float b => simp only [Lit.prim]; split <;> simp [depthPrim, depth, depthOps]
  | _ => rfl

/-- A primary without sub-trees and without a chain is in `Frag2`. -/
theorem frag2_atom (sp : Span) {p : Prim} (h1 : ∀ s e, p ≠ .parens s e) (h2 : ∀ s es, p ≠ .list s es)
    (h3 : ∀ s is, p ≠ .map s is) (h4 : ∀ s ss, p ≠ .fstr s ss) : Frag2 B (.member sp p []) :=
  .member _ _ _ (fun s e h => absurd h (h1 s e)) (fun s es h => absurd h (h2 s es))
    (fun s is h => absurd h (h3 s is)) (fun s is h => absurd h (h3 s is)) (fun s ss h => absurd h (h4 s ss))
    (fun _ _ h => by cases h) (fun _ _ h => by cases h) (by cases p <;> rfl)

theorem lit_prim_frag2 (l : Lit) (sp sp' : Span) : Frag2 B (.member sp' (l.prim sp) []) := by
  have atom : ∀ {p : Prim}, (∀ s e, p ≠ .parens s e) → (∀ s es, p ≠ .list s es) → (∀ s is, p ≠ .map s is) →
      (∀ s ss, p ≠ .fstr s ss) → ∀ sp'', Frag2 B (.member sp'' p []) :=
    fun h1 h2 h3 h4 sp'' => frag2_atom sp'' h1 h2 h3 h4
  cases l with
  | int i =>
    simp only [Lit.prim]
    split
    · exact atom (fun _ _ h => by cases h) (fun _ _ h => by cases h) (fun _ _ h => by cases h)
        (fun _ _ h => by cases h) _
    · refine .member _ _ _ (fun s e h => ?_) (fun _ _ h => by cases h)
        (fun _ _ h => by cases h) (fun _ _ h => by cases h) (fun _ _ h => by cases h)
        (fun _ _ h => by cases h) (fun _ _ h => by cases h) rfl
      cases h
      exact .negRun _ _ _ (atom (fun _ _ h => by cases h) (fun _ _ h => by cases h) (fun _ _ h => by cases h)
        (fun _ _ h => by cases h) _)
  | float b =>
    simp only [Lit.prim]
    split
    · exact atom (fun _ _ h => by cases h) (fun _ _ h => by cases h) (fun _ _ h => by cases h)
        (fun _ _ h => by cases h) _
    · refine .member _ _ _ (fun s e h => ?_) (fun _ _ h => by cases h)
        (fun _ _ h => by cases h) (fun _ _ h => by cases h) (fun _ _ h => by cases h)
        (fun _ _ h => by cases h) (fun _ _ h => by cases h) rfl
      cases h
      exact .negRun _ _ _ (atom (fun _ _ h => by cases h) (fun _ _ h => by cases h) (fun _ _ h => by cases h)
        (fun _ _ h => by cases h) _)
  | _ =>
    exact atom (fun _ _ h => by cases h) (fun _ _ h => by cases h) (fun _ _ h => by cases h)
      (fun _ _ h => by cases h) _

theorem data_lit (l : Lit) : Data l.val := by cases l <;> rfl

/-! ## the declarative semantics -/

/-- **Substitution** (all trees).  `x` is a variable (not a type name) bound to the value of the literal `l`
    and occurs in `e` as a variable only: the tree with the literal in place of every `x` has the same value —
    a failure included. -/
theorem subst_evalSpec2 {e : Ast} {x : Str} (ho : varOnly x e = true) {l : Lit} (hl : l.InRange) {env : Env}
    (ht : env.getType x = none) (hv : env.getParam x = some l.val) :
    evalSpec B (substLit x l e) env = evalSpec B e env :=
  se_ast (constPrim_lit l hl _) e env ho (resolve_bound ht hv)

/-- `substLit` stays inside `Frag2`. -/
theorem substLit_frag2 {e : Ast} (h : Frag2 B e) {x : Str} (ho : varOnly x e = true) (l : Lit) :
    Frag2 B (substLit x l e) :=
  frag2_subst (fun sp n => lit_prim_not_ident l _ sp n) (fun sp => lit_prim_frag2 l _ sp) h ho

/-- … and keeps the nesting depth. -/
theorem substLit_depth (e : Ast) (x : Str) (l : Lit) : depth (substLit x l e) = depth e :=
  dp_ast (lit_prim_depth l _) e

/-- After `substLit x l`, the name `x` is not reported any more (all trees). -/
theorem substLit_removes2 (e : Ast) (x : Str) (l : Lit) : x ∉ params (substLit x l e) :=
  fun hx => rm_ast (SpecSubst.lit_prim_closed l _) e (C17.mem_dedup.mp hx)

/-! ## compiled programs -/

/-- **A literal for a variable is invisible** (`Frag2`: calls, macros, map literals, f-strings, index / field
    access, type patterns).  For every such expression within the depth budget in which `x` occurs as a
    variable only, every standard environment in which `x` is bound to the value of the literal `l`: the
    program compiled from the expression with the literal in place of `x` — partly or wholly constant-folded,
    calls evaluated at compile time included — gives the result of the program compiled from the expression
    with the variable. -/
theorem literal_for_variable_invisible2_partial (hB : BuiltinsOK B) {e : Ast} (h : Frag2 B e) (hd : depth e < maxDepth)
    (x : Str) (ho : varOnly x e = true) {l : Lit} (hl : l.InRange) {env : Env} (henv : StdEnv B env)
    (ht : env.getType x = none) (hv : env.getParam x = some l.val) :
    execProg B env (compileProgram B (substLit x l e)) = execProg B env (compileProgram B e) := by
  show run B env (substLit x l e) = run B env e
  rw [exec_correct2_partial hB henv (substLit_frag2 h ho l) (by rw [substLit_depth]; exact hd),
    exec_correct2_partial hB henv h hd, subst_evalSpec2 ho hl ht hv]

/-- **Variables unbound at compile time**: both programs are compiled first — `compileProgram` takes the
    built-in table and the tree, no bindings — and only then does an environment appear. -/
theorem unbound_at_compile_time2 (hB : BuiltinsOK B) {e : Ast} (h : Frag2 B e) (hd : depth e < maxDepth) (x : Str)
    (ho : varOnly x e = true) {l : Lit} (hl : l.InRange) :
    let withVariable := compileProgram B e
    let withLiteral := compileProgram B (substLit x l e)
    ∀ env : Env, StdEnv B env → env.getType x = none → env.getParam x = some l.val →
      execProg B env withLiteral = execProg B env withVariable :=
  fun _ henv ht hv => literal_for_variable_invisible2_partial hB h hd x ho hl henv ht hv

/-- **A variable for a literal is invisible** (the converse reading): running the literal form in `env` gives
    what the variable form gives in an environment that differs from `env` only in binding `y` to the
    literal's value. -/
theorem variable_for_literal_invisible2 (hB : BuiltinsOK B) {e : Ast} (h : Frag2 B e) (hd : depth e < maxDepth)
    (y : Str) (ho : varOnly y e = true) {l : Lit} (hl : l.InRange) {env env' : Env} (henv : StdEnv B env)
    (henv' : StdEnv B env') (hm : env'.compileMode = env.compileMode)
    (hdiff : DifferOnlyAt y env' env) (ht : env'.getType y = none) (hv : env'.getParam y = some l.val) :
    execProg B env' (compileProgram B e) = execProg B env (compileProgram B (substLit y l e)) := by
  rw [← literal_for_variable_invisible2_partial hB h hd y ho hl henv' ht hv]
  exact exec_agree_on_params2_partial hB henv' henv hm (substLit_frag2 h ho l) (by rw [substLit_depth]; exact hd)
    (fun n hn => hdiff n (fun hny => substLit_removes2 e y l (hny ▸ hn)))

/-- … with `bind_param`: the literal form in `env` = the variable form in `env` with `y` bound (`y` not the
    name of a built-in function or macro, not a type name). -/
theorem fresh_variable_for_literal2 (hB : BuiltinsOK B) {e : Ast} (h : Frag2 B e) (hd : depth e < maxDepth)
    (y : Str) (ho : varOnly y e = true) {l : Lit} (hl : l.InRange) {env : Env} (henv : StdEnv B env)
    (hcy : callableName B y = false) (ht : env.getType y = none) :
    execProg B (env.bind y l.val) (compileProgram B e) = execProg B env (compileProgram B (substLit y l e)) :=
  variable_for_literal_invisible2 hB h hd y ho hl henv (henv.bind hcy (data_lit l)) rfl (differ_bind env y _) ht
    (by simp [Env.getParam, Env.bind, lookup, henv.binds])

/-- Every listed variable occurs as a variable only in the tree it is substituted into. -/
def VarOnlyAll : List (Str × Lit) → Ast → Prop
  | [], _ => True
  | (x, l) :: rest, e => varOnly x e = true ∧ VarOnlyAll rest (substLit x l e)

/-- **Any number of variables**, one after the other. -/
theorem literals_for_variables_invisible2 (hB : BuiltinsOK B) {e : Ast} (h : Frag2 B e) (hd : depth e < maxDepth)
    {env : Env} (henv : StdEnv B env) (xs : List (Str × Lit)) (ho : VarOnlyAll xs e) (hxs : BoundTo env xs) :
    execProg B env (compileProgram B (substLits xs e)) = execProg B env (compileProgram B e) := by
  induction xs generalizing e with
  | nil => rfl
  | cons p rest ih =>
    obtain ⟨x, l⟩ := p
    obtain ⟨hl, ht, hv⟩ := hxs (x, l) (List.mem_cons_self ..)
    show execProg B env (compileProgram B (substLits rest (substLit x l e))) = _
    rw [ih (substLit_frag2 h ho.1 l) (by rw [substLit_depth]; exact hd) ho.2
      (fun q hq => hxs q (List.mem_cons_of_mem _ hq))]
    exact literal_for_variable_invisible2_partial hB h hd x ho.1 hl henv ht hv

/-! ## non-vacuity

Over the demonstration table `demoB` (`size` as function and method).
`ex2` is `size([x, 1]) + {"a": y}.a` (`Theorems/C17Sem2.lean`), `envP` binds `x = 5`, `y = 3u`.
With `5` for `x` the call `size([5, 1])` is evaluated *by the compiler* (`check_for_const`: a closed call),
with `3u` for `y` the map literal and the field access are folded: the program is the single constant `5u`. -/

def l5 : Lit := .int 5
def l3u : Lit := .uint 3

theorem boundP_x : envP.getType "x".toList = none ∧ envP.getParam "x".toList = some l5.val := ⟨rfl, rfl⟩
theorem boundP_y : envP.getType "y".toList = none ∧ envP.getParam "y".toList = some l3u.val := ⟨rfl, rfl⟩

-- the call with the literal is folded at compile time, the call with the variable is code
example : compileProgram demoB (substLit "x".toList l5 exCall) = [.push (.uint 2)] := by rfl
example : compileProgram demoB exCall =
    [.push (.code [.push (.ident "x".toList), .push (.int 1), .mkList 2]), .push (.ident "size".toList), .call 1] := by
  rfl
example : compileProgram demoB (substLits [("x".toList, l5), ("y".toList, l3u)] ex2) = [.push (.uint 5)] := by rfl
-- … with one result
example : evalSpec demoB (substLit "x".toList l5 ex2) envP = evalSpec demoB ex2 envP :=
  subst_evalSpec2 (by decide) (inRange_small 5) boundP_x.1 boundP_x.2
example : execProg demoB envP (compileProgram demoB (substLit "x".toList l5 ex2)) =
    execProg demoB envP (compileProgram demoB ex2) :=
  literal_for_variable_invisible2_partial demoB_ok ex2_frag (by decide) _ (by decide) (inRange_small 5) stdP
    boundP_x.1 boundP_x.2
example : execProg demoB envP (compileProgram demoB (substLit "x".toList l5 ex2)) =
    execProg demoB envP (compileProgram demoB ex2) :=
  unbound_at_compile_time2 demoB_ok ex2_frag (by decide) _ (by decide) (inRange_small 5) envP stdP
    boundP_x.1 boundP_x.2
example : execProg demoB envP (compileProgram demoB (substLits [("x".toList, l5), ("y".toList, l3u)] ex2)) =
    execProg demoB envP (compileProgram demoB ex2) :=
  literals_for_variables_invisible2 demoB_ok ex2_frag (by decide) stdP _ ⟨by decide, by decide, trivial⟩ (by
    intro p hp
    simp only [List.mem_cons, List.mem_nil_iff, or_false] at hp
    rcases hp with rfl | rfl
    · exact ⟨inRange_small 5, boundP_x⟩
    · exact ⟨trivial, boundP_y⟩)
example : evalSpec demoB ex2 envP = .uint 5 := by rfl
-- variable_for_literal_invisible2 / fresh_variable_for_literal2: `size([5, 1]) + {"a": y}.a` in envY2 (no `x`)
def envY2 : Env := { params := [("y".toList, .uint 3)] }
theorem stdY2 : StdEnv demoB envY2 := std_of_params _ (by decide) (by decide)
example : execProg demoB (envY2.bind "x".toList l5.val) (compileProgram demoB ex2) =
    execProg demoB envY2 (compileProgram demoB (substLit "x".toList l5 ex2)) :=
  fresh_variable_for_literal2 demoB_ok ex2_frag (by decide) _ (by decide) (inRange_small 5) stdY2 (by decide) rfl

/-! ### macros: a literal in the body, under the loop variable

`[1, 2].all(v, v < x)` with `x = 5`: `x` occurs in the macro body, the loop variable is `v`. -/

def exAll : Ast :=
  .member sp0 (.list sp0 [lit 1, lit 2])
    [.access sp0 sp0 "all".toList, .call sp0 [.bin sp0 .lt (var "v") (var "x"), var "v"]]

theorem exAll_frag : Frag2 demoB exAll := by
  refine .member _ _ _ (fun _ _ h => by cases h) ?_ (fun _ _ h => by cases h) (fun _ _ h => by cases h)
    (fun _ _ h => by cases h) ?_ ?_ (by decide)
  · intro sp' es h e he
    cases h
    simp only [List.mem_cons, List.mem_nil_iff, or_false] at he
    rcases he with rfl | rfl <;> exact frag_lit _
  · intro sp' args hm a ha
    simp only [List.mem_cons, List.mem_nil_iff, or_false, MOp.call.injEq, reduceCtorEq, false_or] at hm
    obtain ⟨_, rfl⟩ := hm
    simp only [List.mem_cons, List.mem_nil_iff, or_false] at ha
    rcases ha with rfl | rfl
    · exact .bin _ _ _ _ (frag_var _) (frag_var _)
    · exact frag_var _
  · intro sp' e hm; simp at hm

example : varOnly "x".toList exAll = true := by decide
example : evalSpec demoB exAll envP = .bool true := by rfl
example : execProg demoB envP (compileProgram demoB (substLit "x".toList l5 exAll)) =
    execProg demoB envP (compileProgram demoB exAll) :=
  literal_for_variable_invisible2_partial demoB_ok exAll_frag (by decide) _ (by decide) (inRange_small 5) stdP
    boundP_x.1 boundP_x.2

/-- **The restriction `varOnly` is needed**: in `[1, 2].all(x, x < 5)` the identifier `x` is the loop variable.
    With `x = 5` bound outside, the macro yields `true` (the binding is shadowed); the textual substitution
    gives `[1, 2].all(5, 5 < 5)`, which is no macro call the semantics defines. -/
def exShadow : Ast :=
  .member sp0 (.list sp0 [lit 1, lit 2])
    [.access sp0 sp0 "all".toList, .call sp0 [.bin sp0 .lt (var "x") (lit 5), var "x"]]

theorem loop_variable_is_not_a_variable :
    varOnly "x".toList exShadow = false ∧
    evalSpec demoB exShadow envP = .bool true ∧
    evalSpec demoB (substLit "x".toList l5 exShadow) envP = notCovered := ⟨by decide, rfl, rfl⟩

end C09Sem2
end Rscel
