import RscelModel.Model.Order
import RscelModel.Lemmas.StrOrder
import RscelModel.Lemmas.Sort
/-
C04 — equality and ordering obey their algebraic laws; sort/min/max agree with them.
-/
namespace Rscel
namespace C04

/-! ### `!=` is the complement of `==` -/

theorem ne_complement (l r : Val) (b : Bool) (h : valEq l r = .bool b) : valNe l r = .bool (!b) := by
  cases l <;> cases r <;> simp_all [valNe, errProp, valEq]

theorem ne_fails_iff_eq_fails (l r : Val) (k : ErrKind) (h : valEq l r = .err k) :
    (valNe l r).isErr = true := by
  cases l <;> cases r <;> simp_all [valNe, errProp, valEq, Val.isErr]

/-! ### Reflexivity on values without NaN -/

/- A value a program can hold that contains no NaN, error, unresolved identifier or code block. -/
mutual
def Plain : Val → Bool
  | .int _ | .uint _ | .bool _ | .str _ | .bytes _ | .null | .type _ | .ts _ | .dur _ => true
  | .float b => !F.isNaN b
  | .list l => PlainList l
  | .map m => PlainMap m
  | .ident _ | .code _ | .err _ => false
def PlainList : List Val → Bool
  | [] => true
  | x :: xs => Plain x && PlainList xs
def PlainMap : List (Str × Val) → Bool
  | [] => true
  | (_, x) :: xs => Plain x && PlainMap xs
end

theorem F_eq_refl (b : UInt64) (h : F.isNaN b = false) : F.eq b b = true := by
  simp [F.eq, h]

mutual
theorem eq_refl : ∀ v, Plain v = true → valEq v v = .bool true
  | .int _, _ => by simp [valEq, eqScalar, widen]
  | .uint _, _ => by simp [valEq, eqScalar, widen]
  | .bool _, _ => by simp [valEq, eqScalar, widen]
  | .str _, _ => by simp [valEq, eqScalar, widen]
  | .bytes _, _ => by simp [valEq, eqScalar, widen]
  | .null, _ => by simp [valEq, eqScalar, widen]
  | .type _, _ => by simp [valEq, eqScalar, widen]
  | .ts _, _ => by simp [valEq, eqScalar, widen]
  | .dur _, _ => by simp [valEq, eqScalar, widen]
  | .float b, h => by
    simp [Plain] at h
    simp [valEq, eqScalar, widen, F_eq_refl b h]
  | .list l, h => by
    simp only [Plain] at h
    simp [valEq, eqList_refl l h]
  | .map m, h => by
    simp only [Plain] at h
    simp [valEq, eqMap_refl m h]
  | .ident _, h => by simp [Plain] at h
  | .code _, h => by simp [Plain] at h
  | .err _, h => by simp [Plain] at h
theorem eqList_refl : ∀ l, PlainList l = true → eqList l l = .bool true
  | [], _ => by simp [eqList]
  | x :: xs, h => by
    simp only [PlainList, Bool.and_eq_true] at h
    simp [eqList, eq_refl x h.1, eqList_refl xs h.2]
theorem eqMap_refl : ∀ m, PlainMap m = true → eqMap m m = true
  | [], _ => by simp [eqMap]
  | (k, x) :: xs, h => by
    simp only [PlainMap, Bool.and_eq_true] at h
    simp [eqMap, eq_refl x h.1, eqMap_refl xs h.2]
end

/-- NaN is the reason for the side condition. -/
theorem nan_not_refl : valEq (.float F.canonNaN) (.float F.canonNaN) = .bool false := by rfl

/-! ### int / uint / double meet by value -/

theorem eq_int_uint (a : Int) (b : Nat) (ha : inI64 a = true) :
    valEq (.int a) (.uint b) = .bool (decide (a = (b : Int))) ∧
    valEq (.uint b) (.int a) = .bool (decide (a = (b : Int))) := by
  have ha' := (inI64_iff a).mp ha
  by_cases h : (b : Int) ≤ i64Max
  · simp [valEq, eqScalar, widen, h, eq_comm]
  · have hne : a ≠ (b : Int) := by simp [i64Max] at h; omega
    simp [valEq, eqScalar, widen, h, hne]

/-- An integer meets a double as its nearest double (`F.ofInt` / `F.ofNat`). -/
theorem eq_int_float (a : Int) (n : Nat) (d : UInt64) :
    valEq (.int a) (.float d) = .bool (F.eq (F.ofInt a) d) ∧
    valEq (.float d) (.int a) = .bool (F.eq d (F.ofInt a)) ∧
    valEq (.uint n) (.float d) = .bool (F.eq (F.ofNat n) d) ∧
    valEq (.float d) (.uint n) = .bool (F.eq d (F.ofNat n)) := ⟨rfl, rfl, rfl, rfl⟩

/-! ### One consistent order -/

/-- Integer-valued operands (int, uint, bool) inside their machine range, and the integer denoted. -/
inductive ZVal : Val → Int → Prop
  | int (i : Int) (h : inI64 i = true) : ZVal (.int i) i
  | uint (n : Nat) : ZVal (.uint n) n
  | bool (b : Bool) : ZVal (.bool b) (b01 b)

theorem b01n_cast (b : Bool) : ((b01n b : Nat) : Int) = b01 b := by cases b <;> rfl

theorem cmpInt_eq_iff (a b : Int) : cmpInt a b = .eq ↔ a = b := by
  unfold cmpInt
  by_cases h1 : a < b
  · simp [h1]; omega
  · by_cases h2 : a = b <;> simp [h1, h2]
theorem cmpInt_lt_iff (a b : Int) : cmpInt a b = .lt ↔ a < b := by
  unfold cmpInt
  by_cases h1 : a < b
  · simp [h1]
  · by_cases h2 : a = b <;> simp [h1, h2]
theorem cmpInt_gt_iff (a b : Int) : cmpInt a b = .gt ↔ b < a := by
  unfold cmpInt
  by_cases h1 : a < b
  · simp [h1]; omega
  · by_cases h2 : a = b <;> simp [h1, h2] <;> omega
theorem cmpBy_lt_iff {α} (lt : α → α → Bool) (a b : α) : cmpBy lt a b = .lt ↔ lt a b = true := by
  unfold cmpBy
  by_cases h1 : lt a b = true
  · simp [h1]
  · by_cases h2 : lt b a = true <;> simp [h1, h2]
theorem cmpBy_gt_iff {α} (lt : α → α → Bool) (a b : α) (asym : lt a b = true → lt b a = false) :
    cmpBy lt a b = .gt ↔ lt b a = true := by
  unfold cmpBy
  by_cases h1 : lt a b = true
  · simp [h1, asym h1]
  · by_cases h2 : lt b a = true <;> simp [h1, h2]

/-- int and uint (and bool) are ordered jointly by the integers they denote. -/
theorem ord_int_joint {x y : Val} {a b : Int} (hx : ZVal x a) (hy : ZVal y b) :
    ord x y = .ok (some (cmpInt a b)) := by
  rcases hx with ⟨i, hi⟩ | ⟨n⟩ | ⟨p⟩ <;> rcases hy with ⟨j, hj⟩ | ⟨m⟩ | ⟨q⟩
  · rfl
  · by_cases h : (m : Int) ≤ i64Max <;> simp [ord, widen, h]
  · rfl
  · by_cases h : (n : Int) ≤ i64Max <;> simp [ord, widen, h]
  · rfl
  · simp only [ord, widen]; rw [b01n_cast]
  · rfl
  · simp only [ord, widen]; rw [b01n_cast]
  · rfl

/-- The four relations are read off one three-way comparison. -/
theorem rel_of_ord (op : RelOp) (l r : Val) (o : Option Ordering3) (hl : l.isErr = false)
    (hr : r.isErr = false) (h : ord l r = .ok o) : rel op l r = .bool (op.holds o) := by
  cases l <;> cases r <;> simp_all [rel, errProp, Val.isErr]

theorem holds_lt (o : Ordering3) : RelOp.lt.holds (some o) = decide (o = .lt) := by cases o <;> rfl
theorem holds_gt (o : Ordering3) : RelOp.gt.holds (some o) = decide (o = .gt) := by cases o <;> rfl
theorem holds_le (o : Ordering3) : RelOp.le.holds (some o) = !decide (o = .gt) := by cases o <;> rfl
theorem holds_ge (o : Ordering3) : RelOp.ge.holds (some o) = !decide (o = .lt) := by cases o <;> rfl

/-- **int ∪ uint ∪ bool**: all six comparison operators are the corresponding relations on the integers
    denoted.  Hence one strict total order (trichotomy, transitivity, `<=`/`>=` as unions, `!=` as
    complement) — inherited from ℤ. -/
theorem int_joint_order {x y : Val} {a b : Int} (hx : ZVal x a) (hy : ZVal y b) :
    rel .lt x y = .bool (decide (a < b)) ∧ rel .le x y = .bool (decide (a ≤ b)) ∧
    rel .gt x y = .bool (decide (b < a)) ∧ rel .ge x y = .bool (decide (b ≤ a)) ∧
    valEq x y = .bool (decide (a = b)) ∧ valNe x y = .bool (decide (a ≠ b)) := by
  have ex : x.isErr = false := by cases hx <;> rfl
  have ey : y.isErr = false := by cases hy <;> rfl
  have ho := ord_int_joint hx hy
  have heq : valEq x y = .bool (decide (a = b)) := by
    rcases hx with ⟨i, hi⟩ | ⟨n⟩ | ⟨p⟩ <;> rcases hy with ⟨j, hj⟩ | ⟨m⟩ | ⟨q⟩
    · simp [valEq, eqScalar, widen]
    · exact (eq_int_uint _ m hi).1
    · simp [valEq, eqScalar, widen]
    · rw [(eq_int_uint _ n hj).2]; simp [eq_comm]
    · simp [valEq, eqScalar, widen]; omega
    · simp [valEq, eqScalar, widen, ← b01n_cast]; omega
    · simp [valEq, eqScalar, widen]
    · simp [valEq, eqScalar, widen, ← b01n_cast]; omega
    · cases p <;> cases q <;> simp [valEq, eqScalar, widen, b01]
  refine ⟨?_, ?_, ?_, ?_, heq, ?_⟩
  · rw [rel_of_ord .lt x y _ ex ey ho, holds_lt]; simp [cmpInt_lt_iff]
  · rw [rel_of_ord .le x y _ ex ey ho, holds_le]
    by_cases h : b < a <;> simp [cmpInt_gt_iff, h] <;> omega
  · rw [rel_of_ord .gt x y _ ex ey ho, holds_gt]; simp [cmpInt_gt_iff]
  · rw [rel_of_ord .ge x y _ ex ey ho, holds_ge]
    by_cases h : a < b <;> simp [cmpInt_lt_iff, h] <;> omega
  · rw [ne_complement x y _ heq]; by_cases e : a = b <;> simp [e]

/-- **double without NaN**: the operators are the integer relations on the order keys (sign-magnitude
    reading of the bit pattern, `-0` and `+0` identified). -/
theorem float_order (a b : UInt64) (ha : F.isNaN a = false) (hb : F.isNaN b = false) :
    rel .lt (.float a) (.float b) = .bool (decide (F.key a < F.key b)) ∧
    rel .le (.float a) (.float b) = .bool (decide (F.key a ≤ F.key b)) ∧
    rel .gt (.float a) (.float b) = .bool (decide (F.key b < F.key a)) ∧
    rel .ge (.float a) (.float b) = .bool (decide (F.key b ≤ F.key a)) ∧
    valEq (.float a) (.float b) = .bool (decide (F.key a = F.key b)) := by
  have ho : ord (.float a) (.float b) = .ok (some (cmpInt (F.key a) (F.key b))) := by
    simp [ord, widen, ha, hb]
  refine ⟨?_, ?_, ?_, ?_, ?_⟩
  · rw [rel_of_ord .lt _ _ _ rfl rfl ho, holds_lt]; simp [cmpInt_lt_iff]
  · rw [rel_of_ord .le _ _ _ rfl rfl ho, holds_le]
    by_cases h : F.key b < F.key a <;> simp [cmpInt_gt_iff, h] <;> omega
  · rw [rel_of_ord .gt _ _ _ rfl rfl ho, holds_gt]; simp [cmpInt_gt_iff]
  · rw [rel_of_ord .ge _ _ _ rfl rfl ho, holds_ge]
    by_cases h : F.key a < F.key b <;> simp [cmpInt_lt_iff, h] <;> omega
  · by_cases e : F.key a = F.key b <;> simp [valEq, eqScalar, widen, F.eq, ha, hb, e]

/-- NaN is unordered and unequal: every relation and `==` is false. -/
theorem nan_unordered (op : RelOp) (a b : UInt64) (h : F.isNaN a = true ∨ F.isNaN b = true) :
    rel op (.float a) (.float b) = .bool false ∧ valEq (.float a) (.float b) = .bool false := by
  have ho : ord (.float a) (.float b) = .ok none := by
    rcases h with h | h <;> simp [ord, widen, h]
  constructor
  · rw [rel_of_ord op _ _ _ rfl rfl ho]; cases op <;> rfl
  · rcases h with h | h <;> simp [valEq, eqScalar, widen, F.eq, h]

/-- **string**: lexicographic by code point (`strLt`, a strict total order: `strLt_irrefl`,
    `strLt_trans`, `strLt_total`). -/
theorem string_order (a b : Str) :
    rel .lt (.str a) (.str b) = .bool (strLt a b) ∧ rel .le (.str a) (.str b) = .bool (!strLt b a) ∧
    rel .gt (.str a) (.str b) = .bool (strLt b a) ∧ rel .ge (.str a) (.str b) = .bool (!strLt a b) ∧
    valEq (.str a) (.str b) = .bool (decide (a = b)) := by
  have ho : ord (.str a) (.str b) = .ok (some (cmpBy strLt a b)) := rfl
  refine ⟨?_, ?_, ?_, ?_, ?_⟩
  · rw [rel_of_ord .lt _ _ _ rfl rfl ho, holds_lt]
    by_cases h : strLt a b = true <;> simp [cmpBy_lt_iff, h]
  · rw [rel_of_ord .le _ _ _ rfl rfl ho, holds_le]
    by_cases h : strLt b a = true <;> simp [cmpBy_gt_iff strLt a b (strLt_asymm a b), h]
  · rw [rel_of_ord .gt _ _ _ rfl rfl ho, holds_gt]
    by_cases h : strLt b a = true <;> simp [cmpBy_gt_iff strLt a b (strLt_asymm a b), h]
  · rw [rel_of_ord .ge _ _ _ rfl rfl ho, holds_ge]
    by_cases h : strLt a b = true <;> simp [cmpBy_lt_iff, h]
  · simp [valEq, eqScalar, widen]

theorem bytes_order (a b : List UInt8) :
    rel .lt (.bytes a) (.bytes b) = .bool (bytesLt a b) ∧ rel .le (.bytes a) (.bytes b) = .bool (!bytesLt b a) ∧
    rel .gt (.bytes a) (.bytes b) = .bool (bytesLt b a) ∧ rel .ge (.bytes a) (.bytes b) = .bool (!bytesLt a b) ∧
    valEq (.bytes a) (.bytes b) = .bool (decide (a = b)) := by
  have ho : ord (.bytes a) (.bytes b) = .ok (some (cmpBy bytesLt a b)) := rfl
  refine ⟨?_, ?_, ?_, ?_, ?_⟩
  · rw [rel_of_ord .lt _ _ _ rfl rfl ho, holds_lt]
    by_cases h : bytesLt a b = true <;> simp [cmpBy_lt_iff, h]
  · rw [rel_of_ord .le _ _ _ rfl rfl ho, holds_le]
    by_cases h : bytesLt b a = true <;> simp [cmpBy_gt_iff bytesLt a b (bytesLt_asymm a b), h]
  · rw [rel_of_ord .gt _ _ _ rfl rfl ho, holds_gt]
    by_cases h : bytesLt b a = true <;> simp [cmpBy_gt_iff bytesLt a b (bytesLt_asymm a b), h]
  · rw [rel_of_ord .ge _ _ _ rfl rfl ho, holds_ge]
    by_cases h : bytesLt a b = true <;> simp [cmpBy_lt_iff, h]
  · simp [valEq, eqScalar, widen]

/-- **timestamp, duration**: chronological = integer order on nanoseconds. -/
theorem time_order (a b : Int) :
    rel .lt (.ts a) (.ts b) = .bool (decide (a < b)) ∧ rel .le (.ts a) (.ts b) = .bool (decide (a ≤ b)) ∧
    rel .gt (.ts a) (.ts b) = .bool (decide (b < a)) ∧ rel .ge (.ts a) (.ts b) = .bool (decide (b ≤ a)) ∧
    valEq (.ts a) (.ts b) = .bool (decide (a = b)) ∧
    rel .lt (.dur a) (.dur b) = .bool (decide (a < b)) ∧ rel .le (.dur a) (.dur b) = .bool (decide (a ≤ b)) ∧
    rel .gt (.dur a) (.dur b) = .bool (decide (b < a)) ∧ rel .ge (.dur a) (.dur b) = .bool (decide (b ≤ a)) ∧
    valEq (.dur a) (.dur b) = .bool (decide (a = b)) := by
  have ho : ord (.ts a) (.ts b) = .ok (some (cmpInt a b)) := rfl
  have ho' : ord (.dur a) (.dur b) = .ok (some (cmpInt a b)) := rfl
  have l1 : RelOp.le.holds (some (cmpInt a b)) = decide (a ≤ b) := by
    rw [holds_le]; by_cases h : b < a <;> simp [cmpInt_gt_iff, h] <;> omega
  have l2 : RelOp.ge.holds (some (cmpInt a b)) = decide (b ≤ a) := by
    rw [holds_ge]; by_cases h : a < b <;> simp [cmpInt_lt_iff, h] <;> omega
  refine ⟨?_, ?_, ?_, ?_, ?_, ?_, ?_, ?_, ?_, ?_⟩
  · rw [rel_of_ord .lt _ _ _ rfl rfl ho, holds_lt]; simp [cmpInt_lt_iff]
  · rw [rel_of_ord .le _ _ _ rfl rfl ho, l1]
  · rw [rel_of_ord .gt _ _ _ rfl rfl ho, holds_gt]; simp [cmpInt_gt_iff]
  · rw [rel_of_ord .ge _ _ _ rfl rfl ho, l2]
  · simp [valEq, eqScalar, widen]
  · rw [rel_of_ord .lt _ _ _ rfl rfl ho', holds_lt]; simp [cmpInt_lt_iff]
  · rw [rel_of_ord .le _ _ _ rfl rfl ho', l1]
  · rw [rel_of_ord .gt _ _ _ rfl rfl ho', holds_gt]; simp [cmpInt_gt_iff]
  · rw [rel_of_ord .ge _ _ _ rfl rfl ho', l2]
  · simp [valEq, eqScalar, widen]

/-- Comparable type pairs. -/
def comparable : Val → Val → Bool
  | .int _, .int _ | .int _, .uint _ | .int _, .float _ | .int _, .bool _
  | .uint _, .int _ | .uint _, .uint _ | .uint _, .float _ | .uint _, .bool _
  | .float _, .int _ | .float _, .uint _ | .float _, .float _ | .float _, .bool _
  | .bool _, .int _ | .bool _, .uint _ | .bool _, .float _ | .bool _, .bool _
  | .str _, .str _ | .bytes _, .bytes _ | .ts _, .ts _ | .dur _, .dur _ => true
  | _, _ => false

/-- Comparing values of unrelated types is an error. -/
theorem rel_unrelated (op : RelOp) (l r : Val) (hl : l.isErr = false) (hr : r.isErr = false)
    (h : comparable l r = false) : rel op l r = .err .invalidOp := by
  cases l <;> cases r <;> simp_all [comparable, rel, errProp, Val.isErr, ord, widen]

/-- Trichotomy, stated once for every comparable NaN-free pair: exactly one of `<`, `>` or neither holds,
    and `<=`, `>=` are the complements of `>`, `<`. -/
theorem trichotomy (l r : Val) (o : Ordering3) (hl : l.isErr = false) (hr : r.isErr = false)
    (h : ord l r = .ok (some o)) :
    (rel .lt l r = .bool true ∧ rel .gt l r = .bool false ∧ o = .lt) ∨
    (rel .lt l r = .bool false ∧ rel .gt l r = .bool false ∧ o = .eq) ∨
    (rel .lt l r = .bool false ∧ rel .gt l r = .bool true ∧ o = .gt) := by
  rw [rel_of_ord .lt l r _ hl hr h, rel_of_ord .gt l r _ hl hr h]
  cases o <;> simp [RelOp.holds]

theorem le_ge_unions (l r : Val) (o : Ordering3) (hl : l.isErr = false) (hr : r.isErr = false)
    (h : ord l r = .ok (some o)) :
    rel .le l r = .bool (decide (o = .lt ∨ o = .eq)) ∧ rel .ge l r = .bool (decide (o = .gt ∨ o = .eq)) := by
  rw [rel_of_ord .le l r _ hl hr h, rel_of_ord .ge l r _ hl hr h]
  cases o <;> simp [RelOp.holds]

/-! ### sort / min / max -/

theorem cmpInt_total (a b : Int) : ∃ o, cmpInt a b = o := ⟨_, rfl⟩

/-- The order facts `OrdOK` needs, for any class whose `ord` is `cmpInt` of an integer key. -/
theorem ordOK_of_key (S : Val → Prop) (key : Val → Int)
    (h : ∀ a b, S a → S b → ord a b = .ok (some (cmpInt (key a) (key b)))) : OrdOK S where
  total a b ha hb := ⟨_, h a b ha hb⟩
  conv a b ha hb hab := by
    rw [h a b ha hb] at hab
    have : key b < key a := (cmpInt_gt_iff _ _).mp (by simpa using hab)
    left; rw [h b a hb ha]; simp; exact (cmpInt_lt_iff _ _).mpr this
  trans a b c ha hb hc hab hbc := by
    unfold OLe at *
    rw [h a b ha hb] at hab; rw [h b c hb hc] at hbc; rw [h a c ha hc]
    have h1 : key a ≤ key b := by
      rcases hab with hab | hab
      · have := (cmpInt_lt_iff _ _).mp (by simpa using hab); omega
      · have := (cmpInt_eq_iff _ _).mp (by simpa using hab); omega
    have h2 : key b ≤ key c := by
      rcases hbc with hbc | hbc
      · have := (cmpInt_lt_iff _ _).mp (by simpa using hbc); omega
      · have := (cmpInt_eq_iff _ _).mp (by simpa using hbc); omega
    by_cases e : key a = key c
    · right; simp; exact (cmpInt_eq_iff _ _).mpr e
    · left; simp; exact (cmpInt_lt_iff _ _).mpr (by omega)

def zKey : Val → Int
  | .int i => i | .uint n => n | .bool b => b01 b | _ => 0

theorem zKey_of {v : Val} {a : Int} (h : ZVal v a) : zKey v = a := by cases h <;> rfl

/-- int ∪ uint ∪ bool lists are totally preordered by `ord`. -/
theorem ordOK_int : OrdOK (fun v => ∃ a, ZVal v a) :=
  ordOK_of_key _ zKey (by
    rintro a b ⟨x, hx⟩ ⟨y, hy⟩
    rw [ord_int_joint hx hy, zKey_of hx, zKey_of hy])

def fKey : Val → Int
  | .float b => F.key b | _ => 0

theorem ordOK_float : OrdOK (fun v => ∃ b, v = .float b ∧ F.isNaN b = false) :=
  ordOK_of_key _ fKey (by
    rintro a b ⟨x, rfl, hx⟩ ⟨y, rfl, hy⟩
    simp [ord, widen, hx, hy, fKey])

def tKey : Val → Int
  | .ts n => n | .dur n => n | _ => 0

theorem ordOK_ts : OrdOK (fun v => ∃ n, v = .ts n) :=
  ordOK_of_key _ tKey (by rintro a b ⟨x, rfl⟩ ⟨y, rfl⟩; rfl)

theorem ordOK_dur : OrdOK (fun v => ∃ n, v = .dur n) :=
  ordOK_of_key _ tKey (by rintro a b ⟨x, rfl⟩ ⟨y, rfl⟩; rfl)

theorem ordOK_str : OrdOK (fun v => ∃ s, v = .str s) where
  total := by rintro a b ⟨x, rfl⟩ ⟨y, rfl⟩; exact ⟨_, rfl⟩
  conv := by
    rintro a b ⟨x, rfl⟩ ⟨y, rfl⟩ h
    have h' : cmpBy strLt x y = .gt := by simpa [ord, widen] using h
    have := (cmpBy_gt_iff strLt x y (strLt_asymm x y)).mp h'
    left; show ord (.str y) (.str x) = _
    simp [ord, widen]; exact (cmpBy_lt_iff strLt y x).mpr this
  trans := by
    rintro a b c ⟨x, rfl⟩ ⟨y, rfl⟩ ⟨z, rfl⟩ hab hbc
    unfold OLe at *
    simp only [ord, widen, OrdRes.ok.injEq, Option.some.injEq] at *
    have nle : ∀ p q : Str, (cmpBy strLt p q = .lt ∨ cmpBy strLt p q = .eq) → strLt q p = false := by
      intro p q h
      cases hq : strLt q p
      · rfl
      · have := (cmpBy_gt_iff strLt p q (strLt_asymm p q)).mpr hq
        rcases h with h | h <;> rw [this] at h <;> cases h
    have h1 := nle x y hab
    have h2 := nle y z hbc
    have h3 : strLt z x = false := by
      cases hzx : strLt z x
      · rfl
      · rcases strLt_total x y with h | h | h
        · have := strLt_trans z x y hzx h; simp [this] at h2
        · subst h; simp [hzx] at h2
        · simp [h] at h1
    unfold cmpBy
    by_cases hxz : strLt x z = true
    · simp [hxz]
    · simp [hxz, h3]

theorem ordOK_bytes : OrdOK (fun v => ∃ s, v = .bytes s) where
  total := by rintro a b ⟨x, rfl⟩ ⟨y, rfl⟩; exact ⟨_, rfl⟩
  conv := by
    rintro a b ⟨x, rfl⟩ ⟨y, rfl⟩ h
    have h' : cmpBy bytesLt x y = .gt := by simpa [ord, widen] using h
    have := (cmpBy_gt_iff bytesLt x y (bytesLt_asymm x y)).mp h'
    left; show ord (.bytes y) (.bytes x) = _
    simp [ord, widen]; exact (cmpBy_lt_iff bytesLt y x).mpr this
  trans := by
    rintro a b c ⟨x, rfl⟩ ⟨y, rfl⟩ ⟨z, rfl⟩ hab hbc
    unfold OLe at *
    simp only [ord, widen, OrdRes.ok.injEq, Option.some.injEq] at *
    have nle : ∀ p q : List UInt8, (cmpBy bytesLt p q = .lt ∨ cmpBy bytesLt p q = .eq) → bytesLt q p = false := by
      intro p q h
      cases hq : bytesLt q p
      · rfl
      · have := (cmpBy_gt_iff bytesLt p q (bytesLt_asymm p q)).mpr hq
        rcases h with h | h <;> rw [this] at h <;> cases h
    have h1 := nle x y hab
    have h2 := nle y z hbc
    have h3 : bytesLt z x = false := by
      cases hzx : bytesLt z x
      · rfl
      · rcases bytesLt_total x y with h | h | h
        · have := bytesLt_trans z x y hzx h; simp [this] at h2
        · subst h; simp [hzx] at h2
        · simp [h] at h1
    unfold cmpBy
    by_cases hxz : bytesLt x z = true
    · simp [hxz]
    · simp [hxz, h3]

/-- **`sort` on int/uint (jointly), NaN-free doubles, strings, bytes, timestamps, durations** returns an
    ordered permutation (`OLe x y`: `ord x y` is `<` or `=`). -/
theorem sort_ordered_permutation (l : List Val)
    (h : (∀ x ∈ l, ∃ a, ZVal x a) ∨ (∀ x ∈ l, ∃ b, x = .float b ∧ F.isNaN b = false) ∨
         (∀ x ∈ l, ∃ s, x = .str s) ∨ (∀ x ∈ l, ∃ s, x = .bytes s) ∨
         (∀ x ∈ l, ∃ n, x = .ts n) ∨ (∀ x ∈ l, ∃ n, x = .dur n)) :
    ∃ out, sortList l = .list out ∧ out.Perm l ∧ out.Pairwise OLe := by
  rcases h with h | h | h | h | h | h
  · exact sortList_spec ordOK_int l h
  · exact sortList_spec ordOK_float l h
  · exact sortList_spec ordOK_str l h
  · exact sortList_spec ordOK_bytes l h
  · exact sortList_spec ordOK_ts l h
  · exact sortList_spec ordOK_dur l h

/-- Non-vacuity / boundary instances. -/
example : valEq (.uint 18446744073709551615) (.int (-1)) = .bool false := by rfl
example : rel .lt (.int 5) (.uint 9223372036854775808) = .bool true := by rfl
example : rel .gt (.uint 18446744073709551615) (.int (-1)) = .bool true := by rfl
example : rel .lt (.str "a".toList) (.int 1) = .err .invalidOp := by rfl
example : valNe (.list [.err .divZero]) (.list [.int 1]) = .err .divZero := by rfl

/-! ### `==` is symmetric on failure-free values -/

mutual
def NoErr : Val → Bool
  | .err _ => false
  | .list l => NoErrList l
  | .map m => NoErrMap m
  | _ => true
def NoErrList : List Val → Bool
  | [] => true
  | x :: xs => NoErr x && NoErrList xs
def NoErrMap : List (Str × Val) → Bool
  | [] => true
  | (_, x) :: xs => NoErr x && NoErrMap xs
end

theorem F_eq_comm (a b : UInt64) : F.eq a b = F.eq b a := by
  simp only [F.eq]
  rw [Bool.and_comm (!F.isNaN a) (!F.isNaN b)]
  congr 1
  exact decide_eq_decide.mpr eq_comm

theorem eqScalar_comm (l r : Val) : eqScalar l r = eqScalar r l := by
  cases l <;> cases r
  case int.uint i n => by_cases h : (n : Int) ≤ i64Max <;> simp [eqScalar, widen, h, eq_comm]
  case uint.int n i => by_cases h : (n : Int) ≤ i64Max <;> simp [eqScalar, widen, h, eq_comm]
  all_goals simp [eqScalar, widen, F_eq_comm, eq_comm]

theorem eqScalar_noErr (l r : Val) : ∃ b, eqScalar l r = .bool b := by
  unfold eqScalar; split <;> exact ⟨_, rfl⟩

mutual
theorem eq_symm (a b : Val) (ha : NoErr a = true) (hb : NoErr b = true) : valEq a b = valEq b a := by
  cases a <;> cases b
  case list.list a b =>
    simp only [NoErr] at ha hb
    by_cases h : a.length = b.length
    · simp [valEq, h, eqList_symm a b ha hb]
    · have h' : ¬ b.length = a.length := fun e => h e.symm
      simp [valEq, h, h']
  case map.map a b =>
    simp only [NoErr] at ha hb
    simp [valEq, eqMap_symm a b ha hb]
  all_goals first
    | (simp [NoErr] at ha; done)
    | (simp [NoErr] at hb; done)
    | simp [valEq, eqScalar_comm]
theorem eqList_symm : ∀ a b, NoErrList a = true → NoErrList b = true → eqList a b = eqList b a
  | x :: xs, y :: ys, ha, hb => by
    simp only [NoErrList, Bool.and_eq_true] at ha hb
    simp only [eqList, eq_symm x y ha.1 hb.1, eqList_symm xs ys ha.2 hb.2]
  | [], _, _, _ => by cases ‹List Val› <;> simp [eqList]
  | _ :: _, [], _, _ => by simp [eqList]
theorem eqMap_symm : ∀ a b, NoErrMap a = true → NoErrMap b = true → eqMap a b = eqMap b a
  | [], [], _, _ => rfl
  | (k, x) :: xs, (k', y) :: ys, ha, hb => by
    simp only [NoErrMap, Bool.and_eq_true] at ha hb
    by_cases h : k = k'
    · subst h; simp only [eqMap, eq_symm x y ha.1 hb.1, eqMap_symm xs ys ha.2 hb.2]
    · have h' : ¬ k' = k := fun e => h e.symm
      simp [eqMap, h, h']
  | [], _ :: _, _, _ => by simp [eqMap]
  | _ :: _, [], _, _ => by simp [eqMap]
end


/-- `!=` is symmetric on the same values. -/
theorem ne_symm (a b : Val) (ha : NoErr a = true) (hb : NoErr b = true) : valNe a b = valNe b a := by
  have h := eq_symm a b ha hb
  cases a <;> cases b <;> simp_all [valNe, errProp, NoErr]

/-- The side condition is exactly the failure rule: two different failures meet as the left one. -/
theorem err_not_symm : valEq (.err .divZero) (.err .value) ≠ valEq (.err .value) (.err .divZero) := by
  simp [valEq]

/-- Non-vacuity: nested values with NaN, mixed numeric types and maps satisfy the hypotheses. -/
example : NoErr (.list [.float F.canonNaN, .map [("k".toList, .uint 3)], .int 3]) = true := by rfl
example : valEq (.list [.int 3, .str "a".toList]) (.list [.uint 3, .str "a".toList]) = .bool true ∧
          valEq (.list [.uint 3, .str "a".toList]) (.list [.int 3, .str "a".toList]) = .bool true := ⟨by rfl, by rfl⟩

/-! ### min / max return one of their arguments; a single argument is returned as it is -/

theorem foldl_pick_mem (f : Val → Val → Val) (hf : ∀ c v, f c v = c ∨ f c v = v) :
    ∀ (xs : List Val) (cur : Val), xs.foldl f cur = cur ∨ xs.foldl f cur ∈ xs
  | [], cur => by simp
  | v :: vs, cur => by
    simp only [List.foldl_cons, List.mem_cons]
    rcases foldl_pick_mem f hf vs (f cur v) with h | h
    · rcases hf cur v with e | e
      · left; rw [h, e]
      · right; left; rw [h, e]
    · right; right; exact h

theorem minOf_mem (x : Val) (xs : List Val) : minOf (x :: xs) ∈ x :: xs := by
  simp only [minOf, List.mem_cons]
  apply foldl_pick_mem
  intro c v; split <;> simp

theorem maxOf_mem (x : Val) (xs : List Val) : maxOf (x :: xs) ∈ x :: xs := by
  simp only [maxOf, List.mem_cons]
  apply foldl_pick_mem
  intro c v; split <;> simp

theorem minOf_empty : minOf [] = .err .argument ∧ maxOf [] = .err .argument := ⟨rfl, rfl⟩

/-- A later argument replaces the current extreme only when it is strictly smaller: equal arguments keep the first. -/
theorem minOf_keeps_first (a b : Val) (h : rel .lt b a ≠ .bool true) : minOf [a, b] = a := by
  simp only [minOf, List.foldl_cons, List.foldl_nil]

theorem maxOf_keeps_first (a b : Val) (h : rel .gt b a ≠ .bool true) : maxOf [a, b] = a := by
  simp only [maxOf, List.foldl_cons, List.foldl_nil]

example : minOf [.int 1, .uint 1, .float F.one] = .int 1 := by rfl
example : maxOf [.uint 1, .int 1] = .uint 1 := by rfl

/-! ### min / max are the least / greatest argument in every class ordered by an integer key -/

/-- A class of non-failure values whose `ord` is `cmpInt` of an integer key (int∪uint∪bool, NaN-free doubles,
    timestamps, durations). -/
structure Keyed (S : Val → Prop) (key : Val → Int) : Prop where
  noErr : ∀ a, S a → a.isErr = false
  ord_key : ∀ a b, S a → S b → ord a b = .ok (some (cmpInt (key a) (key b)))

theorem Keyed.lt_iff {S key} (H : Keyed S key) {a b : Val} (ha : S a) (hb : S b) :
    rel .lt a b = .bool (decide (key a < key b)) := by
  rw [rel_of_ord .lt a b _ (H.noErr a ha) (H.noErr b hb) (H.ord_key a b ha hb), holds_lt]
  congr 1
  exact decide_eq_decide.mpr (cmpInt_lt_iff _ _)

theorem Keyed.gt_iff {S key} (H : Keyed S key) {a b : Val} (ha : S a) (hb : S b) :
    rel .gt a b = .bool (decide (key b < key a)) := by
  rw [rel_of_ord .gt a b _ (H.noErr a ha) (H.noErr b hb) (H.ord_key a b ha hb), holds_gt]
  congr 1
  exact decide_eq_decide.mpr (cmpInt_gt_iff _ _)

theorem foldl_min_least {S key} (H : Keyed S key) :
    ∀ (xs : List Val) (cur : Val), S cur → (∀ v ∈ xs, S v) →
      let r := xs.foldl (fun cur v => match rel .lt v cur with | .bool true => v | _ => cur) cur
      S r ∧ key r ≤ key cur ∧ ∀ w ∈ xs, key r ≤ key w
  | [], cur, hc, _ => by simp [hc]
  | v :: vs, cur, hc, hs => by
    have hv : S v := hs v (by simp)
    have hvs : ∀ w ∈ vs, S w := fun w hw => hs w (by simp [hw])
    simp only [List.foldl_cons, H.lt_iff hv hc]
    by_cases h : key v < key cur
    · simp only [h, decide_true]
      obtain ⟨h1, h2, h3⟩ := foldl_min_least H vs v hv hvs
      refine ⟨h1, by omega, ?_⟩
      intro w hw
      rcases List.mem_cons.mp hw with rfl | hw
      · exact h2
      · exact h3 w hw
    · simp only [h, decide_false]
      obtain ⟨h1, h2, h3⟩ := foldl_min_least H vs cur hc hvs
      refine ⟨h1, h2, ?_⟩
      intro w hw
      rcases List.mem_cons.mp hw with rfl | hw
      · omega
      · exact h3 w hw

theorem foldl_max_greatest {S key} (H : Keyed S key) :
    ∀ (xs : List Val) (cur : Val), S cur → (∀ v ∈ xs, S v) →
      let r := xs.foldl (fun cur v => match rel .gt v cur with | .bool true => v | _ => cur) cur
      S r ∧ key cur ≤ key r ∧ ∀ w ∈ xs, key w ≤ key r
  | [], cur, hc, _ => by simp [hc]
  | v :: vs, cur, hc, hs => by
    have hv : S v := hs v (by simp)
    have hvs : ∀ w ∈ vs, S w := fun w hw => hs w (by simp [hw])
    simp only [List.foldl_cons, H.gt_iff hv hc]
    by_cases h : key cur < key v
    · simp only [h, decide_true]
      obtain ⟨h1, h2, h3⟩ := foldl_max_greatest H vs v hv hvs
      refine ⟨h1, by omega, ?_⟩
      intro w hw
      rcases List.mem_cons.mp hw with rfl | hw
      · exact h2
      · exact h3 w hw
    · simp only [h, decide_false]
      obtain ⟨h1, h2, h3⟩ := foldl_max_greatest H vs cur hc hvs
      refine ⟨h1, h2, ?_⟩
      intro w hw
      rcases List.mem_cons.mp hw with rfl | hw
      · omega
      · exact h3 w hw

/-- `min` of any number of arguments of one keyed class is below every argument. -/
theorem minOf_least {S key} (H : Keyed S key) (x : Val) (xs : List Val) (h : ∀ v ∈ x :: xs, S v) :
    ∀ w ∈ x :: xs, key (minOf (x :: xs)) ≤ key w := by
  obtain ⟨_, h2, h3⟩ := foldl_min_least H xs x (h x (by simp)) (fun v hv => h v (by simp [hv]))
  intro w hw
  rcases List.mem_cons.mp hw with rfl | hw
  · exact h2
  · exact h3 w hw

theorem maxOf_greatest {S key} (H : Keyed S key) (x : Val) (xs : List Val) (h : ∀ v ∈ x :: xs, S v) :
    ∀ w ∈ x :: xs, key w ≤ key (maxOf (x :: xs)) := by
  obtain ⟨_, h2, h3⟩ := foldl_max_greatest H xs x (h x (by simp)) (fun v hv => h v (by simp [hv]))
  intro w hw
  rcases List.mem_cons.mp hw with rfl | hw
  · exact h2
  · exact h3 w hw

theorem keyed_int : Keyed (fun v => ∃ a, ZVal v a) zKey where
  noErr := by rintro a ⟨x, hx⟩; cases hx <;> rfl
  ord_key := by
    rintro a b ⟨x, hx⟩ ⟨y, hy⟩
    rw [ord_int_joint hx hy, zKey_of hx, zKey_of hy]

theorem keyed_float : Keyed (fun v => ∃ b, v = .float b ∧ F.isNaN b = false) fKey where
  noErr := by rintro a ⟨x, rfl, _⟩; rfl
  ord_key := by
    rintro a b ⟨x, rfl, hx⟩ ⟨y, rfl, hy⟩
    simp [ord, widen, hx, hy, fKey]

theorem keyed_ts : Keyed (fun v => ∃ n, v = .ts n) tKey where
  noErr := by rintro a ⟨x, rfl⟩; rfl
  ord_key := by rintro a b ⟨x, rfl⟩ ⟨y, rfl⟩; rfl

theorem keyed_dur : Keyed (fun v => ∃ n, v = .dur n) tKey where
  noErr := by rintro a ⟨x, rfl⟩; rfl
  ord_key := by rintro a b ⟨x, rfl⟩ ⟨y, rfl⟩; rfl

/-- Mixed int / uint / bool arguments: the result denotes the least integer among them. -/
example : minOf [.uint 9223372036854775808, .int (-1), .bool true, .int (-1)] = .int (-1) := by rfl
example : ∀ v ∈ [Val.uint 7, .int (-1), .bool true], ∃ a, ZVal v a := by
  intro v hv; simp at hv; rcases hv with rfl | rfl | rfl
  · exact ⟨_, .uint 7⟩
  · exact ⟨_, .int (-1) (by decide)⟩
  · exact ⟨_, .bool true⟩


/-! ### min is below every argument in every totally preordered class (strings and bytes included) -/

theorem cmpBy_eq_symm {α} (lt : α → α → Bool) (a b : α) (h : cmpBy lt a b = .eq) : cmpBy lt b a = .eq := by
  unfold cmpBy at *
  by_cases h1 : lt a b = true <;> by_cases h2 : lt b a = true <;> simp_all

theorem foldl_min_ole {S : Val → Prop} (H : OrdOK S) (hne : ∀ a, S a → a.isErr = false)
    (hsym : ∀ a b, S a → S b → ord a b = .ok (some .eq) → ord b a = .ok (some .eq)) :
    ∀ (xs : List Val) (cur : Val), S cur → (∀ v ∈ xs, S v) →
      let r := xs.foldl (fun cur v => match rel .lt v cur with | .bool true => v | _ => cur) cur
      S r ∧ OLe r cur ∧ ∀ w ∈ xs, OLe r w
  | [], cur, hc, _ => by
    obtain ⟨o, ho⟩ := H.total cur cur hc hc
    refine ⟨hc, ?_, by simp⟩
    cases o
    · exact Or.inl ho
    · exact Or.inr ho
    · exact H.conv cur cur hc hc ho
  | v :: vs, cur, hc, hs => by
    have hv : S v := hs v (by simp)
    have hvs : ∀ w ∈ vs, S w := fun w hw => hs w (by simp [hw])
    obtain ⟨o, ho⟩ := H.total v cur hv hc
    simp only [List.foldl_cons, rel_of_ord .lt v cur _ (hne v hv) (hne cur hc) ho, holds_lt]
    cases o
    · simp only [decide_true]
      obtain ⟨h1, h2, h3⟩ := foldl_min_ole H hne hsym vs v hv hvs
      refine ⟨h1, H.trans _ v cur h1 hv hc h2 (Or.inl ho), ?_⟩
      intro w hw
      rcases List.mem_cons.mp hw with rfl | hw
      · exact h2
      · exact h3 w hw
    · simp only [reduceCtorEq, decide_false]
      obtain ⟨h1, h2, h3⟩ := foldl_min_ole H hne hsym vs cur hc hvs
      refine ⟨h1, h2, ?_⟩
      intro w hw
      rcases List.mem_cons.mp hw with rfl | hw
      · exact H.trans _ cur _ h1 hc hv h2 (Or.inr (hsym _ _ hv hc ho))
      · exact h3 w hw
    · simp only [reduceCtorEq, decide_false]
      obtain ⟨h1, h2, h3⟩ := foldl_min_ole H hne hsym vs cur hc hvs
      refine ⟨h1, h2, ?_⟩
      intro w hw
      rcases List.mem_cons.mp hw with rfl | hw
      · exact H.trans _ cur _ h1 hc hv h2 (H.conv _ _ hv hc ho)
      · exact h3 w hw

/-- `min` of any number of arguments of one totally preordered class: no argument is strictly below the result. -/
theorem minOf_ole {S : Val → Prop} (H : OrdOK S) (hne : ∀ a, S a → a.isErr = false)
    (hsym : ∀ a b, S a → S b → ord a b = .ok (some .eq) → ord b a = .ok (some .eq))
    (x : Val) (xs : List Val) (h : ∀ v ∈ x :: xs, S v) :
    ∀ w ∈ x :: xs, OLe (minOf (x :: xs)) w := by
  obtain ⟨_, h2, h3⟩ := foldl_min_ole H hne hsym xs x (h x (by simp)) (fun v hv => h v (by simp [hv]))
  intro w hw
  rcases List.mem_cons.mp hw with rfl | hw
  · exact h2
  · exact h3 w hw

theorem minOf_str_least (x : Val) (xs : List Val) (h : ∀ v ∈ x :: xs, ∃ s, v = .str s) :
    ∀ w ∈ x :: xs, OLe (minOf (x :: xs)) w :=
  minOf_ole ordOK_str (by rintro a ⟨s, rfl⟩; rfl)
    (by rintro a b ⟨s, rfl⟩ ⟨t, rfl⟩ hab
        simp only [ord, widen, OrdRes.ok.injEq, Option.some.injEq] at hab ⊢
        exact cmpBy_eq_symm _ _ _ hab) x xs h

theorem minOf_bytes_least (x : Val) (xs : List Val) (h : ∀ v ∈ x :: xs, ∃ s, v = .bytes s) :
    ∀ w ∈ x :: xs, OLe (minOf (x :: xs)) w :=
  minOf_ole ordOK_bytes (by rintro a ⟨s, rfl⟩; rfl)
    (by rintro a b ⟨s, rfl⟩ ⟨t, rfl⟩ hab
        simp only [ord, widen, OrdRes.ok.injEq, Option.some.injEq] at hab ⊢
        exact cmpBy_eq_symm _ _ _ hab) x xs h

example : minOf [.str "b".toList, .str "ab".toList, .str "a".toList, .str "a".toList] = .str "a".toList := by rfl


/-! ### max is above every argument in every totally preordered class (strings and bytes included) -/

theorem foldl_max_oge {S : Val → Prop} (H : OrdOK S) (hne : ∀ a, S a → a.isErr = false)
    (hsym : ∀ a b, S a → S b → ord a b = .ok (some .eq) → ord b a = .ok (some .eq)) :
    ∀ (xs : List Val) (cur : Val), S cur → (∀ v ∈ xs, S v) →
      let r := xs.foldl (fun cur v => match rel .gt v cur with | .bool true => v | _ => cur) cur
      S r ∧ OLe cur r ∧ ∀ w ∈ xs, OLe w r
  | [], cur, hc, _ => by
    obtain ⟨o, ho⟩ := H.total cur cur hc hc
    refine ⟨hc, ?_, by simp⟩
    cases o
    · exact Or.inl ho
    · exact Or.inr ho
    · exact H.conv cur cur hc hc ho
  | v :: vs, cur, hc, hs => by
    have hv : S v := hs v (by simp)
    have hvs : ∀ w ∈ vs, S w := fun w hw => hs w (by simp [hw])
    obtain ⟨o, ho⟩ := H.total v cur hv hc
    simp only [List.foldl_cons, rel_of_ord .gt v cur _ (hne v hv) (hne cur hc) ho, holds_gt]
    cases o
    · simp only [reduceCtorEq, decide_false]
      obtain ⟨h1, h2, h3⟩ := foldl_max_oge H hne hsym vs cur hc hvs
      refine ⟨h1, h2, ?_⟩
      intro w hw
      rcases List.mem_cons.mp hw with rfl | hw
      · exact H.trans _ cur _ hv hc h1 (Or.inl ho) h2
      · exact h3 w hw
    · simp only [reduceCtorEq, decide_false]
      obtain ⟨h1, h2, h3⟩ := foldl_max_oge H hne hsym vs cur hc hvs
      refine ⟨h1, h2, ?_⟩
      intro w hw
      rcases List.mem_cons.mp hw with rfl | hw
      · exact H.trans _ cur _ hv hc h1 (Or.inr ho) h2
      · exact h3 w hw
    · simp only [decide_true]
      obtain ⟨h1, h2, h3⟩ := foldl_max_oge H hne hsym vs v hv hvs
      refine ⟨h1, H.trans cur v _ hc hv h1 (H.conv _ _ hv hc ho) h2, ?_⟩
      intro w hw
      rcases List.mem_cons.mp hw with rfl | hw
      · exact h2
      · exact h3 w hw

/-- `max` of any number of arguments of one totally preordered class: every argument is below the result. -/
theorem maxOf_oge {S : Val → Prop} (H : OrdOK S) (hne : ∀ a, S a → a.isErr = false)
    (hsym : ∀ a b, S a → S b → ord a b = .ok (some .eq) → ord b a = .ok (some .eq))
    (x : Val) (xs : List Val) (h : ∀ v ∈ x :: xs, S v) :
    ∀ w ∈ x :: xs, OLe w (maxOf (x :: xs)) := by
  obtain ⟨_, h2, h3⟩ := foldl_max_oge H hne hsym xs x (h x (by simp)) (fun v hv => h v (by simp [hv]))
  intro w hw
  rcases List.mem_cons.mp hw with rfl | hw
  · exact h2
  · exact h3 w hw

theorem maxOf_str_greatest (x : Val) (xs : List Val) (h : ∀ v ∈ x :: xs, ∃ s, v = .str s) :
    ∀ w ∈ x :: xs, OLe w (maxOf (x :: xs)) :=
  maxOf_oge ordOK_str (by rintro a ⟨s, rfl⟩; rfl)
    (by rintro a b ⟨s, rfl⟩ ⟨t, rfl⟩ hab
        simp only [ord, widen, OrdRes.ok.injEq, Option.some.injEq] at hab ⊢
        exact cmpBy_eq_symm _ _ _ hab) x xs h

theorem maxOf_bytes_greatest (x : Val) (xs : List Val) (h : ∀ v ∈ x :: xs, ∃ s, v = .bytes s) :
    ∀ w ∈ x :: xs, OLe w (maxOf (x :: xs)) :=
  maxOf_oge ordOK_bytes (by rintro a ⟨s, rfl⟩; rfl)
    (by rintro a b ⟨s, rfl⟩ ⟨t, rfl⟩ hab
        simp only [ord, widen, OrdRes.ok.injEq, Option.some.injEq] at hab ⊢
        exact cmpBy_eq_symm _ _ _ hab) x xs h

example : maxOf [.str "b".toList, .str "ba".toList, .str "a".toList, .str "ba".toList] = .str "ba".toList := by rfl


/-! ### sort agrees with min and max: the first element of the sorted list ties with `min`, the last with `max` -/

theorem OLe_refl_of {S : Val → Prop} (H : OrdOK S) (a : Val) (ha : S a) : OLe a a := by
  obtain ⟨o, ho⟩ := H.total a a ha ha
  cases o
  · exact Or.inl ho
  · exact Or.inr ho
  · exact H.conv a a ha ha ho

/-- In every totally preordered class: whatever `sort` puts first is order-equivalent to `min` of the same values
    (each is below the other), and every element of the sorted list is below `max`. -/
theorem sort_head_ties_min {S : Val → Prop} (H : OrdOK S) (hne : ∀ a, S a → a.isErr = false)
    (hsym : ∀ a b, S a → S b → ord a b = .ok (some .eq) → ord b a = .ok (some .eq))
    (x : Val) (xs : List Val) (h : ∀ v ∈ x :: xs, S v) :
    ∃ a rest, sortList (x :: xs) = .list (a :: rest) ∧ OLe a (minOf (x :: xs)) ∧ OLe (minOf (x :: xs)) a ∧
      ∀ w ∈ a :: rest, OLe w (maxOf (x :: xs)) := by
  obtain ⟨out, h1, h2, h3⟩ := sortList_spec H (x :: xs) h
  have hmem := minOf_mem x xs
  have hmin := minOf_ole H hne hsym x xs h
  have hmax := maxOf_oge H hne hsym x xs h
  cases out with
  | nil => exact absurd h2.length_eq (by simp)
  | cons a rest =>
    have ha : a ∈ x :: xs := h2.subset (by simp)
    refine ⟨a, rest, h1, ?_, hmin a ha, fun w hw => hmax w (h2.subset hw)⟩
    have hm : minOf (x :: xs) ∈ a :: rest := h2.symm.subset hmem
    rcases List.mem_cons.mp hm with e | e
    · rw [e]; exact OLe_refl_of H a (h a ha)
    · exact (List.pairwise_cons.mp h3).1 _ e

theorem Keyed.ordOK {S key} (H : Keyed S key) : OrdOK S := ordOK_of_key S key H.ord_key

theorem Keyed.tie_symm {S key} (H : Keyed S key) (a b : Val) (ha : S a) (hb : S b)
    (h : ord a b = .ok (some .eq)) : ord b a = .ok (some .eq) := by
  rw [H.ord_key a b ha hb] at h
  rw [H.ord_key b a hb ha]
  have e : key a = key b := (cmpInt_eq_iff _ _).mp (by simpa using h)
  simp only [OrdRes.ok.injEq, Option.some.injEq]
  exact (cmpInt_eq_iff _ _).mpr e.symm

theorem str_tie_symm (a b : Val) (ha : ∃ s, a = .str s) (hb : ∃ s, b = .str s)
    (h : ord a b = .ok (some .eq)) : ord b a = .ok (some .eq) := by
  obtain ⟨s, rfl⟩ := ha; obtain ⟨t, rfl⟩ := hb
  simp only [ord, widen, OrdRes.ok.injEq, Option.some.injEq] at h ⊢
  exact cmpBy_eq_symm _ _ _ h

theorem bytes_tie_symm (a b : Val) (ha : ∃ s, a = .bytes s) (hb : ∃ s, b = .bytes s)
    (h : ord a b = .ok (some .eq)) : ord b a = .ok (some .eq) := by
  obtain ⟨s, rfl⟩ := ha; obtain ⟨t, rfl⟩ := hb
  simp only [ord, widen, OrdRes.ok.injEq, Option.some.injEq] at h ⊢
  exact cmpBy_eq_symm _ _ _ h

/-- **sort, min and max agree** on int/uint/bool (jointly), NaN-free doubles, strings, bytes, timestamps, durations. -/
theorem sort_min_max_agree (x : Val) (xs : List Val)
    (h : (∀ v ∈ x :: xs, ∃ a, ZVal v a) ∨ (∀ v ∈ x :: xs, ∃ b, v = .float b ∧ F.isNaN b = false) ∨
         (∀ v ∈ x :: xs, ∃ s, v = .str s) ∨ (∀ v ∈ x :: xs, ∃ s, v = .bytes s) ∨
         (∀ v ∈ x :: xs, ∃ n, v = .ts n) ∨ (∀ v ∈ x :: xs, ∃ n, v = .dur n)) :
    ∃ a rest, sortList (x :: xs) = .list (a :: rest) ∧ OLe a (minOf (x :: xs)) ∧ OLe (minOf (x :: xs)) a ∧
      ∀ w ∈ a :: rest, OLe w (maxOf (x :: xs)) := by
  rcases h with h | h | h | h | h | h
  · exact sort_head_ties_min keyed_int.ordOK keyed_int.noErr keyed_int.tie_symm x xs h
  · exact sort_head_ties_min keyed_float.ordOK keyed_float.noErr keyed_float.tie_symm x xs h
  · exact sort_head_ties_min ordOK_str (by rintro a ⟨s, rfl⟩; rfl) str_tie_symm x xs h
  · exact sort_head_ties_min ordOK_bytes (by rintro a ⟨s, rfl⟩; rfl) bytes_tie_symm x xs h
  · exact sort_head_ties_min keyed_ts.ordOK keyed_ts.noErr keyed_ts.tie_symm x xs h
  · exact sort_head_ties_min keyed_dur.ordOK keyed_dur.noErr keyed_dur.tie_symm x xs h

example : sortList [.int 3, .uint 1, .bool true, .int (-2)] = .list [.int (-2), .uint 1, .bool true, .int 3] := by rfl


end C04
end Rscel
