import RscelModel.Lemmas.SqlClean
/-
C20 — CEL-to-SQL translation preserves structure and cannot be escaped by literals.

Model (`Model/Sql.lean`): `toSql = Doc.text ∘ build` mirrors `extensions/to_sql/src/{grammar,traits}.rs`;
`lexSql` / `parseSql` are an independent SQL lexer and precedence parser; `sqlTree` is the operator tree an
expression stands for, written from the source side (arguments in source order, paths, casts).

Hypothesis `plainAst a` of the structure theorems: names are plain words that SQL does not reserve and a
unary minus is not repeated.  Both exclusions are recorded defects of the real translation (a reserved
word is emitted unquoted; `--x` is emitted as `(--x)`, which opens a comment and is pinned by the
to_sql test "double arithmetic negation"); the facet reports them as tagged findings.
-/
namespace Rscel
namespace C20
open Rscel.Sql

/-! ### literals cannot escape -/

/-- **No injection.**  Whatever the string contains (quotes, backslashes, `--`, `;`, `/*`, line breaks),
    its SQL spelling followed by anything that is not a quote is lexed as exactly one string-literal
    token with the same content, and lexing continues behind it as if nothing had happened. -/
theorem quote_lex (s rest : Str) (h : rest.head? ≠ some '\'') :
    lexSql (quote s ++ rest) = .str s :: lexSql rest :=
  lex_quote s rest h

example : lexSql (quote "b'; DROP TABLE x; --".toList ++ ") + 1".toList)
    = [.str "b'; DROP TABLE x; --".toList, .sym [')'], .sym ['+'], .num ['1']] := by decide

/-- the translation of a string literal is its quoted form: one token -/
theorem string_literal (sp sp' : Span) (s : Str) :
    toSql (.member sp (.str sp' s) []) = .ok (quote s) ∧ lexSql (quote s) = [.str s] := by
  refine ⟨rfl, ?_⟩
  have := quote_lex s [] (by simp)
  simpa [lexSql, run_nil, finish] using this

/-! ### structure -/

theorem toSql_ok {a : Ast} {t : Str} (h : toSql a = .ok t) : ∃ d, build a = .ok d ∧ t = d.text := by
  unfold toSql at h
  cases hb : build a with
  | error e => rw [hb] at h; cases h
  | ok d => rw [hb] at h; exact ⟨d, rfl, by cases h; rfl⟩

/-- The SQL text lexes to the token list of the builder tree (no token is split or merged). -/
theorem toSql_lex (a : Ast) (t : Str) (hp : plainAst a = true) (h : toSql a = .ok t) :
    ∃ d, build a = .ok d ∧ lexSql t = d.toks := by
  obtain ⟨d, hd, rfl⟩ := toSql_ok h
  exact ⟨d, hd, lexSql_text d (build_wf a d hd hp)⟩

/-- **Structure preservation.**  The SQL text of a plain expression, re-read by the independent lexer and
    parser, is the operator tree the expression stands for: same operators, operand order and grouping,
    function names, arguments in source order, field and index paths, casts, string contents.
    Total over the syntax tree: every constructor the translation accepts is covered. -/
theorem toSql_parse (a : Ast) (t : Str) (hp : plainAst a = true) (h : toSql a = .ok t) :
    parseSql (lexSql t) = some (sqlTree a) := by
  obtain ⟨d, hd, rfl⟩ := toSql_ok h
  have hw := build_wf a d hd hp
  rw [lexSql_text d hw, parseSql_toks d hw, build_tree a d hd]

/-- **Nothing but the dialect's tokens.**  No token of the text is a comment, a `;` or a character without
    meaning: no literal (and nothing else) has opened a comment or ended the statement. -/
theorem toSql_clean (a : Ast) (t : Str) (hp : plainAst a = true) (h : toSql a = .ok t) :
    ∀ tok ∈ lexSql t, tok ≠ .comment ∧ tok ≠ .sym [';'] ∧ ∀ c, tok ≠ .bad c := by
  obtain ⟨d, hd, rfl⟩ := toSql_ok h
  have hw := build_wf a d hd hp
  rw [lexSql_text d hw]
  intro tok htok
  have hc : cleanTok tok = true := List.all_eq_true.mp (toks_clean d hw) tok htok
  refine ⟨?_, ?_, ?_⟩
  · rintro rfl; cases hc
  · rintro rfl; revert hc; decide
  · rintro c rfl; cases hc

/-! ### arguments in source order -/

theorem treesOf_eq_map (as : List Ast) : treesOf as = as.map sqlTree := by
  induction as with
  | nil => rfl
  | cons a as ih => simp [treesOf, ih]

theorem opsTree_call_none (cur : SqlTree) (sp : Span) (args : List Ast) (rest : List MOp) :
    opsTree none cur (.call sp args :: rest) = opsTree none (.call cur (treesOf args).reverse) rest := by
  match args with
  | [] => simp [opsTree, treesOf]
  | [e] => simp [opsTree, treesOf]
  | e :: e2 :: es => simp [opsTree, treesOf]

theorem opsTree_access (ty? : Option Str) (cur : SqlTree) (sp isp : Span) (name : Str) (rest : List MOp) :
    opsTree ty? cur (.access sp isp name :: rest)
      = opsTree none (.bin (if rest.isEmpty then ['-', '>', '>'] else ['-', '>']) cur (.str name)) rest := by
  simp [opsTree]

/-- **A stand-alone call** `f(a₁, …, aₙ)` (the AST holds `[aₙ, …, a₁]`): the SQL is the call of `f` with
    the arguments in source order. -/
theorem args_in_source_order_alone (sp isp csp : Span) (f : Str) (as : List Ast) (t : Str)
    (hf : sqlType f = none)
    (hp : plainAst (.member sp (.ident isp f) [.call csp as.reverse]) = true)
    (h : toSql (.member sp (.ident isp f) [.call csp as.reverse]) = .ok t) :
    parseSql (lexSql t) = some (.call (.ident f) (as.map sqlTree)) := by
  rw [toSql_parse _ t hp h]
  simp only [sqlTree, castType, hf, primTree]
  rw [opsTree_call_none]
  simp [opsTree, treesOf_eq_map]

/-- **A call inside a member chain** `x.g(a₁, …, aₙ)`: the same arguments in the same order. -/
theorem args_in_source_order_chained (sp isp asp gsp csp : Span) (x g : Str) (as : List Ast) (t : Str)
    (hp : plainAst (.member sp (.ident isp x) [.access asp gsp g, .call csp as.reverse]) = true)
    (h : toSql (.member sp (.ident isp x) [.access asp gsp g, .call csp as.reverse]) = .ok t) :
    parseSql (lexSql t) = some (.call (.bin ['-', '>'] (.ident x) (.str g)) (as.map sqlTree)) := by
  rw [toSql_parse _ t hp h]
  simp only [sqlTree, primTree]
  rw [opsTree_access, opsTree_call_none]
  simp [opsTree, treesOf_eq_map]

/-- … and one level deeper, `x.y.g(a₁, …, aₙ)`. -/
theorem args_in_source_order_chained2 (sp isp asp ysp bsp gsp csp : Span) (x y g : Str) (as : List Ast) (t : Str)
    (hp : plainAst (.member sp (.ident isp x) [.access asp ysp y, .access bsp gsp g, .call csp as.reverse]) = true)
    (h : toSql (.member sp (.ident isp x) [.access asp ysp y, .access bsp gsp g, .call csp as.reverse]) = .ok t) :
    parseSql (lexSql t)
      = some (.call (.bin ['-', '>'] (.bin ['-', '>'] (.ident x) (.str y)) (.str g)) (as.map sqlTree)) := by
  rw [toSql_parse _ t hp h]
  simp only [sqlTree, primTree]
  rw [opsTree_access, opsTree_access, opsTree_call_none]
  simp [opsTree, treesOf_eq_map]

/-! ### untranslatable constructs -/

/-- **Unsupported, exactly.**  The translation is refused if and only if a `match`, a bytes literal or a
    format string occurs in the expression. -/
theorem unsupported_iff (a : Ast) : toSql a = .error () ↔ untrAst a = true := by
  have hb := build_isOk a
  unfold toSql
  cases h : build a with
  | error e =>
    cases e
    have : untrAst a = true := by simpa [h, Except.isOk, Except.toBool] using hb
    simp [Except.map, this]
  | ok d =>
    have : untrAst a = false := by simpa [h, Except.isOk, Except.toBool] using hb
    simp [Except.map, this]

/-- **Total.**  Every expression is translated or refused as unsupported; there is no third outcome
    (the model has no partial operation: no `unwrap`, no index out of range, no unreachable case). -/
theorem toSql_total (a : Ast) : (∃ t, toSql a = .ok t ∧ untrAst a = false) ∨ (toSql a = .error () ∧ untrAst a = true) := by
  cases hu : untrAst a with
  | true => exact Or.inr ⟨(unsupported_iff a).mpr hu, rfl⟩
  | false =>
    left
    cases h : toSql a with
    | error e =>
      cases e
      have := (unsupported_iff a).mp h
      rw [hu] at this; cases this
    | ok t => exact ⟨t, rfl, rfl⟩

/-! ### the hypotheses are satisfiable, and needed -/

def sp0 : Span := ⟨⟨0, 0⟩, ⟨0, 0⟩⟩
def lit (p : Prim) : Ast := .member sp0 p []
/-- `x.f(1, 'it''s')` (arguments stored last to first) -/
def exCall : Ast :=
  .member sp0 (.ident sp0 ['x']) [.access sp0 sp0 ['f'], .call sp0 [lit (.str sp0 "it's".toList), lit (.int sp0 1)]]
/-- `int(x.y + 1)` -/
def exCast : Ast :=
  .member sp0 (.ident sp0 "int".toList)
    [.call sp0 [.bin sp0 .add (.member sp0 (.ident sp0 ['x']) [.access sp0 sp0 ['y']]) (lit (.int sp0 1))]]
/-- `--x` -/
def exNegNeg : Ast := .negRun sp0 [sp0, sp0] (lit (.ident sp0 ['x']))

example : plainAst exCall = true ∧ toSql exCall = .ok "((x)->'f')(1, 'it''s')".toList := ⟨by rfl, by rfl⟩
example : parseSql (lexSql "((x)->'f')(1, 'it''s')".toList)
    = some (.call (.bin ['-', '>'] (.ident ['x']) (.str ['f'])) [.num ['1'], .str "it's".toList]) :=
  args_in_source_order_chained sp0 sp0 sp0 sp0 sp0 ['x'] ['f'] [lit (.int sp0 1), lit (.str sp0 "it's".toList)] _
    (by rfl) (by rfl)
example : plainAst exCast = true ∧ toSql exCast = .ok "(((x)->>'y') + (1))::integer".toList := ⟨by rfl, by rfl⟩
example : sqlTree exCast = .cast (.bin ['+'] (.bin ['-', '>', '>'] (.ident ['x']) (.str ['y'])) (.num ['1'])) "integer".toList := by
  rfl
example : untrAst (lit (.bytes sp0 [1])) = true ∧ toSql (lit (.bytes sp0 [1])) = .error () := ⟨by rfl, by rfl⟩
/-- The repeated minus is outside `plainAst`, and for a reason: the text opens a comment. -/
example : plainAst exNegNeg = false ∧ toSql exNegNeg = .ok "(--x)".toList ∧ lexSql "(--x)".toList = [.sym ['('], .comment] :=
  ⟨by rfl, by rfl, by rfl⟩

end C20
end Rscel
