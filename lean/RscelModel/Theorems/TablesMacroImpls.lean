import RscelModel.Lemmas.TablesDefs
/-
Table theorem, see Lemmas/TablesDefs.lean: the two macro tables of the source bind a name to the same function.
-/
namespace Rscel
namespace Tables

/-- Every entry of the second table occurs, with the same right-hand side, in the first. -/
def implsWithin (c d : Option (List (String × String))) : Bool :=
  match c, d with
  | some c, some d => c.all (d.contains ·)
  | _, _ => true

/-- C07 / C09: a macro the compiler may evaluate itself (`COMPILE_MACROS`) is bound to the same function as at
    run time (`DEFAULT_MACROS`) — the model has one definition per macro name, used in both environments, so the
    two source tables must not bind a name to different functions. -/
theorem compile_macros_same_impl :
    implsWithin Generated.compileMacroImpls Generated.defaultMacroImpls = true := by decide

end Tables
end Rscel
