import RscelModel.Model.Context
import RscelModel.Lemmas.KMap
/-
C11 — evaluation is a pure, deterministic function of program text and bindings.

The state machine of `Model/Context.lean` (`World.step`: add / replace program, bind / rebind, clone
context, clone bindings, exec, inspect) is shown to have no hidden state:

* `exec_pure`, `observers_pure`, `observers_invisible`: executing / inspecting never changes the world —
  stored programs, the caller's bindings and every clone stay what they were;
* `repeat_same`: repeating an execution gives the same result (the result is a function of the world);
* `world_is_fold_of_history` + `history_independent`: the context and bind set an execution sees are the
  fold of their own effective histories of definitions, and two histories with the same *latest* definition
  per name give *equal* states — so a final `exec` equals the `exec` in a fresh world that holds only the
  latest programs and bindings, in any order (`exec_eq_fresh_with_latest`);
* `step_frame_ctx` / `step_frame_binds` / `run_frame_ctx` / `clone_copies_*`: an operation on one context
  (bind set) changes no other one; a clone starts as a copy and then evolves independently;
* `rebind_replaces`, `readd_replaces`;
* `clock_only_partial`: the clock reading of a step reaches the evaluation only as the `now` argument of the
  built-in table, and two tables for different readings agree on every function except `now` and on every
  type constructor except `timestamp`.
-/
namespace Rscel
namespace C11

/-! ### executing and inspecting change nothing -/

/-- Operations that only observe. -/
def observes : Op → Bool
  | .exec .. | .inspect .. | .getParam .. => true
  | _ => false

/-- **`exec` leaves the world unchanged**: stored programs, bindings, clones. -/
theorem exec_pure (now : Int) (w : World) (c : Nat) (name : Str) (b : Nat) :
    (w.step now (.exec c name b)).1 = w := by
  simp only [World.step]
  split <;> rfl

theorem observers_pure (now : Int) (w : World) (op : Op) (h : observes op = true) : (w.step now op).1 = w := by
  cases op with
  | exec c name b => exact exec_pure now w c name b
  | inspect c name => simp only [World.step]; split <;> rfl
  | getParam b x => simp only [World.step]; split <;> rfl
  | addSrc _ _ _ | addProg _ _ _ | bind _ _ _ | bindFn _ _ _ | cloneCtx _ | cloneBinds _ => cases h

/-- Any number of executions / inspections, at any clock readings, leave the world as it was. -/
theorem observers_invisible (w : World) (obs : List (Int × Op)) (h : ∀ p ∈ obs, observes p.2 = true) :
    (w.run obs).1 = w := by
  induction obs generalizing w with
  | nil => rfl
  | cons p rest ih =>
    obtain ⟨now, op⟩ := p
    simp only [World.run]
    have h1 := observers_pure now w op (h (now, op) (by simp))
    have h2 := ih (w.step now op).1 (fun q hq => h q (by simp [hq]))
    rw [h2, h1]

/-- **Repeating an execution gives the same result**, however many executions and inspections of any
    program, on any context and bind set, happened in between. -/
theorem repeat_same (now : Int) (w : World) (c : Nat) (name : Str) (b : Nat) (between : List (Int × Op))
    (h : ∀ p ∈ between, observes p.2 = true) :
    ((w.run between).1.step now (.exec c name b)).2 = (w.step now (.exec c name b)).2 := by
  rw [observers_invisible w between h]

/-- Macros (and everything else an execution does) cannot leak into the caller's bindings: the bind sets
    after an execution are the bind sets before it.  (In the VM model a macro receives the environment as
    a value and returns only a value and the call log — `callMacro : … → Val × Log` — so there is nothing
    it could write to.) -/
theorem macro_no_leak (now : Int) (w : World) (c : Nat) (name : Str) (b : Nat) :
    (w.step now (.exec c name b)).1.binds = w.binds := by
  rw [exec_pure]

/-- The loop variable is bound in a *copy* of the environment handed to the body; the environment of the
    code after the macro call is the caller's. -/
theorem loop_variable_is_local (env : Env) (x : Str) (v : Val) :
    (env.bind x v).params = (x, v) :: env.params ∧ (env.bind x v).progs = env.progs ∧
    (env.bind x v).userFns = env.userFns := ⟨rfl, rfl, rfl⟩

/-! ### rebinding / re-adding replaces -/

theorem rebind_replaces (bs : Binds) (x : Str) (v₁ v₂ : Val) :
    ((bs.bind x v₁).bind x v₂).params.get x = some v₂ := by
  simp [Binds.bind, KMap.get_insert_self]

theorem rebind_forgets_old (bs : Binds) (x : Str) (v₁ v₂ : Val) (hs : KMap.Sorted bs.params) :
    (bs.bind x v₁).bind x v₂ = bs.bind x v₂ := by
  simp [Binds.bind, KMap.insert_insert_same _ _ _ _ hs]

theorem readd_replaces (cx : Ctx) (n : Str) (p₁ p₂ : Prog) (hs : KMap.Sorted cx.progs) :
    (cx.add n p₁).add n p₂ = cx.add n p₂ := by
  simp [Ctx.add, KMap.insert_insert_same _ _ _ _ hs]

/-- Definitions of different names commute. -/
theorem add_comm (cx : Ctx) (n n' : Str) (p p' : Prog) (hs : KMap.Sorted cx.progs) (hne : n ≠ n') :
    (cx.add n p).add n' p' = (cx.add n' p').add n p := by
  simp [Ctx.add, KMap.insert_comm _ _ _ _ _ hs hne]

/-! ### the state is the fold of the effective history -/

/-- The effective history of definitions of every context and bind set (a clone starts with a copy of the
    history of its origin). -/
structure Hist where
  ctxDefs : List (List (Str × Prog))
  bindDefs : List (List (Str × Val) × List (Str × UserFn))

def Hist.fresh (n m : Nat) : Hist := { ctxDefs := List.replicate n [], bindDefs := List.replicate m ([], []) }

def Hist.step (h : Hist) : Op → Hist
  | .addSrc c name src =>
    (match h.ctxDefs[c]?, compileSrc src with
     | some d, some p => { h with ctxDefs := h.ctxDefs.set c (d ++ [(name, p)]) }
     | _, _ => h)
  | .addProg c name p =>
    (match h.ctxDefs[c]? with
     | some d => { h with ctxDefs := h.ctxDefs.set c (d ++ [(name, p)]) }
     | none => h)
  | .bind b x v =>
    (match h.bindDefs[b]? with
     | some d => { h with bindDefs := h.bindDefs.set b (d.1 ++ [(x, v)], d.2) }
     | none => h)
  | .bindFn b f k =>
    (match h.bindDefs[b]? with
     | some d => { h with bindDefs := h.bindDefs.set b (d.1, d.2 ++ [(f, k)]) }
     | none => h)
  | .cloneCtx c =>
    (match h.ctxDefs[c]? with
     | some d => { h with ctxDefs := h.ctxDefs ++ [d] }
     | none => h)
  | .cloneBinds b =>
    (match h.bindDefs[b]? with
     | some d => { h with bindDefs := h.bindDefs ++ [d] }
     | none => h)
  | _ => h

def ctxOf (d : List (Str × Prog)) : Ctx := { progs := KMap.addAll [] d }
def bindsOf (d : List (Str × Val) × List (Str × UserFn)) : Binds :=
  { params := KMap.addAll [] d.1, funcs := KMap.addAll [] d.2 }

/-- The world a history stands for. -/
def Hist.realise (h : Hist) : World := { ctxs := h.ctxDefs.map ctxOf, binds := h.bindDefs.map bindsOf }

theorem addAll_snoc {α} (m : KMap α) (d : List (Str × α)) (k : Str) (v : α) :
    KMap.addAll m (d ++ [(k, v)]) = (KMap.addAll m d).insert k v := by
  simp [KMap.addAll, List.foldl_append]

theorem step_realise (now : Int) (h : Hist) (op : Op) : (h.realise.step now op).1 = (h.step op).realise := by
  cases op with
  | addSrc c name src =>
    simp only [World.step, Hist.step, Hist.realise, List.getElem?_map]
    cases hc : h.ctxDefs[c]? with
    | none => simp
    | some d =>
      cases hp : compileSrc src with
      | none => simp [Hist.realise]
      | some p => simp [Hist.realise, List.map_set, ctxOf, Ctx.add, addAll_snoc]
  | addProg c name p =>
    simp only [World.step, Hist.step, Hist.realise, List.getElem?_map]
    cases hc : h.ctxDefs[c]? with
    | none => simp [Hist.realise]
    | some d => simp [Hist.realise, List.map_set, ctxOf, Ctx.add, addAll_snoc]
  | bind b x v =>
    simp only [World.step, Hist.step, Hist.realise, List.getElem?_map]
    cases hc : h.bindDefs[b]? with
    | none => simp [Hist.realise]
    | some d => simp [Hist.realise, List.map_set, bindsOf, Binds.bind, addAll_snoc]
  | bindFn b f k =>
    simp only [World.step, Hist.step, Hist.realise, List.getElem?_map]
    cases hc : h.bindDefs[b]? with
    | none => simp [Hist.realise]
    | some d => simp [Hist.realise, List.map_set, bindsOf, Binds.bindFn, addAll_snoc]
  | cloneCtx c =>
    simp only [World.step, Hist.step, Hist.realise, List.getElem?_map]
    cases hc : h.ctxDefs[c]? with
    | none => simp [Hist.realise]
    | some d => simp [Hist.realise]
  | cloneBinds b =>
    simp only [World.step, Hist.step, Hist.realise, List.getElem?_map]
    cases hc : h.bindDefs[b]? with
    | none => simp [Hist.realise]
    | some d => simp [Hist.realise]
  | exec c name b => rw [exec_pure]; rfl
  | inspect c name => rw [observers_pure _ _ _ rfl]; rfl
  | getParam b x => rw [observers_pure _ _ _ rfl]; rfl

/-- **After any operation sequence every context / bind set is the fold of its effective history.** -/
theorem world_is_fold_of_history (h : Hist) (ops : List (Int × Op)) :
    (h.realise.run ops).1 = (ops.foldl (fun h p => h.step p.2) h).realise := by
  induction ops generalizing h with
  | nil => rfl
  | cons p rest ih =>
    obtain ⟨now, op⟩ := p
    simp only [World.run, List.foldl_cons]
    rw [step_realise, ih]

theorem fresh_realise (n m : Nat) : (Hist.fresh n m).realise = World.fresh n m := by
  simp [Hist.fresh, Hist.realise, World.fresh, ctxOf, bindsOf, KMap.addAll]

/-- The effective histories after running `ops` from `n` fresh contexts and `m` fresh bind sets. -/
def histAfter (n m : Nat) (ops : List (Int × Op)) : Hist := ops.foldl (fun h p => h.step p.2) (Hist.fresh n m)

theorem world_after (n m : Nat) (ops : List (Int × Op)) :
    ((World.fresh n m).run ops).1 = (histAfter n m ops).realise := by
  rw [← fresh_realise, world_is_fold_of_history]; rfl

/-- Same latest definition per name. -/
def SameLatest {α} (d₁ d₂ : List (Str × α)) : Prop := ∀ k, KMap.latest d₁ k = KMap.latest d₂ k

/-- **History independence**: two operation sequences (from any numbers of fresh contexts / bind sets,
    with any executions, clones, replaced and rebound names in between) after which the addressed context
    and bind set have the same *latest* definition per name give the same result for every execution at
    the same clock reading. -/
theorem history_independent (n₁ m₁ n₂ m₂ : Nat) (ops₁ ops₂ : List (Int × Op)) (c₁ b₁ c₂ b₂ : Nat)
    (d₁ d₂ : List (Str × Prog)) (e₁ e₂ : List (Str × Val) × List (Str × UserFn))
    (hc₁ : (histAfter n₁ m₁ ops₁).ctxDefs[c₁]? = some d₁) (hc₂ : (histAfter n₂ m₂ ops₂).ctxDefs[c₂]? = some d₂)
    (hb₁ : (histAfter n₁ m₁ ops₁).bindDefs[b₁]? = some e₁) (hb₂ : (histAfter n₂ m₂ ops₂).bindDefs[b₂]? = some e₂)
    (hd : SameLatest d₁ d₂) (hp : SameLatest e₁.1 e₂.1) (hf : SameLatest e₁.2 e₂.2) (now : Int) (name : Str) :
    (((World.fresh n₁ m₁).run ops₁).1.step now (.exec c₁ name b₁)).2 =
    (((World.fresh n₂ m₂).run ops₂).1.step now (.exec c₂ name b₂)).2 := by
  rw [world_after, world_after]
  have e1 : ctxOf d₁ = ctxOf d₂ := by simp [ctxOf, KMap.addAll_determined d₁ d₂ hd]
  have e2 : bindsOf e₁ = bindsOf e₂ := by
    simp [bindsOf, KMap.addAll_determined _ _ hp, KMap.addAll_determined _ _ hf]
  simp [World.step, Hist.realise, List.getElem?_map, hc₁, hc₂, hb₁, hb₂, e1, e2]

/-- The operations that put a list of definitions into context 0 and bind set 0. -/
def defineAll (d : List (Str × Prog)) (e : List (Str × Val) × List (Str × UserFn)) : List (Int × Op) :=
  d.map (fun x => (0, Op.addProg 0 x.1 x.2)) ++ e.1.map (fun x => (0, Op.bind 0 x.1 x.2)) ++
    e.2.map (fun x => (0, Op.bindFn 0 x.1 x.2))

theorem foldl_addProg (d : List (Str × Prog)) : ∀ (d₀ : List (Str × Prog)) (bd : List (List (Str × Val) × List (Str × UserFn))),
    (d.map (fun x => ((0 : Int), Op.addProg 0 x.1 x.2))).foldl (fun (h : Hist) (p : Int × Op) => h.step p.2) ({ ctxDefs := [d₀], bindDefs := bd } : Hist) =
      ({ ctxDefs := [d₀ ++ d], bindDefs := bd } : Hist) := by
  induction d with
  | nil => intro d₀ bd; simp
  | cons x rest ih =>
    intro d₀ bd
    simp only [List.map_cons, List.foldl_cons]
    have hs : Hist.step ({ ctxDefs := [d₀], bindDefs := bd } : Hist) (Op.addProg 0 x.1 x.2) =
        { ctxDefs := [d₀ ++ [(x.1, x.2)]], bindDefs := bd } := by simp [Hist.step]
    rw [hs, ih]; simp

theorem foldl_bind (e : List (Str × Val)) : ∀ (cd : List (List (Str × Prog))) (p₀ : List (Str × Val)) (f₀ : List (Str × UserFn)),
    (e.map (fun x => ((0 : Int), Op.bind 0 x.1 x.2))).foldl (fun (h : Hist) (p : Int × Op) => h.step p.2) ({ ctxDefs := cd, bindDefs := [(p₀, f₀)] } : Hist) =
      ({ ctxDefs := cd, bindDefs := [(p₀ ++ e, f₀)] } : Hist) := by
  induction e with
  | nil => intro cd p₀ f₀; simp
  | cons x rest ih =>
    intro cd p₀ f₀
    simp only [List.map_cons, List.foldl_cons]
    have hs : Hist.step ({ ctxDefs := cd, bindDefs := [(p₀, f₀)] } : Hist) (Op.bind 0 x.1 x.2) =
        { ctxDefs := cd, bindDefs := [(p₀ ++ [(x.1, x.2)], f₀)] } := by simp [Hist.step]
    rw [hs, ih]; simp

theorem foldl_bindFn (e : List (Str × UserFn)) : ∀ (cd : List (List (Str × Prog))) (p₀ : List (Str × Val)) (f₀ : List (Str × UserFn)),
    (e.map (fun x => ((0 : Int), Op.bindFn 0 x.1 x.2))).foldl (fun (h : Hist) (p : Int × Op) => h.step p.2) ({ ctxDefs := cd, bindDefs := [(p₀, f₀)] } : Hist) =
      ({ ctxDefs := cd, bindDefs := [(p₀, f₀ ++ e)] } : Hist) := by
  induction e with
  | nil => intro cd p₀ f₀; simp
  | cons x rest ih =>
    intro cd p₀ f₀
    simp only [List.map_cons, List.foldl_cons]
    have hs : Hist.step ({ ctxDefs := cd, bindDefs := [(p₀, f₀)] } : Hist) (Op.bindFn 0 x.1 x.2) =
        { ctxDefs := cd, bindDefs := [(p₀, f₀ ++ [(x.1, x.2)])] } := by simp [Hist.step]
    rw [hs, ih]; simp

theorem hist_defineAll (d : List (Str × Prog)) (e : List (Str × Val) × List (Str × UserFn)) :
    histAfter 1 1 (defineAll d e) = { ctxDefs := [d], bindDefs := [e] } := by
  simp only [histAfter, defineAll, List.foldl_append, Hist.fresh, List.replicate]
  rw [foldl_addProg, foldl_bind, foldl_bindFn]
  simp

/-- **A final `exec` equals the `exec` in a fresh world holding only the latest definitions**: whatever the
    history, take *any* lists of definitions with the same latest definition per name as the addressed
    context and bind set ended up with (for instance each name once, in any order), put them into one fresh
    context and one fresh bind set, and execute there. -/
theorem exec_eq_fresh_with_latest (n m : Nat) (ops : List (Int × Op)) (c b : Nat)
    (d d' : List (Str × Prog)) (e e' : List (Str × Val) × List (Str × UserFn))
    (hc : (histAfter n m ops).ctxDefs[c]? = some d) (hb : (histAfter n m ops).bindDefs[b]? = some e)
    (hd : SameLatest d d') (hp : SameLatest e.1 e'.1) (hf : SameLatest e.2 e'.2) (now : Int) (name : Str) :
    (((World.fresh n m).run ops).1.step now (.exec c name b)).2 =
    (((World.fresh 1 1).run (defineAll d' e')).1.step now (.exec 0 name 0)).2 := by
  apply history_independent n m 1 1 ops (defineAll d' e') c b 0 0 d d' e e' hc _ hb _ hd hp hf
  · rw [hist_defineAll]; rfl
  · rw [hist_defineAll]; rfl

/-! ### contexts and bind sets evolve independently -/

/-- The context an operation writes to. -/
def ctxTarget : Op → Option Nat
  | .addSrc c _ _ | .addProg c _ _ => some c
  | _ => none

/-- The bind set an operation writes to. -/
def bindsTarget : Op → Option Nat
  | .bind b _ _ | .bindFn b _ _ => some b
  | _ => none

/-- An operation changes no context but the one it is addressed to (cloning only appends). -/
theorem step_frame_ctx (now : Int) (w : World) (op : Op) (j : Nat) (hj : j < w.ctxs.length)
    (h : ctxTarget op ≠ some j) : (w.step now op).1.ctxs[j]? = w.ctxs[j]? := by
  cases op with
  | addSrc c name src =>
    have hne : c ≠ j := by intro e; subst e; simp [ctxTarget] at h
    simp only [World.step]
    split
    · rfl
    · split
      · rfl
      · simp [List.getElem?_set_ne hne]
  | addProg c name p =>
    have hne : c ≠ j := by intro e; subst e; simp [ctxTarget] at h
    simp only [World.step]
    split
    · rfl
    · simp [List.getElem?_set_ne hne]
  | cloneCtx c =>
    simp only [World.step]
    split
    · rfl
    · simp [List.getElem?_append_left hj]
  | bind b x v => simp only [World.step]; split <;> rfl
  | bindFn b f k => simp only [World.step]; split <;> rfl
  | cloneBinds b => simp only [World.step]; split <;> rfl
  | exec c name b => rw [exec_pure]
  | inspect c name => rw [observers_pure _ _ _ rfl]
  | getParam b x => rw [observers_pure _ _ _ rfl]

theorem step_frame_binds (now : Int) (w : World) (op : Op) (j : Nat) (hj : j < w.binds.length)
    (h : bindsTarget op ≠ some j) : (w.step now op).1.binds[j]? = w.binds[j]? := by
  cases op with
  | bind b x v =>
    have hne : b ≠ j := by intro e; subst e; simp [bindsTarget] at h
    simp only [World.step]
    split
    · rfl
    · simp [List.getElem?_set_ne hne]
  | bindFn b f k =>
    have hne : b ≠ j := by intro e; subst e; simp [bindsTarget] at h
    simp only [World.step]
    split
    · rfl
    · simp [List.getElem?_set_ne hne]
  | cloneBinds b =>
    simp only [World.step]
    split
    · rfl
    · simp [List.getElem?_append_left hj]
  | addSrc c name src =>
    simp only [World.step]
    split
    · rfl
    · split <;> rfl
  | addProg c name p => simp only [World.step]; split <;> rfl
  | cloneCtx c => simp only [World.step]; split <;> rfl
  | exec c name b => rw [exec_pure]
  | inspect c name => rw [observers_pure _ _ _ rfl]
  | getParam b x => rw [observers_pure _ _ _ rfl]

theorem step_ctxs_length (now : Int) (w : World) (op : Op) : w.ctxs.length ≤ (w.step now op).1.ctxs.length := by
  cases op <;> simp only [World.step] <;> (try split) <;> (try split) <;> simp

theorem step_binds_length (now : Int) (w : World) (op : Op) : w.binds.length ≤ (w.step now op).1.binds.length := by
  cases op <;> simp only [World.step] <;> (try split) <;> (try split) <;> simp

/-- Over a whole history: a context none of the operations is addressed to stays what it was. -/
theorem run_frame_ctx (w : World) (ops : List (Int × Op)) (j : Nat) (hj : j < w.ctxs.length)
    (h : ∀ p ∈ ops, ctxTarget p.2 ≠ some j) : (w.run ops).1.ctxs[j]? = w.ctxs[j]? := by
  induction ops generalizing w with
  | nil => rfl
  | cons p rest ih =>
    obtain ⟨now, op⟩ := p
    simp only [World.run]
    have hlen := step_ctxs_length now w op
    rw [ih (w.step now op).1 (by omega) (fun q hq => h q (by simp [hq]))]
    exact step_frame_ctx now w op j hj (h (now, op) (by simp))

theorem run_frame_binds (w : World) (ops : List (Int × Op)) (j : Nat) (hj : j < w.binds.length)
    (h : ∀ p ∈ ops, bindsTarget p.2 ≠ some j) : (w.run ops).1.binds[j]? = w.binds[j]? := by
  induction ops generalizing w with
  | nil => rfl
  | cons p rest ih =>
    obtain ⟨now, op⟩ := p
    simp only [World.run]
    have hlen := step_binds_length now w op
    rw [ih (w.step now op).1 (by omega) (fun q hq => h q (by simp [hq]))]
    exact step_frame_binds now w op j hj (h (now, op) (by simp))

/-- A clone is a copy, placed behind the existing contexts. -/
theorem clone_copies_ctx (now : Int) (w : World) (c : Nat) (cx : Ctx) (h : w.ctxs[c]? = some cx) :
    (w.step now (.cloneCtx c)).1.ctxs[w.ctxs.length]? = some cx ∧
    (w.step now (.cloneCtx c)).1.ctxs[c]? = some cx := by
  have hc : c < w.ctxs.length := by
    rcases Nat.lt_or_ge c w.ctxs.length with h' | h'
    · exact h'
    · rw [List.getElem?_eq_none h'] at h; cases h
  simp [World.step, h, List.getElem?_append_left hc]

theorem clone_copies_binds (now : Int) (w : World) (b : Nat) (bs : Binds) (h : w.binds[b]? = some bs) :
    (w.step now (.cloneBinds b)).1.binds[w.binds.length]? = some bs ∧
    (w.step now (.cloneBinds b)).1.binds[b]? = some bs := by
  have hc : b < w.binds.length := by
    rcases Nat.lt_or_ge b w.binds.length with h' | h'
    · exact h'
    · rw [List.getElem?_eq_none h'] at h; cases h
  simp [World.step, h, List.getElem?_append_left hc]

/-- **Clones evolve independently**: after cloning context `c`, any later history that does not write to
    `c` leaves `c` as it was — whatever it does to the clone (index `w.ctxs.length`) — and any later history
    that does not write to the clone leaves the clone a copy of the original at the time of cloning. -/
theorem clone_independent (now : Int) (w : World) (c : Nat) (cx : Ctx) (h : w.ctxs[c]? = some cx)
    (later : List (Int × Op)) :
    ((∀ p ∈ later, ctxTarget p.2 ≠ some c) → ((w.step now (.cloneCtx c)).1.run later).1.ctxs[c]? = some cx) ∧
    ((∀ p ∈ later, ctxTarget p.2 ≠ some w.ctxs.length) →
        ((w.step now (.cloneCtx c)).1.run later).1.ctxs[w.ctxs.length]? = some cx) := by
  have hc : c < w.ctxs.length := by
    rcases Nat.lt_or_ge c w.ctxs.length with h' | h'
    · exact h'
    · rw [List.getElem?_eq_none h'] at h; cases h
  have hlen : (w.step now (.cloneCtx c)).1.ctxs.length = w.ctxs.length + 1 := by simp [World.step, h]
  obtain ⟨h1, h2⟩ := clone_copies_ctx now w c cx h
  constructor
  · intro hl
    rw [run_frame_ctx _ later c (by omega) hl, h2]
  · intro hl
    rw [run_frame_ctx _ later w.ctxs.length (by omega) hl, h1]

/-! ### the clock -/

/-- The clock reading of a step is used for nothing but the built-in table of the execution. -/
theorem clock_enters_through_builtins (now : Int) (cx : Ctx) (bs : Binds) (name : Str) (p : Prog)
    (h : cx.progs.get name = some p) :
    execIn now cx bs name = execProg (stdBuiltins now) (envOf cx bs) p.code := by
  simp [execIn, h]

/-- Apart from executions, no operation looks at the clock at all. -/
theorem only_exec_reads_clock (n₁ n₂ : Int) (w : World) (op : Op) (h : ∀ c name b, op ≠ .exec c name b) :
    w.step n₁ op = w.step n₂ op := by
  cases op with
  | exec c name b => exact absurd rfl (h c name b)
  | addSrc _ _ _ | addProg _ _ _ | bind _ _ _ | bindFn _ _ _ | cloneCtx _ | cloneBinds _ | inspect _ _
  | getParam _ _ => simp only [World.step]

/-- **The tables for two clock readings differ only in `now()` and the `timestamp` constructor**: every
    other built-in function and every other type constructor is the same function. -/
theorem clock_only_partial (n₁ n₂ : Int) :
    (∀ name : Str, String.ofList name ≠ "now" → (stdBuiltins n₁).func name = (stdBuiltins n₂).func name) ∧
    (∀ tn : Str, String.ofList tn ≠ "timestamp" → (stdBuiltins n₁).ctor tn = (stdBuiltins n₂).ctor tn) := by
  constructor
  · intro name h
    have h4 : ("now" == String.ofList name) = false := by
      simp only [beq_eq_false_iff_ne, ne_eq]; exact fun e => h e.symm
    simp only [stdBuiltins, tableBuiltins, mkBuiltins, plainFuncs, List.cons_append, List.nil_append, List.find?]
    cases ("min" == String.ofList name) <;> cases ("max" == String.ofList name) <;>
      cases ("zip" == String.ofList name) <;> simp [h4]
  · intro tn h
    funext args
    simp only [stdBuiltins, tableBuiltins, mkBuiltins, constructType]
    have : (String.ofList tn == "timestamp") = false := by
      simp only [beq_eq_false_iff_ne, ne_eq]; exact h
    simp [this]

/-! ### Non-vacuity -/

section Examples

private def p1 : Prog := { src := "1".toList, code := [.push (.int 1)] }
private def p2 : Prog := { src := "2".toList, code := [.push (.int 2)] }

-- two different histories with the same latest definitions
example : SameLatest [("a".toList, p1), ("b".toList, p1), ("a".toList, p2)] [("b".toList, p1), ("a".toList, p2)] := by
  intro k
  by_cases h1 : "a".toList = k
  · subst h1; rfl
  · by_cases h2 : "b".toList = k
    · subst h2; rfl
    · have h1' : ¬ ['a'] = k := h1
      have h2' : ¬ ['b'] = k := h2
      simp [KMap.latest, h1', h2']

example : (histAfter 1 1 [(0, .addProg 0 "a".toList p1), (5, .cloneCtx 0), (7, .addProg 1 "a".toList p2)]).ctxDefs
    = [[("a".toList, p1)], [("a".toList, p1), ("a".toList, p2)]] := by rfl

example : observes (.exec 0 "a".toList 0) = true := rfl
example : ctxTarget (.addProg 1 "a".toList p1) ≠ some 0 := by simp [ctxTarget]
example : (World.fresh 2 2).ctxs[1]? = some ({ progs := [] } : Ctx) := by rfl
example : KMap.Sorted ([("a".toList, 1), ("b".toList, 2)] : KMap Nat) := by simp [KMap.Sorted, strLt]

end Examples

end C11
end Rscel
