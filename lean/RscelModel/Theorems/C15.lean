import RscelModel.Model.Conv
/-
C15 — string, regex and math built-ins compute their documented function on all inputs.

Strings are `List Char` of any length.  The Unicode case mappings and the regex engine are parameters
(`StrExt`), universally quantified: what is proved about the `…I` variants and the regex functions is
the wiring (both sides folded, prefix/suffix not swapped, invalid pattern ↦ error).
-/
namespace Rscel
namespace C15

/-! ### contains / startsWith / endsWith -/

theorem contains_iff_infix (s n : Str) : containsStr s n = true ↔ n <:+: s := by
  induction s with
  | nil => simp [containsStr, List.isEmpty_iff]
  | cons c cs ih =>
    simp only [containsStr, Bool.or_eq_true, ih, List.isPrefixOf_iff_prefix]
    constructor
    · rintro (h | h)
      · exact h.isInfix
      · exact h.trans (List.suffix_cons c cs).isInfix
    · intro h
      rcases List.infix_cons_iff.1 h with h | h
      · exact Or.inl h
      · exact Or.inr h

theorem startsWith_iff_prefix (s n : Str) : startsWithStr s n = true ↔ n <+: s := by
  simp [startsWithStr]

theorem endsWith_iff_suffix (s n : Str) : endsWithStr s n = true ↔ n <:+ s := by
  simp [endsWithStr]


/-! ### split / rsplit -/

theorem joinStr_cons_of_ne (d x : Str) {l : List Str} (h : l ≠ []) : joinStr d (x :: l) = x ++ d ++ joinStr d l := by
  cases l with
  | nil => contradiction
  | cons y r => rfl

theorem consHead_ne_nil (c : Char) (l : List Str) : consHead c l ≠ [] := by
  cases l <;> simp [consHead]

theorem splitGo_ne_nil (d : Str) (k : Nat) (s : Str) : splitGo d k s ≠ [] := by
  induction s generalizing k with
  | nil => simp [splitGo]
  | cons c cs ih =>
    cases k with
    | succ k => simpa [splitGo] using ih k
    | zero =>
      simp only [splitGo]
      split
      · simp
      · exact consHead_ne_nil _ _

theorem joinStr_consHead (d : Str) (c : Char) {l : List Str} (h : l ≠ []) :
    joinStr d (consHead c l) = c :: joinStr d l := by
  cases l with
  | nil => contradiction
  | cons p ps =>
    cases ps with
    | nil => rfl
    | cons q r => rfl

theorem prefix_drop_eq {d s : Str} (h : d <+: s) : d ++ s.drop d.length = s := by
  obtain ⟨t, rfl⟩ := h
  simp

/-- Joining the pieces of the scan gives back what was scanned (after the characters still to be skipped). -/
theorem joinStr_splitGo (d : Str) (hd : d ≠ []) (k : Nat) (s : Str) :
    joinStr d (splitGo d k s) = s.drop k := by
  induction s generalizing k with
  | nil => simp [splitGo, joinStr]
  | cons c cs ih =>
    cases k with
    | succ k => simpa [splitGo] using ih k
    | zero =>
      simp only [splitGo, List.drop_zero]
      split
      · rename_i hp
        rw [joinStr_cons_of_ne _ _ (splitGo_ne_nil _ _ _), ih]
        have hp' : d <+: c :: cs := List.isPrefixOf_iff_prefix.1 hp
        have hl : 0 < d.length := List.length_pos_iff.2 hd
        have := prefix_drop_eq hp'
        rw [show (c :: cs).drop d.length = cs.drop (d.length - 1) by
          cases hdl : d.length with
          | zero => omega
          | succ m => simp] at this
        simpa using this
      · rw [joinStr_consHead _ _ (splitGo_ne_nil _ _ _), ih]; simp

/-- `pieces.join(d) == s` for the pieces of `s.split(d)`, for every delimiter (the empty one included). -/
theorem split_join (s d : Str) : joinStr d (splitStr s d) = s := by
  unfold splitStr
  split
  · rename_i h
    have hd : d = [] := List.isEmpty_iff.1 h
    subst hd
    induction s with
    | nil => rfl
    | cons c cs ih =>
      have : (([] : Str) :: List.map (fun c => [c]) (c :: cs) ++ [[]]) = [] :: [c] :: (List.map (fun c => [c]) cs ++ [[]]) := by simp
      rw [this]
      have h2 : ([] : Str) :: List.map (fun c => [c]) cs ++ [[]] = [] :: (List.map (fun c => [c]) cs ++ [[]]) := by simp
      rw [h2] at ih
      rw [joinStr_cons_of_ne _ _ (by simp)] at ih ⊢
      rw [joinStr_cons_of_ne _ _ (by simp)]
      simp at ih ⊢
      exact ih
  · rename_i h
    have hd : d ≠ [] := by intro h'; subst h'; simp at h
    simpa using joinStr_splitGo d hd 0 s


/-- Skipping `k` characters is scanning the rest. -/
theorem splitGo_skip (d : Str) (k : Nat) (s : Str) : splitGo d k s = splitGo d 0 (s.drop k) := by
  induction s generalizing k with
  | nil => simp [splitGo]
  | cons c cs ih =>
    cases k with
    | zero => rfl
    | succ k => simpa [splitGo] using ih k

/-- The first piece is a prefix of what is scanned. -/
theorem splitGo_head_prefix (d : Str) (s : Str) : ∃ p ps, splitGo d 0 s = p :: ps ∧ p <+: s := by
  induction s with
  | nil => exact ⟨[], [], rfl, List.prefix_refl _⟩
  | cons c cs ih =>
    simp only [splitGo]
    split
    · exact ⟨[], _, rfl, List.nil_prefix⟩
    · obtain ⟨p, ps, h, hp⟩ := ih
      rw [h]
      exact ⟨c :: p, ps, rfl, List.cons_prefix_cons.2 ⟨rfl, hp⟩⟩

/-- No piece contains the delimiter: an occurrence inside a piece would have been split by the scan. -/
theorem splitGo_no_occurrence (d : Str) (hd : d ≠ []) (k : Nat) (s : Str) :
    ∀ p ∈ splitGo d k s, ¬ d <:+: p := by
  induction s generalizing k with
  | nil =>
    intro p hp
    simp [splitGo] at hp; subst hp
    intro h; exact hd (List.infix_nil.1 h)
  | cons c cs ih =>
    cases k with
    | succ k => simpa [splitGo] using ih k
    | zero =>
      simp only [splitGo]
      split
      · intro p hp
        rcases List.mem_cons.1 hp with rfl | hp
        · intro h; exact hd (List.infix_nil.1 h)
        · exact ih _ p hp
      · rename_i hnp
        obtain ⟨q, qs, hq, hqp⟩ := splitGo_head_prefix d cs
        rw [hq]
        intro p hp
        simp only [consHead, List.mem_cons] at hp
        rcases hp with rfl | hp
        · intro h
          rcases List.infix_cons_iff.1 h with h | h
          · -- d would be a prefix of c :: cs
            apply hnp
            exact List.isPrefixOf_iff_prefix.2 (h.trans (List.cons_prefix_cons.2 ⟨rfl, hqp⟩))
          · exact ih 0 q (by rw [hq]; simp) h
        · exact ih 0 p (by rw [hq]; simp [hp])

theorem split_no_occurrence (s d : Str) (hd : d ≠ []) : ∀ p ∈ splitStr s d, ¬ d <:+: p := by
  unfold splitStr
  have : d.isEmpty = false := by cases d <;> simp_all
  simp only [this, Bool.false_eq_true, ↓reduceIte]
  exact splitGo_no_occurrence d hd 0 s

/-- A string without the delimiter is one piece. -/
theorem split_no_match (s d : Str) (hd : d ≠ []) (h : ¬ d <:+: s) : splitStr s d = [s] := by
  unfold splitStr
  have : d.isEmpty = false := by cases d <;> simp_all
  simp only [this, Bool.false_eq_true, ↓reduceIte]
  induction s with
  | nil => rfl
  | cons c cs ih =>
    simp only [splitGo]
    have h1 : ¬ d <+: c :: cs := fun hp => h hp.isInfix
    have h2 : ¬ d <:+: cs := fun hi => h (hi.trans (List.suffix_cons c cs).isInfix)
    simp only [List.isPrefixOf_iff_prefix, h1, ↓reduceIte]
    rw [ih h2]; rfl

/-- The scan splits at the leftmost occurrence: when `d` does not start at any position inside `p`,
    the first piece of `p ++ d ++ rest` is `p` and the scan continues after that occurrence of `d`. -/
theorem split_leftmost (p d rest : Str) (hd : d ≠ [])
    (h : ∀ i, i < p.length → ¬ d <+: (p ++ d ++ rest).drop i) :
    splitStr (p ++ d ++ rest) d = p :: splitStr rest d := by
  unfold splitStr
  have : d.isEmpty = false := by cases d <;> simp_all
  simp only [this, Bool.false_eq_true, ↓reduceIte]
  induction p with
  | nil =>
    obtain ⟨c, cs, rfl⟩ := List.exists_cons_of_ne_nil hd
    have hp : (c :: cs).isPrefixOf ([] ++ (c :: cs) ++ rest) = true := by
      simp
    simp only [List.nil_append, List.cons_append, splitGo] at hp ⊢
    simp only [hp, ↓reduceIte]
    rw [splitGo_skip]
    simp
  | cons x p ih =>
    have h0 := h 0 (by simp)
    simp only [List.drop_zero] at h0
    simp only [List.cons_append, splitGo] at h0 ⊢
    simp only [List.isPrefixOf_iff_prefix, h0, ↓reduceIte]
    have ih' := ih (fun i hi => by
      have := h (i + 1) (by simp; omega)
      simpa using this)
    simp only [List.append_assoc] at ih' ⊢
    rw [ih']; rfl


theorem joinStr_snoc (d x : Str) (l : List Str) (h : l ≠ []) : joinStr d (l ++ [x]) = joinStr d l ++ d ++ x := by
  induction l with
  | nil => contradiction
  | cons y r ih =>
    cases r with
    | nil => simp [joinStr]
    | cons z r' =>
      have : (y :: z :: r') ++ [x] = y :: ((z :: r') ++ [x]) := rfl
      have e1 : joinStr d (y :: ((z :: r') ++ [x])) = y ++ d ++ joinStr d ((z :: r') ++ [x]) :=
        joinStr_cons_of_ne _ _ (by simp)
      have e2 : joinStr d (y :: z :: r') = y ++ d ++ joinStr d (z :: r') := rfl
      rw [this, e1, ih (by simp), e2]; simp [List.append_assoc]

/-- Mirror image of joining. -/
theorem joinStr_reverse (d : Str) (l : List Str) :
    joinStr d (l.map List.reverse).reverse = (joinStr d.reverse l).reverse := by
  induction l with
  | nil => rfl
  | cons x r ih =>
    cases r with
    | nil => simp [joinStr]
    | cons y r' =>
      rw [joinStr_cons_of_ne _ _ (by simp)]
      simp only [List.map_cons, List.reverse_cons] at ih ⊢
      rw [joinStr_snoc _ _ _ (by simp), ih]
      simp [List.append_assoc]

/-- The pieces of `rsplit`, put back in left-to-right order, rejoin to the original. -/
theorem rsplit_join (s d : Str) : joinStr d (rsplitStr s d).reverse = s := by
  unfold rsplitStr
  rw [joinStr_reverse, split_join, List.reverse_reverse]

theorem infix_reverse_iff {a b : Str} : a.reverse <:+: b.reverse ↔ a <:+: b := by
  simp [List.reverse_infix]

/-- No piece of `rsplit` contains the delimiter either. -/
theorem rsplit_no_occurrence (s d : Str) (hd : d ≠ []) : ∀ p ∈ rsplitStr s d, ¬ d <:+: p := by
  intro p hp
  unfold rsplitStr at hp
  obtain ⟨q, hq, rfl⟩ := List.mem_map.1 hp
  have := split_no_occurrence s.reverse d.reverse (by simpa using hd) q hq
  intro h
  apply this
  have := infix_reverse_iff.2 h
  simpa using this

/-- `rsplit` scans from the right: when `d` does not end at any position inside `p`, the first piece of
    `rest ++ d ++ p` is `p` and the scan continues to the left of that occurrence. -/
theorem rsplit_rightmost (p d rest : Str) (hd : d ≠ [])
    (h : ∀ i, i < p.length → ¬ d.reverse <+: (p.reverse ++ d.reverse ++ rest.reverse).drop i) :
    rsplitStr (rest ++ d ++ p) d = p :: rsplitStr rest d := by
  unfold rsplitStr
  have e : (rest ++ d ++ p).reverse = p.reverse ++ d.reverse ++ rest.reverse := by simp [List.append_assoc]
  rw [e, split_leftmost p.reverse d.reverse rest.reverse (by simpa using hd) (by simpa using h)]
  simp

/-- With overlapping occurrences the two scans differ (`"ababa"` at `"aba"`); the empty delimiter
    matches at every boundary. -/
example : splitStr "ababa".toList "aba".toList = ["".toList, "ba".toList] ∧
    rsplitStr "ababa".toList "aba".toList = ["".toList, "ab".toList] ∧
    rsplitStr "a,b,c".toList ",".toList = ["c".toList, "b".toList, "a".toList] ∧
    splitStr "ab".toList [] = [[], ['a'], ['b'], []] ∧ rsplitStr "ab".toList [] = [[], ['b'], ['a'], []] := by decide

/-! ### replace / remove -/

theorem replaceGo_eq (d b : Str) (k : Nat) (s : Str) :
    replaceGo d b k s = joinStr b (splitGo d k s) := by
  induction s generalizing k with
  | nil => simp [replaceGo, splitGo, joinStr]
  | cons c cs ih =>
    cases k with
    | succ k => simpa [replaceGo, splitGo] using ih k
    | zero =>
      simp only [replaceGo, splitGo]
      split
      · rw [joinStr_cons_of_ne _ _ (splitGo_ne_nil _ _ _), ih]; simp
      · rw [joinStr_consHead _ _ (splitGo_ne_nil _ _ _), ih]

theorem join_chars (b : Str) (s : Str) :
    joinStr b (s.map (fun c => [c]) ++ [[]]) = s.flatMap (fun c => c :: b) := by
  induction s with
  | nil => rfl
  | cons c cs ih =>
    have : List.map (fun c => [c]) (c :: cs) ++ [[]] = [c] :: (List.map (fun c => [c]) cs ++ [[]]) := by simp
    rw [this, joinStr_cons_of_ne _ _ (by simp), ih]
    simp

/-- `s.replace(a, b)` is: split at `a`, join with `b` — for every `a`, the empty pattern included. -/
theorem replace_eq (s a b : Str) : replaceStr s a b = joinStr b (splitStr s a) := by
  unfold replaceStr splitStr
  split
  · have : ([] : Str) :: List.map (fun c => [c]) s ++ [[]] = [] :: (List.map (fun c => [c]) s ++ [[]]) := by simp
    rw [this, joinStr_cons_of_ne _ _ (by simp), join_chars]; simp
  · exact replaceGo_eq a b 0 s

theorem joinStr_nil (l : List Str) : joinStr [] l = l.flatten := by
  induction l with
  | nil => rfl
  | cons x r ih =>
    cases r with
    | nil => simp [joinStr]
    | cons y r' => rw [joinStr_cons_of_ne _ _ (by simp), ih]; simp

/-- `remove` keeps exactly what lies between the occurrences. -/
theorem remove_eq (s p : Str) : removeStr s p = (splitStr s p).flatten := by
  unfold removeStr; rw [replace_eq, joinStr_nil]


/-! ### trim -/

theorem mem_takeWhile_true {p : Char → Bool} {l : Str} {c : Char} (h : c ∈ l.takeWhile p) : p c = true := by
  induction l with
  | nil => simp at h
  | cons x xs ih =>
    by_cases hx : p x = true
    · rw [List.takeWhile_cons_of_pos hx] at h
      rcases List.mem_cons.1 h with rfl | h
      · exact hx
      · exact ih h
    · rw [List.takeWhile_cons_of_neg hx] at h; simp at h

theorem dropWhile_head_false {p : Char → Bool} {l : Str} {c : Char} {rest : Str}
    (h : l.dropWhile p = c :: rest) : p c = false := by
  induction l with
  | nil => simp at h
  | cons x xs ih =>
    by_cases hx : p x = true
    · rw [List.dropWhile_cons_of_pos hx] at h; exact ih h
    · rw [List.dropWhile_cons_of_neg hx] at h
      simp at h; obtain ⟨rfl, _⟩ := h; simpa using hx

/-- `trimStart` removes the maximal whitespace prefix. -/
theorem trimStart_spec (s : Str) :
    ∃ l, s = l ++ trimStartStr s ∧ (∀ c ∈ l, isWs c = true) ∧
      (∀ c rest, trimStartStr s = c :: rest → isWs c = false) := by
  refine ⟨s.takeWhile isWs, ?_, ?_, ?_⟩
  · simp [trimStartStr]
  · intro c hc; exact mem_takeWhile_true hc
  · intro c rest h
    exact dropWhile_head_false h

/-- `trimEnd` removes the maximal whitespace suffix. -/
theorem trimEnd_spec (s : Str) :
    ∃ r, s = trimEndStr s ++ r ∧ (∀ c ∈ r, isWs c = true) ∧
      (∀ c init, trimEndStr s = init ++ [c] → isWs c = false) := by
  obtain ⟨l, h1, h2, h3⟩ := trimStart_spec s.reverse
  refine ⟨l.reverse, ?_, ?_, ?_⟩
  · have := congrArg List.reverse h1
    simpa [trimEndStr, trimStartStr] using this
  · intro c hc; exact h2 c (by simpa using hc)
  · intro c init h
    apply h3 c init.reverse
    have := congrArg List.reverse h
    simpa [trimEndStr, trimStartStr] using this

/-- `trim`: whitespace off both ends, nothing else; what is left neither starts nor ends with whitespace. -/
theorem trim_spec (s : Str) :
    ∃ l r, s = l ++ trimStr s ++ r ∧ (∀ c ∈ l, isWs c = true) ∧ (∀ c ∈ r, isWs c = true) ∧
      (∀ c rest, trimStr s = c :: rest → isWs c = false) ∧
      (∀ c init, trimStr s = init ++ [c] → isWs c = false) := by
  obtain ⟨l, h1, h2, h3⟩ := trimStart_spec s
  obtain ⟨r, g1, g2, g3⟩ := trimEnd_spec (trimStartStr s)
  refine ⟨l, r, ?_, h2, g2, ?_, g3⟩
  · unfold trimStr; rw [List.append_assoc, ← g1]; exact h1
  · intro c rest h
    unfold trimStr at h
    -- the first character of the trimmed text is the first character of `trimStart s`
    rw [g1] at h3
    rw [h] at h3
    exact h3 c (rest ++ r) (by simp)

theorem trim_idem (s : Str) : trimStr (trimStr s) = trimStr s := by
  obtain ⟨_, _, _, _, _, h4, h5⟩ := trim_spec s
  generalize trimStr s = t at *
  have e1 : trimStartStr t = t := by
    cases t with
    | nil => rfl
    | cons c rest => simp [trimStartStr, List.dropWhile, h4 c rest rfl]
  have e2 : trimEndStr t = t := by
    unfold trimEndStr
    cases h : t.reverse with
    | nil => simp_all
    | cons c rest =>
      have : t = rest.reverse ++ [c] := by
        have := congrArg List.reverse h; simpa using this
      simp [List.dropWhile, h5 c rest.reverse this, ← h]
  unfold trimStr; rw [e1, e2]

example : trimStr " \t a b \n".toList = "a b".toList ∧ isWs '​' = false ∧ isWs '\u0085' = true := by decide


/-! ### trimStartMatches / trimEndMatches -/

theorem stripPrefixes_spec (p : Str) (hp : p ≠ []) (f : Nat) (s : Str) (hf : s.length ≤ f) :
    ∃ k, s = (List.replicate k p).flatten ++ stripPrefixes p f s ∧ ¬ p <+: stripPrefixes p f s := by
  induction f generalizing s with
  | zero =>
    have : s = [] := List.length_eq_zero_iff.1 (by omega)
    subst this
    refine ⟨0, by simp [stripPrefixes], ?_⟩
    simp only [stripPrefixes]
    intro h; exact hp (List.prefix_nil.1 h)
  | succ f ih =>
    simp only [stripPrefixes]
    split
    · rename_i h
      have hpre : p <+: s := List.isPrefixOf_iff_prefix.1 h
      have hl : 0 < p.length := List.length_pos_iff.2 hp
      have hlen : (s.drop p.length).length ≤ f := by
        have := hpre.length_le
        simp; omega
      obtain ⟨k, hk1, hk2⟩ := ih (s.drop p.length) hlen
      refine ⟨k + 1, ?_, hk2⟩
      have e := prefix_drop_eq hpre
      rw [List.replicate_succ, List.flatten_cons, List.append_assoc, ← hk1, e]
    · rename_i h
      exact ⟨0, by simp, fun hpre => h (List.isPrefixOf_iff_prefix.2 hpre)⟩

/-- `trimStartMatches(p)`: `s` is some number of copies of `p` followed by the result, which does not
    start with `p` any more; the empty pattern removes nothing. -/
theorem trimStartMatches_spec (s p : Str) :
    (p = [] → trimStartMatchesStr s p = s) ∧
    (p ≠ [] → ∃ k, s = (List.replicate k p).flatten ++ trimStartMatchesStr s p ∧ ¬ p <+: trimStartMatchesStr s p) := by
  constructor
  · rintro rfl; rfl
  · intro hp
    have : p.isEmpty = false := by cases p <;> simp_all
    simp only [trimStartMatchesStr, this, Bool.false_eq_true, ↓reduceIte]
    exact stripPrefixes_spec p hp s.length s (Nat.le_refl _)

theorem flatten_replicate_reverse (k : Nat) (p : Str) :
    ((List.replicate k p.reverse).flatten).reverse = (List.replicate k p).flatten := by
  induction k with
  | zero => rfl
  | succ k ih =>
    rw [List.replicate_succ, List.flatten_cons, List.reverse_append, ih, List.reverse_reverse]
    -- p ++ p^k = p^k ++ p
    clear ih
    induction k with
    | zero => simp
    | succ k ih2 =>
      rw [List.replicate_succ, List.flatten_cons, List.append_assoc, ih2]
      simp [List.replicate_succ]

/-- `trimEndMatches(p)`: the mirror image. -/
theorem trimEndMatches_spec (s p : Str) :
    (p = [] → trimEndMatchesStr s p = s) ∧
    (p ≠ [] → ∃ k, s = trimEndMatchesStr s p ++ (List.replicate k p).flatten ∧ ¬ p <:+ trimEndMatchesStr s p) := by
  constructor
  · rintro rfl; simp [trimEndMatchesStr, trimStartMatchesStr]
  · intro hp
    obtain ⟨k, h1, h2⟩ := (trimStartMatches_spec s.reverse p.reverse).2 (by simpa using hp)
    refine ⟨k, ?_, ?_⟩
    · have := congrArg List.reverse h1
      rw [List.reverse_reverse, List.reverse_append, flatten_replicate_reverse] at this
      exact this
    · intro h
      apply h2
      have := List.reverse_prefix.2 (show p.reverse.reverse <:+ (trimStartMatchesStr s.reverse p.reverse).reverse by simpa [trimEndMatchesStr] using h)
      simpa using this

example : trimStartMatchesStr "ababc".toList "ab".toList = "c".toList ∧
    trimEndMatchesStr "cabab".toList "ab".toList = "c".toList ∧
    trimStartMatchesStr "aab".toList "ab".toList = "aab".toList := by decide

/-! ### splitAt -/

theorem utf8Width_pos (c : Char) : 0 < utf8Width c := by
  unfold utf8Width; split <;> (try split) <;> (try split) <;> omega

theorem utf8Len_cons (c : Char) (s : Str) : utf8Len (c :: s) = utf8Width c + utf8Len s := by
  simp [utf8Len]

/-- `splitAt(i)`: the two parts concatenate to the string and the first has exactly `i` bytes of UTF-8 —
    such a cut exists iff `i` is at most the length and on a character boundary; otherwise the call fails. -/
theorem splitAt_spec (i : Nat) (s l r : Str) :
    splitAtBytes i s = some (l, r) ↔ l ++ r = s ∧ utf8Len l = i := by
  induction s generalizing i l with
  | nil =>
    cases i with
    | zero =>
      simp only [splitAtBytes, Option.some.injEq, Prod.mk.injEq]
      constructor
      · rintro ⟨rfl, rfl⟩; exact ⟨rfl, rfl⟩
      · rintro ⟨h, _⟩
        have := List.append_eq_nil_iff.1 h
        exact ⟨this.1.symm, this.2.symm⟩
    | succ n =>
      simp only [splitAtBytes]
      constructor
      · intro h; cases h
      · rintro ⟨h, h2⟩
        have := List.append_eq_nil_iff.1 h
        rw [this.1] at h2; simp [utf8Len] at h2
  | cons c cs ih =>
    cases i with
    | zero =>
      simp only [splitAtBytes, Option.some.injEq, Prod.mk.injEq]
      constructor
      · rintro ⟨rfl, rfl⟩; exact ⟨rfl, rfl⟩
      · rintro ⟨h, h2⟩
        cases l with
        | nil => exact ⟨rfl, by simpa using h.symm⟩
        | cons x xs =>
          rw [utf8Len_cons] at h2
          have := utf8Width_pos x; omega
    | succ n =>
      simp only [splitAtBytes]
      split
      · rename_i hw
        constructor
        · intro h
          cases hs : splitAtBytes (n + 1 - utf8Width c) cs with
          | none => simp [hs] at h
          | some pr =>
            obtain ⟨l', r'⟩ := pr
            simp [hs] at h
            obtain ⟨rfl, rfl⟩ := h
            obtain ⟨h1, h2⟩ := (ih _ _).1 hs
            exact ⟨by simp [h1], by rw [utf8Len_cons, h2]; omega⟩
        · rintro ⟨h, h2⟩
          cases l with
          | nil => simp [utf8Len] at h2
          | cons x xs =>
            simp at h
            obtain ⟨rfl, hxs⟩ := h
            rw [utf8Len_cons] at h2
            have := (ih (n + 1 - utf8Width x) xs).2 ⟨hxs, by omega⟩
            simp [this]
      · rename_i hw
        constructor
        · intro h; cases h
        · rintro ⟨h, h2⟩
          cases l with
          | nil => simp [utf8Len] at h2
          | cons x xs =>
            simp at h
            obtain ⟨rfl, hxs⟩ := h
            rw [utf8Len_cons] at h2
            have : 0 ≤ utf8Len xs := Nat.zero_le _
            omega

example : splitAtBytes 3 "aé".toList = some ("aé".toList, []) ∧ splitAtBytes 2 "aé".toList = none ∧
    splitAtBytes 4 "aé".toList = none ∧ splitAtBytes 1 "aé".toList = some (['a'], ['é']) := by decide

/-! ### splitWhiteSpace -/

theorem wordsGo_spec (s acc : Str) (hacc : ∀ c ∈ acc, isWs c = false) :
    (∀ w ∈ wordsGo s acc, w ≠ [] ∧ ∀ c ∈ w, isWs c = false) ∧
    (wordsGo s acc).flatten = acc.reverse ++ s.filter (fun c => !isWs c) := by
  induction s generalizing acc with
  | nil =>
    simp only [wordsGo]
    split
    · rename_i h; have := List.isEmpty_iff.1 h; subst this; simp
    · rename_i h
      refine ⟨?_, by simp⟩
      intro w hw; simp at hw; subst hw
      exact ⟨by intro h2; apply h; simpa using h2, by simpa using hacc⟩
  | cons c cs ih =>
    simp only [wordsGo]
    by_cases hc : isWs c = true
    · simp only [hc, ↓reduceIte]
      obtain ⟨i1, i2⟩ := ih [] (by simp)
      split
      · rename_i h; have := List.isEmpty_iff.1 h; subst this
        exact ⟨i1, by simp [i2, hc]⟩
      · rename_i h
        refine ⟨?_, by simp [i2, hc]⟩
        intro w hw
        rcases List.mem_cons.1 hw with rfl | hw
        · exact ⟨by intro h2; apply h; simpa using h2, by simpa using hacc⟩
        · exact i1 w hw
    · have hc' : isWs c = false := by simpa using hc
      simp only [hc', Bool.false_eq_true, ↓reduceIte]
      obtain ⟨i1, i2⟩ := ih (c :: acc) (by intro x hx; rcases List.mem_cons.1 hx with rfl | hx; exact hc'; exact hacc x hx)
      exact ⟨i1, by simp [i2, hc']⟩

/-- `splitWhiteSpace`: non-empty words without whitespace whose concatenation is the text with all
    whitespace removed (so the words are the maximal runs, in order). -/
theorem splitWhiteSpace_spec (s : Str) :
    (∀ w ∈ splitWsStr s, w ≠ [] ∧ ∀ c ∈ w, isWs c = false) ∧
    (splitWsStr s).flatten = s.filter (fun c => !isWs c) := by
  have := wordsGo_spec s [] (by simp)
  simpa [splitWsStr] using this

example : splitWsStr " a bc \td ".toList = ["a".toList, "bc".toList, "d".toList] := by decide

/-! ### the function table: names, wiring of the case-insensitive and regex variants -/

/-- Calling the built-in bound to `name` in the default table, over any library parameters
    (an unbound name is a Binding error). -/
def call (X : ConvExt) (E : StrExt) (name : String) (this : Val) (args : List Val) : Val :=
  match (mkBuiltins X 0 (stringFuncs E ++ mathFuncs) (plainStringFuncs E)).func name.toList with
  | some f => f this args
  | none => .err .binding

variable (X : ConvExt) (E : StrExt)

macro "table_simp" " [" ls:Lean.Parser.Tactic.simpLemma,* "]" : tactic =>
  `(tactic| simp [call, mkBuiltins, plainFuncs, plainStringFuncs, dispatchFuncs, stringFuncs, mathFuncs, dispatch, ovSS, ovSSS,
      Overload.accepts, argsMatch, Tag.matches, isNull, $ls,*])

/-- The case-sensitive tests are the substring / prefix / suffix relations. -/
theorem contains_startsWith_endsWith (s n : Str) :
    call X E "contains" (.str s) [.str n] = .bool (decide (n <:+: s)) ∧
    call X E "startsWith" (.str s) [.str n] = .bool (decide (n <+: s)) ∧
    call X E "endsWith" (.str s) [.str n] = .bool (decide (n <:+ s)) := by
  refine ⟨?_, ?_, ?_⟩
  · table_simp []; rw [Bool.eq_iff_iff]; simp [contains_iff_infix]
  · table_simp []; rw [Bool.eq_iff_iff]; simp [startsWith_iff_prefix]
  · table_simp []; rw [Bool.eq_iff_iff]; simp [endsWith_iff_suffix]

/-- The case-insensitive variants fold **both** sides with the same mapping and keep the relation:
    `containsI` is substring, `startsWithI` prefix, `endsWithI` suffix — whatever `lower` is. -/
theorem caseInsensitive_wiring (s n : Str) :
    call X E "containsI" (.str s) [.str n] = .bool (decide (E.lower n <:+: E.lower s)) ∧
    call X E "startsWithI" (.str s) [.str n] = .bool (decide (E.lower n <+: E.lower s)) ∧
    call X E "endsWithI" (.str s) [.str n] = .bool (decide (E.lower n <:+ E.lower s)) := by
  refine ⟨?_, ?_, ?_⟩
  · table_simp []; rw [Bool.eq_iff_iff]; simp [contains_iff_infix]
  · table_simp []; rw [Bool.eq_iff_iff]; simp [startsWith_iff_prefix]
  · table_simp []; rw [Bool.eq_iff_iff]; simp [endsWith_iff_suffix]

/-- `toLower` / `toUpper` are the library mappings; `trim*` the functions specified above. -/
theorem case_and_trim_wiring (s : Str) :
    call X E "toLower" (.str s) [] = .str (E.lower s) ∧ call X E "toUpper" (.str s) [] = .str (E.upper s) ∧
    call X E "trim" (.str s) [] = .str (trimStr s) ∧ call X E "trimStart" (.str s) [] = .str (trimStartStr s) ∧
    call X E "trimEnd" (.str s) [] = .str (trimEndStr s) := by
  refine ⟨?_, ?_, ?_, ?_, ?_⟩ <;> table_simp [stringMethod]

/-- The regex functions hand haystack, pattern (and replacement) to the engine in that order and turn
    "pattern does not compile" into an error: nothing else. -/
theorem regex_wiring (s p r : Str) :
    call X E "matches" (.str s) [.str p] = (match E.reMatch s p with | some b => .bool b | none => .err .value) ∧
    call X E "matchCaptures" (.str s) [.str p] = capturesVal (E.reCaptures s p) ∧
    call X E "matchReplaceOnce" (.str s) [.str p, .str r] =
      (match E.reReplace false s p r with | some x => .str x | none => .err .value) ∧
    call X E "matchReplace" (.str s) [.str p, .str r] =
      (match E.reReplace true s p r with | some x => .str x | none => .err .value) := by
  refine ⟨?_, ?_, ?_, ?_⟩
  · cases h : E.reMatch s p <;> table_simp [h]
  · table_simp []
  · cases h : E.reReplace false s p r <;> table_simp [h]
  · cases h : E.reReplace true s p r <;> table_simp [h]

/-- An invalid pattern is an error of all four. -/
theorem regex_invalid_pattern (s p r : Str)
    (h1 : E.reMatch s p = none) (h2 : E.reCaptures s p = none) (h3 : ∀ a, E.reReplace a s p r = none) :
    call X E "matches" (.str s) [.str p] = .err .value ∧ call X E "matchCaptures" (.str s) [.str p] = .err .value ∧
    call X E "matchReplaceOnce" (.str s) [.str p, .str r] = .err .value ∧
    call X E "matchReplace" (.str s) [.str p, .str r] = .err .value := by
  obtain ⟨a, b, c, d⟩ := regex_wiring X E s p r
  rw [a, b, c, d, h1, h2, h3, h3]; exact ⟨rfl, rfl, rfl, rfl⟩

/-- split / rsplit / replace / remove / trimStartMatches / trimEndMatches / splitAt / splitWhiteSpace are
    the functions specified above. -/
theorem string_function_wiring (s a b : Str) :
    call X E "split" (.str s) [.str a] = strList (splitStr s a) ∧
    call X E "rsplit" (.str s) [.str a] = strList (rsplitStr s a) ∧
    call X E "replace" (.str s) [.str a, .str b] = .str (replaceStr s a b) ∧
    call X E "remove" (.str s) [.str a] = .str (removeStr s a) ∧
    call X E "trimStartMatches" (.str s) [.str a] = .str (trimStartMatchesStr s a) ∧
    call X E "trimEndMatches" (.str s) [.str a] = .str (trimEndMatchesStr s a) ∧
    call X E "splitWhiteSpace" (.str s) [] = strList (splitWsStr s) := by
  refine ⟨?_, ?_, ?_, ?_, ?_, ?_, ?_⟩ <;> table_simp []

/-- `splitAt`: a negative offset fails, otherwise `splitAtBytes` decides (see `splitAt_spec`). -/
theorem splitAt_wiring (s : Str) (i : Int) :
    (i < 0 → call X E "splitAt" (.str s) [.int i] = .err .value) ∧
    (0 ≤ i → ∀ l r, splitAtBytes i.toNat s = some (l, r) → call X E "splitAt" (.str s) [.int i] = .list [.str l, .str r]) ∧
    (0 ≤ i → splitAtBytes i.toNat s = none → call X E "splitAt" (.str s) [.int i] = .err .value) := by
  refine ⟨?_, ?_, ?_⟩
  · intro h; table_simp [h]
  · intro h l r hs
    have : ¬ i < 0 := by omega
    table_simp [this, hs]
  · intro h hs
    have : ¬ i < 0 := by omega
    table_simp [this, hs]


end C15
end Rscel
