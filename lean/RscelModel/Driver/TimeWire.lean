import RscelModel.Driver.Wire
import RscelModel.Model.Time
import RscelModel.Model.Uom
/-
Driver commands of C16.
  acc <function name> <offset|none> <this> <l:n args…>   → value   (zone database = constantly the given offset)
  uom <value> <from> <to>                                → q:<mantissa>e<exp> | nonfinite | e:<kind>
-/
namespace Rscel.Wire
open Rscel

def fieldOfName (n : String) : Option Time.Field := Time.Field.all.find? (·.funcName == n)

def decDigits (n : Nat) : Nat := (toString n).length

/-- A rational as `<sign><integer>e<exp>` with at least 30 significant digits (truncated). -/
def sciOfRat (q : Rat) : String :=
  if q.num == 0 then "0e0" else
  let a := q.num.natAbs
  let s : Int := 30 + (decDigits q.den : Int) - (decDigits a : Int)
  let n : Nat := if s ≥ 0 then a * 10 ^ s.toNat / q.den else a / (q.den * 10 ^ (-s).toNat)
  s!"{if q.num < 0 then "-" else ""}{n}e{-s}"

def handleTimeOp (cmd : String) (args : List String) : Option String := do
  match cmd with
  | "acc" =>
    match args with
    | fname :: off :: rest => do
      let f ← fieldOfName fname
      let o : Option Int ← if off == "none" then some none else off.toInt?.map some
      let (this, rest) ← parseVal rest
      let (a, _) ← parseVal rest
      match a with
      | .list l => pure (showVal (Time.callAcc (fun _ _ => o) f this l))
      | _ => none
    | _ => none
  | "uom" => do
    let (v, rest) ← parseVal args
    let (f, rest) ← parseVal rest
    let (t, _) ← parseVal rest
    match Uom.uomConvert v f t with
    | .ok q => pure s!"q:{sciOfRat q}"
    | .nonFinite => pure "nonfinite"
    | .err k => pure s!"e:{k.name}"
  | _ => none

end Rscel.Wire
