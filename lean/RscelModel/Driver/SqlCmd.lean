import RscelModel.Model.Sql
import RscelModel.Model.Parse
import RscelModel.Driver.Wire
/-
Driver commands for C20.
  `sql <hex source> <hex real SQL>`  →  `S <hex model SQL> tree=ok|bad:<diagnosis>`   (or `U` / `X`)
      the text is the model's `toSql` of the model's own parse of the source; `tree` is the proved
      `lexSql`/`parseSql` run on the *real* SQL text, compared with `sqlTree` of the parse.
  `sql <hex source> -`               →  `U` when the model refuses the expression too
  `sqltext <hex source>`             →  `S <hex model SQL>` (or `U` / `X`)
-/
namespace Rscel.Wire
open Rscel Rscel.Sql

mutual
def treeBeq : SqlTree → SqlTree → Bool
  | .ident a, .ident b => a == b
  | .null, .null => true
  | .bool a, .bool b => a == b
  | .num a, .num b => a == b
  | .str a, .str b => a == b
  | .un o x, .un p y => o == p && treeBeq x y
  | .bin o a b, .bin p c d => o == p && treeBeq a c && treeBeq b d
  | .case_ a b c d, .case_ e f g h => treeBeq a e && treeBeq b f && treeBeq c g && treeBeq d h
  | .call f a, .call g b => treeBeq f g && treesBeq a b
  | .index a b, .index c d => treeBeq a c && treeBeq b d
  | .cast a s, .cast b t => s == t && treeBeq a b
  | .array a, .array b => treesBeq a b
  | _, _ => false
def treesBeq : List SqlTree → List SqlTree → Bool
  | [], [] => true
  | a :: as, b :: bs => treeBeq a b && treesBeq as bs
  | _, _ => false
end

mutual
partial def showSqlTree : SqlTree → String
  | .ident s => String.ofList s
  | .null => "NULL"
  | .bool b => if b then "true" else "false"
  | .num s => String.ofList s
  | .str s => "'" ++ String.ofList s ++ "'"
  | .un o x => s!"({String.ofList o} {showSqlTree x})"
  | .bin o a b => s!"({String.ofList o} {showSqlTree a} {showSqlTree b})"
  | .case_ a b c d => s!"(case {showSqlTree a} {showSqlTree b} {showSqlTree c} {showSqlTree d})"
  | .call f a => s!"(call {showSqlTree f} [{String.intercalate " " (a.map showSqlTree)}])"
  | .index a i => s!"(index {showSqlTree a} {showSqlTree i})"
  | .cast a t => s!"(cast {showSqlTree a} {String.ofList t})"
  | .array a => s!"(array [{String.intercalate " " (a.map showSqlTree)}])"
end

def sqlCmd (src : Str) (real : Option Str) : String :=
  match parseProgram lazySrc src with
  | .error _ => "X"
  | .ok a =>
    match toSql a with
    | .error _ => "U"
    | .ok t =>
      match real with
      | none => s!"S {hexOfStr t}"
      | some r =>
        let want := sqlTree a
        let verdict :=
          match parseSql (lexSql r) with
          | none => "bad:the-real-text-does-not-parse"
          | some got => if treeBeq got want then "ok" else "bad:" ++ hexOfStr (showSqlTree got).toList ++ "/want:" ++ hexOfStr (showSqlTree want).toList
        s!"S {hexOfStr t} tree={verdict}"

def handleSql (cmd : String) (args : List String) : Option String :=
  if cmd == "sql" then
    match args with
    | [h, "-"] => (strOfHex h).map fun src => sqlCmd src none |>.takeWhile (· ≠ ' ') |>.toString
    | [h, r] => do
      let src ← strOfHex h
      let real ← strOfHex r
      pure (sqlCmd src (some real))
    | _ => none
  else if cmd == "sqltext" then
    match args with
    | [h] => (strOfHex h).map fun src => sqlCmd src none
    | _ => none
  else none

end Rscel.Wire
