import RscelModel.Driver.Wire
import RscelModel.Model.Context
/-
`hist <nctx> <nbinds> <nops> op..`: a whole API history on `nctx` fresh contexts and `nbinds` fresh bind sets;
the answer is the outputs of all operations joined by ` | `.
  A c name src | G c name src | B b name val | F b name kind.. | CC c | CB b | E c name b | I c name | P b name
-/
namespace Rscel.Wire
open Rscel

def parseOp : List String → Option (Op × List String)
  | "A" :: c :: n :: s :: ts => do
    pure (.addSrc (← c.toNat?) (← strOfHex n) (← strOfHex s), ts)
  | "G" :: c :: n :: s :: ts => do
    let src ← strOfHex s
    -- `Program::from_source` + `add_program`: a source that does not compile never reaches the context
    match compileSrc src with
    | some p => pure (.addProg (← c.toNat?) (← strOfHex n) p, ts)
    | none => pure (.addSrc (← c.toNat?) (← strOfHex n) src, ts)
  | "B" :: b :: n :: ts => do
    let (v, ts) ← parseVal ts
    pure (.bind (← b.toNat?) (← strOfHex n) v, ts)
  | "F" :: b :: ts => do
    let ((n, k), ts) ← parseUser ts
    pure (.bindFn (← b.toNat?) n k, ts)
  | "CC" :: c :: ts => do pure (.cloneCtx (← c.toNat?), ts)
  | "CB" :: b :: ts => do pure (.cloneBinds (← b.toNat?), ts)
  | "E" :: c :: n :: b :: ts => do pure (.exec (← c.toNat?) (← strOfHex n) (← b.toNat?), ts)
  | "I" :: c :: n :: ts => do pure (.inspect (← c.toNat?) (← strOfHex n), ts)
  | "P" :: b :: n :: ts => do pure (.getParam (← b.toNat?) (← strOfHex n), ts)
  | _ => none

def showOpOut : OpOut → String
  | .done => "ok"
  | .rejected => "rejected"
  | .result o => showOut o
  | .source none => "none"
  | .source (some s) => s!"src:{hexOfStr s}"
  | .param none => "none"
  | .param (some v) => showVal v
  | .badIndex => "bad"

def handleHist (args : List String) : Option String := do
  match args with
  | nc :: nb :: n :: rest =>
    let (ops, _) ← parseMany parseOp (← n.toNat?) rest
    let w := World.fresh (← nc.toNat?) (← nb.toNat?)
    let (_, outs) := w.run (ops.map fun o => ((0 : Int), o))
    pure (String.intercalate " | " (outs.map showOpOut))
  | _ => none

end Rscel.Wire
