import RscelModel.Model.Spans
import RscelModel.Model.Parse
import RscelModel.Driver.Wire
/-
Driver side of the C18 span commands: wire form of a `SpanTree`
(`N <start line> <start col> <end line> <end col> <number of children> <children…>`, prefix notation),
its reader, and a diagnostic that names the first offending node when the verified checker rejects.
-/
namespace Rscel.Wire
open Rscel

mutual
def showTreeToks : SpanTree → List String
  | .node sp kids =>
    ["N", toString sp.s.line, toString sp.s.col, toString sp.e.line, toString sp.e.col, toString kids.length]
      ++ showForestToks kids
def showForestToks : List SpanTree → List String
  | [] => []
  | k :: rest => showTreeToks k ++ showForestToks rest
end

def showTree (t : SpanTree) : String := String.intercalate " " (showTreeToks t)

mutual
/-- Reader for the prefix form; fuel bounds the nesting depth. -/
def readTree : Nat → List String → Option (SpanTree × List String)
  | 0, _ => none
  | f + 1, "N" :: a :: b :: c :: d :: k :: rest =>
    match a.toNat?, b.toNat?, c.toNat?, d.toNat?, k.toNat? with
    | some a, some b, some c, some d, some k =>
      (readForest f k rest).map fun (kids, rest') => (.node ⟨⟨a, b⟩, ⟨c, d⟩⟩ kids, rest')
    | _, _, _, _, _ => none
  | _, _ => none
def readForest : Nat → Nat → List String → Option (List SpanTree × List String)
  | 0, _, _ => none
  | _ + 1, 0, rest => some ([], rest)
  | f + 1, k + 1, rest =>
    match readTree f rest with
    | none => none
    | some (t, rest') => (readForest f k rest').map fun (ts, rest'') => (t :: ts, rest'')
end

mutual
/-- Diagnostic only: the first node (pre-order) at which the local conditions of `SpanTree.check` fail. -/
def firstBad (src : List Char) : SpanTree → Option String
  | .node sp kids =>
    if !(sp.wf && sp.s.validIn src && sp.e.validIn src) then some s!"span-not-in-source {showSpan sp}"
    else if !(kids.all (fun k => k.span.within sp)) then some s!"child-outside-parent {showSpan sp}"
    else if !(pairwiseBefore kids) then some s!"siblings-overlap-or-out-of-order {showSpan sp}"
    else firstBadAll src kids
def firstBadAll (src : List Char) : List SpanTree → Option String
  | [] => none
  | k :: rest => match firstBad src k with | some m => some m | none => firstBadAll src rest
end

/-- `spancheck`: run the verified checker on a tree for a source text. -/
def spanCheckAnswer (src : List Char) (t : SpanTree) : String :=
  if t.checkRoot src then "ok"
  else if t.check src then s!"bad root-not-trimmed {showSpan t.span} expected {showSpan (trimmedSpan src)}"
  else s!"bad {(firstBad src t).getD "?"}"

/-- `spantree`: the span tree of the model's parse of `src`. -/
def spanTreeAnswer (src : List Char) : String :=
  match parseProgram lazySrc src with
  | .error e => s!"E {showLoc e.loc}"
  | .ok a => showTree a.toTree

def parseLocAnswer (src : List Char) : String :=
  match parseProgram lazySrc src with
  | .error e => s!"E {showLoc e.loc}"
  | .ok _ => "ok"

end Rscel.Wire
