import RscelModel.Model.Conv
import RscelModel.Model.Lex
import RscelModel.Model.Json
/-
Line protocol: textual encoding of values / instructions shared with the Rust harness.
Tokens are space separated.
  i:<dec> u:<dec> f:<16 hex> b:0|1 s:<hex utf8> y:<hex> n t:<hex> id:<hex> ts:<int> d:<int> e:<kind>
  l:<n> v1 .. vn     m:<n> <hexkey> v1 .. <hexkey> vn      c:<n> instr1 .. instrn
Instructions: PUSH v | POP | TEST | ... | JMP:<d> | JT:<d> | JF:<d> | MKLIST:<n> | MKDICT:<n> | CALL:<n> | FMT:<n>
-/
namespace Rscel.Wire
open Rscel

def hexDigit (n : Nat) : Char :=
  if n < 10 then Char.ofNat (48 + n) else Char.ofNat (87 + n)

def hexByte (b : UInt8) : String :=
  String.ofList [hexDigit (b.toNat / 16), hexDigit (b.toNat % 16)]

/-- Hex text of a byte string; the empty string is written `_` so that it survives splitting on spaces. -/
def hexOfBytes (bs : List UInt8) : String := if bs.isEmpty then "_" else String.join (bs.map hexByte)

def hexVal (c : Char) : Option Nat :=
  if '0' ≤ c ∧ c ≤ '9' then some (c.toNat - 48)
  else if 'a' ≤ c ∧ c ≤ 'f' then some (c.toNat - 87)
  else if 'A' ≤ c ∧ c ≤ 'F' then some (c.toNat - 55)
  else none

def bytesOfHex : List Char → Option (List UInt8)
  | [] => some []
  | ['_'] => some []
  | a :: b :: rest => do
    let x ← hexVal a
    let y ← hexVal b
    let r ← bytesOfHex rest
    pure (UInt8.ofNat (x * 16 + y) :: r)
  | _ => none

def strOfHex (h : String) : Option Str := do
  let bs ← bytesOfHex h.toList
  let s ← String.fromUTF8? (ByteArray.mk bs.toArray)
  pure s.toList

def hexOfStr (s : Str) : String := hexOfBytes (String.ofList s).toUTF8.toList

def hex16 (b : UInt64) : String :=
  let rec go (n : Nat) (k : Nat) (acc : List Char) : List Char :=
    match k with
    | 0 => acc
    | k + 1 => go (n / 16) k (hexDigit (n % 16) :: acc)
  String.ofList (go b.toNat 16 [])

def natOfHex (s : String) : Option Nat :=
  s.toList.foldlM (fun acc c => do let d ← hexVal c; pure (acc * 16 + d)) 0

def errOfName : String → Option ErrKind
  | "misc" => some .misc | "syntax" => some .syntax | "value" => some .value
  | "argument" => some .argument | "invalidOp" => some .invalidOp | "runtime" => some .runtime
  | "binding" => some .binding | "attribute" => some .attribute | "divZero" => some .divZero
  | "internal" => some .internal | _ => none

mutual
partial def showVal : Val → String
  | .int i => s!"i:{i}"
  | .uint n => s!"u:{n}"
  | .float b => if F.isNaN b then "f:nan" else s!"f:{hex16 b}"
  | .bool b => if b then "b:1" else "b:0"
  | .str s => s!"s:{hexOfStr s}"
  | .bytes b => s!"y:{hexOfBytes b}"
  | .list l => String.intercalate " " (s!"l:{l.length}" :: l.map showVal)
  | .map m => String.intercalate " " (s!"m:{m.length}" :: m.map fun (k, v) => s!"{hexOfStr k} {showVal v}")
  | .null => "n"
  | .ident s => s!"id:{hexOfStr s}"
  | .type s => s!"t:{hexOfStr s}"
  | .ts n => s!"ts:{n}"
  | .dur n => s!"d:{n}"
  | .code c => String.intercalate " " (s!"c:{c.length}" :: c.map showInstr)
  | .err k => s!"e:{k.name}"
partial def showInstr : Instr → String
  | .push v => s!"PUSH {showVal v}"
  | .pop => "POP" | .test => "TEST" | .dup => "DUP" | .or => "OR" | .and => "AND" | .not => "NOT"
  | .neg => "NEG" | .add => "ADD" | .sub => "SUB" | .mul => "MUL" | .div => "DIV" | .mod => "MOD"
  | .lt => "LT" | .le => "LE" | .eq => "EQ" | .ne => "NE" | .ge => "GE" | .gt => "GT" | .in_ => "IN"
  | .jmp d => s!"JMP:{d}"
  | .jmpCond true d => s!"JT:{d}"
  | .jmpCond false d => s!"JF:{d}"
  | .mkList n => s!"MKLIST:{n}" | .mkDict n => s!"MKDICT:{n}"
  | .index => "INDEX" | .access => "ACCESS"
  | .call n => s!"CALL:{n}" | .fmt n => s!"FMT:{n}"
end

/-- split `tag:payload`. -/
def splitTag (t : String) : String × String :=
  match t.splitOn ":" with
  | [a] => (a, "")
  | a :: rest => (a, String.intercalate ":" rest)
  | [] => ("", "")

mutual
partial def parseVal : List String → Option (Val × List String)
  | [] => none
  | t :: rest =>
    let (tag, p) := splitTag t
    match tag with
    | "i" => do let i ← p.toInt?; pure (.int i, rest)
    | "u" => do let n ← p.toNat?; pure (.uint n, rest)
    | "f" => if p == "nan" then some (.float F.canonNaN, rest) else do
        let n ← natOfHex p; pure (.float (UInt64.ofNat n), rest)
    | "b" => some (.bool (p == "1"), rest)
    | "s" => do let s ← strOfHex p; pure (.str s, rest)
    | "y" => do let b ← bytesOfHex p.toList; pure (.bytes b, rest)
    | "n" => some (.null, rest)
    | "id" => do let s ← strOfHex p; pure (.ident s, rest)
    | "t" => do let s ← strOfHex p; pure (.type s, rest)
    | "ts" => do let i ← p.toInt?; pure (.ts i, rest)
    | "d" => do let i ← p.toInt?; pure (.dur i, rest)
    | "e" => do let k ← errOfName p; pure (.err k, rest)
    | "l" => do
        let n ← p.toNat?
        let (vs, rest) ← parseVals n rest
        pure (.list vs, rest)
    | "m" => do
        let n ← p.toNat?
        let (es, rest) ← parseEntries n rest
        pure (.map (Map.ofList es), rest)
    | "c" => do
        let n ← p.toNat?
        let (is, rest) ← parseInstrs n rest
        pure (.code is, rest)
    | _ => none
partial def parseVals : Nat → List String → Option (List Val × List String)
  | 0, ts => some ([], ts)
  | n + 1, ts => do
    let (v, ts) ← parseVal ts
    let (vs, ts) ← parseVals n ts
    pure (v :: vs, ts)
partial def parseEntries : Nat → List String → Option (List (Str × Val) × List String)
  | 0, ts => some ([], ts)
  | n + 1, k :: ts => do
    let key ← strOfHex k
    let (v, ts) ← parseVal ts
    let (es, ts) ← parseEntries n ts
    pure ((key, v) :: es, ts)
  | _, [] => none
partial def parseInstr : List String → Option (Instr × List String)
  | [] => none
  | t :: rest =>
    let (tag, p) := splitTag t
    match tag with
    | "PUSH" => do let (v, rest) ← parseVal rest; pure (.push v, rest)
    | "POP" => some (.pop, rest) | "TEST" => some (.test, rest) | "DUP" => some (.dup, rest)
    | "OR" => some (.or, rest) | "AND" => some (.and, rest) | "NOT" => some (.not, rest)
    | "NEG" => some (.neg, rest) | "ADD" => some (.add, rest) | "SUB" => some (.sub, rest)
    | "MUL" => some (.mul, rest) | "DIV" => some (.div, rest) | "MOD" => some (.mod, rest)
    | "LT" => some (.lt, rest) | "LE" => some (.le, rest) | "EQ" => some (.eq, rest)
    | "NE" => some (.ne, rest) | "GE" => some (.ge, rest) | "GT" => some (.gt, rest)
    | "IN" => some (.in_, rest) | "INDEX" => some (.index, rest) | "ACCESS" => some (.access, rest)
    | "JMP" => do let d ← p.toInt?; pure (.jmp d, rest)
    | "JT" => do let d ← p.toInt?; pure (.jmpCond true d, rest)
    | "JF" => do let d ← p.toInt?; pure (.jmpCond false d, rest)
    | "MKLIST" => do let n ← p.toNat?; pure (.mkList n, rest)
    | "MKDICT" => do let n ← p.toNat?; pure (.mkDict n, rest)
    | "CALL" => do let n ← p.toNat?; pure (.call n, rest)
    | "FMT" => do let n ← p.toNat?; pure (.fmt n, rest)
    | _ => none
partial def parseInstrs : Nat → List String → Option (List Instr × List String)
  | 0, ts => some ([], ts)
  | n + 1, ts => do
    let (i, ts) ← parseInstr ts
    let (is, ts) ← parseInstrs n ts
    pure (i :: is, ts)
end

def arithOfName : String → Option ArithOp
  | "add" => some .add | "sub" => some .sub | "mul" => some .mul | "div" => some .div | "rem" => some .rem
  | _ => none

def relOfName : String → Option RelOp
  | "lt" => some .lt | "le" => some .le | "gt" => some .gt | "ge" => some .ge | _ => none

/-- One request line → one response line, value-algebra commands. -/
def handleValOp (cmd : String) (args : List String) : Option String := do
  match cmd with
  | "arith" =>
    match args with
    | o :: rest => do
      let op ← arithOfName o
      let (a, rest) ← parseVal rest
      let (b, _) ← parseVal rest
      pure (showVal (arith op a b))
    | _ => none
  | "rel" =>
    match args with
    | o :: rest => do
      let op ← relOfName o
      let (a, rest) ← parseVal rest
      let (b, _) ← parseVal rest
      pure (showVal (rel op a b))
    | _ => none
  | "neg" => do let (a, _) ← parseVal args; pure (showVal (neg a))
  | "not" => do let (a, _) ← parseVal args; pure (showVal (vNot a))
  | "truthy" => do let (a, _) ← parseVal args; pure (if truthy a then "b:1" else "b:0")
  | "eq" => do let (a, r) ← parseVal args; let (b, _) ← parseVal r; pure (showVal (valEq a b))
  | "ne" => do let (a, r) ← parseVal args; let (b, _) ← parseVal r; pure (showVal (valNe a b))
  | "or" => do let (a, r) ← parseVal args; let (b, _) ← parseVal r; pure (showVal (vOr a b))
  | "and" => do let (a, r) ← parseVal args; let (b, _) ← parseVal r; pure (showVal (vAnd a b))
  | "index" => do let (a, r) ← parseVal args; let (b, _) ← parseVal r; pure (showVal (index a b))
  | "in" => do let (a, r) ← parseVal args; let (b, _) ← parseVal r; pure (showVal (inOp a b))
  | "sort" => do
    let (a, _) ← parseVal args
    match a with
    | .list l => pure (showVal (sortList l))
    | _ => none
  | "min" => do
    let (a, _) ← parseVal args
    match a with
    | .list l => pure (showVal (minOf l))
    | _ => none
  | "max" => do
    let (a, _) ← parseVal args
    match a with
    | .list l => pure (showVal (maxOf l))
    | _ => none
  | "ofint" => do let i ← (args.head?.bind String.toInt?); pure (showVal (.float (F.ofInt i)))
  | "ofnat" => do let i ← (args.head?.bind String.toNat?); pure (showVal (.float (F.ofNat i)))
  | "toint" => do let (a, _) ← parseVal args; match a with | .float b => pure s!"i:{F.toIntSat b}" | _ => none
  | "tonat" => do let (a, _) ← parseVal args; match a with | .float b => pure s!"u:{F.toNatSat b}" | _ => none
  | _ => none

end Rscel.Wire

namespace Rscel.Wire
open Rscel

/-- take `n` items with parser `p` -/
partial def parseMany {α} (p : List String → Option (α × List String)) : Nat → List String → Option (List α × List String)
  | 0, ts => some ([], ts)
  | n + 1, ts => do
    let (a, ts) ← p ts
    let (as, ts) ← parseMany p n ts
    pure (a :: as, ts)

def parseParam : List String → Option ((Str × Val) × List String)
  | k :: ts => do
    let key ← strOfHex k
    let (v, ts) ← parseVal ts
    pure ((key, v), ts)
  | [] => none

def parseProg : List String → Option ((Str × List Instr) × List String)
  | k :: ts => do
    let key ← strOfHex k
    let (v, ts) ← parseVal ts
    match v with
    | .code c => pure ((key, c), ts)
    | _ => none
  | [] => none

def parseUser : List String → Option ((Str × UserFn) × List String)
  | k :: "arg0" :: ts => do let key ← strOfHex k; pure ((key, .arg0), ts)
  | k :: "const" :: ts => do
    let key ← strOfHex k
    let (v, ts) ← parseVal ts
    pure ((key, .const v), ts)
  | k :: "fail" :: e :: ts => do let key ← strOfHex k; let kind ← errOfName e; pure ((key, .fail kind), ts)
  | _ => none

def countOf (tag : String) (t : String) : Option Nat :=
  let (a, p) := splitTag t
  if a == tag then p.toNat? else none

/-- `P:<n> (key val)* G:<n> (name code)* U:<n> (name kind)*` -/
def parseEnv : List String → Option (Env × List String)
  | p :: ts => do
    let np ← countOf "P" p
    let (params, ts) ← parseMany parseParam np ts
    match ts with
    | g :: ts => do
      let ng ← countOf "G" g
      let (progs, ts) ← parseMany parseProg ng ts
      match ts with
      | u :: ts => do
        let nu ← countOf "U" u
        let (users, ts) ← parseMany parseUser nu ts
        -- later bindings win: `lookup` takes the first match, so reverse
        pure ({ params := params.reverse, progs := progs.reverse, userFns := users.reverse }, ts)
      | [] => none
    | [] => none
  | [] => none

def parseSrc : List String → Option ((Str × Str) × List String)
  | k :: h :: ts => do
    let key ← strOfHex k
    let src ← strOfHex h
    pure ((key, src), ts)
  | _ => none

/-- `P:<n> (key val)* S:<n> (name hexsrc)* U:<n> (name kind)*`: programs given as source text and
    compiled by `comp` in the order given (`add_program_str`: a failing source adds nothing, a later
    program of the same name replaces the earlier one). -/
def parseSrcEnv (comp : Str → Option (List Instr)) : List String → Option (Env × List String)
  | p :: ts => do
    let np ← countOf "P" p
    let (params, ts) ← parseMany parseParam np ts
    match ts with
    | g :: ts => do
      let ng ← countOf "S" g
      let (srcs, ts) ← parseMany parseSrc ng ts
      match ts with
      | u :: ts => do
        let nu ← countOf "U" u
        let (users, ts) ← parseMany parseUser nu ts
        let progs := srcs.filterMap fun (k, src) => (comp src).map fun c => (k, c)
        pure ({ params := params.reverse, progs := progs.reverse, userFns := users.reverse }, ts)
      | [] => none
    | [] => none
  | [] => none

def showLog (l0 : Log) : String :=
  -- the reserved marker (compile mode only) is not a call; a run-time log never holds one
  let l := l0.filter (fun e => !e.isMarker)
  String.intercalate " " (s!"L:{l.length}" :: l.map fun e =>
    s!"{hexOfStr e.name} {showVal e.this} {showVal (.list e.args)}")

def showOut (o : Out) : String :=
  let r := match o.res with
    | .ok v => showVal v
    | .error a => s!"e:{a.kind.name}"
  s!"{r} {showLog o.log}"

end Rscel.Wire

namespace Rscel.Wire
open Rscel

def showLoc (l : Loc) : String := s!"{l.line}:{l.col}"
def showSpan (s : Span) : String := s!"{showLoc s.s}-{showLoc s.e}"

def showTok : Tok → String
  | .question => "?" | .colon => ":" | .add => "+" | .minus => "-" | .mul => "*" | .div => "/"
  | .mod => "%" | .not => "!" | .dot => "." | .comma => "," | .lbracket => "[" | .rbracket => "]"
  | .lbrace => "{" | .rbrace => "}" | .lparen => "(" | .rparen => ")" | .lt => "<" | .gt => ">"
  | .oror => "||" | .andand => "&&" | .le => "<=" | .ge => ">=" | .eqeq => "==" | .ne => "!="
  | .in_ => "in" | .null => "null" | .match_ => "match" | .case_ => "case"
  | .boolLit b => if b then "true" else "false"
  | .intLit n => s!"int:{n}"
  | .uintLit n => s!"uint:{n}"
  | .floatLit b => if F.isNaN b then "float:nan" else s!"float:{hex16 b}"
  | .strLit s => s!"str:{hexOfStr s}"
  | .fstrLit segs => "fstr:" ++ String.intercalate "," (segs.map fun
      | .lit s => s!"L{hexOfStr s}"
      | .expr s => s!"E{hexOfStr s}")
  | .bytesLit b => s!"bytes:{hexOfBytes b}"
  | .ident s => s!"id:{hexOfStr s}"

def showLexed (r : Except LexErr Lexed) : String :=
  match r with
  | .error e => s!"E {showLoc e.loc}"
  | .ok l => String.intercalate " " (s!"T:{l.toks.length}" :: l.toks.map fun (t, sp) => s!"{showTok t}@{showSpan sp}")

end Rscel.Wire

namespace Rscel.Wire
open Rscel

/-- `<kind> <k> <hexin>{k} <val|none>` -/
def parseExtEntry : List String → Option (ExtEntry × List String)
  | kind :: k :: ts => do
    let n ← k.toNat?
    let (ins, ts) ← parseMany (fun ts => match ts with
      | h :: r => if h == "-" then some ([], r) else (strOfHex h).map (·, r)
      | [] => none) n ts
    match ts with
    | "none" :: r => pure ({ kind := kind, ins := ins, out := none }, r)
    | _ => do
      let (v, r) ← parseVal ts
      pure ({ kind := kind, ins := ins, out := some v }, r)
  | _ => none

/-- `X:<n> entry*`: the library answers sent along with a request. -/
def parseExt : List String → Option (ExtTable × List String)
  | x :: ts => do
    let n ← countOf "X" x
    parseMany parseExtEntry n ts
  | [] => none

/- JSON documents: `jn` `jb:0|1` `jp:<nat>` `jm:<int>` `jf:<16 hex>` `js:<hex>` `ja:<n> v..` `jo:<n> (<hexkey> v)..` -/
mutual
partial def parseJson : List String → Option (Json × List String)
  | [] => none
  | t :: rest =>
    let (tag, p) := splitTag t
    match tag with
    | "jn" => some (.null, rest)
    | "jb" => some (.bool (p == "1"), rest)
    | "jp" => do let n ← p.toNat?; pure (.num (.pos n), rest)
    | "jm" => do let i ← p.toInt?; pure (.num (.neg i), rest)
    | "jf" => do let n ← natOfHex p; pure (.num (.float (UInt64.ofNat n)), rest)
    | "js" => do let s ← strOfHex p; pure (.str s, rest)
    | "ja" => do
        let n ← p.toNat?
        let (vs, rest) ← parseJsons n rest
        pure (.arr vs, rest)
    | "jo" => do
        let n ← p.toNat?
        let (es, rest) ← parseJsonMembers n rest
        pure (.obj es, rest)
    | _ => none
partial def parseJsons : Nat → List String → Option (List Json × List String)
  | 0, ts => some ([], ts)
  | n + 1, ts => do
    let (v, ts) ← parseJson ts
    let (vs, ts) ← parseJsons n ts
    pure (v :: vs, ts)
partial def parseJsonMembers : Nat → List String → Option (List (Str × Json) × List String)
  | 0, ts => some ([], ts)
  | n + 1, k :: ts => do
    let key ← strOfHex k
    let (v, ts) ← parseJson ts
    let (es, ts) ← parseJsonMembers n ts
    pure ((key, v) :: es, ts)
  | _, [] => none
end

end Rscel.Wire
