import RscelModel.Model.Compile
import RscelModel.Driver.Wire
/-
Printer of the model AST in the JSON shape `serde` derives for `AstNode<Expr>` (`grammar.rs`), including
the single-child `Unary` wrapper nodes between precedence levels.  Doubles are printed as
`{"FloatingLit":"<16 hex digits>"}` (the harness rewrites the real dump the same way).
-/
namespace Rscel.Wire
open Rscel

def jsonEscape (s : Str) : String :=
  String.join (s.map fun c =>
    if c == '"' then "\\\"" else if c == '\\' then "\\\\"
    else if c == '\n' then "\\n" else if c == '\r' then "\\r" else if c == '\t' then "\\t"
    else if c.toNat == 8 then "\\b" else if c.toNat == 12 then "\\f"
    else if c.toNat < 32 then
      let h := c.toNat
      "\\u00" ++ String.ofList [hexDigit (h / 16), hexDigit (h % 16)]
    else String.singleton c)

def jStr (s : Str) : String := "\"" ++ jsonEscape s ++ "\""

def jLoc (sp : Span) : String :=
  s!"\{\"end\":[{sp.e.line},{sp.e.col}],\"start\":[{sp.s.line},{sp.s.col}]}"

/-- `{"loc":..,"node":..}` -/
def jNode (sp : Span) (node : String) : String := s!"\{\"loc\":{jLoc sp},\"node\":{node}}"

/-- wrap `inner` (a node of level `have_`) in Unary layers down to level `want` -/
def wrapTo (sp : Span) (inner : String) : Nat → Nat → String
  | want, have_ =>
    if have_ ≤ want then inner
    else
      -- one layer: the node at level have_-1 holding `inner`
      let key := if have_ == 7 then "Member" else "Unary"
      wrapTo sp (jNode sp s!"\{\"{key}\":{inner}}") want (have_ - 1)
termination_by want have_ => have_
decreasing_by omega

def binOpName : BinOp → String
  | .lt => "Lt" | .le => "Le" | .ge => "Ge" | .gt => "Gt" | .eq => "Eq" | .ne => "Ne" | .in_ => "In"
  | .add => "Add" | .sub => "Sub" | .mul => "Mult" | .div => "Div" | .mod => "Mod"
  | .or => "" | .and => ""

def cmpOpName : CmpOp → String
  | .eq => "Eq" | .neq => "Neq" | .gt => "Gt" | .ge => "Ge" | .lt => "Lt" | .le => "Le"

def typePatName : TypePat → String
  | .int => "Int" | .uint => "Uint" | .float => "Float" | .string => "String" | .bool => "Bool"
  | .bytes => "Bytes" | .list => "List" | .object => "Object" | .null => "Null"
  | .timestamp => "Timestamp" | .duration => "Duration"

/-- the NotList / NegList chain for operator spans `ops` (first to last) -/
def jOpList : List Span → String
  | [] => "null"
  | o :: rest =>
    let lastEnd := (rest.getLast?.getD o).e
    let go : List Span → String := fun l =>
      l.foldr (fun (sp : Span) acc => jNode ⟨sp.s, lastEnd⟩ s!"\{\"List\":\{\"tail\":{acc}}}")
        (jNode ⟨lastEnd, lastEnd⟩ "\"EmptyList\"")
    go (o :: rest)

mutual
/-- print `a` where a node of grammar level `want` is expected -/
partial def jAst (want : Nat) (a : Ast) : String :=
  let own : String :=
    match a with
    | .tern sp c t f =>
      jNode sp s!"\{\"Ternary\":\{\"condition\":{jAst 1 c},\"false_clause\":{jAst 0 f},\"true_clause\":{jAst 1 t}}}"
    | .match_ sp s cases =>
      jNode sp s!"\{\"Match\":\{\"cases\":[{String.intercalate "," (cases.map jCase)}],\"condition\":{jAst 0 s}}}"
    | .bin sp op l r =>
      let lv := op.level
      if lv ≤ 2 then jNode sp s!"\{\"Binary\":\{\"lhs\":{jAst lv l},\"rhs\":{jAst (lv + 1) r}}}"
      else jNode sp s!"\{\"Binary\":\{\"lhs\":{jAst lv l},\"op\":\"{binOpName op}\",\"rhs\":{jAst (lv + 1) r}}}"
    | .notRun sp ops m => jNode sp s!"\{\"NotMember\":\{\"member\":{jAst 7 m},\"nots\":{jOpList ops}}}"
    | .negRun sp ops m => jNode sp s!"\{\"NegMember\":\{\"member\":{jAst 7 m},\"negs\":{jOpList ops}}}"
    | .member sp p chain =>
      jNode sp s!"\{\"member\":[{String.intercalate "," (chain.map jOp)}],\"primary\":{jPrim p}}"
  wrapTo a.span own want a.level

partial def jCase : MCase → String
  | .mk sp p b => jNode sp s!"\{\"expr\":{jAst 0 b},\"pattern\":{jPat p}}"

partial def jPat : Pat → String
  | .cmp sp opSp op e => jNode sp s!"\{\"Cmp\":\{\"op\":{jNode opSp ("\"" ++ cmpOpName op ++ "\"")},\"or\":{jAst 1 e}}}"
  | .type sp t _ => jNode sp s!"\{\"Type\":{jNode sp ("\"" ++ typePatName t ++ "\"")}}"
  | .any sp => jNode sp s!"\{\"Any\":{jNode sp "null"}}"

partial def jOp : MOp → String
  | .access sp isp name => jNode sp s!"\{\"MemberAccess\":\{\"ident\":{jNode isp (jStr name)}}}"
  | .call sp args =>
    jNode sp s!"\{\"Call\":\{\"call\":{jNode sp s!"\{\"exprs\":[{String.intercalate "," (args.map (jAst 0))}]}"}}}"
  | .index sp e => jNode sp s!"\{\"ArrayAccess\":\{\"access\":{jAst 0 e}}}"

partial def jPrim : Prim → String
  | .ident sp n => jNode sp s!"\{\"Ident\":{jStr n}}"
  | .parens sp e => jNode sp s!"\{\"Parens\":{jAst 0 e}}"
  | .list sp es => jNode sp s!"\{\"ListConstruction\":{jNode sp s!"\{\"exprs\":[{String.intercalate "," (es.map (jAst 0))}]}"}}"
  | .map sp inits =>
    let items := inits.map fun | .mk isp k v => jNode isp s!"\{\"key\":{jAst 0 k},\"value\":{jAst 0 v}}"
    jNode sp s!"\{\"ObjectInit\":{jNode sp s!"\{\"inits\":[{String.intercalate "," items}]}"}}"
  | .null sp => jNode sp "{\"Literal\":\"NullLit\"}"
  | .int sp i => jNode sp s!"\{\"Literal\":\{\"IntegerLit\":{i}}}"
  | .uint sp n => jNode sp s!"\{\"Literal\":\{\"UnsignedLit\":{n}}}"
  | .float sp b => jNode sp s!"\{\"Literal\":\{\"FloatingLit\":\"{if F.isNaN b then "nan" else hex16 b}\"}}"
  | .str sp s => jNode sp s!"\{\"Literal\":\{\"StringLit\":{jStr s}}}"
  | .bytes sp b => jNode sp s!"\{\"Literal\":\{\"ByteStringLit\":[{String.intercalate "," (b.map fun x => toString x.toNat)}]}}"
  | .bool sp b => jNode sp s!"\{\"Literal\":\{\"BooleanLit\":{if b then "true" else "false"}}}"
  | .fstr sp segs =>
    let items := segs.map fun
      | .lit s => s!"\{\"Lit\":{jStr s}}"
      | .expr src _ => s!"\{\"Expr\":{jStr src}}"
    jNode sp s!"\{\"Literal\":\{\"FStringList\":[{String.intercalate "," items}]}}"
end

def showParse (r : Except PErr Ast) : String :=
  match r with
  | .error e => s!"E {showLoc e.loc}"
  | .ok a => jAst 0 a

end Rscel.Wire
