import RscelModel.Driver.Wire
import RscelModel.Model.Serde
/-
Line protocol for the codec model (C19).  A program is written
  S:-|S:<hex source>  N:<n> <hex param>*  c:<n> instr*
with the value / instruction tokens of `Driver/Wire.lean`, except that doubles are always their 16 hex
digits (NaN payloads matter for bincode), maps keep the order they are written in (the serialiser's
iteration order), and error constants carry their payload:
  E:misc:<hex> E:value:<hex> E:argument:<hex> E:invalidOp:<hex> E:runtime:<hex> E:internal:<hex>
  E:binding:<hex> E:attribute:<hex parent>:<hex field> E:divZero E:syntax:<line>:<col>:<-|hex>
Commands: `serbin` (hex of `encBin`), `serjson` (JSON text of `encJ`, doubles as {"$f":"<hex>"}),
`rtbin` / `rtjson` (the program `decBin (encBin p)` / `decJ (encJ p)` in the same syntax with maps and
parameters sorted, or `none`).
-/
namespace Rscel.SerdeWire
open Rscel Rscel.Wire Rscel.Serde

def optHex (s : Option Str) : String :=
  match s with
  | none => "-"
  | some s => hexOfStr s

def parseOptHex (t : String) : Option (Option Str) :=
  if t == "-" then some none else (strOfHex t).map some

def parseErr (p : String) : Option CErr :=
  match p.splitOn ":" with
  | ["misc", m] => (strOfHex m).map .misc
  | ["value", m] => (strOfHex m).map .value
  | ["argument", m] => (strOfHex m).map .argument
  | ["invalidOp", m] => (strOfHex m).map .invalidOp
  | ["runtime", m] => (strOfHex m).map .runtime
  | ["internal", m] => (strOfHex m).map .internal
  | ["binding", m] => (strOfHex m).map .binding
  | ["attribute", a, b] => do let a ← strOfHex a; let b ← strOfHex b; pure (.attr a b)
  | ["divZero"] => some .divZero
  | ["syntax", l, c, m] => do let l ← l.toNat?; let c ← c.toNat?; let m ← parseOptHex m; pure (.syn l c m)
  | _ => none

def showErr : CErr → String
  | .misc m => s!"E:misc:{hexOfStr m}"
  | .value m => s!"E:value:{hexOfStr m}"
  | .argument m => s!"E:argument:{hexOfStr m}"
  | .invalidOp m => s!"E:invalidOp:{hexOfStr m}"
  | .runtime m => s!"E:runtime:{hexOfStr m}"
  | .internal m => s!"E:internal:{hexOfStr m}"
  | .binding m => s!"E:binding:{hexOfStr m}"
  | .attr a b => s!"E:attribute:{hexOfStr a}:{hexOfStr b}"
  | .divZero => "E:divZero"
  | .syn l c m => s!"E:syntax:{l}:{c}:{optHex m}"

mutual
partial def parseCVal : List String → Option (CVal × List String)
  | [] => none
  | t :: rest =>
    let (tag, p) := splitTag t
    match tag with
    | "i" => do let i ← p.toInt?; pure (.int i, rest)
    | "u" => do let n ← p.toNat?; pure (.uint n, rest)
    | "f" => do let n ← natOfHex p; pure (.float (UInt64.ofNat n), rest)
    | "b" => some (.bool (p == "1"), rest)
    | "s" => do let s ← strOfHex p; pure (.str s, rest)
    | "y" => do let b ← bytesOfHex p.toList; pure (.bytes b, rest)
    | "n" => some (.null, rest)
    | "id" => do let s ← strOfHex p; pure (.ident s, rest)
    | "t" => do let s ← strOfHex p; pure (.type s, rest)
    | "ts" => do let i ← p.toInt?; pure (.ts i, rest)
    | "d" => do let i ← p.toInt?; pure (.dur i, rest)
    | "E" => do let e ← parseErr p; pure (.err e, rest)
    | "l" => do
        let n ← p.toNat?
        let (vs, rest) ← parseMany parseCVal n rest
        pure (.list vs, rest)
    | "m" => do
        let n ← p.toNat?
        let (es, rest) ← parseMany parseCEntry n rest
        pure (.map es, rest)
    | "c" => do
        let n ← p.toNat?
        let (is, rest) ← parseMany parseCInstr n rest
        pure (.code is, rest)
    | _ => none
partial def parseCEntry : List String → Option ((Str × CVal) × List String)
  | k :: ts => do
    let key ← strOfHex k
    let (v, ts) ← parseCVal ts
    pure ((key, v), ts)
  | [] => none
partial def parseCInstr : List String → Option (CInstr × List String)
  | [] => none
  | t :: rest =>
    let (tag, p) := splitTag t
    match tag with
    | "PUSH" => do let (v, rest) ← parseCVal rest; pure (.push v, rest)
    | "POP" => some (.pop, rest) | "TEST" => some (.test, rest) | "DUP" => some (.dup, rest)
    | "OR" => some (.or, rest) | "AND" => some (.and, rest) | "NOT" => some (.not, rest)
    | "NEG" => some (.neg, rest) | "ADD" => some (.add, rest) | "SUB" => some (.sub, rest)
    | "MUL" => some (.mul, rest) | "DIV" => some (.div, rest) | "MOD" => some (.mod, rest)
    | "LT" => some (.lt, rest) | "LE" => some (.le, rest) | "EQ" => some (.eq, rest)
    | "NE" => some (.ne, rest) | "GE" => some (.ge, rest) | "GT" => some (.gt, rest)
    | "IN" => some (.in_, rest) | "INDEX" => some (.index, rest) | "ACCESS" => some (.access, rest)
    | "JMP" => do let d ← p.toInt?; pure (.jmp d, rest)
    | "JT" => do let d ← p.toInt?; pure (.jmpCond true d, rest)
    | "JF" => do let d ← p.toInt?; pure (.jmpCond false d, rest)
    | "MKLIST" => do let n ← p.toNat?; pure (.mkList n, rest)
    | "MKDICT" => do let n ← p.toNat?; pure (.mkDict n, rest)
    | "CALL" => do let n ← p.toNat?; pure (.call n, rest)
    | "FMT" => do let n ← p.toNat?; pure (.fmt n, rest)
    | _ => none
end

def parseProg : List String → Option CProg
  | s :: n :: rest => do
    let (st, sp) := splitTag s
    let (nt, np) := splitTag n
    if st != "S" || nt != "N" then none
    let source ← parseOptHex sp
    let k ← np.toNat?
    let (params, rest) ← parseMany (fun ts => match ts with | h :: ts => (strOfHex h).map (·, ts) | [] => none) k rest
    let (v, _) ← parseCVal rest
    match v with
    | .code c => pure { source := source, params := params, code := c }
    | _ => none
  | _ => none

def strLe (a b : Str) : Bool := !strLt b a

mutual
partial def showCVal : CVal → String
  | .int i => s!"i:{i}"
  | .uint n => s!"u:{n}"
  | .float b => s!"f:{hex16 b}"
  | .bool b => if b then "b:1" else "b:0"
  | .str s => s!"s:{hexOfStr s}"
  | .bytes b => s!"y:{hexOfBytes b}"
  | .list l => String.intercalate " " (s!"l:{l.length}" :: l.map showCVal)
  | .map m =>
    let sorted := m.mergeSort (fun a b => strLe a.1 b.1)
    String.intercalate " " (s!"m:{m.length}" :: sorted.map fun (k, v) => s!"{hexOfStr k} {showCVal v}")
  | .null => "n"
  | .ident s => s!"id:{hexOfStr s}"
  | .type s => s!"t:{hexOfStr s}"
  | .ts n => s!"ts:{n}"
  | .dur n => s!"d:{n}"
  | .code c => String.intercalate " " (s!"c:{c.length}" :: c.map showCInstr)
  | .err e => showErr e
partial def showCInstr : CInstr → String
  | .push v => s!"PUSH {showCVal v}"
  | .pop => "POP" | .test => "TEST" | .dup => "DUP" | .or => "OR" | .and => "AND" | .not => "NOT"
  | .neg => "NEG" | .add => "ADD" | .sub => "SUB" | .mul => "MUL" | .div => "DIV" | .mod => "MOD"
  | .lt => "LT" | .le => "LE" | .eq => "EQ" | .ne => "NE" | .ge => "GE" | .gt => "GT" | .in_ => "IN"
  | .jmp d => s!"JMP:{d}"
  | .jmpCond true d => s!"JT:{d}"
  | .jmpCond false d => s!"JF:{d}"
  | .mkList n => s!"MKLIST:{n}" | .mkDict n => s!"MKDICT:{n}"
  | .index => "INDEX" | .access => "ACCESS"
  | .call n => s!"CALL:{n}" | .fmt n => s!"FMT:{n}"
end

/-- canonical: parameters and map entries sorted -/
def showProg (p : CProg) : String :=
  let ps := p.params.mergeSort strLe
  String.intercalate " " ([s!"S:{optHex p.source}", s!"N:{ps.length}"] ++ ps.map hexOfStr ++ [showCVal (.code p.code)])

def hex4 (n : Nat) : String :=
  String.ofList [hexDigit (n / 4096 % 16), hexDigit (n / 256 % 16), hexDigit (n / 16 % 16), hexDigit (n % 16)]

def jsonEscape (s : Str) : String :=
  String.join (s.map fun c =>
    if c == '"' then "\\\"" else if c == '\\' then "\\\\"
    else if c.val < 0x20 || c.val == 0x7f then "\\u" ++ hex4 c.toNat
    else String.singleton c)

partial def showJ : J → String
  | .null => "null"
  | .bool b => if b then "true" else "false"
  | .int i => s!"{i}"
  | .float b => "{\"$f\":\"" ++ hex16 b ++ "\"}"
  | .str s => "\"" ++ jsonEscape s ++ "\""
  | .arr l => "[" ++ String.intercalate "," (l.map showJ) ++ "]"
  | .obj m => "{" ++ String.intercalate "," (m.map fun (k, v) => "\"" ++ jsonEscape k ++ "\":" ++ showJ v) ++ "}"

def handle (cmd : String) (args : List String) : Option String :=
  match cmd with
  | "serbin" => (parseProg args).map fun p => hexOfBytes (encBin p)
  | "serjson" => (parseProg args).map fun p => showJ (encJ p)
  | "rtbin" => (parseProg args).map fun p =>
      match decBin (encBin p) with | some q => showProg q | none => "none"
  | "rtjson" => (parseProg args).map fun p =>
      match decJ (encJ p) with | some q => showProg q | none => "none"
  | "fits" => (parseProg args).map fun p => s!"fits:{p.fits} msres:{p.msRes}"
  | _ => none

end Rscel.SerdeWire
