import RscelModel.Lemmas.Skel
import RscelModel.Driver.Wire
/-
Driver command `c02spec <tree>`: the specification side of C02 (`T.Wf`, `parenMin`, `render`, `nest` —
the definitions the theorems of `Theorems/C02.lean` are stated with) evaluated on an abstract operator
tree sent by the harness, so that the harness can compare them with its own reading of the CEL
precedence table.  Tree in prefix form, one token per node:
  `I<hex name>`  `N<decimal>`  `P` e  `!<n>` e  `-<n>` e  `B<op>` l r  `?` c t f
  `A<hex name>` e (`e.name`)  `X` e i (`e[i]`)  `C0` e  `C1` e a  `C2` e a b (calls)
Answer: `W<0|1> D<nest> <hex of the minimal rendering, tokens separated by one space>`.
-/
namespace Rscel.C02
open Rscel

def T.decWf : (t : T) → Decidable t.Wf
  | .ident _ _ => isTrue trivial
  | .int _ n => inferInstanceAs (Decidable ((n : Int) ≤ i64Max))
  | .paren _ _ e => e.decWf
  | .nots _ _ e => have := e.decWf; inferInstanceAs (Decidable (7 ≤ e.level ∧ e.Wf))
  | .negs _ _ e => have := e.decWf; inferInstanceAs (Decidable (7 ≤ e.level ∧ e.Wf))
  | .bin op _ l r =>
    have := l.decWf; have := r.decWf
    inferInstanceAs (Decidable (op.level ≤ l.level ∧ op.level + 1 ≤ r.level ∧ l.Wf ∧ r.Wf))
  | .tern _ _ c t f =>
    have := c.decWf; have := t.decWf; have := f.decWf
    inferInstanceAs (Decidable (1 ≤ c.level ∧ 1 ≤ t.level ∧ c.Wf ∧ t.Wf ∧ f.Wf))
  | .access e _ _ _ => have := e.decWf; inferInstanceAs (Decidable (7 ≤ e.level ∧ e.Wf))
  | .index e _ _ i => have := e.decWf; have := i.decWf; inferInstanceAs (Decidable (7 ≤ e.level ∧ e.Wf ∧ i.Wf))
  | .call0 e _ _ => have := e.decWf; inferInstanceAs (Decidable (7 ≤ e.level ∧ e.Wf))
  | .call1 e _ _ a => have := e.decWf; have := a.decWf; inferInstanceAs (Decidable (7 ≤ e.level ∧ e.Wf ∧ a.Wf))
  | .call2 e _ _ a _ b =>
    have := e.decWf; have := a.decWf; have := b.decWf
    inferInstanceAs (Decidable (7 ≤ e.level ∧ e.Wf ∧ a.Wf ∧ b.Wf))

instance (t : T) : Decidable t.Wf := t.decWf

def opOfName (s : String) : Option BinOp :=
  if s == "or" then some .or else if s == "and" then some .and else if s == "lt" then some .lt
  else if s == "le" then some .le else if s == "ge" then some .ge else if s == "gt" then some .gt
  else if s == "eq" then some .eq else if s == "ne" then some .ne else if s == "in" then some .in_
  else if s == "add" then some .add else if s == "sub" then some .sub else if s == "mul" then some .mul
  else if s == "div" then some .div else if s == "mod" then some .mod else none

def runOf (n : Nat) : Option (Span × List Span) :=
  match n with
  | 0 => none
  | n + 1 => some (default, List.replicate n default)

/-- Prefix reader; fuel = number of tokens. -/
def readT : Nat → List String → Option (T × List String)
  | 0, _ => none
  | _ + 1, [] => none
  | f + 1, w :: rest =>
    match w.toList with
    | 'I' :: h => (Wire.strOfHex (String.ofList h)).map fun n => (.ident default n, rest)
    | 'N' :: d => (String.ofList d).toNat?.map fun n => (.int default n, rest)
    | ['P'] => (readT f rest).map fun (e, r) => (.paren default default e, r)
    | '!' :: d => do
      let (o, os) ← (String.ofList d).toNat?.bind runOf
      let (e, r) ← readT f rest
      pure (.nots o os e, r)
    | '-' :: d => do
      let (o, os) ← (String.ofList d).toNat?.bind runOf
      let (e, r) ← readT f rest
      pure (.negs o os e, r)
    | 'B' :: o => do
      let op ← opOfName (String.ofList o)
      let (l, r1) ← readT f rest
      let (r, r2) ← readT f r1
      pure (.bin op default l r, r2)
    | 'A' :: h => do
      let n ← Wire.strOfHex (String.ofList h)
      let (e, r) ← readT f rest
      pure (.access e default default n, r)
    | ['X'] => do
      let (e, r1) ← readT f rest
      let (i, r2) ← readT f r1
      pure (.index e default default i, r2)
    | ['C', '0'] => (readT f rest).map fun (e, r) => (.call0 e default default, r)
    | ['C', '1'] => do
      let (e, r1) ← readT f rest
      let (a, r2) ← readT f r1
      pure (.call1 e default default a, r2)
    | ['C', '2'] => do
      let (e, r1) ← readT f rest
      let (a, r2) ← readT f r1
      let (b, r3) ← readT f r2
      pure (.call2 e default default a default b, r3)
    | ['?'] => do
      let (c, r1) ← readT f rest
      let (t, r2) ← readT f r1
      let (e, r3) ← readT f r2
      pure (.tern default default c t e, r3)
    | _ => none

def tokText : Tok → String
  | .ident n => String.ofList n
  | .intLit n => toString n
  | t => Wire.showTok t

def specAnswer (args : List String) : String :=
  match readT (args.length + 1) args with
  | some (u, []) =>
    let m := parenMin u
    let text := String.intercalate " " ((render m).map fun x => tokText x.1)
    s!"W{if u.Wf then 1 else 0} D{nest m} {Wire.hexOfStr text.toList}"
  | _ => "bad-request"

end Rscel.C02
