import RscelModel.Model.Builtins
/-
Calendar accessors of timestamps and durations
(`context/default_funcs/time_funcs/get_*.rs`, `helpers.rs: get_adjusted_datetime`).

An instant is an `Int` number of nanoseconds since 1970-01-01T00:00:00Z (as in `Val.ts`), a duration an
`Int` number of nanoseconds (`Val.dur`).  Civil time is computed with the days-from-civil algorithm on
`Int` days (proleptic Gregorian calendar, the calendar of `chrono`): 400-year eras starting on March 1 of year 0,
split into centuries, four-year cycles and years; the month from the day of the March-based year.  `/` and `%` on `Int` are floor
division and non-negative remainder for the positive literal divisors used here.

The time-zone database is a parameter: `ZoneDb = Str → Int → Option Int` gives, for a zone name and an
instant, the offset from UTC in seconds that is in force at that instant; `none` = the name is not a zone
(`Tz::from_str` fails).  The harness supplies the value `chrono-tz` gives for each request.
-/
namespace Rscel.Time

/-- Year, month (1..12), day of month (1..31) and zero-based day of the year. -/
structure Civil where
  year : Int
  month : Int
  day : Int
  doy : Int
  deriving DecidableEq, Repr

/-- Gregorian leap year rule. -/
def isLeap (y : Int) : Bool := y % 4 == 0 && (y % 100 != 0 || y % 400 == 0)

/-- Era (400-year cycle) of a day number shifted to 0000-03-01. -/
def eraOf (z : Int) : Int := (z + 719468) / 146097
/-- Day of the era, `0 .. 146096`. -/
def doeOf (z : Int) : Int := (z + 719468) % 146097
/-- Whole centuries of the era before the day, `0 .. 3` (the last century has one day more). -/
def n100Of (doe : Int) : Int := min (doe / 36524) 3
/-- Day of the century, `0 .. 36524`. -/
def r1Of (doe : Int) : Int := doe - n100Of doe * 36524
/-- Whole four-year cycles of the century before the day, `0 .. 24`. -/
def n4Of (doe : Int) : Int := r1Of doe / 1461
/-- Day of the four-year cycle, `0 .. 1460`. -/
def r2Of (doe : Int) : Int := r1Of doe % 1461
/-- Whole years of the cycle before the day, `0 .. 3` (the last year has one day more). -/
def n1Of (doe : Int) : Int := min (r2Of doe / 365) 3
/-- Year of the era, `0 .. 399`. -/
def yoeOf (doe : Int) : Int := 100 * n100Of doe + 4 * n4Of doe + n1Of doe
/-- Day of the year that starts on March 1, `0 .. 365`. -/
def doyMarOf (doe : Int) : Int := r2Of doe - 365 * n1Of doe
/-- Month counted from March, `0 .. 11`. -/
def mpOf (doyMar : Int) : Int := (5 * doyMar + 2) / 153

/-- Civil date from the era, the year of the era and the day of the March-based year. -/
def civilOfParts (era yoe doyMar : Int) : Civil :=
  let mp := mpOf doyMar
  let d := doyMar - (153 * mp + 2) / 5 + 1
  let m := if mp < 10 then mp + 3 else mp - 9
  let y := yoe + era * 400 + (if m ≤ 2 then 1 else 0)
  let doy := if mp < 10 then doyMar + 59 + (if isLeap y then 1 else 0) else doyMar - 306
  { year := y, month := m, day := d, doy := doy }

/-- Civil date of the day `z` days after 1970-01-01. -/
def civilOfDays (z : Int) : Civil :=
  civilOfParts (eraOf z) (yoeOf (doeOf z)) (doyMarOf (doeOf z))

/-- Days since 1970-01-01 of a civil date (inverse of `civilOfDays`). -/
def daysOfCivil (y m d : Int) : Int :=
  let y' := y - (if m ≤ 2 then 1 else 0)
  let era := y' / 400
  let yoe := y' % 400
  let mp := if m > 2 then m - 3 else m + 9
  let doyMar := (153 * mp + 2) / 5 + d - 1
  let doe := yoe * 365 + yoe / 4 - yoe / 100 + doyMar
  era * 146097 + doe - 719468

/-- Day of the week, Sunday = 0 (1970-01-01 was a Thursday). -/
def dowOfDays (z : Int) : Int := (z + 4) % 7

def nsPerSec : Int := 1000000000

/-- Whole seconds since the epoch (floor) of an instant in nanoseconds. -/
def secsOf (t : Int) : Int := t / nsPerSec
/-- Sub-second nanoseconds `0 .. 999 999 999` of an instant. -/
def subNanosOf (t : Int) : Int := t % nsPerSec

/-- The ten calendar accessors. -/
inductive Field
  | fullYear | month | date | dayOfMonth | dayOfYear | dayOfWeek | hours | minutes | seconds | millis
  deriving DecidableEq, Repr

def Field.all : List Field :=
  [.fullYear, .month, .date, .dayOfMonth, .dayOfYear, .dayOfWeek, .hours, .minutes, .seconds, .millis]

/-- The documented value of a field for the local second count `ls` (seconds since the epoch plus the zone
    offset) and the sub-second nanoseconds `sn`:
    month, day-of-month, day-of-year, day-of-week zero-based (Sunday = 0), date one-based. -/
def civilField (f : Field) (ls sn : Int) : Int :=
  let days := ls / 86400
  let sod := ls % 86400
  match f with
  | .fullYear => (civilOfDays days).year
  | .month => (civilOfDays days).month - 1
  | .date => (civilOfDays days).day
  | .dayOfMonth => (civilOfDays days).day - 1
  | .dayOfYear => (civilOfDays days).doy
  | .dayOfWeek => dowOfDays days
  | .hours => sod / 3600
  | .minutes => sod % 3600 / 60
  | .seconds => sod % 60
  | .millis => sn / 1000000

/-- `t.getX()`: the field in UTC. -/
def accUtc (f : Field) (t : Int) : Int := civilField f (secsOf t) (subNanosOf t)

/-- What the zoned overload adds to the documented value: `get_day_of_week(this, timezone)` uses
    `number_from_sunday()` (Sunday = 1) where the zone-less overload uses `num_days_from_sunday()`
    (Sunday = 0).  Every other accessor uses the same chrono call in both overloads. -/
def zonedBias : Field → Int
  | .dayOfWeek => 1
  | _ => 0

/-- `t.getX(zone)` once the zone's offset `off` (seconds) at `t` is known. -/
def accAt (f : Field) (off t : Int) : Int := civilField f (secsOf t + off) (subNanosOf t) + zonedBias f

abbrev ZoneDb := Str → Int → Option Int

/-- `t.getX(zone)`: `Tz::from_str` failing is an Argument error. -/
def accZone (db : ZoneDb) (f : Field) (zone : Str) (t : Int) : Val :=
  match db zone t with
  | none => .err .argument
  | some off => .int (accAt f off t)

/-! ### durations: `num_hours`, `num_minutes`, `num_seconds` (whole units, truncated toward zero) and
    `subsec_nanos() / 1_000_000` -/

def durSeconds (n : Int) : Int := Int.tdiv n nsPerSec
def durMinutes (n : Int) : Int := Int.tdiv (durSeconds n) 60
def durHours (n : Int) : Int := Int.tdiv (durSeconds n) 3600
/-- `subsec_nanos` has the sign of the duration. -/
def durSubNanos (n : Int) : Int := Int.tmod n nsPerSec
def durMillis (n : Int) : Int := Int.tdiv (durSubNanos n) 1000000

def durField : Field → Option (Int → Int)
  | .hours => some durHours
  | .minutes => some durMinutes
  | .seconds => some durSeconds
  | .millis => some durMillis
  | _ => none

/-! ### the functions as registered (`#[dispatch]` overloads, receiver form) -/

def Field.funcName : Field → String
  | .fullYear => "getFullYear" | .month => "getMonth" | .date => "getDate" | .dayOfMonth => "getDayOfMonth"
  | .dayOfYear => "getDayOfYear" | .dayOfWeek => "getDayOfWeek" | .hours => "getHours"
  | .minutes => "getMinutes" | .seconds => "getSeconds" | .millis => "getMilliseconds"

def accOverloads (db : ZoneDb) (f : Field) : List Overload :=
  [ ⟨some .ts, [], fun t _ => match t with | .ts n => .int (accUtc f n) | _ => .err .internal⟩,
    ⟨some .ts, [.str], fun t a => match t, a with
      | .ts n, .str z :: _ => accZone db f z n | _, _ => .err .internal⟩ ] ++
  (match durField f with
   | some g => [ ⟨some .dur, [], fun t _ => match t with | .dur n => .int (g n) | _ => .err .internal⟩ ]
   | none => [])

/-- `this.getX(args…)`. -/
def callAcc (db : ZoneDb) (f : Field) (this : Val) (args : List Val) : Val :=
  dispatch (accOverloads db f) this args

/-- The dispatch tables, for `mkBuiltins … extra`. -/
def timeFuncs (db : ZoneDb) : List (String × List Overload) :=
  Field.all.map fun f => (f.funcName, accOverloads db f)

end Rscel.Time
