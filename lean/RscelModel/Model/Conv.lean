import RscelModel.Model.Strings
import RscelModel.Model.Math
/-
The parameters of the conversions and string built-ins that come from libraries:
`ConvExt` (Rust `std` shortest round-trip float printing and float parsing, chrono's RFC 3339 / RFC 2822
text forms, `duration_str`) and `StrExt` (Unicode case mapping, the `regex` crate).

The model takes their values on the points a run needs from a table (`ExtTable`): the harness sends the
real library's answer along with each request.  A point missing from the table answers with a marker
that cannot be mistaken for a real answer.  The default instance is the empty table.
-/
namespace Rscel

/-- One library answer: kind, arguments, result (`none` = the library rejects the input). -/
structure ExtEntry where
  kind : String
  ins : List Str
  out : Option Val

abbrev ExtTable := List ExtEntry

def ExtTable.find (t : ExtTable) (kind : String) (ins : List Str) : Option (Option Val) :=
  (List.find? (fun e => e.kind == kind && e.ins == ins) t).map (·.out)

def missing : Str := "<not in table>".toList

def hex16Str (b : UInt64) : Str := (Nat.toDigits 16 b.toNat)
def intStr (i : Int) : Str := (toString i).toList

def tableConv (t : ExtTable) : ConvExt where
  stringDouble d := match t.find "sd" [hex16Str d] with | some (some (.str s)) => s | _ => missing
  stringTs n := match t.find "st" [intStr n] with | some (some (.str s)) => s | _ => missing
  stringDur n := match t.find "sdu" [intStr n] with | some (some (.str s)) => s | _ => missing
  doubleOfStr s := match t.find "ds" [s] with | some (some (.float d)) => some d | _ => none
  tsOfStr s := match t.find "ts" [s] with | some (some (.ts n)) => some n | _ => none
  durOfStr s := match t.find "du" [s] with | some (some (.dur n)) => some n | _ => none

def strOfVal : Val → Option Str
  | .str s => some s
  | _ => none

def tableStr (t : ExtTable) : StrExt where
  lower s := match t.find "lo" [s] with | some (some (.str r)) => r | _ => missing
  upper s := match t.find "up" [s] with | some (some (.str r)) => r | _ => missing
  reMatch s p := match t.find "rm" [s, p] with | some (some (.bool b)) => some b | _ => none
  reCaptures s p :=
    match t.find "rc" [s, p] with
    | some (some .null) => some none
    | some (some (.list gs)) => some (some (gs.map strOfVal))
    | _ => none
  reReplace all s p r :=
    match t.find (if all then "rra" else "rr1") [s, p, r] with
    | some (some (.str x)) => some x
    | _ => none

/-- All default functions and constructors over a table of library answers. -/
def tableBuiltins (t : ExtTable) (now : Int) : Builtins :=
  mkBuiltins (tableConv t) now (stringFuncs (tableStr t) ++ mathFuncs) (plainStringFuncs (tableStr t))

def stdBuiltins (now : Int) : Builtins := tableBuiltins [] now

end Rscel
