import RscelModel.Model.Builtins
/-
Number formatting / parsing and time text formats used by the conversions.
(Placeholder instance first; the exact definitions follow below as they are built.)
-/
namespace Rscel

def convStub : ConvExt where
  stringDouble _ := "?".toList
  stringTs _ := "?".toList
  stringDur _ := "?".toList
  doubleOfStr _ := none
  tsOfStr _ := none
  durOfStr _ := none

def stdBuiltins (now : Int) : Builtins := mkBuiltins convStub now []

end Rscel
