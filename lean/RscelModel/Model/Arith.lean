import RscelModel.Model.Value
import RscelModel.Model.Float
/-
Arithmetic on values: `type_prop` widening and `impl Add/Sub/Mul/Div/Rem/Neg for CelValue`
(`types/cel_value.rs`).  Integers are computed in ℤ and then narrowed with an explicit range
check, which is what the checked Rust operations do.
-/
namespace Rscel

def tsMin : Int := -8334601228800 * 1000000000
def tsMax : Int := 8210266876799 * 1000000000 + 999999999
def durMax : Int := 9223372036854775807 * 1000000
def inTs (n : Int) : Bool := decide (tsMin ≤ n) && decide (n ≤ tsMax)
def inDur (n : Int) : Bool := decide (-durMax ≤ n) && decide (n ≤ durMax)

def b01 (b : Bool) : Int := if b then 1 else 0
def b01n (b : Bool) : Nat := if b then 1 else 0
def b01f (b : Bool) : UInt64 := if b then F.one else F.posZero

/-- `CelValue::type_prop`: widen a numeric pair to a common type when that loses nothing.
    An int/uint pair whose uint exceeds `i64::MAX` is left alone (the operators treat it exactly). -/
def widen : Val → Val → Val × Val
  | .int l, .uint u => if (u : Int) ≤ i64Max then (.int l, .int u) else (.int l, .uint u)
  | .int l, .float r => (.float (F.ofInt l), .float r)
  | .int l, .bool b => (.int l, .int (b01 b))
  | .uint l, .int r => if (l : Int) ≤ i64Max then (.int l, .int r) else (.uint l, .int r)
  | .uint l, .float r => (.float (F.ofNat l), .float r)
  | .uint l, .bool b => (.uint l, .uint (b01n b))
  | .float l, .int r => (.float l, .float (F.ofInt r))
  | .float l, .uint r => (.float l, .float (F.ofNat r))
  | .float l, .bool b => (.float l, .float (b01f b))
  | .bool l, .int r => (.int (b01 l), .int r)
  | .bool l, .uint r => (.uint (b01n l), .uint r)
  | .bool l, .float r => (.float (b01f l), .float r)
  | l, r => (l, r)

/-- `error_prop_or`: the leftmost failing operand wins. -/
def errProp (l r : Val) (f : Val → Val → Val) : Val :=
  match l with
  | .err k => .err k
  | _ => match r with
    | .err k => .err k
    | _ => f l r

/-- Exact-or-error narrowing to `i64`. -/
def narrowI (r : Int) : Val := if inI64 r then .int r else .err .value
/-- Exact-or-error narrowing to `u64`. -/
def narrowU (r : Int) : Val := if inU64 r then .uint r.toNat else .err .value
def narrowTs (r : Int) : Val := if inTs r then .ts r else .err .value
def narrowDur (r : Int) : Val := if inDur r then .dur r else .err .value

inductive ArithOp | add | sub | mul | div | rem
  deriving DecidableEq, Repr

/-- The exact integer operation; `none` = division or remainder by zero. -/
def ArithOp.onInt : ArithOp → Int → Int → Option Int
  | .add, a, b => some (a + b)
  | .sub, a, b => some (a - b)
  | .mul, a, b => some (a * b)
  | .div, a, b => if b = 0 then none else some (Int.tdiv a b)
  | .rem, a, b => if b = 0 then none else some (Int.tmod a b)

def ArithOp.onFloat : ArithOp → UInt64 → UInt64 → Option UInt64
  | .add, a, b => some (F.add a b)
  | .sub, a, b => some (F.sub a b)
  | .mul, a, b => some (F.mul a b)
  | .div, a, b => some (F.div a b)
  | .rem, _, _ => none

def intArm (op : ArithOp) (a b : Int) : Val :=
  match op.onInt a b with
  | none => .err .divZero
  | some r => narrowI r

def uintArm (op : ArithOp) (a b : Nat) : Val :=
  match op.onInt a b with
  | none => .err .divZero
  | some r => narrowU r

/-- Arms other than the numeric ones (after widening). -/
def otherArm : ArithOp → Val → Val → Val
  | .add, .str a, .str b => .str (a ++ b)
  | .add, .bytes a, .bytes b => .bytes (a ++ b)
  | .add, .list a, .list b => .list (a ++ b)
  | .add, .ts t, .dur d => narrowTs (t + d)
  | .add, .dur d, .ts t => narrowTs (t + d)
  | .add, .dur a, .dur b => narrowDur (a + b)
  | .sub, .ts t, .dur d => narrowTs (t - d)
  | .sub, .ts a, .ts b => .dur (a - b)
  | .sub, .dur d, .ts t => narrowTs (t - d)
  | .sub, .dur a, .dur b => narrowDur (a - b)
  | _, _, _ => .err .invalidOp

def arithCore (op : ArithOp) (l r : Val) : Val :=
  match widen l r with
  | (.int a, .int b) => intArm op a b
  | (.int a, .uint b) => intArm op a b
  | (.uint a, .int b) => intArm op a b
  | (.uint a, .uint b) => uintArm op a b
  | (.float a, .float b) =>
    (match op.onFloat a b with
     | some x => .float x
     | none => .err .invalidOp)
  | (l', r') => otherArm op l' r'

/-- `l op r` for `+ - * / %`. -/
def arith (op : ArithOp) (l r : Val) : Val := errProp l r (arithCore op)

/-- Unary minus. -/
def neg : Val → Val
  | .err k => .err k
  | .int a => narrowI (-a)
  | .float a => .float (F.neg a)
  | _ => .err .invalidOp

end Rscel
