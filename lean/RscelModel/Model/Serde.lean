import RscelModel.Model.Value
import RscelModel.Model.Float
/-
The serde image of a compiled `Program` and its two encodings.

  Program        { details: ProgramDetails, bytecode: CelByteCode }        program/mod.rs:11
  ProgramDetails { source: Option<String>, params: HashSet<String>, ast: (skipped) }
  CelByteCode    { inner: Vec<ByteCode> }                                  types/cel_byte_code.rs:7
  ByteCode       28 variants, `JmpCond { when: JmpWhen, dist: i32 }`       interp/types/bytecode.rs:29
  CelValue       15 serialised variants + 3 skipped ones at the end        types/cel_value.rs:40
  CelBytes       { inner: Vec<u8> }                                        types/cel_bytes.rs:4
  CelError       10 variants, `Syntax(SyntaxError { loc: SourceLocation(usize, usize), message })`

The values here (`CVal`, `CInstr`, `CErr`) are richer than the VM model's `Val`/`Instr`: error
constants keep their payload (it is part of the bytes), maps and parameter sets are lists in the
iteration order the serialiser meets them, NaN keeps its payload.  `toVal`/`toInstr` project to the
VM model.

`encBin`/`decBin`: bincode 1.3 with default options (`bincode::serialize`/`deserialize`):
little-endian fixed-width integers, `u64` lengths, `u32` variant index, `Option` as a 0/1 byte,
`bool` as a 0/1 byte, strings as length + UTF-8, `f64` as its 8 bytes, trailing bytes allowed.
`encJ`/`decJ`: the `serde_json::Value` tree: structs as objects, externally tagged enums (unit variants
as strings), non-finite doubles as the strings "NaN"/"Infinity"/"-Infinity" (`float_serde`).
Time stamps are written as `i64` milliseconds, rounded down (`chrono::serde::ts_milliseconds`), durations
as `i64` milliseconds rounded half away from zero (`serde_with::DurationMilliSeconds<i64>`).

serde-derive behaviour assumed (documented in serde_derive, observed on the pinned tree): the index a
variant is *written* with is its position among all declared variants; the index a derived
deserialiser *accepts* is the position among the variants not marked `skip_deserializing`.  The
tables below carry both, `declIdx` and `deTag`; the encoders use the first and the decoders the second.

The decoders model the real deserialisers on the image of the serialisers (they are stricter elsewhere:
the real JSON deserialiser also accepts struct fields in any order, unknown fields, integers for doubles).
-/
namespace Rscel.Serde
open Rscel

/-! ## Enum layouts -/

structure Variant (τ : Type) where
  tag : τ
  name : String
  skipSer : Bool := false
  skipDe : Bool := false

/-- Index written by the derived `Serialize`: position in the declaration. -/
def declIdx {τ} [DecidableEq τ] (L : List (Variant τ)) (t : τ) : Nat := (L.map (·.tag)).idxOf t

def kept {τ} (L : List (Variant τ)) : List (Variant τ) := L.filter (fun v => !v.skipDe)

/-- Variant the derived `Deserialize` selects for an index: position among the kept variants. -/
def deTag {τ} (L : List (Variant τ)) (n : Nat) : Option τ := ((kept L)[n]?).map (·.tag)

def nameOf {τ} [DecidableEq τ] (L : List (Variant τ)) (t : τ) : Str :=
  match L.find? (fun v => decide (v.tag = t)) with
  | some v => v.name.toList
  | none => []

def tagOfName {τ} (L : List (Variant τ)) (s : Str) : Option τ :=
  ((kept L).find? (fun v => decide (v.name.toList = s))).map (·.tag)

inductive VTag
  | vInt | vUInt | vFloat | vBool | vString | vBytes | vList | vMap | vNull | vIdent | vType
  | vTimeStamp | vDuration | vByteCode | vErr | vMessage | vEnum | vDyn
  deriving DecidableEq, Repr

/-- `enum CelValue`, `types/cel_value.rs:40-73` (with the `protobuf` feature, the default). -/
def valueLayout : List (Variant VTag) :=
  [⟨.vInt, "Int", false, false⟩, ⟨.vUInt, "UInt", false, false⟩, ⟨.vFloat, "Float", false, false⟩,
   ⟨.vBool, "Bool", false, false⟩, ⟨.vString, "String", false, false⟩, ⟨.vBytes, "Bytes", false, false⟩,
   ⟨.vList, "List", false, false⟩, ⟨.vMap, "Map", false, false⟩, ⟨.vNull, "Null", false, false⟩,
   ⟨.vIdent, "Ident", false, false⟩, ⟨.vType, "Type", false, false⟩, ⟨.vTimeStamp, "TimeStamp", false, false⟩,
   ⟨.vDuration, "Duration", false, false⟩, ⟨.vByteCode, "ByteCode", false, false⟩, ⟨.vErr, "Err", false, false⟩,
   ⟨.vMessage, "Message", true, true⟩, ⟨.vEnum, "Enum", true, true⟩, ⟨.vDyn, "Dyn", true, true⟩]

/-- The declaration order of the pinned tree: `Err` after the three skipped variants. -/
def valueLayoutPinned : List (Variant VTag) :=
  [⟨.vInt, "Int", false, false⟩, ⟨.vUInt, "UInt", false, false⟩, ⟨.vFloat, "Float", false, false⟩,
   ⟨.vBool, "Bool", false, false⟩, ⟨.vString, "String", false, false⟩, ⟨.vBytes, "Bytes", false, false⟩,
   ⟨.vList, "List", false, false⟩, ⟨.vMap, "Map", false, false⟩, ⟨.vNull, "Null", false, false⟩,
   ⟨.vIdent, "Ident", false, false⟩, ⟨.vType, "Type", false, false⟩, ⟨.vTimeStamp, "TimeStamp", false, false⟩,
   ⟨.vDuration, "Duration", false, false⟩, ⟨.vByteCode, "ByteCode", false, false⟩,
   ⟨.vMessage, "Message", true, true⟩, ⟨.vEnum, "Enum", true, true⟩, ⟨.vDyn, "Dyn", true, true⟩,
   ⟨.vErr, "Err", false, false⟩]

inductive ITag
  | iPush | iPop | iTest | iDup | iOr | iAnd | iNot | iNeg | iAdd | iSub | iMul | iDiv | iMod
  | iLt | iLe | iEq | iNe | iGe | iGt | iIn | iJmp | iJmpCond | iMkList | iMkDict | iIndex | iAccess
  | iCall | iFmtString
  deriving DecidableEq, Repr

/-- `enum ByteCode`, `interp/types/bytecode.rs:29-58`. -/
def instrLayout : List (Variant ITag) :=
  [⟨.iPush, "Push", false, false⟩, ⟨.iPop, "Pop", false, false⟩, ⟨.iTest, "Test", false, false⟩,
   ⟨.iDup, "Dup", false, false⟩, ⟨.iOr, "Or", false, false⟩, ⟨.iAnd, "And", false, false⟩,
   ⟨.iNot, "Not", false, false⟩, ⟨.iNeg, "Neg", false, false⟩, ⟨.iAdd, "Add", false, false⟩,
   ⟨.iSub, "Sub", false, false⟩, ⟨.iMul, "Mul", false, false⟩, ⟨.iDiv, "Div", false, false⟩,
   ⟨.iMod, "Mod", false, false⟩, ⟨.iLt, "Lt", false, false⟩, ⟨.iLe, "Le", false, false⟩,
   ⟨.iEq, "Eq", false, false⟩, ⟨.iNe, "Ne", false, false⟩, ⟨.iGe, "Ge", false, false⟩,
   ⟨.iGt, "Gt", false, false⟩, ⟨.iIn, "In", false, false⟩, ⟨.iJmp, "Jmp", false, false⟩,
   ⟨.iJmpCond, "JmpCond", false, false⟩, ⟨.iMkList, "MkList", false, false⟩, ⟨.iMkDict, "MkDict", false, false⟩,
   ⟨.iIndex, "Index", false, false⟩, ⟨.iAccess, "Access", false, false⟩, ⟨.iCall, "Call", false, false⟩,
   ⟨.iFmtString, "FmtString", false, false⟩]

inductive ETag
  | eMisc | eSyntax | eValue | eArgument | eInvalidOp | eRuntime | eBinding | eAttribute | eDivideByZero | eInternal
  deriving DecidableEq, Repr

/-- `enum CelError`, `types/cel_error.rs:8-20`. -/
def errLayout : List (Variant ETag) :=
  [⟨.eMisc, "Misc", false, false⟩, ⟨.eSyntax, "Syntax", false, false⟩, ⟨.eValue, "Value", false, false⟩,
   ⟨.eArgument, "Argument", false, false⟩, ⟨.eInvalidOp, "InvalidOp", false, false⟩,
   ⟨.eRuntime, "Runtime", false, false⟩, ⟨.eBinding, "Binding", false, false⟩,
   ⟨.eAttribute, "Attribute", false, false⟩, ⟨.eDivideByZero, "DivideByZero", false, false⟩,
   ⟨.eInternal, "Internal", false, false⟩]

/-- `enum JmpWhen { True, False }`, `interp/types/bytecode.rs:8`. -/
def whenLayout : List (Variant Bool) := [⟨true, "True", false, false⟩, ⟨false, "False", false, false⟩]

/-! ## The serialised data -/

/-- `CelError` with its payload. -/
inductive CErr
  | misc (m : Str)
  | syn (line col : Nat) (msg : Option Str)
  | value (m : Str)
  | argument (m : Str)
  | invalidOp (m : Str)
  | runtime (m : Str)
  | binding (sym : Str)
  | attr (parent field : Str)
  | divZero
  | internal (m : Str)
  deriving DecidableEq, Repr

def CErr.kind : CErr → ErrKind
  | .misc _ => .misc | .syn .. => .syntax | .value _ => .value | .argument _ => .argument
  | .invalidOp _ => .invalidOp | .runtime _ => .runtime | .binding _ => .binding
  | .attr .. => .attribute | .divZero => .divZero | .internal _ => .internal

mutual
inductive CVal
  | int (i : Int)
  | uint (n : Nat)
  | float (bits : UInt64)
  | bool (b : Bool)
  | str (s : Str)
  | bytes (b : List UInt8)
  | list (l : List CVal)
  | map (m : List (Str × CVal))
  | null
  | ident (s : Str)
  | type (s : Str)
  | ts (nanos : Int)
  | dur (nanos : Int)
  | code (c : List CInstr)
  | err (e : CErr)
inductive CInstr
  | push (v : CVal)
  | pop | test | dup | or | and | not | neg
  | add | sub | mul | div | mod
  | lt | le | eq | ne | ge | gt | in_
  | jmp (d : Int)
  | jmpCond (when : Bool) (d : Int)
  | mkList (n : Nat)
  | mkDict (n : Nat)
  | index | access
  | call (n : Nat)
  | fmt (n : Nat)
end

instance : Inhabited CVal := ⟨.null⟩
instance : Inhabited CInstr := ⟨.pop⟩

/-- `Program` as serde sees it (`ast` is skipped both ways). -/
structure CProg where
  source : Option Str
  params : List Str
  code : List CInstr

/-! ## Millisecond encodings -/

/-- `DateTime::timestamp_millis`: rounded down. -/
def tsMs (nanos : Int) : Int := nanos / 1000000

/-- `DurationMilliSeconds<i64>`: magnitude rounded half up, sign restored. -/
def durMs (nanos : Int) : Int :=
  if 0 ≤ nanos then (nanos + 500000) / 1000000 else -((-nanos + 500000) / 1000000)

/-- `DateTime::<Utc>::from_timestamp_millis` accepts exactly `MIN_UTC ..= MAX_UTC`. -/
def tsMsOk (ms : Int) : Bool := decide (-8334601228800000 ≤ ms) && decide (ms ≤ 8210266876799999)

/-- `TimeDelta` holds `-i64::MAX ..= i64::MAX` milliseconds. -/
def durMsOk (ms : Int) : Bool := decide (-9223372036854775807 ≤ ms) && decide (ms ≤ 9223372036854775807)

/-! ## What the Rust types guarantee -/

def utf8 (s : Str) : List UInt8 := (String.ofList s).toUTF8.data.toList

def ofUtf8 (bs : List UInt8) : Option Str := (String.fromUTF8? ⟨bs.toArray⟩).map String.toList

def fitsLen (n : Nat) : Bool := decide (n < 18446744073709551616)
def fitsStr (s : Str) : Bool := fitsLen (utf8 s).length
def fitsI32 (d : Int) : Bool := decide (-2147483648 ≤ d) && decide (d ≤ 2147483647)
def fitsU32 (n : Nat) : Bool := decide (n < 4294967296)

def fitsErr : CErr → Bool
  | .misc m | .value m | .argument m | .invalidOp m | .runtime m | .internal m | .binding m => fitsStr m
  | .syn l c none => fitsLen l && fitsLen c
  | .syn l c (some m) => fitsLen l && fitsLen c && fitsStr m
  | .attr p f => fitsStr p && fitsStr f
  | .divZero => true

mutual
/-- The invariants of the Rust types: `i64`/`u64`/`i32`/`u32` ranges, `usize` lengths, the ranges of
    `DateTime<Utc>` and `TimeDelta`. -/
def fitsV : CVal → Bool
  | .int i => inI64 i
  | .uint n => inU64 n
  | .float _ | .bool _ | .null => true
  | .str s | .ident s | .type s => fitsStr s
  | .bytes b => fitsLen b.length
  | .list l => fitsLen l.length && fitsVs l
  | .map m => fitsLen m.length && fitsEs m
  | .ts n => tsMsOk (tsMs n)
  | .dur n => durMsOk (durMs n)
  | .code c => fitsLen c.length && fitsIs c
  | .err e => fitsErr e
def fitsVs : List CVal → Bool
  | [] => true
  | v :: vs => fitsV v && fitsVs vs
def fitsEs : List (Str × CVal) → Bool
  | [] => true
  | (k, v) :: es => fitsStr k && fitsV v && fitsEs es
def fitsI : CInstr → Bool
  | .push v => fitsV v
  | .jmp d | .jmpCond _ d => fitsI32 d
  | .mkList n | .mkDict n | .call n | .fmt n => fitsU32 n
  | _ => true
def fitsIs : List CInstr → Bool
  | [] => true
  | i :: is => fitsI i && fitsIs is
end

def fitsStrs : List Str → Bool
  | [] => true
  | s :: ss => fitsStr s && fitsStrs ss

def fitsOpt : Option Str → Bool
  | none => true
  | some s => fitsStr s

def CProg.fits (p : CProg) : Bool :=
  fitsOpt p.source && fitsLen p.params.length && fitsStrs p.params && fitsLen p.code.length && fitsIs p.code

/-! ## What a round trip preserves: everything but sub-millisecond time -/

mutual
def msV : CVal → CVal
  | .ts n => .ts (tsMs n * 1000000)
  | .dur n => .dur (durMs n * 1000000)
  | .list l => .list (msVs l)
  | .map m => .map (msEs m)
  | .code c => .code (msIs c)
  | v => v
def msVs : List CVal → List CVal
  | [] => []
  | v :: vs => msV v :: msVs vs
def msEs : List (Str × CVal) → List (Str × CVal)
  | [] => []
  | (k, v) :: es => (k, msV v) :: msEs es
def msI : CInstr → CInstr
  | .push v => .push (msV v)
  | i => i
def msIs : List CInstr → List CInstr
  | [] => []
  | i :: is => msI i :: msIs is
end

/-- The program with every time constant at the resolution of the serialised form. -/
def msTrunc (p : CProg) : CProg := { p with code := msIs p.code }

mutual
/-- Every time constant is a whole number of milliseconds. -/
def msResV : CVal → Bool
  | .ts n | .dur n => decide (n % 1000000 = 0)
  | .list l => msResVs l
  | .map m => msResEs m
  | .code c => msResIs c
  | _ => true
def msResVs : List CVal → Bool
  | [] => true
  | v :: vs => msResV v && msResVs vs
def msResEs : List (Str × CVal) → Bool
  | [] => true
  | (_, v) :: es => msResV v && msResEs es
def msResI : CInstr → Bool
  | .push v => msResV v
  | _ => true
def msResIs : List CInstr → Bool
  | [] => true
  | i :: is => msResI i && msResIs is
end

def CProg.msRes (p : CProg) : Bool := msResIs p.code

/-- JSON has one NaN. -/
def canonF (b : UInt64) : UInt64 := if F.isNaN b then F.canonNaN else b

mutual
def nanV : CVal → CVal
  | .float b => .float (canonF b)
  | .list l => .list (nanVs l)
  | .map m => .map (nanEs m)
  | .code c => .code (nanIs c)
  | v => v
def nanVs : List CVal → List CVal
  | [] => []
  | v :: vs => nanV v :: nanVs vs
def nanEs : List (Str × CVal) → List (Str × CVal)
  | [] => []
  | (k, v) :: es => (k, nanV v) :: nanEs es
def nanI : CInstr → CInstr
  | .push v => .push (nanV v)
  | i => i
def nanIs : List CInstr → List CInstr
  | [] => []
  | i :: is => nanI i :: nanIs is
end

/-- What a JSON round trip preserves: as `msTrunc`, and NaN payloads collapse to the one NaN. -/
def jsonNorm (p : CProg) : CProg := { p with code := nanIs (msIs p.code) }

/-! ## Nesting depth (fuel of the decoders) -/

mutual
def depthV : CVal → Nat
  | .list l => depthVs l + 1
  | .map m => depthEs m + 1
  | .code c => depthIs c + 1
  | _ => 1
def depthVs : List CVal → Nat
  | [] => 0
  | v :: vs => max (depthV v) (depthVs vs)
def depthEs : List (Str × CVal) → Nat
  | [] => 0
  | (_, v) :: es => max (depthV v) (depthEs es)
def depthI : CInstr → Nat
  | .push v => depthV v + 1
  | _ => 1
def depthIs : List CInstr → Nat
  | [] => 0
  | i :: is => max (depthI i) (depthIs is)
end

/-! ## bincode -/

def byteOf (n : Nat) : UInt8 := UInt8.ofNat n

def u32le (n : Nat) : List UInt8 := [byteOf n, byteOf (n / 256), byteOf (n / 65536), byteOf (n / 16777216)]
def u64le (n : Nat) : List UInt8 := u32le n ++ u32le (n / 4294967296)
def i64le (i : Int) : List UInt8 := u64le (i % 18446744073709551616).toNat
def i32le (i : Int) : List UInt8 := u32le (i % 4294967296).toNat

def rdU32 : List UInt8 → Option (Nat × List UInt8)
  | a :: b :: c :: d :: rest => some (a.toNat + 256 * b.toNat + 65536 * c.toNat + 16777216 * d.toNat, rest)
  | _ => none

def rdU64 (bs : List UInt8) : Option (Nat × List UInt8) :=
  match rdU32 bs with
  | none => none
  | some (lo, bs) =>
    match rdU32 bs with
    | none => none
    | some (hi, bs) => some (lo + 4294967296 * hi, bs)

def rdI64 (bs : List UInt8) : Option (Int × List UInt8) :=
  match rdU64 bs with
  | none => none
  | some (n, bs) => some (if n < 9223372036854775808 then (n : Int) else (n : Int) - 18446744073709551616, bs)

def rdI32 (bs : List UInt8) : Option (Int × List UInt8) :=
  match rdU32 bs with
  | none => none
  | some (n, bs) => some (if n < 2147483648 then (n : Int) else (n : Int) - 4294967296, bs)

def rdBytes (n : Nat) (bs : List UInt8) : Option (List UInt8 × List UInt8) :=
  if n ≤ bs.length then some (bs.take n, bs.drop n) else none

def encStr (s : Str) : List UInt8 := u64le (utf8 s).length ++ utf8 s

def rdStr (bs : List UInt8) : Option (Str × List UInt8) :=
  match rdU64 bs with
  | none => none
  | some (n, bs) =>
    match rdBytes n bs with
    | none => none
    | some (raw, bs) =>
      match ofUtf8 raw with
      | none => none
      | some s => some (s, bs)

def encOptStr : Option Str → List UInt8
  | none => [0]
  | some s => 1 :: encStr s

def rdOptStr : List UInt8 → Option (Option Str × List UInt8)
  | 0 :: bs => some (none, bs)
  | 1 :: bs =>
    match rdStr bs with
    | none => none
    | some (s, bs) => some (some s, bs)
  | _ => none

def encBool (b : Bool) : List UInt8 := [if b then 1 else 0]

def rdBool : List UInt8 → Option (Bool × List UInt8)
  | 0 :: bs => some (false, bs)
  | 1 :: bs => some (true, bs)
  | _ => none

/-- `n` items, each read by `f`. -/
def decSeq {α} (f : List UInt8 → Option (α × List UInt8)) : Nat → List UInt8 → Option (List α × List UInt8)
  | 0, bs => some ([], bs)
  | n + 1, bs =>
    match f bs with
    | none => none
    | some (a, bs) =>
      match decSeq f n bs with
      | none => none
      | some (as, bs) => some (a :: as, bs)

def encStrs : List Str → List UInt8
  | [] => []
  | s :: ss => encStr s ++ encStrs ss

def tagV (t : VTag) : List UInt8 := u32le (declIdx valueLayout t)
def tagI (t : ITag) : List UInt8 := u32le (declIdx instrLayout t)
def tagE (t : ETag) : List UInt8 := u32le (declIdx errLayout t)
def tagW (t : Bool) : List UInt8 := u32le (declIdx whenLayout t)

def encErr : CErr → List UInt8
  | .misc m => tagE .eMisc ++ encStr m
  | .syn l c m => tagE .eSyntax ++ u64le l ++ u64le c ++ encOptStr m
  | .value m => tagE .eValue ++ encStr m
  | .argument m => tagE .eArgument ++ encStr m
  | .invalidOp m => tagE .eInvalidOp ++ encStr m
  | .runtime m => tagE .eRuntime ++ encStr m
  | .binding s => tagE .eBinding ++ encStr s
  | .attr p f => tagE .eAttribute ++ encStr p ++ encStr f
  | .divZero => tagE .eDivideByZero
  | .internal m => tagE .eInternal ++ encStr m

def rdErr (bs : List UInt8) : Option (CErr × List UInt8) :=
  match rdU32 bs with
  | none => none
  | some (tag, bs) =>
    match deTag errLayout tag with
    | some .eMisc => (rdStr bs).map fun (m, bs) => (.misc m, bs)
    | some .eSyntax =>
      (match rdU64 bs with
       | none => none
       | some (l, bs) =>
         match rdU64 bs with
         | none => none
         | some (c, bs) => (rdOptStr bs).map fun (m, bs) => (.syn l c m, bs))
    | some .eValue => (rdStr bs).map fun (m, bs) => (.value m, bs)
    | some .eArgument => (rdStr bs).map fun (m, bs) => (.argument m, bs)
    | some .eInvalidOp => (rdStr bs).map fun (m, bs) => (.invalidOp m, bs)
    | some .eRuntime => (rdStr bs).map fun (m, bs) => (.runtime m, bs)
    | some .eBinding => (rdStr bs).map fun (m, bs) => (.binding m, bs)
    | some .eAttribute =>
      (match rdStr bs with
       | none => none
       | some (p, bs) => (rdStr bs).map fun (f, bs) => (.attr p f, bs))
    | some .eDivideByZero => some (.divZero, bs)
    | some .eInternal => (rdStr bs).map fun (m, bs) => (.internal m, bs)
    | none => none

mutual
def encVal : CVal → List UInt8
  | .int i => tagV .vInt ++ i64le i
  | .uint n => tagV .vUInt ++ u64le n
  | .float b => tagV .vFloat ++ u64le b.toNat
  | .bool b => tagV .vBool ++ encBool b
  | .str s => tagV .vString ++ encStr s
  | .bytes b => tagV .vBytes ++ u64le b.length ++ b
  | .list l => tagV .vList ++ u64le l.length ++ encVals l
  | .map m => tagV .vMap ++ u64le m.length ++ encEntries m
  | .null => tagV .vNull
  | .ident s => tagV .vIdent ++ encStr s
  | .type s => tagV .vType ++ encStr s
  | .ts n => tagV .vTimeStamp ++ i64le (tsMs n)
  | .dur n => tagV .vDuration ++ i64le (durMs n)
  | .code c => tagV .vByteCode ++ u64le c.length ++ encInstrs c
  | .err e => tagV .vErr ++ encErr e
def encVals : List CVal → List UInt8
  | [] => []
  | v :: vs => encVal v ++ encVals vs
def encEntries : List (Str × CVal) → List UInt8
  | [] => []
  | (k, v) :: es => encStr k ++ encVal v ++ encEntries es
def encInstr : CInstr → List UInt8
  | .push v => tagI .iPush ++ encVal v
  | .pop => tagI .iPop | .test => tagI .iTest | .dup => tagI .iDup | .or => tagI .iOr
  | .and => tagI .iAnd | .not => tagI .iNot | .neg => tagI .iNeg | .add => tagI .iAdd
  | .sub => tagI .iSub | .mul => tagI .iMul | .div => tagI .iDiv | .mod => tagI .iMod
  | .lt => tagI .iLt | .le => tagI .iLe | .eq => tagI .iEq | .ne => tagI .iNe
  | .ge => tagI .iGe | .gt => tagI .iGt | .in_ => tagI .iIn
  | .jmp d => tagI .iJmp ++ i32le d
  | .jmpCond w d => tagI .iJmpCond ++ tagW w ++ i32le d
  | .mkList n => tagI .iMkList ++ u32le n
  | .mkDict n => tagI .iMkDict ++ u32le n
  | .index => tagI .iIndex | .access => tagI .iAccess
  | .call n => tagI .iCall ++ u32le n
  | .fmt n => tagI .iFmtString ++ u32le n
def encInstrs : List CInstr → List UInt8
  | [] => []
  | i :: is => encInstr i ++ encInstrs is
end

/-- `bincode::serialize(&Program)`. -/
def encBin (p : CProg) : List UInt8 :=
  encOptStr p.source ++ u64le p.params.length ++ encStrs p.params ++ u64le p.code.length ++ encInstrs p.code

def rdEntry (f : List UInt8 → Option (CVal × List UInt8)) (bs : List UInt8) : Option ((Str × CVal) × List UInt8) :=
  match rdStr bs with
  | none => none
  | some (k, bs) =>
    match f bs with
    | none => none
    | some (v, bs) => some ((k, v), bs)

def rdByte : List UInt8 → Option (UInt8 × List UInt8)
  | b :: bs => some (b, bs)
  | [] => none

mutual
def decVal : Nat → List UInt8 → Option (CVal × List UInt8)
  | 0, _ => none
  | fuel + 1, bs =>
    match rdU32 bs with
    | none => none
    | some (tag, bs) =>
      match deTag valueLayout tag with
      | some .vInt => (rdI64 bs).map fun (i, bs) => (.int i, bs)
      | some .vUInt => (rdU64 bs).map fun (n, bs) => (.uint n, bs)
      | some .vFloat => (rdU64 bs).map fun (n, bs) => (.float (UInt64.ofNat n), bs)
      | some .vBool => (rdBool bs).map fun (b, bs) => (.bool b, bs)
      | some .vString => (rdStr bs).map fun (s, bs) => (.str s, bs)
      | some .vBytes =>
        (match rdU64 bs with
         | none => none
         | some (n, bs) => (rdBytes n bs).map fun (b, bs) => (.bytes b, bs))
      | some .vList =>
        (match rdU64 bs with
         | none => none
         | some (n, bs) => (decSeq (decVal fuel) n bs).map fun (l, bs) => (.list l, bs))
      | some .vMap =>
        (match rdU64 bs with
         | none => none
         | some (n, bs) => (decSeq (rdEntry (decVal fuel)) n bs).map fun (m, bs) => (.map m, bs))
      | some .vNull => some (.null, bs)
      | some .vIdent => (rdStr bs).map fun (s, bs) => (.ident s, bs)
      | some .vType => (rdStr bs).map fun (s, bs) => (.type s, bs)
      | some .vTimeStamp =>
        (match rdI64 bs with
         | none => none
         | some (ms, bs) => if tsMsOk ms then some (.ts (ms * 1000000), bs) else none)
      | some .vDuration =>
        (match rdI64 bs with
         | none => none
         | some (ms, bs) => if durMsOk ms then some (.dur (ms * 1000000), bs) else none)
      | some .vByteCode =>
        (match rdU64 bs with
         | none => none
         | some (n, bs) => (decSeq (decInstr fuel) n bs).map fun (c, bs) => (.code c, bs))
      | some .vErr => (rdErr bs).map fun (e, bs) => (.err e, bs)
      | _ => none
def decInstr : Nat → List UInt8 → Option (CInstr × List UInt8)
  | 0, _ => none
  | fuel + 1, bs =>
    match rdU32 bs with
    | none => none
    | some (tag, bs) =>
      match deTag instrLayout tag with
      | some .iPush => (decVal fuel bs).map fun (v, bs) => (.push v, bs)
      | some .iPop => some (.pop, bs) | some .iTest => some (.test, bs) | some .iDup => some (.dup, bs)
      | some .iOr => some (.or, bs) | some .iAnd => some (.and, bs) | some .iNot => some (.not, bs)
      | some .iNeg => some (.neg, bs) | some .iAdd => some (.add, bs) | some .iSub => some (.sub, bs)
      | some .iMul => some (.mul, bs) | some .iDiv => some (.div, bs) | some .iMod => some (.mod, bs)
      | some .iLt => some (.lt, bs) | some .iLe => some (.le, bs) | some .iEq => some (.eq, bs)
      | some .iNe => some (.ne, bs) | some .iGe => some (.ge, bs) | some .iGt => some (.gt, bs)
      | some .iIn => some (.in_, bs)
      | some .iJmp => (rdI32 bs).map fun (d, bs) => (.jmp d, bs)
      | some .iJmpCond =>
        (match rdU32 bs with
         | none => none
         | some (w, bs) =>
           match deTag whenLayout w with
           | none => none
           | some w => (rdI32 bs).map fun (d, bs) => (.jmpCond w d, bs))
      | some .iMkList => (rdU32 bs).map fun (n, bs) => (.mkList n, bs)
      | some .iMkDict => (rdU32 bs).map fun (n, bs) => (.mkDict n, bs)
      | some .iIndex => some (.index, bs) | some .iAccess => some (.access, bs)
      | some .iCall => (rdU32 bs).map fun (n, bs) => (.call n, bs)
      | some .iFmtString => (rdU32 bs).map fun (n, bs) => (.fmt n, bs)
      | none => none
end

def decProg (fuel : Nat) (bs : List UInt8) : Option CProg :=
  match rdOptStr bs with
  | none => none
  | some (source, bs) =>
    match rdU64 bs with
    | none => none
    | some (np, bs) =>
      match decSeq rdStr np bs with
      | none => none
      | some (params, bs) =>
        match rdU64 bs with
        | none => none
        | some (nc, bs) =>
          match decSeq (decInstr fuel) nc bs with
          | none => none
          | some (code, _) => some { source := source, params := params, code := code }

/-- `bincode::deserialize::<Program>` (trailing bytes are ignored, as the library does).  No value nests
    deeper than the number of bytes. -/
def decBin (bs : List UInt8) : Option CProg := decProg bs.length bs

/-! ## JSON value tree -/

/-- `serde_json::Value` (numbers: integers of either sign, or a finite double by its bits). -/
inductive J
  | null
  | bool (b : Bool)
  | int (i : Int)
  | float (bits : UInt64)
  | str (s : Str)
  | arr (l : List J)
  | obj (m : List (Str × J))

instance : Inhabited J := ⟨.null⟩

def kInner : Str := "inner".toList
def kDetails : Str := "details".toList
def kBytecode : Str := "bytecode".toList
def kSource : Str := "source".toList
def kParams : Str := "params".toList
def kWhen : Str := "when".toList
def kDist : Str := "dist".toList
def kLoc : Str := "loc".toList
def kMessage : Str := "message".toList
def kSymbol : Str := "symbol".toList
def kParent : Str := "parent".toList
def kField : Str := "field".toList
def sNaN : Str := "NaN".toList
def sInf : Str := "Infinity".toList
def sNegInf : Str := "-Infinity".toList

def posInf : UInt64 := 0x7ff0000000000000
def negInf : UInt64 := 0xfff0000000000000

def nameV (t : VTag) : Str := nameOf valueLayout t
def nameI (t : ITag) : Str := nameOf instrLayout t
def nameE (t : ETag) : Str := nameOf errLayout t
def nameW (t : Bool) : Str := nameOf whenLayout t

/-- externally tagged newtype / struct variant -/
def tagged (name : Str) (payload : J) : J := .obj [(name, payload)]

/-- `float_serde::serialize` for a human-readable format. -/
def encJFloat (b : UInt64) : J :=
  if F.isNaN b then .str sNaN
  else if F.isInf b then (if F.signBit b then .str sNegInf else .str sInf)
  else .float b

def decJFloat : J → Option UInt64
  | .float b => if F.isNaN b || F.isInf b then none else some b
  | .str s =>
    if s = sNaN then some F.canonNaN
    else if s = sInf then some posInf
    else if s = sNegInf then some negInf
    else none
  | _ => none

def encJOptStr : Option Str → J
  | none => .null
  | some s => .str s

def decJOptStr : J → Option (Option Str)
  | .null => some none
  | .str s => some (some s)
  | _ => none

def encJErr : CErr → J
  | .misc m => tagged (nameE .eMisc) (.str m)
  | .syn l c m => tagged (nameE .eSyntax) (.obj [(kLoc, .arr [.int l, .int c]), (kMessage, encJOptStr m)])
  | .value m => tagged (nameE .eValue) (.str m)
  | .argument m => tagged (nameE .eArgument) (.str m)
  | .invalidOp m => tagged (nameE .eInvalidOp) (.str m)
  | .runtime m => tagged (nameE .eRuntime) (.str m)
  | .binding s => tagged (nameE .eBinding) (.obj [(kSymbol, .str s)])
  | .attr p f => tagged (nameE .eAttribute) (.obj [(kParent, .str p), (kField, .str f)])
  | .divZero => .str (nameE .eDivideByZero)
  | .internal m => tagged (nameE .eInternal) (.str m)

def decJErr : J → Option CErr
  | .str s => if tagOfName errLayout s = some .eDivideByZero then some .divZero else none
  | .obj [(k, p)] =>
    (match tagOfName errLayout k, p with
     | some .eMisc, .str m => some (.misc m)
     | some .eSyntax, .obj [(k1, .arr [.int l, .int c]), (k2, m)] =>
       if k1 = kLoc ∧ k2 = kMessage ∧ inU64 l ∧ inU64 c then (decJOptStr m).map (.syn l.toNat c.toNat) else none
     | some .eValue, .str m => some (.value m)
     | some .eArgument, .str m => some (.argument m)
     | some .eInvalidOp, .str m => some (.invalidOp m)
     | some .eRuntime, .str m => some (.runtime m)
     | some .eBinding, .obj [(k1, .str s)] => if k1 = kSymbol then some (.binding s) else none
     | some .eAttribute, .obj [(k1, .str p), (k2, .str f)] =>
       if k1 = kParent ∧ k2 = kField then some (.attr p f) else none
     | some .eInternal, .str m => some (.internal m)
     | _, _ => none)
  | _ => none

def optMapM {α β} (f : α → Option β) : List α → Option (List β)
  | [] => some []
  | a :: as =>
    match f a with
    | none => none
    | some b =>
      match optMapM f as with
      | none => none
      | some bs => some (b :: bs)

def encJByte (b : UInt8) : J := .int b.toNat

def decJByte : J → Option UInt8
  | .int i => if 0 ≤ i ∧ i < 256 then some (UInt8.ofNat i.toNat) else none
  | _ => none

mutual
def encJVal : CVal → J
  | .int i => tagged (nameV .vInt) (.int i)
  | .uint n => tagged (nameV .vUInt) (.int n)
  | .float b => tagged (nameV .vFloat) (encJFloat b)
  | .bool b => tagged (nameV .vBool) (.bool b)
  | .str s => tagged (nameV .vString) (.str s)
  | .bytes b => tagged (nameV .vBytes) (.obj [(kInner, .arr (b.map encJByte))])
  | .list l => tagged (nameV .vList) (.arr (encJVals l))
  | .map m => tagged (nameV .vMap) (.obj (encJEntries m))
  | .null => .str (nameV .vNull)
  | .ident s => tagged (nameV .vIdent) (.str s)
  | .type s => tagged (nameV .vType) (.str s)
  | .ts n => tagged (nameV .vTimeStamp) (.int (tsMs n))
  | .dur n => tagged (nameV .vDuration) (.int (durMs n))
  | .code c => tagged (nameV .vByteCode) (.obj [(kInner, .arr (encJInstrs c))])
  | .err e => tagged (nameV .vErr) (encJErr e)
def encJVals : List CVal → List J
  | [] => []
  | v :: vs => encJVal v :: encJVals vs
def encJEntries : List (Str × CVal) → List (Str × J)
  | [] => []
  | (k, v) :: es => (k, encJVal v) :: encJEntries es
def encJInstr : CInstr → J
  | .push v => tagged (nameI .iPush) (encJVal v)
  | .pop => .str (nameI .iPop) | .test => .str (nameI .iTest) | .dup => .str (nameI .iDup)
  | .or => .str (nameI .iOr) | .and => .str (nameI .iAnd) | .not => .str (nameI .iNot)
  | .neg => .str (nameI .iNeg) | .add => .str (nameI .iAdd) | .sub => .str (nameI .iSub)
  | .mul => .str (nameI .iMul) | .div => .str (nameI .iDiv) | .mod => .str (nameI .iMod)
  | .lt => .str (nameI .iLt) | .le => .str (nameI .iLe) | .eq => .str (nameI .iEq)
  | .ne => .str (nameI .iNe) | .ge => .str (nameI .iGe) | .gt => .str (nameI .iGt)
  | .in_ => .str (nameI .iIn)
  | .jmp d => tagged (nameI .iJmp) (.int d)
  | .jmpCond w d => tagged (nameI .iJmpCond) (.obj [(kWhen, .str (nameW w)), (kDist, .int d)])
  | .mkList n => tagged (nameI .iMkList) (.int n)
  | .mkDict n => tagged (nameI .iMkDict) (.int n)
  | .index => .str (nameI .iIndex) | .access => .str (nameI .iAccess)
  | .call n => tagged (nameI .iCall) (.int n)
  | .fmt n => tagged (nameI .iFmtString) (.int n)
def encJInstrs : List CInstr → List J
  | [] => []
  | i :: is => encJInstr i :: encJInstrs is
end

/-- `serde_json::to_value(&Program)`. -/
def encJ (p : CProg) : J :=
  .obj [(kDetails, .obj [(kSource, encJOptStr p.source), (kParams, .arr (p.params.map J.str))]),
        (kBytecode, .obj [(kInner, .arr (encJInstrs p.code))])]

def decJStr : J → Option Str
  | .str s => some s
  | _ => none

def decJEntry (f : J → Option CVal) (e : Str × J) : Option (Str × CVal) :=
  match f e.2 with
  | none => none
  | some v => some (e.1, v)

/-- a unit variant name among the instruction variants that carry no operand -/
def unitInstr : ITag → Option CInstr
  | .iPop => some .pop | .iTest => some .test | .iDup => some .dup | .iOr => some .or | .iAnd => some .and
  | .iNot => some .not | .iNeg => some .neg | .iAdd => some .add | .iSub => some .sub | .iMul => some .mul
  | .iDiv => some .div | .iMod => some .mod | .iLt => some .lt | .iLe => some .le | .iEq => some .eq
  | .iNe => some .ne | .iGe => some .ge | .iGt => some .gt | .iIn => some .in_ | .iIndex => some .index
  | .iAccess => some .access
  | _ => none

mutual
def decJVal : Nat → J → Option CVal
  | 0, _ => none
  | fuel + 1, j =>
    match j with
    | .str s => if tagOfName valueLayout s = some .vNull then some .null else none
    | .obj [(k, p)] =>
      (match tagOfName valueLayout k, p with
       | some .vInt, .int i => if inI64 i then some (.int i) else none
       | some .vUInt, .int i => if inU64 i then some (.uint i.toNat) else none
       | some .vFloat, p => (decJFloat p).map .float
       | some .vBool, .bool b => some (.bool b)
       | some .vString, .str s => some (.str s)
       | some .vBytes, .obj [(k1, .arr l)] => if k1 = kInner then (optMapM decJByte l).map .bytes else none
       | some .vList, .arr l => (optMapM (decJVal fuel) l).map .list
       | some .vMap, .obj es => (optMapM (decJEntry (decJVal fuel)) es).map .map
       | some .vIdent, .str s => some (.ident s)
       | some .vType, .str s => some (.type s)
       | some .vTimeStamp, .int ms => if inI64 ms && tsMsOk ms then some (.ts (ms * 1000000)) else none
       | some .vDuration, .int ms => if inI64 ms && durMsOk ms then some (.dur (ms * 1000000)) else none
       | some .vByteCode, .obj [(k1, .arr l)] =>
         if k1 = kInner then (optMapM (decJInstr fuel) l).map .code else none
       | some .vErr, p => (decJErr p).map .err
       | _, _ => none)
    | _ => none
def decJInstr : Nat → J → Option CInstr
  | 0, _ => none
  | fuel + 1, j =>
    match j with
    | .str s =>
      (match tagOfName instrLayout s with
       | some t => unitInstr t
       | none => none)
    | .obj [(k, p)] =>
      (match tagOfName instrLayout k, p with
       | some .iPush, p => (decJVal fuel p).map .push
       | some .iJmp, .int d => if fitsI32 d then some (.jmp d) else none
       | some .iJmpCond, .obj [(k1, .str w), (k2, .int d)] =>
         if k1 = kWhen ∧ k2 = kDist ∧ fitsI32 d then (tagOfName whenLayout w).map (.jmpCond · d) else none
       | some .iMkList, .int n => if 0 ≤ n ∧ n < 4294967296 then some (.mkList n.toNat) else none
       | some .iMkDict, .int n => if 0 ≤ n ∧ n < 4294967296 then some (.mkDict n.toNat) else none
       | some .iCall, .int n => if 0 ≤ n ∧ n < 4294967296 then some (.call n.toNat) else none
       | some .iFmtString, .int n => if 0 ≤ n ∧ n < 4294967296 then some (.fmt n.toNat) else none
       | _, _ => none)
    | _ => none
end

mutual
def J.size : J → Nat
  | .arr l => sizeList l + 1
  | .obj m => sizeEntries m + 1
  | _ => 1
def sizeList : List J → Nat
  | [] => 0
  | j :: js => j.size + sizeList js
def sizeEntries : List (Str × J) → Nat
  | [] => 0
  | (_, j) :: es => j.size + sizeEntries es
end

def decJProg (fuel : Nat) : J → Option CProg
  | .obj [(k1, .obj [(k2, source), (k3, .arr params)]), (k4, .obj [(k5, .arr code)])] =>
    if k1 = kDetails ∧ k2 = kSource ∧ k3 = kParams ∧ k4 = kBytecode ∧ k5 = kInner then
      match decJOptStr source, optMapM decJStr params, optMapM (decJInstr fuel) code with
      | some source, some params, some code => some { source := source, params := params, code := code }
      | _, _, _ => none
    else none
  | _ => none

/-- `serde_json::from_value::<Program>`.  No value nests deeper than the tree has nodes. -/
def decJ (j : J) : Option CProg := decJProg j.size j

/-! ## Projection to the VM model -/

mutual
/-- Error constants keep their kind, maps become key-sorted (`Map.ofList`), every NaN is the one NaN the
    VM model's wire form knows. -/
def toVal : CVal → Val
  | .int i => .int i
  | .uint n => .uint n
  | .float b => .float (canonF b)
  | .bool b => .bool b
  | .str s => .str s
  | .bytes b => .bytes b
  | .list l => .list (toVals l)
  | .map m => .map (Map.ofList (toEntries m))
  | .null => .null
  | .ident s => .ident s
  | .type s => .type s
  | .ts n => .ts n
  | .dur n => .dur n
  | .code c => .code (toInstrs c)
  | .err e => .err e.kind
def toVals : List CVal → List Val
  | [] => []
  | v :: vs => toVal v :: toVals vs
def toEntries : List (Str × CVal) → List (Str × Val)
  | [] => []
  | (k, v) :: es => (k, toVal v) :: toEntries es
def toInstr : CInstr → Instr
  | .push v => .push (toVal v)
  | .pop => .pop | .test => .test | .dup => .dup | .or => .or | .and => .and | .not => .not | .neg => .neg
  | .add => .add | .sub => .sub | .mul => .mul | .div => .div | .mod => .mod
  | .lt => .lt | .le => .le | .eq => .eq | .ne => .ne | .ge => .ge | .gt => .gt | .in_ => .in_
  | .jmp d => .jmp d
  | .jmpCond w d => .jmpCond w d
  | .mkList n => .mkList n
  | .mkDict n => .mkDict n
  | .index => .index | .access => .access
  | .call n => .call n
  | .fmt n => .fmt n
def toInstrs : List CInstr → List Instr
  | [] => []
  | i :: is => toInstr i :: toInstrs is
end

/-- The bytecode the VM model runs for a serialisable program. -/
def CProg.vmCode (p : CProg) : List Instr := toInstrs p.code

end Rscel.Serde
