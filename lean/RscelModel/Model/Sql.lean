import RscelModel.Model.Ast
/-
CEL → SQL (`extensions/to_sql/src/{grammar,traits}.rs`), an independent SQL lexer and parser, and the
intended denotation of an expression as an SQL operator tree.

* `build : Ast → Except Unit Doc` mirrors `grammar.rs` (`into_sql_builder`): one `Doc` constructor per
  builder of `traits.rs` (`JsonObjectBuilder` is written with the `cast` / `call` constructors: its text is
  `'{}'::json` or `json_build_object(k, v, …)`; `StaticSqlBuilder`/`LiteralBuilder` are `lit`).
  An `UnsupportedBuilder` anywhere makes `to_sql` fail as a whole: `Except.error ()`.
* `Doc.text` mirrors `traits.rs` (`to_sql`), `Doc.prec` is `SqlBuilder::precedence`.
* `lexSql` is a one-pass state machine over characters written from the SQL lexical rules: a string
  literal runs from `'` to the next `'` that is not doubled; `--` and `/* */` open comments (kept as
  tokens, so an injected comment is visible); `;` is a token.
* `parseSql` is a precedence parser: OR < AND < comparison < IN < `->`/`->>` < `+ -` < `* / %` < prefix
  `-`/`!` < postfix `::type`, `[i]`, `(args)` (PostgreSQL's precedence table).
* `sqlTree : Ast → SqlTree` is written from the CEL source side alone: operators, operand order, grouping,
  function names, arguments in *source* order (the AST stores them reversed), paths, casts.
-/
namespace Rscel.Sql
open Rscel

/-! ## tokens and the lexer -/

inductive STok
  | word (s : Str)      -- identifier or keyword
  | num (s : Str)
  | str (s : Str)       -- content of a string literal
  | sym (s : Str)       -- operator or punctuation
  | comment
  | bad (c : Char)
  deriving DecidableEq, Repr

/-- `0`–`9` -/
def isDigitC (c : Char) : Bool := decide (48 ≤ c.toNat ∧ c.toNat ≤ 57)
/-- `A`–`Z`, `a`–`z`, `_` -/
def isWordStart (c : Char) : Bool :=
  decide ((65 ≤ c.toNat ∧ c.toNat ≤ 90) ∨ (97 ≤ c.toNat ∧ c.toNat ≤ 122) ∨ c.toNat = 95)
def isWordChar (c : Char) : Bool := isWordStart c || isDigitC c
def isNumChar (c : Char) : Bool := isDigitC c || c == '.'

/-- State of the lexer between two characters. -/
inductive LS
  | idle
  | word (acc : Str)
  | num (acc : Str)
  | str (acc : Str)       -- inside a string literal
  | strq (acc : Str)      -- inside a string literal, just behind a quote: its end, or half of `''`
  | minus | arrow | slash | lt | gt | colon
  | lineC | blockC | blockCStar
  deriving DecidableEq, Repr

/-- A character read in the idle state. -/
def start (c : Char) : LS × List STok :=
  if c = ' ' ∨ c = '\n' ∨ c = '\t' ∨ c = '\r' then (.idle, [])
  else if c = '\'' then (.str [], [])
  else if isWordStart c then (.word [c], [])
  else if isDigitC c then (.num [c], [])
  else if c = '-' then (.minus, [])
  else if c = '/' then (.slash, [])
  else if c = '<' then (.lt, [])
  else if c = '>' then (.gt, [])
  else if c = ':' then (.colon, [])
  else if c = '(' ∨ c = ')' ∨ c = '[' ∨ c = ']' ∨ c = ',' ∨ c = '+' ∨ c = '*' ∨ c = '%' ∨ c = '=' ∨ c = '!'
      ∨ c = ';' then (.idle, [.sym [c]])
  else (.idle, [.bad c])

/-- What a state still owes when the text ends (or when the next character starts a new token). -/
def finish : LS → List STok
  | .idle => []
  | .word acc => [.word acc]
  | .num acc => [.num acc]
  | .str _ => [.bad '\'']          -- unterminated literal
  | .strq acc => [.str acc]
  | .minus => [.sym ['-']]
  | .arrow => [.sym ['-', '>']]
  | .slash => [.sym ['/']]
  | .lt => [.sym ['<']]
  | .gt => [.sym ['>']]
  | .colon => [.bad ':']
  | .lineC => [.comment]
  | .blockC => [.comment]
  | .blockCStar => [.comment]

/-- close the pending token and read `c` afresh -/
def restart (st : LS) (c : Char) : LS × List STok := ((start c).1, finish st ++ (start c).2)

def step (st : LS) (c : Char) : LS × List STok :=
  match st with
  | .idle => start c
  | .word acc => if isWordChar c then (.word (acc ++ [c]), []) else restart st c
  | .num acc => if isNumChar c then (.num (acc ++ [c]), []) else restart st c
  | .str acc => if c = '\'' then (.strq acc, []) else (.str (acc ++ [c]), [])
  | .strq acc => if c = '\'' then (.str (acc ++ ['\'']), []) else restart st c
  | .minus => if c = '-' then (.lineC, []) else if c = '>' then (.arrow, []) else restart st c
  | .arrow => if c = '>' then (.idle, [.sym ['-', '>', '>']]) else restart st c
  | .slash => if c = '*' then (.blockC, []) else restart st c
  | .lt => if c = '=' then (.idle, [.sym ['<', '=']]) else if c = '>' then (.idle, [.sym ['<', '>']]) else restart st c
  | .gt => if c = '=' then (.idle, [.sym ['>', '=']]) else restart st c
  | .colon => if c = ':' then (.idle, [.sym [':', ':']]) else restart st c
  | .lineC => if c = '\n' then (.idle, [.comment]) else (.lineC, [])
  | .blockC => if c = '*' then (.blockCStar, []) else (.blockC, [])
  | .blockCStar => if c = '/' then (.idle, [.comment]) else if c = '*' then (.blockCStar, []) else (.blockC, [])

def run (st : LS) : Str → List STok
  | [] => finish st
  | c :: cs => (step st c).2 ++ run (step st c).1 cs

def lexSql (s : Str) : List STok := run .idle s

/-! ## the builder tree and its text -/

def escape : Str → Str
  | [] => []
  | c :: cs => if c = '\'' then '\'' :: '\'' :: escape cs else c :: escape cs

/-- `format!("'{}'", val.replace('\'', "''"))` -/
def quote (s : Str) : Str := '\'' :: (escape s ++ ['\''])

inductive Lit
  | null
  | bool (b : Bool)
  | num (s : Str)        -- a non-negative number, as printed
  | neg (s : Str)        -- a negative number `-s`, printed `(-s)`
  | str (s : Str)
  deriving DecidableEq, Repr

/-- `SqlPrecedence` -/
inductive Prec | operator | cast | primary
  deriving DecidableEq, Repr

def Prec.rank : Prec → Nat | .operator => 0 | .cast => 1 | .primary => 2

inductive Doc
  | ternary (c t f : Doc)
  | binary (l : Doc) (op : Str) (r : Doc)
  | unary (op : Char) (n : Nat) (x : Doc)      -- `op` repeated `n` times in front of `x`
  | ident (name : Str)
  | lit (l : Lit)
  | parens (x : Doc)
  | call (f : Doc) (args : List Doc)
  | cast (v : Doc) (ty : Str)
  | access (obj : Doc) (field : Str) (extract : Bool)
  | array (es : List Doc)
  | index (a i : Doc)
  deriving Repr

def Doc.prec : Doc → Prec
  | .binary .. => .operator
  | .access .. => .operator
  | .cast .. => .cast
  | _ => .primary

def Lit.text : Lit → Str
  | .null => ['N', 'U', 'L', 'L']
  | .bool true => ['T', 'R', 'U', 'E']
  | .bool false => ['F', 'A', 'L', 'S', 'E']
  | .num s => s
  | .neg s => '(' :: '-' :: (s ++ [')'])
  | .str s => quote s

mutual
def Doc.text : Doc → Str
  | .ternary c t f =>
    ['c', 'a', 's', 'e', ' ', '('] ++ c.text
      ++ [')', ':', ':', 'b', 'o', 'o', 'l', ' ', 'w', 'h', 'e', 'n', ' ', 't', 'r', 'u', 'e', ' ', 't', 'h', 'e', 'n', ' ', '(']
      ++ t.text ++ [')', ' ', 'e', 'l', 's', 'e', ' ', '('] ++ f.text ++ [')', ' ', 'e', 'n', 'd']
  | .binary l op r => '(' :: l.text ++ [')', ' '] ++ op ++ [' ', '('] ++ r.text ++ [')']
  | .unary op n x =>
    '(' :: List.replicate n op ++ (if x.prec.rank < Prec.cast.rank then '(' :: x.text ++ [')'] else x.text) ++ [')']
  | .ident name => name
  | .lit l => l.text
  | .parens x => '(' :: x.text ++ [')']
  | .call f args =>
    (if f.prec.rank < Prec.primary.rank then '(' :: f.text ++ [')'] else f.text) ++ '(' :: textList args ++ [')']
  | .cast v ty => (if v.prec.rank < Prec.cast.rank then '(' :: v.text ++ [')'] else v.text) ++ ':' :: ':' :: ty
  | .access o f ext =>
    '(' :: o.text ++ (if ext then [')', '-', '>', '>', '\''] else [')', '-', '>', '\'']) ++ f ++ ['\'']
  | .array es => ['A', 'R', 'R', 'A', 'Y', '['] ++ textList es ++ [']']
  | .index a i =>
    '(' :: (if a.prec.rank < Prec.primary.rank then '(' :: a.text ++ [')'] else a.text) ++ '[' :: i.text ++ [']', ')']
/-- the texts joined by `", "` -/
def textList : List Doc → Str
  | [] => []
  | d :: ds => d.text ++ textTail ds
def textTail : List Doc → Str
  | [] => []
  | d :: ds => ',' :: ' ' :: d.text ++ textTail ds
end

/-! ## SQL operator trees and the parser -/

inductive SqlTree
  | ident (s : Str)
  | null
  | bool (b : Bool)
  | num (s : Str)
  | str (s : Str)
  | un (op : Str) (x : SqlTree)
  | bin (op : Str) (l r : SqlTree)
  | case_ (a b c d : SqlTree)        -- case a when b then c else d end
  | call (f : SqlTree) (args : List SqlTree)
  | index (a i : SqlTree)
  | cast (x : SqlTree) (ty : Str)
  | array (es : List SqlTree)
  deriving Repr

def lowerStr (s : Str) : Str := s.map Char.toLower

/-- words that cannot be read as a name -/
def reserved : List Str :=
  ["all", "analyse", "analyze", "and", "any", "array", "as", "asc", "asymmetric", "both", "case", "cast", "check",
   "collate", "column", "constraint", "create", "current_catalog", "current_date", "current_role", "current_time",
   "current_timestamp", "current_user", "default", "deferrable", "desc", "distinct", "do", "else", "end", "except",
   "false", "fetch", "for", "foreign", "from", "grant", "group", "having", "in", "initially", "intersect", "into",
   "lateral", "leading", "limit", "localtime", "localtimestamp", "not", "null", "offset", "on", "only", "or", "order",
   "placing", "primary", "references", "returning", "select", "session_user", "some", "symmetric", "table", "then",
   "to", "trailing", "true", "union", "unique", "user", "using", "variadic", "when", "where", "window",
   "with"].map String.toList

def isReserved (s : Str) : Bool := reserved.contains (lowerStr s)

def kw (s : Str) (k : List Char) : Bool := lowerStr s == k

/-- binary operator at the head of the input: (precedence, name) -/
def binop : STok → Option (Nat × Str)
  | .word w =>
    if kw w ['o', 'r'] then some (1, ['O', 'R'])
    else if kw w ['a', 'n', 'd'] then some (2, ['A', 'N', 'D'])
    else if kw w ['i', 'n'] then some (6, ['I', 'N'])
    else none
  | .sym s =>
    if s = ['<'] ∨ s = ['<', '='] ∨ s = ['>'] ∨ s = ['>', '='] ∨ s = ['='] ∨ s = ['<', '>'] then some (5, s)
    else if s = ['-', '>'] ∨ s = ['-', '>', '>'] then some (7, s)
    else if s = ['+'] ∨ s = ['-'] then some (8, s)
    else if s = ['*'] ∨ s = ['/'] ∨ s = ['%'] then some (9, s)
    else none
  | _ => none

def isPrefixOp (s : Str) : Bool := s == ['-'] || s == ['!']

/-- a type name behind `::` : one word, or `double precision` -/
def pType : List STok → Option (Str × List STok)
  | .word w :: rest =>
    if kw w ['d', 'o', 'u', 'b', 'l', 'e'] then
      match rest with
      | .word p :: rest' => if kw p ['p', 'r', 'e', 'c', 'i', 's', 'i', 'o', 'n'] then some (w ++ ' ' :: p, rest') else none
      | _ => none
    else some (w, rest)
  | _ => none

/-- is the next token an opening bracket? -/
def bracketNext : List STok → Bool
  | .sym s :: _ => s == ['['] || s == ['(']
  | _ => false

def expectSym (s : Str) : List STok → Option (List STok)
  | .sym t :: rest => if t = s then some rest else none
  | _ => none

def expectKw (k : Str) : List STok → Option (List STok)
  | .word w :: rest => if kw w k then some rest else none
  | _ => none

mutual
/-- expression whose binary operators all have precedence ≥ `min` -/
def pExpr : Nat → Nat → List STok → Option (SqlTree × List STok)
  | 0, _, _ => none
  | f + 1, min, ts => (pUnary f ts).bind fun r => pBinLoop f min r.1 r.2
def pBinLoop : Nat → Nat → SqlTree → List STok → Option (SqlTree × List STok)
  | 0, _, _, _ => none
  | f + 1, min, lhs, ts =>
    match ts with
    | [] => some (lhs, [])
    | t :: rest =>
      match binop t with
      | none => some (lhs, t :: rest)
      | some (p, name) =>
        if p < min then some (lhs, t :: rest)
        else (pExpr f (p + 1) rest).bind fun r => pBinLoop f min (.bin name lhs r.1) r.2
def pUnary : Nat → List STok → Option (SqlTree × List STok)
  | 0, _ => none
  | f + 1, ts =>
    match ts with
    | .sym s :: rest =>
      if isPrefixOp s then (pUnary f rest).bind fun r => some (.un s r.1, r.2)
      else (pPrimary f (.sym s :: rest)).bind fun r => pPostLoop f r.1 r.2
    | ts => (pPrimary f ts).bind fun r => pPostLoop f r.1 r.2
def pPostLoop : Nat → SqlTree → List STok → Option (SqlTree × List STok)
  | 0, _, _ => none
  | f + 1, cur, ts =>
    match ts with
    | .sym s :: rest =>
      if s = [':', ':'] then
        (pType rest).bind fun r =>
          -- `x::integer[0]` / `x::integer(2)` would be an array type / a type modifier
          if bracketNext r.2 then none else pPostLoop f (.cast cur r.1) r.2
      else if s = ['['] then
        (pExpr f 0 rest).bind fun r => (expectSym [']'] r.2).bind fun rest' => pPostLoop f (.index cur r.1) rest'
      else if s = ['('] then
        (pArgs f [')'] rest).bind fun r => pPostLoop f (.call cur r.1) r.2
      else some (cur, .sym s :: rest)
    | ts => some (cur, ts)
def pPrimary : Nat → List STok → Option (SqlTree × List STok)
  | 0, _ => none
  | f + 1, ts =>
    match ts with
    | .num s :: rest => some (.num s, rest)
    | .str s :: rest => some (.str s, rest)
    | .sym s :: rest =>
      if s = ['('] then (pExpr f 0 rest).bind fun r => (expectSym [')'] r.2).bind fun rest' => some (r.1, rest')
      else none
    | .word w :: rest =>
      if kw w ['n', 'u', 'l', 'l'] then some (.null, rest)
      else if kw w ['t', 'r', 'u', 'e'] then some (.bool true, rest)
      else if kw w ['f', 'a', 'l', 's', 'e'] then some (.bool false, rest)
      else if kw w ['a', 'r', 'r', 'a', 'y'] then
        (expectSym ['['] rest).bind fun rest' => (pArgs f [']'] rest').bind fun r => some (.array r.1, r.2)
      else if kw w ['c', 'a', 's', 'e'] then
        (pExpr f 0 rest).bind fun a => (expectKw ['w', 'h', 'e', 'n'] a.2).bind fun r1 =>
        (pExpr f 0 r1).bind fun b => (expectKw ['t', 'h', 'e', 'n'] b.2).bind fun r2 =>
        (pExpr f 0 r2).bind fun c => (expectKw ['e', 'l', 's', 'e'] c.2).bind fun r3 =>
        (pExpr f 0 r3).bind fun d => (expectKw ['e', 'n', 'd'] d.2).bind fun r4 =>
        some (.case_ a.1 b.1 c.1 d.1, r4)
      else if isReserved w then none
      else some (.ident w, rest)
    | _ => none
/-- comma-separated expressions up to the closing symbol (which is consumed) -/
def pArgs : Nat → Str → List STok → Option (List SqlTree × List STok)
  | 0, _, _ => none
  | f + 1, close, ts =>
    match expectSym close ts with
    | some rest => some ([], rest)
    | none => pArgsMore f close ts
/-- at least one expression, then `,` or the closing symbol -/
def pArgsMore : Nat → Str → List STok → Option (List SqlTree × List STok)
  | 0, _, _ => none
  | f + 1, close, ts =>
    (pExpr f 0 ts).bind fun r =>
      match expectSym close r.2 with
      | some rest' => some ([r.1], rest')
      | none => (expectSym [','] r.2).bind fun rest' => (pArgsMore f close rest').bind fun q => some (r.1 :: q.1, q.2)
end

def parseFuel (ts : List STok) : Nat := 8 * ts.length + 16

def parseSql (ts : List STok) : Option SqlTree :=
  match pExpr (parseFuel ts) 0 ts with
  | some (t, []) => some t
  | _ => none

/-! ## what a builder tree denotes -/

def Lit.tree : Lit → SqlTree
  | .null => .null
  | .bool b => .bool b
  | .num s => .num s
  | .neg s => .un ['-'] (.num s)
  | .str s => .str s

/-- name of a binary operator in a tree (the parser's spelling) -/
def canonOp (op : Str) : Str := if op = ['i', 'n'] then ['I', 'N'] else op

def unRun (op : Char) : Nat → SqlTree → SqlTree
  | 0, t => t
  | n + 1, t => .un [op] (unRun op n t)

mutual
def Doc.tree : Doc → SqlTree
  | .ternary c t f => .case_ (.cast c.tree ['b', 'o', 'o', 'l']) (.bool true) t.tree f.tree
  | .binary l op r => .bin (canonOp op) l.tree r.tree
  | .unary op n x => unRun op n x.tree
  | .ident name => .ident name
  | .lit l => l.tree
  | .parens x => x.tree
  | .call f args => .call f.tree (treeList args)
  | .cast v ty => .cast v.tree ty
  | .access o f ext => .bin (if ext then ['-', '>', '>'] else ['-', '>']) o.tree (.str f)
  | .array es => .array (treeList es)
  | .index a i => .index a.tree i.tree
def treeList : List Doc → List SqlTree
  | [] => []
  | d :: ds => d.tree :: treeList ds
end

/-! ## the translation (`grammar.rs`) -/

def opText : BinOp → Str
  | .or => ['O', 'R'] | .and => ['A', 'N', 'D']
  | .lt => ['<'] | .le => ['<', '='] | .ge => ['>', '='] | .gt => ['>'] | .eq => ['='] | .ne => ['<', '>']
  | .in_ => ['i', 'n']
  | .add => ['+'] | .sub => ['-'] | .mul => ['*'] | .div => ['/'] | .mod => ['%']

/-- SQL type of a CEL type constructor -/
def sqlType (name : Str) : Option Str :=
  if name = "int".toList then some "integer".toList
  else if name = "uint".toList then some "bigint".toList
  else if name = "float".toList then some "double precision".toList
  else if name = "double".toList then some "double precision".toList
  else if name = "string".toList then some "text".toList
  else if name = "bool".toList then some "boolean".toList
  else if name = "bytes".toList then some "bytea".toList
  else if name = "timestamp".toList then some "timestamp".toList
  else if name = "duration".toList then some "interval".toList
  else none

/-- decimal digits of a natural number (`format!("{}", n)`) -/
def digitsAux : Nat → Nat → Str → Str
  | 0, _, acc => acc
  | f + 1, n, acc =>
    let acc' := Char.ofNat (48 + n % 10) :: acc
    if n / 10 = 0 then acc' else digitsAux f (n / 10) acc'

def natDigits (n : Nat) : Str := digitsAux (n + 1) n []

def i64MinMagnitude : Nat := 9223372036854775808

/-- `IntegerLit(val)` -/
def intLit (i : Int) : Lit :=
  if i = -(i64MinMagnitude : Int) then .num (natDigits i64MinMagnitude)   -- the parser's spelling of 2^63 behind a `-`
  else if i < 0 then .neg (natDigits i.natAbs)
  else .num (natDigits i.toNat)

/-! ### `format!("{}", f64)`: the shortest decimal that reads back as the same double, without exponent -/

/-- value of a finite positive double as `m * 2^e` -/
def floatParts (bits : UInt64) : Nat × Int :=
  let be : Nat := (bits.toNat / 2 ^ 52) % 2048
  let frac : Nat := bits.toNat % 2 ^ 52
  if be = 0 then (frac, -1074) else (frac + 2 ^ 52, (be : Int) - 1075)

/-- round-half-even of `num / den` -/
def roundDiv (num den : Nat) : Nat :=
  let q := num / den
  let r := num % den
  if 2 * r < den then q else if 2 * r > den then q + 1 else if q % 2 = 0 then q else q + 1

/-- `10^k ≤ m * 2^e < 10^(k+1)`: the decimal exponent of the value, found by search from an estimate -/
def decExp (m : Nat) (e : Int) : Int :=
  -- v = m * 2^e as a fraction num/den
  let num := if e ≥ 0 then m * 2 ^ e.toNat else m
  let den := if e ≥ 0 then 1 else 2 ^ (-e).toNat
  -- number of decimal digits of floor(v) when v ≥ 1, else search downwards
  if num ≥ den then ((natDigits (num / den)).length : Int) - 1
  else
    -- v < 1: smallest j ≥ 1 with v * 10^j ≥ 1
    let rec go : Nat → Nat → Int
      | 0, j => -(j : Int)
      | fuel + 1, j => if num * 10 ^ j ≥ den then -(j : Int) else go fuel (j + 1)
    go 400 1

/-- candidate with `n` significant digits: (digits as a number, exponent of the last digit) -/
def candidate (m : Nat) (e : Int) (n : Nat) : Nat × Int :=
  let k := decExp m e
  let p : Int := k - (n : Int) + 1        -- value ≈ d * 10^p
  -- d = round(v / 10^p)
  let num0 := if e ≥ 0 then m * 2 ^ e.toNat else m
  let den0 := if e ≥ 0 then 1 else 2 ^ (-e).toNat
  let (num, den) := if p ≥ 0 then (num0, den0 * 10 ^ p.toNat) else (num0 * 10 ^ (-p).toNat, den0)
  (roundDiv num den, p)

def shortest (bits : UInt64) : Nat × Int :=
  let (m, e) := floatParts bits
  let rec go : Nat → Nat → Nat × Int
    | 0, n => candidate m e n
    | fuel + 1, n =>
      let (d, p) := candidate m e n
      if F.ofDecimal d p = bits then (d, p) else go fuel (n + 1)
  go 17 1

def zeros (n : Nat) : Str := List.replicate n '0'

/-- positional notation of `d * 10^p` -/
def positional (d : Nat) (p : Int) : Str :=
  let ds := natDigits d
  if d = 0 then ['0']
  else if p ≥ 0 then ds ++ zeros p.toNat
  else
    let q := (-p).toNat
    -- strip trailing zeros of the fraction
    if ds.length > q then
      let ip := ds.take (ds.length - q)
      let fp := (ds.drop (ds.length - q)).reverse.dropWhile (· = '0') |>.reverse
      if fp.isEmpty then ip else ip ++ '.' :: fp
    else
      let fp := (zeros (q - ds.length) ++ ds).reverse.dropWhile (· = '0') |>.reverse
      if fp.isEmpty then ['0'] else '0' :: '.' :: fp

/-- `FloatingLit(val)` -/
def floatDoc (bits : UInt64) : Doc :=
  let dbl := ['d', 'o', 'u', 'b', 'l', 'e', ' ', 'p', 'r', 'e', 'c', 'i', 's', 'i', 'o', 'n']
  if F.isNaN bits then .cast (.lit (.str ['N', 'a', 'N'])) dbl
  else if bits = 0x7ff0000000000000 then .cast (.lit (.str "Infinity".toList)) dbl
  else if bits = 0xfff0000000000000 then .cast (.lit (.str "-Infinity".toList)) dbl
  else
    let neg := bits ≥ 0x8000000000000000
    let mag := if neg then bits - 0x8000000000000000 else bits
    let (d, p) := shortest mag
    if neg then .lit (.neg (positional d p)) else .lit (.num (positional d p))

/-- the SQL type when the primary of a member chain is the name of a type constructor -/
def castType : Prim → Option Str
  | .ident _ name => sqlType name
  | _ => none

mutual
def build : Ast → Except Unit Doc
  | .tern _ c t f => do
    let c' ← build c
    let t' ← build t
    let f' ← build f
    pure (.ternary c' t' f')
  | .match_ .. => .error ()
  | .bin _ op l r => do
    let l' ← build l
    let r' ← build r
    pure (.binary l' (opText op) r')
  | .notRun _ ops m => do
    let m' ← build m
    pure (.unary '!' ops.length m')
  | .negRun _ ops m => do
    let m' ← build m
    pure (.unary '-' ops.length m')
  | .member _ p chain => do
    let p' ← buildPrim p
    buildOps (castType p) p' chain
/-- The loop of `impl IntoSqlBuilder for Member`.  `ty?` is the SQL type when the primary is a type
    name and nothing of the chain has been read yet (`done == 0`). -/
def buildOps (ty? : Option Str) (cur : Doc) : List MOp → Except Unit Doc
  | [] => pure cur
  | .access _ _ name :: rest => buildOps none (.access cur name rest.isEmpty) rest
  | .call _ args :: rest =>
    -- a type name applied to at most one argument is a cast; otherwise a call whose arguments the AST
    -- holds last to first
    match args with
    | [] =>
      match ty? with
      | some ty => buildOps none (.cast (.lit .null) ty) rest
      | none => buildOps none (.call cur []) rest
    | [e] => do
      let v ← build e
      match ty? with
      | some ty => buildOps none (.cast v ty) rest
      | none => buildOps none (.call cur [v]) rest
    | e :: es => do
      let d ← build e
      let ds ← buildList es
      buildOps none (.call cur (d :: ds).reverse) rest
  | .index _ e :: rest => do
    let i ← build e
    buildOps none (.index cur i) rest
def buildList : List Ast → Except Unit (List Doc)
  | [] => pure []
  | a :: as => do
    let d ← build a
    let ds ← buildList as
    pure (d :: ds)
/-- keys and values of an object literal, flattened -/
def buildInits : List MInit → Except Unit (List Doc)
  | [] => pure []
  | .mk _ k v :: rest => do
    let k' ← build k
    let v' ← build v
    let ds ← buildInits rest
    pure (k' :: v' :: ds)
def buildPrim : Prim → Except Unit Doc
  | .ident _ name => pure (.ident name)
  | .parens _ e => do
    let e' ← build e
    pure (.parens e')
  | .list _ es => do
    let ds ← buildList es
    pure (.array ds)
  | .map _ inits => do
    let ds ← buildInits inits
    match ds with
    | [] => pure (.cast (.lit (.str ['{', '}'])) ['j', 's', 'o', 'n'])
    | _ => pure (.call (.ident "json_build_object".toList) ds)
  | .null _ => pure (.lit .null)
  | .int _ i => pure (.lit (intLit i))
  | .uint _ n => pure (.lit (.num (natDigits n)))
  | .float _ bits => pure (floatDoc bits)
  | .str _ s => pure (.lit (.str s))
  | .bytes .. => .error ()
  | .bool _ b => pure (.lit (.bool b))
  | .fstr .. => .error ()
end

/-! ## the intended denotation, from the source side -/

def sqlOpName : BinOp → Str
  | .or => ['O', 'R'] | .and => ['A', 'N', 'D'] | .in_ => ['I', 'N']
  | .lt => ['<'] | .le => ['<', '='] | .ge => ['>', '='] | .gt => ['>'] | .eq => ['='] | .ne => ['<', '>']
  | .add => ['+'] | .sub => ['-'] | .mul => ['*'] | .div => ['/'] | .mod => ['%']

def intTree (i : Int) : SqlTree :=
  if i = -(i64MinMagnitude : Int) then .num (natDigits i64MinMagnitude)
  else if i < 0 then .un ['-'] (.num (natDigits i.natAbs)) else .num (natDigits i.toNat)

mutual
/-- The SQL operator tree an expression stands for.  Call arguments are taken in source order
    (`args.reverse`: the AST holds them last to first); a type constructor applied to at most one
    argument is a cast; `o.f` is `o -> 'f'`, or `o ->> 'f'` when it ends the chain; `c ? t : f` is
    `case c::bool when true then t else f end`; untranslatable constructs have no tree (`null`). -/
def sqlTree : Ast → SqlTree
  | .tern _ c t f => .case_ (.cast (sqlTree c) ['b', 'o', 'o', 'l']) (.bool true) (sqlTree t) (sqlTree f)
  | .match_ .. => .null
  | .bin _ op l r => .bin (sqlOpName op) (sqlTree l) (sqlTree r)
  | .notRun _ ops m => unRun '!' ops.length (sqlTree m)
  | .negRun _ ops m => unRun '-' ops.length (sqlTree m)
  | .member _ p chain => opsTree (castType p) (primTree p) chain
def opsTree (ty? : Option Str) (cur : SqlTree) : List MOp → SqlTree
  | [] => cur
  | .access _ _ name :: rest =>
    opsTree none (.bin (if rest.isEmpty then ['-', '>', '>'] else ['-', '>']) cur (.str name)) rest
  | .call _ args :: rest =>
    match args with
    | [] =>
      match ty? with
      | some ty => opsTree none (.cast .null ty) rest
      | none => opsTree none (.call cur []) rest
    | [e] =>
      match ty? with
      | some ty => opsTree none (.cast (sqlTree e) ty) rest
      | none => opsTree none (.call cur [sqlTree e]) rest
    | e :: es => opsTree none (.call cur (sqlTree e :: treesOf es).reverse) rest
  | .index _ e :: rest => opsTree none (.index cur (sqlTree e)) rest
def treesOf : List Ast → List SqlTree
  | [] => []
  | a :: as => sqlTree a :: treesOf as
def initTrees : List MInit → List SqlTree
  | [] => []
  | .mk _ k v :: rest => sqlTree k :: sqlTree v :: initTrees rest
def primTree : Prim → SqlTree
  | .ident _ name => .ident name
  | .parens _ e => sqlTree e
  | .list _ es => .array (treesOf es)
  | .map _ inits =>
    match initTrees inits with
    | [] => .cast (.str ['{', '}']) ['j', 's', 'o', 'n']
    | ts => .call (.ident "json_build_object".toList) ts
  | .null _ => .null
  | .int _ i => intTree i
  | .uint _ n => .num (natDigits n)
  | .float _ bits => (floatDoc bits).tree
  | .str _ s => .str s
  | .bytes .. => .null
  | .bool _ b => .bool b
  | .fstr .. => .null
end

/-- `ast.into_sql_builder()?.to_sql()` -/
def toSql (a : Ast) : Except Unit Str := (build a).map Doc.text

end Rscel.Sql
