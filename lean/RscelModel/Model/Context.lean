import RscelModel.Model.Compile
import RscelModel.Model.Conv
/-
`CelContext` (`context/mod.rs`: a `name -> Program` map) and `BindContext` (`context/bind_context.rs`:
parameters and functions by name) as a small state machine over *histories* of API calls.

Both maps are `HashMap`s in the code; the model keeps them as canonical association lists (keys strictly
ascending, unique), so that two maps with the same content are *equal* terms — "the state is a function
of the latest definition per name" then is an equation between states.

The world holds any number of contexts and bind sets (clones are appended at the end), operations
address them by index.  The clock is a parameter of every step (`now`): it is handed to the built-in
table of an execution and to nothing else.
-/
namespace Rscel

/-- Key-sorted association list with unique keys. -/
abbrev KMap (α : Type) := List (Str × α)

namespace KMap
variable {α : Type}

/-- `HashMap::insert`: add, or replace the entry of the same key. -/
def insert : KMap α → Str → α → KMap α
  | [], k, v => [(k, v)]
  | (k', v') :: rest, k, v =>
    if strLt k k' then (k, v) :: (k', v') :: rest
    else if strLt k' k then (k', v') :: insert rest k v
    else (k, v) :: rest

/-- `HashMap::get`. -/
def get : KMap α → Str → Option α
  | [], _ => none
  | (k', v') :: rest, k => if k' = k then some v' else get rest k

end KMap

/-- A stored `Program`: its source text (`ProgramDetails::source`) and bytecode. -/
structure Prog where
  src : Str
  code : List Instr

/-- `Program::from_source` / `add_program_str`'s compiler run with the model pipeline. -/
def compileSrc (src : Str) : Option Prog :=
  match parseProgram lazySrc src with
  | .error _ => none
  | .ok a => some { src := src, code := compileProgram (stdBuiltins 0) a }

/-- `CelContext`. -/
structure Ctx where
  progs : KMap Prog := []

/-- `BindContext` (parameters and caller functions; the default macros, functions and types are fixed). -/
structure Binds where
  params : KMap Val := []
  funcs : KMap UserFn := []

structure World where
  ctxs : List Ctx
  binds : List Binds

inductive Op
  | addSrc (c : Nat) (name src : Str)        -- add_program_str
  | addProg (c : Nat) (name : Str) (p : Prog) -- add_program with an already built Program
  | bind (b : Nat) (x : Str) (v : Val)       -- bind_param
  | bindFn (b : Nat) (f : Str) (k : UserFn)  -- bind_func
  | cloneCtx (c : Nat)                       -- push ctxs[c].clone()
  | cloneBinds (b : Nat)                     -- push binds[b].clone()
  | exec (c : Nat) (name : Str) (b : Nat)    -- ctxs[c].exec(name, &binds[b])
  | inspect (c : Nat) (name : Str)           -- ctxs[c].get_program(name).source()
  | getParam (b : Nat) (x : Str)             -- binds[b].get_param(x)

inductive OpOut
  | done                        -- unit-returning call
  | rejected                    -- add_program_str: the source does not compile
  | result (o : Out)            -- exec
  | source (s : Option Str)     -- inspect
  | param (v : Option Val)      -- get_param
  | badIndex                    -- no such context / bind set (not an API outcome; the harness never asks)

def Ctx.add (c : Ctx) (name : Str) (p : Prog) : Ctx := { progs := c.progs.insert name p }
def Binds.bind (b : Binds) (x : Str) (v : Val) : Binds := { b with params := b.params.insert x v }
def Binds.bindFn (b : Binds) (f : Str) (k : UserFn) : Binds := { b with funcs := b.funcs.insert f k }

/-- What one interpreter sees: the context's programs (bytecode) and the bind set. -/
def envOf (c : Ctx) (b : Binds) : Env :=
  { params := b.params, progs := c.progs.map (fun e => (e.1, e.2.code)), userFns := b.funcs }

/-- `CelContext::exec`: `Interpreter::new(self, bindings).run_program(name)`. -/
def execIn (now : Int) (c : Ctx) (b : Binds) (name : Str) : Out :=
  match c.progs.get name with
  | none => { res := .error (.err .binding), log := [] }
  | some p => execProg (stdBuiltins now) (envOf c b) p.code

/-- One API call at clock reading `now`. -/
def World.step (now : Int) (w : World) : Op → World × OpOut
  | .addSrc c name src =>
    (match w.ctxs[c]? with
     | none => (w, .badIndex)
     | some cx =>
       match compileSrc src with
       | none => (w, .rejected)
       | some p => ({ w with ctxs := w.ctxs.set c (cx.add name p) }, .done))
  | .addProg c name p =>
    (match w.ctxs[c]? with
     | none => (w, .badIndex)
     | some cx => ({ w with ctxs := w.ctxs.set c (cx.add name p) }, .done))
  | .bind b x v =>
    (match w.binds[b]? with
     | none => (w, .badIndex)
     | some bs => ({ w with binds := w.binds.set b (bs.bind x v) }, .done))
  | .bindFn b f k =>
    (match w.binds[b]? with
     | none => (w, .badIndex)
     | some bs => ({ w with binds := w.binds.set b (bs.bindFn f k) }, .done))
  | .cloneCtx c =>
    (match w.ctxs[c]? with
     | none => (w, .badIndex)
     | some cx => ({ w with ctxs := w.ctxs ++ [cx] }, .done))
  | .cloneBinds b =>
    (match w.binds[b]? with
     | none => (w, .badIndex)
     | some bs => ({ w with binds := w.binds ++ [bs] }, .done))
  | .exec c name b =>
    (match w.ctxs[c]?, w.binds[b]? with
     | some cx, some bs => (w, .result (execIn now cx bs name))
     | _, _ => (w, .badIndex))
  | .inspect c name =>
    (match w.ctxs[c]? with
     | none => (w, .badIndex)
     | some cx => (w, .source ((cx.progs.get name).map (·.src))))
  | .getParam b x =>
    (match w.binds[b]? with
     | none => (w, .badIndex)
     | some bs => (w, .param (bs.params.get x)))

/-- A history: every call with the clock reading at that moment. -/
def World.run (w : World) : List (Int × Op) → World × List OpOut
  | [] => (w, [])
  | (now, op) :: rest =>
    let (w', o) := w.step now op
    let (w'', os) := w'.run rest
    (w'', o :: os)

/-- `n` fresh contexts and `m` fresh bind sets. -/
def World.fresh (n m : Nat) : World := { ctxs := List.replicate n {}, binds := List.replicate m {} }

end Rscel
