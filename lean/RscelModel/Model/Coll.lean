import RscelModel.Model.Logic
/-
Collections: `index`, `access`, `in_`, `size` (`types/cel_value.rs`, `default_funcs/size.rs`).
-/
namespace Rscel

/-- Is `needle` an infix of `hay` (Rust `str::contains` on a `&str` pattern). -/
def isPrefix : Str → Str → Bool
  | [], _ => true
  | _ :: _, [] => false
  | a :: as, b :: bs => a == b && isPrefix as bs

def isInfix (needle : Str) : Str → Bool
  | [] => needle.isEmpty
  | c :: cs => isPrefix needle (c :: cs) || isInfix needle cs

/- `PartialEq for CelValue` (structural, no widening), used by list membership. -/
mutual
def structEq : Val → Val → Bool
  | .int a, .int b => a == b
  | .uint a, .uint b => a == b
  | .float a, .float b => F.eq a b
  | .bool a, .bool b => a == b
  | .str a, .str b => a == b
  | .bytes a, .bytes b => a == b
  | .list a, .list b => structEqList a b
  | .map a, .map b => structEqMap a b
  | .null, .null => true
  | .ident a, .ident b => a == b
  | .type a, .type b => a == b
  | .ts a, .ts b => a == b
  | .dur a, .dur b => a == b
  | .code a, .code b => structEqCode a b
  | _, _ => false
def structEqList : List Val → List Val → Bool
  | [], [] => true
  | x :: xs, y :: ys => structEq x y && structEqList xs ys
  | _, _ => false
def structEqMap : List (Str × Val) → List (Str × Val) → Bool
  | [], [] => true
  | (k, x) :: xs, (k', y) :: ys => k == k' && structEq x y && structEqMap xs ys
  | _, _ => false
def structEqCode : List Instr → List Instr → Bool
  | [], [] => true
  | x :: xs, y :: ys => structEqInstr x y && structEqCode xs ys
  | _, _ => false
def structEqInstr : Instr → Instr → Bool
  | .push a, .push b => structEq a b
  | .pop, .pop | .test, .test | .dup, .dup | .or, .or | .and, .and | .not, .not | .neg, .neg
  | .add, .add | .sub, .sub | .mul, .mul | .div, .div | .mod, .mod
  | .lt, .lt | .le, .le | .eq, .eq | .ne, .ne | .ge, .ge | .gt, .gt | .in_, .in_
  | .index, .index | .access, .access => true
  | .jmp a, .jmp b => a == b
  | .jmpCond w a, .jmpCond w' b => w == w' && a == b
  | .mkList a, .mkList b => a == b
  | .mkDict a, .mkDict b => a == b
  | .call a, .call b => a == b
  | .fmt a, .fmt b => a == b
  | _, _ => false
end

/-- `index`: `obj[i]`. -/
def index (obj i : Val) : Val :=
  errProp obj i fun obj i =>
    match obj, i with
    | .list l, .uint n => if n ≥ l.length then .err .value else l.getD n .null
    | .list l, .int k =>
      if k < 0 then
        let adj : Int := (l.length : Int) + k
        if adj < 0 then .err .value else l.getD adj.toNat .null
      else
        if k.toNat ≥ l.length then .err .value else l.getD k.toNat .null
    | .list _, _ => .err .value
    | .map m, .str k =>
      (match Map.get m k with
       | some v => v
       | none => .err .attribute)
    | .map _, _ => .err .value
    | _, _ => .err .value

/-- `CelValueDyn::access` on a value (used at compile time for `{..}.k`). -/
def accessVal (obj : Val) (k : Str) : Val :=
  match obj with
  | .err e => .err e
  | .map m =>
    (match Map.get m k with
     | some v => v
     | none => .err .attribute)
  | _ => .err .invalidOp

/-- `lhs in rhs`. -/
def inOp (l r : Val) : Val :=
  errProp l r fun l r =>
    match r, l with
    | .list xs, x => .bool (xs.any (structEq x))
    | .map m, .str k => .bool (Map.contains m k)
    | .map _, _ => .err .invalidOp
    | .str s, .str n => .bool (isInfix n s)
    | .str _, _ => .err .invalidOp
    | _, _ => .err .invalidOp

end Rscel
