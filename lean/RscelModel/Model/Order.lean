import RscelModel.Model.Arith
/-
Equality and ordering: `CelValueDyn::eq`, `neq`, `ord`, `lt/le/gt/ge`
(`types/cel_value.rs`), `sort` (`default_funcs/sort.rs`), `min`/`max` (`default_funcs.rs`).
-/
namespace Rscel

/-- Equality of two non-error, non-collection values after widening
    (the scalar arms of the closure body of `CelValueDyn::eq`). -/
def eqScalar (l r : Val) : Val :=
  match widen l r with
  | (.int a, .int b) => .bool (decide (a = b))
  | (.uint a, .uint b) => .bool (decide (a = b))
  | (.float a, .float b) => .bool (F.eq a b)
  | (.bool a, .bool b) => .bool (decide (a = b))
  | (.str a, .str b) => .bool (decide (a = b))
  | (.bytes a, .bytes b) => .bool (decide (a = b))
  | (.null, .null) => .bool true
  | (.ts a, .ts b) => .bool (decide (a = b))
  | (.dur a, .dur b) => .bool (decide (a = b))
  | (.type a, .type b) => .bool (decide (a = b))
  | _ => .bool false

mutual
/-- `CelValueDyn::eq`: error propagation (leftmost), then structural comparison with widening. -/
def valEq : Val → Val → Val
  | .err k, _ => .err k
  | .list a, .list b => if a.length != b.length then .bool false else eqList a b
  | .map a, .map b => .bool (eqMap a b)
  | _, .err k => .err k
  | l, r => eqScalar l r

/-- Pointwise list comparison: first error or first mismatch decides. -/
def eqList : List Val → List Val → Val
  | x :: xs, y :: ys =>
    match valEq x y with
    | .err k => .err k
    | .bool true => eqList xs ys
    | _ => .bool false
  | _, _ => .bool true

/-- Map comparison on key-sorted association lists: same keys, values equal (an error counts as unequal). -/
def eqMap : List (Str × Val) → List (Str × Val) → Bool
  | [], [] => true
  | (k, x) :: xs, (k', y) :: ys =>
    if k = k' then
      (match valEq x y with
       | .bool true => eqMap xs ys
       | _ => false)
    else false
  | _, _ => false
end

/-- `neq`. -/
def valNe (l r : Val) : Val :=
  errProp l r fun l r =>
    match valEq l r with
    | .bool b => .bool (!b)
    | other => other

inductive Ordering3 | lt | eq | gt
  deriving DecidableEq, Repr

def cmpInt (a b : Int) : Ordering3 := if a < b then .lt else if a = b then .eq else .gt

/-- Three-way comparison of strings from the strict order. -/
def cmpBy {α} (lt : α → α → Bool) (a b : α) : Ordering3 :=
  if lt a b then .lt else if lt b a then .gt else .eq

/-- `ord`: `Except`-like result: `none` inside = unordered (NaN), `.error` = not comparable. -/
inductive OrdRes | ok (o : Option Ordering3) | err
  deriving DecidableEq, Repr

def ord (l r : Val) : OrdRes :=
  match widen l r with
  | (.int a, .int b) => .ok (some (cmpInt a b))
  | (.uint a, .uint b) => .ok (some (cmpInt a b))
  | (.int a, .uint b) => .ok (some (cmpInt a b))
  | (.uint a, .int b) => .ok (some (cmpInt a b))
  | (.float a, .float b) =>
    if F.isNaN a || F.isNaN b then .ok none else .ok (some (cmpInt (F.key a) (F.key b)))
  | (.bool a, .bool b) => .ok (some (cmpInt (b01 a) (b01 b)))
  | (.str a, .str b) => .ok (some (cmpBy strLt a b))
  | (.bytes a, .bytes b) => .ok (some (cmpBy bytesLt a b))
  | (.ts a, .ts b) => .ok (some (cmpInt a b))
  | (.dur a, .dur b) => .ok (some (cmpInt a b))
  | _ => .err

inductive RelOp | lt | le | gt | ge
  deriving DecidableEq, Repr

def RelOp.holds : RelOp → Option Ordering3 → Bool
  | .lt, some .lt => true
  | .le, some .lt => true
  | .le, some .eq => true
  | .gt, some .gt => true
  | .ge, some .gt => true
  | .ge, some .eq => true
  | _, _ => false

/-- `lt`, `le`, `gt`, `ge`. -/
def rel (op : RelOp) (l r : Val) : Val :=
  errProp l r fun l r =>
    match ord l r with
    | .ok o => .bool (op.holds o)
    | .err => .err .invalidOp

/-! ### sort (stable merge sort with a fallible comparison, as `default_funcs/sort.rs`) -/

/-- Merge two sorted runs; fails when a pair has no order: values of unrelated types are the `ord` error
    (InvalidOp), an unordered pair (NaN) is a Value error. Fuel = total length. -/
def mergeRuns : Nat → List Val → List Val → Except ErrKind (List Val)
  | 0, l, r => .ok (l ++ r)
  | _ + 1, [], r => .ok r
  | _ + 1, l, [] => .ok l
  | n + 1, a :: as, b :: bs =>
    match ord a b with
    | .ok (some .gt) => (match mergeRuns n (a :: as) bs with | .ok t => .ok (b :: t) | .error k => .error k)
    | .ok (some _) => (match mergeRuns n as (b :: bs) with | .ok t => .ok (a :: t) | .error k => .error k)
    | .ok none => .error .value
    | .err => .error .invalidOp

def mergeSortFuel : Nat → List Val → Except ErrKind (List Val)
  | 0, l => .ok l
  | n + 1, l =>
    if l.length ≤ 1 then .ok l
    else
      let k := l.length / 2
      match mergeSortFuel n (l.take k) with
      | .error e => .error e
      | .ok a =>
        match mergeSortFuel n (l.drop k) with
        | .error e => .error e
        | .ok b => mergeRuns (a.length + b.length) a b

/-- `sort`. -/
def sortList (l : List Val) : Val :=
  match mergeSortFuel l.length l with
  | .ok r => .list r
  | .error k => .err k

/-- `min(args)`: keep the first least argument (`lt` must be literally true to replace). -/
def minOf : List Val → Val
  | [] => .err .argument
  | x :: xs => xs.foldl (fun cur v => match rel .lt v cur with | .bool true => v | _ => cur) x

def maxOf : List Val → Val
  | [] => .err .argument
  | x :: xs => xs.foldl (fun cur v => match rel .gt v cur with | .bool true => v | _ => cur) x

end Rscel
