import RscelModel.Model.Parse
import RscelModel.Model.Builtins
/-
Code generation and constant folding: the `CompiledProg` half of `CelCompiler::parse_*`
(`compiler/compiler.rs`, `compiled_prog.rs`).  The real compiler emits labels and resolves them
afterwards (`preresolved.rs`); here every jump distance is computed structurally from the lengths of the
pieces, which gives the same resolved bytecode (checked instruction for instruction by the
correspondence run, and `C10.compile_wf` shows every such block passes the well-formedness checker).
-/
namespace Rscel

/-- `NodeValue`: a folded constant or bytecode. -/
inductive CP
  | const (v : Val)
  | code (c : List Instr)

/-- `into_bytecode`. -/
def CP.toCode : CP → List Instr
  | .const v => [.push v]
  | .code c => c

def CP.isConst : CP → Bool
  | .const _ => true
  | .code _ => false

def BinOp.instr : BinOp → Instr
  | .or => .or | .and => .and | .lt => .lt | .le => .le | .ge => .ge | .gt => .gt
  | .eq => .eq | .ne => .ne | .in_ => .in_ | .add => .add | .sub => .sub
  | .mul => .mul | .div => .div | .mod => .mod

/-- The value-level operation the compiler applies when both operands are constants. -/
def BinOp.apply : BinOp → Val → Val → Val
  | .or => vOr | .and => vAnd
  | .lt => rel .lt | .le => rel .le | .ge => rel .ge | .gt => rel .gt
  | .eq => valEq | .ne => valNe | .in_ => inOp
  | .add => arith .add | .sub => arith .sub | .mul => arith .mul | .div => arith .div | .mod => arith .rem

def CmpOp.instr : CmpOp → Instr
  | .eq => .eq | .neq => .ne | .gt => .gt | .ge => .ge | .lt => .lt | .le => .le

/-- Tail of an `||` (`w = true`) / `&&` (`w = false`) chain after its first operand: every short-circuit
    jump goes to the end of the whole chain. -/
def chainTail (w : Bool) (op : Instr) : List (List Instr) → List Instr
  | [] => []
  | c :: cs =>
    let tail := chainTail w op cs
    [.test, .dup, .jmpCond w (c.length + 1 + tail.length)] ++ c ++ [op] ++ tail

/-- Code for `c ? t : f` with a non-constant condition. -/
def ternCode (c t f : List Instr) : List Instr :=
  c ++ [.test, .dup, .jmpCond false (t.length + 2), .pop] ++ t ++
    [.jmp (f.length + 4), .dup, .not, .jmpCond false (f.length + 1), .pop] ++ f

/-- Cases of a match after the scrutinee: `(pattern code, arm code)` pairs. -/
def matchTail : List (List Instr × List Instr) → List Instr
  | [] => [.pop, .push .null]
  | (p, e) :: rest =>
    let tail := matchTail rest
    [.dup] ++ p ++ [.jmpCond false (e.length + 2), .pop] ++ e ++ [.jmp tail.length] ++ tail

/-- Calls that may read the clock are never evaluated by the compiler. -/
def clockFunctions : List String := ["now", "timestamp"]

/-- The interpreter of `check_for_const`: the bindings of `BindContext::for_compile()`, no context; the one
    interpreter whose `met_unresolved_name()` is read. -/
def compileEnv : Env := { hasCtx := false, hasBinds := true, compileMode := true, trackUnres := true }

/-- Is `name` bound as a function, macro or type when compiling. -/
def compileBound (B : Builtins) (name : Str) : Bool :=
  (B.func name).isSome || compileEnv.isMacro name || (typeByName name).isSome

mutual
/-- `names_clock_function`: the code, or a code block operand inside it, pushes the name of a clock function
    (`'x'.now()` reaches the clock through a method name, which is not among the identifiers the program reads). -/
def namesClock : List Instr → Bool
  | [] => false
  | i :: is => namesClockI i || namesClock is
def namesClockI : Instr → Bool
  | .push v => namesClockV v
  | _ => false
def namesClockV : Val → Bool
  | .ident n => clockFunctions.any (·.toList = n)
  | .code c => namesClock c
  | _ => false
end

/-- `check_for_const`: a call node is evaluated now iff it is closed and clock free (also in method position),
    evaluation succeeds and the run met no name it could not resolve (`!i.met_unresolved_name()`: no marker in
    the log). -/
def checkForConst (B : Builtins) (idents : List Str) (code : List Instr) : CP :=
  let closed := (idents.all fun n => compileBound B n && !(clockFunctions.any (·.toList = n))) && !(namesClock code)
  if !closed then .code code
  else
    let o := runAt B maxDepth compileEnv code true []
    match o.res with
    | .ok v => if o.log.metUnres then .code code else .const v
    | .error _ => .code code

/-- Constant folding of `{..}.name` (member access on a constant map). -/
def foldAccess (o : Val) (name : Str) : Option Val :=
  match o with
  | .map _ => (match accessVal o name with | .err _ => none | v => some v)
  | _ => none

/-- Compile-time map construction from `[v0, k0, v1, k1, …]`. -/
def foldMap : List Val → VMap → Val
  | v :: .str k :: rest, m => foldMap rest (Map.insert m k v)
  | _ :: _ :: _, _ => .err .value
  | _, m => .map m

def allConst : List CP → Option (List Val)
  | [] => some []
  | .const v :: rest => (allConst rest).map (v :: ·)
  | .code _ :: _ => none

section
variable (B : Builtins)

mutual
/-- Identifiers a (sub)tree adds to `ProgramDetails::params` (every `Primary::Ident`). -/
def identsOf : Ast → List Str
  | .tern _ c t f => identsOf c ++ identsOf t ++ identsOf f
  | .match_ _ s cases => identsOf s ++ identsOfCases cases
  | .bin _ _ l r => identsOf l ++ identsOf r
  | .notRun _ _ m => identsOf m
  | .negRun _ _ m => identsOf m
  | .member _ p chain => identsOfPrim p ++ identsOfOps chain
def identsOfPrim : Prim → List Str
  | .ident _ n => [n]
  | .parens _ e => identsOf e
  | .list _ es => identsOfList es
  | .map _ inits => identsOfInits inits
  | .fstr _ segs => identsOfSegs segs
  | _ => []
def identsOfOps : List MOp → List Str
  | [] => []
  | .access .. :: rest => identsOfOps rest
  | .call _ args :: rest => identsOfList args ++ identsOfOps rest
  | .index _ e :: rest => identsOf e ++ identsOfOps rest
def identsOfList : List Ast → List Str
  | [] => []
  | e :: es => identsOf e ++ identsOfList es
def identsOfInits : List MInit → List Str
  | [] => []
  | .mk _ k v :: rest => identsOf k ++ identsOf v ++ identsOfInits rest
def identsOfCases : List MCase → List Str
  | [] => []
  | .mk _ p b :: rest => identsOfPat p ++ identsOf b ++ identsOfCases rest
def identsOfPat : Pat → List Str
  | .cmp _ _ _ e => identsOf e
  | _ => []
def identsOfSegs : List FSegAst → List Str
  | [] => []
  | .lit _ :: rest => identsOfSegs rest
  | .expr _ e :: rest => identsOf e ++ identsOfSegs rest
end

/-- Result of compiling a node: the program, and — for an `||` / `&&` node — the pieces of its chain
    (operator, first operand's code, the other operands' codes) so that a directly enclosing node of the
    same operator extends the chain instead of starting a new one. -/
structure CPX where
  cp : CP
  chain : Option (BinOp × List Instr × List (List Instr)) := none

mutual
def compileX : Ast → CPX
  | .tern _ c t f =>
    let cc := (compileX c).cp
    let ct := (compileX t).cp
    let cf := (compileX f).cp
    (match cc with
     | .const (.err k) => { cp := .const (.err k) }
     | .const v => { cp := if truthy v then ct else cf }
     | .code code => { cp := .code (ternCode code ct.toCode cf.toCode) })
  | .match_ _ s cases => { cp := .code ((compileX s).cp.toCode ++ matchTail (compileCases cases)) }
  | .bin _ op l r =>
    let L := compileX l
    let R := (compileX r).cp
    if op = .or || op = .and then
      -- never folded (the jump node is bytecode); all short-circuit jumps of one chain go to its end
      let (first, rest) : List Instr × List (List Instr) :=
        match L.chain with
        | some (op', f, rs) => if op' = op then (f, rs) else (L.cp.toCode, [])
        | none => (L.cp.toCode, [])
      let rest' := rest ++ [R.toCode]
      { cp := .code (first ++ chainTail (op == .or) op.instr rest'), chain := some (op, first, rest') }
    else
      (match L.cp, R with
       | .const a, .const b => { cp := .const (op.apply a b) }
       | cl, cr => { cp := .code (cl.toCode ++ cr.toCode ++ [op.instr]) })
  | .notRun _ ops m => { cp := .code ((compileX m).cp.toCode ++ List.replicate ops.length .not) }
  | .negRun _ ops m =>
    let n := match m with
      | .member _ (.int _ i) _ => if i = i64Min then ops.length - 1 else ops.length
      | _ => ops.length
    { cp := .code ((compileX m).cp.toCode ++ List.replicate n .neg) }
  | .member _ p chain => { cp := compileOps (identsOfPrim p) (compilePrim p) chain }

def compileCases : List MCase → List (List Instr × List Instr)
  | [] => []
  | .mk _ p b :: rest => (compilePat p, (compileX b).cp.toCode) :: compileCases rest

def compilePat : Pat → List Instr
  | .any _ => [.pop, .push (.bool true)]
  | .type _ _ name => [.push (.ident "type".toList), .call 1, .push (.ident name), .eq]
  | .cmp _ _ op e => (compileX e).cp.toCode ++ [op.instr]

def compileList : List Ast → List CP
  | [] => []
  | e :: es => (compileX e).cp :: compileList es

/-- children of a map literal in the order the compiler keeps them: value, key, value, key, … -/
def compileInits : List MInit → List CP
  | [] => []
  | .mk _ k v :: rest => (compileX v).cp :: (compileX k).cp :: compileInits rest

def compileSegs : List FSegAst → List Instr
  | [] => []
  | .lit s :: rest => [.push (.str s), .push (.ident "string".toList), .call 1] ++ compileSegs rest
  | .expr _ e :: rest =>
    [.push (.code (compileX e).cp.toCode), .push (.ident "string".toList), .call 1] ++ compileSegs rest

def compilePrim : Prim → CP
  | .ident _ n => .code [.push (.ident n)]
  | .parens _ e => (compileX e).cp
  | .list _ es =>
    let cs := compileList es
    (match allConst cs with
     | some vs => .const (.list vs)
     | none => .code ((cs.map CP.toCode).flatten ++ [.mkList es.length]))
  | .map _ inits =>
    let cs := compileInits inits
    (match allConst cs with
     | some vs => .const (foldMap vs [])
     | none => .code ((cs.map CP.toCode).flatten ++ [.mkDict inits.length]))
  | .null _ => .const .null
  | .int _ i => .const (.int i)
  | .uint _ n => .const (.uint n)
  | .float _ b => .const (.float b)
  | .str _ s => .const (.str s)
  | .bytes _ b => .const (.bytes b)
  | .bool _ b => .const (.bool b)
  | .fstr _ segs => .code (compileSegs segs ++ [.fmt segs.length])

/-- Argument pushes of a call: the AST stores the arguments last to first, which is the push order. -/
def compileArgs : List Ast → List Instr
  | [] => []
  | a :: as => .push (.code (compileX a).cp.toCode) :: compileArgs as

/-- The postfix chain: `ids` are the identifiers seen so far in this member expression. -/
def compileOps (ids : List Str) (cur : CP) : List MOp → CP
  | [] => cur
  | .access _ _ name :: rest =>
    let next : CP :=
      match cur with
      | .const o =>
        (match foldAccess o name with
         | some v => .const v
         | none => .code [.push o, .push (.ident name), .access])
      | .code c => .code (c ++ [.push (.ident name), .access])
    compileOps ids next rest
  | .call _ args :: rest =>
    let ids' := ids ++ identsOfList args
    let code := compileArgs args ++ cur.toCode ++ [.call args.length]
    compileOps ids' (checkForConst B ids' code) rest
  | .index _ e :: rest =>
    let ce := (compileX e).cp
    let next : CP :=
      match cur, ce with
      | .const o, .const i => .const (index o i)
      | c1, c2 => .code (c1.toCode ++ c2.toCode ++ [.index])
    compileOps (ids ++ identsOf e) next rest
end

def compile (a : Ast) : CP := (compileX B a).cp

/-- `into_program`: the bytecode of a whole program. -/
def compileProgram (a : Ast) : List Instr := (compile B a).toCode

end

end Rscel
