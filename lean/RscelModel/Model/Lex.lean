import RscelModel.Model.Float
/-
Scanner and tokenizer: `compiler/string_scanner.rs`, `compiler/string_tokenizer.rs`, `tokens.rs`.
Locations are (line, column) counted in characters; a token's span runs from the location before its
first character to the location after its last one.  The real tokenizer is lazy; the model
tokenizes the whole input first (any lexical error makes compilation a syntax error either way).
-/
namespace Rscel

structure Loc where
  line : Nat
  col : Nat
  deriving DecidableEq, Repr, Inhabited

structure Span where
  s : Loc
  e : Loc
  deriving DecidableEq, Repr, Inhabited

def Loc.le (a b : Loc) : Bool := a.line < b.line || (a.line == b.line && a.col ≤ b.col)
def Loc.min (a b : Loc) : Loc := if a.le b then a else b
def Loc.max (a b : Loc) : Loc := if a.le b then b else a
/-- `SourceRange::surrounding`. -/
def Span.join (a b : Span) : Span := ⟨a.s.min b.s, a.e.max b.e⟩

inductive FSeg
  | lit (s : Str)
  | expr (s : Str)
  deriving DecidableEq, Repr

inductive Tok
  | question | colon | add | minus | mul | div | mod | not | dot | comma
  | lbracket | rbracket | lbrace | rbrace | lparen | rparen
  | lt | gt | oror | andand | le | ge | eqeq | ne
  | in_ | null | match_ | case_
  | boolLit (b : Bool)
  | intLit (n : Nat)
  | uintLit (n : Nat)
  | floatLit (bits : UInt64)
  | strLit (s : Str)
  | fstrLit (segs : List FSeg)
  | bytesLit (b : List UInt8)
  | ident (s : Str)
  deriving DecidableEq, Repr

/-- Scanner state: remaining characters and the current location. -/
structure Scan where
  rest : List Char
  loc : Loc

def Loc.adv (l : Loc) (c : Char) : Loc := if c = '\n' then ⟨l.line + 1, 0⟩ else ⟨l.line, l.col + 1⟩

def Scan.next (s : Scan) : Option (Char × Scan) :=
  match s.rest with
  | [] => none
  | c :: cs => some (c, ⟨cs, s.loc.adv c⟩)

def Scan.peek (s : Scan) : Option Char := s.rest.head?

/-- A lexical error with the location the scanner had reached. -/
structure LexErr where
  loc : Loc

/-! ### decimal / hex numbers -/

def hexDigitVal (c : Char) : Option Nat :=
  if '0' ≤ c ∧ c ≤ '9' then some (c.toNat - 48)
  else if 'a' ≤ c ∧ c ≤ 'f' then some (c.toNat - 87)
  else if 'A' ≤ c ∧ c ≤ 'F' then some (c.toNat - 55)
  else none

def isDigit (c : Char) : Bool := '0' ≤ c && c ≤ '9'

/-- Rust `u64::from_str_radix`: optional leading `+`, at least one digit, must fit 64 bits. -/
def parseRadix (cs : List Char) (base : Nat) : Option Nat :=
  let digits := match cs with | '+' :: r => r | r => r
  if digits.isEmpty then none else
  (digits.foldlM (fun acc c =>
      match hexDigitVal c with
      | some d => if d < base then some (acc * base + d) else none
      | none => none) 0).bind fun n => if n ≤ 18446744073709551615 then some n else none

/-- Round the non-negative rational `p / q` to binary64, nearest-even (`q > 0`). -/
def F.ofRat (p q : Nat) : UInt64 :=
  if p == 0 then 0 else
  -- choose e2 so that 2^52 ≤ p / (q * 2^e2) < 2^53 when normal; clamp at the subnormal exponent
  let lp := Nat.log2 p
  let lq := Nat.log2 q
  let e0 : Int := (lp : Int) - (lq : Int) - 52
  -- candidate exponents e0-1, e0, e0+1: pick the one whose quotient has exactly 53 bits
  let quot (e : Int) : Nat := if e ≥ 0 then p / (q <<< e.toNat) else (p <<< (-e).toNat) / q
  let e1 : Int := if quot e0 ≥ 2 ^ 53 then e0 + 1 else if quot e0 < 2 ^ 52 then e0 - 1 else e0
  let e : Int := if e1 < -1074 then -1074 else e1
  let (num, den) : Nat × Nat := if e ≥ 0 then (p, q <<< e.toNat) else (p <<< (-e).toNat, q)
  let m := num / den
  let r := num % den
  let m' := if 2 * r > den || (2 * r == den && m % 2 == 1) then m + 1 else m
  -- m' in [0, 2^53]; value = m' * 2^e
  if m' == 0 then 0
  else if m' < 2 ^ 52 then UInt64.ofNat m'            -- subnormal (e = -1074), or rounds up into normal below
  else
    let (m'', e') : Nat × Int := if m' ≥ 2 ^ 53 then (m' / 2, e + 1) else (m', e)
    let be : Int := e' + 1075
    if be ≥ 2047 then 0x7ff0000000000000
    else UInt64.ofNat (be.toNat * 2 ^ 52 + (m'' - 2 ^ 52))

/-- Digits of the mantissa and a decimal exponent → correctly rounded double (Rust `str::parse::<f64>`
    on `digits[.digits][e[±]digits]`). -/
def F.ofDecimal (mant : Nat) (exp10 : Int) : UInt64 :=
  if mant == 0 then 0
  else
    let nd : Int := (toString mant).length
    if exp10 + nd > 320 then 0x7ff0000000000000
    else if exp10 + nd < -340 then 0
    else if exp10 ≥ 0 then F.ofRat (mant * 10 ^ exp10.toNat) 1
    else F.ofRat mant (10 ^ (-exp10).toNat)

def digitsVal (cs : List Char) : Nat := cs.foldl (fun acc c => acc * 10 + (c.toNat - 48)) 0

/-- Rust `f64::from_str` restricted to what the number scanner can produce:
    `digits* [. digits*] [ (e|E) [+|-] digits+ ]` with at least one mantissa digit. -/
def parseFloatText (cs : List Char) : Option UInt64 :=
  let intPart := cs.takeWhile isDigit
  let r1 := cs.dropWhile isDigit
  let (fracPart, r2) : List Char × List Char :=
    match r1 with
    | '.' :: r => (r.takeWhile isDigit, r.dropWhile isDigit)
    | r => ([], r)
  if intPart.isEmpty && fracPart.isEmpty then none else
  let mant := digitsVal (intPart ++ fracPart)
  let fracLen : Int := fracPart.length
  match r2 with
  | [] => some (F.ofDecimal mant (-fracLen))
  | c :: r =>
    if c == 'e' || c == 'E' then
      let (neg, ds) : Bool × List Char :=
        match r with
        | '-' :: d => (true, d)
        | '+' :: d => (false, d)
        | d => (false, d)
      if ds.isEmpty || !ds.all isDigit then none
      else
        -- clamp absurd exponents (the result is 0 or inf long before)
        let ev : Int := if ds.length > 8 then 100000000 else digitsVal ds
        let e : Int := if neg then -ev else ev
        some (F.ofDecimal mant (e - fracLen))
    else none

structure NumState where
  working : List Char   -- reversed
  isFloat : Bool
  isExp : Bool
  isUnsigned : Bool
  base : Nat

/-- The scanning loop of `parse_number_or_token`. -/
def scanNumber : Nat → Scan → NumState → Scan × NumState
  | 0, s, st => (s, st)
  | fuel + 1, s, st =>
    match s.next with
    | none => (s, st)
    | some (c, s1) =>
      if st.base == 16 && (hexDigitVal c).isSome then
        scanNumber fuel s1 { st with working := c :: st.working }
      else if isDigit c then scanNumber fuel s1 { st with working := c :: st.working }
      else if c == 'e' || c == 'E' || c == '.' then
        if (c == '.' && st.isFloat) || st.isExp then (s, st)
        else
          let st1 := { st with isFloat := true, isExp := (c == 'e' || c == 'E'), working := c :: st.working }
          match s1.next with
          | some (p, s2) =>
            if p == '+' || p == '-' then scanNumber fuel s2 { st1 with working := p :: st1.working }
            else scanNumber fuel s1 st1
          | none => scanNumber fuel s1 st1
      else if c == 'u' || c == 'U' then
        if st.isFloat then (s, st) else (s1, { st with isUnsigned := true })
      else if c == 'x' || c == 'X' then
        if st.working == ['0'] && st.base == 10 then
          scanNumber fuel s1 { st with working := 'x' :: st.working, base := 16 }
        else (s, st)
      else (s, st)

def stripHexPrefix : List Char → List Char
  | '0' :: 'x' :: r => stripHexPrefix r
  | r => r
termination_by l => l.length

/-- `parse_number_or_token`, given the first character(s) already consumed. -/
def lexNumber (start : List Char) (s : Scan) : Except LexErr (Tok × Scan) :=
  let (s', st) := scanNumber (s.rest.length + 1) s
    { working := start.reverse, isFloat := start.contains '.', isExp := false, isUnsigned := false, base := 10 }
  let working := st.working.reverse
  let fixed := if st.base == 16 then stripHexPrefix working else working
  if st.isUnsigned then
    match parseRadix fixed st.base with
    | some n => .ok (.uintLit n, s')
    | none => .error ⟨s'.loc⟩
  else if st.isFloat then
    match parseFloatText working with
    | some b => .ok (.floatLit b, s')
    | none => .error ⟨s'.loc⟩
  else
    match parseRadix fixed st.base with
    | some n => .ok (.intLit n, s')
    | none => .error ⟨s'.loc⟩

/-! ### identifiers and keywords -/

def isIdentChar (c : Char) : Bool :=
  ('a' ≤ c && c ≤ 'z') || ('A' ≤ c && c ≤ 'Z') || isDigit c || c == '_'

def scanIdent : Nat → Scan → List Char → Scan × List Char
  | 0, s, acc => (s, acc)
  | fuel + 1, s, acc =>
    match s.next with
    | some (c, s1) => if isIdentChar c then scanIdent fuel s1 (c :: acc) else (s, acc)
    | none => (s, acc)

def keywordOf (w : String) : Option Tok :=
  if w == "case" then some .case_ else if w == "false" then some (.boolLit false)
  else if w == "in" then some .in_ else if w == "match" then some .match_
  else if w == "null" then some .null else if w == "true" then some (.boolLit true)
  else none

def lexIdent (first : Char) (s : Scan) : Tok × Scan :=
  let (s', acc) := scanIdent (s.rest.length + 1) s [first]
  let w := acc.reverse
  match keywordOf (String.ofList w) with
  | some t => (t, s')
  | none => (.ident w, s')

/-! ### string / bytes literals -/

def charOfNat? (n : Nat) : Option Char :=
  if h : n.isValidChar then some (Char.ofNatAux n h) else none

/-- `extract_hex_val(len)`: exactly `len` hex digits, a Unicode scalar value. -/
def extractHex : Nat → Scan → Nat → Except LexErr (Nat × Scan)
  | 0, s, acc => .ok (acc, s)
  | n + 1, s, acc =>
    match s.next with
    | none => .error ⟨s.loc⟩
    | some (c, s1) =>
      match hexDigitVal c with
      | some d => extractHex n s1 (acc * 16 + d)
      | none => .error ⟨s1.loc⟩

def extractHexChar (len : Nat) (s : Scan) : Except LexErr (Char × Scan) :=
  match extractHex len s 0 with
  | .error e => .error e
  | .ok (v, s1) =>
    match charOfNat? v with
    | some c => .ok (c, s1)
    | none => .error ⟨s1.loc⟩

/-- Three-character octal escape: the first is already read (a digit), two more follow. -/
def octalVal (d0 : Char) (s : Scan) : Except LexErr (Nat × Scan) :=
  match s.next with
  | none => .error ⟨s.loc⟩
  | some (d1, s1) =>
    match s1.next with
    | none => .error ⟨s1.loc⟩
    | some (d2, s2) =>
      let ok (c : Char) := '0' ≤ c && c ≤ '7'
      if ok d0 && ok d1 && ok d2 then
        .ok ((d0.toNat - 48) * 64 + (d1.toNat - 48) * 8 + (d2.toNat - 48), s2)
      else .error ⟨s2.loc⟩

def utf8Bytes (c : Char) : List UInt8 := (String.singleton c).toUTF8.toList

/-- `parse_bytes_literal`. -/
def lexBytes (q : Char) : Nat → Scan → List UInt8 → Except LexErr (Tok × Scan)
  | 0, s, _ => .error ⟨s.loc⟩
  | fuel + 1, s, acc =>
    match s.next with
    | none => .error ⟨s.loc⟩
    | some (c, s1) =>
      if c == q then .ok (.bytesLit acc.reverse, s1)
      else if c == '\\' then
        match s1.next with
        | none => .error ⟨s1.loc⟩
        | some (e, s2) =>
          let one (b : UInt8) := lexBytes q fuel s2 (b :: acc)
          if e == 'a' then one 7 else if e == 'b' then one 8 else if e == 'f' then one 12
          else if e == 'n' then one 10 else if e == 'r' then one 13 else if e == 't' then one 9
          else if e == 'v' then one 11
          else if e == 'x' || e == 'X' then
            match extractHexChar 2 s2 with
            | .error er => .error er
            | .ok (ch, s3) => lexBytes q fuel s3 (UInt8.ofNat ch.toNat :: acc)
          else if e == '\\' then one 92 else if e == '\'' then one 39 else if e == '"' then one 34
          else if isDigit e then
            match octalVal e s2 with
            | .error er => .error er
            | .ok (v, s3) => if v ≤ 255 then lexBytes q fuel s3 (UInt8.ofNat v :: acc) else .error ⟨s3.loc⟩
          else lexBytes q fuel s2 ((utf8Bytes e).reverse ++ acc)
      else lexBytes q fuel s1 ((utf8Bytes c).reverse ++ acc)

/-- The `{ … }` body of a format-string segment: balanced braces, the closing one dropped. -/
def scanFExpr : Nat → Scan → Nat → List Char → Except LexErr (List Char × Scan)
  | 0, s, _, _ => .error ⟨s.loc⟩
  | fuel + 1, s, depth, acc =>
    match s.next with
    | none => .error ⟨s.loc⟩
    | some (c, s1) =>
      if c == '}' then
        if depth == 1 then .ok (acc.reverse, s1)
        else scanFExpr fuel s1 (depth - 1) ('}' :: acc)
      else if c == '{' then scanFExpr fuel s1 (depth + 1) ('{' :: acc)
      else scanFExpr fuel s1 depth (c :: acc)

/-- `parse_string_literal(starting, is_raw, is_format)`; `work` is the current literal run (reversed),
    `segs` the finished segments (reversed). -/
def lexString (q : Char) (raw fmt : Bool) : Nat → Scan → List Char → List FSeg → Except LexErr (Tok × Scan)
  | 0, s, _, _ => .error ⟨s.loc⟩
  | fuel + 1, s, work, segs =>
    match s.next with
    | none => .error ⟨s.loc⟩
    | some (c, s1) =>
      if c == q then
        if segs.isEmpty then .ok (.strLit work.reverse, s1)
        else
          let segs' := if work.isEmpty then segs else .lit work.reverse :: segs
          .ok (.fstrLit segs'.reverse, s1)
      else if c == '\\' && !raw then
        match s1.next with
        | none => .error ⟨s1.loc⟩
        | some (e, s2) =>
          let one (ch : Char) := lexString q raw fmt fuel s2 (ch :: work) segs
          if e == 'a' then one (Char.ofNat 7) else if e == 'b' then one (Char.ofNat 8)
          else if e == 'f' then one (Char.ofNat 12) else if e == 'n' then one '\n'
          else if e == 'r' then one '\r' else if e == 't' then one '\t'
          else if e == 'v' then one (Char.ofNat 11)
          else if e == 'u' then
            match extractHexChar 4 s2 with
            | .error er => .error er
            | .ok (ch, s3) => lexString q raw fmt fuel s3 (ch :: work) segs
          else if e == 'U' then
            match extractHexChar 8 s2 with
            | .error er => .error er
            | .ok (ch, s3) => lexString q raw fmt fuel s3 (ch :: work) segs
          else if e == 'x' || e == 'X' then
            match extractHexChar 2 s2 with
            | .error er => .error er
            | .ok (ch, s3) => lexString q raw fmt fuel s3 (ch :: work) segs
          else if e == '\\' then one '\\' else if e == '\'' then one '\'' else if e == '"' then one '"'
          else if isDigit e then
            match octalVal e s2 with
            | .error er => .error er
            | .ok (v, s3) =>
              match charOfNat? v with
              | some ch => lexString q raw fmt fuel s3 (ch :: work) segs
              | none => .error ⟨s3.loc⟩
          else one e
      else if c == '{' && fmt then
        match s1.next with
        | none => .error ⟨s1.loc⟩
        | some (e, s2) =>
          if e == '{' then lexString q raw fmt fuel s2 ('{' :: work) segs
          else
            let segs1 := if work.isEmpty then segs else .lit work.reverse :: segs
            if e == '}' then .error ⟨s2.loc⟩
            else
              -- the first character of the expression is `e`; braces inside it nest
              let start : Except LexErr (List Char × Scan) :=
                if e == '{' then .ok ([], s2) else scanFExpr fuel s2 1 [e]
              match start with
              | .error er => .error er
              | .ok (body, s3) =>
                if body.isEmpty then .error ⟨s3.loc⟩
                else lexString q raw fmt fuel s3 [] (.expr body :: segs1)
      else if c == '}' && fmt then
        match s1.next with
        | none => .error ⟨s1.loc⟩
        | some (e, s2) =>
          if e == '}' then lexString q raw fmt fuel s2 ('}' :: work) segs
          else .error ⟨s2.loc⟩
      else lexString q raw fmt fuel s1 (c :: work) segs

/-! ### the token loop -/

def skipWs : Nat → Scan → Scan
  | 0, s => s
  | fuel + 1, s =>
    match s.next with
    | some (c, s1) => if c == ' ' || c == '\t' || c == '\n' then skipWs fuel s1 else s
    | none => s

/-- One token (`collect_next_token`), `none` at end of input. Returns the scanner after the token. -/
def lexToken (s0 : Scan) : Except LexErr (Option (Tok × Span) × Scan) :=
  let s := skipWs (s0.rest.length + 1) s0
  let start := s.loc
  match s.next with
  | none => .ok (none, s)
  | some (c, s1) =>
    let fin (r : Except LexErr (Tok × Scan)) : Except LexErr (Option (Tok × Span) × Scan) :=
      match r with
      | .error e => .error e
      | .ok (t, s') => .ok (some (t, ⟨start, s'.loc⟩), s')
    let simple (t : Tok) := fin (.ok (t, s1))
    let two (second : Char) (t2 t1 : Option Tok) : Except LexErr (Option (Tok × Span) × Scan) :=
      match s1.next with
      | some (d, s2) =>
        if d == second then (match t2 with | some t => fin (.ok (t, s2)) | none => .error ⟨s1.loc⟩)
        else (match t1 with | some t => fin (.ok (t, s1)) | none => .error ⟨s1.loc⟩)
      | none => (match t1 with | some t => fin (.ok (t, s1)) | none => .error ⟨s1.loc⟩)
    let quoted (raw fmt : Bool) (fallback : Char) : Except LexErr (Option (Tok × Span) × Scan) :=
      match s1.next with
      | some (d, s2) =>
        if d == '\'' || d == '"' then fin (lexString d raw fmt (s2.rest.length + 1) s2 [] [])
        else fin (.ok (lexIdent fallback s1))
      | none => fin (.ok (lexIdent fallback s1))
    if c == '?' then simple .question else if c == ':' then simple .colon
    else if c == '+' then simple .add else if c == '-' then simple .minus
    else if c == '*' then simple .mul else if c == '/' then simple .div else if c == '%' then simple .mod
    else if c == '!' then two '=' (some .ne) (some .not)
    else if c == '.' then
      (match s1.peek with
       | some d => if isDigit d then fin (lexNumber ['.'] s1) else simple .dot
       | none => simple .dot)
    else if c == ',' then simple .comma else if c == '[' then simple .lbracket
    else if c == ']' then simple .rbracket else if c == '{' then simple .lbrace
    else if c == '}' then simple .rbrace else if c == '(' then simple .lparen
    else if c == ')' then simple .rparen
    else if c == '<' then two '=' (some .le) (some .lt)
    else if c == '>' then two '=' (some .ge) (some .gt)
    else if c == '=' then two '=' (some .eqeq) none
    else if c == '|' then two '|' (some .oror) none
    else if c == '&' then two '&' (some .andand) none
    else if c == 'b' then
      (match s1.next with
       | some (d, s2) =>
         if d == '\'' || d == '"' then fin (lexBytes d (s2.rest.length + 1) s2 [])
         else fin (.ok (lexIdent 'b' s1))
       | none => fin (.ok (lexIdent 'b' s1)))
    else if c == 'f' then quoted false true 'f'
    else if c == 'r' then quoted true false 'r'
    else if isDigit c then fin (lexNumber [c] s1)
    else if c == '\'' || c == '"' then fin (lexString c false false (s1.rest.length + 1) s1 [] [])
    else if c == '_' || ('A' ≤ c && c ≤ 'Z') || ('a' ≤ c && c ≤ 'z') then fin (.ok (lexIdent c s1))
    else .error ⟨s1.loc⟩

structure Lexed where
  toks : List (Tok × Span)
  eofLoc : Loc

def tokenizeGo : Nat → Scan → List (Tok × Span) → Except LexErr Lexed
  | 0, s, _ => .error ⟨s.loc⟩
  | fuel + 1, s, acc =>
    match lexToken s with
    | .error e => .error e
    | .ok (none, s') => .ok ⟨acc.reverse, s'.loc⟩
    | .ok (some t, s') => tokenizeGo fuel s' (t :: acc)

/-- All tokens of a source text. Fuel: every token consumes at least one character. -/
def tokenize (src : Str) : Except LexErr Lexed := tokenizeGo (src.length + 2) ⟨src, ⟨0, 0⟩⟩ []

end Rscel
