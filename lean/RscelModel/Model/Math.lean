import RscelModel.Model.Builtins
/-
The math built-ins of `context/default_funcs/math/*.rs`: `abs sqrt pow log lg ceil floor round`.
Integer forms are exact or fail (`checked_abs`, `checked_pow` with a `u32` exponent, `checked_ilog10`,
`checked_ilog2`); `ceil/floor/round` are the identity on integers and `f(x) as i64` (saturating) on
doubles, defined exactly on the bit pattern; the remaining double forms are hardware / libm.
-/
namespace Rscel

def u32Max : Nat := 4294967295

/-- `checked_abs`. -/
def absInt (i : Int) : Val := if i == i64Min then .err .value else .int i.natAbs

/-- ⌊log₁₀ n⌋ for `n ≥ 1` (`0` for `n = 0`, never used). -/
def ilog10 (n : Nat) : Nat := if n < 10 then 0 else ilog10 (n / 10) + 1
decreasing_by omega

/-- `checked_pow` against a range predicate, without ever building a huge power: bases 0, 1, -1 are decided
    directly, any other base overflows 64 bits from exponent 64 on. -/
def powChecked (inRange : Int → Bool) (n : Int) (e : Nat) : Option Int :=
  if n == 0 then some (if e == 0 then 1 else 0)
  else if n == 1 then some 1
  else if n == -1 then some (if e % 2 == 0 then 1 else -1)
  else if e ≥ 64 then none
  else
    let r := n ^ e
    if inRange r then some r else none

/-- `u32::try_from` of an integer exponent. -/
def exponentOfInt (i : Int) : Option Nat :=
  if 0 ≤ i && i ≤ (u32Max : Int) then some i.toNat else none

/-- `float_exponent`: `n >= 0.0 && n <= u32::MAX as f64 && n.fract() == 0.0`. -/
def exponentOfFloat (b : UInt64) : Option Nat :=
  if F.isNaN b || F.isInf b then none
  else if F.signBit b && !F.isZero b then none
  else if !F.isIntegral b then none
  else
    let t := F.truncInt b
    if t ≤ (u32Max : Int) then some t.toNat else none

def powIntVal (n : Int) (e : Option Nat) : Val :=
  match e with
  | none => .err .value
  | some e => match powChecked inI64 n e with | some r => .int r | none => .err .value

def powUintVal (n : Nat) (e : Option Nat) : Val :=
  match e with
  | none => .err .value
  | some e => match powChecked inU64 n e with | some r => .uint r.toNat | none => .err .value

/-- `pow(f64, integer)`: `powi` when the exponent fits `i32`, else `powf` of the converted exponent. -/
def powFloatInt (a : UInt64) (e : Int) : Val :=
  if -2147483648 ≤ e && e ≤ 2147483647 then .float (F.powi a e) else .float (F.powf a (F.ofInt e))

def ov1 (t : Tag) (f : Val → Val) : Overload :=
  ⟨none, [t], fun _ a => match a with | [v] => f v | _ => .err .internal⟩

def ov2 (t1 t2 : Tag) (f : Val → Val → Val) : Overload :=
  ⟨none, [t1, t2], fun _ a => match a with | [v, w] => f v w | _ => .err .internal⟩

def intLog (f : Nat → Nat) : Val → Val
  | .int i => if i ≤ 0 then .err .value else .int (f i.toNat)
  | .uint n => if n == 0 then .err .value else .uint (f n)
  | _ => .err .internal

/-- ceil / floor / round: identity on integers, exact integer function then `as i64` on doubles. -/
def roundingOverloads (f : UInt64 → Int) : List Overload :=
  [ ov1 .int id, ov1 .uint id,
    ov1 .double fun v => match v with | .float d => .int (F.satOf f d) | _ => .err .internal ]

def mathFuncs : List (String × List Overload) :=
  [ ("abs",
      [ ov1 .int fun v => match v with | .int i => absInt i | _ => .err .internal,
        ov1 .uint id,
        ov1 .double fun v => match v with | .float d => .float (F.abs d) | _ => .err .internal ]),
    ("sqrt",
      [ ov1 .int fun v => match v with | .int i => .float (F.sqrt (F.ofInt i)) | _ => .err .internal,
        ov1 .uint fun v => match v with | .uint n => .float (F.sqrt (F.ofNat n)) | _ => .err .internal,
        ov1 .double fun v => match v with | .float d => .float (F.sqrt d) | _ => .err .internal ]),
    ("pow",
      [ ov2 .int .int fun a b => match a, b with | .int n, .int e => powIntVal n (exponentOfInt e) | _, _ => .err .internal,
        ov2 .int .uint fun a b => match a, b with | .int n, .uint e => powIntVal n (exponentOfInt e) | _, _ => .err .internal,
        ov2 .int .double fun a b => match a, b with | .int n, .float e => powIntVal n (exponentOfFloat e) | _, _ => .err .internal,
        ov2 .uint .int fun a b => match a, b with | .uint n, .int e => powUintVal n (exponentOfInt e) | _, _ => .err .internal,
        ov2 .uint .uint fun a b => match a, b with | .uint n, .uint e => powUintVal n (exponentOfInt e) | _, _ => .err .internal,
        ov2 .uint .double fun a b => match a, b with | .uint n, .float e => powUintVal n (exponentOfFloat e) | _, _ => .err .internal,
        ov2 .double .int fun a b => match a, b with | .float x, .int e => powFloatInt x e | _, _ => .err .internal,
        ov2 .double .uint fun a b => match a, b with | .float x, .uint e => powFloatInt x e | _, _ => .err .internal,
        ov2 .double .double fun a b => match a, b with | .float x, .float y => .float (F.powf x y) | _, _ => .err .internal ]),
    ("log",
      [ ov1 .int (intLog ilog10), ov1 .uint (intLog ilog10),
        ov1 .double fun v => match v with | .float d => .float (F.log10 d) | _ => .err .internal ]),
    ("lg",
      [ ov1 .int (intLog Nat.log2), ov1 .uint (intLog Nat.log2),
        ov1 .double fun v => match v with | .float d => .float (F.log2 d) | _ => .err .internal ]),
    ("ceil", roundingOverloads F.ceilInt),
    ("floor", roundingOverloads F.floorInt),
    ("round", roundingOverloads F.roundInt) ]

end Rscel
