import RscelModel.Model.VM
/-
Bytecode well-formedness checker (C10): in-range forward jumps, no pop from an empty stack on any path,
paths that meet agree on the stack height, every path reaches the end of the block with exactly one
more value than it started with, recursively for every nested code block.

`inferHeights` computes a table "stack height before pc" in one forward pass; `checkHeights` then
*verifies* that table against every instruction (certificate checking).  Only `checkHeights` is used
by the soundness proof (`C10.flat_sound`), so `inferHeights` is not part of the trusted logic.
-/
namespace Rscel

/-- (pops, pushes) of an instruction, as `interp.rs` implements it. -/
def Instr.effect : Instr → Nat × Nat
  | .push _ => (0, 1)
  | .pop => (1, 0)
  | .test | .not | .neg => (1, 1)
  | .dup => (1, 2)
  | .or | .and | .add | .sub | .mul | .div | .mod | .lt | .le | .eq | .ne | .ge | .gt | .in_ | .index
  | .access => (2, 1)
  | .jmp _ => (0, 0)
  | .jmpCond _ _ => (1, 0)
  | .mkList n => (n, 1)
  | .mkDict n => (2 * n, 1)
  | .call n => (n + 1, 1)
  | .fmt n => (n, 1)

/-- Successor program counters of the instruction at `pc` (already checked to be forward and in range). -/
def Instr.succs (i : Instr) (pc len : Nat) : Option (List Nat) :=
  match i with
  | .jmp d => if 0 ≤ d ∧ pc + 1 + d.toNat ≤ len then some [pc + 1 + d.toNat] else none
  | .jmpCond _ d => if 0 ≤ d ∧ pc + 1 + d.toNat ≤ len then some [pc + 1, pc + 1 + d.toNat] else none
  | _ => some [pc + 1]

abbrev Heights := List (Option Nat)

def setHeight (H : Heights) (t h : Nat) : Option Heights :=
  match H[t]? with
  | some none => some (H.set t (some h))
  | some (some h') => if h' = h then some H else none
  | none => none

/-- One forward pass; `none` on the first inconsistency. -/
def inferGo (len : Nat) : List Instr → Nat → Heights → Option Heights
  | [], _, H => some H
  | i :: rest, pc, H =>
    match H[pc]? with
    | some (some h) =>
      let (pops, pushes) := i.effect
      if pops ≤ h then
        match i.succs pc len with
        | none => none
        | some ts =>
          match ts.foldlM (fun H t => setHeight H t (h - pops + pushes)) H with
          | none => none
          | some H' => inferGo len rest (pc + 1) H'
      else none
    | _ => inferGo len rest (pc + 1) H   -- unreachable instruction

def inferHeights (code : List Instr) (h0 : Nat) : Option Heights :=
  inferGo code.length code 0 ((some h0) :: List.replicate code.length none)

/-- Does the table `H` justify instruction `i` at `pc`? -/
def checkAt (H : Heights) (len pc : Nat) (i : Instr) : Bool :=
  match H[pc]? with
  | some (some h) =>
    let (pops, pushes) := i.effect
    decide (pops ≤ h) &&
    (match i.succs pc len with
     | none => false
     | some ts => ts.all fun t => H[t]? == some (some (h - pops + pushes)))
  | some none => true     -- never reached
  | none => false

def checkGo (H : Heights) (len : Nat) : List Instr → Nat → Bool
  | [], _ => true
  | i :: rest, pc => checkAt H len pc i && checkGo H len rest (pc + 1)

/-- Certificate check: `H` starts at `h0`, ends at `hf`, and justifies every instruction. -/
def checkHeights (code : List Instr) (H : Heights) (h0 hf : Nat) : Bool :=
  H.length == code.length + 1 && H[0]? == some (some h0) && H[code.length]? == some (some hf) &&
  checkGo H code.length code 0

/-- Flat (one block) well-formedness: from height `h0` every path ends at height `hf`. -/
def wfFlat (code : List Instr) (h0 hf : Nat) : Bool :=
  match inferHeights code h0 with
  | none => false
  | some H => checkHeights code H h0 hf

mutual
/-- Every code block nested in the instructions (as a push operand, at any depth inside the operand
    value) is itself well-formed as an expression block (0 ↦ 1). -/
def nestedOk : List Instr → Bool
  | [] => true
  | i :: is => nestedOkI i && nestedOk is
def nestedOkI : Instr → Bool
  | .push v => nestedOkV v
  | _ => true
def nestedOkV : Val → Bool
  | .code c => wfFlat c 0 1 && nestedOk c
  | .list l => nestedOkL l
  | .map m => nestedOkM m
  | _ => true
def nestedOkL : List Val → Bool
  | [] => true
  | v :: vs => nestedOkV v && nestedOkL vs
def nestedOkM : List (Str × Val) → Bool
  | [] => true
  | (_, v) :: vs => nestedOkV v && nestedOkM vs
end

/-- A whole program / expression block is well-formed. -/
def wfBlock (code : List Instr) : Bool := wfFlat code 0 1 && nestedOk code

/-- Diagnostic for the driver: why is a block rejected. -/
def wfDiag (code : List Instr) : String :=
  if wfBlock code then "wf:ok"
  else if !(wfFlat code 0 1) then
    match inferHeights code 0 with
    | none => "wf:reject inconsistent-heights-or-bad-jump-or-underflow"
    | some H => s!"wf:reject final-height {repr (H[code.length]?)}"
  else "wf:reject nested-block"

end Rscel
