import RscelModel.Model.Spec
/-
Replacing a variable by a literal (property C09: "replacing a variable by a literal of its value, or a
literal by a variable bound to it, does not change the result").

`substIdent x r e` is the tree `e` in which every identifier primary `x` is replaced by the primary `r`
(all node kinds are traversed, so the function is total on `Ast`; the theorems about it are stated on the
fragment `Frag` that `evalSpec` defines).  `Lit` are the values a literal can denote, `Lit.prim` is the
primary the parser produces for the literal's spelling, and `substLit x l = substIdent x (l.prim ·)`.

Spelling.  The grammar has no negative literal primaries: `-5` is the `-`-run `negRun [·] 5`, and
`-9223372036854775808` is the `-`-run over the primary `int i64Min` in which the parser has already used up
one minus sign (`negCount`).  A negative value is therefore spelled the way the harness (`api::literal`) and
any careful textual substitution spell it: parenthesised, `(-5)`, `(-1.5)`, `(-9223372036854775808)`.
A *bare* primary `int i64Min` is not a spelling of a value: behind a `-` it means something else
(`negCount`), and `substIdent` with such an `r` would not preserve the meaning of `-x`
(`Theorems/C09Sem.lean`, `bare_min_literal_is_not_a_spelling`).
-/
namespace Rscel

mutual
/-- `e` with every identifier primary `x` replaced by the primary `r`. -/
def substIdent (x : Str) (r : Prim) : Ast → Ast
  | .tern sp c t f => .tern sp (substIdent x r c) (substIdent x r t) (substIdent x r f)
  | .match_ sp s cases => .match_ sp (substIdent x r s) (substIdentCases x r cases)
  | .bin sp op a b => .bin sp op (substIdent x r a) (substIdent x r b)
  | .notRun sp ops m => .notRun sp ops (substIdent x r m)
  | .negRun sp ops m => .negRun sp ops (substIdent x r m)
  | .member sp p chain => .member sp (substIdentPrim x r p) (substIdentOps x r chain)
def substIdentPrim (x : Str) (r : Prim) : Prim → Prim
  | .ident sp n => if n = x then r else .ident sp n
  | .parens sp e => .parens sp (substIdent x r e)
  | .list sp es => .list sp (substIdentList x r es)
  | .map sp inits => .map sp (substIdentInits x r inits)
  | .fstr sp segs => .fstr sp (substIdentSegs x r segs)
  | .null sp => .null sp
  | .int sp i => .int sp i
  | .uint sp n => .uint sp n
  | .float sp b => .float sp b
  | .str sp s => .str sp s
  | .bytes sp b => .bytes sp b
  | .bool sp b => .bool sp b
def substIdentOps (x : Str) (r : Prim) : List MOp → List MOp
  | [] => []
  | .access sp isp name :: rest => .access sp isp name :: substIdentOps x r rest
  | .call sp args :: rest => .call sp (substIdentList x r args) :: substIdentOps x r rest
  | .index sp e :: rest => .index sp (substIdent x r e) :: substIdentOps x r rest
def substIdentList (x : Str) (r : Prim) : List Ast → List Ast
  | [] => []
  | e :: es => substIdent x r e :: substIdentList x r es
def substIdentInits (x : Str) (r : Prim) : List MInit → List MInit
  | [] => []
  | .mk sp k v :: rest => .mk sp (substIdent x r k) (substIdent x r v) :: substIdentInits x r rest
def substIdentCases (x : Str) (r : Prim) : List MCase → List MCase
  | [] => []
  | .mk sp p b :: rest => .mk sp (substIdentPat x r p) (substIdent x r b) :: substIdentCases x r rest
def substIdentPat (x : Str) (r : Prim) : Pat → Pat
  | .cmp sp osp op e => .cmp sp osp op (substIdent x r e)
  | .type sp t name => .type sp t name
  | .any sp => .any sp
def substIdentSegs (x : Str) (r : Prim) : List FSegAst → List FSegAst
  | [] => []
  | .lit s :: rest => .lit s :: substIdentSegs x r rest
  | .expr src e :: rest => .expr src (substIdent x r e) :: substIdentSegs x r rest
end

/-- The values a literal can denote (lists and maps of such are not included). -/
inductive Lit
  | null
  | int (i : Int)
  | uint (n : Nat)
  | float (bits : UInt64)
  | bool (b : Bool)
  | str (s : Str)
  | bytes (b : List UInt8)
  deriving Repr, DecidableEq

/-- The value. -/
def Lit.val : Lit → Val
  | .null => .null
  | .int i => .int i
  | .uint n => .uint n
  | .float b => .float b
  | .bool b => .bool b
  | .str s => .str s
  | .bytes b => .bytes b

/-- An `int` literal denotes an `i64`. (`uint`: the parser rejects literals above `u64::MAX`, but nothing
    in the evaluation of a `uint` primary depends on it.) -/
def Lit.InRange : Lit → Prop
  | .int i => i64Min ≤ i ∧ i ≤ i64Max
  | _ => True

/-- Sign bit of a double. -/
def signBit : UInt64 := 0x8000000000000000

/-- The primary the parser produces for the spelling of the literal: the literal token itself when the
    value is not negative, `(-m)` otherwise — with `m` the magnitude, and for `i64::MIN` the token
    `9223372036854775808` that the parser reads, behind a `-`, as `int i64Min`. -/
def Lit.prim (sp : Span) : Lit → Prim
  | .null => .null sp
  | .int i =>
    if 0 ≤ i then .int sp i
    else .parens sp (.negRun sp [sp] (.member sp (.int sp (if i = i64Min then i64Min else -i)) []))
  | .uint n => .uint sp n
  | .float b =>
    if b &&& signBit = 0 then .float sp b
    else .parens sp (.negRun sp [sp] (.member sp (.float sp (b ^^^ signBit)) []))
  | .bool b => .bool sp b
  | .str s => .str sp s
  | .bytes b => .bytes sp b

/-- `e` with every identifier primary `x` replaced by the literal `l`. -/
def substLit (x : Str) (l : Lit) (e : Ast) : Ast := substIdent x (l.prim default) e

/-- Several variables at once (left to right; a name listed twice is replaced by its first literal). -/
def substLits : List (Str × Lit) → Ast → Ast
  | [], e => e
  | (x, l) :: rest, e => substLits rest (substLit x l e)

end Rscel
