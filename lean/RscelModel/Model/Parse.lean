import RscelModel.Model.Ast
import RscelModel.Model.VM
/-
The recursive-descent parser: `CelCompiler::parse_*` (`compiler/compiler.rs`), AST side only
(code generation is `Compile.lean`).  The parser is generic in its token source so that the same code
runs on the lazy scanner (as the real `StringTokenizer` does) and on a token list (used by the C02
theorems).  Every function takes a recursion-depth fuel; `parseFuel` is always enough because each
recursive cycle either consumes a token or is bounded by the nesting limit of 32.
-/
namespace Rscel

/-- A token source: the `Tokenizer` trait. -/
structure TokSrc (σ : Type) where
  peek : σ → Except LexErr (Option (Tok × Span) × σ)
  next : σ → Except LexErr (Option (Tok × Span) × σ)
  loc : σ → Loc
  ofText : Str → σ

/-- The lazy `StringTokenizer`: scanner plus one token of lookahead. -/
structure LazyTok where
  scan : Scan
  cur : Option (Tok × Span)

def lazySrc : TokSrc LazyTok where
  peek s :=
    match s.cur with
    | some t => .ok (some t, s)
    | none =>
      match lexToken s.scan with
      | .error e => .error e
      | .ok (t, sc) => .ok (t, ⟨sc, t⟩)
  next s :=
    match s.cur with
    | some t => .ok (some t, { s with cur := none })
    | none =>
      match lexToken s.scan with
      | .error e => .error e
      | .ok (t, sc) => .ok (t, ⟨sc, none⟩)
  loc s := s.scan.loc
  ofText src := ⟨⟨src, ⟨0, 0⟩⟩, none⟩

/-- A pre-tokenized source (locations: end of the last token handed out or peeked). -/
structure ListTok where
  toks : List (Tok × Span)
  peeked : Bool
  last : Loc
  eof : Loc
  bad : Option Loc       -- tokenization of the text failed

def listSrc : TokSrc ListTok where
  peek s :=
    match s.bad with
    | some l => .error ⟨l⟩
    | none =>
      match s.toks with
      | [] => .ok (none, { s with last := s.eof })
      | t :: _ => .ok (some t, { s with peeked := true, last := t.2.e })
  next s :=
    match s.bad with
    | some l => .error ⟨l⟩
    | none =>
      match s.toks with
      | [] => .ok (none, { s with last := s.eof })
      | t :: rest => .ok (some t, { s with toks := rest, peeked := false, last := t.2.e })
  loc s := s.last
  ofText src :=
    match tokenize src with
    | .ok l => ⟨l.toks, false, ⟨0, 0⟩, l.eofLoc, none⟩
    | .error e => ⟨[], false, ⟨0, 0⟩, ⟨0, 0⟩, some e.loc⟩

/-- A syntax error (location as the real code would report it, best effort). -/
structure PErr where
  loc : Loc

def maxNesting : Nat := 32
def minIntMagnitude : Nat := 9223372036854775808

structure PS (σ : Type) where
  ts : σ
  depth : Nat
  minLit : Bool

abbrev PRes (σ : Type) (α : Type) := Except PErr (α × PS σ)

section
variable {σ : Type} (T : TokSrc σ)

def pPeek (ps : PS σ) : PRes σ (Option (Tok × Span)) :=
  match T.peek ps.ts with
  | .error e => .error ⟨e.loc⟩
  | .ok (t, ts) => .ok (t, { ps with ts := ts })

def pNext (ps : PS σ) : PRes σ (Option (Tok × Span)) :=
  match T.next ps.ts with
  | .error e => .error ⟨e.loc⟩
  | .ok (t, ts) => .ok (t, { ps with ts := ts })

def pFail {α} (ps : PS σ) : PRes σ α := .error ⟨T.loc ps.ts⟩

def enter {α} (ps : PS σ) (k : PS σ → PRes σ α) : PRes σ α :=
  if ps.depth ≥ maxNesting then .error ⟨T.loc ps.ts⟩
  else
    match k { ps with depth := ps.depth + 1 } with
    | .error e => .error e
    | .ok (a, ps') => .ok (a, { ps' with depth := ps'.depth - 1 })

def relOfTok : Tok → Option BinOp
  | .lt => some .lt | .le => some .le | .eqeq => some .eq | .ne => some .ne
  | .ge => some .ge | .gt => some .gt | .in_ => some .in_ | _ => none

def addOfTok : Tok → Option BinOp
  | .add => some .add | .minus => some .sub | _ => none

def mulOfTok : Tok → Option BinOp
  | .mul => some .mul | .div => some .div | .mod => some .mod | _ => none

def cmpOfTok : Tok → Option CmpOp
  | .eqeq => some .eq | .ne => some .neq | .gt => some .gt | .ge => some .ge
  | .lt => some .lt | .le => some .le | _ => none

/-- `MatchTypePattern::try_from_type_str` restricted to bound type names. -/
def typePatOf (name : Str) : Option TypePat :=
  let n := String.ofList name
  if n == "int" then some .int else if n == "uint" then some .uint
  else if n == "float" || n == "double" then some .float else if n == "string" then some .string
  else if n == "bool" then some .bool else if n == "bytes" then some .bytes
  else if n == "null_type" then some .null else if n == "timestamp" then some .timestamp
  else if n == "duration" then some .duration else none

def joinAll (sp : Span) (ops : List Span) : Span := ops.foldl Span.join sp

/-- The optional comparison operator in front of a match pattern (`PrefixPattern::from_token`): consumed
    when present, `==` otherwise. `t` is the token just peeked. -/
def patPrefix (t : Option (Tok × Span)) (ps1 : PS σ) : PRes σ CmpOp :=
  match t with
  | some (tk, _) =>
    (match cmpOfTok tk with
     | some op => (match pNext T ps1 with | .error e => .error e | .ok (_, p) => .ok (op, p))
     | none => .ok (.eq, ps1))
  | none => .ok (.eq, ps1)

mutual
def parseExpr : Nat → PS σ → PRes σ Ast
  | 0, ps => pFail T ps
  | f + 1, ps => enter T ps (parseExprUng f)

def parseExprUng : Nat → PS σ → PRes σ Ast
  | 0, ps => pFail T ps
  | f + 1, ps =>
    match pPeek T ps with
    | .error e => .error e
    | .ok (some (.match_, mloc), ps1) =>
      (match pNext T ps1 with
       | .error e => .error e
       | .ok (_, ps2) => parseMatch f mloc ps2)
    | .ok (_, ps1) =>
      match parseOr f ps1 with
      | .error e => .error e
      | .ok (lhs, ps2) =>
        match pPeek T ps2 with
        | .error e => .error e
        | .ok (some (.question, _), ps3) =>
          (match pNext T ps3 with
           | .error e => .error e
           | .ok (_, ps4) =>
             match parseOr f ps4 with
             | .error e => .error e
             | .ok (t, ps5) =>
               match pNext T ps5 with
               | .error e => .error e
               | .ok (some (.colon, _), ps6) =>
                 (match parseExpr f ps6 with
                  | .error e => .error e
                  | .ok (fl, ps7) => .ok (.tern (lhs.span.join fl.span) lhs t fl, ps7))
               | .ok (_, ps6) => pFail T ps6)
        | .ok (_, ps3) => .ok (lhs, ps3)

def parseMatch : Nat → Span → PS σ → PRes σ Ast
  | 0, _, ps => pFail T ps
  | f + 1, mloc, ps =>
    match parseExpr f ps with
    | .error e => .error e
    | .ok (scrut, ps1) =>
      match pNext T ps1 with
      | .error e => .error e
      | .ok (some (.lbrace, _), ps2) =>
        (match parseCases f true [] ps2 with
         | .error e => .error e
         | .ok ((cases, rb), ps3) =>
           match pNext T ps3 with
           | .error e => .error e
           | .ok (_, ps4) => .ok (.match_ ((mloc.join scrut.span).join rb) scrut cases, ps4))
      | .ok (_, ps2) => pFail T ps2

def parseCases : Nat → Bool → List MCase → PS σ → PRes σ (List MCase × Span)
  | 0, _, _, ps => pFail T ps
  | f + 1, commaSeen, acc, ps =>
    match pPeek T ps with
    | .error e => .error e
    | .ok (some (.rbrace, rb), ps1) => .ok ((acc.reverse, rb), ps1)
    | .ok (_, ps1) =>
      if !commaSeen then pFail T ps1 else
      match pNext T ps1 with
      | .error e => .error e
      | .ok (some (.case_, _), ps2) =>
        (match parsePattern f ps2 with
         | .error e => .error e
         | .ok (pat, ps3) =>
           match pNext T ps3 with
           | .error e => .error e
           | .ok (some (.colon, _), ps4) =>
             (match parseExpr f ps4 with
              | .error e => .error e
              | .ok (body, ps5) =>
                let c := MCase.mk (pat.span.join body.span) pat body
                match pPeek T ps5 with
                | .error e => .error e
                | .ok (some (.comma, _), ps6) =>
                  (match pNext T ps6 with
                   | .error e => .error e
                   | .ok (_, ps7) => parseCases f true (c :: acc) ps7)
                | .ok (_, ps6) => parseCases f false (c :: acc) ps6)
           | .ok (_, ps4) => pFail T ps4)
      | .ok (_, ps2) => pFail T ps2

def parsePattern : Nat → PS σ → PRes σ Pat
  | 0, ps => pFail T ps
  | f + 1, ps =>
    let start := T.loc ps.ts
    match pPeek T ps with
    | .error e => .error e
    | .ok (t, ps1) =>
      let cmpCase (ps1 : PS σ) : PRes σ Pat :=
        -- optional comparison prefix, then a ConditionalOr
        match patPrefix T t ps1 with
        | .error e => .error e
        | .ok (op, ps2) =>
          let opSp : Span := ⟨start, T.loc ps2.ts⟩
          match parseOr f ps2 with
          | .error e => .error e
          | .ok (e, ps3) => .ok (.cmp ⟨start, T.loc ps3.ts⟩ opSp op e, ps3)
      match t with
      | some (.ident name, isp) =>
        if name = ['_'] then
          (match pNext T ps1 with
           | .error e => .error e
           | .ok (_, ps2) => .ok (.any ⟨start, T.loc ps2.ts⟩, ps2))
        else if (typeByName name).isSome then
          (match typePatOf name with
           | none => .error ⟨isp.s⟩
           | some tp =>
             match pNext T ps1 with
             | .error e => .error e
             | .ok (_, ps2) => .ok (.type ⟨start, T.loc ps2.ts⟩ tp name, ps2))
        else cmpCase ps1
      | _ => cmpCase ps1

def parseOr : Nat → PS σ → PRes σ Ast
  | 0, ps => pFail T ps
  | f + 1, ps =>
    match parseAnd f ps with
    | .error e => .error e
    | .ok (lhs, ps1) => parseOrLoop f lhs ps1

def parseOrLoop : Nat → Ast → PS σ → PRes σ Ast
  | 0, _, ps => pFail T ps
  | f + 1, lhs, ps =>
    match pPeek T ps with
    | .error e => .error e
    | .ok (some (.oror, _), ps1) =>
      (match pNext T ps1 with
       | .error e => .error e
       | .ok (_, ps2) =>
         match parseAnd f ps2 with
         | .error e => .error e
         | .ok (rhs, ps3) => parseOrLoop f (.bin (lhs.span.join rhs.span) .or lhs rhs) ps3)
    | .ok (_, ps1) => .ok (lhs, ps1)

def parseAnd : Nat → PS σ → PRes σ Ast
  | 0, ps => pFail T ps
  | f + 1, ps =>
    match parseRel f ps with
    | .error e => .error e
    | .ok (lhs, ps1) => parseAndLoop f lhs ps1

def parseAndLoop : Nat → Ast → PS σ → PRes σ Ast
  | 0, _, ps => pFail T ps
  | f + 1, lhs, ps =>
    match pPeek T ps with
    | .error e => .error e
    | .ok (some (.andand, _), ps1) =>
      (match pNext T ps1 with
       | .error e => .error e
       | .ok (_, ps2) =>
         match parseRel f ps2 with
         | .error e => .error e
         | .ok (rhs, ps3) => parseAndLoop f (.bin (lhs.span.join rhs.span) .and lhs rhs) ps3)
    | .ok (_, ps1) => .ok (lhs, ps1)

def parseRel : Nat → PS σ → PRes σ Ast
  | 0, ps => pFail T ps
  | f + 1, ps =>
    match parseAdd f ps with
    | .error e => .error e
    | .ok (lhs, ps1) => parseRelLoop f lhs ps1

def parseRelLoop : Nat → Ast → PS σ → PRes σ Ast
  | 0, _, ps => pFail T ps
  | f + 1, lhs, ps =>
    match pPeek T ps with
    | .error e => .error e
    | .ok (t, ps1) =>
      match t.bind (fun x => relOfTok x.1) with
      | some op =>
        (match pNext T ps1 with
         | .error e => .error e
         | .ok (_, ps2) =>
           match parseAdd f ps2 with
           | .error e => .error e
           | .ok (rhs, ps3) => parseRelLoop f (.bin (lhs.span.join rhs.span) op lhs rhs) ps3)
      | none => .ok (lhs, ps1)

def parseAdd : Nat → PS σ → PRes σ Ast
  | 0, ps => pFail T ps
  | f + 1, ps =>
    match parseMul f ps with
    | .error e => .error e
    | .ok (lhs, ps1) => parseAddLoop f lhs ps1

def parseAddLoop : Nat → Ast → PS σ → PRes σ Ast
  | 0, _, ps => pFail T ps
  | f + 1, lhs, ps =>
    match pPeek T ps with
    | .error e => .error e
    | .ok (t, ps1) =>
      match t.bind (fun x => addOfTok x.1) with
      | some op =>
        (match pNext T ps1 with
         | .error e => .error e
         | .ok (_, ps2) =>
           match parseMul f ps2 with
           | .error e => .error e
           | .ok (rhs, ps3) => parseAddLoop f (.bin (lhs.span.join rhs.span) op lhs rhs) ps3)
      | none => .ok (lhs, ps1)

def parseMul : Nat → PS σ → PRes σ Ast
  | 0, ps => pFail T ps
  | f + 1, ps =>
    match parseUnary f ps with
    | .error e => .error e
    | .ok (lhs, ps1) => parseMulLoop f lhs ps1

def parseMulLoop : Nat → Ast → PS σ → PRes σ Ast
  | 0, _, ps => pFail T ps
  | f + 1, lhs, ps =>
    match pPeek T ps with
    | .error e => .error e
    | .ok (t, ps1) =>
      match t.bind (fun x => mulOfTok x.1) with
      | some op =>
        (match pNext T ps1 with
         | .error e => .error e
         | .ok (_, ps2) =>
           match parseUnary f ps2 with
           | .error e => .error e
           | .ok (rhs, ps3) => parseMulLoop f (.bin (lhs.span.join rhs.span) op lhs rhs) ps3)
      | none => .ok (lhs, ps1)

def parseUnary : Nat → PS σ → PRes σ Ast
  | 0, ps => pFail T ps
  | f + 1, ps =>
    match pPeek T ps with
    | .error e => .error e
    | .ok (some (.not, _), ps1) =>
      (match parseOpRun f .not [] ps1 with
       | .error e => .error e
       | .ok (ops, ps2) =>
         match parseMember f ps2 with
         | .error e => .error e
         | .ok (m, ps3) =>
           match ops with
           | [] => .ok (m, ps3)
           | o :: _ =>
             let runSp : Span := ⟨o.s, (ops.getLast?.getD o).e⟩
             .ok (.notRun (runSp.join m.span) ops m, ps3))
    | .ok (some (.minus, _), ps1) =>
      (match parseOpRun f .minus [] ps1 with
       | .error e => .error e
       | .ok (ops, ps2) =>
         match pPeek T ps2 with
         | .error e => .error e
         | .ok (t, ps3) =>
           let isMin := match t with | some (.intLit n, _) => n == minIntMagnitude | _ => false
           let ps4 := if isMin then { ps3 with minLit := true } else ps3
           match parseMember f ps4 with
           | .error e => .error e
           | .ok (m, ps5) =>
             match ops with
             | [] => .ok (m, ps5)
             | o :: _ =>
               let runSp : Span := ⟨o.s, (ops.getLast?.getD o).e⟩
               .ok (.negRun (m.span.join runSp) ops m, ps5))
    | .ok (_, ps1) => parseMember f ps1

/-- `parse_not_list` / `parse_neg_list`: a run of one operator token; returns the operators' spans. -/
def parseOpRun : Nat → Tok → List Span → PS σ → PRes σ (List Span)
  | 0, _, _, ps => pFail T ps
  | f + 1, op, acc, ps =>
    match pPeek T ps with
    | .error e => .error e
    | .ok (some (t, sp), ps1) =>
      if t = op then
        (match pNext T ps1 with
         | .error e => .error e
         | .ok (_, ps2) =>
           -- the recursive call of the real parser is guarded by the nesting counter
           if ps2.depth ≥ maxNesting then .error ⟨T.loc ps2.ts⟩
           else
             match parseOpRun f op (sp :: acc) { ps2 with depth := ps2.depth + 1 } with
             | .error e => .error e
             | .ok (r, ps3) => .ok (r, { ps3 with depth := ps3.depth - 1 }))
      else .ok (acc.reverse, ps1)
    | .ok (none, ps1) => .ok (acc.reverse, ps1)

def parseMember : Nat → PS σ → PRes σ Ast
  | 0, ps => pFail T ps
  | f + 1, ps =>
    match parsePrimary f ps with
    | .error e => .error e
    | .ok (p, ps1) => parseMemberLoop f p [] ps1

def parseMemberLoop : Nat → Prim → List MOp → PS σ → PRes σ Ast
  | 0, _, _, ps => pFail T ps
  | f + 1, p, acc, ps =>
    let done (ps : PS σ) : PRes σ Ast :=
      let chain := acc.reverse
      .ok (.member (joinAll p.span (chain.map MOp.span)) p chain, ps)
    match pPeek T ps with
    | .error e => .error e
    | .ok (some (.dot, dsp), ps1) =>
      (match pNext T ps1 with
       | .error e => .error e
       | .ok (_, ps2) =>
         match pNext T ps2 with
         | .error e => .error e
         | .ok (some (.ident name, isp), ps3) =>
           parseMemberLoop f p (.access (dsp.join isp) isp name :: acc) ps3
         | .ok (_, ps3) => pFail T ps3)
    | .ok (some (.lparen, lsp), ps1) =>
      (match pNext T ps1 with
       | .error e => .error e
       | .ok (_, ps2) =>
         match parseExprList f .rparen [] ps2 with
         | .error e => .error e
         | .ok (args, ps3) =>
           match pNext T ps3 with
           | .error e => .error e
           | .ok (some (.rparen, rsp), ps4) =>
             parseMemberLoop f p (.call (lsp.join rsp) args.reverse :: acc) ps4
           | .ok (_, ps4) => pFail T ps4)
    | .ok (some (.lbracket, lsp), ps1) =>
      (match pNext T ps1 with
       | .error e => .error e
       | .ok (_, ps2) =>
         match parseExpr f ps2 with
         | .error e => .error e
         | .ok (ix, ps3) =>
           match pNext T ps3 with
           | .error e => .error e
           | .ok (some (.rbracket, rsp), ps4) =>
             parseMemberLoop f p (.index (lsp.join rsp) ix :: acc) ps4
           | .ok (_, ps4) => pFail T ps4)
    | .ok (_, ps1) => done ps1

/-- `parse_expression_list(ending)`: expressions in source order. -/
def parseExprList : Nat → Tok → List Ast → PS σ → PRes σ (List Ast)
  | 0, _, _, ps => pFail T ps
  | f + 1, ending, acc, ps =>
    match pPeek T ps with
    | .error e => .error e
    | .ok (t, ps1) =>
      if (t.map (·.1)) = some ending then .ok (acc.reverse, ps1)
      else
        match parseExpr f ps1 with
        | .error e => .error e
        | .ok (e, ps2) =>
          match pPeek T ps2 with
          | .error e => .error e
          | .ok (some (.comma, _), ps3) =>
            (match pNext T ps3 with
             | .error e => .error e
             | .ok (_, ps4) => parseExprList f ending (e :: acc) ps4)
          | .ok (_, ps3) => .ok ((e :: acc).reverse, ps3)

def parseObjInits : Nat → List MInit → PS σ → PRes σ (List MInit)
  | 0, _, ps => pFail T ps
  | f + 1, acc, ps =>
    match pPeek T ps with
    | .error e => .error e
    | .ok (some (.rbrace, _), ps1) => .ok (acc.reverse, ps1)
    | .ok (_, ps1) =>
      match parseExpr f ps1 with
      | .error e => .error e
      | .ok (k, ps2) =>
        match pNext T ps2 with
        | .error e => .error e
        | .ok (some (.colon, _), ps3) =>
          (match parseExpr f ps3 with
           | .error e => .error e
           | .ok (v, ps4) =>
             let i := MInit.mk (k.span.join v.span) k v
             match pPeek T ps4 with
             | .error e => .error e
             | .ok (some (.comma, _), ps5) =>
               (match pNext T ps5 with
                | .error e => .error e
                | .ok (_, ps6) => parseObjInits f (i :: acc) ps6)
             | .ok (_, ps5) => .ok ((i :: acc).reverse, ps5))
        | .ok (_, ps3) => pFail T ps3

/-- Format-string segments: every expression segment is compiled by a nested compiler that inherits
    the nesting depth and does not insist on consuming all of the segment. -/
def parseSegs : Nat → Nat → List FSeg → Except PErr (List FSegAst)
  | 0, _, _ => .error ⟨⟨0, 0⟩⟩
  | _ + 1, _, [] => .ok []
  | f + 1, depth, .lit s :: rest =>
    (match parseSegs f depth rest with
     | .error e => .error e
     | .ok r => .ok (.lit s :: r))
  | f + 1, depth, .expr src :: rest =>
    (match parseExpr f { ts := T.ofText src, depth := depth, minLit := false } with
     | .error e => .error e
     | .ok (e, _) =>
       match parseSegs f depth rest with
       | .error er => .error er
       | .ok r => .ok (.expr src e :: r))

def parsePrimary : Nat → PS σ → PRes σ Prim
  | 0, ps => pFail T ps
  | f + 1, ps =>
    match pNext T ps with
    | .error e => .error e
    | .ok (some (.ident name, sp), ps1) => .ok (.ident sp name, ps1)
    | .ok (some (.lparen, lsp), ps1) =>
      (match parseExpr f ps1 with
       | .error e => .error e
       | .ok (e, ps2) =>
         match pNext T ps2 with
         | .error er => .error er
         | .ok (some (.rparen, rsp), ps3) => .ok (.parens (lsp.join rsp) e, ps3)
         | .ok (some (_, tsp), _) => .error ⟨tsp.s⟩     -- the unexpected token
         | .ok (none, _) => .error ⟨lsp.s⟩)             -- the open parenthesis
    | .ok (some (.lbracket, lsp), ps1) =>
      (match parseExprList f .rbracket [] ps1 with
       | .error e => .error e
       | .ok (es, ps2) =>
         match pPeek T ps2 with
         | .error e => .error e
         | .ok (some (.rbracket, rsp), ps3) =>
           (match pNext T ps3 with
            | .error e => .error e
            | .ok (_, ps4) => .ok (.list (lsp.join rsp) es, ps4))
         | .ok (_, ps3) => pFail T ps3)
    | .ok (some (.lbrace, lsp), ps1) =>
      (match parseObjInits f [] ps1 with
       | .error e => .error e
       | .ok (inits, ps2) =>
         match pPeek T ps2 with
         | .error e => .error e
         | .ok (some (.rbrace, rsp), ps3) =>
           (match pNext T ps3 with
            | .error e => .error e
            | .ok (_, ps4) => .ok (.map (lsp.join rsp) inits, ps4))
         | .ok (_, ps3) => pFail T ps3)
    | .ok (some (.uintLit n, sp), ps1) => .ok (.uint sp n, ps1)
    | .ok (some (.intLit n, sp), ps1) =>
      let negatedMin := ps1.minLit
      let ps2 := { ps1 with minLit := false }
      if (n : Int) ≤ i64Max then .ok (.int sp n, ps2)
      else if negatedMin && n == minIntMagnitude then .ok (.int sp i64Min, ps2)
      else .error ⟨sp.s⟩
    | .ok (some (.floatLit b, sp), ps1) => .ok (.float sp b, ps1)
    | .ok (some (.strLit s, sp), ps1) => .ok (.str sp s, ps1)
    | .ok (some (.bytesLit b, sp), ps1) => .ok (.bytes sp b, ps1)
    | .ok (some (.fstrLit segs, sp), ps1) =>
      -- an error inside a segment is reported at the start of the format string (the nested compiler's
      -- own line/column are relative to the segment text)
      (match parseSegs f ps1.depth segs with
       | .error _ => .error ⟨sp.s⟩
       | .ok sa => .ok (.fstr sp sa, ps1))
    | .ok (some (.boolLit b, sp), ps1) => .ok (.bool sp b, ps1)
    | .ok (some (.null, sp), ps1) => .ok (.null sp, ps1)
    | .ok (_, ps1) => pFail T ps1
end

/-- Recursion fuel that is always sufficient: one unit per grammar level and loop iteration. -/
def parseFuel (srcLen : Nat) : Nat := srcLen * 4 + 2000

/-- `CelCompiler::compile` (syntax side) on a token source: one expression, then end of input. -/
def parseFrom (fuel : Nat) (ts : σ) : Except PErr Ast :=
  match parseExpr T fuel { ts := ts, depth := 0, minLit := false } with
  | .error e => .error e
  | .ok (a, ps) =>
    match pPeek T ps with
    | .error e => .error e
    | .ok (none, _) => .ok a
    | .ok (some _, ps') => .error ⟨T.loc ps'.ts⟩

def parseProgram (src : Str) : Except PErr Ast :=
  parseFrom T (parseFuel src.length) (T.ofText src)

end

end Rscel
