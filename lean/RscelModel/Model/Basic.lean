/-
Basic definitions shared by the whole model: error kinds (`cel_error.rs`),
integer range predicates, small list helpers.  Core Lean only.
-/
namespace Rscel

/-- The ten variants of `CelError` (payloads dropped: messages are never compared). -/
inductive ErrKind
  | misc | syntax | value | argument | invalidOp | runtime | binding | attribute | divZero | internal
  deriving DecidableEq, Repr, Inhabited

def ErrKind.name : ErrKind → String
  | .misc => "misc" | .syntax => "syntax" | .value => "value" | .argument => "argument"
  | .invalidOp => "invalidOp" | .runtime => "runtime" | .binding => "binding"
  | .attribute => "attribute" | .divZero => "divZero" | .internal => "internal"

def i64Min : Int := -9223372036854775808
def i64Max : Int := 9223372036854775807
def u64Max : Nat := 18446744073709551615

/-- `i64` range as a decidable predicate. -/
def inI64 (i : Int) : Bool := decide (i64Min ≤ i) && decide (i ≤ i64Max)
/-- `u64` range as a decidable predicate. -/
def inU64 (n : Int) : Bool := decide (0 ≤ n) && decide (n ≤ (u64Max : Int))

theorem inI64_iff (i : Int) : inI64 i = true ↔ (-9223372036854775808 ≤ i ∧ i ≤ 9223372036854775807) := by
  unfold inI64 i64Min i64Max; rw [Bool.and_eq_true, decide_eq_true_eq, decide_eq_true_eq]

theorem inU64_iff (i : Int) : inU64 i = true ↔ (0 ≤ i ∧ i ≤ 18446744073709551615) := by
  unfold inU64 u64Max; rw [Bool.and_eq_true, decide_eq_true_eq, decide_eq_true_eq]; rfl

abbrev Str := List Char

/-- Lexicographic strict order on strings by code point (equals Rust's byte order on UTF-8). -/
def strLt : Str → Str → Bool
  | [], [] => false
  | [], _ :: _ => true
  | _ :: _, [] => false
  | a :: as, b :: bs => if a.val < b.val then true else if b.val < a.val then false else strLt as bs

/-- Lexicographic strict order on byte strings. -/
def bytesLt : List UInt8 → List UInt8 → Bool
  | [], [] => false
  | [], _ :: _ => true
  | _ :: _, [] => false
  | a :: as, b :: bs => if a < b then true else if b < a then false else bytesLt as bs

/-- UTF-8 width of a scalar value (Rust `char::len_utf8`). -/
def utf8Width (c : Char) : Nat :=
  if c.val < 0x80 then 1 else if c.val < 0x800 then 2 else if c.val < 0x10000 then 3 else 4

/-- UTF-8 length of a string (Rust `str::len`). -/
def utf8Len (s : Str) : Nat := (s.map utf8Width).sum

end Rscel
