import RscelModel.Model.VM
/-
Built-in functions and type constructors with their `#[dispatch]` overload resolution
(`rscel-macro/src/types/dispatch_*.rs`): the first overload whose receiver pattern matches `this`
(a function declared without `this` requires `this == Null`), whose number of parameters is the number
of arguments passed and whose parameter patterns match the arguments runs; otherwise an Argument error.
(The generated code pads the arguments with Null up to the widest overload and answers "too many
arguments" beyond that, also an Argument error; since every arm is guarded by the number of arguments
actually passed, the padding is never observable and is not modelled.)
-/
namespace Rscel

inductive Tag | int | uint | double | bool | str | bytes | list | map | ts | dur | any
  deriving DecidableEq, Repr

def Tag.matches : Tag → Val → Bool
  | .int, .int _ | .uint, .uint _ | .double, .float _ | .bool, .bool _ | .str, .str _
  | .bytes, .bytes _ | .list, .list _ | .map, .map _ | .ts, .ts _ | .dur, .dur _ => true
  | .any, _ => true
  | _, _ => false

structure Overload where
  this : Option Tag          -- none: declared without `this`, receiver must be Null
  args : List Tag
  run : Val → List Val → Val

def isNull : Val → Bool
  | .null => true
  | _ => false

/-- One pattern per argument, same length. -/
def argsMatch : List Tag → List Val → Bool
  | [], [] => true
  | t :: ts, v :: vs => t.matches v && argsMatch ts vs
  | _, _ => false

def Overload.accepts (o : Overload) (this : Val) (args : List Val) : Bool :=
  (match o.this with
   | none => isNull this
   | some t => t.matches this) && argsMatch o.args args

/-- The generated `dispatch` function. -/
def dispatch (os : List Overload) (this : Val) (args : List Val) : Val :=
  match os.find? (fun o => o.accepts this args) with
  | some o => o.run this args
  | none => .err .argument

def sizeOverloads : List Overload :=
  [ ⟨some .str, [], fun t _ => match t with | .str s => .uint (utf8Len s) | _ => .err .internal⟩,
    ⟨some .bytes, [], fun t _ => match t with | .bytes b => .uint b.length | _ => .err .internal⟩,
    ⟨some .list, [], fun t _ => match t with | .list l => .uint l.length | _ => .err .internal⟩,
    ⟨none, [.str], fun _ a => match a with | .str s :: _ => .uint (utf8Len s) | _ => .err .internal⟩,
    ⟨none, [.bytes], fun _ a => match a with | .bytes b :: _ => .uint b.length | _ => .err .internal⟩,
    ⟨none, [.list], fun _ a => match a with | .list l :: _ => .uint l.length | _ => .err .internal⟩ ]

def sortOverloads : List Overload :=
  [ ⟨some .list, [], fun t _ => match t with | .list l => sortList l | _ => .err .internal⟩ ]

/-- `zip`. -/
def zipLists : List (List Val) → List Val
  | [] => []
  | ls =>
    let n := (ls.map List.length).foldl min (ls.head!.length)
    (List.range n).map fun i => .list (ls.map fun l => l.getD i .null)

def allLists : List Val → Option (List (List Val))
  | [] => some []
  | .list l :: rest => (allLists rest).map (l :: ·)
  | _ :: _ => none

def zipImpl (args : List Val) : Val :=
  match allLists args with
  | none => .err .value
  | some ls => .list (zipLists ls)

/-- type(): `as_type`. -/
def typeOverloads : List Overload :=
  [ ⟨none, [.any], fun _ a => match a with | v :: _ => v.asType | [] => .err .internal⟩ ]

def dynOverloads : List Overload :=
  [ ⟨none, [.any], fun _ a => match a with | v :: _ => v | [] => .err .internal⟩ ]

def boolOfString (s : Str) : Val :=
  let t := String.ofList s
  if t == "1" || t == "t" || t == "true" || t == "TRUE" || t == "True" then .bool true
  else if t == "0" || t == "f" || t == "false" || t == "FALSE" || t == "False" then .bool false
  else .bool (!s.isEmpty)

def boolOverloads : List Overload :=
  [ ⟨none, [.bool], fun _ a => match a with | v :: _ => v | [] => .err .internal⟩,
    ⟨none, [.str], fun _ a => match a with | .str s :: _ => boolOfString s | _ => .err .internal⟩,
    ⟨none, [.any], fun _ a => match a with | v :: _ => .bool (truthy v) | [] => .err .internal⟩ ]

end Rscel

namespace Rscel

/-! ### conversions (first part: integral, bytes, string of integral; the rest is in `Conv.lean`) -/

def digitVal (c : Char) : Option Nat :=
  if '0' ≤ c ∧ c ≤ '9' then some (c.toNat - 48) else none

/-- Decimal digits only, at least one. -/
def parseNatDigits : List Char → Option Nat
  | [] => none
  | cs => cs.foldlM (fun acc c => (digitVal c).map (fun d => acc * 10 + d)) 0

/-- One optional sign, then digits only. -/
def parseSigned : Str → Option Int
  | '-' :: rest => (parseNatDigits rest).map (fun n => -(n : Int))
  | '+' :: rest => (parseNatDigits rest).map (fun n => (n : Int))
  | cs => (parseNatDigits cs).map (fun n => (n : Int))

/-- Rust `i64::from_str`: one optional sign, digits, range check. -/
def parseI64 (s : Str) : Option Int :=
  (parseSigned s).bind fun i => if inI64 i then some i else none

/-- One optional `+`, then digits only. -/
def parseUnsigned : Str → Option Nat
  | '+' :: rest => parseNatDigits rest
  | cs => parseNatDigits cs

/-- Rust `u64::from_str`: optional `+`, digits, range check. -/
def parseU64 (s : Str) : Option Nat :=
  (parseUnsigned s).bind fun n => if n ≤ u64Max then some n else none

def natToStr (n : Nat) : Str := (toString n).toList
def intToStr (i : Int) : Str := (toString i).toList

def intOverloads : List Overload :=
  [ ⟨none, [.int], fun _ a => match a with | v :: _ => v | [] => .err .internal⟩,
    ⟨none, [.uint], fun _ a => match a with
      | .uint n :: _ => if (n : Int) ≤ i64Max then .int n else .err .value | _ => .err .internal⟩,
    ⟨none, [.double], fun _ a => match a with | .float d :: _ => .int (F.toIntSat d) | _ => .err .internal⟩,
    ⟨none, [.bool], fun _ a => match a with | .bool b :: _ => .int (b01 b) | _ => .err .internal⟩,
    ⟨none, [.str], fun _ a => match a with
      | .str s :: _ => (match parseI64 s with | some i => .int i | none => .err .value) | _ => .err .internal⟩,
    ⟨none, [.ts], fun _ a => match a with
      | .ts n :: _ => .int (n / 1000000000) | _ => .err .internal⟩ ]

def uintOverloads : List Overload :=
  [ ⟨none, [.uint], fun _ a => match a with | v :: _ => v | [] => .err .internal⟩,
    ⟨none, [.int], fun _ a => match a with
      | .int i :: _ => if i < 0 then .err .value else .uint i.toNat | _ => .err .internal⟩,
    ⟨none, [.double], fun _ a => match a with | .float d :: _ => .uint (F.toNatSat d) | _ => .err .internal⟩,
    ⟨none, [.bool], fun _ a => match a with | .bool b :: _ => .uint (b01n b) | _ => .err .internal⟩,
    ⟨none, [.str], fun _ a => match a with
      | .str s :: _ => (match parseU64 s with | some n => .uint n | none => .err .value) | _ => .err .internal⟩ ]

/-- UTF-8 encoding of a string (`String::into_bytes`). -/
def utf8Enc (s : Str) : List UInt8 := (String.ofList s).toUTF8.data.toList

/-- UTF-8 validation + decoding (`String::from_utf8`). -/
def utf8Decode (b : List UInt8) : Option Str :=
  (ByteArray.utf8Decode? (ByteArray.mk b.toArray)).map Array.toList

def bytesOverloads : List Overload :=
  [ ⟨none, [.str], fun _ a => match a with
      | .str s :: _ => .bytes (utf8Enc s) | _ => .err .internal⟩,
    ⟨none, [.bytes], fun _ a => match a with | v :: _ => v | [] => .err .internal⟩ ]

end Rscel

namespace Rscel

def stringOverloadsBasic : List Overload :=
  [ ⟨none, [.int], fun _ a => match a with | .int i :: _ => .str (intToStr i) | _ => .err .internal⟩,
    ⟨none, [.uint], fun _ a => match a with | .uint n :: _ => .str (natToStr n) | _ => .err .internal⟩ ]

def stringOverloadsRest : List Overload :=
  [ ⟨none, [.str], fun _ a => match a with | v :: _ => v | [] => .err .internal⟩,
    ⟨none, [.bytes], fun _ a => match a with
      | .bytes b :: _ => (match utf8Decode b with | some s => .str s | none => .err .value) | _ => .err .internal⟩ ]

/-- Overloads that need number formatting / time: supplied by `Conv.lean` (`ConvExt`). -/
structure ConvExt where
  stringDouble : UInt64 → Str
  stringTs : Int → Str
  stringDur : Int → Str
  doubleOfStr : Str → Option UInt64
  tsOfStr : Str → Option Int
  durOfStr : Str → Option Int

def stringOverloads (X : ConvExt) : List Overload :=
  stringOverloadsBasic ++
  [ ⟨none, [.double], fun _ a => match a with | .float d :: _ => .str (X.stringDouble d) | _ => .err .internal⟩ ] ++
  stringOverloadsRest ++
  [ ⟨none, [.ts], fun _ a => match a with | .ts n :: _ => .str (X.stringTs n) | _ => .err .internal⟩,
    ⟨none, [.dur], fun _ a => match a with | .dur n :: _ => .str (X.stringDur n) | _ => .err .internal⟩,
    ⟨none, [.any], fun _ _ => .err .value⟩ ]

def doubleOverloads (X : ConvExt) : List Overload :=
  [ ⟨none, [.double], fun _ a => match a with | v :: _ => v | [] => .err .internal⟩,
    ⟨none, [.int], fun _ a => match a with | .int i :: _ => .float (F.ofInt i) | _ => .err .internal⟩,
    ⟨none, [.uint], fun _ a => match a with | .uint n :: _ => .float (F.ofNat n) | _ => .err .internal⟩,
    ⟨none, [.bool], fun _ a => match a with | .bool b :: _ => .float (b01f b) | _ => .err .internal⟩,
    ⟨none, [.str], fun _ a => match a with
      | .str s :: _ => (match X.doubleOfStr s with | some d => .float d | none => .err .value) | _ => .err .internal⟩ ]

/-- `timestamp(i64)`: seconds, must be inside chrono's range. -/
def tsOfSecs (s : Int) : Val := narrowTs (s * 1000000000)

def timestampOverloads (X : ConvExt) (now : Int) : List Overload :=
  [ ⟨none, [], fun _ _ => .ts now⟩,
    ⟨none, [.str], fun _ a => match a with
      | .str s :: _ => (match X.tsOfStr s with | some n => .ts n | none => .err .value) | _ => .err .internal⟩,
    ⟨none, [.int], fun _ a => match a with | .int i :: _ => tsOfSecs i | _ => .err .internal⟩,
    ⟨none, [.uint], fun _ a => match a with
      | .uint n :: _ => if (n : Int) ≤ i64Max then tsOfSecs n else .err .value | _ => .err .internal⟩,
    ⟨none, [.ts], fun _ a => match a with | v :: _ => v | [] => .err .internal⟩ ]

/-- `Duration::new(secs, nanos)`: nanos < 10^9 and the total inside ±i64::MAX ms. -/
def durNew (secs nanos : Int) : Val :=
  if nanos < 0 || nanos ≥ 1000000000 then .err .value
  else narrowDur (secs * 1000000000 + nanos)

def durationOverloads (X : ConvExt) : List Overload :=
  [ ⟨none, [.str], fun _ a => match a with
      | .str s :: _ => (match X.durOfStr s with | some n => .dur n | none => .err .value) | _ => .err .internal⟩,
    ⟨none, [.int], fun _ a => match a with | .int i :: _ => durNew i 0 | _ => .err .internal⟩,
    ⟨none, [.dur], fun _ a => match a with | v :: _ => v | [] => .err .internal⟩,
    ⟨none, [.int, .int], fun _ a => match a with
      | .int s :: .int n :: _ => if n < 0 || n > 4294967295 then .err .value else durNew s n | _ => .err .internal⟩ ]

/-- `construct_type`. -/
def constructType (X : ConvExt) (now : Int) (tn : Str) (args : List Val) : Val :=
  let t := String.ofList tn
  if t == "bool" then dispatch boolOverloads .null args
  else if t == "int" then dispatch intOverloads .null args
  else if t == "uint" then dispatch uintOverloads .null args
  else if t == "float" || t == "double" then dispatch (doubleOverloads X) .null args
  else if t == "bytes" then dispatch bytesOverloads .null args
  else if t == "string" then dispatch (stringOverloads X) .null args
  else if t == "type" then dispatch typeOverloads .null args
  else if t == "timestamp" then dispatch (timestampOverloads X now) .null args
  else if t == "duration" then dispatch (durationOverloads X) .null args
  else if t == "dyn" then dispatch dynOverloads .null args
  else .err .runtime

/-- `min` / `max` / `zip` / `now` are plain functions without dispatch. -/
def plainFuncs (now : Int) : List (String × (Val → List Val → Val)) :=
  [ ("min", fun _ a => minOf a), ("max", fun _ a => maxOf a), ("zip", fun _ a => zipImpl a),
    ("now", fun _ a => if a.isEmpty then .ts now else .err .argument) ]

def dispatchFuncs : List (String × List Overload) :=
  [ ("size", sizeOverloads), ("sort", sortOverloads) ]

/-- Function table from plain functions, dispatch tables and the extension lists
    (`Strings.lean`, `Math.lean`; assembled in `Conv.lean`). -/
def mkBuiltins (X : ConvExt) (now : Int) (extra : List (String × List Overload))
    (extraPlain : List (String × (Val → List Val → Val)) := []) : Builtins where
  func name :=
    let n := String.ofList name
    match (plainFuncs now ++ extraPlain).find? (·.1 == n) with
    | some p => some p.2
    | none =>
      match (dispatchFuncs ++ extra).find? (·.1 == n) with
      | some p => some (dispatch p.2)
      | none => none
  ctor := constructType X now

end Rscel
