import RscelModel.Model.Basic
/-
binary64 values as `UInt64` bit patterns.

Exactly defined here (transparent to the kernel, so theorems can talk about them):
classification, the order key, equality/order, `ofInt`/`ofNat` (Rust `as f64`,
round to nearest even), `toIntSat`/`toNatSat` (Rust `as i64`/`as u64`), the exact
integer decode used by floor/ceil/round.

Not defined here (hardware IEEE-754, trusted): `+ - * /` and libm functions.  They are
Lean's `Float` primitives, which the kernel treats as opaque constants; theorems treat
them as uninterpreted functions and never unfold them.
-/
namespace Rscel
namespace F

def expBits (b : UInt64) : Nat := ((b >>> 52) &&& 0x7ff).toNat
def manBits (b : UInt64) : Nat := (b &&& 0xfffffffffffff).toNat
def signBit (b : UInt64) : Bool := (b >>> 63) != 0

def isNaN (b : UInt64) : Bool := expBits b == 0x7ff && manBits b != 0
def isInf (b : UInt64) : Bool := expBits b == 0x7ff && manBits b == 0

/-- Magnitude bits (sign cleared). -/
def mag (b : UInt64) : Nat := (b &&& 0x7fffffffffffffff).toNat

/-- Order key: IEEE order on non-NaN values is the integer order on keys; `-0` and `+0` share key 0. -/
def key (b : UInt64) : Int := if signBit b then -(mag b : Int) else (mag b : Int)

def eq (a b : UInt64) : Bool := !isNaN a && !isNaN b && decide (key a = key b)
def lt (a b : UInt64) : Bool := !isNaN a && !isNaN b && decide (key a < key b)
def isZero (b : UInt64) : Bool := mag b == 0

def posZero : UInt64 := 0
def one : UInt64 := 0x3ff0000000000000
def canonNaN : UInt64 := 0x7ff8000000000000

/-- Round a positive natural to binary64, nearest-even (Rust `u64 as f64`, `u128 as f64`). -/
def ofPosNat (m : Nat) : UInt64 :=
  let e := Nat.log2 m
  if e ≤ 52 then
    UInt64.ofNat (((e + 1023) <<< 52) + ((m <<< (52 - e)) - (1 <<< 52)))
  else
    let sh := e - 52
    let q := m >>> sh
    let r := m % (1 <<< sh)
    let half := 1 <<< (sh - 1)
    let q' := if r > half || (r == half && q % 2 == 1) then q + 1 else q
    UInt64.ofNat (((e + 1023) <<< 52) + (q' - (1 <<< 52)))

def ofNat (n : Nat) : UInt64 := if n == 0 then 0 else ofPosNat n

def ofInt (i : Int) : UInt64 :=
  if i == 0 then 0
  else if i < 0 then ofPosNat i.natAbs ||| 0x8000000000000000
  else ofPosNat i.natAbs

/-- Truncate toward zero to an integer; `none` for NaN, `some (big)` with sign for infinities is
    avoided by returning the saturating bound marker through `toIntSat`.  Exact on finite input. -/
def truncInt (b : UInt64) : Int :=
  let e := expBits b
  let m := manBits b
  if e < 1023 then 0
  else
    let sig := m + (1 <<< 52)
    let v : Nat := if e ≥ 1075 then sig <<< (e - 1075) else sig >>> (1075 - e)
    if signBit b then -(v : Int) else (v : Int)

/-- Rust `f64 as i64`: NaN ↦ 0, saturating. -/
def toIntSat (b : UInt64) : Int :=
  if isNaN b then 0
  else if isInf b then (if signBit b then i64Min else i64Max)
  else
    let t := truncInt b
    if t < i64Min then i64Min else if t > i64Max then i64Max else t

/-- Rust `f64 as u64`: NaN ↦ 0, negative ↦ 0, saturating. -/
def toNatSat (b : UInt64) : Nat :=
  if isNaN b then 0
  else if signBit b then 0
  else if isInf b then u64Max
  else
    let t := (truncInt b).toNat
    if t > u64Max then u64Max else t

/- Hardware operations (opaque to the kernel). -/
def add (a b : UInt64) : UInt64 := (Float.ofBits a + Float.ofBits b).toBits
def sub (a b : UInt64) : UInt64 := (Float.ofBits a - Float.ofBits b).toBits
def mul (a b : UInt64) : UInt64 := (Float.ofBits a * Float.ofBits b).toBits
def div (a b : UInt64) : UInt64 := (Float.ofBits a / Float.ofBits b).toBits
def neg (a : UInt64) : UInt64 := a ^^^ 0x8000000000000000

/-- `f64::abs`: clear the sign bit. -/
def abs (a : UInt64) : UInt64 := a &&& 0x7fffffffffffffff

/- libm (opaque to the kernel, trusted like `+ - * /`). -/
def sqrt (a : UInt64) : UInt64 := (Float.sqrt (Float.ofBits a)).toBits
def log10 (a : UInt64) : UInt64 := (Float.log10 (Float.ofBits a)).toBits
def log2 (a : UInt64) : UInt64 := (Float.log2 (Float.ofBits a)).toBits
def powf (a b : UInt64) : UInt64 := (Float.pow (Float.ofBits a) (Float.ofBits b)).toBits

/-- `f64::powi` = compiler-builtins `__powidf2`: square and multiply on the magnitude of the exponent,
    reciprocal at the end for a negative one. -/
def powiGo : Nat → UInt64 → Nat → UInt64 → UInt64
  | 0, _, _, acc => acc
  | fuel + 1, a, p, acc =>
    let acc' := if p % 2 == 1 then mul acc a else acc
    let p' := p / 2
    if p' == 0 then acc' else powiGo fuel (mul a a) p' acc'

def powi (a : UInt64) (b : Int) : UInt64 :=
  let r := powiGo 33 a b.natAbs one
  if b < 0 then div one r else r

/-- Is the (finite) value an integer. -/
def isIntegral (b : UInt64) : Bool :=
  let e := expBits b
  if mag b == 0 then true
  else if e < 1023 then false
  else if e ≥ 1075 then true
  else (manBits b + (1 <<< 52)) % (1 <<< (1075 - e)) == 0

/-- ⌊x⌋ of a finite value, exactly. -/
def floorInt (b : UInt64) : Int :=
  let t := truncInt b
  if signBit b && !isIntegral b then t - 1 else t

/-- ⌈x⌉ of a finite value, exactly. -/
def ceilInt (b : UInt64) : Int :=
  let t := truncInt b
  if !signBit b && !isIntegral b then t + 1 else t

/-- `f64::round` of a finite value: nearest integer, halves away from zero. -/
def roundInt (b : UInt64) : Int :=
  let e := expBits b
  let m : Nat :=
    if e < 1022 then 0
    else if e == 1022 then 1
    else if e ≥ 1075 then (truncInt b).natAbs
    else
      let sh := 1075 - e
      let sig := manBits b + (1 <<< 52)
      let q := sig >>> sh
      if sig % (1 <<< sh) ≥ (1 <<< (sh - 1)) then q + 1 else q
  if signBit b then -(m : Int) else (m : Int)

/-- `f(x) as i64` for an integer-valued `f` given exactly on finite values (`f(±inf) = ±inf`, `f(NaN) = NaN`). -/
def satOf (f : UInt64 → Int) (b : UInt64) : Int :=
  if isNaN b then 0
  else if isInf b then (if signBit b then i64Min else i64Max)
  else
    let t := f b
    if t < i64Min then i64Min else if t > i64Max then i64Max else t

end F
end Rscel
