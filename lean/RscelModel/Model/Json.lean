import RscelModel.Model.Value
import RscelModel.Model.Float
/-
`impl From<serde_json::Value> for CelValue` (`types/cel_value.rs`, used by
`BindContext::bind_params_from_json_obj`, `context/bind_context.rs`).

A `serde_json::Number` is one of `PosInt(u64)`, `NegInt(i64)` (always negative) or `Float(f64)`
(always finite).  The conversion asks `as_i64` first, then `as_u64`, then `as_f64`: a non-negative
integer becomes an `Int` when it fits `i64` and a `UInt` only above `i64::MAX`; a negative integer is an
`Int`; a number written with a fraction or exponent stays a double even when it is integral.
Objects become maps by inserting the members in order (a `serde_json::Map` has unique keys already).
-/
namespace Rscel

inductive JNum
  | pos (n : Nat)          -- `N::PosInt`, `n ≤ u64::MAX`
  | neg (i : Int)          -- `N::NegInt`, `i64::MIN ≤ i < 0`
  | float (bits : UInt64)  -- `N::Float`, finite

inductive Json
  | null
  | bool (b : Bool)
  | num (n : JNum)
  | str (s : Str)
  | arr (l : List Json)
  | obj (m : List (Str × Json))

def JNum.toVal : JNum → Val
  | .pos n => if (n : Int) ≤ i64Max then .int n else .uint n
  | .neg i => .int i
  | .float b => .float b

mutual
/-- `CelValue::from(Value)`. -/
def Json.toVal : Json → Val
  | .null => .null
  | .bool b => .bool b
  | .num n => n.toVal
  | .str s => .str s
  | .arr l => .list (Json.toVals l)
  | .obj m => .map (Json.toEntries m [])
def Json.toVals : List Json → List Val
  | [] => []
  | j :: js => j.toVal :: Json.toVals js
/-- members inserted in order into the map built so far -/
def Json.toEntries : List (Str × Json) → VMap → VMap
  | [], acc => acc
  | (k, j) :: rest, acc => Json.toEntries rest (Map.insert acc k j.toVal)
end

def finiteBits (b : UInt64) : Bool := !F.isNaN b && !F.isInf b

mutual
/-- The JSON document that spells a value, for the values JSON can spell: null, booleans, ints,
    uints above `i64::MAX` (a smaller one would read back as an int), finite doubles, strings, and
    lists / maps of those. -/
def Json.ofVal : Val → Option Json
  | .null => some .null
  | .bool b => some (.bool b)
  | .int i => if inI64 i then some (.num (if i < 0 then .neg i else .pos i.toNat)) else none
  | .uint n => if i64Max < (n : Int) ∧ n ≤ u64Max then some (.num (.pos n)) else none
  | .float b => if finiteBits b then some (.num (.float b)) else none
  | .str s => some (.str s)
  | .list l => (Json.ofVals l).map .arr
  | .map m => (Json.ofEntries m).map .obj
  | _ => none
def Json.ofVals : List Val → Option (List Json)
  | [] => some []
  | v :: vs =>
    match Json.ofVal v, Json.ofVals vs with
    | some j, some js => some (j :: js)
    | _, _ => none
def Json.ofEntries : List (Str × Val) → Option (List (Str × Json))
  | [] => some []
  | (k, v) :: rest =>
    match Json.ofVal v, Json.ofEntries rest with
    | some j, some js => some ((k, j) :: js)
    | _, _ => none
end

/-- `bind_params_from_json_obj`: only an object binds; every member becomes a parameter. -/
def bindJson (params : List (Str × Val)) : Json → Except ErrKind (List (Str × Val))
  | .obj m => .ok (m.foldl (fun ps e => (e.1, e.2.toVal) :: ps) params)
  | _ => .error .misc

end Rscel
