import RscelModel.Model.Compile
/-
`Program::params()` and `ProgramDetails::filter_from_bindings` (property C17).

The real compiler records a parameter at every `Primary::Ident` (`add_ident`, compiler.rs) and unions the
sets upward through every node kind (`compile!`, `append_result`, `from_children*`, `joined2`, the call /
f-string / match / ternary paths after the repair `34b3e0e`); the model's `identsOf` (`Compile.lean`, also
used by `check_for_const`) is that union.  `params` is the resulting set as a duplicate-free list.
-/
namespace Rscel

/-- Duplicate-free version of a list (membership preserved). -/
def dedup : List Str → List Str
  | [] => []
  | x :: xs => if x ∈ dedup xs then dedup xs else x :: dedup xs

/-- `Program::params()`. -/
def params (a : Ast) : List Str := dedup (identsOf a)

/-- `BindContext::is_bound`: bound as a parameter, a function (user or default) or a macro. -/
def Env.isBound (B : Builtins) (e : Env) (name : Str) : Bool :=
  (e.getParam name).isSome || (e.getFunc B name).isSome || e.isMacro name

/-- `ProgramDetails::filter_from_bindings` / `IdentFilterIter`. -/
def filterFromBindings (B : Builtins) (e : Env) (ps : List Str) : List Str :=
  ps.filter (fun n => !e.isBound B n)

/-! ### the independent free-identifier computation

An identifier is *read as a variable* when it stands in operand position.  The name directly in front of
an argument list (`f(..)`) is looked up as a function, macro or type only (`ByteCode::Call` takes it
unresolved), member names behind a dot are not `Primary::Ident`s at all.  Loop variables of macros are
ordinary identifiers here (a macro binds them at run time, nothing in the syntax says so). -/
mutual
def freeIdents : Ast → List Str
  | .tern _ c t f => freeIdents c ++ freeIdents t ++ freeIdents f
  | .match_ _ s cases => freeIdents s ++ freeCases cases
  | .bin _ _ l r => freeIdents l ++ freeIdents r
  | .notRun _ _ m => freeIdents m
  | .negRun _ _ m => freeIdents m
  | .member _ (.ident _ _) (.call _ args :: rest) => freeList args ++ freeOps rest
  | .member _ p chain => freePrim p ++ freeOps chain
def freePrim : Prim → List Str
  | .ident _ n => [n]
  | .parens _ e => freeIdents e
  | .list _ es => freeList es
  | .map _ inits => freeInits inits
  | .fstr _ segs => freeSegs segs
  | _ => []
def freeOps : List MOp → List Str
  | [] => []
  | .access .. :: rest => freeOps rest
  | .call _ args :: rest => freeList args ++ freeOps rest
  | .index _ e :: rest => freeIdents e ++ freeOps rest
def freeList : List Ast → List Str
  | [] => []
  | e :: es => freeIdents e ++ freeList es
def freeInits : List MInit → List Str
  | [] => []
  | .mk _ k v :: rest => freeIdents k ++ freeIdents v ++ freeInits rest
def freeCases : List MCase → List Str
  | [] => []
  | .mk _ p b :: rest => freePat p ++ freeIdents b ++ freeCases rest
def freePat : Pat → List Str
  | .cmp _ _ _ e => freeIdents e
  | _ => []
def freeSegs : List FSegAst → List Str
  | [] => []
  | .lit _ :: rest => freeSegs rest
  | .expr _ e :: rest => freeIdents e ++ freeSegs rest
end

end Rscel
